#!/usr/bin/env python3
"""Regenerate every Gen/*.lean file from /repo's current working tree (calls generate() of every property module)."""
import glob
import importlib
import os
import sys

ROOT = os.path.dirname(os.path.dirname(os.path.abspath(__file__)))
sys.path.insert(0, ROOT)
from vlib import common  # noqa: E402

for path in sorted(glob.glob(os.path.join(ROOT, "props", "c[0-9][0-9].py"))):
    pid = os.path.basename(path)[:-3].upper()
    try:
        m = importlib.import_module("props." + pid.lower())
        info = m.generate(common.Ctx(pid, "quick", 0))
        print(pid, "ok", str(info)[:160])
    except Exception as e:  # noqa
        print(pid, "FAILED", type(e).__name__, str(e)[:200])
