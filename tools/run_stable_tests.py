#!/usr/bin/env python3
"""Run the 53 stable baseline tests (ids from /root/.vp/BASELINE.json) in a given checkout of bempp-cl.
usage: run_stable_tests.py [repo_dir]     exit 0 iff all of them pass."""
import json
import os
import subprocess
import sys

repo = os.path.abspath(sys.argv[1]) if len(sys.argv) > 1 else "/repo"
base = json.load(open("/root/.vp/BASELINE.json"))
ids = []
for t in base["stable_pass"]:
    mod, name = t.split("::", 1)
    ids.append(mod.replace(".", "/") + ".py::" + name)
env = dict(os.environ, PYTHONPATH=repo + os.pathsep + os.environ.get("PYTHONPATH", ""), NUMBA_NUM_THREADS="4")
cmd = ["/venv/bin/python", "-m", "pytest", "-q", "-p", "no:cacheprovider", "--timeout=1800", "-x"] + ids
p = subprocess.run(cmd, cwd=repo, env=env, capture_output=True, text=True)
tail = "\n".join(p.stdout.splitlines()[-6:])
print(tail)
sys.exit(0 if p.returncode == 0 else 1)
