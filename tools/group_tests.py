#!/usr/bin/env python3
"""Run the 53 stable baseline tests ONCE with several seeded patches applied together (they touch different code), and
record the outcome in each seed's meta.json.  usage: tools/group_tests.py <seeded dir> [<seeded dir> ...]
If the combined run fails, run the seeds one by one (tools/confirm_seed.py without --skip-tests)."""
import json
import os
import subprocess
import sys
import time

ROOT = os.path.dirname(os.path.dirname(os.path.abspath(__file__)))
dirs = sys.argv[1:]
wt = f"/tmp/grouptests-{os.getpid()}"
subprocess.run(["git", "-C", "/repo", "worktree", "add", "-f", wt, "HEAD"], capture_output=True)
try:
    applied = []
    for d in dirs:
        p = subprocess.run(["git", "-C", wt, "apply", os.path.join(ROOT, d, "patch.diff")], capture_output=True, text=True)
        if p.returncode != 0:
            print("does not apply together:", d, p.stderr[:200])
        else:
            applied.append(d)
    t0 = time.time()
    p = subprocess.run([os.path.join(ROOT, "tools", "run_stable_tests.py"), wt], capture_output=True, text=True)
    ok = p.returncode == 0
    line = (p.stdout.strip().splitlines() or ["?"])[-1][:200]
    print("tests", "pass" if ok else "FAIL", f"{time.time() - t0:.0f}s", line)
    for d in applied:
        mp = os.path.join(ROOT, d, "meta.json")
        m = json.load(open(mp)) if os.path.exists(mp) else {}
        m.setdefault("confirmed", {})["baseline_tests_pass"] = ok
        m["confirmed"]["baseline_tests_how"] = (f"53 stable tests run once with the patches of {applied} applied together "
                                                f"(disjoint code): {line}")
        json.dump(m, open(mp, "w"), indent=1)
finally:
    subprocess.run(["git", "-C", "/repo", "worktree", "remove", "--force", wt], capture_output=True)
