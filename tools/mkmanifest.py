#!/usr/bin/env python3
"""Regenerate /verif/MANIFEST.json from the property modules (props/cNN.py)."""
import importlib
import json
import os
import sys

ROOT = os.path.dirname(os.path.dirname(os.path.abspath(__file__)))
sys.path.insert(0, ROOT)
ids = [json.loads(l)["id"] for l in open(os.path.join(ROOT, "properties.jsonl"))]
checks, na = [], []
PENDING = {}
try:
    PENDING = json.load(open(os.path.join(ROOT, "tools", "not_applicable.json")))
except FileNotFoundError:
    pass
for pid in ids:
    path = os.path.join(ROOT, "props", pid.lower() + ".py")
    if not os.path.exists(path) or pid in PENDING:
        na.append(dict(property_id=pid, reason=PENDING.get(pid, "check not built yet (work in progress, see DESIGN.md section 4)")))
        continue
    m = importlib.import_module("props." + pid.lower())
    checks.append({
        "property_id": pid,
        "quick_cmd": f"./check {pid} --tier quick",
        "thorough_cmd": f"./check {pid} --tier thorough",
        "evidence_file": f"evidence/{pid}.json",
        "replay_cmd_template": f"./check {pid} --replay {{path}}",
        "engine": "lean4-proof+correspondence",
        "level_claimed": {
            "category": "proof",
            "text": m.LEVEL_TEXT,
            "design_ref": f"DESIGN.md section 4, {pid}",
        },
        "level_note": m.LEVEL_NOTE,
        "technique": m.TECHNIQUE,
    })
man = {
    "version": 1,
    "setup_cmd": "cd lean && lake build BemppVerif driver",
    "hooks": {
        "guard": "BEMPP_CL_VERIF",
        "enable": "no hooks are compiled in: the harness monkey-patches from outside; ./check exports BEMPP_CL_VERIF=1 (unused by /repo)",
        "baseline_off_cmd": "cd /repo && /venv/bin/python -m pytest -ra -q -p no:cacheprovider --timeout=900 --continue-on-collection-errors",
        "source_commits": [],
        "add_only": True,
    },
    "engines": [{
        "name": "lean4-proof+correspondence",
        "path": "check",
        "serves_properties": [c["property_id"] for c in checks],
        "kind_free_text": "Lean 4 theorems over models that are regenerated from /repo's source (ast table extraction, symbolic "
                          "tracing) or compared with the running implementation through a native line-protocol driver on every run; "
                          "a numerical oracle on the real code searches for the concrete failing input when a proof or the correspondence breaks",
    }],
    "checks": checks,
    "not_applicable": na,
    "notes": "exit 0 held / 1 VIOLATION / 2 infrastructure error.  known findings: known_findings.json.  See DESIGN.md.",
}
json.dump(man, open(os.path.join(ROOT, "MANIFEST.json"), "w"), indent=1)
print(f"{len(checks)} checks, {len(na)} not claimed")
