#!/usr/bin/env python3
"""One-off generator of lean/BemppVerif/Props/C03Rot.lean (hand-maintained afterwards): explicit polynomial statements of the
equivariance of the cross product under orthogonal matrices, with the linear_combination certificates."""
q = lambda i, j: f"q{i % 3}{j % 3}"
def rot(v, i):
    return "(" + " + ".join(f"{q(i, j)} * {v}{j}" for j in range(3)) + ")"
def cross(u, v, i):  # u, v functions index -> term
    return f"({u((i + 1) % 3)} * {v((i + 2) % 3)} - {u((i + 2) % 3)} * {v((i + 1) % 3)})"
def cof(k, j):
    return f"({q(k + 1, j + 1)} * {q(k + 2, j + 2)} - {q(k + 1, j + 2)} * {q(k + 2, j + 1)})"
a = lambda i: f"a{i}"
b = lambda i: f"b{i}"
Qa = lambda i: rot("a", i)
Qb = lambda i: rot("b", i)
c = lambda j: cross(a, b, j)
det = f"{q(0,0)} * {cof(0,0)} + {q(0,1)} * {cof(0,1)} + {q(0,2)} * {cof(0,2)}"
def hE(i, k):
    i, k = min(i, k), max(i, k)
    return f"h{i}{k}"
hyps = "\n    ".join(f"(h{i}{k} : " + " + ".join(f"{q(i, j)} * {q(k, j)}" for j in range(3)) + f" = {1 if i == k else 0})"
                     for i in range(3) for k in range(i, 3))
def goal(i, sign):
    rhs = "(" + " + ".join(f"{q(i, j)} * {c(j)}" for j in range(3)) + ")"
    return f"{cross(Qa, Qb, i)} = {'-' if sign < 0 else ''}{rhs}"
def cert(i, sign):
    t1 = "(" + " + ".join(f"{c(j)} * {q(i, j)}" for j in range(3)) + ") * hdet"
    ts = [f"(" + " + ".join(f"{cof(k, j)} * {c(j)}" for j in range(3)) + f") * {hE(i, k)}" for k in range(3)]
    return f"{t1} - " + " - ".join(ts)
out = []
for name, sign, dets, doc in (
    ("cross_rotation_equivariant", 1, "1",
     "**Rotations** (`Q Qᵀ = 1`, `det Q = 1`): `(Qa) × (Qb) = Q (a × b)`.  For the code: when every vertex of a grid is rotated,\n"
     "`normal_directions = cross(jacobian columns)` rotate with it, and so do the surface curls `n × ∇φ` and the RWG/SNC\n"
     "relation `snc = n × rwg` (the Jacobian columns themselves and hence the Piola maps `J·φ̂/|det|` are linear in the vertices).\n"
     "Together with `rotation_preserves_invariants` (distances, `(y−x)·n`, and all dot products of Jacobian columns — so the\n"
     "integration elements `sqrt det(JᵀJ)` — are unchanged) every factor of every assembled entry is invariant or co-rotates."),
    ("cross_reflection_flips", -1, "-1",
     "**Reflections** (`Q Qᵀ = 1`, `det Q = −1`): `(Qa) × (Qb) = −Q (a × b)`: a mirrored grid with unchanged vertex order has its\n"
     "normals pointing the other way relative to the mirrored geometry — the orientation flip of the property (operators with an\n"
     "odd number of normals change sign unless `swapped_normals` compensates).")):
    out.append(f"/-- {doc} -/\ntheorem {name} (q00 q01 q02 q10 q11 q12 q20 q21 q22 a0 a1 a2 b0 b1 b2 : K)\n    {hyps}\n"
               f"    (hdet : {det} = {dets}) :\n    " + " ∧\n    ".join(goal(i, sign) for i in range(3)) + " := by\n"
               "  refine ⟨?_, ?_, ?_⟩\n" + "\n".join(f"  · linear_combination {cert(i, sign)}" for i in range(3)))
print("""/-
C03 — equivariance of the geometric factors under rigid motions (complements `Props/C03.lean`).

Explicit polynomial statements over any commutative ring; certificates found by hand (cof(Q) = det(Q)·Q for Q Qᵀ = 1) and
checked by `linear_combination`.  File generated once by tools/gen_c03rot.py.
-/
import Mathlib.Tactic.Ring
import Mathlib.Tactic.LinearCombination

namespace BemppVerif.C03

variable {K : Type} [CommRing K]

""" + "\n\n".join(out) + """

/-- the Jacobian columns `v1 − v0`, `v2 − v0` (`jacobians` in `grid.py`) of a rotated and translated triangle are the rotated
columns: `Q v1 + t − (Q v0 + t) = Q (v1 − v0)`, componentwise. -/
theorem jacobian_columns_corotate (q0 q1 q2 t v00 v01 v02 v10 v11 v12 : K) :
    (q0 * v10 + q1 * v11 + q2 * v12 + t) - (q0 * v00 + q1 * v01 + q2 * v02 + t)
      = q0 * (v10 - v00) + q1 * (v11 - v01) + q2 * (v12 - v02) := by ring

/-! ### Non-vacuity: the quarter turn about the z axis is a rotation, the mirror `z ↦ −z` a reflection (over ℤ), and the
conclusions are the concrete cross products -/

example := cross_rotation_equivariant (K := ℤ) 0 (-1) 0 1 0 0 0 0 1 1 2 3 (-1) 0 2
  (by decide) (by decide) (by decide) (by decide) (by decide) (by decide) (by decide)

example := cross_reflection_flips (K := ℤ) 1 0 0 0 1 0 0 0 (-1) 1 2 3 (-1) 0 2
  (by decide) (by decide) (by decide) (by decide) (by decide) (by decide) (by decide)

end BemppVerif.C03""")
