#!/usr/bin/env python3
"""Markdown table 'what each check did on its last run on /repo' from evidence/*.json and props/cNN.py."""
import glob
import importlib
import json
import os
import sys

ROOT = os.path.dirname(os.path.dirname(os.path.abspath(__file__)))
sys.path.insert(0, ROOT)
print("| id | obligations (discharged) | theorem groups | cases (non-trivial) | known findings hit | tier, wall s |")
print("|---|---|---|---|---|---|")
for f in sorted(glob.glob(os.path.join(ROOT, "evidence", "C*.json"))):
    e = json.load(open(f))
    c = e["coverage"]
    groups = {}
    for t in c.get("theorems", []):
        parts = t.split(".")
        g = parts[1] if len(parts) > 2 else parts[0]
        groups[g] = groups.get(g, 0) + 1
    gtxt = ", ".join(f"{k} {v}" for k, v in sorted(groups.items(), key=lambda kv: -kv[1])[:6])
    print(f"| {e['property_id']} | {c.get('obligations')} ({c.get('discharged')}) | {gtxt} | "
          f"{c.get('evaluations')} ({c.get('distinct_nontrivial')}) | {', '.join(c.get('known_findings_hit', [])) or '-'} | "
          f"{e.get('tier')}, {e.get('wall_s')} |")
