#!/bin/sh
# usage: tools/run_seed.sh <property id> <seeded dir> [tier]
# Applies seeded/<dir>/patch.diff to a scratch worktree of /repo (never to /repo itself while other work is running),
# runs the property's check against it with BEMPP_REPO, prints the verdict lines and removes the worktree.
# Equivalent on the real tree:  git -C /repo apply <patch>; ./check <id>; git -C /repo checkout -- .
set -u
ID="$1"; DIR="$2"; TIER="${3:-quick}"
HERE="$(cd "$(dirname "$0")/.." && pwd)"
WT="/tmp/seedrun-$ID-$$"
git -C /repo worktree add -f "$WT" HEAD >/dev/null 2>&1 || exit 2
if ! git -C "$WT" apply "$HERE/$DIR/patch.diff"; then echo "patch does not apply"; git -C /repo worktree remove --force "$WT"; exit 2; fi
cd "$HERE" && BEMPP_REPO="$WT" ./check "$ID" --tier "$TIER" > "/tmp/seedrun-$ID-$$.log" 2>&1
RC=$?
grep -E "VIOLATION|KNOWN-FINDING|done:|INFRASTRUCTURE" "/tmp/seedrun-$ID-$$.log"
echo "exit=$RC log=/tmp/seedrun-$ID-$$.log"
git -C /repo worktree remove --force "$WT"
# regenerate the Gen files from the real tree so that the next run (and commits) see the unmodified sources
exit $RC
