#!/usr/bin/env python3
"""Copy a delivered seeded change (patch + demo) from a scratch worktree into seeded/<name>/ with a meta.json stub.
usage: tools/import_seed.py <name> <property> <patch> <demo> <what> <needs>"""
import json, os, shutil, sys
ROOT = os.path.dirname(os.path.dirname(os.path.abspath(__file__)))
name, pid, patch, demo, what, needs = sys.argv[1:7]
d = os.path.join(ROOT, "seeded", name)
os.makedirs(d, exist_ok=True)
shutil.copy(patch, os.path.join(d, "patch.diff"))
shutil.copy(demo, os.path.join(d, "demo.py"))
mp = os.path.join(d, "meta.json")
meta = json.load(open(mp)) if os.path.exists(mp) else {}
meta.update(property=pid, author=f"independent sub-agent (seed-{pid.lower()}), given only the property text and a scratch worktree",
            what=what, needs_to_manifest=needs)
json.dump(meta, open(mp, "w"), indent=1)
print(d)
