#!/usr/bin/env python3
"""Markdown table of the seeded changes and what the checks reported (from seeded/*/meta.json)."""
import glob
import json
import os

ROOT = os.path.dirname(os.path.dirname(os.path.abspath(__file__)))
rows = []
for mp in sorted(glob.glob(os.path.join(ROOT, "seeded", "*", "meta.json"))):
    m = json.load(open(mp))
    name = os.path.basename(os.path.dirname(mp))
    chk = m.get("check", {})
    rep = chk.get("first_replay") or {}
    conf = m.get("confirmed", {})
    if not chk:
        verdict = "not run yet"
    elif chk.get("detected"):
        verdict = ("VIOLATION, concrete input `%s`" % rep.get("key")) if rep.get("kind") == "counterexample" else \
                  ("VIOLATION no-failing-input-found (%s)" % ", ".join(t.split(".")[-1] for t in rep.get("failed_theorems", [])[:3]))
    else:
        verdict = "MISSED (exit %s)" % chk.get("exit")
    if m.get("history"):
        verdict += " — AFTER the check was strengthened/repaired (first run: " + ("exit 2" if "exit 2" in m["history"] else "missed") + ")"
    rows.append(f"| {name} | {m.get('property')} | {m.get('what', '')[:170]} | {m.get('needs_to_manifest', '')[:150]} | "
                f"demo {conf.get('demo_clean_exit')}/{conf.get('demo_changed_exit')}, tests {conf.get('baseline_tests_pass')} | {verdict} |")
print("| seed | property | change | needs | confirmed (demo clean/changed exit, 53 tests) | check verdict |")
print("|---|---|---|---|---|---|")
print("\n".join(rows))
