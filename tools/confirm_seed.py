#!/usr/bin/env python3
"""Confirm and evaluate a seeded change.

usage: tools/confirm_seed.py <seeded dir> <property id> <demo file name> [--skip-tests] [--tier quick]

In a scratch worktree of /repo (never /repo itself while other work is running):
  1. demo on the clean tree must exit 0;
  2. `git apply patch.diff`; demo must exit non-zero;
  3. the 53 stable baseline tests must pass with the patch (tools/run_stable_tests.py);
  4. the property's check is run against the patched tree (BEMPP_REPO) and its verdict recorded.
Results are merged into <seeded dir>/meta.json.  Equivalent on the real tree:
  git -C /repo apply <patch>; ./check <id>; git -C /repo checkout -- .
"""
import json
import os
import shutil
import subprocess
import sys
import time

ROOT = os.path.dirname(os.path.dirname(os.path.abspath(__file__)))


def sh(cmd, cwd=None, env=None, timeout=None):
    e = dict(os.environ)
    if env:
        e.update(env)
    p = subprocess.run(cmd, cwd=cwd, env=e, capture_output=True, text=True, timeout=timeout)
    return p.returncode, (p.stdout + p.stderr)


def main():
    sd, pid, demo = sys.argv[1], sys.argv[2].upper(), sys.argv[3]
    skip_tests = "--skip-tests" in sys.argv
    tier = sys.argv[sys.argv.index("--tier") + 1] if "--tier" in sys.argv else "quick"
    patch = os.path.join(ROOT, sd, "patch.diff")
    demo_path = os.path.join(ROOT, sd, demo)
    meta_path = os.path.join(ROOT, sd, "meta.json")
    meta = json.load(open(meta_path)) if os.path.exists(meta_path) else {}
    wt = f"/tmp/confirm-{pid}-{os.getpid()}"
    sh(["git", "-C", "/repo", "worktree", "add", "-f", wt, "HEAD"])
    ran = []
    try:
        env = {"PYTHONPATH": wt, "NUMBA_NUM_THREADS": "4"}
        import shutil
        demo_path = shutil.copy(demo_path, os.path.join(wt, "_seed_demo.py"))  # some demos locate the repo by their own path
        for extra in os.listdir(os.path.join(ROOT, sd)):  # helper packages a demo brings along (e.g. an exafmm stand-in)
            if extra.startswith("_") and os.path.isdir(os.path.join(ROOT, sd, extra)):
                shutil.copytree(os.path.join(ROOT, sd, extra), os.path.join(wt, extra), dirs_exist_ok=True)
        rc0, out0 = sh(["/venv/bin/python", demo_path], cwd=wt, env=env, timeout=7200)
        ran.append(f"demo on clean tree: exit {rc0}")
        rca, outa = sh(["git", "-C", wt, "apply", patch])
        ran.append(f"git apply patch.diff: exit {rca}")
        if rca != 0:
            print(outa)
        rc1, out1 = sh(["/venv/bin/python", demo_path], cwd=wt, env=env, timeout=7200)
        ran.append(f"demo with the change: exit {rc1}")
        tests = None
        if not skip_tests:
            t0 = time.time()
            rct, outt = sh([os.path.join(ROOT, "tools", "run_stable_tests.py"), wt], timeout=6 * 3600)
            tests = rct == 0
            ran.append(f"53 stable baseline tests with the change: {'pass' if tests else 'FAIL'} ({time.time() - t0:.0f}s): "
                       + outt.strip().splitlines()[-1][:160])
        t0 = time.time()
        rcc, outc = sh([os.path.join(ROOT, "check"), pid, "--tier", tier], cwd=ROOT, env={"BEMPP_REPO": wt}, timeout=6 * 3600)
        open(f"/tmp/checkout_{os.path.basename(sd.rstrip('/'))}.log", "w").write(outc)
        verdict = [l for l in outc.splitlines() if l.startswith(("VIOLATION", "KNOWN-FINDING")) or "done:" in l]
        ran.append(f"BEMPP_REPO=<patched worktree> ./check {pid} --tier {tier}: exit {rcc} ({time.time() - t0:.0f}s)")
        replay = None
        for l in verdict:
            if l.startswith("VIOLATION") and "replay=" in l:
                rp = l.split("replay=")[1].split()[0]
                try:
                    r = json.load(open(rp))
                    replay = dict(kind=r.get("kind"), key=r.get("key"), what=(r.get("what") or "")[:300],
                                  failed_theorems=r.get("failed_theorems", [])[:8],
                                  no_failing_input_found="no-failing-input-found" in l)
                except Exception:  # noqa
                    pass
                break
        meta = json.load(open(meta_path)) if os.path.exists(meta_path) else meta  # re-read: group_tests may have written
        conf = dict(meta.get("confirmed", {}))
        conf.update(demo_clean_exit=rc0, demo_changed_exit=rc1, patch_applies=rca == 0)
        if tests is not None or "baseline_tests_pass" not in conf:
            conf["baseline_tests_pass"] = tests
        meta.update(dict(
            property=pid, confirmed=conf,
            check=dict(exit=rcc, tier=tier, verdict_lines=verdict[:6], first_replay=replay,
                       detected=rcc == 1), what_i_ran=ran))
        json.dump(meta, open(meta_path, "w"), indent=1)
        print(json.dumps(meta["confirmed"]), json.dumps(meta["check"])[:600])
    finally:
        sh(["git", "-C", "/repo", "worktree", "remove", "--force", wt])
        # the check ran in its own copy of the Lean project (vlib/common.py: BEMPP_REPO => /tmp/verif-lean-<tree>)
        import re
        shutil.rmtree("/tmp/verif-lean-" + re.sub(r"[^A-Za-z0-9]+", "_", wt).strip("_"), ignore_errors=True)


if __name__ == "__main__":
    main()
