#!/usr/bin/env python3
"""Refresh the generated tables of DESIGN.md (between <!-- X-BEGIN --> / <!-- X-END --> markers)."""
import os
import re
import subprocess
import sys

ROOT = os.path.dirname(os.path.dirname(os.path.abspath(__file__)))
p = os.path.join(ROOT, "DESIGN.md")
s = open(p).read()
for tag, tool in (("SEEDS", "seed_report.py"), ("ASBUILT", "asbuilt.py")):
    out = subprocess.run([sys.executable, os.path.join(ROOT, "tools", tool)], capture_output=True, text=True).stdout.strip()
    s, n = re.subn(rf"<!-- {tag}-BEGIN -->.*?<!-- {tag}-END -->", lambda m: f"<!-- {tag}-BEGIN -->\n{out}\n<!-- {tag}-END -->", s, flags=re.S)
    if n != 1:
        print("marker missing:", tag)
open(p, "w").write(s)
