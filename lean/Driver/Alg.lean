/- Driver commands for the operator-algebra model (C14).

Request:  alg <pool items> prog <expr> [prog <expr> ...]
  pool items:  ndofs k n_1..n_k | npts k n_1..n_k
               op dom ran dual dense c <entries>      (rows = ndofs dual, cols = ndofs dom)
               gf space dual|-1 c <entries>           (length = ndofs of dual, or of space when dual = -1)
               pot space ncomp pts c <entries>        (rows = ncomp * npts, cols = ndofs space)
               minv ran dual <entries>                (real, rows = ndofs ran, cols = ndofs dual)
  entries: one rational per entry when c = 0, (re, im) pairs when c = 1
  expr (prefix): sc c np re im | op i | gf i | pot i | add a b | sub a b | mul a b | matmul a b | neg a | weak a
               | strong a | transpose a | adjoint a | blk m n | set i j k o | lnil | lcons g l
Answer: one item per program, separated by " | ":   <check verdict> # <run result>
-/
import Driver.Proto
import BemppVerif.Model.Alg

namespace Driver.Alg
open BemppVerif.Model.Alg Driver

abbrev P := StateT (List String) Option

def tok : P String := do
  match (← get) with
  | [] => failure
  | t :: ts => set ts; pure t

def nat : P Nat := do let t ← tok; match t.toNat? with | some n => pure n | none => failure
def int : P Int := do let t ← tok; match t.toInt? with | some n => pure n | none => failure
def rat : P Rat := do let t ← tok; match parseRat? t with | some n => pure n | none => failure
def flag : P Bool := do let n ← nat; pure (n != 0)

def entry (c : Bool) : P CRat := do
  let re ← rat
  if c then (do let im ← rat; pure ⟨re, im⟩) else pure ⟨re, 0⟩

def entries (c : Bool) : Nat → P (List CRat)
  | 0 => pure []
  | k + 1 => do let e ← entry c; let rest ← entries c k; pure (e :: rest)

def matrix (c : Bool) (m n : Nat) : Nat → P (Mat CRat)
  | 0 => pure []
  | k + 1 => do let r ← entries c n; let rest ← matrix c m n k; pure (r :: rest)

def nats : Nat → P (List Nat)
  | 0 => pure []
  | k + 1 => do let a ← nat; let rest ← nats k; pure (a :: rest)

partial def expr : P (Expr CRat) := do
  let t ← tok
  match t with
  | "sc" => do let c ← flag; let np ← flag; let re ← rat; let im ← rat; pure (.sc c np ⟨re, im⟩)
  | "op" => do pure (.op (← nat))
  | "gf" => do pure (.gf (← nat))
  | "pot" => do pure (.pot (← nat))
  | "add" => do let a ← expr; let b ← expr; pure (.add a b)
  | "sub" => do let a ← expr; let b ← expr; pure (.sub a b)
  | "mul" => do let a ← expr; let b ← expr; pure (.mul a b)
  | "matmul" => do let a ← expr; let b ← expr; pure (.matmul a b)
  | "neg" => do pure (.neg (← expr))
  | "weak" => do pure (.weak (← expr))
  | "strong" => do pure (.strong (← expr))
  | "transpose" => do pure (.transpose (← expr))
  | "adjoint" => do pure (.adjoint (← expr))
  | "blk" => do let m ← nat; let n ← nat; pure (.blkEmpty m n)
  | "set" => do let i ← nat; let j ← nat; let k ← expr; let o ← expr; pure (.blkSet k i j o)
  | "lnil" => pure .lnil
  | "lcons" => do let g ← expr; let l ← expr; pure (.lcons g l)
  | _ => failure

partial def items (p : Pool CRat) (progs : Array (Expr CRat)) : P (Pool CRat × Array (Expr CRat)) := do
  match (← get) with
  | [] => pure (p, progs)
  | _ =>
    let t ← tok
    match t with
    | "ndofs" => do let k ← nat; let l ← nats k; items { p with ndofs := l } progs
    | "npts" => do let k ← nat; let l ← nats k; items { p with npts := l } progs
    | "op" => do
      let dom ← nat; let ran ← nat; let dual ← nat; let dense ← flag; let c ← flag
      let M ← matrix c (p.ndof dual) (p.ndof dom) (p.ndof dual)
      items { p with ops := p.ops ++ [⟨dom, ran, dual, dense, c, M⟩] } progs
    | "gf" => do
      let space ← nat; let d ← int; let c ← flag
      let dual : Option Nat := if d < 0 then none else some d.toNat
      let v ← entries c (p.ndof (dual.getD space))
      items { p with gfs := p.gfs ++ [⟨space, dual, c, v⟩] } progs
    | "pot" => do
      let space ← nat; let ncomp ← nat; let pts ← nat; let c ← flag
      let M ← matrix c (ncomp * p.npt pts) (p.ndof space) (ncomp * p.npt pts)
      items { p with pots := p.pots ++ [⟨space, ncomp, pts, c, M⟩] } progs
    | "minv" => do
      let r ← nat; let d ← nat
      let M ← matrix false (p.ndof r) (p.ndof d) (p.ndof r)
      items { p with minv := p.minv ++ [(r, d, M)] } progs
    | "prog" => do let e ← expr; items p (progs.push e)
    | _ => failure

def showC (z : CRat) : String := showRat z.re ++ " " ++ showRat z.im
def showVec (v : Vec CRat) : String := s!"{v.length} " ++ " ".intercalate (v.map showC)
def showB (b : Bool) : String := if b then "1" else "0"
def showDual : Option Nat → String
  | none => "-1"
  | some d => toString d

def showFn (a : Nat × Option Nat × Bool × Vec CRat × Vec CRat) : String :=
  s!"{a.1} {showDual a.2.1} {showB a.2.2.1} {showVec a.2.2.2.1} {showVec a.2.2.2.2}"

def showObs : Obs CRat → String
  | .scalar c np v => s!"scalar {showB c} {showB np} {showC v}"
  | .mat c r n M mv => s!"mat {showB c} {r} {n} {M.length} " ++ " ".intercalate (M.map showVec) ++ " " ++ showVec mv
  | .fn s d c data co => "fn " ++ showFn (s, d, c, data, co)
  | .fns l => s!"fns {l.length} " ++ " ".intercalate (l.map showFn)
  | .potv c v => s!"potv {showB c} {showVec v}"
  | .arr c v => s!"arr {showB c} {showVec v}"

def showRes {α : Type} (f : α → String) : Except Err α → String
  | .ok a => "ok " ++ f a
  | .error e => "err " ++ e.name

def handle (toks : List String) : String :=
  match toks with
  | "alg" :: rest =>
    match (items ⟨[], [], [], [], [], []⟩ #[]).run rest with
    | some ((p, progs), _) =>
      if !p.wfb then "err bad-pool" else
      " | ".intercalate (progs.toList.map fun e =>
        showRes (fun _ => "") (check p e) ++ " # " ++ showRes showObs (run p probeC e))
    | none => "err bad-op"
  | _ => "err bad-op"

end Driver.Alg
