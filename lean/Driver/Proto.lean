/- Line-protocol helpers for the model driver (Mathlib-free). -/
namespace Driver

def parseInt? (s : String) : Option Int := s.toInt?

def parseRat? (s : String) : Option Rat :=
  match s.splitOn "/" with
  | [p] => (parseInt? p).map (fun n => (n : Rat))
  | [p, q] =>
    match parseInt? p, q.toNat? with
    | some n, some d => if d = 0 then none else some (mkRat n d)
    | _, _ => none
  | _ => none

def showRat (r : Rat) : String :=
  if r.den = 1 then toString r.num else s!"{r.num}/{r.den}"

def showRats (l : List Rat) : String := " ".intercalate (l.map showRat)
def showInts (l : List Int) : String := " ".intercalate (l.map toString)
def showNats (l : List Nat) : String := " ".intercalate (l.map toString)

def parseRats (l : List String) : Option (List Rat) := l.mapM parseRat?
def parseNats (l : List String) : Option (List Nat) := l.mapM String.toNat?
def parseInts (l : List String) : Option (List Int) := l.mapM parseInt?

/-- split a token list into `n` leading tokens and the rest -/
def takeN (l : List String) (n : Nat) : Option (List String × List String) :=
  if l.length < n then none else some (l.take n, l.drop n)

end Driver
