import Driver.Proto
import BemppVerif.Model.Bary

/-! Driver for the barycentric-refinement model (C10).

  bary sub                 -> ok  (kind idx x y) for s = 0..5, k = 0..2
  bary p1                  -> ok  54 model values φ̂_i(subVertex s k) (order i, s, k) then the 54 table values
  bary piola rwg|snc       -> ok  54 x (coeff ratio) (order i, s, k); 3 x (ax ay bx by) reference end points of
                                  outer_edges[i]; 18 x (ax ay bx by) reference end points of dof_mult[s][k]
  bary dual                -> ok  for v = 0..2: the two sub-triangles at vertex v (model), then dual0 table row v;
                                  model dofs at the barycentre (6), at midpoint i (2 each), at vertex v (2 each);
                                  then the same 18 numbers from the DUAL1 tables; stride; bary value; mid value
  bary shape p1|rwg x y    -> ok  3 values | 6 values (x,y components of function 0,1,2)
  bary map s x y           -> ok  reference coordinates in the parent of the point (x, y) of sub-triangle s
-/
namespace Driver.Bary
open BemppVerif.Model.Bary BemppVerif.Gen.BaryTables Driver

def r3 : List Nat := [0, 1, 2]
def r6 : List Nat := [0, 1, 2, 3, 4, 5]

def pad (l : List Nat) (n : Nat) : List Nat := (l ++ List.replicate n 999).take n

def segPts (lc : List (Rat × Rat)) (d : Nat) : List Rat :=
  let ab := lenDefs.getD d (0, 0)
  let p := lcPt lc ab.1
  let q := lcPt lc ab.2
  [p.1, p.2, q.1, q.2]

def piola (coeffs : List (List (List Rat))) (lc : List (Rat × Rat)) (ev : List (Nat × Nat)) : String :=
  let a := r3.flatMap fun i => r6.flatMap fun s => r3.flatMap fun k => [tab coeffs i s k, ratio lc ev s k]
  let b := r3.flatMap fun i => segPts lc (outerEdges.getD i 99)
  let c := r6.flatMap fun s => r3.flatMap fun k => segPts lc (dm s k)
  "ok " ++ showRats (a ++ b ++ c)

def handle (toks : List String) : String :=
  match toks with
  | ["bary", "sub"] =>
    "ok " ++ " ".intercalate (r6.flatMap fun s => r3.map fun k =>
      let c := subCode s k
      let p := subVertex s k
      s!"{c.1} {c.2} {showRat p.1} {showRat p.2}")
  | ["bary", "p1"] =>
    "ok " ++ showRats ((r3.flatMap fun i => r6.flatMap fun s => r3.map fun k => p1G i (subVertex s k)) ++
      (r3.flatMap fun i => r6.flatMap fun s => r3.map fun k => tab p1Coeffs i s k))
  | ["bary", "piola", "rwg"] => piola rwgCoeffs rwgLocalCoords rwgEvalEdges
  | ["bary", "piola", "snc"] => piola sncCoeffs sncLocalCoords sncEvalEdges
  | ["bary", "dual"] =>
    let d0 := r3.flatMap fun v => pad (subsAt (0, v)) 2 ++ pad (dual0Subs.getD v []) 2
    let m1 := pad (dofsAt (2, 0)) 6 ++ (r3.flatMap fun i => pad (dofsAt (1, i)) 2) ++ (r3.flatMap fun v => pad (dofsAt (0, v)) 2)
    let t1 := pad dual1Bary 6 ++ (r3.flatMap fun i => pad (dual1Mid.getD i []) 2) ++ (r3.flatMap fun v => pad (dual1Vert.getD v []) 2)
    "ok " ++ showNats (d0 ++ m1 ++ t1 ++ [dual1Stride]) ++ " " ++ showRats [dual1BaryValue, dual1MidValue]
  | ["bary", "shape", kind, x, y] =>
    match parseRat? x, parseRat? y with
    | some x, some y =>
      if kind = "p1" then "ok " ++ showRats (r3.map fun i => p1G i (x, y))
      else if kind = "rwg" then "ok " ++ showRats (r3.flatMap fun i => let v := rwgG i (x, y); [v.1, v.2])
      else "err bad-op"
    | _, _ => "err bad-op"
  | ["bary", "map", s, x, y] =>
    match s.toNat?, parseRat? x, parseRat? y with
    | some s, some x, some y =>
      if s < 6 then
        let p := triMap (subVertex s 0) (subVertex s 1) (subVertex s 2) (x, y)
        "ok " ++ showRats [p.1, p.2]
      else "err value-error"
    | _, _, _ => "err bad-op"
  | _ => "err bad-op"

end Driver.Bary
