/-
Driver for the solver-wrapper model (C15).  Scalars are complex rationals, one token `p/q` or `p/q,r/s`.

request:
  solve <mul|lu|gmres|cg> <strong 0|1> <rr 0|1> <rc 0|1> <fac 0|1> <tol> <restart|-> <maxiter|->
        <nspaces> ndof*  <nmass> (dom dual MAT)*  <ninv> (dom dual MAT)*
        ( S dom rng dual MAT | B m n dom*n rng*m dual*m MAT*(m*n) )
        ( one GF | many k GF* )           GF := (c|p) space dual VEC
        X VEC  INFO int  CALLS k (SCALAR* for gmres | VEC* for cg)
  MAT := rows cols entries(row major), VEC := len entries
answer:
  mul   : ok mul R k GF*
  lu    : ok lu (solve MAT | fac) V VEC R k GF* F MAT   (F = matrix handed to lu_factor by compute_lu_factors)
  gmres/cg: ok it MAT V VEC T tol restart maxiter R k GF* INFO i RES (-|k rat*) CNT (-|n)
          (MAT = the operator handed to SciPy applied to the unit vectors; RES = squared norms)
  err value-error | err other-error | err bad-op
-/
import Driver.Proto
import BemppVerif.Model.Solve

namespace Driver.Solve
open BemppVerif.Model.Solve Driver

structure Cx where
  re : Rat
  im : Rat
deriving BEq, Inhabited

instance : Zero Cx := ⟨⟨0, 0⟩⟩
instance : Add Cx := ⟨fun a b => ⟨a.re + b.re, a.im + b.im⟩⟩
instance : Sub Cx := ⟨fun a b => ⟨a.re - b.re, a.im - b.im⟩⟩
instance : Mul Cx := ⟨fun a b => ⟨a.re * b.re - a.im * b.im, a.re * b.im + a.im * b.re⟩⟩

def Cx.abs2 (a : Cx) : Rat := a.re * a.re + a.im * a.im

def parseCx? (s : String) : Option Cx :=
  match s.splitOn "," with
  | [a] => (parseRat? a).map fun r => ⟨r, 0⟩
  | [a, b] =>
    match parseRat? a, parseRat? b with
    | some r, some i => some ⟨r, i⟩
    | _, _ => none
  | _ => none

def showCx (a : Cx) : String := if a.im = 0 then showRat a.re else showRat a.re ++ "," ++ showRat a.im

abbrev P := StateT (List String) Option

def tok : P String := do
  match (← get) with
  | [] => failure
  | t :: r => set r; pure t

def nat : P Nat := do
  match (← tok).toNat? with
  | some n => pure n
  | none => failure

def int : P Int := do
  match (← tok).toInt? with
  | some n => pure n
  | none => failure

def optNat : P (Option Nat) := do
  let t ← tok
  if t = "-" then pure none else
  match t.toNat? with
  | some n => pure (some n)
  | none => failure

def flag : P Bool := do
  let t ← tok
  if t = "1" then pure true else if t = "0" then pure false else failure

def scalar : P Cx := do
  match parseCx? (← tok) with
  | some c => pure c
  | none => failure

def rep {α : Type} : Nat → P α → P (List α)
  | 0, _ => pure []
  | n + 1, p => do
    let a ← p
    let r ← rep n p
    pure (a :: r)

def vec : P (Vec Cx) := do rep (← nat) scalar

def mat : P (Mat Cx) := do
  let r ← nat
  let c ← nat
  rep r (rep c scalar)

def expect (s : String) : P Unit := do
  if (← tok) = s then pure () else failure

structure Tables where
  spaces : Array Space
  mass : List (Nat × Nat × Mat Cx)
  inv : List (Nat × Nat × Mat Cx)

def Tables.space (t : Tables) (i : Nat) : Space := t.spaces.getD i ⟨i, 0⟩

def lookup (l : List (Nat × Nat × Mat Cx)) (a b : Nat) : Mat Cx :=
  match l.find? (fun e => e.1 == a && e.2.1 == b) with
  | some e => e.2.2
  | none => []

def Tables.cx (t : Tables) : MassCtx Cx :=
  { mass := fun s d => lookup t.mass s.id d.id
    massInv := fun s d v => matvec (lookup t.inv s.id d.id) v }

def table : P (List (Nat × Nat × Mat Cx)) := do
  rep (← nat) (do
    let a ← nat
    let b ← nat
    let m ← mat
    pure (a, b, m))

def gf (t : Tables) : P (GF Cx) := do
  let k ← tok
  let s ← nat
  let d ← nat
  let v ← vec
  if k = "c" then pure (.ofCoefficients (t.space s) (t.space d) v)
  else if k = "p" then pure (.ofProjections (t.space s) (t.space d) v)
  else failure

def anyOp (t : Tables) : P (AnyOp Cx) := do
  let k ← tok
  if k = "S" then
    let d ← nat
    let r ← nat
    let du ← nat
    let w ← mat
    pure (.single ⟨t.space d, t.space r, t.space du, w⟩)
  else if k = "B" then
    let m ← nat
    let n ← nat
    let doms ← rep n nat
    let rngs ← rep m nat
    let duals ← rep m nat
    let blocks ← rep m (rep n mat)
    pure (.blocked ⟨doms.map t.space, rngs.map t.space, duals.map t.space, blocks⟩)
  else failure

def anyGF (t : Tables) : P (AnyGF Cx) := do
  let k ← tok
  if k = "one" then pure (.one (← gf t))
  else if k = "many" then pure (.many (← rep (← nat) (gf t)))
  else failure

def unitVec (n j : Nat) : Vec Cx := (List.range n).map fun i => if i = j then ⟨1, 0⟩ else 0

def transpose (cols : List (Vec Cx)) : Mat Cx :=
  match cols with
  | [] => []
  | c :: _ => (List.range c.length).map fun i => cols.map fun col => col.getD i 0

def showVec (v : Vec Cx) : String := " ".intercalate (toString v.length :: v.map showCx)

def showMat (m : Mat Cx) : String :=
  let cols := match m with | [] => 0 | r :: _ => r.length
  " ".intercalate (toString m.length :: toString cols :: m.flatten.map showCx)

def showSpaceGF : GF Cx → String
  | .ofCoefficients s d c => s!"c {s.id} {d.id} " ++ showVec c
  | .ofProjections s d p => s!"p {s.id} {d.id} " ++ showVec p

def showAnyGF : AnyGF Cx → String
  | .one f => "1 " ++ showSpaceGF f
  | .many fs => " ".intercalate (toString fs.length :: fs.map showSpaceGF)

def showErr : Err → String
  | .valueError => "err value-error"
  | .otherError => "err other-error"

def showOptNat : Option Nat → String
  | none => "-"
  | some n => toString n

def ncols : AnyOp Cx → Nat
  | .single A => A.domain.ndof
  | .blocked A => (A.domains.map Space.ndof).sum

def nc : NormCtx Cx Cx Rat :=
  { nrm := fun v => (v.map Cx.abs2).sum, nrmScalar := Cx.abs2 }

def showRes : Option (List Rat) → String
  | none => "-"
  | some l => " ".intercalate (toString l.length :: l.map showRat)

def request : P String := do
  let fn ← tok
  let strong ← flag
  let rr ← flag
  let rc ← flag
  let fac ← flag
  let tol ← tok
  let restart ← optNat
  let maxiter ← optNat
  let nsp ← nat
  let ndofs ← rep nsp nat
  let spaces : Array Space := (ndofs.zipIdx.map fun (n, i) => (⟨i, n⟩ : Space)).toArray
  let mass ← table
  let inv ← table
  let t : Tables := ⟨spaces, mass, inv⟩
  let A ← anyOp t
  let b ← anyGF t
  expect "X"
  let x ← vec
  expect "INFO"
  let info ← int
  expect "CALLS"
  let k ← nat
  let cx := t.cx
  if fn = "mul" then
    match A, b with
    | .single A, .one f =>
      match A.mulGF cx f with
      | .ok r => pure ("ok mul R " ++ showAnyGF (.one r))
      | .error e => pure (showErr e)
    | .blocked A, .many fs =>
      match A.mulGFs cx fs with
      | .ok r => pure ("ok mul R " ++ showAnyGF (.many r))
      | .error e => pure (showErr e)
    | _, _ => pure "err bad-op"
  else if fn = "lu" then
    -- the "factorisation" is the matrix itself, so that the matrix `compute_lu_factors` hands to
    -- `lu_factor` can be printed
    let ext : DirectExt Cx (Mat Cx) := ⟨fun _ _ => x, fun M => M, fun _ _ => x⟩
    let f : Option (Mat Cx) := if fac then some [] else none
    match lu ext cx A b f, luCall cx A b f with
    | .ok r, some call =>
      let c := match call with
        | .solve M v => "solve " ++ showMat M ++ " V " ++ showVec v
        | .luSolve _ v => "fac V " ++ showVec v
      pure ("ok lu " ++ c ++ " R " ++ showAnyGF r ++ " F " ++ showMat (computeLuFactors ext A))
    | .error e, _ => pure (showErr e)
    | _, _ => pure "err bad-op"
  else if fn = "gmres" || fn = "cg" then
    let scalars ← if fn = "gmres" then rep k scalar else pure []
    let vecs ← if fn = "cg" then rep k vec else pure []
    let ext : IterExt Cx String Cx := ⟨fun _ => ⟨x, info, scalars⟩, fun _ => ⟨x, info, vecs⟩⟩
    let out := if fn = "gmres" then gmres ext nc cx A b tol restart maxiter strong rr rc
               else cg ext nc cx A b tol maxiter strong rr rc
    match out with
    | .error e => pure (showErr e)
    | .ok o =>
      match krylovArgs cx A b tol (if fn = "gmres" then restart else none) maxiter strong with
      | none => pure "err bad-op"
      | some a =>
        let n := ncols A
        let M := transpose ((List.range n).map fun j => a.op (unitVec n j))
        pure ("ok it " ++ showMat M ++ " V " ++ showVec a.rhs ++ s!" T {a.rtol} {showOptNat a.restart} "
          ++ s!"{showOptNat a.maxiter} R " ++ showAnyGF o.result ++ s!" INFO {o.info} RES " ++ showRes o.residuals
          ++ " CNT " ++ showOptNat o.count)
  else failure

def handle (toks : List String) : String :=
  match toks with
  | "solve" :: rest =>
    match request.run rest with
    | some (s, []) => s
    | _ => "err bad-op"
  | "splitby" :: rest =>
    -- splitby k counts* n values*  ->  ok k (len values*)*
    match (do
      let counts ← rep (← nat) nat
      let v ← vec
      pure (counts, v) : P (List Nat × Vec Cx)).run rest with
    | some ((counts, v), []) =>
      let parts := splitBy counts v
      "ok " ++ " ".intercalate (toString parts.length :: parts.map showVec)
    | _ => "err bad-op"
  | _ => "err bad-op"

end Driver.Solve
