/-
Driver for the model of the discrete blocked operators' products (C15 / C14).  Scalars as in Driver/Solve.lean.

request:
  blk mv  m n rows*m cols*n MAT*(m*n) VEC            BlockedDiscreteOperator._matvec (1-D)
  blk mm  m n rows*m cols*n MAT*(m*n) k VEC*k        BlockedDiscreteOperator._matmat (columns of x)
  blk gen m (n_i (r c MAT)*n_i)*m k VEC*k            GeneralizedDiscreteBlockedOperator._matmat
  blk dense m n MAT*(m*n)                            BlockedDiscreteOperator.to_dense
  blk ctor m n (r c | -)*(m*n)                       BlockedDiscreteOperator.__init__ dimension bookkeeping
  MAT := rows cols entries(row major), VEC := len entries
answer:
  mv: ok VEC | mm, gen: ok k VEC*k | dense: ok MAT | ctor: ok m rows* n cols* | err value-error
-/
import Driver.Proto
import Driver.Solve
import BemppVerif.Model.Blocked

namespace Driver.Blocked
open BemppVerif.Model.Solve BemppVerif.Model.Blocked Driver Driver.Solve

def gblock : P (GBlock Cx) := do
  let r ← nat
  let c ← nat
  let m ← rep r (rep c scalar)
  pure ⟨m, r, c⟩

def shape : P Shape := do
  let t ← tok
  if t = "-" then pure none else
  match t.toNat? with
  | some r => do
    let c ← nat
    pure (some (r, c))
  | none => failure

def request : P String := do
  expect "blk"
  let k ← tok
  if k = "mv" || k = "mm" then
    let m ← nat
    let n ← nat
    let rows ← rep m nat
    let cols ← rep n nat
    let blocks ← rep m (rep n mat)
    if k = "mv" then
      let x ← vec
      -- LinearOperator.matvec rejects a vector of the wrong length before _matvec runs
      if x.length ≠ cols.sum then pure "err value-error" else
      pure ("ok " ++ showVec (matvecBlocked blocks rows cols x))
    else
      let X ← rep (← nat) vec
      if X.any (fun x => x.length ≠ cols.sum) then pure "err value-error" else
      let Y := matmatBlocked blocks rows cols X
      pure ("ok " ++ " ".intercalate (toString Y.length :: Y.map showVec))
  else if k = "gen" then
    let m ← nat
    let blocks ← rep m (do rep (← nat) gblock)
    let X ← rep (← nat) vec
    let width := match blocks with
      | row :: _ => (row.map GBlock.ncols).sum
      | [] => 0
    if X.any (fun x => x.length ≠ width) then pure "err value-error" else
    let Y := X.map (genMatvec blocks)
    pure ("ok " ++ " ".intercalate (toString Y.length :: Y.map showVec))
  else if k = "dense" then
    let m ← nat
    let n ← nat
    let blocks ← rep m (rep n mat)
    pure ("ok " ++ showMat (toDense blocks))
  else if k = "ctor" then
    let m ← nat
    let n ← nat
    let ss ← rep m (rep n shape)
    match ctorDims ss n with
    | .ok (rows, cols) =>
      pure ("ok " ++ " ".intercalate ((toString rows.length :: rows.map toString) ++ (toString cols.length :: cols.map toString)))
    | .error () => pure "err value-error"
  else failure

def handle (toks : List String) : String :=
  match request.run toks with
  | some (s, []) => s
  | _ => "err bad-op"

end Driver.Blocked
