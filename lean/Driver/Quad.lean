import Driver.Proto
import BemppVerif.Model.Quad

namespace Driver.Quad
open BemppVerif.Model.Quad Driver

def parseAdj : String → Option Adj
  | "coincident" => some .coincident
  | "edge_adjacent" => some .edge
  | "vertex_adjacent" => some .vertex
  | _ => none

def showQP (q : QP Rat) : String := showRats [q.tx, q.ty, q.sx, q.sy, q.w]

def handle (toks : List String) : String :=
  match toks with
  | ["tri", n] =>
    match parseInt? n with
    | none => "err bad-op"
    | some k =>
      match triRuleInt k with
      | none => "err value-error"
      | some (pts, ws) =>
        s!"ok {pts.length} " ++ showInts (pts.flatMap fun p => [p.1, p.2]) ++ " " ++ showInts ws
  | ["gauss", n] =>
    match parseInt? n with
    | none => "err bad-op"
    | some k =>
      match gaussRuleInt k with
      | none => "err value-error"
      | some (xs, ws) => s!"ok {xs.length} " ++ showInts xs ++ " " ++ showInts ws
  | ["nqp", adj, n] =>
    match parseAdj adj, n.toNat? with
    | some a, some k => s!"ok {numberOfQuadPoints a k}"
    | none, _ => "err value-error"
    | _, _ => "err bad-op"
  | "duffy" :: adj :: n :: rest =>
    match parseAdj adj, n.toNat? with
    | some a, some k =>
      match parseRats rest with
      | some l =>
        if l.length ≠ 2 * k then "err bad-op" else
        let qs := duffy a (l.take k) (l.drop k)
        s!"ok {qs.length} " ++ " ".intercalate (qs.map showQP)
      | none => "err bad-op"
    | none, _ => "err value-error"
    | _, _ => "err bad-op"
  | "remapv" :: v :: rest =>
    match v.toNat?, parseRats rest with
    | some v, some [x, y] =>
      match remapVertex (x, y) v with
      | some p => "ok " ++ showRats [p.1, p.2]
      | none => "err none"
    | _, _ => "err bad-op"
  | "remape" :: v0 :: v1 :: rest =>
    match v0.toNat?, v1.toNat?, parseRats rest with
    | some v0, some v1, some [x, y] =>
      match remapEdge (x, y) v0 v1 with
      | some p => "ok " ++ showRats [p.1, p.2]
      | none => "err none"
    | _, _, _ => "err bad-op"
  | _ => "err bad-op"

end Driver.Quad
