/-
Driver command `asmdense`: evaluates the WHOLE dense-assembly model (regular launches per colour + singular part built
from the singular bookkeeping model and the Duffy model) over exact rationals for a polynomial kernel
  K(x, y, n_x, n_y) = c0 + c1 |x-y|² + c2 (x-y)·n_y + c3 (x-y)·n_x ,
so that Python can compare it with the matrix assembled by the real code (with the same kernel injected).

Request (all on one line, tokens separated by blanks, rationals p/q):
  asmdense
    <c0> <c1> <c2> <c3>
    <nq> <nq × (u v w)>                                regular rule
    <n1d> <n1d × x> <n1d × w>                          1-D rule of the singular (Duffy) rules
    <nElem> <nElem × (3 vertex indices, v0 v1 v2 as 9 rationals, normal 3 rationals, integration element)>
    <test space>  <trial space>      each:  <kind 0=p0,1=p1> <nshape> <ndofs> <nElem × supp> <nElem × normal multiplier>
                                            <nElem × nshape × l2g> <nElem × nshape × mult>
    <ncolors> <per colour: count, elements…>           test elements by colour
    <ntrial> <trial elements…>
    <nEdgeCols> <6 ints per column> <nVertCols> <4 ints per column>     adjacency tables of the grid
Answer: `ok <rows> <cols> <rows*cols rationals, row major>`
-/
import Driver.Proto
import BemppVerif.Model.Asm
import BemppVerif.Model.Sing

namespace Driver.Asm
open BemppVerif.Model.Asm BemppVerif.Model.Sing BemppVerif.Model.Quad Driver

structure Elem where
  ids : Array Nat         -- the three vertex indices (for `elements_adjacent`)
  v : Array (Array Rat)   -- 3 vertices × 3 coordinates
  n : Array Rat
  ie : Rat

def gpoint (e : Elem) (u v : Rat) (c : Nat) : Rat :=
  let v0 := (e.v.getD 0 #[]).getD c 0
  let v1 := (e.v.getD 1 #[]).getD c 0
  let v2 := (e.v.getD 2 #[]).getD c 0
  v0 + (v1 - v0) * u + (v2 - v0) * v

def shape (kind i : Nat) (u v : Rat) : Rat :=
  if kind = 0 then 1 else
  match i with
  | 0 => 1 - u - v
  | 1 => u
  | _ => v

structure Sp where
  kind : Nat
  nshape : Nat
  ndofs : Nat
  supp : Array Nat
  nmult : Array Rat
  l2g : Array Nat
  mult : Array Rat

def Sp.data (s : Sp) : SpaceData Rat :=
  ⟨s.nshape, fun e i => s.l2g.getD (s.nshape * e + i) 0, fun e i => s.mult.getD (s.nshape * e + i) 0⟩

/-- state-passing token reader -/
abbrev P := StateT (List String) Option

def tok : P String := do
  match (← get) with
  | [] => failure
  | t :: ts => set ts; pure t

def nat : P Nat := do let t ← tok; match t.toNat? with | some n => pure n | none => failure
def rat : P Rat := do let t ← tok; match parseRat? t with | some r => pure r | none => failure
def rep {α} (n : Nat) (p : P α) : P (Array α) := do
  let mut a := #[]
  for _ in [0:n] do a := a.push (← p)
  pure a

def space (nElem : Nat) : P Sp := do
  let kind ← nat; let nshape ← nat; let ndofs ← nat
  let supp ← rep nElem nat
  let nm ← rep nElem rat
  let l2g ← rep (nElem * nshape) nat
  let mult ← rep (nElem * nshape) rat
  pure ⟨kind, nshape, ndofs, supp, nm, l2g, mult⟩

def kernel (c : Array Rat) (x y nx ny : Nat → Rat) : Rat :=
  let d := fun i => x i - y i
  c.getD 0 0 + c.getD 1 0 * (d 0 * d 0 + d 1 * d 1 + d 2 * d 2)
    + c.getD 2 0 * (d 0 * ny 0 + d 1 * ny 1 + d 2 * ny 2) + c.getD 3 0 * (d 0 * nx 0 + d 1 * nx 1 + d 2 * nx 2)

def run : P String := do
  let c ← rep 4 rat
  let nq ← nat
  let q ← rep (3 * nq) rat
  let n1 ← nat
  let xs ← rep n1 rat
  let ws ← rep n1 rat
  let nElem ← nat
  let mut elems : Array Elem := #[]
  for _ in [0:nElem] do
    let ids ← rep 3 nat
    let vs ← rep 9 rat
    let n ← rep 3 rat
    let ie ← rat
    elems := elems.push ⟨ids, #[vs.extract 0 3, vs.extract 3 6, vs.extract 6 9], n, ie⟩
  let T ← space nElem
  let S ← space nElem
  let ncol ← nat
  let mut byColor : List (List Nat) := []
  for _ in [0:ncol] do
    let k ← nat
    let l ← rep k nat
    byColor := byColor ++ [l.toList]
  let ntr ← nat
  let tr ← rep ntr nat
  let nE ← nat
  let ec ← rep (6 * nE) nat
  let nV ← nat
  let vc ← rep (4 * nV) nat
  let el := fun e => elems.getD e ⟨#[], #[], #[], 0⟩
  let qu := fun p => q.getD (3 * p) 0
  let qv := fun p => q.getD (3 * p + 1) 0
  let qw := fun p => q.getD (3 * p + 2) 0
  let nT := fun e (i : Nat) => (el e).n.getD i 0 * T.nmult.getD e 0
  let nS := fun e (i : Nat) => (el e).n.getD i 0 * S.nmult.getD e 0
  let ea : List EdgeCol := (List.range nE).map fun k =>
    ⟨ec.getD (6*k) 0, ec.getD (6*k+1) 0, ec.getD (6*k+2) 0, ec.getD (6*k+3) 0, ec.getD (6*k+4) 0, ec.getD (6*k+5) 0⟩
  let va : List VertCol := (List.range nV).map fun k => ⟨vc.getD (4*k) 0, vc.getD (4*k+1) 0, vc.getD (4*k+2) 0, vc.getD (4*k+3) 0⟩
  -- `elements_adjacent`: the two elements have a common vertex index
  let adjacent := fun (a b : Nat) => (el a).ids.any fun x => (el b).ids.any fun y => x == y
  let regD : RegData Rat :=
    { nq := nq, w := qw, ieT := fun e => (el e).ie, ieS := fun e => (el e).ie,
      phiT := fun i p => shape T.kind i (qu p) (qv p), phiS := fun j p => shape S.kind j (qu p) (qv p),
      K := fun τ p σ r => kernel c (gpoint (el τ) (qu p) (qv p)) (gpoint (el σ) (qu r) (qv r)) (nT τ) (nS σ),
      adjacent := adjacent }
  let tpts := (vectorizePoints testPt xs.toList ws.toList).toArray
  let spts := (vectorizePoints trialPt xs.toList ws.toList).toArray
  let swts := (vectorizeWeights xs.toList ws.toList).toArray
  let singD : SingData Rat :=
    { w := fun k => swts.getD k 0, ie := fun e => (el e).ie,
      phiT := fun i k => shape T.kind i (tpts.getD k (0, 0)).1 (tpts.getD k (0, 0)).2,
      phiS := fun j k => shape S.kind j (spts.getD k (0, 0)).1 (spts.getD k (0, 0)).2,
      K := fun τ a σ b => kernel c (gpoint (el τ) (tpts.getD a (0, 0)).1 (tpts.getD a (0, 0)).2)
                                  (gpoint (el σ) (spts.getD b (0, 0)).1 (spts.getD b (0, 0)).2) (nT τ) (nS σ) }
  let pairs := singPairs n1 nElem (fun e => T.supp.getD e 0 != 0) (fun e => S.supp.getD e 0 != 0) ea va
  let contribs := denseRegular regD T.data S.data byColor tr.toList ++ singularContribs singD T.data S.data pairs
  -- accumulate into a dense array (same sums as `entry`, computed in one pass)
  let mut mat : Array Rat := Array.replicate (T.ndofs * S.ndofs) 0
  for k in contribs do
    let idx := k.row * S.ndofs + k.col
    mat := mat.set! idx (mat.getD idx 0 + k.val)
  pure (s!"ok {T.ndofs} {S.ndofs} " ++ showRats mat.toList)

def handle (toks : List String) : String :=
  match toks with
  | "asmdense" :: rest =>
    match run.run rest with
    | some (s, _) => s
    | none => "err bad-op"
  | _ => "err bad-op"

end Driver.Asm
