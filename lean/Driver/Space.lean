import Driver.Proto
import BemppVerif.Model.Space

/-! Driver command for the function-space model.

`space <kind> <incl 0|1> <trunc 0|1> <want-g2l 0|1> <selmode whole|segments|elems|both> <k> <k items>
       <ks> <ks swapped domain indices> <ne> <nv> <nedges>
       <3*ne elements, element-major> <ne domain indices>
       <len> <vertex_neighbors.indices> <nv+1 indexptr>
       <3*ne element_edges, element-major> <len> <edge_neighbors flat> <nedges+1 ptr>
       <nv vertex_on_boundary 0|1> <2*nedges edges, edge-major>`
kind in `dp0 dp1 p1 rwg dual0 dual1 bc`.
-> `ok n <rows> ns <ns> sup <n> l2g <n*ns> mult <n*ns> nm <n> count <c> gdc <g> lloc <n*ns> mloc <m> (<r> <c> <v>)*
      mfull <m> (<r> <c> <v>)* entries <m> (<r> <c> <p/q>)* g2l <gdc|0> (<len> (<e> <i>)*)*`
   (`lloc` = `local2global` of the localised space, `mloc`/`mfull` = COO triplets of `map_to_localised_space` /
   `map_to_full_grid`, `entries` = COO triplets of `dof_transformation` for dual0/dual1)
   or `err value-error` (both selections) / `err index-error` (support element out of range) / `err bad-op`.
`bcint <sign p/q> <nc> <edge lengths p/q ...>` -> `ok <values p/q ...>` = `_interior_barycentric_edges_coefficients`.
-/
namespace Driver.Space
open BemppVerif.Model BemppVerif.Model.Space Driver

abbrev R := StateT (List String) Option

def tok : R String := do
  match (← get) with
  | [] => failure
  | a :: r => set r; pure a

def nat : R Nat := do
  match (← tok).toNat? with
  | some n => pure n
  | none => failure

def nats (n : Nat) : R (List Nat) := do
  let s ← get
  if s.length < n then failure
  else
    set (s.drop n)
    match parseNats (s.take n) with
    | some l => pure l
    | none => failure

def counted : R (List Nat) := do nats (← nat)

structure Req where
  kind : String
  incl : Bool
  trunc : Bool
  wantG2l : Bool
  selmode : String
  sel : List Nat
  swapped : List Nat
  T : Tables

def parseReq : R Req := do
  let kind ← tok
  let incl ← nat
  let trunc ← nat
  let wg ← nat
  let selmode ← tok
  let sel ← counted
  let swapped ← counted
  let ne ← nat
  let nv ← nat
  let nedges ← nat
  let els := (← nats (3 * ne)).toArray
  let dom := (← nats ne).toArray
  let vni := (← counted).toArray
  let vnp := (← nats (nv + 1)).toArray
  let ee := (← nats (3 * ne)).toArray
  let eni := (← counted).toArray
  let enp := (← nats (nedges + 1)).toArray
  let vob := (← nats nv).toArray
  let ev := (← nats (2 * nedges)).toArray
  if !(← get).isEmpty then failure
  -- the slices are materialised once (the model reads them many times)
  let vn := ((List.range nv).map (csrSlice vni vnp)).toArray
  let en := ((List.range nedges).map (csrSlice eni enp)).toArray
  pure { kind, incl := incl == 1, trunc := trunc == 1, wantG2l := wg == 1, selmode, sel, swapped,
         T := { ne, nv, nedges
                elements := fun e i => els.getD (3 * e + i) 0
                vnbrs := fun v => vn.getD v []
                elementEdges := fun e i => ee.getD (3 * e + i) 0
                enbrs := fun x => en.getD x []
                vob := fun v => vob.getD v 0 == 1
                domain := fun e => dom.getD e 0
                edgeVerts := fun x k => ev.getD (2 * x + k) 0 } }

def showTrip (l : List (Nat × Nat × Int)) : String :=
  s!"{l.length} " ++ " ".intercalate (l.map fun t => s!"{t.1} {t.2.1} {t.2.2}")

def showEntries (l : List (Nat × Nat × Rat)) : String :=
  s!"{l.length} " ++ " ".intercalate (l.map fun t => s!"{t.1} {t.2.1} {showRat t.2.2}")

def showG2l (S : Color.Space) (gdc : Nat) : String :=
  s!"{gdc} " ++ " ".intercalate ((List.range gdc).map fun d =>
    let g := Color.g2l S d
    if g.isEmpty then "0" else s!"{g.length} " ++ showNats (g.flatMap fun p => [p.1, p.2]))

def answer (S : Color.Space) (ns : Nat) (nm : Nat → Int) (count gdc : Nat) (entries : List (Nat × Nat × Rat))
    (wantG2l : Bool) : String :=
  let n := S.nelems
  let rng := List.range n
  let loc := localised S ns
  s!"ok n {n} ns {ns} sup " ++ showNats (rng.map fun e => if S.sup e then 1 else 0) ++
  " l2g " ++ showNats (rng.flatMap fun e => (List.range ns).map fun i => (S.row e).getD i 0) ++
  " mult " ++ showInts (rng.flatMap fun e => (List.range ns).map fun i => (S.mult.getD e #[]).getD i 0) ++
  " nm " ++ showInts (rng.map nm) ++
  s!" count {count} gdc {gdc} lloc " ++
  showNats (rng.flatMap fun e => (List.range ns).map fun i => (loc.row e).getD i 0) ++
  " mloc " ++ showTrip (mapToLocalised S ns) ++ " mfull " ++ showTrip (mapToFullGrid S ns) ++
  " entries " ++ showEntries entries ++
  " g2l " ++ (if wantG2l then showG2l S (gridDofCount S) else "0")

def handle (toks : List String) : String :=
  match toks with
  | "space" :: rest =>
    match parseReq.run rest with
    | none => "err bad-op"
    | some (q, _) =>
      let T := q.T
      if q.selmode == "both" then "err value-error" else
      if q.selmode == "elems" && q.sel.any (· ≥ T.ne) then "err index-error" else
      let selection : Option Selection :=
        match q.selmode with
        | "whole" => some .whole
        | "segments" => some (.segments q.sel)
        | "elems" => some (.elems q.sel)
        | _ => none
      match selection with
      | none => "err bad-op"
      | some sl =>
        let sup := processSupport T sl
        let nm := normalMultiplier T q.swapped
        let plain (d : DofData) (ns : Nat) : String :=
          answer d.space ns nm d.count (gridDofCount d.space) [] q.wantG2l
        match q.kind with
        | "dp0" => plain (dp0 T sup) 1
        | "dp1" => plain (dp1 T sup) 3
        | "p1" => plain (p1 T sup q.incl q.trunc) 3
        | "rwg" => plain (rwg T sup q.incl q.trunc) 3
        | "dual0" =>
          let b := dual0 T sup q.incl q.trunc
          answer b.space 1 (fun _ => 1) b.gdc b.gdc b.entries q.wantG2l
        | "dual1" =>
          let b := dual1 T sup q.trunc
          answer b.space 3 (fun _ => 1) b.gdc b.gdc b.entries q.wantG2l
        | "bc" =>
          let b := bc T sup q.incl q.trunc
          answer b.space 3 (fun k => nm (k / 6)) b.gdc b.gdc b.entries q.wantG2l
        | _ => "err bad-op"
  | "bcint" :: sign :: nc :: lens =>
    match parseRat? sign, nc.toNat?, parseRats lens with
    | some sg, some n, some l => "ok " ++ showRats (bcInteriorValues sg n l)
    | _, _, _ => "err bad-op"
  | _ => "err bad-op"

end Driver.Space
