/- Driver for the C18 history state machine.
   request:  hist <asfound|repaired|spec> <op> ; <op> ; ...
   ops:      sg <field> <v> | sp <s|d> | np <reg> <sing> <exp> <ncrit> <depth> | se <i> <field> <v> | cs <grid>
             | co <dense|sparse|singular|fmm> <space> <kern> <g|e<i>> <n|s|d> | wf <k> | sf <k> | mm <space>
             | cp <dense|fmm> <space> <pts> <kern> <g|e<i>> | ep <k> | cl
   answer:   ok <out> ; <out> ; ...      (one <out> per op)
   out:      u | err | asm <fromCache> <ifaceHit> <used> | strong <massFromCache> <used|-> <fromCache> <ifaceHit> <used>
             | mass <fromCache> <used> | pot <ifaceHit> <used> | pe <used>
   used:     <regular|->,<singular|->,<iface|->,<s|d>   iface: grid.target.kern.cloud.expansion.ncrit -/
import Driver.Proto
import BemppVerif.Model.Hist

namespace Driver.Hist
open BemppVerif.Model.Hist Driver

def parseField : String → Option Field
  | "regular" => some .regular
  | "singular" => some .singular
  | "expansion" => some .expansion
  | "ncrit" => some .ncrit
  | "depth" => some .depth
  | _ => none

def parsePrec : String → Option Prec
  | "s" => some .single
  | "d" => some .double
  | _ => none

def parseOptPrec : String → Option (Option Prec)
  | "n" => some none
  | s => (parsePrec s).map some

def parseAsm : String → Option Asm
  | "dense" => some .dense
  | "sparse" => some .sparse
  | "singular" => some .singular
  | "fmm" => some .fmm
  | _ => none

def parsePotAsm : String → Option PotAsm
  | "dense" => some .dense
  | "fmm" => some .fmm
  | _ => none

def parsePRef (s : String) : Option PRef :=
  if s = "g" then some .glob
  else if s.startsWith "e" then (s.drop 1).toNat?.map PRef.obj
  else none

def parseOp : List String → Option Op
  | ["sg", f, v] => do some (.setGlobal (← parseField f) (← v.toNat?))
  | ["sp", p] => do some (.setDefaultPrec (← parsePrec p))
  | ["np", r, s, e, n, d] => do
    some (.newParams ⟨← r.toNat?, ← s.toNat?, ← e.toNat?, ← n.toNat?, ← d.toNat?⟩)
  | ["se", i, f, v] => do some (.setExplicit (← i.toNat?) (← parseField f) (← v.toNat?))
  | ["cs", g] => do some (.createSpace (← g.toNat?))
  | ["co", a, sp, k, pr, pc] => do
    some (.createOp (← parseAsm a) (← sp.toNat?) (← k.toNat?) (← parsePRef pr) (← parseOptPrec pc))
  | ["wf", k] => do some (.weakForm (← k.toNat?))
  | ["sf", k] => do some (.strongForm (← k.toNat?))
  | ["mm", i] => do some (.massMatrix (← i.toNat?))
  | ["cp", a, sp, pts, k, pr] => do
    some (.createPot (← parsePotAsm a) (← sp.toNat?) (← pts.toNat?) (← k.toNat?) (← parsePRef pr))
  | ["ep", k] => do some (.evalPot (← k.toNat?))
  | ["cl"] => some .clearFmmCache
  | _ => none

/-- split a token list at the ";" tokens -/
def splitOps (toks : List String) : List (List String) :=
  let (cur, acc) := toks.foldl (fun (p : List String × List (List String)) t =>
    if t = ";" then ([], p.1.reverse :: p.2) else (t :: p.1, p.2)) ([], [])
  (cur.reverse :: acc).reverse.filter (· ≠ [])

def showOptNat : Option Nat → String
  | some n => toString n
  | none => "-"

def showPrec : Prec → String
  | .single => "s"
  | .double => "d"

def showIface : Option Iface → String
  | some i => s!"{i.grid}.{i.target}.{i.kern}.{i.cloud}.{i.expansion}.{i.ncrit}"
  | none => "-"

def showUsed (u : Used) : String :=
  s!"{showOptNat u.regular},{showOptNat u.singular},{showIface u.iface},{showPrec u.dtype}"

def showB (b : Bool) : String := if b then "1" else "0"

def showOut : Out → String
  | .unit => "u"
  | .err => "err"
  | .asm fc h u => s!"asm {showB fc} {showB h} {showUsed u}"
  | .strong mc m fc h u =>
    let ms := match m with | some x => showUsed x | none => "-"
    s!"strong {showB mc} {ms} {showB fc} {showB h} {showUsed u}"
  | .mass fc u => s!"mass {showB fc} {showUsed u}"
  | .pot h u => s!"pot {showB h} {showUsed u}"
  | .potEval u => s!"pe {showUsed u}"

def handle (toks : List String) : String :=
  match toks with
  | "hist" :: code :: rest =>
    match (splitOps rest).mapM parseOp with
    | none => "err bad-op"
    | some ops =>
      let outs? : Option (List Out) :=
        match code with
        | "asfound" => some (run .asFound State.init ops)
        | "repaired" => some (run .repaired State.init ops)
        | "spec" => some (specRun Core.init ops)
        | _ => none
      match outs? with
      | none => "err bad-op"
      | some outs => "ok " ++ " ; ".intercalate (outs.map showOut)
  | _ => "err bad-op"

end Driver.Hist
