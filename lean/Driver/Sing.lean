import Driver.Proto
import BemppVerif.Model.Sing

namespace Driver.Sing
open BemppVerif.Model.Sing BemppVerif.Model.Asm Driver

/-- `singpairs <n> <nElem> <testSupp bits…> <trialSupp bits…> <nEdgeCols> <6 ints per col…> <nVertCols> <4 ints per col…>`
answer: `ok <npairs> ` followed by 6 ints per pair (test elem, trial elem, test offset, trial offset, weights offset, npoints) -/
def handle (toks : List String) : String :=
  match toks with
  | "singpairs" :: n :: ne :: rest =>
    match n.toNat?, ne.toNat?, parseNats rest with
    | some n, some ne, some l =>
      if l.length < 2 * ne + 1 then "err bad-op" else
      let ts := l.take ne
      let ss := (l.drop ne).take ne
      let r := l.drop (2 * ne)
      let nE := r.headD 0
      let ecols := (r.drop 1).take (6 * nE)
      let r2 := (r.drop 1).drop (6 * nE)
      let nV := r2.headD 0
      let vcols := (r2.drop 1).take (4 * nV)
      if ecols.length ≠ 6 * nE ∨ vcols.length ≠ 4 * nV then "err bad-op" else
      let ea : List EdgeCol := (List.range nE).map fun k =>
        ⟨ecols.getD (6*k) 0, ecols.getD (6*k+1) 0, ecols.getD (6*k+2) 0, ecols.getD (6*k+3) 0, ecols.getD (6*k+4) 0, ecols.getD (6*k+5) 0⟩
      let va : List VertCol := (List.range nV).map fun k =>
        ⟨vcols.getD (4*k) 0, vcols.getD (4*k+1) 0, vcols.getD (4*k+2) 0, vcols.getD (4*k+3) 0⟩
      let ps := singPairs n ne (fun e => ts.getD e 0 != 0) (fun e => ss.getD e 0 != 0) ea va
      s!"ok {ps.length} " ++ showNats (ps.flatMap fun p => [p.testElem, p.trialElem, p.testOffset, p.trialOffset, p.weightsOffset, p.npoints])
    | _, _, _ => "err bad-op"
  | _ => "err bad-op"

end Driver.Sing
