/- Driver commands for the FMM pipeline model (C17).

  fmmpmap  <byPos 0|1> <npts> <space-block> <w[npts]>
      -> `ok <n> row col val ...` (triplets of map_space_to_points_impl, array order) | `err value-error`
  fmmsmap  <npts> <space-block> <w[npts]>
      -> `ok <n> row col val ...` (triplets of the composed map: rows npts*e+q, columns l2g, values with multipliers)
  fmmtidx  <rowsByElem 0|1> <npts> <nsupp> <support...>
      -> `ok <n> i j ...` (iind, jind of the compute_*_transform_impl functions, array order)
  fmmmv    <npts> <space-block T> <space-block S> <w[npts]> <ndofT> <ndofS> <x[ndofS]>
           <indptr[nT+1]> <nidx> <indices[nidx]> <adjacent[nT*nS] 0|1> <K[(npts*nT)*(npts*nS)]>
      -> `ok fmm[ndofT] dense[ndofT]`

  space-block := <nElems> <nshape> <nsupp> <support[nsupp]> <l2g[nElems*nshape]> <mult[nElems*nshape]>
                 <basis[nElems*nshape*npts]> <ie[nElems]>
-/
import Driver.Proto
import BemppVerif.Model.Fmm

namespace Driver.Fmm
open BemppVerif.Model.Fmm Driver

abbrev P := StateT (List String) Option

def nat : P Nat := do
  match (← get) with
  | t :: rest => set rest; t.toNat?
  | [] => none

def nats (n : Nat) : P (Array Nat) := do
  let l ← get
  if l.length < n then none
  let v ← (StateT.lift ((l.take n).mapM String.toNat?) : P (List Nat))
  set (l.drop n)
  pure v.toArray

def rats (n : Nat) : P (Array Rat) := do
  let l ← get
  if l.length < n then none
  let v ← (StateT.lift ((l.take n).mapM parseRat?) : P (List Rat))
  set (l.drop n)
  pure v.toArray

def space (npts : Nat) : P (Space Rat) := do
  let nElems ← nat
  let nshape ← nat
  let nsupp ← nat
  let support ← nats nsupp
  let l2g ← nats (nElems * nshape)
  let mult ← rats (nElems * nshape)
  let basis ← rats (nElems * nshape * npts)
  let ie ← rats nElems
  pure { nElems := nElems, support := support.toList, nshape := nshape,
         l2g := fun e i => l2g.getD (e * nshape + i) 0,
         mult := fun e i => mult.getD (e * nshape + i) 0,
         basis := fun e i q => basis.getD ((e * nshape + i) * npts + q) 0,
         ie := fun e => ie.getD e 0 }

def showEntries (es : List (Entry Rat)) : String :=
  s!"ok {es.length} " ++ " ".intercalate (es.map fun e => s!"{e.row} {e.col} {showRat e.val}")

def finish {α : Type} (p : P α) (toks : List String) : Option α :=
  match p.run toks with
  | some (a, []) => some a
  | _ => none

def handle (toks : List String) : String :=
  match toks with
  | "fmmpmap" :: rest =>
    let p : P String := do
      let byPos ← nat
      let npts ← nat
      let S ← space npts
      let w ← rats npts
      match pointMapImpl (byPos == 1) S npts (fun q => w.getD q 0) with
      | some es => pure (showEntries es)
      | none => pure "err value-error"
    (finish p rest).getD "err bad-op"
  | "fmmsmap" :: rest =>
    let p : P String := do
      let npts ← nat
      let S ← space npts
      let w ← rats npts
      pure (showEntries (spaceToPointsEntries S npts (fun q => w.getD q 0)))
    (finish p rest).getD "err bad-op"
  | "fmmtidx" :: rest =>
    let p : P String := do
      let byElem ← nat
      let npts ← nat
      let nsupp ← nat
      let support ← nats nsupp
      let l := transformIdxImpl (byElem == 1) support.toList npts
      pure (s!"ok {l.length} " ++ showNats (l.flatMap fun p => [p.1, p.2]))
    (finish p rest).getD "err bad-op"
  | "fmmmv" :: rest =>
    let p : P String := do
      let npts ← nat
      let T ← space npts
      let S ← space npts
      let w ← rats npts
      let ndofT ← nat
      let ndofS ← nat
      let x ← rats ndofS
      let indptr ← nats (T.nElems + 1)
      let nidx ← nat
      let indices ← nats nidx
      let adj ← nats (T.nElems * S.nElems)
      let nSrc := npts * S.nElems
      let K ← rats (npts * T.nElems * nSrc)
      let wf := fun q => w.getD q 0
      let xf := fun c => x.getD c 0
      let Kf := fun t s => K.getD (t * nSrc + s) 0
      let nbrs := fun τ => (indices.toList.drop (indptr.getD τ 0)).take (indptr.getD (τ + 1) 0 - indptr.getD τ 0)
      let adjf := fun τ σ => adj.getD (τ * S.nElems + σ) 0 == 1
      let a := (List.range ndofT).map fun r => fmmMatvec T S npts wf Kf nbrs xf r
      let b := (List.range ndofT).map fun r => denseRegularMatvec T S npts wf Kf adjf xf r
      pure ("ok " ++ showRats a ++ " " ++ showRats b)
    (finish p rest).getD "err bad-op"
  | _ => "err bad-op"

end Driver.Fmm
