/- Native line-protocol driver: one request per line, one answer line per request. -/
import Driver.Proto
import Driver.Quad
import Driver.Sing
import Driver.Asm
import Driver.Alg
import Driver.Solve
import Driver.Color
import Driver.IOMap
import Driver.Topo
import Driver.Hist
import Driver.Fmm
import Driver.Bary
import Driver.Space
import Driver.Blocked

open Driver

def step (line : String) : String :=
  let toks := (line.splitOn " ").filter (· ≠ "")
  match toks with
  | "singpairs" :: _ => Driver.Sing.handle toks
  | "asmdense" :: _ => Driver.Asm.handle toks
  | "tri" :: _ | "gauss" :: _ | "duffy" :: _ | "remapv" :: _ | "remape" :: _ | "nqp" :: _ => Driver.Quad.handle toks
  | "topo" :: _ | "geom" :: _ | "refineverts" :: _ | "baryverts" :: _ | "union" :: _ | "segments" :: _ | "childdoms" :: _ => Driver.Topo.handle toks
  | "ioexport" :: _ | "ioimport" :: _ | "iotransform" :: _ => Driver.IOMap.handle toks
  | "color" :: _ | "g2l" :: _ | "densetask" :: _ | "slots" :: _ => Driver.Color.handle toks
  | "hist" :: _ => Driver.Hist.handle toks
  | "solve" :: _ | "splitby" :: _ => Driver.Solve.handle toks
  | "alg" :: _ => Driver.Alg.handle toks
  | "fmmpmap" :: _ | "fmmsmap" :: _ | "fmmtidx" :: _ | "fmmmv" :: _ => Driver.Fmm.handle toks
  | "space" :: _ | "bcint" :: _ => Driver.Space.handle toks
  | "bary" :: _ => Driver.Bary.handle toks
  | "blk" :: _ => Driver.Blocked.handle toks
  | _ => "err bad-op"

partial def loop (h : IO.FS.Stream) (out : IO.FS.Stream) : IO Unit := do
  let line ← h.getLine
  if line.isEmpty then return ()
  out.putStrLn (step (line.trimAsciiEnd.toString))
  loop h out

def main : IO Unit := do
  let out ← IO.getStdout
  loop (← IO.getStdin) out
  out.flush
