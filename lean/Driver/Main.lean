/- Native line-protocol driver: one request per line, one answer line per request. -/
import Driver.Proto
import Driver.Quad

open Driver

def step (line : String) : String :=
  let toks := (line.splitOn " ").filter (· ≠ "")
  match toks with
  | "tri" :: _ | "gauss" :: _ | "duffy" :: _ | "remapv" :: _ | "remape" :: _ | "nqp" :: _ => Driver.Quad.handle toks
  | _ => "err bad-op"

partial def loop (h : IO.FS.Stream) (out : IO.FS.Stream) : IO Unit := do
  let line ← h.getLine
  if line.isEmpty then return ()
  out.putStrLn (step (line.trimAsciiEnd.toString))
  loop h out

def main : IO Unit := do
  let out ← IO.getStdout
  loop (← IO.getStdin) out
  out.flush
