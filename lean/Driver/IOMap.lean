/-
Driver commands for the export / import mapping model (C19).

  ioexport <ext> <bin 0|1> <src grid|gf|both|neither> <dt unset|node|element|other> <tr> [GRID] [GF]
      GRID = nv ne  (3·nv rationals, vertex by vertex)  (3·ne naturals, element by element)  (ne naturals)
      GF   = p1(0|1) complex(0|1) comp  (nv·comp pairs re im, vertex by vertex)  (ne·comp pairs, element by element)
      tr   = none|real|imag|abs|abs_squared|log_abs|unknown|custom:conj|custom:twice|custom:first|custom:timesi
  ioimport np dim (np·dim rationals)  nb { type k n (n·k ints) }  nd { name nblk { n (n ints) } }
  iotransform <tr> complex(0|1) ncols comp (ncols·comp pairs)

Answers are one-line JSON objects.
-/
import Driver.Proto
import BemppVerif.Model.IOMap

namespace Driver.IOMap
open BemppVerif.Model.IOMap Driver

abbrev P (α : Type) := List String → Option (α × List String)

def pNat : P Nat
  | t :: r => t.toNat?.map (·, r)
  | [] => none

def pInt : P Int
  | t :: r => (parseInt? t).map (·, r)
  | [] => none

def pRat : P Rat
  | t :: r => (parseRat? t).map (·, r)
  | [] => none

def pTok : P String
  | t :: r => some (t, r)
  | [] => none

def pBool : P Bool
  | "0" :: r => some (false, r)
  | "1" :: r => some (true, r)
  | _ => none

def pMany {α : Type} (p : P α) : Nat → P (List α)
  | 0, ts => some ([], ts)
  | n + 1, ts =>
    match p ts with
    | none => none
    | some (a, r) =>
      match pMany p n r with
      | none => none
      | some (as, r') => some (a :: as, r')

def pTriple {α : Type} (p : P α) : P (α × α × α) := fun ts =>
  match pMany p 3 ts with
  | some ([a, b, c], r) => some ((a, b, c), r)
  | _ => none

def pPair : P (Rat × Rat) := fun ts =>
  match pMany pRat 2 ts with
  | some ([a, b], r) => some ((a, b), r)
  | _ => none

def pGrid : P Grid := fun ts => do
  let (nv, r) ← pNat ts
  let (ne, r) ← pNat r
  let (vs, r) ← pMany (pTriple pRat) nv r
  let (es, r) ← pMany (pTriple pNat) ne r
  let (ds, r) ← pMany pNat ne r
  pure (⟨vs, es, ds⟩, r)

def pGridFun (g : Grid) : P GridFun := fun ts => do
  let (p1, r) ← pBool ts
  let (cx, r) ← pBool r
  let (comp, r) ← pNat r
  let (vv, r) ← pMany (pMany pPair comp) g.vertices.length r
  let (cv, r) ← pMany (pMany pPair comp) g.elements.length r
  pure (⟨g, p1, ⟨cx, vv⟩, ⟨cx, cv⟩⟩, r)

def mapEntries (f : Rat × Rat → Rat × Rat) (m : CMat) : CMat := { m with cols := m.cols.map (·.map f) }

def parseTransform : String → Option Transform
  | "none" => some .none
  | "real" => some .real
  | "imag" => some .imag
  | "abs" => some .abs
  | "abs_squared" => some .absSquared
  | "log_abs" => some .logAbs
  | "unknown" => some .unknown
  | "custom:conj" => some (.custom (mapEntries fun z => (z.1, -z.2)))
  | "custom:twice" => some (.custom (mapEntries fun z => (2 * z.1, 2 * z.2)))
  | "custom:first" => some (.custom fun m => { m with cols := m.cols.map (·.take 1) })
  | "custom:timesi" => some (.custom fun m =>
      { isComplex := true, cols := m.cols.map (·.map fun z => (-(if m.isComplex then z.2 else 0), z.1)) })
  | _ => none

def parseDT : String → Option DataType
  | "unset" => some .unset
  | "node" => some .node
  | "element" => some .element
  | "other" => some .other
  | _ => none

/-! JSON printing -/

def jStr (s : String) : String := "\"" ++ s ++ "\""
def jList (l : List String) : String := "[" ++ ",".intercalate l ++ "]"
def jObj (l : List (String × String)) : String := "{" ++ ",".intercalate (l.map fun p => jStr p.1 ++ ":" ++ p.2) ++ "}"

def jVal : Val → String
  | .rat q => jStr (showRat q)
  | .sqrt q => jStr ("sqrt:" ++ showRat q)
  | .logSqrt q => jStr ("logsqrt:" ++ showRat q)

def jBlock : Block → String
  | .ints l => jObj [("kind", jStr "ints"), ("v", jList (l.map toString))]
  | .vec l => jObj [("kind", jStr "vec"), ("v", jList (l.map jVal))]
  | .mat rows => jObj [("kind", jStr "mat"), ("v", jList (rows.map fun r => jList (r.map jVal)))]

def jBool (b : Bool) : String := if b then "true" else "false"

def errName : Err → String
  | .valueError => "value-error"
  | .meshRejected => "mesh-rejected"
  | .keyError => "key-error"
  | .otherError => "other-error"

def jErr (e : Err) : String := jObj [("status", jStr "err"), ("error", jStr (errName e))]

def jMesh (m : MeshRec) : String :=
  jObj [("status", jStr "ok"),
    ("file_format", match m.fileFormat with | some f => jStr f | none => "null"),
    ("binary", jBool m.binary),
    ("points", jList (m.points.map fun p => jList (p.map fun x => jStr (showRat x)))),
    ("cells", jList (m.cells.map fun c =>
      jObj [("type", jStr c.type), ("data", jList (c.cells.map fun r => jList (r.map toString)))])),
    ("point_data", jList (m.pointData.map fun p => jObj [("name", jStr p.1), ("block", jBlock p.2)])),
    ("cell_data", jList (m.cellData.map fun p => jObj [("name", jStr p.1), ("blocks", jList (p.2.map jBlock))]))]

def jGrid (g : Grid) : String :=
  jObj [("status", jStr "ok"),
    ("vertices", jList (g.vertices.map fun v => jList ([v.1, v.2.1, v.2.2].map fun x => jStr (showRat x)))),
    ("elements", jList (g.elements.map fun e => jList ([e.1, e.2.1, e.2.2].map toString))),
    ("domain", jList (g.domain.map toString))]

def jTMat (t : TMat) : String :=
  jObj [("status", jStr "ok"), ("complex", jBool t.isComplex),
    ("re", jList (t.re.map fun c => jList (c.map jVal))), ("im", jList (t.im.map fun c => jList (c.map jVal)))]

/-! commands -/

def doExport (ts : List String) : Option String := do
  let (ext, r) ← pTok ts
  let (bin, r) ← pBool r
  let (src, r) ← pTok r
  let (dts, r) ← pTok r
  let (trs, r) ← pTok r
  let dt ← parseDT dts
  let tr ← parseTransform trs
  let (grid, gf, r) ← match src with
    | "neither" => some (none, none, r)
    | "grid" => do
      let (g, r) ← pGrid r
      pure (some g, none, r)
    | "gf" => do
      let (g, r) ← pGrid r
      let (f, r) ← pGridFun g r
      pure (none, some f, r)
    | "both" => do
      let (g, r) ← pGrid r
      let (f, r) ← pGridFun g r
      pure (some g, some f, r)
    | _ => none
  if !r.isEmpty then none else
  match «export» List.eraseDups ext grid gf dt tr bin with
  | .ok m => pure (jMesh m)
  | .error e => pure (jErr e)

def pCellBlock : P CellBlock := fun ts => do
  let (ty, r) ← pTok ts
  let (k, r) ← pNat r
  let (n, r) ← pNat r
  let (cells, r) ← pMany (pMany pInt k) n r
  pure (⟨ty, cells⟩, r)

def pIntBlock : P Block := fun ts => do
  let (n, r) ← pNat ts
  let (l, r) ← pMany pInt n r
  pure (.ints l, r)

def pCellData : P (String × List Block) := fun ts => do
  let (name, r) ← pTok ts
  let (nb, r) ← pNat r
  let (bs, r) ← pMany pIntBlock nb r
  pure ((name, bs), r)

def doImport (ts : List String) : Option String := do
  let (np, r) ← pNat ts
  let (dim, r) ← pNat r
  let (pts, r) ← pMany (pMany pRat dim) np r
  let (nb, r) ← pNat r
  let (cells, r) ← pMany pCellBlock nb r
  let (nd, r) ← pNat r
  let (cd, r) ← pMany pCellData nd r
  if !r.isEmpty then none else
  match importGrid ⟨pts, cells, [], cd, none, true⟩ with
  | .ok g => pure (jGrid g)
  | .error e => pure (jErr e)

def doTransform (ts : List String) : Option String := do
  let (trs, r) ← pTok ts
  let tr ← parseTransform trs
  let (cx, r) ← pBool r
  let (n, r) ← pNat r
  let (comp, r) ← pNat r
  let (cols, r) ← pMany (pMany pPair comp) n r
  if !r.isEmpty then none else
  match applyTransform tr ⟨cx, cols⟩ with
  | some t => pure (jTMat t)
  | none => pure (jErr .otherError)

def handle (toks : List String) : String :=
  let r := match toks with
    | "ioexport" :: ts => doExport ts
    | "ioimport" :: ts => doImport ts
    | "iotransform" :: ts => doTransform ts
    | _ => none
  r.getD "err bad-op"

end Driver.IOMap
