import Driver.Proto
import BemppVerif.Model.Color
import BemppVerif.Model.Sched

/-! Driver commands for the colouring model.

`color n ns s_0..s_{n-1} l2g(n*ns, row-major) mult(n*ns, row-major)`
  -> `ok cm <n ints> sorted <k> <k nats> ptr <m> <m nats> launches <L> (<len> <elements>)* owned <0|1>`
     (`cm` = `color_map`, `sorted`/`ptr` = `get_elements_by_color()`, `launches` = the `test_elements` of the
     successive kernel calls, `owned` = premise `artificial_dof_owned`) or `err stop-iteration`.
`densetask nt ns k trow(nt) trialrows(k*ns)`
  -> `ok <steps> (<0=load|1=store> <row> <col>)*` = the loads/stores of the scatter loop of one test element.
`slots singular|sparse n nt ns` -> `ok <slots in loop order>`.
`g2l n ns s.. l2g.. mult..`
  -> `ok <gdc> (<len> (<elem> <local>)*)*`  = `invert_local2global(local2global, local_multipliers)`.
-/
namespace Driver.Color
open BemppVerif.Model.Color Driver

def chunk (ns : Nat) : Nat → List α → List (List α)
  | 0, _ => []
  | n + 1, l => l.take ns :: chunk ns n (l.drop ns)

def parseSpace (toks : List String) : Option Space :=
  match toks with
  | n :: ns :: rest =>
    match n.toNat?, ns.toNat? with
    | some n, some ns =>
      if rest.length ≠ n + 2 * n * ns then none else
      match parseNats (rest.take n), parseNats ((rest.drop n).take (n * ns)), parseInts (rest.drop (n + n * ns)) with
      | some s, some l, some m =>
        if s.any (· > 1) then none else
        some ⟨n, (s.map (· == 1)).toArray, ((chunk ns n l).map List.toArray).toArray,
              ((chunk ns n m).map List.toArray).toArray⟩
      | _, _, _ => none
    | _, _ => none
  | _ => none

def showLaunch (l : List Nat) : String :=
  if l.isEmpty then "0" else s!"{l.length} " ++ showNats l

def handle (toks : List String) : String :=
  match toks with
  | "color" :: rest =>
    match parseSpace rest with
    | none => "err bad-op"
    | some S =>
      match greedy S with
      | none => "err stop-iteration"
      | some cm =>
        let sorted := sortedIndices cm
        let ptr := indexptr cm
        let ls := launchLoop cm
        s!"ok cm {showInts cm.toList} sorted {sorted.length} {showNats sorted} ptr {ptr.length} {showNats ptr} " ++
        s!"launches {ls.length} " ++ " ".intercalate (ls.map showLaunch) ++
        s!" owned {if ownedCheck S then 1 else 0}"
  | "g2l" :: rest =>
    match parseSpace rest with
    | none => "err bad-op"
    | some S =>
      let gdc := 1 + (S.l2g.toList.map fun r => r.toList.foldl max 0).foldl max 0
      let rows := (List.range gdc).map fun d =>
        let g := g2l S d
        if g.isEmpty then "0" else s!"{g.length} " ++ showNats (g.flatMap fun p => [p.1, p.2])
      s!"ok {gdc} " ++ " ".intercalate rows
  | "densetask" :: nt :: ns :: k :: rest =>
    match nt.toNat?, ns.toNat?, k.toNat?, parseNats rest with
    | some nt, some ns, some k, some l =>
      if l.length ≠ nt + k * ns then "err bad-op" else
      let task : BemppVerif.Model.Sched.Task (Nat × Nat) Unit :=
        BemppVerif.Model.Sched.denseTask (fun _ _ => ()) (l.take nt) (chunk ns k (l.drop nt)) (fun _ _ _ => ())
      let tr := BemppVerif.Model.Sched.trace task
      s!"ok {tr.length} " ++ showNats (tr.flatMap fun (w, c) => [if w then 1 else 0, c.1, c.2])
    | _, _, _, _ => "err bad-op"
  | ["slots", kind, n, nt, ns] =>
    match n.toNat?, nt.toNat?, ns.toNat? with
    | some n, some nt, some ns =>
      if kind == "singular" then
        "ok " ++ showNats (BemppVerif.Model.Sched.slotOrder (BemppVerif.Model.Sched.singularSlot nt ns) n nt ns)
      else if kind == "sparse" then
        "ok " ++ showNats (BemppVerif.Model.Sched.slotOrder (BemppVerif.Model.Sched.sparseSlot nt ns) n nt ns)
      else "err bad-op"
    | _, _, _ => "err bad-op"
  | _ => "err bad-op"

end Driver.Color
