import Driver.Proto
import BemppVerif.Model.Topo
import BemppVerif.Model.Geom

/-
Driver commands for the grid model (C11).  A grid is sent as
    <nv> <ne> <3*ne element vertex indices, element-major>
optionally followed by <ne domain indices> and/or <3*nv rational coordinates, vertex-major>.

  topo <table> <nv> <ne> <elems>                 table ∈ edges element_edges edge_adjacency vertex_adjacency
                                                  edge_neighbors vertex_neighbors element_neighbors edge_on_boundary
                                                  vertex_on_boundary refine_elems bary_elems bary_new all
  geom <nv> <ne> <elems> <verts>                 per element: a(3) b(3) n(3) intElemSq diamSq centroid(3) jit(6)
  refineverts <nv> <ne> <elems> <verts>          new vertex coordinates of Grid.refine
  baryverts <nv> <ne> <elems> <verts>            new vertex coordinates of the barycentric refinement
  union <normalize 0|1> <given 0|1> <k> { <nv> <ne> <swap 0|1> <given domain index> <elems> <doms> }*k
  segments <nv> <ne> <elems> <doms> <nseg> <segs>
  childdoms <doms>                               domain indices of refine | of the barycentric refinement
Answers: `ok ...`, `err degenerate` (an element repeats a vertex index: Grid raises), `err index-error`,
`err empty` (no element), `err bad-op`.  Lists of lists are printed as `len items...` per row.
-/
namespace Driver.Topo
open BemppVerif.Model.Topo BemppVerif.Model.Geom Driver

def toTris : List Nat → List Tri
  | a :: b :: c :: rest => (a, b, c) :: toTris rest
  | _ => []

def flatTris (l : List Tri) : List Nat := l.flatMap Tri.toList

def showRows (l : List (List Nat)) : String :=
  showNats (l.flatMap fun r => r.length :: r)

def toV3 : List Rat → List (V3 Rat)
  | a :: b :: c :: rest => (a, b, c) :: toV3 rest
  | _ => []

def flatV3 (l : List (V3 Rat)) : List Rat := l.flatMap fun v => [v.1, v.2.1, v.2.2]

structure GridIn where
  nv : Nat
  els : List Tri
  rest : List String

def parseGrid (toks : List String) : Option GridIn :=
  match toks with
  | nv :: ne :: rest =>
    match nv.toNat?, ne.toNat? with
    | some nv, some ne =>
      match takeN rest (3 * ne) with
      | some (e, rest) =>
        match parseNats e with
        | some e => some ⟨nv, toTris e, rest⟩
        | none => none
      | none => none
    | _, _ => none
  | _ => none

def check (g : GridIn) : Option String :=
  if g.els.isEmpty then some "err empty"
  else if !decide (InRange g.nv g.els) then some "err index-error"
  else if !decide (NonDegenerate g.els) then some "err degenerate"
  else none

def showBaryVertex : BaryVertex → List Nat
  | .centre i => [0, i]
  | .mid e => [1, e]

def table (name : String) (nv : Nat) (els : List Tri) : Option String :=
  match name with
  | "edges" => some (showNats ((edges els).flatMap fun e => [e.1, e.2]))
  | "element_edges" => some (showNats (flatTris (elementEdges els)))
  | "edge_adjacency" =>
    some (showNats ((edgeAdjacency els).flatMap fun c => [c.1, c.2.1, c.2.2.1, c.2.2.2.1, c.2.2.2.2.1, c.2.2.2.2.2]))
  | "vertex_adjacency" => some (showNats ((vertexAdjacency els).flatMap fun c => [c.1, c.2.1, c.2.2.1, c.2.2.2]))
  | "edge_neighbors" => some (showRows (edgeNeighbors els))
  | "vertex_neighbors" => some (showRows (vertexNeighbors nv els))
  | "element_neighbors" => some (showRows (elementNeighbors els))
  | "edge_on_boundary" => some (showNats ((edgeOnBoundary els).map fun b => if b then 1 else 0))
  | "vertex_on_boundary" => some (showNats ((vertexOnBoundary nv els).map fun b => if b then 1 else 0))
  | "refine_elems" => some (showNats (flatTris (refineElems nv els)))
  | "bary_elems" => some (showNats (flatTris (baryElems nv els)))
  | "bary_new" => some (showNats ((baryNewVertices nv els).flatMap showBaryVertex))
  | _ => none

def allTables : List String :=
  ["edges", "element_edges", "edge_adjacency", "vertex_adjacency", "edge_neighbors", "vertex_neighbors",
   "element_neighbors", "edge_on_boundary", "vertex_on_boundary", "refine_elems", "bary_elems", "bary_new"]

def geomRow (V : List (V3 Rat)) (t : Tri) : List Rat :=
  let c := corners V t
  let a := jacA c.1 c.2.1 c.2.2
  let b := jacB c.1 c.2.1 c.2.2
  let n := normalDir c.1 c.2.1 c.2.2
  let ce := centroid c.1 c.2.1 c.2.2
  let j := jacInvTrans c.1 c.2.1 c.2.2
  flatV3 [a, b, n] ++ [intElemSq c.1 c.2.1 c.2.2, diameterSq c.1 c.2.1 c.2.2] ++ flatV3 [ce, j.1, j.2]

def withVerts (g : GridIn) (k : List (V3 Rat) → String) : String :=
  match takeN g.rest (3 * g.nv) with
  | some (v, []) =>
    match parseRats v with
    | some v => k (toV3 v)
    | none => "err bad-op"
  | _ => "err bad-op"

/-- parse `k` grids of the `union` command -/
def parseUnion : Nat → List String → Option (List (Nat × List Tri × Bool × Nat × List Nat) × List String)
  | 0, rest => some ([], rest)
  | k + 1, toks =>
    match toks with
    | nv :: ne :: sw :: dg :: rest =>
      match nv.toNat?, ne.toNat?, sw.toNat?, dg.toNat? with
      | some nv, some ne, some sw, some dg =>
        match takeN rest (3 * ne) with
        | some (e, rest) =>
          match takeN rest ne with
          | some (d, rest) =>
            match parseNats e, parseNats d, parseUnion k rest with
            | some e, some d, some (more, rest) => some ((nv, toTris e, sw != 0, dg, d) :: more, rest)
            | _, _, _ => none
          | none => none
        | none => none
      | _, _, _, _ => none
    | _ => none

def handle (toks : List String) : String :=
  match toks with
  | "topo" :: name :: rest =>
    match parseGrid rest with
    | some g =>
      if g.rest ≠ [] then "err bad-op" else
      match check g with
      | some e => e
      | none =>
        if name = "all" then
          "ok " ++ " | ".intercalate (allTables.map fun n => (table n g.nv g.els).getD "")
        else
          match table name g.nv g.els with
          | some s => "ok " ++ s
          | none => "err bad-op"
    | none => "err bad-op"
  | "geom" :: rest =>
    match parseGrid rest with
    | some g =>
      match check g with
      | some e => e
      | none => withVerts g fun V => "ok " ++ showRats (g.els.flatMap (geomRow V))
    | none => "err bad-op"
  | "refineverts" :: rest =>
    match parseGrid rest with
    | some g =>
      match check g with
      | some e => e
      | none => withVerts g fun V => "ok " ++ showRats (flatV3 (refineVerts V g.els))
    | none => "err bad-op"
  | "baryverts" :: rest =>
    match parseGrid rest with
    | some g =>
      match check g with
      | some e => e
      | none => withVerts g fun V => "ok " ++ showRats (flatV3 (baryVerts V g.els))
    | none => "err bad-op"
  | "childdoms" :: rest =>
    match parseNats rest with
    | some d => "ok " ++ showNats (refineDoms d) ++ " | " ++ showNats (baryDoms d)
    | none => "err bad-op"
  | "union" :: norm :: given :: k :: rest =>
    match norm.toNat?, given.toNat?, k.toNat? with
    | some norm, some given, some k =>
      match parseUnion k rest with
      | some (gs, []) =>
        if gs.any (fun g => g.2.1.isEmpty) then "err empty" else
        let els := unionElems 0 (gs.map fun g => (g.1, g.2.1, g.2.2.1))
        let doms :=
          if given != 0 then gs.flatMap fun g => g.2.1.map fun _ => g.2.2.2.1
          else (unionDomains (norm != 0) (gs.map fun g => g.2.2.2.2)).flatten
        s!"ok {(gs.map (·.1)).sum} {els.length} " ++ showNats (flatTris els) ++ " " ++ showNats doms
      | _ => "err bad-op"
    | _, _, _ => "err bad-op"
  | "segments" :: rest =>
    match parseGrid rest with
    | some g =>
      match check g with
      | some e => e
      | none =>
        match takeN g.rest g.els.length with
        | some (d, nseg :: segs) =>
          match parseNats d, nseg.toNat?, parseNats segs with
          | some d, some nseg, some segs =>
            if segs.length ≠ nseg then "err bad-op" else
            let r := gridFromSegments g.els d segs
            if r.1.isEmpty then "err empty" else
            s!"ok {r.1.length} " ++ showNats (flatTris r.1) ++ s!" {r.2.1.length} " ++ showNats r.2.1 ++ " "
              ++ showNats (flatTris r.2.2.1) ++ " " ++ showNats r.2.2.2
          | _, _, _ => "err bad-op"
        | _ => "err bad-op"
    | none => "err bad-op"
  | _ => "err bad-op"

end Driver.Topo
