/-
Model of the grid topology of bempp_cl/api/grid/grid.py (Mathlib-free, executable).

Every function mirrors what the source DOES (loop order, insertion order, local index conventions):

* `enumerateEdges`      `_numba_enumerate_edges` (insertion-ordered dictionary = position in the edge list)
* `sharedCount`         entry (i,j) of `element_to_vertex.T @ element_to_vertex` (multiplicities multiplied)
* `vertexAdjacency`, `edgeAdjacency`   `_find_vertex_adjacency`, `_find_edge_adjacency` on the pairs selected by
                        `_element_filter` (column order of the CSR product is unspecified: the model lists the pairs
                        row-major, the correspondence sorts columns), incl. the Bempp-3 ordering swap
* `edgeNeighbors`, `vertexNeighbors`, `elementNeighbors`, `edgeOnBoundary`, `vertexOnBoundary`
* `refine`, `barycentric` (vertex numbering of `_create_barycentric_connectivity_array`), `union`
  (with `normalize_array`), `gridFromSegments` (the code numbers the kept vertices in `set` iteration order, which
  is unspecified; the model numbers them increasingly and the correspondence compares up to that relabelling).

Constants (`_EDGE_LOCAL`, child tables, the swap permutation) come from `Gen/GridConsts.lean`, which is regenerated
from the source text on every run.

Index-degenerate elements (a repeated vertex index) are rejected by `Grid` (LinAlgError / ValueError, checked by
the oracle); the model functions are total but the theorems assume `NonDegenerate`.
-/
import BemppVerif.Gen.GridConsts

namespace BemppVerif.Model.Topo
open BemppVerif.Gen

abbrev Tri := Nat × Nat × Nat
abbrev Edge := Nat × Nat

/-- `elements[k, e]` -/
def Tri.get (t : Tri) : Nat → Nat
  | 0 => t.1
  | 1 => t.2.1
  | _ => t.2.2

def Tri.toList (t : Tri) : List Nat := [t.1, t.2.1, t.2.2]

/-- three distinct vertex indices -/
def Tri.NonDegenerate (t : Tri) : Prop := t.1 ≠ t.2.1 ∧ t.1 ≠ t.2.2 ∧ t.2.1 ≠ t.2.2

instance (t : Tri) : Decidable t.NonDegenerate := by unfold Tri.NonDegenerate; infer_instance

def NonDegenerate (els : List Tri) : Prop := ∀ t ∈ els, t.NonDegenerate

instance (els : List Tri) : Decidable (NonDegenerate els) := by unfold NonDegenerate; infer_instance

/-- all vertex indices are below the number of vertices -/
def InRange (nv : Nat) (els : List Tri) : Prop := ∀ t ∈ els, t.1 < nv ∧ t.2.1 < nv ∧ t.2.2 < nv

instance (nv : Nat) (els : List Tri) : Decidable (InRange nv els) := by unfold InRange; infer_instance

/-! ## Edge enumeration (`_numba_enumerate_edges`) -/

/-- `_sort_values` -/
def sortPair (a b : Nat) : Edge := if a > b then (b, a) else (a, b)

/-- `_EDGE_LOCAL[l]` -/
def localEdge (l : Nat) : Nat × Nat := GridConsts.edgeLocal.getD l (0, 0)

/-- `_vertices_from_edge_index(element, local_index)` -/
def edgeOf (t : Tri) (l : Nat) : Edge := sortPair (t.get (localEdge l).1) (t.get (localEdge l).2)

/-- an insertion-ordered dictionary `key ↦ position`, represented by the list of keys: look `a` up, inserting it
with the next free index if it is new; returns the new key list and the index of `a` -/
def insertKey {α : Type} [DecidableEq α] (l : List α) (a : α) : List α × Nat :=
  if a ∈ l then (l, l.idxOf a) else (l ++ [a], l.length)

/-- one dictionary access of the loop body: returns the new edge list and `edge_index` -/
def insertEdge (es : List Edge) (e : Edge) : List Edge × Nat := insertKey es e

/-- the element loop, started with the edge list `es`; returns `(edges, element_edges)` -/
def enumGo (es : List Edge) : List Tri → List Edge × List Tri
  | [] => (es, [])
  | t :: ts =>
    let r0 := insertEdge es (edgeOf t 0)
    let r1 := insertEdge r0.1 (edgeOf t 1)
    let r2 := insertEdge r1.1 (edgeOf t 2)
    let rest := enumGo r2.1 ts
    (rest.1, (r0.2, r1.2, r2.2) :: rest.2)

def enumerateEdges (els : List Tri) : List Edge × List Tri := enumGo [] els

def edges (els : List Tri) : List Edge := (enumerateEdges els).1
/-- `element_edges`: entry `i` holds the three edge indices of element `i` (local edges 0,1,2) -/
def elementEdges (els : List Tri) : List Tri := (enumerateEdges els).2

/-! ## Element-to-element vertex counts and adjacency -/

/-- entry of `EᵀE` for two elements: `Σ_v mult(v,t) * mult(v,s)` -/
def sharedCount (t s : Tri) : Nat := (t.toList.map fun a => s.toList.count a).sum

/-- `_find_first_common_array_index_pair_from_position` on the tail `a1[i:]` (`none` = ValueError) -/
def findFirstCommon (a2 : List Nat) : List Nat → Nat → Option (Nat × Nat)
  | [], _ => none
  | x :: xs, i => if x ∈ a2 then some (i, a2.idxOf x) else findFirstCommon a2 xs (i + 1)

def findFirstCommonFrom (a1 a2 : List Nat) (start : Nat) : Option (Nat × Nat) :=
  findFirstCommon a2 (a1.drop start) start

/-- `_get_shared_vertex_information_for_two_elements` (default `(0,0)` where the code raises) -/
def sharedVertexInfo (t s : Tri) : Nat × Nat :=
  (findFirstCommonFrom t.toList s.toList 0).getD (0, 0)

/-- `_find_two_common_array_index_pairs` followed by the Bempp-3 ordering swap of
`_get_shared_edge_information_for_two_elements`; result `(i0, i1, j0, j1)` = rows 2..5 of a column -/
def sharedEdgeInfo (t s : Tri) : Nat × Nat × Nat × Nat :=
  let p0 := (findFirstCommonFrom t.toList s.toList 0).getD (0, 0)
  let p1 := (findFirstCommonFrom t.toList s.toList (p0.1 + 1)).getD (0, 0)
  if p1.2 < p0.2 then (p1.1, p0.1, p1.2, p0.2) else (p0.1, p1.1, p0.2, p1.2)

/-- does the code raise `ValueError("Could not find a common index pair.")` for this pair? -/
def sharedEdgeRaises (t s : Tri) : Bool :=
  match findFirstCommonFrom t.toList s.toList 0 with
  | none => true
  | some p0 => (findFirstCommonFrom t.toList s.toList (p0.1 + 1)).isNone

/-- ordered pairs `(i, j)` (with their elements) whose `EᵀE` entry equals `k`, row-major -/
def pairsWithCount (els : List Tri) (k : Nat) : List ((Tri × Nat) × (Tri × Nat)) :=
  els.zipIdx.flatMap fun p => (els.zipIdx.filter fun q => sharedCount p.1 q.1 = k).map fun q => (p, q)

/-- columns `(e0, e1, i, j)` of `vertex_adjacency` -/
def vertexAdjacency (els : List Tri) : List (Nat × Nat × Nat × Nat) :=
  (pairsWithCount els 1).map fun pq =>
    let r := sharedVertexInfo pq.1.1 pq.2.1
    (pq.1.2, pq.2.2, r.1, r.2)

/-- columns `(e0, e1, i0, i1, j0, j1)` of `edge_adjacency` -/
def edgeAdjacency (els : List Tri) : List (Nat × Nat × Nat × Nat × Nat × Nat) :=
  (pairsWithCount els 2).map fun pq => (pq.1.2, pq.2.2, sharedEdgeInfo pq.1.1 pq.2.1)

/-! ## Neighbour tables and boundary flags -/

/-- `_compute_edge_neighbors`: for every edge the elements (once per local edge) that list it,
in increasing element order -/
def edgeNeighbors (els : List Tri) : List (List Nat) :=
  let ee := elementEdges els
  (List.range (edges els).length).map fun e =>
    ee.zipIdx.flatMap fun x => (x.1.toList.filter fun k => k = e).map fun _ => x.2

/-- rows of the CSR `element_to_vertex_matrix` (vertices × elements) -/
def vertexNeighbors (nv : Nat) (els : List Tri) : List (List Nat) :=
  (List.range nv).map fun v => (els.zipIdx.filter fun p => v ∈ p.1.toList).map fun p => p.2

/-- rows of `EᵀE` (the element itself included); column order unspecified in the code -/
def elementNeighbors (els : List Tri) : List (List Nat) :=
  els.map fun t => (els.zipIdx.filter fun q => 0 < sharedCount t q.1).map fun q => q.2

/-- diagonal entry of `element_to_edgeᵀ · element_to_edge` -/
def edgeDiag (ee : List Tri) (e : Nat) : Nat := (ee.map fun x => x.toList.count e * x.toList.count e).sum

def edgeOnBoundary (els : List Tri) : List Bool :=
  (List.range (edges els).length).map fun e => edgeDiag (elementEdges els) e == 1

def vertexOnBoundary (nv : Nat) (els : List Tri) : List Bool :=
  let fl := (edges els).zip (edgeOnBoundary els)
  (List.range nv).map fun v => fl.any fun ef => ef.2 && (ef.1.1 == v || ef.1.2 == v)

/-! ## Index part of `refine` and of the barycentric refinement -/

/-- vertex index denoted by a code of `Gen.GridConsts` for element `t` with edge-vertex indices `mids`
and barycentre vertex index `c` -/
def codeVertex (t : Tri) (mids : Tri) (c : Nat) (code : GridConsts.Code) : Nat :=
  match code.1 with
  | 0 => t.get code.2
  | 1 => mids.get code.2
  | _ => c

def children (tbl : List (GridConsts.Code × GridConsts.Code × GridConsts.Code)) (t mids : Tri) (c : Nat) : List Tri :=
  tbl.map fun k => (codeVertex t mids c k.1, codeVertex t mids c k.2.1, codeVertex t mids c k.2.2)

/-- `Grid.refine`: new elements; midpoint of edge `e` is vertex `nv + e` -/
def refineElems (nv : Nat) (els : List Tri) : List Tri :=
  (els.zip (elementEdges els)).flatMap fun p =>
    children GridConsts.refineChildren p.1 (p.2.1 + nv, p.2.2.1 + nv, p.2.2.2 + nv) 0

/-- `np.repeat(domain_indices, k)` -/
def repeatEach (k : Nat) (l : List Nat) : List Nat := l.flatMap (List.replicate k)

/-- domain indices of `Grid.refine` / of the barycentric refinement -/
def refineDoms (doms : List Nat) : List Nat := repeatEach GridConsts.refineRepeat doms
def baryDoms (doms : List Nat) : List Nat := repeatEach GridConsts.baryRepeat doms

/-- what each new vertex of the barycentric refinement is: the barycentre of an element or the midpoint of an edge -/
inductive BaryVertex
  | centre (elem : Nat)
  | mid (edge : Nat)
  deriving DecidableEq, Repr

/-- one access of `edge_to_vertex` in `_create_barycentric_connectivity_array`.  The state is the list of new
vertices in creation order (`number_of_vertices = nv + length`); `edge_to_vertex[e] > -1` iff `mid e` was created,
and then it is `nv +` its position. -/
def baryEdgeStep (nv : Nat) (d : List BaryVertex) (e : Nat) : List BaryVertex × Nat :=
  let r := insertKey d (BaryVertex.mid e)
  (r.1, nv + r.2)

/-- the element loop of `_create_barycentric_connectivity_array` (indices only); input entries are
`((element, its edge indices), element index)` -/
def baryGo (nv : Nat) : List BaryVertex → List ((Tri × Tri) × Nat) → List BaryVertex × List Tri
  | d, [] => (d, [])
  | d, p :: rest =>
    let mid := nv + d.length
    let r0 := baryEdgeStep nv (d ++ [BaryVertex.centre p.2]) p.1.2.1
    let r1 := baryEdgeStep nv r0.1 p.1.2.2.1
    let r2 := baryEdgeStep nv r1.1 p.1.2.2.2
    let more := baryGo nv r2.1 rest
    (more.1, children GridConsts.baryChildren p.1.1 (r0.2, r1.2, r2.2) mid ++ more.2)

def barycentric (nv : Nat) (els : List Tri) : List BaryVertex × List Tri :=
  baryGo nv [] (els.zip (elementEdges els)).zipIdx

/-- new vertex `nv + k` of the barycentric refinement is entry `k` -/
def baryNewVertices (nv : Nat) (els : List Tri) : List BaryVertex := (barycentric nv els).1
def baryElems (nv : Nat) (els : List Tri) : List Tri := (barycentric nv els).2

/-! ## `union` (index part) and `grid_from_segments` -/

def insertSorted (x : Nat) : List Nat → List Nat
  | [] => [x]
  | y :: ys => if x < y then x :: y :: ys else if x = y then y :: ys else y :: insertSorted x ys

/-- `np.unique` -/
def uniqueSorted (l : List Nat) : List Nat := l.foldr insertSorted []

def listMin (l : List Nat) : Nat := l.foldl min (l.headD 0)
def listMax (l : List Nat) : Nat := l.foldl max 0

/-- `normalize_array` of `union`, literally: subtract the minimum, then replace the i-th smallest remaining
value by `i` in increasing order -/
def normalizeArray (arr : List Nat) : List Nat :=
  let a0 := arr.map (· - listMin arr)
  ((uniqueSorted a0).drop 1).zipIdx 1 |>.foldl (fun a p => a.map fun x => if x = p.1 then p.2 else x) a0

/-- domain indices of the union when `domain_indices is None` -/
def unionDomains (normalize : Bool) : List (List Nat) → List (List Nat)
  | [] => []
  | d0 :: ds =>
    let first := if normalize then normalizeArray d0 else d0
    let rec go (prev : List Nat) : List (List Nat) → List (List Nat)
      | [] => []
      | d :: rest =>
        let cur := if normalize then (normalizeArray d).map (listMax prev + 1 + ·)
                   else d.map fun x => listMax prev + 1 + (x - listMin d)
        cur :: go cur rest
    first :: go first ds

/-- `grid.elements[[0, 2, 1], :]` -/
def swapTri (t : Tri) : Tri :=
  (t.get (GridConsts.unionSwap.getD 0 0), t.get (GridConsts.unionSwap.getD 1 1), t.get (GridConsts.unionSwap.getD 2 2))

/-- elements of the union: grid `g` with `nv_g` vertices is shifted by the number of vertices before it -/
def unionElems : Nat → List (Nat × List Tri × Bool) → List Tri
  | _, [] => []
  | off, (nv, els, sw) :: rest =>
    (els.map fun t => let u := if sw then swapTri t else t; (u.1 + off, u.2.1 + off, u.2.2 + off))
      ++ unionElems (off + nv) rest

/-- indices of the elements kept by `grid_from_segments` -/
def segmentKeep (doms : List Nat) (segs : List Nat) : List Nat :=
  (doms.zipIdx.filter fun p => p.1 ∈ segs).map fun p => p.2

/-- `grid_from_segments`: kept elements (old numbering), the old indices of the new vertices (model: increasing),
the new elements, the new domain indices -/
def gridFromSegments (els : List Tri) (doms : List Nat) (segs : List Nat) :
    List Tri × List Nat × List Tri × List Nat :=
  let keep := (els.zip doms).filter fun p => p.2 ∈ segs
  let oldE := keep.map (·.1)
  let vidx := uniqueSorted (oldE.flatMap Tri.toList)
  (oldE, vidx, oldE.map (fun t => (vidx.idxOf t.1, vidx.idxOf t.2.1, vidx.idxOf t.2.2)), keep.map (·.2))

end BemppVerif.Model.Topo
