/-
Model of the dense / potential / sparse assembly loops of bempp_cl/core (Mathlib-free, executable).

Matrices are represented as *contribution lists* (COO logs): `entry l r c` is the sum of the values of all
contributions addressed to `(r, c)` — exactly what `result[r, c] += v` and `np.add.at` compute.

The model mirrors:
  * `numba_kernels.default_scalar_regular_kernel`   → `localReg`, `regularLaunch`
  * `numba_assemblers.dense_assembler`              → `denseRegular`   (one launch per colour, all trial elements)
  * `numba_kernels.default_scalar_singular_kernel`  → `localSing`
  * `singular_assembler.assemble_singular_part` + the scatter in `dense_assembler.assemble_dense` → `singularContribs`
  * `numba_kernels.default_scalar_potential_kernel` → `potential`
  * `numba_kernels.default_sparse_kernel` + `l2_identity_kernel` → `sparseContribs`
All numeric data (weights, integration elements, shape-function values, kernel values) are parameters.
-/
namespace BemppVerif.Model.Asm

section
variable {R : Type} [Add R] [Mul R] [Zero R]

/-- sum of a list (right fold, so that `lsum (a :: l) = a + lsum l` by `rfl`) -/
def lsum : List R → R
  | [] => 0
  | a :: l => a + lsum l

/-- `Σ_{i < n} f i` -/
def rsum (n : Nat) (f : Nat → R) : R := lsum ((List.range n).map f)

/-- a contribution `result[row, col] += val` -/
structure Contrib (R : Type) where
  row : Nat
  col : Nat
  val : R

/-- value of entry `(r, c)` after all contributions have been added -/
def entry (l : List (Contrib R)) (r c : Nat) : R :=
  lsum (l.map fun k => if k.row = r ∧ k.col = c then k.val else 0)

/-- discrete data of a function space as the assemblers see it -/
structure SpaceData (R : Type) where
  nshape : Nat
  l2g : Nat → Nat → Nat        -- local2global[element, i]
  mult : Nat → Nat → R         -- local_multipliers[element, i]

/-- data of a regular (tensor Gauss) assembly: everything the kernel reads -/
structure RegData (R : Type) where
  nq : Nat                      -- number of regular quadrature points
  w : Nat → R                   -- quad_weights
  ieT : Nat → R                 -- integration elements of the test grid
  ieS : Nat → R                 -- integration elements of the trial grid
  phiT : Nat → Nat → R          -- local_test_fun_values[0, i, p]
  phiS : Nat → Nat → R          -- local_trial_fun_values[0, j, q]
  K : Nat → Nat → Nat → Nat → R -- kernel value at (test element, test point, trial element, trial point)
  adjacent : Nat → Nat → Bool   -- grids_identical && elements_adjacent(τ, σ)

/-- `local_result[σ, i, j]` of `default_scalar_regular_kernel` for test element `τ`:
`Σ_p Σ_q K(τ,p,σ,q) * ((w_q * ie_σ) * ie_τ * w_p) * φ_j(q) * φ_i(p)`; zero for skipped (adjacent) pairs. -/
def localReg (d : RegData R) (τ σ i j : Nat) : R :=
  if d.adjacent τ σ then 0 else
  rsum d.nq fun p => rsum d.nq fun q =>
    d.K τ p σ q * (d.w q * d.ieS σ * d.ieT τ * d.w p) * d.phiS j q * d.phiT i p

/-- one call of the regular assembly function: `prange` over `testElems`, all `trialElems` -/
def regularLaunch (d : RegData R) (T S : SpaceData R) (testElems trialElems : List Nat) : List (Contrib R) :=
  testElems.flatMap fun τ => trialElems.flatMap fun σ =>
    (List.range T.nshape).flatMap fun i => (List.range S.nshape).map fun j =>
      ⟨T.l2g τ i, S.l2g σ j, localReg d τ σ i j * T.mult τ i * S.mult σ j⟩

/-- `dense_assembler`: one launch per colour of the test space -/
def denseRegular (d : RegData R) (T S : SpaceData R) (testByColor : List (List Nat)) (trialElems : List Nat) :
    List (Contrib R) :=
  testByColor.flatMap fun launch => regularLaunch d T S launch trialElems

/-- data of one singular pair as prepared by `_SingularQuadratureRuleInterfaceGalerkin.get_arrays` -/
structure SingPair where
  testElem : Nat
  trialElem : Nat
  testOffset : Nat
  trialOffset : Nat
  weightsOffset : Nat
  npoints : Nat

/-- data read by the singular kernel -/
structure SingData (R : Type) where
  w : Nat → R                    -- concatenated quad_weights
  ie : Nat → R                   -- integration elements
  phiT : Nat → Nat → R           -- test shape function i at concatenated test point index
  phiS : Nat → Nat → R           -- trial shape function j at concatenated trial point index
  K : Nat → Nat → Nat → Nat → R  -- kernel value at (test element, test point index, trial element, trial point index)

/-- `result[nshape_trial*nshape_test*index + i*nshape_trial + j]` of `default_scalar_singular_kernel` -/
def localSing (d : SingData R) (pr : SingPair) (i j : Nat) : R :=
  (rsum pr.npoints fun q =>
    d.K pr.testElem (pr.testOffset + q) pr.trialElem (pr.trialOffset + q) * d.w (pr.weightsOffset + q)
      * d.phiT i (pr.testOffset + q) * d.phiS j (pr.trialOffset + q))
  * (d.ie pr.testElem * d.ie pr.trialElem)

/-- singular part scattered with `np.add.at` through the spaces' `local2global` and multipliers
(`i_ind = nshape_test*τ + i`, `j_ind = nshape_trial*σ + j` index the localised spaces) -/
def singularContribs (d : SingData R) (T S : SpaceData R) (pairs : List SingPair) : List (Contrib R) :=
  pairs.flatMap fun pr =>
    (List.range T.nshape).flatMap fun i => (List.range S.nshape).map fun j =>
      ⟨T.l2g pr.testElem i, S.l2g pr.trialElem j,
        localSing d pr i j * S.mult pr.trialElem j * T.mult pr.testElem i⟩

/-- `default_scalar_potential_kernel`: value at evaluation point `x` (index into `points`) for the coefficient
vector `coef` of the localised (element-wise) space: `Σ_σ Σ_q K(x, σ, q) * (Σ_j ie_σ * w_q * φ_j(q) * coef[nshape*σ + j])` -/
structure PotData (R : Type) where
  nq : Nat
  w : Nat → R
  ie : Nat → R
  phi : Nat → Nat → R
  K : Nat → Nat → Nat → R       -- kernel value at (evaluation point, trial element, trial point)

def potential (d : PotData R) (nshape : Nat) (support : List Nat) (coef : Nat → R) (x : Nat) : R :=
  lsum (support.map fun σ => rsum d.nq fun q =>
    d.K x σ q * rsum nshape fun j => d.ie σ * d.w q * d.phi j q * coef (nshape * σ + j))

/-- `default_sparse_kernel` with `l2_identity_kernel` (scalar spaces): slot `nshape*index + i*nshape_trial + j`
for the `index`-th common support element, then scattered through local2global by the sparse assembler
(the basis evaluators already contain the multipliers) -/
structure SparseData (R : Type) where
  nq : Nat
  w : Nat → R
  ie : Nat → R
  valT : Nat → Nat → Nat → R    -- test basis value (element, i, point) incl. multiplier
  valS : Nat → Nat → Nat → R

def localIdentity (d : SparseData R) (e i j : Nat) : R :=
  rsum d.nq fun q => d.valT e i q * d.valS e j q * d.w q * d.ie e

def sparseContribs (d : SparseData R) (T S : SpaceData R) (elements : List Nat) : List (Contrib R) :=
  elements.flatMap fun e =>
    (List.range T.nshape).flatMap fun i => (List.range S.nshape).map fun j =>
      ⟨T.l2g e i, S.l2g e j, localIdentity d e i j⟩

/-! ### Specification: the Galerkin matrix as a plain double sum over element pairs -/

/-- `Σ_{τ ∈ testSupport} Σ_{σ ∈ trialSupport} Σ_i Σ_j [l2g_T τ i = r] [l2g_S σ j = c] mult_T τ i * mult_S σ j * I τ σ i j` -/
def galerkin (T S : SpaceData R) (testSupport trialSupport : List Nat) (I : Nat → Nat → Nat → Nat → R) (r c : Nat) : R :=
  lsum (testSupport.map fun τ => lsum (trialSupport.map fun σ =>
    rsum T.nshape fun i => rsum S.nshape fun j =>
      if T.l2g τ i = r ∧ S.l2g σ j = c then I τ σ i j * T.mult τ i * S.mult σ j else 0))

/-- the element-wise discontinuous space with the same shapeset on the whole grid -/
def dpSpace [One R] (nshape : Nat) : SpaceData R := ⟨nshape, fun e i => nshape * e + i, fun _ _ => 1⟩

/-- `map_to_full_grid` of a space: entry `(nshape*e + i, g)` is `mult e i` if `l2g e i = g` (for support elements) -/
def fullGridMap (S : SpaceData R) (support : List Nat) (a g : Nat) : R :=
  lsum (support.map fun e => rsum S.nshape fun i =>
    if S.nshape * e + i = a ∧ S.l2g e i = g then S.mult e i else 0)

end

end BemppVerif.Model.Asm
