/-
Model of the *wrapper logic* of the linear solvers (Mathlib-free, executable):

* `bempp_cl/api/assembly/blocked_operator.py`: `coefficients_from_grid_functions_list`,
  `projections_from_grid_functions_list`, `grid_function_list_from_coefficients`,
  `grid_function_list_from_projections`, `BlockedOperatorBase.__mul__` on a list of grid functions,
  `BlockedOperatorBase.strong_form`, `BlockedDiscreteOperator.to_dense`;
* `bempp_cl/api/assembly/grid_function.py`: how a `GridFunction` stores coefficients / projections and how
  `coefficients` and `projections(dual)` are obtained from each other;
* `bempp_cl/api/assembly/boundary_operator.py`: `BoundaryOperator.__mul__` on a grid function, `strong_form`;
* `bempp_cl/api/linalg/direct_solvers.py`: `lu`, `compute_lu_factors`;
* `bempp_cl/api/linalg/iterative_solvers.py`: `IterationCounter`, `gmres` (single and blocked), `cg`.

SciPy's routines (`scipy.linalg.solve / lu_factor / lu_solve`, `scipy.sparse.linalg.gmres / cg`) and the
application of an inverse mass matrix (`splu` / normal equations) are *external parameters* of the model.
The weak form of a blocked operator is represented by the dense matrix `BlockedDiscreteOperator.to_dense()`
builds (`hstack` per block row, `vstack` of the rows); that its `_matvec` is the product with that matrix is
checked by the correspondence (probing with unit vectors), it is not part of this model.

Everything is polymorphic in the scalar type `R` (the driver instantiates it with complex rationals).
-/

namespace BemppVerif.Model.Solve

abbrev Vec (R : Type) := List R
/-- dense matrix as the list of its rows -/
abbrev Mat (R : Type) := List (List R)

/-- a function space as far as the wrappers look at it: identity (`==`, i.e. `check_if_compatible`) and
`global_dof_count` -/
structure Space where
  id : Nat
  ndof : Nat
deriving DecidableEq, Repr, Inhabited

/-- exceptions, mapped to the enum of the correspondence protocol -/
inductive Err where
  | valueError
  | otherError
deriving DecidableEq, Repr

/-! ## Packing and unpacking of block vectors -/

/-- `res[pos : pos + n] = item` for consecutive items: concatenation -/
def pack {α : Type} (vs : List (List α)) : List α := vs.flatten

/-- `v[pos : pos + n]` for consecutive counts `n` (NumPy slicing: truncates silently at the end) -/
def splitBy {α : Type} : List Nat → List α → List (List α)
  | [], _ => []
  | n :: ns, v => v.take n :: splitBy ns (v.drop n)

/-! ## Dense linear algebra used by the wrappers -/

section Algebra
variable {R : Type} [Zero R] [Add R] [Mul R]

def dot (a b : Vec R) : R := (List.zipWith (· * ·) a b).sum

def matvec (M : Mat R) (x : Vec R) : Vec R := M.map fun r => dot r x

def vsub [Sub R] (a b : Vec R) : Vec R := List.zipWith (· - ·) a b

/-- `numpy.hstack` of the blocks of one block row (all blocks have the same number of rows) -/
def hstack : List (Mat R) → Mat R
  | [] => []
  | [B] => B
  | B :: B' :: Bs => List.zipWith (· ++ ·) B (hstack (B' :: Bs))

/-- `BlockedDiscreteOperator.to_dense`: `vstack` of the `hstack`ed block rows -/
def toDense (blocks : List (List (Mat R))) : Mat R := (blocks.map hstack).flatten

end Algebra

/-! ## Grid functions -/

/-- mass matrices and the (external) application of their inverses.
`mass s d` is `get_mass_matrix(s, d)` = weak form of `identity(s, s, d)` (`d.ndof` rows, `s.ndof` columns);
`massInv s d v` is `get_inverse_mass_matrix(s, d) @ v` (sparse LU; normal equations if not square). -/
structure MassCtx (R : Type) where
  mass : Space → Space → Mat R
  massInv : Space → Space → Vec R → Vec R

/-- `GridFunction(space, dual_space=dual, coefficients=c)` resp. `(…, projections=p)` -/
inductive GF (R : Type) where
  | ofCoefficients (space dual : Space) (c : Vec R)
  | ofProjections (space dual : Space) (p : Vec R)
deriving Repr

section GridFunctions
variable {R : Type} [Zero R] [Add R] [Mul R]

def GF.space : GF R → Space
  | .ofCoefficients s _ _ => s
  | .ofProjections s _ _ => s

def GF.dual : GF R → Space
  | .ofCoefficients _ d _ => d
  | .ofProjections _ d _ => d

/-- property `GridFunction.coefficients` -/
def GF.coefficients (cx : MassCtx R) : GF R → Vec R
  | .ofCoefficients _ _ c => c
  | .ofProjections s d p => cx.massInv s d p

/-- `GridFunction.projections(dual_space)`: the stored projections are returned when they were given for the
same dual space, otherwise mass matrix times coefficients -/
def GF.projections (cx : MassCtx R) (f : GF R) (d : Space) : Vec R :=
  match f with
  | .ofProjections s d' p => if d = d' then p else matvec (cx.mass s d) (cx.massInv s d' p)
  | .ofCoefficients s _ c => matvec (cx.mass s d) c

/-- `coefficients_from_grid_functions_list` -/
def coefficientsFromList (cx : MassCtx R) (fs : List (GF R)) : Vec R :=
  pack (fs.map (GF.coefficients cx))

/-- `projections_from_grid_functions_list` (`zip` stops at the shorter list) -/
def projectionsFromList (cx : MassCtx R) (fs : List (GF R)) (duals : List Space) : Vec R :=
  pack (List.zipWith (GF.projections cx) fs duals)

/-- `grid_function_list_from_coefficients`: slices by the dof counts of `spaces` -/
def gridFunctionListFromCoefficients (v : Vec R) (spaces : List Space) : List (GF R) :=
  List.zipWith (fun s c => GF.ofCoefficients s s c) spaces (splitBy (spaces.map Space.ndof) v)

/-- `grid_function_list_from_projections`: slices by the dof counts of the *dual* spaces -/
def gridFunctionListFromProjections (v : Vec R) (spaces duals : List Space) : Except Err (List (GF R)) :=
  if spaces.length ≠ duals.length then .error .valueError
  else .ok (List.zipWith (fun (sd : Space × Space) p => GF.ofProjections sd.1 sd.2 p) (spaces.zip duals)
              (splitBy (duals.map Space.ndof) v))

end GridFunctions

/-! ## Operators -/

/-- a boundary operator: its three spaces and its (dense) weak form, `dual.ndof` rows, `domain.ndof` columns -/
structure Op (R : Type) where
  domain : Space
  range : Space
  dual : Space
  W : Mat R

/-- a blocked operator: `blocks[i][j]` is the weak form of block `(i, j)` (zero blocks written out) -/
structure BlockOp (R : Type) where
  domains : List Space
  ranges : List Space
  duals : List Space
  blocks : List (List (Mat R))

section Operators
variable {R : Type} [Zero R] [Add R] [Mul R]

/-- the dense weak form of a blocked operator -/
def BlockOp.W (A : BlockOp R) : Mat R := toDense A.blocks

/-- `BoundaryOperator.__mul__(GridFunction)` -/
def Op.mulGF (cx : MassCtx R) (A : Op R) (f : GF R) : Except Err (GF R) :=
  if A.domain ≠ f.space then .error .valueError
  else .ok (.ofProjections A.range A.dual (matvec A.W (f.coefficients cx)))

/-- `BlockedOperatorBase.__mul__(list of GridFunction)`: the list must have one function per block column and
function `j` must live in `domains[j]` -/
def BlockOp.mulGFs (cx : MassCtx R) (A : BlockOp R) (fs : List (GF R)) : Except Err (List (GF R)) :=
  if fs.length ≠ A.domains.length then .error .valueError
  else if fs.map GF.space ≠ A.domains then .error .valueError
  else gridFunctionListFromProjections (matvec A.W (coefficientsFromList cx fs)) A.ranges A.duals

/-- linear operator handed to a Krylov routine (a SciPy `LinearOperator`) -/
abbrev LinOp (R : Type) := Vec R → Vec R

def Op.weakOp (A : Op R) : LinOp R := matvec A.W

/-- `BoundaryOperator.strong_form()`: `get_inverse_mass_matrix(range, dual_to_range) * weak_form()` -/
def Op.strongOp (cx : MassCtx R) (A : Op R) : LinOp R := fun x => cx.massInv A.range A.dual (matvec A.W x)

def BlockOp.weakOp (A : BlockOp R) : LinOp R := matvec A.W

/-- `BlockedOperatorBase.strong_form()`: block diagonal of inverse mass matrices times the weak form -/
def BlockOp.strongOp (cx : MassCtx R) (A : BlockOp R) : LinOp R := fun x =>
  pack (List.zipWith (fun (sd : Space × Space) y => cx.massInv sd.1 sd.2 y) (A.ranges.zip A.duals)
          (splitBy (A.duals.map Space.ndof) (matvec A.W x)))

end Operators

/-! ## Direct solver -/

/-- SciPy's dense routines -/
structure DirectExt (R F : Type) where
  solve : Mat R → Vec R → Vec R
  luFactor : Mat R → F
  luSolve : F → Vec R → Vec R

/-- what `lu` hands to SciPy -/
inductive LuCall (R F : Type) where
  | solve (M : Mat R) (v : Vec R)
  | luSolve (fac : F) (v : Vec R)

def DirectExt.run {R F : Type} (ext : DirectExt R F) : LuCall R F → Vec R
  | .solve M v => ext.solve M v
  | .luSolve fac v => ext.luSolve fac v

section Direct
variable {R F : Type} [Zero R] [Add R] [Mul R]

def luCallSingle (cx : MassCtx R) (A : Op R) (b : GF R) (fac : Option F) : LuCall R F :=
  let vec := b.projections cx A.dual
  match fac with
  | some f => .luSolve f vec
  | none => .solve A.W vec

/-- `lu(A, b, lu_factor)` for a `BoundaryOperator` -/
def luSingle (ext : DirectExt R F) (cx : MassCtx R) (A : Op R) (b : GF R) (fac : Option F) : GF R :=
  .ofCoefficients A.domain A.domain (ext.run (luCallSingle cx A b fac))

def luCallBlocked (cx : MassCtx R) (A : BlockOp R) (bs : List (GF R)) (fac : Option F) : LuCall R F :=
  let vec := projectionsFromList cx bs A.duals
  match fac with
  | some f => .luSolve f vec
  | none => .solve A.W vec

/-- `lu(A, b, lu_factor)` for a blocked operator -/
def luBlocked (ext : DirectExt R F) (cx : MassCtx R) (A : BlockOp R) (bs : List (GF R)) (fac : Option F) :
    List (GF R) :=
  gridFunctionListFromCoefficients (ext.run (luCallBlocked cx A bs fac)) A.domains

/-- `compute_lu_factors(A)` = `lu_factor(as_matrix(A.weak_form()))` -/
def computeLuFactorsSingle (ext : DirectExt R F) (A : Op R) : F := ext.luFactor A.W
def computeLuFactorsBlocked (ext : DirectExt R F) (A : BlockOp R) : F := ext.luFactor A.W

end Direct

/-! ## Iterative solvers -/

/-- the arguments that reach `scipy.sparse.linalg.gmres / cg` (`T` is the type of tolerances) -/
structure KrylovArgs (R T : Type) where
  op : LinOp R
  rhs : Vec R
  rtol : T
  restart : Option Nat
  maxiter : Option Nat

/-- what the SciPy routine does as seen by the wrapper: the solution vector, `info`, and the arguments of its
successive invocations of the callback (`ι` = scalar residual norms for GMRES with the legacy callback,
iterates `x_k` for CG) -/
structure KrylovRet (R ι : Type) where
  x : Vec R
  info : Int
  calls : List ι

structure IterExt (R T σ : Type) where
  gmres : KrylovArgs R T → KrylovRet R σ
  cg : KrylovArgs R T → KrylovRet R (Vec R)

/-- norms used by `IterationCounter` (`numpy.linalg.norm` of a vector resp. of a scalar) -/
structure NormCtx (R σ ρ : Type) where
  nrm : Vec R → ρ
  nrmScalar : σ → ρ

/-- state of `IterationCounter` -/
structure Counter (ρ : Type) where
  count : Nat
  residuals : List ρ
deriving Repr

/-- `IterationCounter.__call__` -/
def Counter.call {ρ ι : Type} (store : Bool) (resNorm : ι → ρ) (st : Counter ρ) (x : ι) : Counter ρ :=
  { count := st.count + 1
    residuals := if store then st.residuals ++ [resNorm x] else st.residuals }

/-- the counter after the routine's callback invocations -/
def Counter.run {ρ ι : Type} (store : Bool) (resNorm : ι → ρ) (calls : List ι) : Counter ρ :=
  calls.foldl (Counter.call store resNorm) ⟨0, []⟩

/-- return value `(result, info[, residuals][, count])` -/
structure IterOut (G ρ : Type) where
  result : G
  info : Int
  residuals : Option (List ρ)
  count : Option Nat

def IterOut.mk' {G ρ : Type} (g : G) (info : Int) (cb : Counter ρ) (retRes retCnt : Bool) : IterOut G ρ :=
  { result := g, info := info
    residuals := if retRes then some cb.residuals else none
    count := if retCnt then some cb.count else none }

def IterOut.mapResult {G H ρ : Type} (f : G → H) (o : IterOut G ρ) : IterOut H ρ :=
  { result := f o.result, info := o.info, residuals := o.residuals, count := o.count }

section Iterative
variable {R T σ ρ : Type} [Zero R] [Add R] [Mul R] [Sub R]

/-- operator and right-hand side of `_gmres_single_op_imp` / `cg` -/
def krylovArgsSingle (cx : MassCtx R) (A : Op R) (b : GF R) (tol : T) (restart maxiter : Option Nat)
    (strong : Bool) : KrylovArgs R T :=
  if strong then ⟨A.strongOp cx, b.coefficients cx, tol, restart, maxiter⟩
  else ⟨A.weakOp, b.projections cx A.dual, tol, restart, maxiter⟩

/-- operator and right-hand side of `_gmres_block_op_imp` -/
def krylovArgsBlocked (cx : MassCtx R) (A : BlockOp R) (bs : List (GF R)) (tol : T) (restart maxiter : Option Nat)
    (strong : Bool) : KrylovArgs R T :=
  if strong then ⟨A.strongOp cx, coefficientsFromList cx bs, tol, restart, maxiter⟩
  else ⟨A.weakOp, projectionsFromList cx bs A.duals, tol, restart, maxiter⟩

/-- `_gmres_single_op_imp` -/
def gmresSingle (ext : IterExt R T σ) (nc : NormCtx R σ ρ) (cx : MassCtx R) (A : Op R) (b : GF R) (tol : T)
    (restart maxiter : Option Nat) (strong retRes retCnt : Bool) : Except Err (IterOut (GF R) ρ) :=
  if strong ∧ A.range ≠ b.space then .error .valueError
  else
    let r := ext.gmres (krylovArgsSingle cx A b tol restart maxiter strong)
    let cb := Counter.run retRes nc.nrmScalar r.calls
    .ok (IterOut.mk' (.ofCoefficients A.domain A.domain r.x) r.info cb retRes retCnt)

/-- `_gmres_block_op_imp` -/
def gmresBlocked (ext : IterExt R T σ) (nc : NormCtx R σ ρ) (cx : MassCtx R) (A : BlockOp R) (bs : List (GF R))
    (tol : T) (restart maxiter : Option Nat) (strong retRes retCnt : Bool) : IterOut (List (GF R)) ρ :=
  let r := ext.gmres (krylovArgsBlocked cx A bs tol restart maxiter strong)
  let cb := Counter.run retRes nc.nrmScalar r.calls
  IterOut.mk' (gridFunctionListFromCoefficients r.x A.domains) r.info cb retRes retCnt

/-- `cg` (single operators only; `IterationCounter(return_residuals, True, A_op, b_vec)` records
`‖b_vec − A_op x_k‖`) -/
def cgSingle (ext : IterExt R T σ) (nc : NormCtx R σ ρ) (cx : MassCtx R) (A : Op R) (b : GF R) (tol : T)
    (maxiter : Option Nat) (strong retRes retCnt : Bool) : Except Err (IterOut (GF R) ρ) :=
  if strong ∧ A.range ≠ b.space then .error .valueError
  else
    let args : KrylovArgs R T := krylovArgsSingle cx A b tol none maxiter strong
    let r := ext.cg args
    let cb := Counter.run retRes (fun x => nc.nrm (vsub args.rhs (args.op x))) r.calls
    .ok (IterOut.mk' (.ofCoefficients A.domain A.domain r.x) r.info cb retRes retCnt)

end Iterative

/-! ## Entry points (dispatch on the type of the arguments) -/

inductive AnyOp (R : Type) where
  | single (A : Op R)
  | blocked (A : BlockOp R)

inductive AnyGF (R : Type) where
  | one (f : GF R)
  | many (fs : List (GF R))

section Entry
variable {R F T σ ρ : Type} [Zero R] [Add R] [Mul R] [Sub R]

/-- `bempp_cl.api.lu`: a list for a single operator or a single function for a blocked operator end in an
`AttributeError` / `TypeError` -/
def lu (ext : DirectExt R F) (cx : MassCtx R) (A : AnyOp R) (b : AnyGF R) (fac : Option F) :
    Except Err (AnyGF R) :=
  match A, b with
  | .single A, .one b => .ok (.one (luSingle ext cx A b fac))
  | .blocked A, .many bs => .ok (.many (luBlocked ext cx A bs fac))
  | _, _ => .error .otherError

def luCall (cx : MassCtx R) (A : AnyOp R) (b : AnyGF R) (fac : Option F) : Option (LuCall R F) :=
  match A, b with
  | .single A, .one b => some (luCallSingle cx A b fac)
  | .blocked A, .many bs => some (luCallBlocked cx A bs fac)
  | _, _ => none

def computeLuFactors (ext : DirectExt R F) : AnyOp R → F
  | .single A => computeLuFactorsSingle ext A
  | .blocked A => computeLuFactorsBlocked ext A

/-- `bempp_cl.api.gmres` -/
def gmres (ext : IterExt R T σ) (nc : NormCtx R σ ρ) (cx : MassCtx R) (A : AnyOp R) (b : AnyGF R) (tol : T)
    (restart maxiter : Option Nat) (strong retRes retCnt : Bool) : Except Err (IterOut (AnyGF R) ρ) :=
  match A, b with
  | .single A, .one b =>
    (gmresSingle ext nc cx A b tol restart maxiter strong retRes retCnt).map (IterOut.mapResult AnyGF.one)
  | .single _, .many _ => .error .valueError
  | .blocked A, .many bs =>
    .ok ((gmresBlocked ext nc cx A bs tol restart maxiter strong retRes retCnt).mapResult AnyGF.many)
  | .blocked _, .one _ => .error .otherError

/-- `bempp_cl.api.cg` -/
def cg (ext : IterExt R T σ) (nc : NormCtx R σ ρ) (cx : MassCtx R) (A : AnyOp R) (b : AnyGF R) (tol : T)
    (maxiter : Option Nat) (strong retRes retCnt : Bool) : Except Err (IterOut (AnyGF R) ρ) :=
  match A, b with
  | .single A, .one b =>
    (cgSingle ext nc cx A b tol maxiter strong retRes retCnt).map (IterOut.mapResult AnyGF.one)
  | _, _ => .error .valueError

def krylovArgs (cx : MassCtx R) (A : AnyOp R) (b : AnyGF R) (tol : T) (restart maxiter : Option Nat)
    (strong : Bool) : Option (KrylovArgs R T) :=
  match A, b with
  | .single A, .one b => some (krylovArgsSingle cx A b tol restart maxiter strong)
  | .blocked A, .many bs => some (krylovArgsBlocked cx A bs tol restart maxiter strong)
  | _, _ => none

end Entry

end BemppVerif.Model.Solve
