/-
Model of the geometric quantities of bempp_cl/api/grid/grid.py (`_compute_geometric_quantities`), of the vertex
coordinates created by `refine` / `_create_barycentric_connectivity_array` / `union` / `grid_from_segments`.
Mathlib-free, executable, generic over the scalar type (the driver instantiates `K = Rat`; the theorems use any
field).  No square roots: the model carries the normal DIRECTION `a × b`, the SQUARED integration element
`det(JᵀJ)`, the squared diameter; the correspondence takes the roots in floating point.
-/
import BemppVerif.Model.Topo

namespace BemppVerif.Model.Geom
open BemppVerif.Model.Topo BemppVerif.Gen

abbrev V3 (K : Type) := K × K × K

section
variable {K : Type} [Add K] [Sub K] [Mul K] [Div K] [NatCast K]

def vzero : V3 K := (((0 : Nat) : K), ((0 : Nat) : K), ((0 : Nat) : K))
def vadd (a b : V3 K) : V3 K := (a.1 + b.1, a.2.1 + b.2.1, a.2.2 + b.2.2)
def vsub (a b : V3 K) : V3 K := (a.1 - b.1, a.2.1 - b.2.1, a.2.2 - b.2.2)
def smul (c : K) (a : V3 K) : V3 K := (c * a.1, c * a.2.1, c * a.2.2)
def sdiv (a : V3 K) (c : K) : V3 K := (a.1 / c, a.2.1 / c, a.2.2 / c)
def dot (a b : V3 K) : K := a.1 * b.1 + a.2.1 * b.2.1 + a.2.2 * b.2.2
/-- `np.cross` -/
def cross (a b : V3 K) : V3 K :=
  (a.2.1 * b.2.2 - a.2.2 * b.2.1, a.2.2 * b.1 - a.1 * b.2.2, a.1 * b.2.1 - a.2.1 * b.1)

/-- first / second column of the Jacobian: `v1 - v0`, `v2 - v0` -/
def jacA (v0 v1 _v2 : V3 K) : V3 K := vsub v1 v0
def jacB (v0 _v1 v2 : V3 K) : V3 K := vsub v2 v0

/-- `normal_directions = cross(jacobians[::2], jacobians[1::2])`; `normals = normal_directions / |.|`,
`volumes = 0.5 |.|` -/
def normalDir (v0 v1 v2 : V3 K) : V3 K := cross (jacA v0 v1 v2) (jacB v0 v1 v2)

/-- `det(JᵀJ)`: `integration_elements = sqrt` of it -/
def intElemSq (v0 v1 v2 : V3 K) : K :=
  let a := jacA v0 v1 v2
  let b := jacB v0 v1 v2
  dot a a * dot b b - dot a b * dot a b

/-- the two columns of `jacobian_inverse_transposed[e]` (a 3×2 matrix): `J (JᵀJ)⁻¹` -/
def jacInvTrans (v0 v1 v2 : V3 K) : V3 K × V3 K :=
  let a := jacA v0 v1 v2
  let b := jacB v0 v1 v2
  let d := intElemSq v0 v1 v2
  (sdiv (vsub (smul (dot b b) a) (smul (dot a b) b)) d, sdiv (vsub (smul (dot a a) b) (smul (dot a b) a)) d)

/-- `centroids = 1/3 Σ vertices` -/
def centroid (v0 v1 v2 : V3 K) : V3 K := sdiv (vadd (vadd v0 v1) v2) ((3 : Nat) : K)

/-- `0.5 * (p + q)` -/
def midpoint (p q : V3 K) : V3 K := sdiv (vadd p q) ((2 : Nat) : K)

/-- squared diameter `(|a| |b| |a-b| / |a×b|)²` -/
def diameterSq (v0 v1 v2 : V3 K) : K :=
  let a := jacA v0 v1 v2
  let b := jacB v0 v1 v2
  let n := normalDir v0 v1 v2
  dot a a * dot b b * dot (vsub a b) (vsub a b) / dot n n

/-- corner `k` of a triangle given by its three points -/
def pick (v0 v1 v2 : V3 K) : Nat → V3 K
  | 0 => v0
  | 1 => v1
  | _ => v2

/-- the point denoted by a vertex code of `Gen.GridConsts` in the triangle `(v0, v1, v2)`: a corner, the midpoint of
the local edge `_EDGE_LOCAL[l]`, or the barycentre -/
def codePoint (v0 v1 v2 : V3 K) (code : GridConsts.Code) : V3 K :=
  match code.1 with
  | 0 => pick v0 v1 v2 code.2
  | 1 => midpoint (pick v0 v1 v2 (localEdge code.2).1) (pick v0 v1 v2 (localEdge code.2).2)
  | _ => centroid v0 v1 v2

/-- coordinates of vertex `i` (zero where the code would raise IndexError) -/
def vert (V : List (V3 K)) (i : Nat) : V3 K := V.getD i vzero

/-- the three corner coordinates of an element -/
def corners (V : List (V3 K)) (t : Tri) : V3 K × V3 K × V3 K := (vert V t.1, vert V t.2.1, vert V t.2.2)

/-- `Grid.refine`: the new vertex array (old vertices, then one midpoint per edge in edge order) -/
def refineVerts (V : List (V3 K)) (els : List Tri) : List (V3 K) :=
  V ++ (edges els).map fun e => midpoint (vert V e.1) (vert V e.2)

/-- coordinates of a new vertex of the barycentric refinement -/
def baryCoord (V : List (V3 K)) (els : List Tri) : BaryVertex → V3 K
  | .centre i => let t := els.getD i (0, 0, 0); centroid (vert V t.1) (vert V t.2.1) (vert V t.2.2)
  | .mid e => let ed := (edges els).getD e (0, 0); midpoint (vert V ed.1) (vert V ed.2)

/-- `_create_barycentric_connectivity_array`: the new vertex array -/
def baryVerts (V : List (V3 K)) (els : List Tri) : List (V3 K) :=
  V ++ (baryNewVertices V.length els).map (baryCoord V els)

/-- `union`: the vertex arrays are concatenated -/
def unionVerts (Vs : List (List (V3 K))) : List (V3 K) := Vs.flatten

/-- `grid_from_segments`: `new_vertices = grid.vertices[:, vertex_indices]` -/
def segmentVerts (V : List (V3 K)) (vidx : List Nat) : List (V3 K) := vidx.map (vert V)

end

end BemppVerif.Model.Geom
