/-
Model of the operator CONSTRUCTORS of `bempp_cl/api/operators/{boundary,potential,far_field}/*.py`
(Mathlib-free, executable): which `OperatorDescriptor` (identifier, options, kernel type, assembly type,
complex flag, kernel dimension, presence of a singular part) a constructor hands to the assembler for a given
wavenumber.  The descriptor is all the assemblers ever see of the constructor call: kernels and assembly
functions are looked up by `kernel_type` / `assembly_type` (`select_numba_kernels`), the wavenumber travels in
`options`.

Numbers are probe values scaled by 100 (`k = 2.5` is `250`): the harness calls the real constructors with a
fixed set of probes and records the descriptors (`props/ctor_gen.py` → `Gen/CtorTable.lean`); the theorem
`recorded = spec` is re-checked on every run.
-/
namespace BemppVerif.Model.Ctor

inductive Kind | boundary | potential | farField
  deriving DecidableEq, Repr

inductive Family | laplace | helmholtz | modified | maxwell
  deriving DecidableEq, Repr

inductive Layer | sl | dl | adl | hyp | efield | mfield
  deriving DecidableEq, Repr

/-- a kernel / operator name `<family>[_far_field]_<layer>`, e.g. `helmholtz_far_field_single_layer`.  Names are kept
structured (no strings in the model: the translator `props/ctor_gen.py` parses the recorded strings into these terms and
checks that rendering them gives the recorded string back) -/
structure Name where
  family : Family
  farField : Bool
  layer : Layer
  deriving DecidableEq, Repr

/-- `assembly_type`: `default_scalar`, `<family>_hypersingular`, `maxwell_<layer>`, `maxwell_<electric|magnetic>_far_field` -/
inductive Asm
  | defaultScalar
  | hypersingular (f : Family)
  | maxwell (l : Layer)
  | maxwellFar (l : Layer)
  deriving DecidableEq, Repr

structure Desc where
  /-- `<name>_boundary` for boundary operators, `<name>_potential` for potentials and far fields -/
  identifier : Name
  identifierIsBoundary : Bool
  options : List Int
  kernelType : Name
  assemblyType : Asm
  isComplex : Bool
  kernelDim : Nat
  hasSingularPart : Bool
  deriving DecidableEq, Repr

/-- a constructor call: which constructor, and the wavenumber probe (`kre + i kim` for Helmholtz / Maxwell,
`om` for modified Helmholtz; unused ones are 0) -/
structure Call where
  kind : Kind
  family : Family
  layer : Layer
  kre : Int
  kim : Int
  om : Int
  deriving DecidableEq, Repr

/-- scalar boundary / potential / far-field constructor of family `f` (after the Helmholtz → modified dispatch) -/
def scalarDesc (kind : Kind) (f : Family) (l : Layer) (opts : List Int) : Desc :=
  let cplx := decide (f = .helmholtz)
  match kind with
  | .boundary =>
    { identifier := ⟨f, false, l⟩, identifierIsBoundary := true, options := opts
      -- the hypersingular operators use the single-layer kernel inside a dedicated assembly function
      kernelType := ⟨f, false, if l = .hyp then .sl else l⟩
      assemblyType := if l = .hyp then .hypersingular f else .defaultScalar
      isComplex := cplx, kernelDim := 1, hasSingularPart := true }
  | .potential =>
    { identifier := ⟨f, false, l⟩, identifierIsBoundary := false, options := opts
      kernelType := ⟨f, false, l⟩, assemblyType := .defaultScalar
      isComplex := cplx, kernelDim := 1, hasSingularPart := false }
  | .farField =>
    { identifier := ⟨f, true, l⟩, identifierIsBoundary := false, options := opts
      kernelType := ⟨f, true, l⟩, assemblyType := .defaultScalar
      isComplex := cplx, kernelDim := 1, hasSingularPart := false }

def maxwellDesc (kind : Kind) (l : Layer) (opts : List Int) : Desc :=
  match kind with
  | .boundary =>
    { identifier := ⟨.maxwell, false, l⟩, identifierIsBoundary := true, options := opts
      kernelType := ⟨.helmholtz, false, .sl⟩, assemblyType := .maxwell l
      isComplex := true, kernelDim := 1, hasSingularPart := true }
  | .potential =>
    { identifier := ⟨.maxwell, false, l⟩, identifierIsBoundary := false, options := opts
      kernelType := ⟨.helmholtz, false, .sl⟩, assemblyType := .maxwell l
      isComplex := true, kernelDim := 3, hasSingularPart := false }
  | .farField =>
    { identifier := ⟨.maxwell, true, l⟩, identifierIsBoundary := false, options := opts
      kernelType := ⟨.helmholtz, true, .sl⟩, assemblyType := .maxwellFar l
      isComplex := true, kernelDim := 3, hasSingularPart := false }

/-- THE SPECIFICATION of the constructors.  Helmholtz boundary and potential constructors with `Re k = 0`
hand over to modified Helmholtz with `ω = Im k`; the far-field and Maxwell constructors never dispatch. -/
def spec (c : Call) : Desc :=
  match c.family with
  | .laplace => scalarDesc c.kind .laplace c.layer []
  | .modified => scalarDesc c.kind .modified c.layer [c.om]
  | .helmholtz =>
    if c.kre = 0 ∧ c.kind ≠ .farField then scalarDesc c.kind .modified c.layer [c.kim]
    else scalarDesc c.kind .helmholtz c.layer [c.kre, c.kim]
  | .maxwell => maxwellDesc c.kind c.layer [c.kre, c.kim]

/-! ### `select_numba_kernels`: from a descriptor to the assembly function and the kernel function -/

inductive Mode | regular | singular | potential
  deriving DecidableEq, Repr

/-- a function of `numba_kernels.py`, identified by what it assembles / evaluates and in which mode; the translator
parses the function's `__name__` (e.g. `maxwell_efield_regular_assembler`, `laplace_double_layer_singular`,
`helmholtz_far_field_single_layer`) into this and checks that the selected object IS the module attribute of that name -/
structure Selected where
  asmFn : Asm × Mode
  kernFn : Name × Mode
  deriving DecidableEq, Repr

/-- THE SPECIFICATION of `select_numba_kernels(descriptor, mode)`: the assembly function of the descriptor's assembly type
in the requested mode, and the kernel function of the descriptor's kernel type — the singular variant for the singular
assembler, the regular one otherwise (potentials evaluate the regular kernels) -/
def selectSpec (d : Desc) (m : Mode) : Selected :=
  ⟨(d.assemblyType, m), (d.kernelType, if m = .singular then .singular else .regular)⟩

end BemppVerif.Model.Ctor
