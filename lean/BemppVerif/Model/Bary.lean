/-
Model of the barycentric refinement of ONE element in the element's reference coordinates
(Mathlib-free, executable).

* `subVertex s k` : reference coordinates of local vertex `k` of sub-triangle `6 * e + s`, read off the
  18 assignments of `grid.py:_create_barycentric_connectivity_array` (`Gen.BaryTables.subTri`) with the
  vertex formulas of the same function (`1/3 * sum` of the element's vertices, `1/2 * sum` of the edge's
  vertices, edge `l` joining the local vertices `_EDGE_LOCAL[l]`).
* `p1G`, `rwgG` : the reference shape functions of `shapesets.py` (`p1_discontinuous`, `rwg0`).
* `triMap p0 p1 p2` : the affine map from the reference coordinates of a (sub-)triangle with vertices
  `p0 p1 p2` to the coordinates in which `p0 p1 p2` are given; `triLin` its linear part (the factor `M_s` in
  the Jacobian `J_s = J ∘ M_s` of a sub-triangle), `triDet` its determinant.
* `ratio`, `subQ`, `piolaDefect` : what `generate_rwg0_map` does with its length table, see `Props/C10.lean`.

Everything that is needed over an arbitrary field in the theorems is written once, generically over the
scalar type, and instantiated with `Rat` in the driver.
-/
import BemppVerif.Gen.BaryTables

namespace BemppVerif.Model.Bary
open BemppVerif.Gen.BaryTables

/-! ## generic part -/
section generic
variable {K : Type}

def sum3 [Add K] (f : Nat → K) : K := f 0 + f 1 + f 2

def smul2 [Mul K] (a : K) (v : K × K) : K × K := (a * v.1, a * v.2)
def add2 [Add K] (u v : K × K) : K × K := (u.1 + v.1, u.2 + v.2)
def sub2 [Sub K] (u v : K × K) : K × K := (u.1 - v.1, u.2 - v.2)
def sum3v [Add K] (f : Nat → K × K) : K × K := add2 (add2 (f 0) (f 1)) (f 2)

/-- `_p1_disc_shapeset_evaluate`: `1 - x - y, x, y` -/
def p1G [Sub K] [One K] (i : Nat) (p : K × K) : K :=
  if i = 0 then 1 - p.1 - p.2 else if i = 1 then p.1 else p.2

/-- `_rwg0_shapeset_evaluate`: `(x, y-1), (x-1, y), (x, y)` -/
def rwgG [Sub K] [One K] (i : Nat) (p : K × K) : K × K :=
  if i = 0 then (p.1, p.2 - 1) else if i = 1 then (p.1 - 1, p.2) else (p.1, p.2)

/-- point with reference coordinates `η` of the triangle `p0 p1 p2` -/
def triMap [Add K] [Sub K] [Mul K] [One K] (p0 p1 p2 : K × K) (η : K × K) : K × K :=
  (p0.1 * (1 - η.1 - η.2) + p1.1 * η.1 + p2.1 * η.2, p0.2 * (1 - η.1 - η.2) + p1.2 * η.1 + p2.2 * η.2)

/-- linear part of `triMap` applied to a vector -/
def triLin [Add K] [Sub K] [Mul K] (p0 p1 p2 : K × K) (v : K × K) : K × K :=
  ((p1.1 - p0.1) * v.1 + (p2.1 - p0.1) * v.2, (p1.2 - p0.2) * v.1 + (p2.2 - p0.2) * v.2)

def triDet [Sub K] [Mul K] (p0 p1 p2 : K × K) : K :=
  (p1.1 - p0.1) * (p2.2 - p0.2) - (p2.1 - p0.1) * (p1.2 - p0.2)

/-- `coarse reference RWG function i at the image of η` minus `Σ_k q_k • M (fine reference RWG function k at η)` -/
def piolaDefect [Add K] [Sub K] [Mul K] [One K] (p0 p1 p2 : K × K) (q : Nat → K) (i : Nat) (η : K × K) : K × K :=
  sub2 (rwgG i (triMap p0 p1 p2 η)) (sum3v fun k => smul2 (q k) (triLin p0 p1 p2 (rwgG k η)))

/-! 3-vectors: Jacobian (columns `ja`, `jb`), cross product -/
abbrev V3 (K : Type) := K × K × K
def applyJ [Add K] [Mul K] (ja jb : V3 K) (v : K × K) : V3 K :=
  (ja.1 * v.1 + jb.1 * v.2, ja.2.1 * v.1 + jb.2.1 * v.2, ja.2.2 * v.1 + jb.2.2 * v.2)
def smul3 [Mul K] (a : K) (v : V3 K) : V3 K := (a * v.1, a * v.2.1, a * v.2.2)
def add3 [Add K] (u v : V3 K) : V3 K := (u.1 + v.1, u.2.1 + v.2.1, u.2.2 + v.2.2)
def sum3w [Add K] (f : Nat → V3 K) : V3 K := add3 (add3 (f 0) (f 1)) (f 2)
/-- `n × v` as in `_numba_snc0_evaluate` -/
def cross [Sub K] [Mul K] (n v : V3 K) : V3 K :=
  (n.2.1 * v.2.2 - n.2.2 * v.2.1, n.2.2 * v.1 - n.1 * v.2.2, n.1 * v.2.1 - n.2.1 * v.1)

end generic

/-! ## the sub-triangles of the reference element -/

def refVertex (j : Nat) : Rat × Rat := if j = 0 then (0, 0) else if j = 1 then (1, 0) else (0, 1)

/-- reference coordinates of a vertex code of `_create_barycentric_connectivity_array` -/
def codePt (c : Nat × Nat) : Rat × Rat :=
  if c.1 = 0 then refVertex c.2
  else if c.1 = 1 then
    let e := edgeLocal.getD c.2 (0, 0)
    (midpointWeight * ((refVertex e.1).1 + (refVertex e.2).1), midpointWeight * ((refVertex e.1).2 + (refVertex e.2).2))
  else
    (centroidWeight * ((refVertex 0).1 + (refVertex 1).1 + (refVertex 2).1),
     centroidWeight * ((refVertex 0).2 + (refVertex 1).2 + (refVertex 2).2))

/-- vertex code of local vertex `k` of sub-triangle `s` (`(9, 9)` outside the table) -/
def subCode (s k : Nat) : Nat × Nat := (subTri.getD s []).getD k (9, 9)

def subVertex (s k : Nat) : Rat × Rat := codePt (subCode s k)

def subDet (s : Nat) : Rat := triDet (subVertex s 0) (subVertex s 1) (subVertex s 2)

/-- `coeffs[i][s][k]` of a 3 x 6 x 3 table (0 outside) -/
def tab (t : List (List (List Rat))) (i s k : Nat) : Rat := (((t.getD i []).getD s []).getD k 0)

def shapeOK (t : List (List (List Rat))) : Bool :=
  t.length == 3 && t.all fun a => a.length == 6 && a.all fun r => r.length == 3

/-! ## lengths used by `generate_rwg0_map` -/

def lcPt (lc : List (Rat × Rat)) (j : Nat) : Rat × Rat := lc.getD j (0, 0)

/-- index into `lenDefs` of `dof_mult[s][k]` (99 outside the table) -/
def dm (s k : Nat) : Nat := (dofMult.getD s []).getD k 99

/-- reference vector of the segment whose physical length is length number `d` of `generate_rwg0_map` -/
def segVec (lc : List (Rat × Rat)) (d : Nat) : Rat × Rat :=
  let ab := lenDefs.getD d (0, 0)
  sub2 (lcPt lc ab.1) (lcPt lc ab.2)

/-- reference vector of local edge `k` (evaluator convention `ev`) of sub-triangle `s` -/
def fineEdgeVec (ev : List (Nat × Nat)) (s k : Nat) : Rat × Rat :=
  let ab := ev.getD k (0, 0)
  sub2 (subVertex s ab.1) (subVertex s ab.2)

def parRatio (u v : Rat × Rat) : Rat := if v.1 ≠ 0 then u.1 / v.1 else u.2 / v.2

def absR (r : Rat) : Rat := if r < 0 then -r else r

/-- `|fine edge k of sub-triangle s| / dof_mult[s][k]` (both are lengths of parallel segments) -/
def ratio (lc : List (Rat × Rat)) (ev : List (Nat × Nat)) (s k : Nat) : Rat :=
  absR (parRatio (fineEdgeVec ev s k) (segVec lc (dm s k)))

/-- the fine edge vector is `± ratio` times the vector of the segment measured by `dof_mult[s][k]`, which is not zero -/
def parallelOK (lc : List (Rat × Rat)) (ev : List (Nat × Nat)) (s k : Nat) : Bool :=
  let u := fineEdgeVec ev s k
  let v := segVec lc (dm s k)
  let r := parRatio u v
  decide (u = smul2 r v) && decide (r ≠ 0) && decide (v ≠ (0, 0))

/-- `outer_edges[i]` measures edge `i` of the coarse element in the evaluator's convention -/
def outerOK (lc : List (Rat × Rat)) (ev : List (Nat × Nat)) (i : Nat) : Bool :=
  let ab := lenDefs.getD (outerEdges.getD i 99) (0, 0)
  let cd := ev.getD i (0, 0)
  let p := lcPt lc ab.1
  let q := lcPt lc ab.2
  let a := refVertex cd.1
  let b := refVertex cd.2
  decide (a ≠ b) && (decide (p = a ∧ q = b) || decide (p = b ∧ q = a))

/-- coefficient of `M_s φ̂_k` in the reference identity: `coeffs[i][s][k] * ratio / det M_s` -/
def subQ (coeffs : List (List (List Rat))) (lc : List (Rat × Rat)) (ev : List (Nat × Nat)) (i s k : Nat) : Rat :=
  tab coeffs i s k * ratio lc ev s k / subDet s


/-! ## what the code computes with lengths (generic scalar type, `cast : Rat → K`) -/
section lengths
variable {K : Type}

/-- entry `(3 s + k, i)` of the 18 x 3 block that `generate_rwg0_map` writes for one element:
`coeffs[i][s][k] * outer_edges[i] / dof_mult[s][k]`; `L d` is length number `d` of `lenDefs` -/
def mapEntry [Mul K] [Div K] (cast : Rat → K) (coeffs : List (List (List Rat))) (L : Nat → K) (i s k : Nat) : K :=
  cast (tab coeffs i s k) * L (outerEdges.getD i 99) / L (dm s k)

/-- length of local edge `k` of sub-triangle `s`, expressed by the parallel segment that `dof_mult[s][k]` measures -/
def fineLen [Mul K] (cast : Rat → K) (lc : List (Rat × Rat)) (ev : List (Nat × Nat)) (L : Nat → K) (s k : Nat) : K :=
  cast (ratio lc ev s k) * L (dm s k)

/-- `_numba_rwg0_evaluate`: `mult * edge_length / integration_element * J.dot(reference value)` on an element with
Jacobian columns `ja jb` -/
def rwgEval [Add K] [Sub K] [Mul K] [Div K] [One K] (ja jb : V3 K) (A l m : K) (i : Nat) (p : K × K) : V3 K :=
  smul3 (m * l / A) (applyJ ja jb (rwgG i p))

/-- `_numba_snc0_evaluate`: `normal × (RWG value)` -/
def sncEval [Add K] [Sub K] [Mul K] [Div K] [One K] (n ja jb : V3 K) (A l m : K) (i : Nat) (p : K × K) : V3 K :=
  cross n (rwgEval ja jb A l m i p)

end lengths

/-! ## dual spaces -/

/-- sub-triangle and local vertex addressed by local dof `n` of the 18 dofs of an element -/
def dofCode (n : Nat) : Nat × Nat := subCode (n / 3) (n % 3)

/-- all local dofs `n < 18` that sit on the vertex with code `c` -/
def dofsAt (c : Nat × Nat) : List Nat := (List.range 18).filter fun n => dofCode n == c

/-- all sub-triangles that have the vertex with code `c` -/
def subsAt (c : Nat × Nat) : List Nat := (List.range 6).filter fun s => (subTri.getD s []).contains c

def sameSet (a b : List Nat) : Bool := a.all (b.contains ·) && b.all (a.contains ·) && a.length == b.length

/-! ## exact moments of the reference triangle, used by `mixed_mass_exact` -/

/-- `∫_T x^a y^b` over the reference triangle for `a + b ≤ 2` -/
def refMoment (a b : Nat) : Rat :=
  if a + b = 0 then 1 / 2 else if a + b = 1 then 1 / 6 else if a = 1 then 1 / 24 else 1 / 12

end BemppVerif.Model.Bary
