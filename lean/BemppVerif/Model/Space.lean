/-
Model of the discrete function-space constructors of bempp_cl/api/space (Mathlib-free, executable).

Every function mirrors what the source DOES, as a function of the tables the source itself receives
(`grid.elements`, `grid.vertex_neighbors` (indices / indexptr), `grid.element_edges`, `grid.edge_neighbors`,
`vertex_on_boundary`, `domain_indices`, `edges`) and of the options; nothing is recomputed from the mesh, so the
theorems of Props/C09 name the table facts they need as explicit hypotheses (proved for the real tables in C11).

* `processSupport`, `normalMultiplier`       `_process_segments` (space.py)
* `dp0`, `dp1`                               `p0_discontinuous_function_space`, `p1_discontinuous_function_space`
* `p1Step` .. `p1`                           `_compute_p1_dof_map` (scalar_spaces.py): first loop as its list of stores,
                                             `used_dofs`/`dofs`, second loop row by row (incl. the artificial entries)
* `rwgEdgeStep`, `rwgElemStep`, `rwgFirstLoop`, `rwgRow`, `rwg`
                                             `_compute_rwg0_space_data` (maxwell_spaces.py), incl. the in-loop mutation of
                                             `support`; `snc0_function_space` uses the same data
* `Color.g2l` (Model/Color.lean)             `invert_local2global`
* `localised`, `mapToLocalised`, `mapToFullGrid`   `make_localised_space`, the two COO maps of `FunctionSpace.__init__`
* `dual0`, `dual1`                           `dual0_function_space`, `dual1_function_space` (scalar_dual_spaces.py): support,
                                             dof maps and the COO triplets of `dof_transformation`
* `bcSupport`, `bc`                          `_get_barycentric_support`, `_get_data_multipliers` (grid.py): bookkeeping of BC/RBC

Mutable arrays that a loop only STORES into are modelled by the list of stores (`lastWrite` = value finally held);
arrays that a loop also reads (`support`, `edge_dofs` of the RWG loop) are threaded through a fold as functions.
uint32 wrap-around is modelled only where the code can store `-1` (`rwgRow`); sizes are unbounded `Nat`.
-/
import BemppVerif.Model.Color
import BemppVerif.Gen.SpaceTables

namespace BemppVerif.Model.Space
open BemppVerif.Model BemppVerif.Gen

/-- the grid tables read by the space constructors (`e` element, `i` local index, `v` vertex, `x` edge) -/
structure Tables where
  /-- `grid.number_of_elements` -/
  ne : Nat
  /-- `grid.number_of_vertices` -/
  nv : Nat
  /-- `grid.number_of_edges` -/
  nedges : Nat
  /-- `grid.elements[i, e]` -/
  elements : Nat → Nat → Nat
  /-- `vertex_neighbors[index_ptr[v] : index_ptr[v + 1]]` -/
  vnbrs : Nat → List Nat
  /-- `grid.element_edges[i, e]` -/
  elementEdges : Nat → Nat → Nat
  /-- `edge_neighbors[edge_neighbors_ptr[x] : edge_neighbors_ptr[1 + x]]` -/
  enbrs : Nat → List Nat
  /-- `grid_data.vertex_on_boundary[v]` -/
  vob : Nat → Bool
  /-- `grid.domain_indices[e]` -/
  domain : Nat → Nat
  /-- `grid.edges[k, x]`, k = 0, 1 (only read by the BC support computation) -/
  edgeVerts : Nat → Nat → Nat

/-- `indices[indexptr[k] : indexptr[k + 1]]` -/
def csrSlice (indices ptr : Array Nat) (k : Nat) : List Nat :=
  (indices.extract (ptr.getD k 0) (ptr.getD (k + 1) 0)).toList

/-- `range(3)` -/
def loc3 : List Nat := [0, 1, 2]

/-- `np.flatnonzero(support)` -/
def supportList (ne : Nat) (sup : Nat → Bool) : List Nat := (List.range ne).filter sup

/-! ## `_process_segments` -/

/-- the arguments `support_elements` / `segments` (both given is rejected by `function_space`) -/
inductive Selection where
  | whole
  | segments (l : List Nat)
  | elems (l : List Nat)

/-- `support` of `_process_segments` -/
def processSupport (T : Tables) : Selection → Nat → Bool
  | .whole, _ => true
  | .segments l, e => l.contains (T.domain e)
  | .elems l, e => l.contains e

/-- `normal_multipliers[e]` of `_process_segments` -/
def normalMultiplier (T : Tables) (swapped : List Nat) (e : Nat) : Int :=
  if swapped.contains (T.domain e) then -1 else 1

/-! ## packing rows into the arrays of a space -/

/-- arrays `support`, `local2global`, `local_multipliers` with rows `0 .. ne-1` -/
def mkSpace (ne : Nat) (sup : Nat → Bool) (row : Nat → List Nat) (mrow : Nat → List Int) : Color.Space :=
  ⟨ne, ((List.range ne).map sup).toArray, ((List.range ne).map fun e => (row e).toArray).toArray,
    ((List.range ne).map fun e => (mrow e).toArray).toArray⟩

/-- result of a constructor: the arrays and the dof counter the constructor itself computes -/
structure DofData where
  space : Color.Space
  /-- `support_size * nshape` / `len(used_dofs)` / `dof_count` -/
  count : Nat

/-- `1 + np.max(local2global)`: `grid_dof_count`, and `global_dof_count` when `dof_transformation` is the identity -/
def gridDofCount (S : Color.Space) : Nat :=
  1 + ((List.range S.nelems).map fun e => (S.row e).foldl max 0).foldl max 0

/-! ## DP0, DP1 and localised spaces -/

/-- `local2global[support] = arange(ns * support_size).reshape(support_size, ns)`, multipliers 1 on the support -/
def blockSpace (ne ns : Nat) (sup : Nat → Bool) : Color.Space :=
  let sl := supportList ne sup
  mkSpace ne sup (fun e => if sup e then (List.range ns).map fun i => ns * sl.idxOf e + i else List.replicate ns 0)
    (fun e => if sup e then List.replicate ns 1 else List.replicate ns 0)

/-- `p0_discontinuous_function_space` -/
def dp0 (T : Tables) (sup : Nat → Bool) : DofData := ⟨blockSpace T.ne 1 sup, (supportList T.ne sup).length⟩

/-- `p1_discontinuous_function_space` -/
def dp1 (T : Tables) (sup : Nat → Bool) : DofData := ⟨blockSpace T.ne 3 sup, 3 * (supportList T.ne sup).length⟩

/-- `make_localised_space(space)` for a space with `ns` shape functions -/
def localised (S : Color.Space) (ns : Nat) : Color.Space := blockSpace S.nelems ns S.sup

/-- COO triplets `(row, column, value)` of `map_to_localised_space` -/
def mapToLocalised (S : Color.Space) (ns : Nat) : List (Nat × Nat × Int) :=
  S.supportElements.zipIdx.flatMap fun (e, k) =>
    (List.range ns).map fun i => (ns * k + i, (S.row e).getD i 0, (S.mult.getD e #[]).getD i 0)

/-- COO triplets of `map_to_full_grid` -/
def mapToFullGrid (S : Color.Space) (ns : Nat) : List (Nat × Nat × Int) :=
  S.supportElements.flatMap fun e =>
    (List.range ns).map fun i => (ns * e + i, (S.row e).getD i 0, (S.mult.getD e #[]).getD i 0)

/-! ## `_compute_p1_dof_map` -/

/-- `find_index(array, value)` on a column of `elements`; `none` = `-1` -/
def findIndex (row : Nat → Nat) (value : Nat) : Option Nat := loc3.find? fun i => row i == value

/-- a store `local2global[e, i] = v` -/
abbrev Store := Nat × Nat × Nat

/-- what one pass of the inner loop body (`element_index = e`, `local_index = i`) does -/
structure P1Step where
  /-- `local2global[e, i] = vertex; vertex_is_dof[vertex] = True` (first `if`) -/
  own : Option Store
  /-- the stores `local2global[en, other_local_index] = vertex` of the second `if`, one per `extended_support.append(en)` -/
  ext : List Store

/-- `non_support_neighbors` of vertex `v` -/
def nonSupportNeighbors (T : Tables) (sup : Nat → Bool) (v : Nat) : List Nat :=
  (T.vnbrs v).filter fun n => !sup n

/-- `node_is_interior` -/
def nodeIsInterior (T : Tables) (sup : Nat → Bool) (v : Nat) : Bool :=
  (nonSupportNeighbors T sup v).isEmpty && !T.vob v

/-- body of the first double loop.  A `find_index` result `-1` indexes the last column (NumPy wrap-around). -/
def p1Step (T : Tables) (sup : Nat → Bool) (incl trunc : Bool) (e i : Nat) : P1Step :=
  let v := T.elements e i
  let nsn := nonSupportNeighbors T sup v
  { own := if incl || nodeIsInterior T sup v then some (e, i, v) else none
    ext := if !nsn.isEmpty && !trunc && incl then
             nsn.map fun en => (en, (findIndex (T.elements en) v).getD 2, v)
           else [] }

/-- the passes of the first double loop in execution order -/
def p1Steps (T : Tables) (sup : Nat → Bool) (incl trunc : Bool) : List P1Step :=
  (supportList T.ne sup).flatMap fun e => loc3.map fun i => p1Step T sup incl trunc e i

/-- all stores into `local2global` of the first loop, in execution order -/
def p1Stores (T : Tables) (sup : Nat → Bool) (incl trunc : Bool) : List Store :=
  (p1Steps T sup incl trunc).flatMap fun s => s.own.toList ++ s.ext

/-- value finally held by cell `(e, i)` of an array initialised with `-1` (= `none`) after the stores `W` -/
def lastWrite (W : List Store) (e i : Nat) : Option Nat :=
  (W.reverse.find? fun w => w.1 == e && w.2.1 == i).map fun w => w.2.2

/-- `vertex_is_dof[v]` after the first loop -/
def p1Marked (T : Tables) (sup : Nat → Bool) (incl trunc : Bool) (v : Nat) : Bool :=
  (p1Steps T sup incl trunc).any fun s => match s.own with
    | some w => w.2.2 == v
    | none => false

/-- `extended_support` -/
def p1Extended (T : Tables) (sup : Nat → Bool) (incl trunc : Bool) : List Nat :=
  (p1Steps T sup incl trunc).flatMap fun s => s.ext.map fun w => w.1

/-- `used_dofs = np.flatnonzero(vertex_is_dof)` -/
def p1Used (T : Tables) (sup : Nat → Bool) (incl trunc : Bool) : List Nat :=
  (List.range T.nv).filter (p1Marked T sup incl trunc)

/-- one element of the second loop: `(support_final[e], local2global_final[e], local_multipliers[e])` from the row
`l0 i = local2global[e, i]` (`none` = `-1`) and `dofs`.  Unused local indices get `max_dof` and multiplier 0. -/
def p1Row (l0 : Nat → Option Nat) (dofs : Nat → Nat) : Bool × List Nat × List Int :=
  let mapped := loc3.map fun i => match l0 i with
    | some v => dofs v
    | none => 0
  if loc3.any fun i => (l0 i).isSome then
    let maxDof := mapped.foldl max 0
    (true,
     loc3.map (fun i => match l0 i with
       | some v => dofs v
       | none => maxDof),
     loc3.map fun i => if (l0 i).isSome then 1 else 0)
  else (false, [0, 0, 0], [0, 0, 0])

/-- `_compute_p1_dof_map(grid_data, support, include_boundary_dofs, truncate_at_segment_edge, vertex_neighbors,
index_ptr)`: `(local2global_final, local_multipliers, support_final)` and `global_dof_count = len(used_dofs)` -/
def p1 (T : Tables) (sup : Nat → Bool) (incl trunc : Bool) : DofData :=
  let W := p1Stores T sup incl trunc
  let used := p1Used T sup incl trunc
  -- `dofs[used_dofs] = arange(global_dof_count)`
  let dofs : Nat → Nat := fun v => used.idxOf v
  -- `elements_in_support.extend(set(extended_support))`
  let visited := supportList T.ne sup ++ (p1Extended T sup incl trunc).eraseDups
  let row : Nat → Bool × List Nat × List Int := fun e =>
    if visited.contains e then p1Row (lastWrite W e) dofs else (false, [0, 0, 0], [0, 0, 0])
  ⟨mkSpace T.ne (fun e => (row e).1) (fun e => (row e).2.1) (fun e => (row e).2.2), used.length⟩

/-! ## `_compute_rwg0_space_data` -/

/-- loop state of the first loop: `support` (mutated in the loop), `edge_dofs` (`none` = `-1`), `dof_count` -/
structure RwgState where
  sup : Nat → Bool
  ed : Nat → Option Nat
  cnt : Nat

/-- `a[k] = v` -/
def upd {α : Type} (f : Nat → α) (k : Nat) (v : α) : Nat → α := fun x => if x = k then v else f x

/-- `edge_dofs[x] = dof_count; dof_count += 1` (the guard `if edge_dofs[edge_index]:` is evaluated on the value `-1`
and is always true where it is reached) -/
def RwgState.assign (st : RwgState) (x : Nat) : RwgState :=
  { st with ed := upd st.ed x (some st.cnt), cnt := st.cnt + 1 }

/-- the `else` branch of `if edge_dofs[edge_index] != -1` for edge `x`; the `Bool` is `has_dof` -/
def rwgExamine (T : Tables) (incl trunc : Bool) (st : RwgState) (has : Bool) (x : Nat) : RwgState × Bool :=
  let cur := T.enbrs x
  -- `supported_neighbors` is computed once, before either `if`
  let sn := cur.filter st.sup
  let r1 : RwgState × Bool := if sn.length = 2 then (st.assign x, true) else (st, has)
  if sn.length = 1 && incl then
    let st2 := r1.1.assign x
    let st3 : RwgState :=
      if !trunc then { st2 with sup := fun c => if cur.contains c then true else st2.sup c } else st2
    (st3, true)
  else r1

/-- body of `for local_index in range(3)` for `element = e`; the `Bool` is `has_dof` -/
def rwgEdgeStep (T : Tables) (incl trunc : Bool) (e : Nat) (acc : RwgState × Bool) (i : Nat) : RwgState × Bool :=
  match acc.1.ed (T.elementEdges e i) with
  | some _ => (acc.1, true)
  | none => rwgExamine T incl trunc acc.1 acc.2 (T.elementEdges e i)

/-- body of `for element in np.flatnonzero(support)` (the list is a snapshot taken before the loop) -/
def rwgElemStep (T : Tables) (incl trunc : Bool) (st : RwgState) (e : Nat) : RwgState :=
  let r := loc3.foldl (rwgEdgeStep T incl trunc e) (st, false)
  if r.2 then r.1 else { r.1 with sup := upd r.1.sup e false }

/-- the first loop -/
def rwgFirstLoop (T : Tables) (sup : Nat → Bool) (incl trunc : Bool) : RwgState :=
  (supportList T.ne sup).foldl (rwgElemStep T incl trunc) ⟨sup, fun _ => none, 0⟩

/-- `min(supported_neighbors)`; `none` for the empty list (where the code raises) -/
def listMin : List Nat → Option Nat
  | [] => none
  | a :: l => some (l.foldl min a)

/-- `local_multipliers[e, i]` as set in the second loop -/
def rwgMult (T : Tables) (st : RwgState) (e i : Nat) : Int :=
  match st.ed (T.elementEdges e i) with
  | none => 0
  | some _ =>
    let sn := (T.enbrs (T.elementEdges e i)).filter st.sup
    if sn.length = 1 then 1 else if listMin sn = some e then 1 else -1

/-- `-1` stored into the `uint32` array `local2global_map` -/
def wrapU32 : Option Nat → Nat
  | some d => d
  | none => 4294967295

/-- one element of the second loop: `(local2global_map[e], local_multipliers[e])` -/
def rwgRow (T : Tables) (st : RwgState) (e : Nat) : List Nat × List Int :=
  let dm : Nat → Option Nat := fun i => st.ed (T.elementEdges e i)
  let firstNonzero := (loc3.find? fun i => rwgMult T st e i != 0).getD 0
  (loc3.map (fun i => wrapU32 (if rwgMult T st e i == 0 then dm firstNonzero else dm i)), loc3.map (rwgMult T st e))

/-- `_compute_rwg0_space_data(support, edge_neighbors, edge_neighbors_ptr, element_edges, number_of_elements,
number_of_edges, include_boundary_dofs, truncate_at_segment_edge)`:
`(dof_count, support, local2global_map, local_multipliers)` -/
def rwg (T : Tables) (sup : Nat → Bool) (incl trunc : Bool) : DofData :=
  let st := rwgFirstLoop T sup incl trunc
  ⟨mkSpace T.ne st.sup (fun e => if st.sup e then (rwgRow T st e).1 else [0, 0, 0])
      (fun e => if st.sup e then (rwgRow T st e).2 else [0, 0, 0]), st.cnt⟩

/-! ## spaces on the barycentric refinement: DUAL0, DUAL1, BC/RBC bookkeeping -/

/-- `support[6 * repeat(support_elements, 6) + tile(arange(6), n)] = True` on the barycentric grid -/
def barySupport (ne : Nat) (csup : Nat → Bool) (b : Nat) : Bool := decide (b < 6 * ne) && csup (b / 6)

/-- result of a dual / BC constructor -/
structure BaryData where
  /-- arrays on the barycentric grid (`6 * ne` elements) -/
  space : Color.Space
  /-- number of columns of `dof_transformation` = `global_dof_count` -/
  gdc : Nat
  /-- COO triplets `(bary dof, coarse dof, value)` of `dof_transformation` in the order the code emits them -/
  entries : List (Nat × Nat × Rat)

/-- `dual0_function_space`: the coarse space is `p1_continuous_function_space` with the same options; the guard is
`coarse_space.support[face] or not truncate_at_segment_edge` (repaired: it used to index the barycentric support). -/
def dual0 (T : Tables) (sup : Nat → Bool) (incl trunc : Bool) : BaryData :=
  let cs := (p1 T sup incl trunc).space
  let csl := cs.supportElements
  let bsup := barySupport T.ne cs.sup
  let gdc := gridDofCount cs
  { space := blockSpace (6 * T.ne) 1 bsup
    gdc := gdc
    entries := (List.range gdc).flatMap fun d => (Color.g2l cs d).flatMap fun p =>
      if cs.sup p.1 || !trunc then
        let faceN := csl.idxOf p.1
        [(6 * faceN + (SpaceTables.dual0First (p.2 : Int)).toNat, d, 1),
         (6 * faceN + (SpaceTables.dual0Second (p.2 : Int)).toNat, d, 1)]
      else [] }

/-- `coarse_support` of `dual1_function_space` after its counting loop: without truncation all edge and vertex
neighbours of the support elements are switched on -/
def dual1CoarseSupport (T : Tables) (sup : Nat → Bool) (trunc : Bool) : Nat → Bool :=
  if trunc then fun e => decide (e < T.ne) && sup e
  else
    let sl := supportList T.ne sup
    let touched := sl.flatMap fun e =>
      (loc3.flatMap fun k => T.enbrs (T.elementEdges e k)) ++ (loc3.flatMap fun k => T.vnbrs (T.elements e k))
    fun e => (decide (e < T.ne) && sup e) || touched.contains e

/-- `dual1_function_space`: the coarse space is DP0 on the selected support -/
def dual1 (T : Tables) (sup : Nat → Bool) (trunc : Bool) : BaryData :=
  let sl := supportList T.ne sup
  let cs := dual1CoarseSupport T sup trunc
  let csl := supportList T.ne cs
  let num : Nat → Nat := fun e => csl.idxOf e
  { space := blockSpace (6 * T.ne) 3 (barySupport T.ne cs)
    gdc := gridDofCount (dp0 T sup).space
    entries := sl.zipIdx.flatMap fun (e, d) =>
      -- 1 at the barycentre of the triangle
      (if cs e then SpaceTables.dual1Barycentre.map fun n => (18 * num e + n, d, (1 : Rat)) else []) ++
      -- 1/2 at the centre of each edge
      (loc3.flatMap fun k =>
        let edge := T.elementEdges e k
        (T.enbrs edge).flatMap fun nb =>
          if cs nb then
            match loc3.find? fun i => T.elementEdges nb i == edge with
            | some i => (SpaceTables.dual1Edge.getD i []).map fun n => (18 * num nb + n, d, (1 / 2 : Rat))
            | none => []
          else []) ++
      -- 1/num_coarse_triangles_at_vertex at each vertex
      (loc3.flatMap fun k =>
        let vertex := T.elements e k
        let nbrs := T.vnbrs vertex
        nbrs.flatMap fun nb =>
          if cs nb then
            match loc3.find? fun i => T.elements nb i == vertex with
            | some i => (SpaceTables.dual1Vertex.getD i []).map fun n =>
                (18 * num nb + n, d, (1 : Rat) / (nbrs.length : Rat))
            | none => []
          else []) }

/-- `coarse_support` of `_get_barycentric_support` for the coarse RWG space `cs` -/
def bcCoarseSupport (T : Tables) (cs : Color.Space) (trunc : Bool) : Nat → Bool :=
  if trunc then fun e => decide (e < T.ne) && cs.sup e
  else
    let touched := (List.range (gridDofCount cs)).flatMap fun d =>
      match Color.g2l cs d with
      | [] => []     -- the code raises IndexError on `local_dofs[0]`
      | p :: _ =>
        let edge := T.elementEdges p.1 p.2
        [0, 1].flatMap fun k => T.vnbrs (T.edgeVerts edge k)
    fun e => (decide (e < T.ne) && cs.sup e) || touched.contains e

/-- bookkeeping of `bc_function_space` / `rbc_function_space` (support, dof maps, multipliers, dof count); the
coefficients of `dof_transformation` are not modelled -/
def bc (T : Tables) (sup : Nat → Bool) (incl trunc : Bool) : BaryData :=
  let cs := (rwg T sup incl trunc).space
  { space := blockSpace (6 * T.ne) 3 (barySupport T.ne (bcCoarseSupport T cs trunc))
    gdc := gridDofCount cs
    entries := [] }

/-- loop of `_interior_barycentric_edges_coefficients` (grid.py) over the remaining edge lengths: `index`, `count` and
`sign` are the loop variables of the source -/
def bcInteriorGo (nc : Nat) : List Rat → Nat → Nat → Rat → List Rat
  | [], _, _, _ => []
  | len :: rest, index, count, sign =>
    let count' := if index % 2 == 0 then count + 1 else count
    sign * ((nc : Rat) - (count' : Rat)) / (2 * (nc : Rat) * len) :: bcInteriorGo nc rest (index + 1) count' (-sign)

/-- the `values` of `_interior_barycentric_edges_coefficients(edge_lengths, vertex_edges, ..., sign, nc, ...)`, where
`lens[k]` is the length of the barycentric edge of `vertex_edges[k]` -/
def bcInteriorValues (sign : Rat) (nc : Nat) (lens : List Rat) : List Rat := bcInteriorGo nc lens 0 0 sign

end BemppVerif.Model.Space
