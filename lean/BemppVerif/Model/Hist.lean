/-
Hist — state machine of everything in bempp-cl that survives between API calls and can influence what an
assembly computes (property C18).  Mathlib-free, executable (linked into the native driver).

What is mirrored (file:line of /repo at the time of writing):

* `bempp_cl.api.GLOBAL_PARAMETERS` (`api/__init__.py:101`): ONE mutable object; `assign_parameters(None)`
  (`api/utils/helpers.py:31-46`) returns that very object (no copy), `assign_parameters(p)` returns `p` itself.  An
  operator therefore holds a REFERENCE (`PRef`): to the global object or to an explicit `DefaultParameters()` object.
  The values are read when the assembly runs, not when the operator is built.
* `DEFAULT_PRECISION` (`api/__init__.py:284`) is read in the operator constructor
  (`operators/boundary/common.py:28-29`): precision is resolved at construction.
* `BoundaryOperator._cached` (`assembly/boundary_operator.py:36-41`), `_range_map` (`:43-52`),
  `Space._mass_matrix` (`space/space.py:659-666`, built by `identity(self, self, self)` with `parameters=None`).
* the two FMM caches `_FMM_CACHE`, `_FMM_POTENTIAL_CACHE` (`fmm/fmm_assembler.py:7-8`) as association lists keyed
  exactly like the Python dictionaries (`:35-42`, `:72`), `clear_fmm_cache` (`:813-819`).
* which parameter object every assembler reads: dense regular part `core/numba_assemblers.py:69`, singular part
  `core/singular_assembler.py:80`, sparse `core/sparse_assembler.py:84`, dense potential
  `core/numba_assemblers.py:125` (in the CONSTRUCTOR of the potential operator), FMM interface
  `fmm/exafmm.py:219,273-275` (operator's object), FMM evaluators `fmm/fmm_assembler.py:226-229,308-311,652-653,
  683,712,757,788` and the FMM potential interface `:79-88` (the GLOBAL object, whatever the operator holds).

The output of a step is the *configuration used*: the quadrature orders / FMM settings / result precision the
assembly actually read at that moment (`Used`), and whether a memoised object was returned.

`Code.asFound` is the tree as found; `Code.repaired` is the tree after `findings/proposed_c18.diff` (quadrature
order in both FMM cache keys, FMM evaluators and FMM potential interface read the operator's parameter object).
`specStep`/`resolve` is the SPECIFICATION: no caches other than the documented memoisation, configuration = function of
(arguments at construction, values of the operator's parameter object at first use).
-/
namespace BemppVerif.Model.Hist

inductive Prec | single | double
  deriving DecidableEq, Repr, Inhabited

/-- the numeric fields of a `DefaultParameters` object that an assembler reads
(`quadrature.regular/.singular`, `fmm.expansion_order/.ncrit/.depth`) -/
structure Params where
  regular : Nat
  singular : Nat
  expansion : Nat
  ncrit : Nat
  depth : Nat
  deriving DecidableEq, Repr, Inhabited

/-- `DefaultParameters()` (`api/utils/parameters.py:27-38`) -/
def Params.default : Params := ⟨4, 4, 5, 400, 4⟩

inductive Field | regular | singular | expansion | ncrit | depth
  deriving DecidableEq, Repr

def Params.set (p : Params) : Field → Nat → Params
  | .regular, v => { p with regular := v }
  | .singular, v => { p with singular := v }
  | .expansion, v => { p with expansion := v }
  | .ncrit, v => { p with ncrit := v }
  | .depth, v => { p with depth := v }

/-- which source tree the model mirrors -/
inductive Code | asFound | repaired
  deriving DecidableEq, Repr

/-- boundary-operator assemblers: `"dense"`/`"default_nonlocal"`, `"sparse"` (identity), `"only_singular_part"`, `"fmm"` -/
inductive Asm | dense | sparse | singular | fmm
  deriving DecidableEq, Repr

inductive PotAsm | dense | fmm
  deriving DecidableEq, Repr

/-- the `parameters=` argument: `None` (the live global object) or the `i`-th explicit object -/
inductive PRef | glob | obj (i : Nat)
  deriving DecidableEq, Repr

/-- an `ExafmmInterface`, represented by what it was built for / with -/
structure Iface where
  grid : Nat       -- id of the source grid
  target : Nat     -- id of the target grid (boundary operators) / of the evaluation point array (potentials)
  kern : Nat       -- (mode, wavenumber) of the Green's function, as an opaque code
  cloud : Nat      -- quadrature order of the source/target point cloud
  expansion : Nat
  ncrit : Nat
  deriving DecidableEq, Repr

/-- configuration an assembly actually used -/
structure Used where
  regular : Option Nat    -- order handed to `triangle_gauss.rule` by the assembler / the FMM evaluator maps
  singular : Option Nat   -- order handed to `duffy_galerkin.rule`
  iface : Option Iface    -- the FMM interface the evaluator talks to
  dtype : Prec            -- precision of the result array handed to the kernels
  deriving DecidableEq, Repr

structure Space where
  grid : Nat
  mass : Option Used      -- `_mass_matrix`
  deriving DecidableEq, Repr

structure BOp where
  asm : Asm
  space : Nat             -- domain = range = dual_to_range
  kern : Nat
  pref : PRef
  prec : Prec             -- resolved in the constructor
  cached : Option Used    -- `_cached`
  rangeMap : Bool         -- `_range_map is not None`
  deriving DecidableEq, Repr

structure POp where
  asm : PotAsm
  space : Nat
  pts : Nat
  kern : Nat
  pref : PRef
  used : Used             -- potential operators resolve everything in their constructor
  deriving DecidableEq, Repr

/-- the part of the process state that the specification also has -/
structure Core where
  glob : Params
  defPrec : Prec
  explicit : List Params
  spaces : List Space
  ops : List BOp
  pots : List POp
  deriving DecidableEq, Repr

structure State where
  core : Core
  fmmCache : List (List Nat × Iface)   -- `_FMM_CACHE`
  potCache : List (List Nat × Iface)   -- `_FMM_POTENTIAL_CACHE`
  deriving DecidableEq, Repr

def Core.init : Core := ⟨Params.default, .double, [], [], [], []⟩
def State.init : State := ⟨Core.init, [], []⟩

inductive Op
  | setGlobal (f : Field) (v : Nat)
  | setDefaultPrec (p : Prec)
  | newParams (p : Params)
  | setExplicit (i : Nat) (f : Field) (v : Nat)
  | createSpace (grid : Nat)
  | createOp (a : Asm) (space kern : Nat) (pref : PRef) (prec : Option Prec)
  | weakForm (k : Nat)
  | strongForm (k : Nat)
  | massMatrix (sp : Nat)
  | createPot (a : PotAsm) (space pts kern : Nat) (pref : PRef)
  | evalPot (k : Nat)
  | clearFmmCache
  deriving DecidableEq, Repr

inductive Out
  | unit
  | err
  /-- `weak_form()`: memoised object returned?  FMM interface taken from `_FMM_CACHE`?  configuration -/
  | asm (fromCache ifaceHit : Bool) (u : Used)
  /-- `strong_form()`: no mass assembly happened in this call?  configuration of the mass matrix; then as `asm` -/
  | strong (massFromCache : Bool) (m : Option Used) (fromCache ifaceHit : Bool) (u : Used)
  | mass (fromCache : Bool) (u : Used)
  | pot (ifaceHit : Bool) (u : Used)
  | potEval (u : Used)
  deriving DecidableEq, Repr

/-- forget whether an FMM interface came out of the interface cache (legitimate either way) -/
def Out.eraseHit : Out → Out
  | .asm fc _ u => .asm fc false u
  | .strong mc m fc _ u => .strong mc m fc false u
  | .pot _ u => .pot false u
  | o => o

/-- an FMM evaluator whose point maps and interface disagree on the number of points raises in the first matvec -/
def Used.consistent (u : Used) : Bool :=
  match u.iface, u.regular with
  | some i, some r => i.cloud == r
  | _, _ => true

def deref (t : Core) : PRef → Option Params
  | .glob => some t.glob
  | .obj i => t.explicit[i]?

/-! ### Specification -/

/-- configuration determined by the construction arguments and the values `p` of the operator's parameter object -/
def resolve (a : Asm) (grid kern : Nat) (prec : Prec) (p : Params) : Used :=
  match a with
  | .dense => ⟨some p.regular, some p.singular, none, prec⟩
  | .sparse => ⟨some p.regular, none, none, .double⟩
  | .singular => ⟨none, some p.singular, none, prec⟩
  | .fmm => ⟨some p.regular, some p.singular, some ⟨grid, grid, kern, p.regular, p.expansion, p.ncrit⟩, .double⟩

def resolvePot (a : PotAsm) (grid pts kern : Nat) (p : Params) : Used :=
  match a with
  | .dense => ⟨some p.regular, none, none, .double⟩
  | .fmm => ⟨some p.regular, none, some ⟨grid, pts, kern, p.regular, p.expansion, p.ncrit⟩, .double⟩

/-- steps that neither assemble nor touch a cache (shared by model and specification: plain assignments) -/
def plainStep (t : Core) : Op → Option (Core × Out)
  | .setGlobal f v => some ({ t with glob := t.glob.set f v }, .unit)
  | .setDefaultPrec p => some ({ t with defPrec := p }, .unit)
  | .newParams p => some ({ t with explicit := t.explicit ++ [p] }, .unit)
  | .setExplicit i f v =>
    match t.explicit[i]? with
    | some p => some ({ t with explicit := t.explicit.set i (p.set f v) }, .unit)
    | none => some (t, .err)
  | .createSpace g => some ({ t with spaces := t.spaces ++ [⟨g, none⟩] }, .unit)
  | .createOp a sp kern pref prec =>
    match t.spaces[sp]?, deref t pref with
    | some _, some _ =>
      some ({ t with ops := t.ops ++ [⟨a, sp, kern, pref, prec.getD t.defPrec, none, false⟩] }, .unit)
    | _, _ => some (t, .err)
  | _ => none

def specMass (t : Core) (i : Nat) : Option (Core × Bool × Used) :=
  match t.spaces[i]? with
  | none => none
  | some sp =>
    match sp.mass with
    | some u => some (t, true, u)
    | none =>
      let u := resolve .sparse sp.grid 0 .double t.glob
      some ({ t with spaces := t.spaces.set i { sp with mass := some u } }, false, u)

def specWeak (t : Core) (k : Nat) : Core × Out :=
  match t.ops[k]? with
  | none => (t, .err)
  | some o =>
    match o.cached with
    | some u => (t, .asm true false u)
    | none =>
      match t.spaces[o.space]?, deref t o.pref with
      | some sp, some p =>
        let u := resolve o.asm sp.grid o.kern o.prec p
        ({ t with ops := t.ops.set k { o with cached := some u } }, .asm false false u)
      | _, _ => (t, .err)

def specStrong (t : Core) (k : Nat) : Core × Out :=
  match t.ops[k]? with
  | none => (t, .err)
  | some o =>
    let r : Option (Core × Bool × Option Used) :=
      if o.rangeMap then some (t, true, (t.spaces[o.space]?).bind (·.mass))
      else (specMass t o.space).map fun (t', c, u) =>
        ({ t' with ops := t'.ops.set k { o with rangeMap := true } }, c, some u)
    match r with
    | none => (t, .err)
    | some (t1, mc, m) =>
      match specWeak t1 k with
      | (t2, .asm fc h u) => (t2, .strong mc m fc h u)
      | (_, _) => (t, .err)

def specStep (t : Core) (op : Op) : Core × Out :=
  match plainStep t op with
  | some r => r
  | none =>
    match op with
    | .weakForm k => specWeak t k
    | .strongForm k => specStrong t k
    | .massMatrix i =>
      match specMass t i with
      | some (t', c, u) => (t', .mass c u)
      | none => (t, .err)
    | .createPot a sp pts kern pref =>
      match t.spaces[sp]?, deref t pref with
      | some s, some p =>
        let u := resolvePot a s.grid pts kern p
        ({ t with pots := t.pots ++ [⟨a, sp, pts, kern, pref, u⟩] }, .pot false u)
      | _, _ => (t, .err)
    | .evalPot k =>
      match t.pots[k]? with
      | some o => (t, .potEval o.used)
      | none => (t, .err)
    | _ => (t, .unit)

def specRun : Core → List Op → List Out
  | _, [] => []
  | t, op :: rest => (specStep t op).2 :: specRun (specStep t op).1 rest

/-! ### Model of the code -/

/-- `get_fmm_interface`, `fmm_assembler.py:35-42` -/
def fmmKey (c : Code) (g kern : Nat) (p : Params) : List Nat :=
  match c with
  | .asFound => [g, g, kern, p.expansion, p.ncrit]
  | .repaired => [g, g, kern, p.expansion, p.ncrit, p.regular]

/-- `get_fmm_potential_interface`, `fmm_assembler.py:72` -/
def potKey (c : Code) (g pts kern : Nat) (p : Params) : List Nat :=
  match c with
  | .asFound => [g, pts, kern]
  | .repaired => [g, pts, kern, p.regular, p.expansion, p.ncrit]

/-- the parameter object the FMM evaluators (`make_*`) and the FMM potential interface read -/
def fmmReads (c : Code) (glob p : Params) : Params :=
  match c with
  | .asFound => glob
  | .repaired => p

/-- `self.assembler.assemble(descriptor)` of an operator `o` -/
def assemble (c : Code) (s : State) (o : BOp) : Option (State × Bool × Used) :=
  match s.core.spaces[o.space]?, deref s.core o.pref with
  | some sp, some p =>
    match o.asm with
    | .dense => some (s, false, ⟨some p.regular, some p.singular, none, o.prec⟩)
    | .sparse => some (s, false, ⟨some p.regular, none, none, .double⟩)
    | .singular => some (s, false, ⟨none, some p.singular, none, o.prec⟩)
    | .fmm =>
      let key := fmmKey c sp.grid o.kern p
      let ev := (fmmReads c s.core.glob p).regular
      match s.fmmCache.lookup key with
      | some i => some (s, true, ⟨some ev, some p.singular, some i, .double⟩)
      | none =>
        let i : Iface := ⟨sp.grid, sp.grid, o.kern, p.regular, p.expansion, p.ncrit⟩
        some ({ s with fmmCache := (key, i) :: s.fmmCache }, false, ⟨some ev, some p.singular, some i, .double⟩)
  | _, _ => none

/-- `Space.mass_matrix()`: `identity(self, self, self).weak_form()` with `parameters=None` -/
def massMatrix (s : State) (i : Nat) : Option (State × Bool × Used) :=
  match s.core.spaces[i]? with
  | none => none
  | some sp =>
    match sp.mass with
    | some u => some (s, true, u)
    | none =>
      let u : Used := ⟨some s.core.glob.regular, none, none, .double⟩
      some ({ s with core := { s.core with spaces := s.core.spaces.set i { sp with mass := some u } } }, false, u)

/-- `BoundaryOperator.weak_form()` -/
def weakForm (c : Code) (s : State) (k : Nat) : State × Out :=
  match s.core.ops[k]? with
  | none => (s, .err)
  | some o =>
    match o.cached with
    | some u => (s, .asm true false u)
    | none =>
      match assemble c s o with
      | none => (s, .err)
      | some (s', hit, u) =>
        ({ s' with core := { s'.core with ops := s'.core.ops.set k { o with cached := some u } } }, .asm false hit u)

/-- `BoundaryOperator.strong_form()` (range = dual_to_range: the cached mass matrix of the space is used) -/
def strongForm (c : Code) (s : State) (k : Nat) : State × Out :=
  match s.core.ops[k]? with
  | none => (s, .err)
  | some o =>
    let r : Option (State × Bool × Option Used) :=
      if o.rangeMap then some (s, true, (s.core.spaces[o.space]?).bind (·.mass))
      else (massMatrix s o.space).map fun (s', c, u) =>
        ({ s' with core := { s'.core with ops := s'.core.ops.set k { o with rangeMap := true } } }, c, some u)
    match r with
    | none => (s, .err)
    | some (s1, mc, m) =>
      match weakForm c s1 k with
      | (s2, .asm fc h u) => (s2, .strong mc m fc h u)
      | (_, _) => (s, .err)

/-- constructor of a potential operator (`PotentialAssembler.__init__`) -/
def createPot (c : Code) (s : State) (a : PotAsm) (space pts kern : Nat) (pref : PRef) : State × Out :=
  match s.core.spaces[space]?, deref s.core pref with
  | some sp, some p =>
    match a with
    | .dense =>
      let u : Used := ⟨some p.regular, none, none, .double⟩
      ({ s with core := { s.core with pots := s.core.pots ++ [⟨a, space, pts, kern, pref, u⟩] } }, .pot false u)
    | .fmm =>
      let q := fmmReads c s.core.glob p
      let key := potKey c sp.grid pts kern p
      match s.potCache.lookup key with
      | some i =>
        let u : Used := ⟨some q.regular, none, some i, .double⟩
        ({ s with core := { s.core with pots := s.core.pots ++ [⟨a, space, pts, kern, pref, u⟩] } }, .pot true u)
      | none =>
        let i : Iface := ⟨sp.grid, pts, kern, q.regular, q.expansion, q.ncrit⟩
        let u : Used := ⟨some q.regular, none, some i, .double⟩
        ({ core := { s.core with pots := s.core.pots ++ [⟨a, space, pts, kern, pref, u⟩] },
           fmmCache := s.fmmCache, potCache := (key, i) :: s.potCache }, .pot false u)
  | _, _ => (s, .err)

def step (c : Code) (s : State) (op : Op) : State × Out :=
  match plainStep s.core op with
  | some (t, o) => ({ s with core := t }, o)
  | none =>
    match op with
    | .weakForm k => weakForm c s k
    | .strongForm k => strongForm c s k
    | .massMatrix i =>
      match massMatrix s i with
      | some (s', h, u) => (s', .mass h u)
      | none => (s, .err)
    | .createPot a sp pts kern pref => createPot c s a sp pts kern pref
    | .evalPot k =>
      match s.core.pots[k]? with
      | some o => (s, .potEval o.used)
      | none => (s, .err)
    | .clearFmmCache => ({ s with fmmCache := [], potCache := [] }, .unit)
    | _ => (s, .unit)

def run (c : Code) : State → List Op → List Out
  | _, [] => []
  | s, op :: rest => (step c s op).2 :: run c (step c s op).1 rest

def runState (c : Code) : State → List Op → State
  | s, [] => s
  | s, op :: rest => runState c (step c s op).1 rest

/-- the operation builds an operator on the FMM path -/
def Op.createsFmm : Op → Bool
  | .createOp .fmm _ _ _ _ => true
  | .createPot .fmm _ _ _ _ => true
  | _ => false

end BemppVerif.Model.Hist
