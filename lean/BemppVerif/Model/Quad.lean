/-
Model of the quadrature rules of bempp_cl/api/integration (Mathlib-free, executable).

* `triRuleInt`, `gaussRuleInt` mirror `triangle_gauss.rule` / `gauss.rule` on the tables regenerated
  from the source (`Gen/TriTable`, `Gen/GaussTable`); values are exact integers at a binary scale.
* `duffy` mirrors `duffy_galerkin.rule` for an arbitrary 1-D rule over an arbitrary ring-like type,
  in the order in which the source fills its arrays.
* `remapVertex`, `remapEdge` mirror `remap_points_shared_vertex/_edge`.
-/
import BemppVerif.Gen.TriTable
import BemppVerif.Gen.GaussTable

namespace BemppVerif.Model.Quad
open BemppVerif.Gen

/-! ## Regular rules -/

/-- `triangle_gauss.rule(order)`: `none` models the `ValueError`.  Points are the barycentric
coordinates 1 and 2 of each tabulated point (scale `2^70`), weights are `0.5 * weights[...]`,
represented by the same integers at scale `2^71`. -/
def pointsOf : List Int → List (Int × Int)
  | _ :: b1 :: b2 :: rest => (b1, b2) :: pointsOf rest
  | _ => []

def triRuleInt (order : Int) : Option (List (Int × Int) × List Int) :=
  if order < TriTable.ruleLo ∨ order > TriTable.ruleHi then none
  else
    let npoints := (TriTable.pointsPerOrder.getD (order - 1).toNat 0)
    let address := (TriTable.pointsAddress.getD (npoints - 1).toNat 0)
    let n := npoints.toNat
    let a := address.toNat
    some (pointsOf ((TriTable.coords.toList.drop (3 * a)).take (3 * n)),
          (TriTable.weights.toList.drop a).take n)

/-- the slices taken by `triRuleInt` lie inside the tables and the address is non-negative -/
def triSliceOK (order : Nat) : Bool :=
  let npoints := (TriTable.pointsPerOrder.getD (order - 1) 0)
  let address := (TriTable.pointsAddress.getD (npoints - 1).toNat 0)
  decide (order - 1 < TriTable.pointsPerOrder.size) && decide (1 ≤ npoints) &&
  decide ((npoints - 1).toNat < TriTable.pointsAddress.size) && decide (0 ≤ address) &&
  decide (3 * (address.toNat + npoints.toNat) ≤ TriTable.coords.size) &&
  decide (address.toNat + npoints.toNat ≤ TriTable.weights.size)

/-- `gauss.rule(order)`: nodes `0.5*(1+c)` as integers at scale `2^71` (`2^70 + c`), weights `0.5*w`
as the table integers at scale `2^71`. -/
def gaussRuleInt (order : Int) : Option (List Int × List Int) :=
  if order < GaussTable.ruleLo ∨ order > GaussTable.ruleHi then none
  else
    let n := order.toNat
    let a := (n * (n - 1)) / 2
    some (((GaussTable.coords.toList.drop a).take n).map (fun c => 2 ^ GaussTable.scaleBits + c),
          (GaussTable.weights.toList.drop a).take n)

def gaussSliceOK (order : Nat) : Bool :=
  decide ((order * (order - 1)) / 2 + order ≤ GaussTable.coords.size) &&
  decide ((order * (order - 1)) / 2 + order ≤ GaussTable.weights.size)

/-- monomial moment of an integer-scaled triangle rule: `Σ w x^a y^b` (scale `2^(71+70(a+b))`) -/
def triMoment (r : List (Int × Int) × List Int) (a b : Nat) : Int :=
  ((r.1.zip r.2).map (fun (p, w) => w * p.1 ^ a * p.2 ^ b)).foldl (· + ·) 0

def fact : Nat → Nat
  | 0 => 1
  | n + 1 => (n + 1) * fact n

/-- `|Σ w x^a y^b − a! b!/(a+b+2)!| ≤ 10^-14`, cleared of denominators. -/
def triExactAt (order a b : Nat) : Bool :=
  match triRuleInt order with
  | none => false
  | some r =>
    let sc : Int := 2 ^ (71 + 70 * (a + b))
    let d : Int := triMoment r a b * (fact (a + b + 2) : Int) - (fact a * fact b : Nat) * sc
    decide (d.natAbs * 10 ^ 14 ≤ fact (a + b + 2) * sc.toNat)

def triExactAll : Bool :=
  (List.range 20).all fun i =>
    (List.range (i + 2)).all fun a =>
      (List.range (i + 2 - a)).all fun b => triExactAt (i + 1) a b

def gaussMoment (r : List Int × List Int) (j : Nat) : Int :=
  ((r.1.zip r.2).map (fun (x, w) => w * x ^ j)).foldl (· + ·) 0

/-- `|Σ w x^j − 1/(j+1)| ≤ 10^-14`, cleared of denominators (nodes and weights at scale `2^71`). -/
def gaussExactAt (order j : Nat) : Bool :=
  match gaussRuleInt order with
  | none => false
  | some r =>
    let sc : Int := 2 ^ (71 * (j + 1))
    let d : Int := gaussMoment r j * ((j : Int) + 1) - sc
    decide (d.natAbs * 10 ^ 14 ≤ (j + 1) * sc.toNat)

def gaussExactAll : Bool :=
  (List.range 30).all fun i => (List.range (2 * (i + 1))).all fun j => gaussExactAt (i + 1) j

/-- all Gauss nodes lie strictly inside (0,1) and all weights are positive -/
def gaussInteriorAll : Bool :=
  (List.range 30).all fun i =>
    match gaussRuleInt (i + 1) with
    | none => false
    | some r => r.1.all (fun x => decide (0 < x ∧ x < 2 ^ 71)) && r.2.all (fun w => decide (0 < w))
                && decide (r.1.length = i + 1) && decide (r.2.length = i + 1)

/-! ## Duffy rules (generic 1-D rule) -/

section Duffy
variable {R : Type} [Add R] [Sub R] [Mul R] [One R]

/-- one quadrature point of a singular rule: test point, trial point, weight -/
structure QP (R : Type) where
  tx : R
  ty : R
  sx : R
  sy : R
  w : R
deriving Repr, DecidableEq

/-- tensor Gauss rule in the order of the source: index `i*n+j` is the point `(x_j, x_i)` with
weight `w_i*w_j`. -/
def tensor (xs ws : List R) : List (R × R × R) :=
  (xs.zip ws).flatMap fun (xi, wi) => (xs.zip ws).map fun (xj, wj) => (xj, xi, wi * wj)

inductive Adj | coincident | edge | vertex
deriving Repr, DecidableEq

/-- the regions written for one pair of tensor points, in source order, BEFORE the final
`points[0] -= points[1]`.  `tw` is `tensor_weights[test_ind] * tensor_weights[trial_ind]`. -/
def regions (adj : Adj) (xsi eta1 eta2 eta3 tw : R) : List (QP R) :=
  let eta123 := eta1 * eta2 * eta3
  let eta12 := eta1 * eta2
  match adj with
  | .coincident =>
    let weight := tw * xsi * xsi * xsi * eta1 * eta1 * eta2
    [ ⟨xsi, xsi * (1 - eta1 + eta12), xsi * (1 - eta123), xsi * (1 - eta1), weight⟩,
      ⟨xsi * (1 - eta123), xsi * (1 - eta1), xsi, xsi * (1 - eta1 + eta12), weight⟩,
      ⟨xsi, xsi * (eta1 - eta12 + eta123), xsi * (1 - eta12), xsi * (eta1 - eta12), weight⟩,
      ⟨xsi * (1 - eta12), xsi * (eta1 - eta12), xsi, xsi * (eta1 - eta12 + eta123), weight⟩,
      ⟨xsi * (1 - eta123), xsi * (eta1 - eta123), xsi, xsi * (eta1 - eta12), weight⟩,
      ⟨xsi, xsi * (eta1 - eta12), xsi * (1 - eta123), xsi * (eta1 - eta123), weight⟩ ]
  | .edge =>
    let weight := tw * xsi * xsi * xsi * eta1 * eta1
    [ ⟨xsi, xsi * eta1 * eta3, xsi * (1 - eta12), xsi * eta1 * (1 - eta2), weight⟩,
      ⟨xsi, xsi * eta1, xsi * (1 - eta123), xsi * eta1 * eta2 * (1 - eta3), weight * eta2⟩,
      ⟨xsi * (1 - eta12), xsi * eta1 * (1 - eta2), xsi, xsi * eta123, weight * eta2⟩,
      ⟨xsi * (1 - eta123), xsi * eta12 * (1 - eta3), xsi, xsi * eta1, weight * eta2⟩,
      ⟨xsi * (1 - eta123), xsi * eta1 * (1 - eta2 * eta3), xsi, xsi * eta12, weight * eta2⟩ ]
  | .vertex =>
    let weight := tw * xsi * xsi * xsi * eta2
    [ ⟨xsi, xsi * eta1, xsi * eta2, xsi * eta2 * eta3, weight⟩,
      ⟨xsi * eta2, xsi * eta2 * eta3, xsi, xsi * eta1, weight⟩ ]

/-- `points_test[0,:] -= points_test[1,:]`, same for trial -/
def fixup (q : QP R) : QP R := ⟨q.tx - q.ty, q.ty, q.sx - q.sy, q.sy, q.w⟩

/-- the rule before the final change of reference triangle -/
def duffyRaw (adj : Adj) (xs ws : List R) : List (QP R) :=
  (tensor xs ws).flatMap fun t =>
    (tensor xs ws).flatMap fun s => regions adj t.1 t.2.1 s.1 s.2.1 (t.2.2 * s.2.2)

/-- `duffy_galerkin.rule(order, adjacency)` for the 1-D rule `(xs, ws)` -/
def duffy (adj : Adj) (xs ws : List R) : List (QP R) := (duffyRaw adj xs ws).map fixup

/-- `number_of_quadrature_points` -/
def numberOfQuadPoints (adj : Adj) (order : Nat) : Nat :=
  match adj with
  | .coincident => 6 * order ^ 4
  | .edge => 5 * order ^ 4
  | .vertex => 2 * order ^ 4

/-- `remap_points_shared_vertex(points, vertex_id)` on one point; `none` where the source returns
`None` (ids other than 0,1,2). -/
def remapVertex (p : R × R) (v : Nat) : Option (R × R) :=
  match v with
  | 0 => some p
  | 1 => some (1 - p.1 - p.2, p.2)
  | 2 => some (p.1, 1 - p.1 - p.2)
  | _ => none

end Duffy

section Remap
variable {R : Type} [Add R] [Sub R] [Mul R] [One R] [Zero R]

def refVertex (i : Nat) : R × R :=
  match i with
  | 0 => (0, 0)
  | 1 => (1, 0)
  | _ => (0, 1)

/-- `remap_points_shared_edge(points, v0, v1)` on one point, for the pairs the callers use
(`v0 ≠ v1`, both in `0..2`); `none` otherwise. -/
def remapEdge (p : R × R) (v0 v1 : Nat) : Option (R × R) :=
  if v0 < 3 ∧ v1 < 3 ∧ v0 ≠ v1 then
    let n0 : R × R := refVertex v0
    let n1 : R × R := refVertex v1
    let n2 : R × R := refVertex (3 - v0 - v1)
    let a00 := n1.1 - n0.1
    let a10 := n1.2 - n0.2
    let a01 := n2.1 - n0.1
    let a11 := n2.2 - n0.2
    some (a00 * p.1 + a01 * p.2 + n0.1, a10 * p.1 + a11 * p.2 + n0.2)
  else none

end Remap

/-! ## The singular rules built from the tabulated Gauss rule (exact rationals) -/

def gaussRuleRat (order : Int) : Option (List Rat × List Rat) :=
  (gaussRuleInt order).map fun r =>
    (r.1.map fun x => mkRat x (2 ^ 71), r.2.map fun w => mkRat w (2 ^ 71))

/-- `∫_T x^a y^b` over the reference triangle `x,y ≥ 0, x+y ≤ 1` -/
def triMonoExact (a b : Nat) : Rat := mkRat (fact a * fact b) (fact (a + b + 2))

def duffyMoment (l : List (QP Rat)) (a b c d : Nat) : Rat :=
  l.foldl (fun acc q => acc + q.w * q.tx ^ a * q.ty ^ b * q.sx ^ c * q.sy ^ d) 0

def ratAbs (r : Rat) : Rat := if r < 0 then -r else r

/-- all exponent tuples of total degree `≤ m` -/
def monos (m : Nat) : List (Nat × Nat × Nat × Nat) :=
  (List.range (m + 1)).flatMap fun a => (List.range (m + 1 - a)).flatMap fun b =>
    (List.range (m + 1 - a - b)).flatMap fun c => (List.range (m + 1 - a - b - c)).map fun d => (a, b, c, d)

/-- the rule `duffy_galerkin.rule(n, adj)` built from the tabulated `n`-point Gauss rule integrates
every monomial of total degree `≤ 2n-4` over `T × T` to within `1e-13` -/
def duffyExactOrder (adj : Adj) (n : Nat) : Bool :=
  match gaussRuleRat n with
  | none => false
  | some r =>
    let l := duffy adj r.1 r.2
    (monos (2 * n - 4)).all fun (a, b, c, d) =>
      decide (ratAbs (duffyMoment l a b c d - triMonoExact a b * triMonoExact c d) ≤ mkRat 1 (10 ^ 13))

def swapQP {R : Type} (q : QP R) : QP R := ⟨q.sx, q.sy, q.tx, q.ty, q.w⟩

end BemppVerif.Model.Quad
