/-
Model of the FMM matvec pipeline of bempp_cl/api/fmm (Mathlib-free, executable), scalar default case,
at the level of index maps and sums.

* `Space`                 the discrete data of a function space that the pipeline reads: `support_elements`,
                          `local2global`, `local_multipliers`, the tabulated basis values at the quadrature
                          points and the integration elements (all given data).
* `pointMapImpl`          `space.py: map_space_to_points_impl` — the COO triplets (point row, localised dof
                          column, basis·weight·integration element).  `byPos = false` is the code as it stands
                          (array cells addressed with the GRID element index), `byPos = true` the variant of
                          findings/proposed_c17.diff (cells addressed with the position in `support_elements`).
* `locEntries`            `FunctionSpace._map_to_localised_space`.
* `spaceToPoints`, `pointsToSpace`   the composed sparse maps `map_to_points(...)`, `(..., return_transpose=True)`
                          written as direct sums (rows `npts*e+q`, columns `local2global[e,i]`).
* `transformIdxImpl`      the `(iind, jind)` index arrays of `fmm_assembler.py: compute_p1_curl_transformation_impl`,
                          `compute_rwg_basis_transform_impl`, `compute_rwg_div_transform_impl`.
* `evalAll`               the exact far-field evaluator: all-pairs sum over the source point cloud
                          (element-major order `npts*e+q`, `grid_to_points`).
* `nearField`             `helpers.py: get_local_interaction_matrix_impl` applied to a vector (CSR rows
                          `npts*τ+p`, columns `npts*σ+q` for σ in `element_neighbors` of τ, self included).
* `fmmMatvec`             `fmm_assembler.py: make_default_scalar.evaluate_single_layer` without the singular part.
* `denseRegularMatvec`    `numba_kernels.py: default_scalar_regular_kernel` applied to a vector: the sum over
                          the non-adjacent element pairs.
-/
namespace BemppVerif.Model.Fmm

/-- `Σ_{a ∈ l} f a` -/
def sumOver {α R : Type} [Add R] [Zero R] (l : List α) (f : α → R) : R := (l.map f).sum

/-- one COO triplet -/
structure Entry (R : Type) where
  row : Nat
  col : Nat
  val : R
deriving Repr, DecidableEq

/-- `(A x)[r]` for a COO triplet list (duplicates are summed, as `scipy.sparse.coo_matrix` does) -/
def cooApply {R : Type} [Add R] [Zero R] [Mul R] (es : List (Entry R)) (x : Nat → R) (r : Nat) : R :=
  sumOver es fun e => if e.row = r then e.val * x e.col else 0

/-- `(Aᵀ y)[c]` -/
def cooApplyT {R : Type} [Add R] [Zero R] [Mul R] (es : List (Entry R)) (y : Nat → R) (c : Nat) : R :=
  sumOver es fun e => if e.col = c then e.val * y e.row else 0

/-- What the FMM glue reads from a function space. -/
structure Space (R : Type) where
  /-- `grid.number_of_elements` -/
  nElems : Nat
  /-- `space.support_elements` (`flatnonzero(support)`, ascending) -/
  support : List Nat
  /-- `space.number_of_shape_functions` -/
  nshape : Nat
  /-- `space.local2global[e, i]` -/
  l2g : Nat → Nat → Nat
  /-- `space.local_multipliers[e, i]` -/
  mult : Nat → Nat → R
  /-- value of local shape function `i` at quadrature point `q` on element `e`
      (`numba_evaluate(e, …)[0, i, q]` with the multipliers of the localised space, i.e. 1) -/
  basis : Nat → Nat → Nat → R
  /-- `grid.integration_elements[e]` -/
  ie : Nat → R

variable {R : Type}

/-! ## `map_space_to_points_impl` -/

/-- the `nlocal = nshape*npts` triplets written for the element `elem` standing at position `pos` of
`support_elements`, in array order (`basis_values.ravel()`: shape function major, point minor):
`vertex_indices = npts*elem + q`, `global_indices = localised local2global[elem, i] = nshape*pos + i`. -/
def elemTriplets [Mul R] (S : Space R) (npts : Nat) (w : Nat → R) (pos elem : Nat) : List (Entry R) :=
  (List.range S.nshape).flatMap fun i => (List.range npts).map fun q =>
    { row := npts * elem + q, col := S.nshape * pos + i, val := S.basis elem i q * w q * S.ie elem }

/-- array cell block used for the element `elem` at support position `pos` -/
def slot (byPos : Bool) (pos elem : Nat) : Nat := if byPos then pos else elem

/-- `map_space_to_points_impl`: the three arrays have `nlocal * len(support_elements)` cells; the block of
an element is `[slot*nlocal, (slot+1)*nlocal)`.  A block outside the arrays gives no defined result
(`none`): the slice assignment raises `ValueError: cannot assign slice of shape (0,)`, or — for `nlocal = 1`,
where broadcasting accepts a length-1 value for the empty slice — nothing is written and the `np.empty`
cells stay uninitialised.  For a strictly increasing support with all blocks inside, `slot` is a bijection
onto the blocks and the triplets below are in array order (for `byPos = false` this forces `elem = pos`). -/
def pointMapImpl [Mul R] (byPos : Bool) (S : Space R) (npts : Nat) (w : Nat → R) : Option (List (Entry R)) :=
  let pe := S.support.zipIdx
  if pe.all (fun p => decide (slot byPos p.2 p.1 < S.support.length)) then
    some (pe.flatMap fun p => elemTriplets S npts w p.2 p.1)
  else none

/-- `_map_to_localised_space`: rows `nshape*pos + i`, columns `local2global[elem, i]`, values the multipliers -/
def locEntries (S : Space R) : List (Entry R) :=
  S.support.zipIdx.flatMap fun p => (List.range S.nshape).map fun i =>
    { row := S.nshape * p.2 + i, col := S.l2g p.1 i, val := S.mult p.1 i }

/-- `map_to_points(order)` applied to grid-dof coefficients `x`, as the code composes it:
`transform @ (map_to_localised_space @ x)` (`none`: the implementation raised). -/
def mapToPointsImpl [Add R] [Zero R] [Mul R] (byPos : Bool) (S : Space R) (npts : Nat) (w : Nat → R)
    (x : Nat → R) : Option (Nat → R) :=
  (pointMapImpl byPos S npts w).map fun es => cooApply es (cooApply (locEntries S) x)

/-- `map_to_points(order, return_transpose=True)` applied to point values `y` -/
def mapToPointsTImpl [Add R] [Zero R] [Mul R] (byPos : Bool) (S : Space R) (npts : Nat) (w : Nat → R)
    (y : Nat → R) : Option (Nat → R) :=
  (pointMapImpl byPos S npts w).map fun es => cooApplyT (locEntries S) (cooApplyT es y)

/-! ## The maps the pipeline is meant to use (direct sums) -/

/-- source map: row `npts*e+q`, column `l2g e i`, value `basis·w·ie·mult`, for support elements only -/
def spaceToPoints [Add R] [Zero R] [Mul R] (S : Space R) (npts : Nat) (w : Nat → R) (x : Nat → R) (P : Nat) : R :=
  sumOver S.support fun e => sumOver (List.range S.nshape) fun i => sumOver (List.range npts) fun q =>
    if npts * e + q = P then S.basis e i q * w q * S.ie e * (S.mult e i * x (S.l2g e i)) else 0

/-- target map (transpose): row `l2g e i`, column `npts*e+q` -/
def pointsToSpace [Add R] [Zero R] [Mul R] (S : Space R) (npts : Nat) (w : Nat → R) (y : Nat → R) (r : Nat) : R :=
  sumOver S.support fun e => sumOver (List.range S.nshape) fun i => sumOver (List.range npts) fun q =>
    if S.l2g e i = r then S.mult e i * (S.basis e i q * w q * S.ie e * y (npts * e + q)) else 0

/-- all COO triplets of the composed source map (for the driver) -/
def spaceToPointsEntries [Mul R] (S : Space R) (npts : Nat) (w : Nat → R) : List (Entry R) :=
  S.support.flatMap fun e => (List.range S.nshape).flatMap fun i => (List.range npts).map fun q =>
    { row := npts * e + q, col := S.l2g e i, val := S.basis e i q * w q * S.ie e * S.mult e i }

/-! ## `compute_*_transform_impl` index arrays -/

/-- `(iind, jind)` of the curl / RWG basis / RWG divergence transforms, in array order
(`index = nlocal*pos + fi*npts + q`): `jind = 3*pos + fi` (localised dof),
`iind = npts*X + q` with `X = pos` in the code as it stands (`rowsByElem = false`) and `X = elem` in the
variant of findings/proposed_c17.diff. -/
def transformIdxImpl (rowsByElem : Bool) (support : List Nat) (npts : Nat) : List (Nat × Nat) :=
  support.zipIdx.flatMap fun p => (List.range 3).flatMap fun fi => (List.range npts).map fun q =>
    (npts * (if rowsByElem then p.1 else p.2) + q, 3 * p.2 + fi)

/-! ## Evaluator, near-field correction, matvec -/

/-- exact far-field evaluator: `Σ_P K(T,P) v[P]` over all `nSrc` source points (component 0 of the
4-component result; the other components are the same sum with the gradient kernels) -/
def evalAll [Add R] [Zero R] [Mul R] (K : Nat → Nat → R) (nSrc : Nat) (v : Nat → R) (T : Nat) : R :=
  sumOver (List.range nSrc) fun P => K T P * v P

/-- near-field matrix applied to `v`, row of the target point `T = npts*τ+p`: the sources are the points
of the elements in `nbrs τ` (CSR row of `element_neighbors`, which contains τ itself) -/
def nearField [Add R] [Zero R] [Mul R] (K : Nat → Nat → R) (npts : Nat) (nbrs : Nat → List Nat) (v : Nat → R)
    (T : Nat) : R :=
  sumOver (nbrs (T / npts)) fun σ => sumOver (List.range npts) fun q => K T (npts * σ + q) * v (npts * σ + q)

/-- `ExafmmInterface.evaluate`: evaluator result minus singular correction -/
def corrected [Add R] [Zero R] [Mul R] [Sub R] (K : Nat → Nat → R) (npts nSrcElems : Nat)
    (nbrs : Nat → List Nat) (v : Nat → R) (T : Nat) : R :=
  evalAll K (npts * nSrcElems) v T - nearField K npts nbrs v T

/-- `evaluate_single_layer` without `singular_part @ x`: `target_map @ fmm.evaluate(source_map @ x)[:, 0]` -/
def fmmMatvec [Add R] [Zero R] [Mul R] [Sub R] (T S : Space R) (npts : Nat) (w : Nat → R)
    (K : Nat → Nat → R) (nbrs : Nat → List Nat) (x : Nat → R) (r : Nat) : R :=
  pointsToSpace T npts w (corrected K npts S.nElems nbrs (spaceToPoints S npts w x)) r

/-- `default_scalar_regular_kernel` applied to `x`: adjacent pairs are skipped, every other pair adds
`local_result * test_multiplier * trial_multiplier` to `result[l2g_test, l2g_trial]`. -/
def denseRegularMatvec [Add R] [Zero R] [Mul R] (T S : Space R) (npts : Nat) (w : Nat → R)
    (K : Nat → Nat → R) (adjacent : Nat → Nat → Bool) (x : Nat → R) (r : Nat) : R :=
  sumOver T.support fun τ => sumOver S.support fun σ =>
    if adjacent τ σ then 0 else
      sumOver (List.range T.nshape) fun j => sumOver (List.range S.nshape) fun i =>
        if T.l2g τ j = r then
          ((sumOver (List.range npts) fun p => sumOver (List.range npts) fun q =>
              K (npts * τ + p) (npts * σ + q) * (w q * S.ie σ * T.ie τ * w p) * S.basis σ i q * T.basis τ j p)
            * T.mult τ j * S.mult σ i) * x (S.l2g σ i)
        else 0

/-- The near-field neighbour lists are exactly the element pairs the dense regular assembler skips
(to be discharged by the grid model of C11: `element_neighbors` = pairs with a common vertex, self included).
For two different grids `nbrs = fun _ => []`, `adjacent = fun _ _ => false`. -/
structure NearFieldIsAdjacentPairs (nbrs : Nat → List Nat) (adjacent : Nat → Nat → Bool)
    (nTargetElems nSourceElems : Nat) : Prop where
  nodup : ∀ τ, τ < nTargetElems → (nbrs τ).Nodup
  bounded : ∀ τ, τ < nTargetElems → ∀ σ ∈ nbrs τ, σ < nSourceElems
  iff_adjacent : ∀ τ, τ < nTargetElems → ∀ σ, σ < nSourceElems → (σ ∈ nbrs τ ↔ adjacent τ σ = true)

/-! ## Gradient-based variants -/

/-- `evaluate_double_layer`: `-(Σ_k fmm.evaluate(n_k · v)[:, 1+k])`, `g k` the k-th component of the TARGET
gradient of the Green's function, `n k P` the k-th component of the source normal at point `P` -/
def dlFromGradient [Add R] [Zero R] [Mul R] [Sub R] [Neg R] (g : Nat → Nat → Nat → R) (n : Nat → Nat → R)
    (npts nSrcElems : Nat) (nbrs : Nat → List Nat) (v : Nat → R) (T : Nat) : R :=
  - sumOver (List.range 3) fun k => corrected (g k) npts nSrcElems nbrs (fun P => n k P * v P) T

/-- `evaluate_adjoint_double_layer`: `Σ_k fmm.evaluate(v)[:, 1+k] · target_normals[:, k]` -/
def adlFromGradient [Add R] [Zero R] [Mul R] [Sub R] (g : Nat → Nat → Nat → R) (nT : Nat → Nat → R)
    (npts nSrcElems : Nat) (nbrs : Nat → List Nat) (v : Nat → R) (T : Nat) : R :=
  sumOver (List.range 3) fun k => corrected (g k) npts nSrcElems nbrs v T * nT k T

end BemppVerif.Model.Fmm
