/-
Model of the *application* of the discrete blocked operators (Mathlib-free, executable):

* `bempp_cl/api/assembly/blocked_operator.py`, `BlockedDiscreteOperator._matvec` and `._matmat`: two nested
  loops with running offsets `row_dim` / `col_dim`, `local_res = res[row_dim : row_dim + rows[i]]` (a view),
  `local_x = x[col_dim : col_dim + cols[j]]`, `local_res += op[i, j].dot(local_x)`, `col_dim += cols[j]`,
  `row_dim += rows[i]`;
* `GeneralizedDiscreteBlockedOperator._matmat`: the same with the offsets advanced by the *shapes of the blocks*
  (`row[0].shape[0]`, `elem.shape[1]`) instead of stored dimension arrays.

`Model/Solve.lean` represents the weak form of a blocked operator by the matrix `to_dense()` builds; this file
models what the product with a vector / a matrix actually does, so that "matvec = product with `to_dense()`"
(`Props/C15.lean`: `blocked_matvec_eq_dense`, …) is a theorem instead of a sampled comparison.

The real-operator / complex-vector branch (`op.dot(real(x)) + 1j * op.dot(imag(x))`) is NOT a separate path of the
model: the model applies the block to the complex vector; that the real code's split gives the same numbers is part
of what the correspondence compares (exact arithmetic on small integers).
-/
import BemppVerif.Model.Solve

namespace BemppVerif.Model.Blocked
open BemppVerif.Model.Solve

section Algebra
variable {R : Type} [Zero R] [Add R] [Mul R]

/-- `a += b` on NumPy vectors of the same length -/
def vadd (a b : Vec R) : Vec R := List.zipWith (· + ·) a b

/-- `x[c : c + n]` (NumPy slicing truncates silently) -/
def slice {α : Type} (x : List α) (c n : Nat) : List α := (x.drop c).take n

/-- inner loop of `BlockedDiscreteOperator._matvec` over the block columns `j` of one block row:
`local_res += op[i, j].dot(x[col_dim : col_dim + cols[j]]);  col_dim += cols[j]` -/
def rowLoop : List (Mat R) → List Nat → Vec R → Nat → Vec R → Vec R
  | A :: row, c :: cols, x, colDim, acc => rowLoop row cols x (colDim + c) (vadd acc (matvec A (slice x colDim c)))
  | _, _, _, _, acc => acc

/-- `BlockedDiscreteOperator._matvec` for 1-D `x`: the views `res[row_dim : row_dim + rows[i]]` of consecutive
block rows tile `res`, so the result is the concatenation of the per-row accumulators (each starts as
`zeros(rows[i])`). -/
def matvecBlocked (blocks : List (List (Mat R))) (rows cols : List Nat) (x : Vec R) : Vec R :=
  (List.zipWith (fun row r => rowLoop row cols x 0 (List.replicate r 0)) blocks rows).flatten

/-- inner loop of `BlockedDiscreteOperator._matmat`; `X` is the list of the COLUMNS of the 2-D argument,
`x[col_dim : col_dim + cols[j], :]` slices every column -/
def rowLoopMM : List (Mat R) → List Nat → List (Vec R) → Nat → List (Vec R) → List (Vec R)
  | A :: row, c :: cols, X, colDim, acc =>
      rowLoopMM row cols X (colDim + c) (List.zipWith vadd acc (X.map fun xc => matvec A (slice xc colDim c)))
  | _, _, _, _, acc => acc

/-- `BlockedDiscreteOperator._matmat`: result as the list of its columns.  For every column of `X` the block-row
results are concatenated. -/
def matmatBlocked (blocks : List (List (Mat R))) (rows cols : List Nat) (X : List (Vec R)) : List (Vec R) :=
  let perRow : List (List (Vec R)) :=
    List.zipWith (fun row r => rowLoopMM row cols X 0 (X.map fun _ => List.replicate r 0)) blocks rows
  -- column k of the result = concatenation over block rows of column k of the row result
  (List.range X.length).map fun k => (perRow.map fun cs => cs.getD k []).flatten

/-- a block of `GeneralizedDiscreteBlockedOperator` with its `shape` (a matrix with no rows still has a column
count) -/
structure GBlock (R : Type) where
  mat : Mat R
  nrows : Nat
  ncols : Nat

/-- inner loop of `GeneralizedDiscreteBlockedOperator._matmat` for ONE column of `other`:
`output[rows] += elem @ other[column_count : column_count + elem.shape[1]];  column_count += elem.shape[1]` -/
def genRowLoop : List (GBlock R) → Vec R → Nat → Vec R → Vec R
  | B :: row, x, colCount, acc => genRowLoop row x (colCount + B.ncols) (vadd acc (matvec B.mat (slice x colCount B.ncols)))
  | [], _, _, acc => acc

/-- `row_dim = row[0].shape[0]` -/
def firstNrows : List (GBlock R) → Nat
  | B :: _ => B.nrows
  | [] => 0

/-- `GeneralizedDiscreteBlockedOperator._matmat` on one column -/
def genMatvec (blocks : List (List (GBlock R))) (x : Vec R) : Vec R :=
  (blocks.map fun row => genRowLoop row x 0 (List.replicate (firstNrows row) 0)).flatten

/-- `GeneralizedDiscreteBlockedOperator.to_dense` (`numpy.block`) -/
def genToDense (blocks : List (List (GBlock R))) : Mat R := toDense (blocks.map fun row => row.map GBlock.mat)

end Algebra

/-! ## The constructor's dimension bookkeeping (`BlockedDiscreteOperator.__init__`) -/

/-- shape of a block as the constructor sees it; `none` = a `None` entry -/
abbrev Shape := Option (Nat × Nat)

/-- the first loop of the constructor along one block row (`sel = fst`: `rows[i]`) or one block column
(`sel = snd`: `cols[j]`): the first non-`None` block fixes the dimension (`cur = none` = still `-1`), every later
one must agree, else `ValueError` -/
def dimStep (sel : Nat × Nat → Nat) : Option Nat → List Shape → Except Unit (Option Nat)
  | cur, [] => .ok cur
  | cur, none :: ss => dimStep sel cur ss
  | none, some s :: ss => dimStep sel (some (sel s)) ss
  | some d, some s :: ss => if sel s = d then dimStep sel (some d) ss else .error ()

def rowDim (row : List Shape) : Except Unit (Option Nat) := dimStep Prod.fst none row
def colDim (col : List Shape) : Except Unit (Option Nat) := dimStep Prod.snd none col

/-- all dimensions determined (`_fill_complete`), none inconsistent -/
def allDims : List (Except Unit (Option Nat)) → Except Unit (List Nat)
  | [] => .ok []
  | .ok (some d) :: ds => (allDims ds).map (d :: ·)
  | _ :: _ => .error ()

def transposeShapes (ss : List (List Shape)) (ncols : Nat) : List (List Shape) :=
  (List.range ncols).map fun j => ss.map fun row => (row.getD j none)

/-- `BlockedDiscreteOperator.__init__`: `(rows, cols)` or `ValueError` (incompatible sizes, or a row / column
without any operator: `_fill_complete`) -/
def ctorDims (ss : List (List Shape)) (ncols : Nat) : Except Unit (List Nat × List Nat) :=
  match allDims (ss.map rowDim), allDims ((transposeShapes ss ncols).map colDim) with
  | .ok rows, .ok cols => .ok (rows, cols)
  | _, _ => .error ()

end BemppVerif.Model.Blocked
