/-
Model of the *mapping logic* of `bempp_cl/api/grid/io.py` around meshio (Mathlib-free, executable).

`export` builds a record (points, cell blocks, point data, cell data, file format, binary flag) and hands it
to `meshio.write_points_cells`; `import_grid` takes the record a meshio reader returns and builds a `Grid`.
meshio's writers/readers are modelled as the identity on that record (trusted, exercised by the oracle with
real files).  What IS modelled of meshio: the consistency check of `meshio.Mesh.__init__` (`MeshRec.accepted`)
and the accessors `cells_dict` / `cell_data_dict` (`trianglesOf`, `cellDataOf`), because `export` / `import_grid`
depend on them; both are compared with the real meshio objects by the correspondence.

Conventions
* a grid stores column `j` of `grid.vertices` (3×nv) as `vertices[j]`, column `j` of `grid.elements` (3×ne) as
  `elements[j]`; the `.T` of `export` and the `.T` of `import_grid` are therefore the identity on this
  representation (the correspondence checks the orientation of the real arrays);
* an evaluation result `values` (components × n, as returned by `evaluate_on_vertices` /
  `evaluate_on_element_centers`) is stored by columns: `cols[j][c] = values[c, j]`, complex entries as
  `(re, im)` with a dtype flag `isComplex` (numpy's `iscomplexobj` looks at the dtype, not at the values);
* `sqrt` and `log ∘ sqrt` are uninterpreted: `Val.sqrt q`, `Val.logSqrt q` are symbolic terms;
* `astype("int32")` / `astype("uint32")` are modelled with wrap-around (`toInt32`, `toUInt32`);
* the iteration order of Python's `set(grid.domain_indices)` is an uninterpreted parameter `setOrder`
  (any duplicate-free enumeration of the distinct indices, see `SetOrderSpec`).
-/
namespace BemppVerif.Model.IOMap

/-! ### integer casts -/

/-- numpy `astype("int32")` on an integer value (two's complement wrap-around) -/
def toInt32 (z : Int) : Int :=
  let r := z % 4294967296
  if r < 2147483648 then r else r - 4294967296

/-- numpy `astype("uint32")` on an integer value -/
def toUInt32 (z : Int) : Nat := (z % 4294967296).toNat

/-! ### grids and grid functions -/

structure Grid where
  vertices : List (Rat × Rat × Rat)
  elements : List (Nat × Nat × Nat)
  domain : List Nat
deriving DecidableEq, Repr

/-- what `Grid.__init__` accepts as uint32 arrays of matching length -/
def Grid.WF (g : Grid) : Prop :=
  g.domain.length = g.elements.length ∧ (∀ d ∈ g.domain, d < 4294967296) ∧
    ∀ e ∈ g.elements, e.1 < 4294967296 ∧ e.2.1 < 4294967296 ∧ e.2.2 < 4294967296

/-- complex matrix stored by columns, with numpy's dtype flag -/
structure CMat where
  isComplex : Bool
  cols : List (List (Rat × Rat))
deriving DecidableEq, Repr

structure GridFun where
  grid : Grid
  /-- `space.identifier == "p1"`, the comparison `export` makes to default to node data.  (No space of the library
  carries that identifier — P1 is `"p1_continuous"` — so on real spaces this flag is always `false`; the harness
  reads the compared string from the source and also drives the branch with a stub space.) -/
  isP1 : Bool
  /-- `evaluate_on_vertices()` -/
  vertexValues : CMat
  /-- `evaluate_on_element_centers()` -/
  centerValues : CMat
deriving DecidableEq, Repr

/-! ### transformations (`_transform_array` on 2-D input) -/

/-- exported floating point value: exact rational, or an uninterpreted function of a rational -/
inductive Val where
  | rat (q : Rat)
  | sqrt (q : Rat)
  | logSqrt (q : Rat)
deriving DecidableEq, Repr

/-- transformed matrix by columns: real and imaginary parts and the dtype flag -/
structure TMat where
  isComplex : Bool
  re : List (List Val)
  im : List (List Val)
deriving DecidableEq, Repr

inductive Transform where
  | none
  | real
  | imag
  | abs
  | absSquared
  | logAbs
  /-- a callable -/
  | custom (f : CMat → CMat)
  /-- a string that is none of the known names: the code calls it and raises `TypeError` -/
  | unknown

/-- `np.sum(np.abs(a) ** 2, axis=0)` for one column -/
def absSq (col : List (Rat × Rat)) : Rat := (col.map fun z => z.1 * z.1 + z.2 * z.2).sum

def plain (m : CMat) : TMat :=
  { isComplex := m.isComplex
    re := m.cols.map (·.map fun z => Val.rat z.1)
    im := m.cols.map (·.map fun z => if m.isComplex then Val.rat z.2 else Val.rat 0) }

/-- real-valued result with one value per column entry -/
def realResult (cols : List (List Val)) : TMat :=
  { isComplex := false, re := cols, im := cols.map (·.map fun _ => Val.rat 0) }

def applyTransform : Transform → CMat → Option TMat
  | .none, m => some (plain m)
  | .real, m => some (realResult (m.cols.map (·.map fun z => Val.rat z.1)))
  | .imag, m => some (realResult (m.cols.map (·.map fun z => if m.isComplex then Val.rat z.2 else Val.rat 0)))
  | .abs, m => some (realResult (m.cols.map fun c => [Val.sqrt (absSq c)]))
  | .absSquared, m => some (realResult (m.cols.map fun c => [Val.rat (absSq c)]))
  | .logAbs, m => some (realResult (m.cols.map fun c => [Val.logSqrt (absSq c)]))
  | .custom f, m => some (plain (f m))
  | .unknown, _ => Option.none

/-! ### the record handed to / returned by meshio -/

inductive Block where
  /-- 1-D int32 array -/
  | ints (l : List Int)
  /-- 1-D float64 array -/
  | vec (l : List Val)
  /-- 2-D float64 array, by rows -/
  | mat (rows : List (List Val))
deriving DecidableEq, Repr

/-- numpy `len` -/
def Block.len : Block → Nat
  | .ints l => l.length
  | .vec l => l.length
  | .mat r => r.length

structure CellBlock where
  type : String
  cells : List (List Int)
deriving DecidableEq, Repr

structure MeshRec where
  points : List (List Rat)
  cells : List CellBlock
  pointData : List (String × Block)
  /-- name ↦ list of blocks (meshio iterates over the first axis of whatever it is given) -/
  cellData : List (String × List Block)
  fileFormat : Option String
  binary : Bool
deriving DecidableEq, Repr

/-- the consistency checks of `meshio.Mesh.__init__` -/
def MeshRec.accepted (m : MeshRec) : Bool :=
  m.pointData.all (fun p => p.2.len == m.points.length) &&
  m.cellData.all (fun p => p.2.length == m.cells.length &&
    (p.2.zip m.cells).all fun bc => bc.1.len == bc.2.cells.length)

inductive Err where
  | valueError
  | meshRejected
  | keyError
  | otherError
deriving DecidableEq, Repr

inductive Res (α : Type) where
  | ok (a : α)
  | error (e : Err)
deriving DecidableEq, Repr

inductive DataType where
  | unset
  | node
  | element
  | other
deriving DecidableEq, Repr

/-! ### export -/

def pointOf (v : Rat × Rat × Rat) : List Rat := [v.1, v.2.1, v.2.2]

def cellOf (e : Nat × Nat × Nat) : List Int := [toInt32 (e.1 : Int), toInt32 (e.2.1 : Int), toInt32 (e.2.2 : Int)]

/-- position of `d` in `l` (`l.length` if absent) -/
def pos (d : Nat) : List Nat → Nat
  | [] => 0
  | x :: xs => if x = d then 0 else pos d xs + 1

/-- `geom_indices_map[dom_index]`: 1 + position in the set's iteration order -/
def geomIndices (setOrder : List Nat → List Nat) (dom : List Nat) : List Int :=
  dom.map fun (d : Nat) => toInt32 ((pos d (setOrder dom) + 1 : Nat) : Int)

/-- the iteration order of a Python set: some duplicate-free enumeration of the distinct members -/
def SetOrderSpec (setOrder : List Nat → List Nat) : Prop :=
  ∀ l, (setOrder l).Nodup ∧ ∀ d, d ∈ setOrder l ↔ d ∈ l

def int32s (l : List Nat) : List Int := l.map fun (d : Nat) => toInt32 (d : Int)

/-- default `data_type`: `"node"` if the space identifier is the tested string, `"element"` otherwise -/
def defaultDataType (dt : DataType) (gf : Option GridFun) : DataType :=
  match dt, gf with
  | .unset, some f => if f.isP1 then .node else .element
  | d, _ => d

/-- point data and the data part of the cell data for a grid function -/
def dataFields (dt : DataType) (tr : Transform) (f : GridFun) :
    Res (List (String × Block) × List (String × List Block)) :=
  match dt with
  | .node =>
    match applyTransform tr f.vertexValues with
    | none => .error .otherError
    | some t =>
      if t.isComplex then .ok ([("real", .mat t.re), ("imag", .mat t.im)], [])
      else .ok ([("data", .mat t.re)], [])
  | .element =>
    match applyTransform tr f.centerValues with
    | none => .error .otherError
    | some t =>
      -- every data array is wrapped into a one-block list (`_np.array([...])`)
      if t.isComplex then .ok ([], [("real", [.mat t.re]), ("imag", [.mat t.im])])
      else .ok ([], [("data", [.mat t.re])])
  | _ => .error .valueError

def tagFields (setOrder : List Nat → List Nat) (gmsh : Bool) (g : Grid) : List (String × List Block) :=
  if gmsh then
    [("gmsh:physical", [.ints (int32s g.domain)]), ("gmsh:geometrical", [.ints (geomIndices setOrder g.domain)])]
  else [("domain_index", [.ints (int32s g.domain)])]

/-- the `meshio.write_points_cells` call for grid `g` with the given data fields -/
def assemble (setOrder : List Nat → List Nat) (ext : String) (binary : Bool) (g : Grid)
    (pd : List (String × Block)) (cd : List (String × List Block)) : Res MeshRec :=
  let gmsh := ext == ".msh"
  let m : MeshRec :=
    { points := g.vertices.map pointOf
      cells := [⟨"triangle", g.elements.map cellOf⟩]
      pointData := pd
      cellData := cd ++ tagFields setOrder gmsh g
      fileFormat := if gmsh then some "gmsh22" else none
      binary := binary }
  if m.accepted then .ok m else .error .meshRejected

/-- `export(filename, grid, grid_function, data_type, transformation, write_binary)`: the record passed to
`meshio.write_points_cells`, or the error raised before anything is written.  `ext` is the file extension. -/
def «export» (setOrder : List Nat → List Nat) (ext : String) (grid : Option Grid) (gf : Option GridFun)
    (dt : DataType) (tr : Transform) (binary : Bool) : Res MeshRec :=
  match grid, gf with
  | some _, some _ => .error .valueError
  | none, none => .error .otherError
  | some g, none => assemble setOrder ext binary g [] []
  | none, some f =>
    match dataFields (defaultDataType dt (some f)) tr f with
    | .error e => .error e
    | .ok (pd, cd) => assemble setOrder ext binary f.grid pd cd

/-! ### import -/

/-- `mesh.cells_dict["triangle"]` -/
def trianglesOf (m : MeshRec) : Option (List (List Int)) :=
  let bs := m.cells.filter (·.type == "triangle")
  if bs.isEmpty then none else some (bs.flatMap (·.cells))

/-- `l.map f` if every `f x` is defined -/
def traverse {α β : Type} (f : α → Option β) : List α → Option (List β)
  | [] => some []
  | x :: xs =>
    match f x, traverse f xs with
    | some y, some ys => some (y :: ys)
    | _, _ => none

def blockInts : Block → Option (List Int)
  | .ints l => some l
  | _ => none

/-- `mesh.cell_data_dict[name]["triangle"]` (any failure is caught by the bare `except`) -/
def cellDataOf (m : MeshRec) (name : String) : Option (List Int) :=
  match m.cellData.find? (·.1 == name) with
  | none => none
  | some (_, blocks) =>
    let bs := (blocks.zip m.cells).filter (·.2.type == "triangle")
    if bs.isEmpty then none else (traverse (fun bc => blockInts bc.1) bs).map List.flatten

def tripleOf {α : Type} : List α → Option (α × α × α)
  | [a, b, c] => some (a, b, c)
  | _ => none

/-- physical → geometrical fallback of `import_grid` -/
def chooseDomain (phys geom : Option (List Int)) : Option (List Int) :=
  match phys with
  | some p => if p.all (· == 0) then (match geom with | some q => some q | none => some p) else some p
  | none => geom

/-- `import_grid(filename)` applied to the record the reader returns -/
def importGrid (m : MeshRec) : Res Grid :=
  match trianglesOf m with
  | none => .error .keyError
  | some tris =>
    let dom := chooseDomain (cellDataOf m "gmsh:physical") (cellDataOf m "gmsh:geometrical")
    match traverse tripleOf m.points, traverse tripleOf tris with
    | some vs, some es =>
      .ok { vertices := vs
            elements := es.map fun e => (toUInt32 e.1, toUInt32 e.2.1, toUInt32 e.2.2)
            domain := match dom with
              | some d => d.map toUInt32
              | none => es.map fun _ => 0 }
    | _, _ => .error .otherError

end BemppVerif.Model.IOMap
