/-
Model of the operator / grid-function / potential algebra of bempp-cl (Mathlib-free, executable).

Mirrors, for a finite pool of assembled leaves,
* `bempp_cl/api/assembly/boundary_operator.py`   (`__add__/__sub__/__neg__/__mul__/__rmul__/__matmul__`, `_Sum/_Scaled/_Product`,
  `weak_form`, `strong_form`),
* `discrete_boundary_operator.py`  (class dispatch Sparse/Dense/lazy `_Sum/_Scaled/_Product`, by-parts application of real
  operators to complex vectors, `to_dense`, `_transpose/_adjoint`),
* `blocked_operator.py` (`BlockedOperator.__setitem__`, `Sum/Product/ScaledBlockedOperator`, `BlockedDiscreteOperator`,
  application to a list of grid functions incl. `coefficients_from_grid_functions_list` and
  `grid_function_list_from_projections`),
* `potential_operator.py`, `grid_function.py` (arithmetic, primal/dual representation).

Conventions
* A *space id* is a natural number; equal ids model `Space.is_compatible` / `Space.__eq__` (hash equality).
* Laziness is modelled by carrying in every operator value the would-be result of `weak_form()`
  (`Except Err (DOp R)`): construction-time checks raise at construction, assembly-time errors when forced.
* Errors are the Python exception classes the code raises (`Err`).  `scope` marks operand combinations that are outside
  the modelled language (NumPy arrays as operands, NumPy scalars combined with Python lists, ...).
* Vectors/matrices are lists; additions are zero-padding (`vadd`), so the linear-algebra laws hold without shape
  side conditions; on well-shaped data (all reachable states, see `Props/C14.lean`) they are the usual operations.
-/
namespace BemppVerif.Model.Alg

/-- Python exception classes (plus `scope`: outside the modelled language). -/
inductive Err where
  | value | type | attr | index | notImpl | noInverse | scope
  deriving DecidableEq, Repr, Inhabited

def Err.name : Err → String
  | .value => "value-error" | .type => "type-error" | .attr => "attribute-error" | .index => "index-error"
  | .notImpl => "not-implemented" | .noInverse => "no-inverse" | .scope => "out-of-scope"

abbrev Vec (R : Type) := List R
abbrev Mat (R : Type) := List (List R)

/-- real part, imaginary part, imaginary unit, conjugation of the scalar type -/
class CParts (R : Type) where
  re : R → R
  im : R → R
  I : R
  conj : R → R

/-! ## Linear algebra on lists -/
section LinAlg
variable {R : Type} [Zero R] [Add R] [Mul R]

/-- zero-padding addition -/
def vadd : Vec R → Vec R → Vec R
  | [], v => v
  | u, [] => u
  | a :: u, b :: v => (a + b) :: vadd u v

def vsmul (c : R) (v : Vec R) : Vec R := v.map (c * ·)

def dot : Vec R → Vec R → R
  | a :: u, b :: v => a * b + dot u v
  | _, _ => 0

def mulVec (A : Mat R) (x : Vec R) : Vec R := A.map (dot · x)

def madd : Mat R → Mat R → Mat R
  | [], B => B
  | A, [] => A
  | a :: A, b :: B => vadd a b :: madd A B

def msmul (c : R) (A : Mat R) : Mat R := A.map (vsmul c)

/-- row vector times matrix with `n` columns: `Σ_k r_k · B_k` -/
def vecMat : Vec R → Mat R → Nat → Vec R
  | a :: r, b :: B, n => vadd (vsmul a b) (vecMat r B n)
  | _, _, n => List.replicate n 0

/-- matrix product; `n` = number of columns of `B` -/
def mmul (A B : Mat R) (n : Nat) : Mat R := A.map (vecMat · B n)

def zeroMat (m n : Nat) : Mat R := List.replicate m (List.replicate n 0)

/-- transpose of a matrix with `n` columns -/
def transposeM (A : Mat R) (n : Nat) : Mat R := (List.range n).map fun j => A.map (·.getD j 0)

/-- horizontal concatenation of blocks with `m` rows each (`np.hstack`) -/
def hcat : List (Mat R) → Nat → Mat R
  | [], m => List.replicate m []
  | A :: As, m => List.zipWith (· ++ ·) A (hcat As m)

/-- `x[0:d0], x[d0:d0+d1], ...` -/
def splitBy : List Nat → Vec R → List (Vec R)
  | [], _ => []
  | d :: ds, x => x.take d :: splitBy ds (x.drop d)

variable [CParts R]

/-- `A·Re x + i·(A·Im x)`: how a real operator is applied to a complex vector -/
def mulVecParts (A : Mat R) (x : Vec R) : Vec R :=
  vadd (mulVec A (x.map CParts.re)) (vsmul CParts.I (mulVec A (x.map CParts.im)))

/-- application of a stored matrix with dtype flag `c` to a vector with dtype flag `xc` -/
def applyMat (c : Bool) (M : Mat R) (xc : Bool) (x : Vec R) : Vec R :=
  if !c && xc then mulVecParts M x else mulVec M x

end LinAlg

/-! ## Discrete operators -/

/-- concrete discrete classes: Sparse, Dense, InverseSparse -/
inductive Cls where
  | sparse | dense | inv
  deriving DecidableEq, Repr

/-- Discrete operator objects.  `leaf` = Sparse/Dense/InverseSparse (stored matrix, for `inv` the inverse),
`blocked` = BlockedDiscreteOperator (every block by its dtype flag and dense matrix, `None` already replaced by zero
operators), `sum/prod/scaled` = the lazy `_Sum/_Product/_ScaledDiscreteOperator`. -/
inductive DOp (R : Type) where
  | leaf (k : Cls) (c : Bool) (r n : Nat) (M : Mat R)
  | blocked (c : Bool) (rd cd : List Nat) (blocks : List (List (Bool × Mat R)))
  | sum (a b : DOp R)
  | prod (a b : DOp R)
  | scaled (a : DOp R) (alpha : R) (ac : Bool)

section DOps
variable {R : Type} [Zero R] [One R] [Add R] [Mul R] [Neg R] [CParts R]

def DOp.rows : DOp R → Nat
  | .leaf _ _ r _ _ => r
  | .blocked _ rd _ _ => rd.sum
  | .sum a _ => a.rows
  | .prod a _ => a.rows
  | .scaled a _ _ => a.rows

def DOp.cols : DOp R → Nat
  | .leaf _ _ _ n _ => n
  | .blocked _ _ cd _ => cd.sum
  | .sum a _ => a.cols
  | .prod _ b => b.cols
  | .scaled a _ _ => a.cols

/-- dtype flag (`true` = complex128) -/
def DOp.cplx : DOp R → Bool
  | .leaf _ c _ _ _ => c
  | .blocked c _ _ _ => c
  | .sum a b => a.cplx || b.cplx
  | .prod a b => a.cplx || b.cplx
  | .scaled a _ ac => a.cplx || ac

/-- class for dispatch: `some sparse/dense` for the two classes with collapsing arithmetic and transposes -/
def DOp.conc : DOp R → Option Cls
  | .leaf .sparse _ _ _ _ => some .sparse
  | .leaf .dense _ _ _ _ => some .dense
  | _ => none

def blockRowMv (xc : Bool) : List (Bool × Mat R) → List (Vec R) → Nat → Vec R
  | b :: bs, x :: xs, rdim => vadd (applyMat b.1 b.2 xc x) (blockRowMv xc bs xs rdim)
  | _, _, rdim => List.replicate rdim 0

def blockedMv (xc : Bool) (cd : List Nat) : List (List (Bool × Mat R)) → List Nat → Vec R → Vec R
  | row :: rows, r :: rd, x => blockRowMv xc row (splitBy cd x) r ++ blockedMv xc cd rows rd x
  | _, _, _ => []

def blockedDense : List (List (Bool × Mat R)) → List Nat → Mat R
  | row :: rows, r :: rd => hcat (row.map (·.2)) r ++ blockedDense rows rd
  | _, _ => []

/-- `to_dense()` -/
def DOp.toDense : DOp R → Mat R
  | .leaf _ _ _ _ M => M
  | .blocked _ rd _ blocks => blockedDense blocks rd
  | .sum a b => madd a.toDense b.toDense
  | .prod a b => mmul a.toDense b.toDense b.cols
  | .scaled a alpha _ => msmul alpha a.toDense

/-- `op @ x` for a vector `x` whose dtype flag is `xc` -/
def DOp.matvec : DOp R → Bool → Vec R → Vec R
  | .leaf _ c _ _ M, xc, x => applyMat c M xc x
  | .blocked _ rd cd blocks, xc, x => blockedMv xc cd blocks rd x
  | .sum a b, xc, x => vadd (a.matvec xc x) (b.matvec xc x)
  | .prod a b, xc, x => a.matvec (b.cplx || xc) (b.matvec xc x)
  | .scaled a alpha _, xc, x => vsmul alpha (a.matvec xc x)

/-- `a + b` on discrete operators: Sparse + Sparse and Dense + Dense collapse to one stored matrix, everything else is
a lazy `_SumDiscreteOperator` (which checks the shapes) -/
def dAdd (a b : DOp R) : Except Err (DOp R) :=
  if a.rows = b.rows ∧ a.cols = b.cols then
    match a.conc, b.conc with
    | some .sparse, some .sparse => .ok (.leaf .sparse (a.cplx || b.cplx) a.rows a.cols (madd a.toDense b.toDense))
    | some .dense, some .dense => .ok (.leaf .dense (a.cplx || b.cplx) a.rows a.cols (madd a.toDense b.toDense))
    | _, _ => .ok (.sum a b)
  else .error .value

/-- `a * b` / `a @ b` on discrete operators -/
def dMul (a b : DOp R) : Except Err (DOp R) :=
  if a.cols = b.rows then
    match a.conc, b.conc with
    | some .sparse, some .sparse => .ok (.leaf .sparse (a.cplx || b.cplx) a.rows b.cols (mmul a.toDense b.toDense b.cols))
    | some .dense, some .dense => .ok (.leaf .dense (a.cplx || b.cplx) a.rows b.cols (mmul a.toDense b.toDense b.cols))
    | _, _ => .ok (.prod a b)
  else .error .value

/-- `alpha * a` / `a * alpha` -/
def dScale (alpha : R) (ac : Bool) (a : DOp R) : DOp R :=
  match a.conc with
  | some k => .leaf k (a.cplx || ac) a.rows a.cols (msmul alpha a.toDense)
  | none => .scaled a alpha ac

/-- `-a` -/
def dNeg (a : DOp R) : DOp R :=
  match a.conc with
  | some k => .leaf k a.cplx a.rows a.cols (msmul (-1) a.toDense)
  | none => .scaled a (-1) false

/-- `.transpose()`; only Sparse and Dense implement `_transpose` -/
def dTranspose (a : DOp R) : Except Err (DOp R) :=
  match a.conc with
  | some k => .ok (.leaf k a.cplx a.cols a.rows (transposeM a.toDense a.cols))
  | none => .error .notImpl

/-- `.adjoint()` -/
def dAdjoint (a : DOp R) : Except Err (DOp R) :=
  match a.conc with
  | some k => .ok (.leaf k a.cplx a.cols a.rows ((transposeM a.toDense a.cols).map (·.map CParts.conj)))
  | none => .error .notImpl

end DOps

/-! ## Potential operators -/

inductive PTree (R : Type) where
  | leaf (c : Bool) (M : Mat R)
  | scaled (t : PTree R) (alpha : R) (ac : Bool)
  | sum (a b : PTree R)

section PTrees
variable {R : Type} [Zero R] [Add R] [Mul R] [CParts R]

def PTree.cplx : PTree R → Bool
  | .leaf c _ => c
  | .scaled t _ ac => t.cplx || ac
  | .sum a b => a.cplx || b.cplx

/-- `evaluate(grid_fun)` on the coefficient vector `x` with dtype flag `xc` -/
def PTree.eval : PTree R → Bool → Vec R → Vec R
  | .leaf c M, xc, x => applyMat c M xc x
  | .scaled t alpha _, xc, x => vsmul alpha (t.eval xc x)
  | .sum a b, xc, x => vadd (a.eval xc x) (b.eval xc x)

end PTrees

/-! ## Pool, values, expressions -/

structure OpLeaf (R : Type) where
  dom : Nat
  ran : Nat
  dual : Nat
  dense : Bool
  c : Bool
  mat : Mat R

structure GfLeaf (R : Type) where
  space : Nat
  /-- `some d`: given by projections onto `d`; `none`: given by coefficients -/
  dual : Option Nat
  c : Bool
  data : Vec R

structure PotLeaf (R : Type) where
  space : Nat
  ncomp : Nat
  pts : Nat
  c : Bool
  mat : Mat R

structure Pool (R : Type) where
  /-- `global_dof_count` of every space id -/
  ndofs : List Nat
  /-- number of points of every point-set id -/
  npts : List Nat
  ops : List (OpLeaf R)
  gfs : List (GfLeaf R)
  pots : List (PotLeaf R)
  /-- dense inverse (or pseudo-inverse) mass matrix of a (range, dual) pair -/
  minv : List (Nat × Nat × Mat R)

inductive Expr (R : Type) where
  | sc (c np : Bool) (v : R)
  | op (i : Nat)
  | gf (i : Nat)
  | pot (i : Nat)
  | add (a b : Expr R)
  | sub (a b : Expr R)
  | mul (a b : Expr R)
  | matmul (a b : Expr R)
  | neg (a : Expr R)
  | weak (a : Expr R)
  | strong (a : Expr R)
  | transpose (a : Expr R)
  | adjoint (a : Expr R)
  | blkEmpty (m n : Nat)
  | blkSet (k : Expr R) (i j : Nat) (o : Expr R)
  | lnil
  | lcons (g l : Expr R)

/-- BoundaryOperator object: its three spaces and what `weak_form()` will return / raise -/
structure BOpV (R : Type) where
  dom : Nat
  ran : Nat
  dual : Nat
  wf : Except Err (DOp R)

structure GfV (R : Type) where
  space : Nat
  dual : Option Nat
  c : Bool
  data : Vec R

structure PotV (R : Type) where
  space : Nat
  ncomp : Nat
  pts : Nat
  t : PTree R

/-- what a block contributes to `BlockedDiscreteOperator`: dtype flag and dense matrix of its weak form (or the error
its `weak_form()` raises) -/
abbrev BlockF (R : Type) := Except Err (Bool × Mat R)

/-- Blocked operator object.  `log = some l` for a `BlockedOperator` array (`l` = the assignments `(i, j, block)`, newest
first), `none` for Sum/Product/ScaledBlockedOperator. -/
structure BlkV (R : Type) where
  doms : List (Option Nat)
  rans : List (Option Nat)
  duals : List (Option Nat)
  log : Option (List (Nat × Nat × BlockF R))
  wf : Except Err (DOp R)

inductive Obj (R : Type) where
  | scalar (c np : Bool) (v : R)
  | bop (b : BOpV R)
  | gf (g : GfV R)
  | pot (p : PotV R)
  | blk (k : BlkV R)
  | gfl (l : List (GfV R))
  | arr (c : Bool) (v : Vec R)
  | dop (d : DOp R)

section Eval
variable {R : Type} [Zero R] [One R] [Add R] [Mul R] [Neg R] [CParts R]

def Pool.ndof (p : Pool R) (s : Nat) : Nat := p.ndofs.getD s 0
def Pool.npt (p : Pool R) (s : Nat) : Nat := p.npts.getD s 0

def Pool.minvMat (p : Pool R) (r d : Nat) : Option (Mat R) :=
  (p.minv.find? fun e => e.1 == r && e.2.1 == d).map (·.2.2)

/-- `get_inverse_mass_matrix(range, dual)` -/
def minvOp (p : Pool R) (r d : Nat) : Except Err (DOp R) :=
  match p.minvMat r d with
  | some M => .ok (.leaf .inv false (p.ndof r) (p.ndof d) M)
  | none => .error .noInverse

/-- `GridFunction.coefficients` -/
def gfCoeffs (p : Pool R) (g : GfV R) : Except Err (Vec R) :=
  match g.dual with
  | none => .ok g.data
  | some d => do
    let m ← minvOp p g.space d
    pure (m.matvec g.c g.data)

/-- `strong_form()` of a boundary operator: `range_map * weak_form()` -/
def strongB (p : Pool R) (b : BOpV R) : Except Err (DOp R) := do
  let m ← minvOp p b.ran b.dual
  let w ← b.wf
  dMul m w

/-! ### blocked operators -/

/-- Python's `tuple != tuple` on tuples of spaces / `None` (`Space.__eq__(None)` raises AttributeError) -/
def cmpSpaces : List (Option Nat) → List (Option Nat) → Except Err Bool
  | [], [] => .ok true
  | [], _ :: _ => .ok false
  | _ :: _, [] => .ok false
  | none :: as, none :: bs => cmpSpaces as bs
  | some a :: as, some b :: bs => if a = b then cmpSpaces as bs else .ok false
  | _ :: _, _ :: _ => .error .attr

def allSome : List (Option Nat) → Bool
  | [] => true
  | none :: _ => false
  | some _ :: l => allSome l

def dimsOf (p : Pool R) (l : List (Option Nat)) : List Nat := l.map fun s => p.ndof (s.getD 0)

/-- newest assignment to position `(i, j)` -/
def logGet {α : Type} : List (Nat × Nat × α) → Nat → Nat → Option α
  | [], _, _ => none
  | (i', j', b) :: l, i, j => if i' = i ∧ j' = j then some b else logGet l i j

/-- blocks of block row `i`, columns `j, j+1, ...` (`cd` = remaining column dims): the first failing block raises -/
def forceRow (log : List (Nat × Nat × BlockF R)) (i : Nat) (r : Nat) : Nat → List Nat → Except Err (List (Bool × Mat R))
  | _, [] => .ok []
  | j, d :: cd => do
    let b ← match logGet log i j with
      | none => pure (false, zeroMat r d)
      | some f => f
    let rest ← forceRow log i r (j + 1) cd
    pure (b :: rest)

def forceRows (log : List (Nat × Nat × BlockF R)) (cd : List Nat) : Nat → List Nat → Except Err (List (List (Bool × Mat R)))
  | _, [] => .ok []
  | i, r :: rd => do
    let row ← forceRow log i r 0 cd
    let rest ← forceRows log cd (i + 1) rd
    pure (row :: rest)

def anyCplx (blocks : List (List (Bool × Mat R))) : Bool := blocks.any fun row => row.any (·.1)

/-- `BlockedOperator._assemble` -/
def assembleBlk (p : Pool R) (doms duals : List (Option Nat)) (log : List (Nat × Nat × BlockF R)) :
    Except Err (DOp R) :=
  if allSome doms && allSome duals then do
    let rd := dimsOf p duals
    let cd := dimsOf p doms
    let blocks ← forceRows log cd 0 rd
    pure (.blocked (anyCplx blocks) rd cd blocks)
  else .error .value

/-- diagonal `BlockedDiscreteOperator` of inverse mass matrices (`strong_form` of a blocked operator) -/
def rangeOps (p : Pool R) : List (Option Nat) → List (Option Nat) → Except Err (List (Mat R))
  | some r :: rans, some d :: duals => do
    let M ← match p.minvMat r d with
      | some M => pure M
      | none => throw Err.noInverse
    let rest ← rangeOps p rans duals
    pure (M :: rest)
  | [], _ => .ok []
  | _, _ => .error .attr

/-- block rows of the diagonal operator (`Ms[i]` at `(i, i)`, zero operators elsewhere), built recursively:
first row = `M` followed by zero blocks, the remaining rows = a zero block followed by the rows of the rest -/
def diagBlocks : List Nat → List Nat → List (Mat R) → List (List (Bool × Mat R))
  | r :: rd, d :: cd, M :: Ms =>
    ((false, M) :: cd.map fun d' => (false, zeroMat r d')) ::
      List.zipWith (fun r' row => (false, zeroMat r' d) :: row) rd (diagBlocks rd cd Ms)
  | _, _, _ => []

def strongK (p : Pool R) (k : BlkV R) : Except Err (DOp R) := do
  let Ms ← rangeOps p k.rans k.duals
  let rd := dimsOf p k.rans
  let cd := dimsOf p k.duals
  let w ← k.wf
  dMul (.blocked false rd cd (diagBlocks rd cd Ms)) w

def blockOf (b : BOpV R) : BlockF R := b.wf.map fun d => (d.cplx, d.toDense)

/-- `K[i, j] = o` on a `BlockedOperator` -/
def blkSetV (p : Pool R) (k : Obj R) (i j : Nat) (o : Obj R) : Except Err (Obj R) :=
  match k, o with
  | .arr _ _, _ => .error .scope
  | _, .arr _ _ => .error .scope
  | .blk kb, o =>
    match kb.log with
    | none => .error .type
    | some log =>
      if i < kb.rans.length then
        match o with
        | .bop b =>
          if (kb.rans.getD i none).all (· == b.ran) && (kb.duals.getD i none).all (· == b.dual) then
            if j < kb.doms.length then
              if (kb.doms.getD j none).all (· == b.dom) then
                let doms := kb.doms.set j (some b.dom)
                let rans := kb.rans.set i (some b.ran)
                let duals := kb.duals.set i (some b.dual)
                let log' := (i, j, blockOf b) :: log
                .ok (.blk ⟨doms, rans, duals, some log', assembleBlk p doms duals log'⟩)
              else .error .value
            else .error .index
          else .error .value
        | _ =>
          if (kb.rans.getD i none).isSome then .error .attr
          else if j < kb.doms.length then .error .attr else .error .index
      else .error .index
  | _, _ => .error .type

/-- `K * [g0, g1, ...]` -/
def checkSpaces : List (Option Nat) → List (GfV R) → Except Err Unit
  | some s :: doms, g :: gs => if s = g.space then checkSpaces doms gs else .error .value
  | none :: _, _ :: _ => .error .attr
  | _, _ => .ok ()

def coeffsList (p : Pool R) : List (GfV R) → Except Err (Vec R)
  | [] => .ok []
  | g :: gs => do
    let c ← gfCoeffs p g
    let rest ← coeffsList p gs
    pure (c ++ rest)

/-- `grid_function_list_from_projections`: slices by the dof counts of the DUAL spaces -/
def gfsFromProjections (p : Pool R) (c : Bool) : List (Option Nat) → List (Option Nat) → Vec R → List (GfV R)
  | some r :: rans, some d :: duals, x => ⟨r, some d, c, x.take (p.ndof d)⟩ :: gfsFromProjections p c rans duals (x.drop (p.ndof d))
  | _, _, _ => []

def blkApply (p : Pool R) (k : BlkV R) (l : List (GfV R)) : Except Err (Obj R) :=
  if l.length = k.doms.length then do
    checkSpaces k.doms l
    let w ← k.wf
    let x ← coeffsList p l
    let xc := l.any (·.c)
    pure (.gfl (gfsFromProjections p (w.cplx || xc) k.rans k.duals (w.matvec xc x)))
  else .error .value

/-! ### the Python operators -/

/-- `g1 + g2` (spaces already checked) -/
def gfAdd (p : Pool R) (a b : GfV R) : Except Err (GfV R) :=
  match a.dual, b.dual with
  | some d1, some d2 =>
    if d1 = d2 then .ok ⟨a.space, some d1, a.c || b.c, vadd a.data b.data⟩
    else do
      let x ← gfCoeffs p a
      let y ← gfCoeffs p b
      pure ⟨a.space, none, a.c || b.c, vadd x y⟩
  | _, _ => do
    let x ← gfCoeffs p a
    let y ← gfCoeffs p b
    pure ⟨a.space, none, a.c || b.c, vadd x y⟩

def gfScale (alpha : R) (ac : Bool) (g : GfV R) : GfV R := ⟨g.space, g.dual, g.c || ac, vsmul alpha g.data⟩

def bScale (alpha : R) (ac : Bool) (b : BOpV R) : BOpV R := ⟨b.dom, b.ran, b.dual, b.wf.map (dScale alpha ac)⟩

def kScale (alpha : R) (ac : Bool) (k : BlkV R) : BlkV R :=
  ⟨k.doms, k.rans, k.duals, none, k.wf.map (dScale alpha ac)⟩

/-- is the result of `scalar ∘ scalar` a NumPy scalar?  `np.float64` is a subclass of Python's `float`, so
`complex.__add__(np.float64)` succeeds and returns a Python `complex`; in every other mixed case NumPy's (reflected)
operator runs. -/
def scNp (c1 n1 c2 n2 : Bool) : Bool := if c1 && !n1 && !c2 && n2 then false else n1 || n2

/-- unary minus -/
def negV : Obj R → Except Err (Obj R)
  | .scalar c np v => .ok (.scalar c np ((-1) * v))
  | .bop b => .ok (.bop (bScale (-1) false b))
  | .gf g => .ok (.gf (gfScale (-1) false g))
  | .pot q => .ok (.pot ⟨q.space, q.ncomp, q.pts, .scaled q.t (-1) false⟩)
  | .blk k => .ok (.blk (kScale (-1) false k))
  | .gfl _ => .error .type
  | .arr _ _ => .error .scope
  | .dop d => .ok (.dop (dNeg d))

def addV (p : Pool R) : Obj R → Obj R → Except Err (Obj R)
  | .arr _ _, _ => .error .scope
  | _, .arr _ _ => .error .scope
  | .scalar c1 n1 v1, .scalar c2 n2 v2 => .ok (.scalar (c1 || c2) (scNp c1 n1 c2 n2) (v1 + v2))
  | .scalar _ np _, .gfl _ => if np then .error .scope else .error .type
  | .scalar _ _ _, _ => .error .type
  | .bop a, .bop b =>
    if a.dom = b.dom ∧ a.ran = b.ran ∧ a.dual = b.dual then
      .ok (.bop ⟨a.dom, a.ran, a.dual, do let x ← a.wf; let y ← b.wf; dAdd x y⟩)
    else .error .value
  | .bop _, _ => .error .attr
  | .gf a, .gf b => if a.space = b.space then (gfAdd p a b).map .gf else .error .value
  | .gf a, .pot q => if a.space = q.space then .error .attr else .error .value
  | .gf _, _ => .error .attr
  | .pot a, .pot b =>
    if a.ncomp = b.ncomp ∧ a.pts = b.pts ∧ a.space = b.space then
      .ok (.pot ⟨a.space, a.ncomp, a.pts, .sum a.t b.t⟩)
    else .error .value
  | .pot a, .gf _ => if a.ncomp = 1 then .error .attr else .error .value
  | .pot _, _ => .error .attr
  | .blk a, .blk b => do
    let e1 ← cmpSpaces a.doms b.doms
    if e1 then
      let e2 ← cmpSpaces a.rans b.rans
      if e2 then
        let e3 ← cmpSpaces a.duals b.duals
        if e3 then
          pure (.blk ⟨a.doms, a.rans, a.duals, none, do let x ← a.wf; let y ← b.wf; dAdd x y⟩)
        else throw .value
      else throw .value
    else throw .value
  | .blk _, _ => .error .type
  | .gfl a, .gfl b => .ok (.gfl (a ++ b))
  | .gfl _, .scalar _ np _ => if np then .error .scope else .error .type
  | .gfl _, _ => .error .type
  | .dop a, .dop b => (dAdd a b).map .dop
  | .dop _, _ => .error .type

/-- `x - y`: every class except GridFunction negates `y` first and then adds -/
def subV (p : Pool R) : Obj R → Obj R → Except Err (Obj R)
  | .arr _ _, _ => .error .scope
  | _, .arr _ _ => .error .scope
  | .scalar c1 n1 v1, .scalar c2 n2 v2 => .ok (.scalar (c1 || c2) (scNp c1 n1 c2 n2) (v1 + (-1) * v2))
  | .scalar _ np _, .gfl _ => if np then .error .scope else .error .type
  | .scalar _ _ _, _ => .error .type
  | .gf a, .gf b => if a.space = b.space then (gfAdd p a (gfScale (-1) false b)).map .gf else .error .value
  | .gf a, .pot q => if a.space = q.space then .error .attr else .error .value
  | .gf _, _ => .error .attr
  | .gfl _, .scalar _ np _ => if np then .error .scope else .error .type
  | .gfl _, _ => .error .type
  | x, y => do
    let ny ← negV y
    addV p x ny

/-- scalar times object (`alpha * y` and `y * alpha`) -/
def scaleV (c np : Bool) (v : R) : Obj R → Except Err (Obj R)
  | .scalar c2 n2 v2 => .ok (.scalar (c || c2) (scNp c np c2 n2) (v * v2))
  | .bop b => .ok (.bop (bScale v c b))
  | .gf g => .ok (.gf (gfScale v c g))
  | .pot q => .ok (.pot ⟨q.space, q.ncomp, q.pts, .scaled q.t v c⟩)
  | .blk k => .ok (.blk (kScale v c k))
  | .gfl _ => if np then .error .scope else .error .type
  | .arr _ _ => .error .scope
  | .dop d => .ok (.dop (dScale v c d))

/-- `x * y` (`mm = false`) and `x @ y` (`mm = true`) -/
def mulV (p : Pool R) (mm : Bool) : Obj R → Obj R → Except Err (Obj R)
  | .arr _ _, _ => .error .scope
  | _, .arr _ _ => .error .scope
  | .scalar c np v, y =>
    if mm then
      match y with
      | .dop _ => .error .value
      | .gfl _ => if np then .error .scope else .error .type
      | _ => .error .type
    else scaleV c np v y
  | .bop a, .scalar c np v => scaleV c np v (.bop a)
  | .bop a, .bop b =>
    if b.ran = a.dom then
      .ok (.bop ⟨b.dom, a.ran, a.dual, do let x ← a.wf; let s ← strongB p b; dMul x s⟩)
    else .error .value
  | .bop a, .gf g =>
    if a.dom = g.space then do
      let w ← a.wf
      let x ← gfCoeffs p g
      pure (.gf ⟨a.ran, some a.dual, w.cplx || g.c, w.matvec g.c x⟩)
    else .error .value
  | .bop _, _ => .error .type
  | .gf g, .scalar c np v => if mm then .error .type else scaleV c np v (.gf g)
  | .gf _, _ => .error .type
  | .pot q, .scalar c np v => scaleV c np v (.pot q)
  | .pot q, .gf g =>
    if q.space = g.space then do
      let x ← gfCoeffs p g
      pure (.arr (q.t.cplx || g.c) (q.t.eval g.c x))
    else .error .value
  | .pot _, _ => .error .type
  | .blk k, .scalar c np v => scaleV c np v (.blk k)
  | .blk a, .blk b => do
    let e ← cmpSpaces b.rans a.doms
    if e then
      pure (.blk ⟨b.doms, a.rans, a.duals, none, do let x ← a.wf; let s ← strongK p b; dMul x s⟩)
    else throw .value
  | .blk k, .gfl l => blkApply p k l
  | .blk _, _ => .error .type
  | .gfl _, .scalar _ np _ => if np then .error .scope else .error .type
  | .gfl _, _ => .error .type
  | .dop d, .scalar c np v => if mm then .error .value else scaleV c np v (.dop d)
  | .dop a, .dop b => (dMul a b).map .dop
  | .dop _, _ => .error .value

def weakV : Obj R → Except Err (Obj R)
  | .bop b => b.wf.map .dop
  | .blk k => k.wf.map .dop
  | .arr _ _ => .error .scope
  | _ => .error .attr

def strongV (p : Pool R) : Obj R → Except Err (Obj R)
  | .bop b => (strongB p b).map .dop
  | .blk k => (strongK p k).map .dop
  | .arr _ _ => .error .scope
  | _ => .error .attr

def transposeV : Obj R → Except Err (Obj R)
  | .dop d => (dTranspose d).map .dop
  | .scalar c np v => if np then .ok (.scalar c np v) else .error .attr
  | .arr _ _ => .error .scope
  | _ => .error .attr

def adjointV : Obj R → Except Err (Obj R)
  | .dop d => (dAdjoint d).map .dop
  | .arr _ _ => .error .scope
  | _ => .error .attr

def lconsV : Obj R → Obj R → Except Err (Obj R)
  | .gf g, .gfl l => .ok (.gfl (g :: l))
  | _, _ => .error .scope

def opLeafV (l : OpLeaf R) (p : Pool R) : BOpV R :=
  ⟨l.dom, l.ran, l.dual, .ok (.leaf (if l.dense then .dense else .sparse) l.c (p.ndof l.dual) (p.ndof l.dom) l.mat)⟩

/-- The interpreter: what the Python expression evaluates to (`.error` = the exception it raises). -/
def eval (p : Pool R) : Expr R → Except Err (Obj R)
  | .sc c np v => .ok (.scalar c np v)
  | .op i => match p.ops[i]? with
    | some l => .ok (.bop (opLeafV l p))
    | none => .error .scope
  | .gf i => match p.gfs[i]? with
    | some l => .ok (.gf ⟨l.space, l.dual, l.c, l.data⟩)
    | none => .error .scope
  | .pot i => match p.pots[i]? with
    | some l => .ok (.pot ⟨l.space, l.ncomp, l.pts, .leaf l.c l.mat⟩)
    | none => .error .scope
  | .add a b => do let x ← eval p a; let y ← eval p b; addV p x y
  | .sub a b => do let x ← eval p a; let y ← eval p b; subV p x y
  | .mul a b => do let x ← eval p a; let y ← eval p b; mulV p false x y
  | .matmul a b => do let x ← eval p a; let y ← eval p b; mulV p true x y
  | .neg a => do let x ← eval p a; negV x
  | .weak a => do let x ← eval p a; weakV x
  | .strong a => do let x ← eval p a; strongV p x
  | .transpose a => do let x ← eval p a; transposeV x
  | .adjoint a => do let x ← eval p a; adjointV x
  | .blkEmpty m n =>
    if 0 < m ∧ 0 < n then
      .ok (.blk ⟨List.replicate n none, List.replicate m none, List.replicate m none, some [],
                 assembleBlk p (List.replicate n none) (List.replicate m none) []⟩)
    else .error .scope
  | .blkSet k i j o => do let x ← eval p k; let y ← eval p o; blkSetV p x i j y
  | .lnil => .ok (.gfl [])
  | .lcons g l => do let x ← eval p g; let y ← eval p l; lconsV x y

end Eval

/-! ## Types: the compatibility rules without the numbers -/

/-- type of a discrete operator: dispatch class, dtype flag, shape -/
structure DTy where
  conc : Option Cls
  c : Bool
  r : Nat
  n : Nat
  deriving DecidableEq, Repr

inductive Ty where
  | scalar (c np : Bool)
  /-- boundary operator: spaces and the type / error of its weak form -/
  | bop (dom ran dual : Nat) (wf : Except Err DTy)
  | gf (space : Nat) (dual : Option Nat) (c : Bool)
  | pot (space ncomp pts : Nat) (c : Bool)
  | blk (doms rans duals : List (Option Nat)) (log : Option (List (Nat × Nat × Except Err Bool))) (wf : Except Err DTy)
  | gfl (l : List (Nat × Option Nat × Bool))
  | arr (c : Bool)
  | dop (t : DTy)

section Typing
variable {R : Type}

def concAdd : Option Cls → Option Cls → Option Cls
  | some .sparse, some .sparse => some .sparse
  | some .dense, some .dense => some .dense
  | _, _ => none

def dAddT (a b : DTy) : Except Err DTy :=
  if a.r = b.r ∧ a.n = b.n then .ok ⟨concAdd a.conc b.conc, a.c || b.c, a.r, a.n⟩ else .error .value

def dMulT (a b : DTy) : Except Err DTy :=
  if a.n = b.r then .ok ⟨concAdd a.conc b.conc, a.c || b.c, a.r, b.n⟩ else .error .value

def dScaleT (ac : Bool) (a : DTy) : DTy := ⟨a.conc, a.c || ac, a.r, a.n⟩

def dTransposeT (a : DTy) : Except Err DTy :=
  match a.conc with
  | some k => .ok ⟨some k, a.c, a.n, a.r⟩
  | none => .error .notImpl

def minvT (p : Pool R) (r d : Nat) : Except Err DTy :=
  match p.minvMat r d with
  | some _ => .ok ⟨none, false, p.ndof r, p.ndof d⟩
  | none => .error .noInverse

/-- can `.coefficients` be computed? -/
def coeffsT (p : Pool R) (space : Nat) (dual : Option Nat) : Except Err Unit :=
  match dual with
  | none => .ok ()
  | some d => (minvT p space d).map fun _ => ()

def strongBT (p : Pool R) (ran dual : Nat) (wf : Except Err DTy) : Except Err DTy := do
  let m ← minvT p ran dual
  let w ← wf
  dMulT m w

def forceRowT (log : List (Nat × Nat × Except Err Bool)) (i : Nat) : Nat → List Nat → Except Err (List Bool)
  | _, [] => .ok []
  | j, _ :: cd => do
    let b ← match logGet log i j with
      | none => pure false
      | some f => f
    let rest ← forceRowT log i (j + 1) cd
    pure (b :: rest)

def forceRowsT (log : List (Nat × Nat × Except Err Bool)) (cd : List Nat) : Nat → List Nat → Except Err (List (List Bool))
  | _, [] => .ok []
  | i, _ :: rd => do
    let row ← forceRowT log i 0 cd
    let rest ← forceRowsT log cd (i + 1) rd
    pure (row :: rest)

def assembleBlkT (p : Pool R) (doms duals : List (Option Nat)) (log : List (Nat × Nat × Except Err Bool)) :
    Except Err DTy :=
  if allSome doms && allSome duals then do
    let rd := dimsOf p duals
    let cd := dimsOf p doms
    let blocks ← forceRowsT log cd 0 rd
    pure ⟨none, blocks.any (·.any id), rd.sum, cd.sum⟩
  else .error .value

def rangeOpsT (p : Pool R) : List (Option Nat) → List (Option Nat) → Except Err Unit
  | some r :: rans, some d :: duals => do
    match p.minvMat r d with
      | some _ => pure ()
      | none => throw Err.noInverse
    rangeOpsT p rans duals
  | [], _ => .ok ()
  | _, _ => .error .attr

def strongKT (p : Pool R) (rans duals : List (Option Nat)) (wf : Except Err DTy) : Except Err DTy := do
  rangeOpsT p rans duals
  let w ← wf
  dMulT ⟨none, false, (dimsOf p rans).sum, (dimsOf p duals).sum⟩ w

def checkSpacesT : List (Option Nat) → List (Nat × Option Nat × Bool) → Except Err Unit
  | some s :: doms, g :: gs => if s = g.1 then checkSpacesT doms gs else .error .value
  | none :: _, _ :: _ => .error .attr
  | _, _ => .ok ()

def coeffsListT (p : Pool R) : List (Nat × Option Nat × Bool) → Except Err Unit
  | [] => .ok ()
  | g :: gs => do
    coeffsT p g.1 g.2.1
    coeffsListT p gs

def gfsFromProjectionsT (c : Bool) : List (Option Nat) → List (Option Nat) → List (Nat × Option Nat × Bool)
  | some r :: rans, some d :: duals => (r, some d, c) :: gfsFromProjectionsT c rans duals
  | _, _ => []

def gfAddT (p : Pool R) (s : Nat) (d1 : Option Nat) (c1 : Bool) (d2 : Option Nat) (c2 : Bool) : Except Err Ty :=
  match d1, d2 with
  | some a, some b =>
    if a = b then .ok (.gf s (some a) (c1 || c2))
    else do
      coeffsT p s d1
      coeffsT p s d2
      pure (.gf s none (c1 || c2))
  | _, _ => do
    coeffsT p s d1
    coeffsT p s d2
    pure (.gf s none (c1 || c2))

def negT : Ty → Except Err Ty
  | .scalar c np => .ok (.scalar c np)
  | .bop a b c wf => .ok (.bop a b c (wf.map (dScaleT false)))
  | .gf s d c => .ok (.gf s d c)
  | .pot s n q c => .ok (.pot s n q c)
  | .blk a b c _ wf => .ok (.blk a b c none (wf.map (dScaleT false)))
  | .gfl _ => .error .type
  | .arr _ => .error .scope
  | .dop t => .ok (.dop t)

def addT (p : Pool R) : Ty → Ty → Except Err Ty
  | .arr _, _ => .error .scope
  | _, .arr _ => .error .scope
  | .scalar c1 n1, .scalar c2 n2 => .ok (.scalar (c1 || c2) (scNp c1 n1 c2 n2))
  | .scalar _ np, .gfl _ => if np then .error .scope else .error .type
  | .scalar _ _, _ => .error .type
  | .bop d1 r1 u1 w1, .bop d2 r2 u2 w2 =>
    if d1 = d2 ∧ r1 = r2 ∧ u1 = u2 then .ok (.bop d1 r1 u1 (do let x ← w1; let y ← w2; dAddT x y))
    else .error .value
  | .bop _ _ _ _, _ => .error .attr
  | .gf s1 d1 c1, .gf s2 d2 c2 => if s1 = s2 then gfAddT p s1 d1 c1 d2 c2 else .error .value
  | .gf s1 _ _, .pot s2 _ _ _ => if s1 = s2 then .error .attr else .error .value
  | .gf _ _ _, _ => .error .attr
  | .pot s1 n1 q1 c1, .pot s2 n2 q2 c2 =>
    if n1 = n2 ∧ q1 = q2 ∧ s1 = s2 then .ok (.pot s1 n1 q1 (c1 || c2)) else .error .value
  | .pot _ n _ _, .gf _ _ _ => if n = 1 then .error .attr else .error .value
  | .pot _ _ _ _, _ => .error .attr
  | .blk d1 r1 u1 _ w1, .blk d2 r2 u2 _ w2 => do
    let e1 ← cmpSpaces d1 d2
    if e1 then
      let e2 ← cmpSpaces r1 r2
      if e2 then
        let e3 ← cmpSpaces u1 u2
        if e3 then pure (.blk d1 r1 u1 none (do let x ← w1; let y ← w2; dAddT x y))
        else throw .value
      else throw .value
    else throw .value
  | .blk _ _ _ _ _, _ => .error .type
  | .gfl a, .gfl b => .ok (.gfl (a ++ b))
  | .gfl _, .scalar _ np => if np then .error .scope else .error .type
  | .gfl _, _ => .error .type
  | .dop a, .dop b => (dAddT a b).map .dop
  | .dop _, _ => .error .type

def subT (p : Pool R) : Ty → Ty → Except Err Ty
  | .arr _, _ => .error .scope
  | _, .arr _ => .error .scope
  | .scalar c1 n1, .scalar c2 n2 => .ok (.scalar (c1 || c2) (scNp c1 n1 c2 n2))
  | .scalar _ np, .gfl _ => if np then .error .scope else .error .type
  | .scalar _ _, _ => .error .type
  | .gf s1 d1 c1, .gf s2 d2 c2 => if s1 = s2 then gfAddT p s1 d1 c1 d2 c2 else .error .value
  | .gf s1 _ _, .pot s2 _ _ _ => if s1 = s2 then .error .attr else .error .value
  | .gf _ _ _, _ => .error .attr
  | .gfl _, .scalar _ np => if np then .error .scope else .error .type
  | .gfl _, _ => .error .type
  | x, y => do
    let ny ← negT y
    addT p x ny

def scaleT (c np : Bool) : Ty → Except Err Ty
  | .scalar c2 n2 => .ok (.scalar (c || c2) (scNp c np c2 n2))
  | .bop a b u wf => .ok (.bop a b u (wf.map (dScaleT c)))
  | .gf s d c2 => .ok (.gf s d (c2 || c))
  | .pot s n q c2 => .ok (.pot s n q (c2 || c))
  | .blk a b u _ wf => .ok (.blk a b u none (wf.map (dScaleT c)))
  | .gfl _ => if np then .error .scope else .error .type
  | .arr _ => .error .scope
  | .dop t => .ok (.dop (dScaleT c t))

def blkApplyT (p : Pool R) (doms rans duals : List (Option Nat)) (wf : Except Err DTy)
    (l : List (Nat × Option Nat × Bool)) : Except Err Ty :=
  if l.length = doms.length then do
    checkSpacesT doms l
    let w ← wf
    coeffsListT p l
    pure (.gfl (gfsFromProjectionsT (w.c || l.any (·.2.2)) rans duals))
  else .error .value

def mulT (p : Pool R) (mm : Bool) : Ty → Ty → Except Err Ty
  | .arr _, _ => .error .scope
  | _, .arr _ => .error .scope
  | .scalar c np, y =>
    if mm then
      match y with
      | .dop _ => .error .value
      | .gfl _ => if np then .error .scope else .error .type
      | _ => .error .type
    else scaleT c np y
  | .bop a b u wf, .scalar c np => scaleT c np (.bop a b u wf)
  | .bop d1 r1 u1 w1, .bop d2 r2 u2 w2 =>
    if r2 = d1 then .ok (.bop d2 r1 u1 (do let x ← w1; let s ← strongBT p r2 u2 w2; dMulT x s))
    else .error .value
  | .bop d1 r1 u1 w1, .gf s d c =>
    if d1 = s then do
      let w ← w1
      coeffsT p s d
      pure (.gf r1 (some u1) (w.c || c))
    else .error .value
  | .bop _ _ _ _, _ => .error .type
  | .gf s d c, .scalar c2 np => if mm then .error .type else scaleT c2 np (.gf s d c)
  | .gf _ _ _, _ => .error .type
  | .pot s n q c, .scalar c2 np => scaleT c2 np (.pot s n q c)
  | .pot s _ _ c, .gf s2 d c2 =>
    if s = s2 then do
      coeffsT p s2 d
      pure (.arr (c || c2))
    else .error .value
  | .pot _ _ _ _, _ => .error .type
  | .blk a b u l wf, .scalar c np => scaleT c np (.blk a b u l wf)
  | .blk d1 r1 u1 _ w1, .blk d2 r2 u2 _ w2 => do
    let e ← cmpSpaces r2 d1
    if e then pure (.blk d2 r1 u1 none (do let x ← w1; let s ← strongKT p r2 u2 w2; dMulT x s))
    else throw .value
  | .blk d r u _ wf, .gfl l => blkApplyT p d r u wf l
  | .blk _ _ _ _ _, _ => .error .type
  | .gfl _, .scalar _ np => if np then .error .scope else .error .type
  | .gfl _, _ => .error .type
  | .dop t, .scalar c np => if mm then .error .value else scaleT c np (.dop t)
  | .dop a, .dop b => (dMulT a b).map .dop
  | .dop _, _ => .error .value

def weakT : Ty → Except Err Ty
  | .bop _ _ _ wf => wf.map .dop
  | .blk _ _ _ _ wf => wf.map .dop
  | .arr _ => .error .scope
  | _ => .error .attr

def strongT (p : Pool R) : Ty → Except Err Ty
  | .bop _ r u wf => (strongBT p r u wf).map .dop
  | .blk _ r u _ wf => (strongKT p r u wf).map .dop
  | .arr _ => .error .scope
  | _ => .error .attr

def transposeT : Ty → Except Err Ty
  | .dop t => (dTransposeT t).map .dop
  | .scalar c np => if np then .ok (.scalar c np) else .error .attr
  | .arr _ => .error .scope
  | _ => .error .attr

def adjointT : Ty → Except Err Ty
  | .dop t => (dTransposeT t).map .dop
  | .arr _ => .error .scope
  | _ => .error .attr

def lconsT : Ty → Ty → Except Err Ty
  | .gf s d c, .gfl l => .ok (.gfl ((s, d, c) :: l))
  | _, _ => .error .scope

def blkSetT (p : Pool R) (k : Ty) (i j : Nat) (o : Ty) : Except Err Ty :=
  match k, o with
  | .arr _, _ => .error .scope
  | _, .arr _ => .error .scope
  | .blk doms rans duals l _, o =>
    match l with
    | none => .error .type
    | some log =>
      if i < rans.length then
        match o with
        | .bop d r u wf =>
          if (rans.getD i none).all (· == r) && (duals.getD i none).all (· == u) then
            if j < doms.length then
              if (doms.getD j none).all (· == d) then
                let doms' := doms.set j (some d)
                let rans' := rans.set i (some r)
                let duals' := duals.set i (some u)
                let log' := (i, j, wf.map (·.c)) :: log
                .ok (.blk doms' rans' duals' (some log') (assembleBlkT p doms' duals' log'))
              else .error .value
            else .error .index
          else .error .value
        | _ =>
          if (rans.getD i none).isSome then .error .attr
          else if j < doms.length then .error .attr else .error .index
      else .error .index
  | _, _ => .error .type

/-- The compatibility rules the code implements, without any numbers. -/
def typecheck (p : Pool R) : Expr R → Except Err Ty
  | .sc c np _ => .ok (.scalar c np)
  | .op i => match p.ops[i]? with
    | some l => .ok (.bop l.dom l.ran l.dual (.ok ⟨some (if l.dense then .dense else .sparse), l.c, p.ndof l.dual, p.ndof l.dom⟩))
    | none => .error .scope
  | .gf i => match p.gfs[i]? with
    | some l => .ok (.gf l.space l.dual l.c)
    | none => .error .scope
  | .pot i => match p.pots[i]? with
    | some l => .ok (.pot l.space l.ncomp l.pts l.c)
    | none => .error .scope
  | .add a b => do let x ← typecheck p a; let y ← typecheck p b; addT p x y
  | .sub a b => do let x ← typecheck p a; let y ← typecheck p b; subT p x y
  | .mul a b => do let x ← typecheck p a; let y ← typecheck p b; mulT p false x y
  | .matmul a b => do let x ← typecheck p a; let y ← typecheck p b; mulT p true x y
  | .neg a => do let x ← typecheck p a; negT x
  | .weak a => do let x ← typecheck p a; weakT x
  | .strong a => do let x ← typecheck p a; strongT p x
  | .transpose a => do let x ← typecheck p a; transposeT x
  | .adjoint a => do let x ← typecheck p a; adjointT x
  | .blkEmpty m n =>
    if 0 < m ∧ 0 < n then
      .ok (.blk (List.replicate n none) (List.replicate m none) (List.replicate m none) (some [])
            (assembleBlkT p (List.replicate n none) (List.replicate m none) []))
    else .error .scope
  | .blkSet k i j o => do let x ← typecheck p k; let y ← typecheck p o; blkSetT p x i j y
  | .lnil => .ok (.gfl [])
  | .lcons g l => do let x ← typecheck p g; let y ← typecheck p l; lconsT x y

end Typing

/-! ## Types of values, observation -/
section Observe
variable {R : Type} [Zero R] [One R] [Add R] [Mul R] [Neg R] [CParts R]

def DOp.ty (d : DOp R) : DTy := ⟨d.conc, d.cplx, d.rows, d.cols⟩

def GfV.ty (g : GfV R) : Nat × Option Nat × Bool := (g.space, g.dual, g.c)

def Obj.ty : Obj R → Ty
  | .scalar c np _ => .scalar c np
  | .bop b => .bop b.dom b.ran b.dual (b.wf.map DOp.ty)
  | .gf g => .gf g.space g.dual g.c
  | .pot q => .pot q.space q.ncomp q.pts q.t.cplx
  | .blk k => .blk k.doms k.rans k.duals (k.log.map fun l => l.map fun e => (e.1, e.2.1, e.2.2.map (·.1))) (k.wf.map DOp.ty)
  | .gfl l => .gfl (l.map GfV.ty)
  | .arr c _ => .arr c
  | .dop d => .dop d.ty

/-- What a program returns when its result is forced and read out (`weak_form().to_dense()`, `.coefficients`,
application of a potential operator to a probe, ...). -/
inductive Obs (R : Type) where
  | scalar (c np : Bool) (v : R)
  /-- dense matrix of a boundary / blocked / discrete operator and its product with the probe vector -/
  | mat (c : Bool) (r n : Nat) (M : Mat R) (mv : Vec R)
  /-- grid function: space, stored representation, stored data, coefficients -/
  | fn (space : Nat) (dual : Option Nat) (c : Bool) (data : Vec R) (coeffs : Vec R)
  | fns (l : List (Nat × Option Nat × Bool × Vec R × Vec R))
  /-- potential operator applied to the probe -/
  | potv (c : Bool) (v : Vec R)
  | arr (c : Bool) (v : Vec R)

def obsGf (p : Pool R) (g : GfV R) : Except Err (Nat × Option Nat × Bool × Vec R × Vec R) := do
  let c ← gfCoeffs p g
  pure (g.space, g.dual, g.c, g.data, c)

def obsGfs (p : Pool R) : List (GfV R) → Except Err (List (Nat × Option Nat × Bool × Vec R × Vec R))
  | [] => .ok []
  | g :: gs => do
    let a ← obsGf p g
    let rest ← obsGfs p gs
    pure (a :: rest)

/-- `probe n` is the (complex) vector the driver and the harness apply operators to -/
def observe (p : Pool R) (probe : Nat → Vec R) : Obj R → Except Err (Obs R)
  | .scalar c np v => .ok (.scalar c np v)
  | .bop b => b.wf.map fun d => .mat d.cplx d.rows d.cols d.toDense (d.matvec true (probe d.cols))
  | .blk k => k.wf.map fun d => .mat d.cplx d.rows d.cols d.toDense (d.matvec true (probe d.cols))
  | .dop d => .ok (.mat d.cplx d.rows d.cols d.toDense (d.matvec true (probe d.cols)))
  | .gf g => (obsGf p g).map fun a => .fn a.1 a.2.1 a.2.2.1 a.2.2.2.1 a.2.2.2.2
  | .gfl l => (obsGfs p l).map .fns
  | .pot q => .ok (.potv (q.t.cplx || true) (q.t.eval true (probe (p.ndof q.space))))
  | .arr c v => .ok (.arr c v)

/-- run a program: evaluate, then force and read out the result -/
def run (p : Pool R) (probe : Nat → Vec R) (e : Expr R) : Except Err (Obs R) := do
  let v ← eval p e
  observe p probe v

end Observe

/-! ## Well-formed pools (checked by the driver before a pool is accepted) -/
section WF
variable {R : Type}

def shapeOk (m n : Nat) (M : Mat R) : Bool := M.length == m && M.all (·.length == n)

def Pool.wfb (p : Pool R) : Bool :=
  p.ops.all (fun l => shapeOk (p.ndof l.dual) (p.ndof l.dom) l.mat) &&
  p.gfs.all (fun l => l.data.length == p.ndof ((l.dual).getD l.space)) &&
  p.pots.all (fun l => shapeOk (l.ncomp * p.npt l.pts) (p.ndof l.space) l.mat) &&
  p.minv.all (fun e => shapeOk (p.ndof e.1) (p.ndof e.2.1) e.2.2)

end WF

/-! ## Type-level counterpart of `observe`, complex rationals for the driver -/

/-- can the result be forced and read out?  (mirrors the errors of `observe`) -/
def observeT {R : Type} (p : Pool R) : Ty → Except Err Unit
  | .scalar _ _ => .ok ()
  | .bop _ _ _ wf => wf.map fun _ => ()
  | .blk _ _ _ _ wf => wf.map fun _ => ()
  | .dop _ => .ok ()
  | .gf s d _ => coeffsT p s d
  | .gfl l => coeffsListT p l
  | .pot _ _ _ _ => .ok ()
  | .arr _ => .ok ()

/-- accept / reject verdict of a whole program -/
def check {R : Type} (p : Pool R) (e : Expr R) : Except Err Unit := do
  let t ← typecheck p e
  observeT p t

/-- Gaussian rationals: the scalar type of the native driver -/
structure CRat where
  re : Rat
  im : Rat
  deriving DecidableEq, Repr

instance : Zero CRat := ⟨⟨0, 0⟩⟩
instance : One CRat := ⟨⟨1, 0⟩⟩
instance : Add CRat := ⟨fun a b => ⟨a.re + b.re, a.im + b.im⟩⟩
instance : Neg CRat := ⟨fun a => ⟨-a.re, -a.im⟩⟩
instance : Mul CRat := ⟨fun a b => ⟨a.re * b.re - a.im * b.im, a.re * b.im + a.im * b.re⟩⟩
instance : CParts CRat where
  re z := ⟨z.re, 0⟩
  im z := ⟨z.im, 0⟩
  I := ⟨0, 1⟩
  conj z := ⟨z.re, -z.im⟩

/-- the probe vector `((j+1)/4 + (n-j)/8 i)_{j<n}` -/
def probeC (n : Nat) : Vec CRat := (List.range n).map fun (j : Nat) => ⟨(((j + 1 : Nat) : Int) : Rat) / 4, (((n - j : Nat) : Int) : Rat) / 8⟩

end BemppVerif.Model.Alg
