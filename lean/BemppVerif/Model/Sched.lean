/-
Shared-memory scheduling model for the `prange` loops of bempp_cl/core/numba_kernels.py
(Mathlib-free, executable).

A task (= one `prange` iteration, e.g. one test element of one colour) is a list of atomic steps on
cells of the shared result array:

* `read c`       load `result[c]` into the task's private register file,
* `write c f`    store `f registers` into `result[c]`.

`result[c] += v` is the two steps `read c; write c (fun regs => add (head regs) v)` — another task may
run between the load and the store.  The value type `V` and `add : V → V → V` are arbitrary (no
associativity, no commutativity): equal results are equal values, hence bitwise equal floats.

A schedule is a list of task indices (any interleaving; scheduling a finished task is a no-op).
-/
namespace BemppVerif.Model.Sched

inductive Step (C V : Type) where
  | read (c : C)
  | write (c : C) (f : List V → V)

abbrev Task (C V : Type) := List (Step C V)

/-- cells read / written by a task -/
def reads {C V : Type} : Task C V → List C
  | [] => []
  | .read c :: p => c :: reads p
  | .write _ _ :: p => reads p

def writes {C V : Type} : Task C V → List C
  | [] => []
  | .read _ :: p => writes p
  | .write c _ :: p => c :: writes p

/-- private state of a task: registers (most recent load first) and remaining program -/
structure Thread (C V : Type) where
  regs : List V
  prog : Task C V

variable {C V : Type} [DecidableEq C]

/-- one atomic step of a thread on memory `m` -/
def Thread.step (m : C → V) (t : Thread C V) : (C → V) × Thread C V :=
  match t.prog with
  | [] => (m, t)
  | .read c :: p => (m, ⟨m c :: t.regs, p⟩)
  | .write c f :: p => (fun x => if x = c then f t.regs else m x, ⟨t.regs, p⟩)

/-- `k` steps of a thread running alone -/
def solo (m : C → V) (t : Thread C V) : Nat → (C → V) × Thread C V
  | 0 => (m, t)
  | k + 1 => let r := solo m t k; r.2.step r.1

structure State (C V : Type) where
  mem : C → V
  th : Nat → Thread C V

/-- thread `i` performs its next atomic step -/
def State.step (s : State C V) (i : Nat) : State C V :=
  let r := (s.th i).step s.mem
  ⟨r.1, fun j => if j = i then r.2 else s.th j⟩

/-- execute a schedule (left to right) -/
def run (s : State C V) (sched : List Nat) : State C V := sched.foldl State.step s

/-- all tasks of a launch at their start, on initial memory `m0` -/
def start (m0 : C → V) (tasks : List (Task C V)) : State C V :=
  ⟨m0, fun i => ⟨[], tasks.getD i []⟩⟩

/-- every task is scheduled at least as often as it has steps -/
def Complete (tasks : List (Task C V)) (sched : List Nat) : Prop :=
  ∀ i, i < tasks.length → (tasks.getD i []).length ≤ sched.count i

/-- the sequential schedule: task 0 to completion, then task 1, ... (what one thread does) -/
def seqSchedule (tasks : List (Task C V)) : List Nat :=
  (List.range tasks.length).flatMap fun i => List.replicate (tasks.getD i []).length i

/-- `result[c] += v` with an arbitrary `add` -/
def rmw (add : V → V → V) (c : C) (v : V) : Task C V :=
  [.read c, .write c fun regs => match regs with | x :: _ => add x v | [] => v]

/-- the scatter loop that ends one `prange` iteration of the regular (dense) kernels:
`for trial_element_index: for test_fun_index: for trial_fun_index:
   result[test_global_dofs[te, i], trial_global_dofs[tr, j]] += local_result[k, i, j] * mult * mult`.
`trow` is the `local2global` row of the test element, `trialRows` the rows of `trial_elements` (in call
order), `val k i j` the value that is added (arbitrary). -/
def denseTask (add : V → V → V) (trow : List Nat) (trialRows : List (List Nat)) (val : Nat → Nat → Nat → V) :
    Task (Nat × Nat) V :=
  trialRows.zipIdx.flatMap fun (srow, k) =>
    trow.zipIdx.flatMap fun (r, i) =>
      srow.zipIdx.flatMap fun (c, j) => rmw add (r, c) (val k i j)

/-- the cells touched by a task, in program order: `(false, c)` = load, `(true, c)` = store -/
def trace {C V : Type} : Task C V → List (Bool × C)
  | [] => []
  | .read c :: p => (false, c) :: trace p
  | .write c _ :: p => (true, c) :: trace p

/-- slot written by iteration `index` of the singular `prange` loops for `(test_fun_index, trial_fun_index) = (i, j)` -/
def singularSlot (nshapeTest nshapeTrial index i j : Nat) : Nat :=
  nshapeTrial * nshapeTest * index + i * nshapeTrial + j

/-- slot written by iteration `element_index` of the sparse `prange` loop -/
def sparseSlot (nshapeTest nshapeTrial index i j : Nat) : Nat :=
  nshapeTest * nshapeTrial * index + i * nshapeTrial + j

/-- slots in the order in which the sequential loop `index -> test_fun_index -> trial_fun_index` visits them -/
def slotOrder (slot : Nat → Nat → Nat → Nat) (n nshapeTest nshapeTrial : Nat) : List Nat :=
  (List.range n).flatMap fun idx => (List.range nshapeTest).flatMap fun i => (List.range nshapeTrial).map fun j => slot idx i j

end BemppVerif.Model.Sched
