/-
Model of the element colouring of bempp_cl/api/space/space.py (Mathlib-free, executable).

* `g2l`            mirrors `invert_local2global` (entry `d` of the list it returns),
* `neighbors`      mirrors the neighbour discovery of `_compute_color_map`
                   (all `local2global[e]` entries -> `global2local[dof]` -> element indices, minus `e`),
* `pickColor`      mirrors `next(color for color in range(number_of_support_elements) if color not in neighbor_colors)`,
* `greedy`         mirrors `_compute_color_map` (visiting order = `support_elements` = `flatnonzero(support)`),
* `launches`, `sortedIndices`, `indexptr`, `launchSlice` mirror `_sort_elements_by_color` and the slices
  `test_indices[indexptr[c] : indexptr[c+1]]` that `numba_assemblers.dense_assembler` hands to one kernel call.

The input is exactly the data the code reads: number of grid elements, `support`, the rows of
`local2global` and the rows of `local_multipliers` (only `!= 0` is ever evaluated).
-/
namespace BemppVerif.Model.Color

/-- discrete space data read by the colouring -/
structure Space where
  nelems : Nat
  support : Array Bool
  l2g : Array (Array Nat)
  mult : Array (Array Int)
  deriving Repr

namespace Space

/-- `support[e]` -/
def sup (S : Space) (e : Nat) : Bool := S.support.getD e false

/-- `local2global[e]` as a list -/
def row (S : Space) (e : Nat) : List Nat := (S.l2g.getD e #[]).toList

/-- `local_multipliers[e, i] != 0` -/
def nz (S : Space) (e i : Nat) : Bool := (S.mult.getD e #[]).getD i 0 != 0

/-- `support_elements = flatnonzero(support)` (ascending) -/
def supportElements (S : Space) : List Nat := (List.range S.nelems).filter S.sup

/-- `number_of_support_elements = count_nonzero(support)` -/
def nsupport (S : Space) : Nat := S.supportElements.length

end Space

/-- entries `(e, i)` of row `e` that equal `d` and have a non-zero multiplier, local index ascending -/
def rowHits (S : Space) (d e : Nat) : List (Nat × Nat) :=
  (S.row e).zipIdx.filterMap fun (dof, i) => if dof = d ∧ S.nz e i = true then some (e, i) else none

/-- `invert_local2global(local2global, local_multipliers)[d]`: the loop runs over ALL grid elements in
ascending order and over the local indices in ascending order and appends `(elem, local)` when the
multiplier is non-zero. -/
def g2l (S : Space) (d : Nat) : List (Nat × Nat) :=
  (List.range S.nelems).flatMap (rowHits S d)

/-- executable check of the premise `artificial_dof_owned`: every entry of every support row occurs in the same
row with a non-zero multiplier -/
def ownedCheck (S : Space) : Bool :=
  (List.range S.nelems).all fun e => !S.sup e || (S.row e).all fun d => !(rowHits S d e).isEmpty

/-- the `neighbors` set of `_compute_color_map` for element `e` (as a list; only membership is used) -/
def neighbors (S : Space) (e : Nat) : List Nat :=
  ((S.row e).flatMap fun d => (g2l S d).map Prod.fst).filter (· != e)

/-- `color_map[x]` (`-1` = not coloured) -/
def colorOf (cm : Array Int) (x : Nat) : Int := cm.getD x (-1)

/-- `neighbor_colors = self._color_map[list(neighbors)]` -/
def neighborColors (S : Space) (cm : Array Int) (e : Nat) : List Int :=
  (neighbors S e).map (colorOf cm)

/-- `next(color for color in range(bound) if color not in used)`; `none` models `StopIteration` -/
def pickColor (bound : Nat) (used : List Int) : Option Nat :=
  (List.range bound).find? fun c => !(used.contains (c : Int))

/-- the loop body of `_compute_color_map` over the remaining support elements -/
def colorLoop (S : Space) : List Nat → Array Int → Option (Array Int)
  | [], cm => some cm
  | e :: rest, cm =>
    match pickColor S.nsupport (neighborColors S cm e) with
    | none => none
    | some c => colorLoop S rest (cm.setIfInBounds e (c : Int))

/-- `_compute_color_map`: `-ones(number_of_elements)`, then the loop over `support_elements` -/
def greedy (S : Space) : Option (Array Int) :=
  colorLoop S S.supportElements (Array.replicate S.nelems (-1))

/-! ## `_sort_elements_by_color` and the launch loop -/

/-- `max(color_map)` (for a non-empty map; every entry is `≥ -1`) -/
def maxColor (cm : Array Int) : Int := cm.toList.foldl max (-1)

/-- `ncolors = 1 + max(self.color_map)` -/
def ncolors (cm : Array Int) : Nat := (1 + maxColor cm).toNat

/-- `np.where(self.color_map == color)[0]` -/
def withColor (cm : Array Int) (c : Nat) : List Nat :=
  (List.range cm.size).filter fun e => colorOf cm e == (c : Int)

/-- the test-element list of each kernel launch, in launch order -/
def launches (cm : Array Int) : List (List Nat) := (List.range (ncolors cm)).map (withColor cm)

/-- `sorted_indices` -/
def sortedIndices (cm : Array Int) : List Nat := (launches cm).flatten

/-- running `count`: `indexptr` of a list of blocks -/
def prefixSums : Nat → List (List Nat) → List Nat
  | acc, [] => [acc]
  | acc, b :: bs => acc :: prefixSums (acc + b.length) bs

/-- `indexptr` (length `ncolors + 1`) -/
def indexptr (cm : Array Int) : List Nat := prefixSums 0 (launches cm)

/-- `test_indices[test_color_indexptr[c] : test_color_indexptr[1 + c]]` -/
def launchSlice (cm : Array Int) (c : Nat) : List Nat :=
  let p := indexptr cm
  ((sortedIndices cm).drop (p.getD c 0)).take (p.getD (c + 1) 0 - p.getD c 0)

/-- the launch loop of `dense_assembler`: `for c in range(len(indexptr) - 1): kernel(test_indices[...])` -/
def launchLoop (cm : Array Int) : List (List Nat) :=
  (List.range ((indexptr cm).length - 1)).map (launchSlice cm)

end BemppVerif.Model.Color
