/-
Model of the singular-quadrature bookkeeping of bempp_cl/core/singular_assembler.py
(`_SingularQuadratureRuleInterfaceGalerkin`): the index vectors, offsets and the concatenated point / weight arrays.
Mathlib-free, executable.  Tables come from `Gen/SingTables.lean` (regenerated from the source).
-/
import BemppVerif.Gen.SingTables
import BemppVerif.Model.Quad
import BemppVerif.Model.Asm

namespace BemppVerif.Model.Sing
open BemppVerif.Gen BemppVerif.Model.Quad BemppVerif.Model.Asm

def nCoinc (n : Nat) : Nat := numberOfQuadPoints .coincident n
def nEdge (n : Nat) : Nat := numberOfQuadPoints .edge n
def nVert (n : Nat) : Nat := numberOfQuadPoints .vertex n

/-- `offset_values[a, b]` as a natural number (`none` on the diagonal / out of range) -/
def offsetValue (a b : Nat) : Option Nat :=
  match (SingTables.offsetValues.getD a []).getD b (-1) with
  | .ofNat k => if a < 3 ∧ b < 3 then some k else none
  | _ => none

/-- `edge_offsets[a, b] = ncoincident + nedge_adjacent * offset_values[a, b]` -/
def edgeOffset (n a b : Nat) : Option Nat := (offsetValue a b).map fun k => nCoinc n + nEdge n * k

/-- `vertex_offsets[v] = ncoincident + 6 * nedge_adjacent + nvertex_adjacent * v` -/
def vertexOffset (n v : Nat) : Nat := nCoinc n + 6 * nEdge n + nVert n * v

/-- a column of `grid.edge_adjacency` -/
structure EdgeCol where
  e0 : Nat
  e1 : Nat
  i0 : Nat
  i1 : Nat
  j0 : Nat
  j1 : Nat
deriving Repr, DecidableEq

/-- a column of `grid.vertex_adjacency` -/
structure VertCol where
  e0 : Nat
  e1 : Nat
  i : Nat
  j : Nat
deriving Repr, DecidableEq

/-- `get_arrays()`: the list of singular pairs in the order coincident, edge-adjacent, vertex-adjacent.
`testSupp`/`trialSupp` are the boolean support arrays; `nElem` the number of grid elements. -/
def singPairs (n nElem : Nat) (testSupp trialSupp : Nat → Bool) (edgeAdj : List EdgeCol) (vertAdj : List VertCol) :
    List SingPair :=
  ((List.range nElem).filter fun e => testSupp e && trialSupp e).map (fun e => ⟨e, e, 0, 0, 0, nCoinc n⟩)
  ++ (edgeAdj.filter fun c => testSupp c.e0 && trialSupp c.e1).map (fun c =>
      ⟨c.e0, c.e1, (edgeOffset n c.i0 c.i1).getD 0, (edgeOffset n c.j0 c.j1).getD 0, nCoinc n, nEdge n⟩)
  ++ (vertAdj.filter fun c => testSupp c.e0 && trialSupp c.e1).map (fun c =>
      ⟨c.e0, c.e1, vertexOffset n c.i, vertexOffset n c.j, nCoinc n + nEdge n, nVert n⟩)

section points
variable {R : Type} [Add R] [Sub R] [Mul R] [One R] [Zero R]

/-- `_vectorize_points` for one side (`sel` picks the test or the trial point of a quadrature point): coincident rule,
then the six edge remaps in table order, then the three vertex remaps -/
def vectorizePoints (sel : QP R → R × R) (xs ws : List R) : List (R × R) :=
  (duffy .coincident xs ws).map sel
  ++ SingTables.edgeRemapOrder.flatMap (fun ab =>
      (duffy .edge xs ws).map fun q => (remapEdge (sel q) ab.1 ab.2).getD (sel q))
  ++ SingTables.vertexRemapOrder.flatMap (fun v =>
      (duffy .vertex xs ws).map fun q => (remapVertex (sel q) v).getD (sel q))

/-- `_vectorize_weights` -/
def vectorizeWeights (xs ws : List R) : List R :=
  (duffy .coincident xs ws).map (·.w) ++ (duffy .edge xs ws).map (·.w) ++ (duffy .vertex xs ws).map (·.w)

def testPt (q : QP R) : R × R := (q.tx, q.ty)
def trialPt (q : QP R) : R × R := (q.sx, q.sy)

end points

end BemppVerif.Model.Sing
