/- Helper lemmas for C11: shared-vertex counts, shared local indices, the pair tables. -/
import BemppVerif.Lemmas.TopoEdges
import Mathlib.Data.List.Nodup

namespace BemppVerif.Lemmas.Topo
open BemppVerif.Model.Topo BemppVerif.Gen

/-- the vertices of `t` that are also vertices of `s` (specification side) -/
def commonVertices (t s : Tri) : List Nat := t.toList.filter (· ∈ s.toList)

theorem sharedCount_eq (t s : Tri) (hs : s.NonDegenerate) :
    sharedCount t s = (commonVertices t s).length := by
  obtain ⟨a, b, c⟩ := t
  obtain ⟨d, e, f⟩ := s
  simp only [Tri.NonDegenerate] at hs
  simp only [sharedCount, commonVertices, Tri.toList, List.map_cons, List.map_nil, List.sum_cons, List.sum_nil,
    List.count_cons, List.count_nil, List.filter_cons, List.filter_nil, List.mem_cons, List.not_mem_nil, or_false]
  grind

theorem sharedCount_self (t : Tri) (ht : t.NonDegenerate) : sharedCount t t = 3 := by
  obtain ⟨a, b, c⟩ := t
  simp only [Tri.NonDegenerate] at ht
  simp only [sharedCount, Tri.toList, List.map_cons, List.map_nil, List.sum_cons, List.sum_nil,
    List.count_cons, List.count_nil]
  grind

theorem idx3 (x d e f : Nat) (h : x ∈ [d, e, f]) (hde : d ≠ e) (hdf : d ≠ f) (hef : e ≠ f) :
    (x = d ∧ List.idxOf x [d, e, f] = 0) ∨ (x = e ∧ List.idxOf x [d, e, f] = 1) ∨
      (x = f ∧ List.idxOf x [d, e, f] = 2) := by
  simp only [List.mem_cons, List.not_mem_nil, or_false] at h
  rcases h with rfl | rfl | rfl
  · left; simp
  · right; left; simp [List.idxOf_cons]; grind
  · right; right; simp [List.idxOf_cons]; grind

/-- shared local indices of an edge-adjacent pair: in range, distinct, `j0 < j1` (Bempp-3 order), and they name
equal global vertices -/
theorem sharedEdgeInfo_spec (t s : Tri) (ht : t.NonDegenerate) (hs : s.NonDegenerate) (h : sharedCount t s = 2) :
    (sharedEdgeInfo t s).1 < 3 ∧ (sharedEdgeInfo t s).2.1 < 3 ∧ (sharedEdgeInfo t s).2.2.1 < 3 ∧
    (sharedEdgeInfo t s).2.2.2 < 3 ∧ (sharedEdgeInfo t s).1 ≠ (sharedEdgeInfo t s).2.1 ∧
    (sharedEdgeInfo t s).2.2.1 < (sharedEdgeInfo t s).2.2.2 ∧
    t.get (sharedEdgeInfo t s).1 = s.get (sharedEdgeInfo t s).2.2.1 ∧
    t.get (sharedEdgeInfo t s).2.1 = s.get (sharedEdgeInfo t s).2.2.2 := by
  obtain ⟨a, b, c⟩ := t
  obtain ⟨d, e, f⟩ := s
  simp only [Tri.NonDegenerate] at ht hs
  obtain ⟨hab, hac, hbc⟩ := ht
  obtain ⟨hde, hdf, hef⟩ := hs
  simp only [sharedCount, Tri.toList, List.map_cons, List.map_nil, List.sum_cons, List.sum_nil,
    List.count_cons, List.count_nil] at h
  by_cases ha : a ∈ [d, e, f] <;> by_cases hb : b ∈ [d, e, f] <;> by_cases hc : c ∈ [d, e, f] <;>
    simp only [sharedEdgeInfo, findFirstCommonFrom, findFirstCommon, Tri.toList, ha, hb, hc, List.drop, if_true,
      if_false, Option.getD_some, Option.getD_none, Nat.zero_add, Nat.reduceAdd]
  · exfalso; grind
  · rcases idx3 a d e f ha hde hdf hef with ⟨h1, h2⟩ | ⟨h1, h2⟩ | ⟨h1, h2⟩ <;>
    rcases idx3 b d e f hb hde hdf hef with ⟨h3, h4⟩ | ⟨h3, h4⟩ | ⟨h3, h4⟩ <;>
    simp [h2, h4, Tri.get] <;> grind
  · rcases idx3 a d e f ha hde hdf hef with ⟨h1, h2⟩ | ⟨h1, h2⟩ | ⟨h1, h2⟩ <;>
    rcases idx3 c d e f hc hde hdf hef with ⟨h3, h4⟩ | ⟨h3, h4⟩ | ⟨h3, h4⟩ <;>
    simp [h2, h4, Tri.get] <;> grind
  · exfalso; grind
  · rcases idx3 b d e f hb hde hdf hef with ⟨h1, h2⟩ | ⟨h1, h2⟩ | ⟨h1, h2⟩ <;>
    rcases idx3 c d e f hc hde hdf hef with ⟨h3, h4⟩ | ⟨h3, h4⟩ | ⟨h3, h4⟩ <;>
    simp [h2, h4, Tri.get] <;> grind
  · exfalso; grind
  · exfalso; grind
  · exfalso; grind

/-- under the hypotheses of `sharedEdgeInfo_spec` the code does not raise -/
theorem sharedEdgeRaises_false (t s : Tri) (ht : t.NonDegenerate) (hs : s.NonDegenerate) (h : sharedCount t s = 2) :
    sharedEdgeRaises t s = false := by
  obtain ⟨a, b, c⟩ := t
  obtain ⟨d, e, f⟩ := s
  simp only [Tri.NonDegenerate] at ht hs
  simp only [sharedCount, Tri.toList, List.map_cons, List.map_nil, List.sum_cons, List.sum_nil,
    List.count_cons, List.count_nil] at h
  by_cases ha : a ∈ [d, e, f] <;> by_cases hb : b ∈ [d, e, f] <;> by_cases hc : c ∈ [d, e, f] <;>
    simp [sharedEdgeRaises, findFirstCommonFrom, findFirstCommon, Tri.toList, ha, hb, hc] <;> grind

/-- shared local indices of a vertex-adjacent pair -/
theorem sharedVertexInfo_spec (t s : Tri) (hs : s.NonDegenerate) (h : sharedCount t s = 1) :
    (sharedVertexInfo t s).1 < 3 ∧ (sharedVertexInfo t s).2 < 3 ∧
      t.get (sharedVertexInfo t s).1 = s.get (sharedVertexInfo t s).2 := by
  obtain ⟨a, b, c⟩ := t
  obtain ⟨d, e, f⟩ := s
  simp only [Tri.NonDegenerate] at hs
  obtain ⟨hde, hdf, hef⟩ := hs
  simp only [sharedCount, Tri.toList, List.map_cons, List.map_nil, List.sum_cons, List.sum_nil,
    List.count_cons, List.count_nil] at h
  by_cases ha : a ∈ [d, e, f] <;> by_cases hb : b ∈ [d, e, f] <;> by_cases hc : c ∈ [d, e, f] <;>
    simp only [sharedVertexInfo, findFirstCommonFrom, findFirstCommon, Tri.toList, ha, hb, hc, List.drop, if_true,
      if_false, Option.getD_some, Option.getD_none]
  · rcases idx3 a d e f ha hde hdf hef with ⟨h1, h2⟩ | ⟨h1, h2⟩ | ⟨h1, h2⟩ <;> simp [h2, Tri.get] <;> grind
  · rcases idx3 a d e f ha hde hdf hef with ⟨h1, h2⟩ | ⟨h1, h2⟩ | ⟨h1, h2⟩ <;> simp [h2, Tri.get] <;> grind
  · rcases idx3 a d e f ha hde hdf hef with ⟨h1, h2⟩ | ⟨h1, h2⟩ | ⟨h1, h2⟩ <;> simp [h2, Tri.get] <;> grind
  · rcases idx3 a d e f ha hde hdf hef with ⟨h1, h2⟩ | ⟨h1, h2⟩ | ⟨h1, h2⟩ <;> simp [h2, Tri.get] <;> grind
  · rcases idx3 b d e f hb hde hdf hef with ⟨h1, h2⟩ | ⟨h1, h2⟩ | ⟨h1, h2⟩ <;> simp [h2, Tri.get] <;> grind
  · rcases idx3 b d e f hb hde hdf hef with ⟨h1, h2⟩ | ⟨h1, h2⟩ | ⟨h1, h2⟩ <;> simp [h2, Tri.get] <;> grind
  · rcases idx3 c d e f hc hde hdf hef with ⟨h1, h2⟩ | ⟨h1, h2⟩ | ⟨h1, h2⟩ <;> simp [h2, Tri.get] <;> grind
  · exfalso; grind

/-! ### the pair tables -/

theorem mem_pairsWithCount (els : List Tri) (k : Nat) (pq : (Tri × Nat) × (Tri × Nat)) :
    pq ∈ pairsWithCount els k ↔
      els[pq.1.2]? = some pq.1.1 ∧ els[pq.2.2]? = some pq.2.1 ∧ sharedCount pq.1.1 pq.2.1 = k := by
  obtain ⟨p, q⟩ := pq
  simp only [pairsWithCount, List.mem_flatMap, List.mem_map, List.mem_filter, List.mem_zipIdx_iff_getElem?,
    decide_eq_true_eq]
  constructor
  · rintro ⟨p', hp, q', ⟨hq, hc⟩, heq⟩
    simp only [Prod.mk.injEq] at heq
    obtain ⟨rfl, rfl⟩ := heq
    exact ⟨hp, hq, hc⟩
  · rintro ⟨hp, hq, hc⟩
    exact ⟨p, hp, q, ⟨hq, hc⟩, rfl⟩

theorem zipIdx_snd_inj {α : Type} (l : List α) (p q : α × Nat) (hp : p ∈ l.zipIdx) (hq : q ∈ l.zipIdx)
    (h : p.2 = q.2) : p = q := by
  rw [List.mem_zipIdx_iff_getElem?] at hp hq
  rw [h] at hp
  have := hp.symm.trans hq
  simp only [Option.some.injEq] at this
  exact Prod.ext this h

theorem zipIdx_nodup {α : Type} (l : List α) : l.zipIdx.Nodup := by
  apply List.Nodup.of_map Prod.snd
  rw [List.zipIdx_map_snd]
  exact List.nodup_range'

/-- the `(e0, e1)` keys of a pair table are pairwise distinct: no ordered pair is listed twice -/
theorem pairsWithCount_keys_nodup (els : List Tri) (k : Nat) :
    ((pairsWithCount els k).map fun pq => (pq.1.2, pq.2.2)).Nodup := by
  unfold pairsWithCount
  rw [List.map_flatMap]
  rw [List.nodup_flatMap]
  constructor
  · intro p _
    rw [List.map_map]
    apply List.Nodup.map_on
    · intro q hq q' hq' h
      simp only [Function.comp, Prod.mk.injEq, true_and] at h
      exact zipIdx_snd_inj els q q' (List.mem_filter.mp hq).1 (List.mem_filter.mp hq').1 h
    · exact (zipIdx_nodup els).filter _
  · have hpw : List.Pairwise (fun p q : Tri × Nat => p.2 ≠ q.2) els.zipIdx := by
      have := List.nodup_range' (s := 0) (n := els.length) (step := 1)
      rw [← List.zipIdx_map_snd 0 els, List.Nodup, List.pairwise_map] at this
      exact this
    refine hpw.imp ?_
    intro p p' hne
    simp only [Function.onFun, List.disjoint_left, List.mem_map, List.mem_filter]
    rintro x ⟨pq, ⟨q, _, rfl⟩, rfl⟩ ⟨pq', ⟨q', _, rfl⟩, h⟩
    simp only [Prod.mk.injEq] at h
    exact hne h.1.symm

end BemppVerif.Lemmas.Topo
