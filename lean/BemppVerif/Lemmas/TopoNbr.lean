/- Helper lemmas for C11: element_edges entries, neighbour tables, boundary flags. -/
import BemppVerif.Lemmas.TopoAdj

namespace BemppVerif.Lemmas.Topo
open BemppVerif.Model.Topo BemppVerif.Gen

theorem elementEdges_length (els : List Tri) : (elementEdges els).length = els.length :=
  enumGo_length [] els

theorem edges_nodup' (els : List Tri) : (edges els).Nodup := enumGo_nodup [] els List.nodup_nil

theorem elementEdges_spec (els : List Tri) (i : Nat) (t x : Tri) (ht : els[i]? = some t)
    (hx : (elementEdges els)[i]? = some x) :
    (edges els)[x.1]? = some (edgeOf t 0) ∧ (edges els)[x.2.1]? = some (edgeOf t 1) ∧
      (edges els)[x.2.2]? = some (edgeOf t 2) := enumGo_index [] els i t x ht hx

theorem nodup_getElem?_inj {α : Type} {l : List α} (h : l.Nodup) {a b : Nat} {x : α}
    (ha : l[a]? = some x) (hb : l[b]? = some x) : a = b := by
  obtain ⟨ha', rfl⟩ := List.getElem?_eq_some_iff.mp ha
  obtain ⟨hb', hb2⟩ := List.getElem?_eq_some_iff.mp hb
  exact (List.Nodup.getElem_inj_iff h).mp hb2.symm

theorem edgeOf_distinct (t : Tri) (ht : t.NonDegenerate) :
    edgeOf t 0 ≠ edgeOf t 1 ∧ edgeOf t 0 ≠ edgeOf t 2 ∧ edgeOf t 1 ≠ edgeOf t 2 := by
  obtain ⟨a, b, c⟩ := t
  simp only [Tri.NonDegenerate] at ht
  simp only [edgeOf, localEdge, GridConsts.edgeLocal, List.getD_cons_zero, List.getD_cons_succ, Tri.get, sortPair]
  grind

/-- the three local edges are the three vertex pairs of the element (this is where `_EDGE_LOCAL` enters) -/
theorem edgeOf_pairs (t : Tri) :
    edgeOf t 0 = sortPair t.1 t.2.1 ∧ edgeOf t 1 = sortPair t.2.2 t.1 ∧ edgeOf t 2 = sortPair t.2.1 t.2.2 := by
  simp [edgeOf, localEdge, GridConsts.edgeLocal, Tri.get]

theorem sortPair_comm (a b : Nat) : sortPair a b = sortPair b a := by
  simp only [sortPair]; grind

theorem sortPair_lt (a b : Nat) (h : a ≠ b) : (sortPair a b).1 < (sortPair a b).2 := by
  simp only [sortPair]; grind

/-- under `NonDegenerate` the three edge indices of an element are pairwise distinct -/
theorem elementEdges_nondegenerate (els : List Tri) (i : Nat) (t x : Tri) (ht : els[i]? = some t)
    (hx : (elementEdges els)[i]? = some x) (hnd : t.NonDegenerate) : x.NonDegenerate := by
  obtain ⟨h0, h1, h2⟩ := elementEdges_spec els i t x ht hx
  obtain ⟨d01, d02, d12⟩ := edgeOf_distinct t hnd
  refine ⟨?_, ?_, ?_⟩ <;> intro h
  · rw [h] at h0; exact d01 (Option.some.inj (h0.symm.trans h1))
  · rw [h] at h0; exact d02 (Option.some.inj (h0.symm.trans h2))
  · rw [h] at h1; exact d12 (Option.some.inj (h1.symm.trans h2))

/-- `e` is among the edge indices of element `i` iff edge `e` is one of its three edges -/
theorem mem_elementEdges_iff (els : List Tri) (i e : Nat) (t x : Tri) (ht : els[i]? = some t)
    (hx : (elementEdges els)[i]? = some x) :
    e ∈ x.toList ↔ ((edges els)[e]? = some (edgeOf t 0) ∨ (edges els)[e]? = some (edgeOf t 1) ∨
      (edges els)[e]? = some (edgeOf t 2)) := by
  obtain ⟨h0, h1, h2⟩ := elementEdges_spec els i t x ht hx
  have nd := edges_nodup' els
  simp only [Tri.toList, List.mem_cons, List.not_mem_nil, or_false]
  constructor
  · rintro (rfl | rfl | rfl)
    · exact Or.inl h0
    · exact Or.inr (Or.inl h1)
    · exact Or.inr (Or.inr h2)
  · rintro (h | h | h)
    · exact Or.inl (nodup_getElem?_inj nd h h0)
    · exact Or.inr (Or.inl (nodup_getElem?_inj nd h h1))
    · exact Or.inr (Or.inr (nodup_getElem?_inj nd h h2))

/-! ### edge neighbours -/

theorem edgeNeighbors_get (els : List Tri) (e : Nat) (he : e < (edges els).length) :
    (edgeNeighbors els)[e]? = some ((elementEdges els).zipIdx.flatMap fun x =>
      (x.1.toList.filter fun k => k = e).map fun _ => x.2) := by
  simp [edgeNeighbors, he]

theorem mem_edgeNeighbors_row (ee : List Tri) (e i : Nat) :
    i ∈ (ee.zipIdx.flatMap fun x => (x.1.toList.filter fun k => k = e).map fun _ => x.2) ↔
      ∃ x, ee[i]? = some x ∧ e ∈ x.toList := by
  simp only [List.mem_flatMap, List.mem_map, List.mem_filter, decide_eq_true_eq, List.mem_zipIdx_iff_getElem?]
  constructor
  · rintro ⟨⟨x, j⟩, hx, k, ⟨hk, rfl⟩, rfl⟩
    exact ⟨x, hx, hk⟩
  · rintro ⟨x, hx, hk⟩
    exact ⟨(x, i), hx, e, ⟨hk, rfl⟩, rfl⟩

theorem length_edgeNeighbors_row (ee : List Tri) (e : Nat) :
    (ee.zipIdx.flatMap fun x => (x.1.toList.filter fun k => k = e).map fun _ => x.2).length =
      (ee.map fun x => x.toList.count e).sum := by
  rw [List.length_flatMap]
  have key : ∀ x : Tri × Nat, ((x.1.toList.filter fun k => k = e).map fun _ => x.2).length = x.1.toList.count e := by
    intro x
    simp only [List.length_map, List.count, List.countP_eq_length_filter]
    congr 1
  have : ∀ (l : List Tri) (n : Nat), ((l.zipIdx n).map fun x : Tri × Nat =>
      ((x.1.toList.filter fun k => k = e).map fun _ => x.2).length) = l.map fun x => x.toList.count e := by
    intro l
    induction l with
    | nil => simp
    | cons a l ih =>
      intro n
      rw [List.zipIdx_cons, List.map_cons, List.map_cons, ih, key]
  rw [this]

theorem count_le_one_of_nondegenerate (x : Tri) (hx : x.NonDegenerate) (e : Nat) : x.toList.count e ≤ 1 := by
  obtain ⟨a, b, c⟩ := x
  simp only [Tri.NonDegenerate] at hx
  simp only [Tri.toList, List.count_cons, List.count_nil]
  grind

theorem sum_sq_eq_sum (l : List Nat) (h : ∀ c ∈ l, c ≤ 1) : (l.map fun c => c * c).sum = l.sum := by
  induction l with
  | nil => simp
  | cons a l ih =>
    have ha : a ≤ 1 := h a (by simp)
    have : a * a = a := by
      rcases Nat.le_one_iff_eq_zero_or_eq_one.mp ha with rfl | rfl <;> simp
    simp only [List.map_cons, List.sum_cons, this, ih (fun c hc => h c (by simp [hc]))]

/-- under `NonDegenerate` the diagonal of `element_to_edgeᵀ·element_to_edge` is the number of neighbours -/
theorem edgeDiag_eq (els : List Tri) (hnd : NonDegenerate els) (e : Nat) :
    edgeDiag (elementEdges els) e = ((elementEdges els).map fun x => x.toList.count e).sum := by
  unfold edgeDiag
  have := sum_sq_eq_sum ((elementEdges els).map fun x => x.toList.count e) (by
    intro c hc
    simp only [List.mem_map] at hc
    obtain ⟨x, hx, rfl⟩ := hc
    obtain ⟨i, hi⟩ := List.mem_iff_getElem?.mp hx
    have hlt : i < els.length := by
      have := (List.getElem?_eq_some_iff.mp hi).1
      rwa [elementEdges_length] at this
    have ht : els[i]? = some els[i] := List.getElem?_eq_getElem hlt
    exact count_le_one_of_nondegenerate x
      (elementEdges_nondegenerate els i els[i] x ht hi (hnd _ (List.getElem_mem hlt))) e)
  rw [List.map_map] at this
  exact this

/-! ### vertex / element neighbours -/

theorem vertexNeighbors_get (nv : Nat) (els : List Tri) (v : Nat) (hv : v < nv) :
    (vertexNeighbors nv els)[v]? = some ((els.zipIdx.filter fun p => v ∈ p.1.toList).map fun p => p.2) := by
  simp [vertexNeighbors, hv]

theorem mem_filter_zipIdx {α : Type} (l : List α) (P : α → Bool) (i : Nat) :
    i ∈ ((l.zipIdx.filter fun p => P p.1).map fun p => p.2) ↔ ∃ x, l[i]? = some x ∧ P x = true := by
  simp only [List.mem_map, List.mem_filter, List.mem_zipIdx_iff_getElem?]
  constructor
  · rintro ⟨⟨x, j⟩, ⟨hx, hp⟩, rfl⟩
    exact ⟨x, hx, hp⟩
  · rintro ⟨x, hx, hp⟩
    exact ⟨(x, i), ⟨hx, hp⟩, rfl⟩

/-! ### boundary flags -/

theorem edgeOnBoundary_get (els : List Tri) (e : Nat) (he : e < (edges els).length) :
    (edgeOnBoundary els)[e]? = some (edgeDiag (elementEdges els) e == 1) := by
  simp [edgeOnBoundary, he]

theorem edgeOnBoundary_length (els : List Tri) : (edgeOnBoundary els).length = (edges els).length := by
  simp [edgeOnBoundary]

theorem vertexOnBoundary_get (nv : Nat) (els : List Tri) (v : Nat) (hv : v < nv) :
    (vertexOnBoundary nv els)[v]? = some (((edges els).zip (edgeOnBoundary els)).any fun ef =>
      ef.2 && (ef.1.1 == v || ef.1.2 == v)) := by
  simp [vertexOnBoundary, hv]

theorem vertexOnBoundary_iff (nv : Nat) (els : List Tri) (v : Nat) (hv : v < nv) :
    (vertexOnBoundary nv els)[v]? = some true ↔
      ∃ (e : Nat) (ed : Edge), (edges els)[e]? = some ed ∧ (edgeOnBoundary els)[e]? = some true ∧
        (ed.1 = v ∨ ed.2 = v) := by
  rw [vertexOnBoundary_get nv els v hv]
  simp only [Option.some.injEq, List.any_eq_true, Bool.and_eq_true, Bool.or_eq_true, beq_iff_eq]
  constructor
  · rintro ⟨⟨ed, f⟩, hmem, hf, hv⟩
    obtain ⟨e, he⟩ := List.mem_iff_getElem?.mp hmem
    rw [List.getElem?_zip_eq_some] at he
    simp only at hf he
    subst hf
    exact ⟨e, ed, he.1, he.2, hv⟩
  · rintro ⟨e, ed, h1, h2, h3⟩
    refine ⟨(ed, true), ?_, rfl, h3⟩
    apply List.mem_iff_getElem?.mpr
    exact ⟨e, by rw [List.getElem?_zip_eq_some]; exact ⟨h1, h2⟩⟩

end BemppVerif.Lemmas.Topo
