/- Lemmas about the model of `_compute_p1_dof_map` (core Lean only). -/
import BemppVerif.Lemmas.SpaceBasic

namespace BemppVerif.Lemmas.Space
open BemppVerif.Model BemppVerif.Model.Space

/-! ### the table facts the P1 theorems need (C11 proves them for the real tables) -/

/-- every entry of `vertex_neighbors[v]` is an element that has `v` as a vertex -/
def VertexNeighborsSound (T : Tables) : Prop :=
  ∀ v e, e ∈ T.vnbrs v → e < T.ne ∧ ∃ i, i < 3 ∧ T.elements e i = v

/-- every element is listed among the neighbours of each of its vertices -/
def VertexNeighborsComplete (T : Tables) : Prop :=
  ∀ e i, e < T.ne → i < 3 → e ∈ T.vnbrs (T.elements e i)

/-- no element has a repeated vertex index (`Grid` rejects such elements) -/
def NoRepeatedVertex (T : Tables) : Prop :=
  ∀ e i j, e < T.ne → i < 3 → j < 3 → T.elements e i = T.elements e j → i = j

/-- vertex indices are below `number_of_vertices` -/
def VertexRange (T : Tables) : Prop := ∀ e i, e < T.ne → i < 3 → T.elements e i < T.nv

section
variable (T : Tables) (sup : Nat → Bool) (incl trunc : Bool)

/-! ### `find_index` -/

theorem findIndex_spec (row : Nat → Nat) (v : Nat) (h : ∃ i, i < 3 ∧ row i = v) :
    ∃ j, findIndex row v = some j ∧ j < 3 ∧ row j = v ∧ ∀ k, k < j → row k ≠ v := by
  unfold findIndex loc3
  by_cases h0 : row 0 = v
  · exact ⟨0, by simp [h0], by omega, h0, by omega⟩
  · by_cases h1 : row 1 = v
    · refine ⟨1, by simp [h0, h1], by omega, h1, ?_⟩
      intro k hk
      have : k = 0 := by omega
      subst this
      exact h0
    · by_cases h2 : row 2 = v
      · refine ⟨2, by simp [h0, h1, h2], by omega, h2, ?_⟩
        intro k hk
        have : k = 0 ∨ k = 1 := by omega
        rcases this with rfl | rfl
        · exact h0
        · exact h1
      · exfalso
        obtain ⟨i, hi, hv⟩ := h
        have : i = 0 ∨ i = 1 ∨ i = 2 := by omega
        rcases this with rfl | rfl | rfl
        · exact h0 hv
        · exact h1 hv
        · exact h2 hv

theorem findIndex_own (hn : NoRepeatedVertex T) {e i : Nat} (he : e < T.ne) (hi : i < 3) :
    findIndex (T.elements e) (T.elements e i) = some i := by
  obtain ⟨j, hj, hj3, hjv, _⟩ := findIndex_spec (T.elements e) (T.elements e i) ⟨i, hi, rfl⟩
  rw [hj, hn e j i he hj3 hi hjv]

/-! ### the first loop -/

theorem mem_nonSupportNeighbors (v en : Nat) :
    en ∈ nonSupportNeighbors T sup v ↔ en ∈ T.vnbrs v ∧ sup en = false := by
  simp [nonSupportNeighbors]

theorem mem_p1Steps (s : P1Step) :
    s ∈ p1Steps T sup incl trunc ↔ ∃ e i, e < T.ne ∧ sup e = true ∧ i < 3 ∧ s = p1Step T sup incl trunc e i := by
  unfold p1Steps
  simp only [List.mem_flatMap, List.mem_map, mem_supportList, mem_loc3]
  constructor
  · rintro ⟨e, ⟨h1, h2⟩, i, h3, rfl⟩
    exact ⟨e, i, h1, h2, h3, rfl⟩
  · rintro ⟨e, i, h1, h2, h3, rfl⟩
    exact ⟨e, ⟨h1, h2⟩, i, h3, rfl⟩

/-- the condition of the first `if` -/
def OwnCond (v : Nat) : Prop := incl = true ∨ nodeIsInterior T sup v = true

theorem mem_p1Step_own (e i : Nat) (w : Store) :
    w ∈ (p1Step T sup incl trunc e i).own.toList ↔ w = (e, i, T.elements e i) ∧ OwnCond T sup incl (T.elements e i) := by
  unfold p1Step OwnCond
  simp only
  by_cases h : (incl || nodeIsInterior T sup (T.elements e i)) = true
  · rw [if_pos h]
    simp only [Option.toList_some, List.mem_singleton]
    simp only [Bool.or_eq_true] at h
    exact ⟨fun hw => ⟨hw, h⟩, fun hw => hw.1⟩
  · rw [if_neg h]
    simp only [Option.toList_none, List.not_mem_nil, false_iff]
    simp only [Bool.or_eq_true] at h
    exact fun hw => h hw.2

theorem mem_p1Step_ext (e i : Nat) (w : Store) :
    w ∈ (p1Step T sup incl trunc e i).ext ↔ incl = true ∧ trunc = false ∧
      ∃ en, en ∈ nonSupportNeighbors T sup (T.elements e i) ∧
        w = (en, (findIndex (T.elements en) (T.elements e i)).getD 2, T.elements e i) := by
  unfold p1Step
  simp only
  by_cases h : (!(nonSupportNeighbors T sup (T.elements e i)).isEmpty && !trunc && incl) = true
  · rw [if_pos h]
    simp only [Bool.and_eq_true, Bool.not_eq_true'] at h
    simp only [List.mem_map]
    constructor
    · rintro ⟨en, hen, rfl⟩
      exact ⟨h.2, h.1.2, en, hen, rfl⟩
    · rintro ⟨_, _, en, hen, rfl⟩
      exact ⟨en, hen, rfl⟩
  · rw [if_neg h]
    simp only [List.not_mem_nil, false_iff]
    rintro ⟨h1, h2, en, hen, _⟩
    apply h
    subst h1 h2
    have : (nonSupportNeighbors T sup (T.elements e i)).isEmpty = false := by
      cases hl : nonSupportNeighbors T sup (T.elements e i) with
      | nil => rw [hl] at hen; cases hen
      | cons _ _ => rfl
    simp [this]

theorem mem_p1Stores (w : Store) :
    w ∈ p1Stores T sup incl trunc ↔ ∃ e i, e < T.ne ∧ sup e = true ∧ i < 3 ∧
      ((w = (e, i, T.elements e i) ∧ OwnCond T sup incl (T.elements e i)) ∨
       (incl = true ∧ trunc = false ∧ ∃ en, en ∈ nonSupportNeighbors T sup (T.elements e i) ∧
          w = (en, (findIndex (T.elements en) (T.elements e i)).getD 2, T.elements e i))) := by
  unfold p1Stores
  simp only [List.mem_flatMap, mem_p1Steps, List.mem_append]
  constructor
  · rintro ⟨s, ⟨e, i, h1, h2, h3, rfl⟩, hw⟩
    refine ⟨e, i, h1, h2, h3, ?_⟩
    rcases hw with hw | hw
    · exact Or.inl ((mem_p1Step_own T sup incl trunc e i w).1 hw)
    · exact Or.inr ((mem_p1Step_ext T sup incl trunc e i w).1 hw)
  · rintro ⟨e, i, h1, h2, h3, hw⟩
    refine ⟨_, ⟨e, i, h1, h2, h3, rfl⟩, ?_⟩
    rcases hw with hw | hw
    · exact Or.inl ((mem_p1Step_own T sup incl trunc e i w).2 hw)
    · exact Or.inr ((mem_p1Step_ext T sup incl trunc e i w).2 hw)

/-- under `VertexNeighborsSound` every store writes the vertex index of the cell it writes to -/
theorem p1Stores_sound (hs : VertexNeighborsSound T) {e i x : Nat} (h : (e, i, x) ∈ p1Stores T sup incl trunc) :
    x = T.elements e i ∧ i < 3 ∧ e < T.ne := by
  rw [mem_p1Stores] at h
  obtain ⟨e0, i0, h1, h2, h3, hw⟩ := h
  rcases hw with ⟨hw, _⟩ | ⟨_, _, en, hen, hw⟩
  · cases hw
    exact ⟨rfl, h3, h1⟩
  · rw [mem_nonSupportNeighbors] at hen
    obtain ⟨hlt, hex⟩ := hs _ _ hen.1
    obtain ⟨j, hj, hj3, hjv, _⟩ := findIndex_spec (T.elements en) (T.elements e0 i0) hex
    rw [hj] at hw
    simp only [Option.getD_some] at hw
    cases hw
    exact ⟨hjv.symm, hj3, hlt⟩

/-- cell `(e, i)` is written by the first loop (then it holds `elements[i, e]`) -/
def P1Used (e i : Nat) : Prop := (e, i, T.elements e i) ∈ p1Stores T sup incl trunc

theorem lastWrite_p1 (hs : VertexNeighborsSound T) (e i x : Nat) :
    lastWrite (p1Stores T sup incl trunc) e i = some x ↔ x = T.elements e i ∧ P1Used T sup incl trunc e i := by
  constructor
  · intro h
    have hm := lastWrite_eq_some h
    have := (p1Stores_sound T sup incl trunc hs hm).1
    subst this
    exact ⟨rfl, hm⟩
  · rintro ⟨rfl, hu⟩
    exact (lastWrite_consistent (fun y hy => (p1Stores_sound T sup incl trunc hs hy).1)).2 hu

theorem lastWrite_p1_none (hs : VertexNeighborsSound T) (e i : Nat) :
    lastWrite (p1Stores T sup incl trunc) e i = none ↔ ¬ P1Used T sup incl trunc e i := by
  constructor
  · intro h hu
    rw [((lastWrite_p1 T sup incl trunc hs e i _).2 ⟨rfl, hu⟩)] at h
    cases h
  · intro h
    cases hl : lastWrite (p1Stores T sup incl trunc) e i with
    | none => rfl
    | some x => exact absurd ((lastWrite_p1 T sup incl trunc hs e i x).1 hl).2 h

theorem P1Used.lt (hs : VertexNeighborsSound T) {e i : Nat} (h : P1Used T sup incl trunc e i) : i < 3 ∧ e < T.ne :=
  (p1Stores_sound T sup incl trunc hs h).2

/-- the vertices selected by the options: a vertex of a support element that is interior to the support and off the
grid boundary, or any vertex of a support element when boundary dofs are included -/
def P1Selected (v : Nat) : Prop :=
  ∃ e i, e < T.ne ∧ sup e = true ∧ i < 3 ∧ T.elements e i = v ∧ OwnCond T sup incl v

theorem p1Marked_iff (v : Nat) : p1Marked T sup incl trunc v = true ↔ P1Selected T sup incl v := by
  unfold p1Marked P1Selected
  rw [List.any_eq_true]
  constructor
  · rintro ⟨s, hs, hm⟩
    rw [mem_p1Steps] at hs
    obtain ⟨e, i, h1, h2, h3, rfl⟩ := hs
    cases ho : (p1Step T sup incl trunc e i).own with
    | none => rw [ho] at hm; cases hm
    | some w =>
      rw [ho] at hm
      have hw : w ∈ (p1Step T sup incl trunc e i).own.toList := by rw [ho]; simp
      rw [mem_p1Step_own] at hw
      obtain ⟨rfl, hc⟩ := hw
      simp only [beq_iff_eq] at hm
      subst hm
      exact ⟨e, i, h1, h2, h3, rfl, hc⟩
  · rintro ⟨e, i, h1, h2, h3, rfl, hc⟩
    refine ⟨p1Step T sup incl trunc e i, (mem_p1Steps T sup incl trunc _).2 ⟨e, i, h1, h2, h3, rfl⟩, ?_⟩
    have hw : (e, i, T.elements e i) ∈ (p1Step T sup incl trunc e i).own.toList :=
      (mem_p1Step_own T sup incl trunc e i _).2 ⟨rfl, hc⟩
    cases ho : (p1Step T sup incl trunc e i).own with
    | none => rw [ho] at hw; cases hw
    | some w =>
      rw [ho] at hw
      simp only [Option.toList_some, List.mem_singleton] at hw
      subst hw
      simp

/-- closed form of `P1Used`: the cell belongs to a support element and its vertex is selected, or (boundary dofs
included, no truncation) it is the first position of a selected vertex in a non-support neighbour of that vertex -/
theorem p1Used_iff (e i : Nat) :
    P1Used T sup incl trunc e i ↔
      (e < T.ne ∧ sup e = true ∧ i < 3 ∧ OwnCond T sup incl (T.elements e i)) ∨
      (incl = true ∧ trunc = false ∧ sup e = false ∧ e ∈ T.vnbrs (T.elements e i) ∧
        (findIndex (T.elements e) (T.elements e i)).getD 2 = i ∧
        ∃ e0 i0, e0 < T.ne ∧ sup e0 = true ∧ i0 < 3 ∧ T.elements e0 i0 = T.elements e i) := by
  unfold P1Used
  rw [mem_p1Stores]
  constructor
  · rintro ⟨e0, i0, h1, h2, h3, hw | ⟨hi, ht, en, hen, hw⟩⟩
    · obtain ⟨hw, hc⟩ := hw
      cases hw
      exact Or.inl ⟨h1, h2, h3, hc⟩
    · have hen' := (mem_nonSupportNeighbors T sup _ _).1 hen
      have e1 : e = en := congrArg Prod.fst hw
      have e2 : i = (findIndex (T.elements en) (T.elements e0 i0)).getD 2 := congrArg (fun p => p.2.1) hw
      have e3 : T.elements e i = T.elements e0 i0 := congrArg (fun p => p.2.2) hw
      subst e1
      rw [← e3] at e2 hen'
      exact Or.inr ⟨hi, ht, hen'.2, hen'.1, e2.symm, e0, i0, h1, h2, h3, e3.symm⟩
  · rintro (⟨h1, h2, h3, hc⟩ | ⟨hi, ht, hse, hmem, hfi, e0, i0, h1, h2, h3, hv⟩)
    · exact ⟨e, i, h1, h2, h3, Or.inl ⟨rfl, hc⟩⟩
    · refine ⟨e0, i0, h1, h2, h3, Or.inr ⟨hi, ht, e, ?_, ?_⟩⟩
      · rw [hv]
        exact (mem_nonSupportNeighbors T sup _ _).2 ⟨hmem, hse⟩
      · rw [hv, hfi]

/-- a written cell holds a marked vertex -/
theorem P1Used.marked {e i : Nat} (h : P1Used T sup incl trunc e i) :
    P1Selected T sup incl (T.elements e i) := by
  rcases (p1Used_iff T sup incl trunc e i).1 h with ⟨h1, h2, h3, hc⟩ | ⟨hi, _, _, _, _, e0, i0, h1, h2, h3, hv⟩
  · exact ⟨e, i, h1, h2, h3, rfl, hc⟩
  · exact ⟨e0, i0, h1, h2, h3, hv, Or.inl hi⟩

/-! ### `used_dofs` and `dofs` -/

theorem mem_p1Used (v : Nat) : v ∈ p1Used T sup incl trunc ↔ v < T.nv ∧ P1Selected T sup incl v := by
  unfold p1Used
  rw [List.mem_filter, List.mem_range, p1Marked_iff]

theorem p1Used_pairwise : (p1Used T sup incl trunc).Pairwise (· < ·) :=
  List.Pairwise.filter _ List.pairwise_lt_range

theorem P1Selected.mem_used (hr : VertexRange T) {v : Nat} (h : P1Selected T sup incl v) : v ∈ p1Used T sup incl trunc := by
  rw [mem_p1Used]
  obtain ⟨e, i, h1, _, h3, rfl, _⟩ := h
  exact ⟨hr e i h1 h3, ⟨e, i, h1, ‹_›, h3, rfl, ‹_›⟩⟩

/-! ### the second loop -/

theorem mem_p1Extended (en : Nat) : en ∈ p1Extended T sup incl trunc ↔
    ∃ w, w ∈ p1Stores T sup incl trunc ∧ w.1 = en ∧ ∃ e i, e < T.ne ∧ sup e = true ∧ i < 3 ∧
      w ∈ (p1Step T sup incl trunc e i).ext := by
  unfold p1Extended p1Stores
  simp only [List.mem_flatMap, List.mem_map, mem_p1Steps, List.mem_append]
  constructor
  · rintro ⟨s, ⟨e, i, h1, h2, h3, rfl⟩, w, hw, rfl⟩
    exact ⟨w, ⟨_, ⟨e, i, h1, h2, h3, rfl⟩, Or.inr hw⟩, rfl, e, i, h1, h2, h3, hw⟩
  · rintro ⟨w, _, rfl, e, i, h1, h2, h3, hw⟩
    exact ⟨_, ⟨e, i, h1, h2, h3, rfl⟩, w, hw, rfl⟩

/-- a cell of an element that the second loop does not visit was never written -/
theorem lastWrite_unvisited {e : Nat}
    (hv : (supportList T.ne sup ++ (p1Extended T sup incl trunc).eraseDups).contains e = false) (i : Nat) :
    lastWrite (p1Stores T sup incl trunc) e i = none := by
  rw [lastWrite_eq_none]
  intro y hy
  have hne : e ∉ supportList T.ne sup ++ (p1Extended T sup incl trunc).eraseDups := by
    intro hm
    rw [← List.contains_iff_mem] at hm
    rw [hm] at hv
    cases hv
  apply hne
  rw [List.mem_append, List.mem_eraseDups, mem_supportList]
  have hy' := hy
  rw [mem_p1Stores] at hy
  obtain ⟨e0, i0, h1, h2, h3, ⟨hw, _⟩ | ⟨hi, ht, en, hen, hw⟩⟩ := hy
  · cases hw
    exact Or.inl ⟨h1, h2⟩
  · right
    rw [mem_p1Extended]
    refine ⟨_, hy', rfl, e0, i0, h1, h2, h3, ?_⟩
    rw [mem_p1Step_ext]
    exact ⟨hi, ht, en, hen, hw⟩

theorem p1Row_none (l0 : Nat → Option Nat) (dofs : Nat → Nat) (h : ∀ i, l0 i = none) :
    p1Row l0 dofs = (false, [0, 0, 0], [0, 0, 0]) := by
  unfold p1Row
  simp [loc3, h]

/-- the row function used by `p1` -/
def p1RowOf (e : Nat) : Bool × List Nat × List Int :=
  p1Row (lastWrite (p1Stores T sup incl trunc) e) (fun v => (p1Used T sup incl trunc).idxOf v)

theorem p1_space : (p1 T sup incl trunc).space =
    mkSpace T.ne (fun e => (p1RowOf T sup incl trunc e).1) (fun e => (p1RowOf T sup incl trunc e).2.1)
      (fun e => (p1RowOf T sup incl trunc e).2.2) := by
  have key : ∀ e, (if (supportList T.ne sup ++ (p1Extended T sup incl trunc).eraseDups).contains e = true then
      p1Row (lastWrite (p1Stores T sup incl trunc) e) (fun v => (p1Used T sup incl trunc).idxOf v)
      else (false, [0, 0, 0], [0, 0, 0])) = p1RowOf T sup incl trunc e := by
    intro e
    unfold p1RowOf
    split
    · rfl
    · rename_i hc
      rw [p1Row_none]
      intro i
      exact lastWrite_unvisited T sup incl trunc (by simpa using hc) i
  unfold p1
  simp only [key]

theorem p1_count : (p1 T sup incl trunc).count = (p1Used T sup incl trunc).length := rfl

theorem p1Row_fst (l0 : Nat → Option Nat) (dofs : Nat → Nat) :
    (p1Row l0 dofs).1 = true ↔ ∃ i, i < 3 ∧ (l0 i).isSome = true := by
  unfold p1Row
  split
  · rename_i h
    rw [List.any_eq_true] at h
    obtain ⟨i, hi, hs⟩ := h
    simp only [true_iff]
    exact ⟨i, (mem_loc3 i).1 hi, hs⟩
  · rename_i h
    simp only [Bool.false_eq_true, false_iff]
    rintro ⟨i, hi, hs⟩
    apply h
    rw [List.any_eq_true]
    exact ⟨i, (mem_loc3 i).2 hi, hs⟩

theorem p1Row_mult (l0 : Nat → Option Nat) (dofs : Nat → Nat) (i : Nat) :
    (p1Row l0 dofs).2.2.getD i 0 = if i < 3 ∧ (l0 i).isSome = true ∧ (p1Row l0 dofs).1 = true then 1 else 0 := by
  by_cases hf : (p1Row l0 dofs).1 = true
  · have hf' := hf
    unfold p1Row at hf ⊢
    split
    · simp only [map_loc3_getD]
      by_cases hi : i < 3
      · simp only [hi, if_true, true_and]
        split <;> simp_all
      · simp [hi]
    · rename_i h
      rw [if_neg h] at hf
      cases hf
  · have : (p1Row l0 dofs).2.2 = [0, 0, 0] := by
      unfold p1Row at hf ⊢
      split
      · rename_i h
        rw [if_pos h] at hf
        exact absurd rfl hf
      · rfl
    rw [this]
    have hneg : ¬ (i < 3 ∧ (l0 i).isSome = true ∧ (p1Row l0 dofs).1 = true) := fun h => hf h.2.2
    rw [if_neg hneg]
    match i with
    | 0 => rfl
    | 1 => rfl
    | 2 => rfl
    | (k + 3) => rfl

theorem p1Row_l2g_some (l0 : Nat → Option Nat) (dofs : Nat → Nat) {i v : Nat} (hi : i < 3) (h : l0 i = some v) :
    (p1Row l0 dofs).2.1.getD i 0 = dofs v := by
  unfold p1Row
  split
  · simp only [map_loc3_getD, hi, if_true, h]
  · rename_i hn
    exfalso
    apply hn
    rw [List.any_eq_true]
    exact ⟨i, (mem_loc3 i).2 hi, by simp [h]⟩

/-- the artificial entry: an unused local index of a supported row repeats the dof of a used local index -/
theorem p1Row_l2g_none (l0 : Nat → Option Nat) (dofs : Nat → Nat) (hf : (p1Row l0 dofs).1 = true) {i : Nat}
    (hi : i < 3) (h : l0 i = none) :
    ∃ j v, j < 3 ∧ l0 j = some v ∧ (p1Row l0 dofs).2.1.getD i 0 = dofs v := by
  obtain ⟨j0, hj0, hs0⟩ := (p1Row_fst l0 dofs).1 hf
  obtain ⟨v0, hv0⟩ := Option.isSome_iff_exists.1 hs0
  unfold p1Row
  split
  · simp only [map_loc3_getD, hi, if_true, h]
    -- the maximum of the three mapped values is one of them
    have hmax : ∀ a b c : Nat, [a, b, c].foldl max 0 = a ∨ [a, b, c].foldl max 0 = b ∨ [a, b, c].foldl max 0 = c := by
      intro a b c
      simp only [List.foldl_cons, List.foldl_nil]
      omega
    have hge : ∀ a b c : Nat, a ≤ [a, b, c].foldl max 0 ∧ b ≤ [a, b, c].foldl max 0 ∧ c ≤ [a, b, c].foldl max 0 := by
      intro a b c
      simp only [List.foldl_cons, List.foldl_nil]
      omega
    let m : Nat → Nat := fun i => match l0 i with
      | some v => dofs v
      | none => 0
    change ∃ j v, j < 3 ∧ l0 j = some v ∧ [m 0, m 1, m 2].foldl max 0 = dofs v
    have hj0m : m j0 ≤ [m 0, m 1, m 2].foldl max 0 := by
      have := hge (m 0) (m 1) (m 2)
      have : j0 = 0 ∨ j0 = 1 ∨ j0 = 2 := by omega
      rcases this with rfl | rfl | rfl <;> omega
    have hmj0 : m j0 = dofs v0 := by simp only [m, hv0]
    -- pick the index where the maximum is attained
    have pick : ∀ k, k < 3 → [m 0, m 1, m 2].foldl max 0 = m k →
        ∃ j v, j < 3 ∧ l0 j = some v ∧ [m 0, m 1, m 2].foldl max 0 = dofs v := by
      intro k hk hmk
      cases hl : l0 k with
      | some v =>
        refine ⟨k, v, hk, hl, ?_⟩
        rw [hmk]
        simp only [m, hl]
      | none =>
        have : m k = 0 := by simp only [m, hl]
        refine ⟨j0, v0, hj0, hv0, ?_⟩
        omega
    rcases hmax (m 0) (m 1) (m 2) with h0 | h1 | h2
    · exact pick 0 (by omega) h0
    · exact pick 1 (by omega) h1
    · exact pick 2 (by omega) h2
  · rename_i hn
    unfold p1Row at hf
    rw [if_neg hn] at hf
    cases hf

theorem p1Row_length (l0 : Nat → Option Nat) (dofs : Nat → Nat) : (p1Row l0 dofs).2.1.length = 3 := by
  unfold p1Row
  split <;> rfl

/-! ### the arrays of the final P1 space -/

theorem p1_nelems : (p1 T sup incl trunc).space.nelems = T.ne := by
  rw [p1_space]
  rfl

theorem p1_row {e : Nat} (he : e < T.ne) :
    (p1 T sup incl trunc).space.row e = (p1RowOf T sup incl trunc e).2.1 := by
  rw [p1_space, mkSpace_row _ _ _ _ he]

theorem p1_row_getElem? {e : Nat} (he : e < T.ne) (i d : Nat) :
    ((p1 T sup incl trunc).space.row e)[i]? = some d ↔ i < 3 ∧ l2gOf (p1 T sup incl trunc).space e i = d := by
  unfold l2gOf
  rw [p1_row T sup incl trunc he, List.getD_eq_getElem?_getD]
  have hl := p1Row_length (lastWrite (p1Stores T sup incl trunc) e) (fun v => (p1Used T sup incl trunc).idxOf v)
  unfold p1RowOf
  constructor
  · intro h
    have hi : i < 3 := by
      have := (List.getElem?_eq_some_iff.1 h).1
      omega
    exact ⟨hi, by rw [h]; rfl⟩
  · rintro ⟨hi, h⟩
    rw [List.getElem?_eq_getElem (by omega)] at h ⊢
    simpa using h

theorem isSome_lastWrite_p1 (hs : VertexNeighborsSound T) (e i : Nat) :
    (lastWrite (p1Stores T sup incl trunc) e i).isSome = true ↔ P1Used T sup incl trunc e i := by
  rw [Option.isSome_iff_exists]
  constructor
  · rintro ⟨x, hx⟩
    exact ((lastWrite_p1 T sup incl trunc hs e i x).1 hx).2
  · intro h
    exact ⟨_, (lastWrite_p1 T sup incl trunc hs e i _).2 ⟨rfl, h⟩⟩

/-- `support_final[e]`: some cell of the row was written -/
theorem p1_sup (hs : VertexNeighborsSound T) (e : Nat) :
    (p1 T sup incl trunc).space.sup e = true ↔ e < T.ne ∧ ∃ i, i < 3 ∧ P1Used T sup incl trunc e i := by
  rw [p1_space]
  constructor
  · intro h
    obtain ⟨he, h⟩ := mkSpace_sup_true _ _ _ _ h
    refine ⟨he, ?_⟩
    unfold p1RowOf at h
    obtain ⟨i, hi, hsome⟩ := (p1Row_fst _ _).1 h
    exact ⟨i, hi, (isSome_lastWrite_p1 T sup incl trunc hs e i).1 hsome⟩
  · rintro ⟨he, i, hi, hu⟩
    rw [mkSpace_sup _ _ _ _ he]
    unfold p1RowOf
    exact (p1Row_fst _ _).2 ⟨i, hi, (isSome_lastWrite_p1 T sup incl trunc hs e i).2 hu⟩

/-- multiplier 1 on written cells, 0 elsewhere -/
theorem p1_mult (hs : VertexNeighborsSound T) {e : Nat} (he : e < T.ne) (i : Nat) :
    (P1Used T sup incl trunc e i ∧ multOf (p1 T sup incl trunc).space e i = 1) ∨
    (¬ P1Used T sup incl trunc e i ∧ multOf (p1 T sup incl trunc).space e i = 0) := by
  unfold multOf
  rw [p1_space, mkSpace_mult _ _ _ _ he]
  unfold p1RowOf
  rw [p1Row_mult]
  by_cases hu : P1Used T sup incl trunc e i
  · left
    refine ⟨hu, ?_⟩
    have h3 := (P1Used.lt T sup incl trunc hs hu).1
    rw [if_pos]
    exact ⟨h3, (isSome_lastWrite_p1 T sup incl trunc hs e i).2 hu,
      (p1Row_fst _ _).2 ⟨i, h3, (isSome_lastWrite_p1 T sup incl trunc hs e i).2 hu⟩⟩
  · right
    refine ⟨hu, ?_⟩
    rw [if_neg]
    rintro ⟨_, h2, _⟩
    exact hu ((isSome_lastWrite_p1 T sup incl trunc hs e i).1 h2)

theorem p1_nz (hs : VertexNeighborsSound T) {e : Nat} (he : e < T.ne) (i : Nat) :
    (p1 T sup incl trunc).space.nz e i = true ↔ P1Used T sup incl trunc e i := by
  rw [nz_iff_multOf]
  rcases p1_mult T sup incl trunc hs he i with ⟨hu, hm⟩ | ⟨hu, hm⟩
  · rw [hm]
    exact ⟨fun _ => hu, fun _ => by decide⟩
  · rw [hm]
    exact ⟨fun h => absurd rfl h, fun h => absurd h hu⟩

/-- a written cell holds the rank of its vertex among the used vertices -/
theorem p1_l2g_used (hs : VertexNeighborsSound T) {e i : Nat} (hu : P1Used T sup incl trunc e i) :
    l2gOf (p1 T sup incl trunc).space e i = (p1Used T sup incl trunc).idxOf (T.elements e i) := by
  obtain ⟨h3, he⟩ := P1Used.lt T sup incl trunc hs hu
  unfold l2gOf
  rw [p1_row T sup incl trunc he]
  unfold p1RowOf
  exact p1Row_l2g_some _ _ h3 ((lastWrite_p1 T sup incl trunc hs e i _).2 ⟨rfl, hu⟩)

/-- an unwritten cell of a supported row repeats the dof of a written cell of the same row -/
theorem p1_l2g_artificial (hs : VertexNeighborsSound T) {e i : Nat}
    (hsup : (p1 T sup incl trunc).space.sup e = true) (hi : i < 3) (hnu : ¬ P1Used T sup incl trunc e i) :
    ∃ j, P1Used T sup incl trunc e j ∧
      l2gOf (p1 T sup incl trunc).space e i = l2gOf (p1 T sup incl trunc).space e j := by
  have he := ((p1_sup T sup incl trunc hs e).1 hsup).1
  have hf : (p1RowOf T sup incl trunc e).1 = true := by
    rw [p1_space, mkSpace_sup _ _ _ _ he] at hsup
    exact hsup
  unfold p1RowOf at hf
  obtain ⟨j, v, hj, hjv, hval⟩ := p1Row_l2g_none _ _ hf hi ((lastWrite_p1_none T sup incl trunc hs e i).2 hnu)
  have huj := ((lastWrite_p1 T sup incl trunc hs e j v).1 hjv)
  refine ⟨j, huj.2, ?_⟩
  rw [p1_l2g_used T sup incl trunc hs huj.2, ← huj.1]
  unfold l2gOf
  rw [p1_row T sup incl trunc he]
  exact hval

theorem p1_row_unsupported (hs : VertexNeighborsSound T) {e : Nat} (he : e < T.ne)
    (hsup : (p1 T sup incl trunc).space.sup e = false) : (p1 T sup incl trunc).space.row e = [0, 0, 0] := by
  rw [p1_row T sup incl trunc he]
  unfold p1RowOf
  rw [p1Row_none]
  intro i
  rw [lastWrite_p1_none T sup incl trunc hs]
  intro hu
  have := (p1_sup T sup incl trunc hs e).2 ⟨he, i, (P1Used.lt T sup incl trunc hs hu).1, hu⟩
  rw [this] at hsup
  cases hsup

/-! ### main statements about the P1 dof map -/

/-- every `(e, i)` in `global2local[d]` is a written cell whose vertex is the `d`-th used vertex -/
theorem p1_g2l_vertex (hs : VertexNeighborsSound T) (hr : VertexRange T) (d : Nat) (p : Nat × Nat)
    (hp : p ∈ Color.g2l (p1 T sup incl trunc).space d) :
    P1Used T sup incl trunc p.1 p.2 ∧
      ∃ h : d < (p1Used T sup incl trunc).length, (p1Used T sup incl trunc)[d] = T.elements p.1 p.2 := by
  rw [Color.mem_g2l, p1_nelems] at hp
  obtain ⟨he, hrow, hnz⟩ := hp
  have hu := (p1_nz T sup incl trunc hs he p.2).1 hnz
  refine ⟨hu, ?_⟩
  have hd := ((p1_row_getElem? T sup incl trunc he p.2 d).1 hrow).2
  rw [p1_l2g_used T sup incl trunc hs hu] at hd
  have hmem := P1Selected.mem_used T sup incl trunc hr (P1Used.marked T sup incl trunc hu)
  have hlt := List.idxOf_lt_length_iff.2 hmem
  subst hd
  exact ⟨hlt, List.getElem_idxOf hlt⟩

/-- every used vertex carries a dof: `global2local[d]` is not empty -/
theorem p1_g2l_nonempty (hs : VertexNeighborsSound T) (d : Nat) (hd : d < (p1Used T sup incl trunc).length) :
    ∃ e i, (e, i) ∈ Color.g2l (p1 T sup incl trunc).space d ∧ T.elements e i = (p1Used T sup incl trunc)[d] := by
  have hmem : (p1Used T sup incl trunc)[d] ∈ p1Used T sup incl trunc := List.getElem_mem hd
  obtain ⟨_, e, i, h1, h2, h3, hv, hc⟩ := (mem_p1Used T sup incl trunc _).1 hmem
  have hu : P1Used T sup incl trunc e i := (p1Used_iff T sup incl trunc e i).2 (Or.inl ⟨h1, h2, h3, hv ▸ hc⟩)
  refine ⟨e, i, ?_, hv⟩
  rw [Color.mem_g2l, p1_nelems]
  refine ⟨h1, ?_, (p1_nz T sup incl trunc hs h1 i).2 hu⟩
  rw [p1_row_getElem? T sup incl trunc h1]
  refine ⟨h3, ?_⟩
  rw [p1_l2g_used T sup incl trunc hs hu, hv]
  exact List.Nodup.idxOf_getElem (pairwise_lt_nodup (p1Used_pairwise T sup incl trunc)) d hd

/-- at a vertex shared by two elements of the final support the cell of one is written iff the cell of the other is -/
theorem p1_used_of_shared (hs : VertexNeighborsSound T) (hc : VertexNeighborsComplete T) (hn : NoRepeatedVertex T)
    {e e' i j : Nat} (hse' : (p1 T sup incl trunc).space.sup e' = true) (hj : j < 3)
    (hv : T.elements e i = T.elements e' j) (hu : P1Used T sup incl trunc e i) : P1Used T sup incl trunc e' j := by
  obtain ⟨he', k, hk, huk⟩ := (p1_sup T sup incl trunc hs e').1 hse'
  rw [p1Used_iff]
  rcases (p1Used_iff T sup incl trunc e i).1 hu with ⟨he, hsupe, hi, hown⟩ | ⟨hincl, htr, _, _, _, e0, i0, h1, h2, h3, hv0⟩
  · cases hsup' : sup e' with
    | true => exact Or.inl ⟨he', rfl, hj, hv ▸ hown⟩
    | false =>
      rcases (p1Used_iff T sup incl trunc e' k).1 huk with ⟨_, hcontra, _, _⟩ | ⟨hincl, htr, _, _, _, _⟩
      · rw [hsup'] at hcontra
        cases hcontra
      · refine Or.inr ⟨hincl, htr, rfl, hc e' j he' hj, ?_, e, i, he, hsupe, hi, hv⟩
        rw [findIndex_own T hn he' hj]
        rfl
  · cases hsup' : sup e' with
    | true => exact Or.inl ⟨he', rfl, hj, Or.inl hincl⟩
    | false =>
      refine Or.inr ⟨hincl, htr, rfl, hc e' j he' hj, ?_, e0, i0, h1, h2, h3, hv0.trans hv⟩
      rw [findIndex_own T hn he' hj]
      rfl

/-- `p1_vertex_single_valued` in multiplier / dof form -/
theorem p1_single_valued (hs : VertexNeighborsSound T) (hc : VertexNeighborsComplete T) (hn : NoRepeatedVertex T)
    {e e' i j : Nat} (hse : (p1 T sup incl trunc).space.sup e = true)
    (hse' : (p1 T sup incl trunc).space.sup e' = true) (hi : i < 3) (hj : j < 3)
    (hv : T.elements e i = T.elements e' j) :
    multOf (p1 T sup incl trunc).space e i = multOf (p1 T sup incl trunc).space e' j ∧
    (multOf (p1 T sup incl trunc).space e i ≠ 0 →
      l2gOf (p1 T sup incl trunc).space e i = l2gOf (p1 T sup incl trunc).space e' j) := by
  have he := ((p1_sup T sup incl trunc hs e).1 hse).1
  have he' := ((p1_sup T sup incl trunc hs e').1 hse').1
  rcases p1_mult T sup incl trunc hs he i with ⟨hu, hm⟩ | ⟨hu, hm⟩
  · have hu' := p1_used_of_shared T sup incl trunc hs hc hn hse' hj hv hu
    rcases p1_mult T sup incl trunc hs he' j with ⟨_, hm'⟩ | ⟨hnu', _⟩
    · refine ⟨by rw [hm, hm'], fun _ => ?_⟩
      rw [p1_l2g_used T sup incl trunc hs hu, p1_l2g_used T sup incl trunc hs hu', hv]
    · exact absurd hu' hnu'
  · rcases p1_mult T sup incl trunc hs he' j with ⟨hu', _⟩ | ⟨_, hm'⟩
    · exact absurd (p1_used_of_shared T sup incl trunc hs hc hn hse hi hv.symm hu') hu
    · exact ⟨by rw [hm, hm'], fun h => absurd hm h⟩

/-- `artificial_dof_owned` for P1 -/
theorem p1_owned (hs : VertexNeighborsSound T) (e : Nat) (he : e < (p1 T sup incl trunc).space.nelems)
    (hsup : (p1 T sup incl trunc).space.sup e = true) (i d : Nat)
    (hrow : ((p1 T sup incl trunc).space.row e)[i]? = some d) :
    ∃ j, ((p1 T sup incl trunc).space.row e)[j]? = some d ∧ (p1 T sup incl trunc).space.nz e j = true := by
  rw [p1_nelems] at he
  obtain ⟨hi, hd⟩ := (p1_row_getElem? T sup incl trunc he i d).1 hrow
  by_cases hu : P1Used T sup incl trunc e i
  · exact ⟨i, hrow, (p1_nz T sup incl trunc hs he i).2 hu⟩
  · obtain ⟨j, huj, hl⟩ := p1_l2g_artificial T sup incl trunc hs hsup hi hu
    refine ⟨j, ?_, (p1_nz T sup incl trunc hs he j).2 huj⟩
    rw [p1_row_getElem? T sup incl trunc he]
    exact ⟨(P1Used.lt T sup incl trunc hs huj).1, by rw [← hl, hd]⟩

/-- every entry of `local2global` is below `max 1 (number of used vertices)` -/
theorem p1_entry_lt (hs : VertexNeighborsSound T) (hr : VertexRange T) {e x : Nat} (he : e < T.ne)
    (hx : x ∈ (p1 T sup incl trunc).space.row e) : x < max 1 (p1Used T sup incl trunc).length := by
  cases hsup : (p1 T sup incl trunc).space.sup e with
  | false =>
    rw [p1_row_unsupported T sup incl trunc hs he hsup] at hx
    simp only [List.mem_cons, List.not_mem_nil, or_false, or_self] at hx
    omega
  | true =>
    obtain ⟨i, hi⟩ := List.getElem?_of_mem hx
    obtain ⟨hi3, hd⟩ := (p1_row_getElem? T sup incl trunc he i x).1 hi
    have key : ∀ j, P1Used T sup incl trunc e j →
        l2gOf (p1 T sup incl trunc).space e j < max 1 (p1Used T sup incl trunc).length := by
      intro j huj
      rw [p1_l2g_used T sup incl trunc hs huj]
      have := List.idxOf_lt_length_iff.2
        (P1Selected.mem_used T sup incl trunc hr (P1Used.marked T sup incl trunc huj))
      omega
    by_cases hu : P1Used T sup incl trunc e i
    · rw [← hd]
      exact key i hu
    · obtain ⟨j, huj, hl⟩ := p1_l2g_artificial T sup incl trunc hs hsup hi3 hu
      rw [← hd, hl]
      exact key j huj

/-- `1 + max(local2global)`: the number of used vertices, or 1 for a space without dofs -/
theorem p1_gridDofCount (hs : VertexNeighborsSound T) (hr : VertexRange T) :
    gridDofCount (p1 T sup incl trunc).space = max 1 (p1Used T sup incl trunc).length := by
  apply Nat.le_antisymm
  · apply gridDofCount_le _ _ (by omega)
    intro e he x hx
    rw [p1_nelems] at he
    exact p1_entry_lt T sup incl trunc hs hr he hx
  · by_cases h0 : (p1Used T sup incl trunc).length = 0
    · rw [h0]
      unfold gridDofCount
      omega
    · obtain ⟨e, i, hg, _⟩ := p1_g2l_nonempty T sup incl trunc hs ((p1Used T sup incl trunc).length - 1) (by omega)
      rw [Color.mem_g2l] at hg
      have := lt_gridDofCount _ hg.1 (List.mem_of_getElem? hg.2.1)
      omega

end

end BemppVerif.Lemmas.Space
