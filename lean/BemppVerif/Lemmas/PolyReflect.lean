/-
Proof by reflection for the singular (Duffy) rules.

* `Mon`, `Poly`: a small polynomial calculus in the four variables `(ξ, η1, η2, η3)` with integer
  coefficients (`Poly` is a list of monomials, no normal form), `eval` into any commutative ring,
  proved homomorphic for `+ - * 1` and `pow`.
* `regionPolys adj`: the regions of `duffy_galerkin.rule` as polynomials, obtained by running the
  model's own `regions` on `Poly` (no transcription); `regions_eq` ties them back to the model at `K`.
* `tensor4_sum_poly`: a 1-D rule with exact moments up to `D` integrates every polynomial with
  exponents `≤ D` exactly when tensorised four times.
* `checkAll L adj Dmax : Bool`: integer arithmetic only; for every monomial of total degree `≤ Dmax`
  the exact integrals of the pulled-back integrands over the regions add up to the integral over the
  product of two reference triangles.  `duffy_exact_of_check` turns `checkAll = true` into the
  exactness theorem for every 1-D rule and every order.
-/
import BemppVerif.Lemmas.Duffy
import Mathlib.Tactic.FieldSimp
import Mathlib.Tactic.Ring

namespace BemppVerif.Lemmas
open BemppVerif.Model.Quad

/-! ## The calculus -/

/-- `c * ξ^e0 * η1^e1 * η2^e2 * η3^e3` -/
structure Mon where
  c : Int
  e0 : Nat
  e1 : Nat
  e2 : Nat
  e3 : Nat
deriving DecidableEq, Repr

abbrev Poly := List Mon

namespace Mon

def mul (m n : Mon) : Mon := ⟨m.c * n.c, m.e0 + n.e0, m.e1 + n.e1, m.e2 + n.e2, m.e3 + n.e3⟩

def neg (m : Mon) : Mon := ⟨-m.c, m.e0, m.e1, m.e2, m.e3⟩

/-- all exponents `≤ D` -/
def le (D : Nat) (m : Mon) : Bool :=
  decide (m.e0 ≤ D) && decide (m.e1 ≤ D) && decide (m.e2 ≤ D) && decide (m.e3 ≤ D)

/-- every `e_i + 1` divides `L` -/
def divOK (L : Nat) (m : Mon) : Bool :=
  decide (L % (m.e0 + 1) = 0) && decide (L % (m.e1 + 1) = 0) && decide (L % (m.e2 + 1) = 0) &&
    decide (L % (m.e3 + 1) = 0)

/-- `L^4 * ∫_{[0,1]^4} m` as an integer (when `divOK L m`) -/
def sint (L : Nat) (m : Mon) : Int :=
  m.c * ((L / (m.e0 + 1) * (L / (m.e1 + 1)) * (L / (m.e2 + 1)) * (L / (m.e3 + 1)) : Nat) : Int)

end Mon

namespace Poly

def add (p q : Poly) : Poly := p ++ q
def neg (p : Poly) : Poly := p.map Mon.neg
def sub (p q : Poly) : Poly := p ++ neg q
def mul (p q : Poly) : Poly := p.flatMap fun m => q.map fun n => m.mul n
def one : Poly := [⟨1, 0, 0, 0, 0⟩]

def pow (p : Poly) : Nat → Poly
  | 0 => one
  | n + 1 => mul (pow p n) p

instance : Add Poly := ⟨add⟩
instance : Sub Poly := ⟨sub⟩
instance : Mul Poly := ⟨mul⟩
instance : One Poly := ⟨one⟩

/-- the variables `ξ, η1, η2, η3` -/
def X0 : Poly := [⟨1, 1, 0, 0, 0⟩]
def X1 : Poly := [⟨1, 0, 1, 0, 0⟩]
def X2 : Poly := [⟨1, 0, 0, 1, 0⟩]
def X3 : Poly := [⟨1, 0, 0, 0, 1⟩]

def sint (L : Nat) (p : Poly) : Int := (p.map (Mon.sint L)).sum

end Poly

section Eval
variable {K : Type} [CommRing K]

def Mon.eval (m : Mon) (x0 x1 x2 x3 : K) : K :=
  (m.c : K) * (x0 ^ m.e0 * x1 ^ m.e1 * x2 ^ m.e2 * x3 ^ m.e3)

def Poly.eval (p : Poly) (x0 x1 x2 x3 : K) : K := (p.map fun m => m.eval x0 x1 x2 x3).sum

variable (x0 x1 x2 x3 : K)

theorem Mon.eval_mul (m n : Mon) :
    (m.mul n).eval x0 x1 x2 x3 = m.eval x0 x1 x2 x3 * n.eval x0 x1 x2 x3 := by
  simp only [Mon.eval, Mon.mul, Int.cast_mul, pow_add]
  ring

theorem Mon.eval_neg (m : Mon) : m.neg.eval x0 x1 x2 x3 = -m.eval x0 x1 x2 x3 := by
  simp only [Mon.eval, Mon.neg, Int.cast_neg]
  ring

theorem Poly.eval_nil : Poly.eval ([] : Poly) x0 x1 x2 x3 = 0 := by
  simp [Poly.eval]

theorem Poly.eval_cons (m : Mon) (p : Poly) :
    Poly.eval (m :: p) x0 x1 x2 x3 = m.eval x0 x1 x2 x3 + Poly.eval p x0 x1 x2 x3 := by
  simp [Poly.eval]

theorem Poly.eval_append (p q : Poly) :
    Poly.eval (p ++ q) x0 x1 x2 x3 = Poly.eval p x0 x1 x2 x3 + Poly.eval q x0 x1 x2 x3 := by
  simp [Poly.eval, List.map_append, List.sum_append]

theorem Poly.eval_add (p q : Poly) :
    Poly.eval (p + q) x0 x1 x2 x3 = Poly.eval p x0 x1 x2 x3 + Poly.eval q x0 x1 x2 x3 :=
  Poly.eval_append x0 x1 x2 x3 p q

theorem Poly.eval_neg (p : Poly) :
    Poly.eval (Poly.neg p) x0 x1 x2 x3 = -Poly.eval p x0 x1 x2 x3 := by
  induction p with
  | nil => simp [Poly.neg, Poly.eval]
  | cons m p ih =>
    have : Poly.neg (m :: p) = m.neg :: Poly.neg p := rfl
    rw [this, Poly.eval_cons, Poly.eval_cons, ih, Mon.eval_neg]
    ring

theorem Poly.eval_sub (p q : Poly) :
    Poly.eval (p - q) x0 x1 x2 x3 = Poly.eval p x0 x1 x2 x3 - Poly.eval q x0 x1 x2 x3 := by
  show Poly.eval (p ++ Poly.neg q) x0 x1 x2 x3 = _
  rw [Poly.eval_append, Poly.eval_neg]
  ring

theorem Poly.eval_mul (p q : Poly) :
    Poly.eval (p * q) x0 x1 x2 x3 = Poly.eval p x0 x1 x2 x3 * Poly.eval q x0 x1 x2 x3 := by
  show Poly.eval (p.flatMap fun m => q.map fun n => m.mul n) x0 x1 x2 x3 = _
  unfold Poly.eval
  rw [sum_map_flatMap]
  simp only [List.map_map, Function.comp_def, Mon.eval_mul]
  exact sum_mul_sum p q _ _

theorem Poly.eval_one : Poly.eval (1 : Poly) x0 x1 x2 x3 = 1 := by
  show Poly.eval Poly.one x0 x1 x2 x3 = 1
  simp [Poly.eval, Poly.one, Mon.eval]

theorem Poly.eval_pow (p : Poly) (n : Nat) :
    Poly.eval (Poly.pow p n) x0 x1 x2 x3 = Poly.eval p x0 x1 x2 x3 ^ n := by
  induction n with
  | zero => exact (Poly.eval_one x0 x1 x2 x3).trans (pow_zero _).symm
  | succ n ih =>
    show Poly.eval (Poly.pow p n * p) x0 x1 x2 x3 = _
    rw [Poly.eval_mul, ih, pow_succ]

theorem Poly.eval_X0 : Poly.eval Poly.X0 x0 x1 x2 x3 = x0 := by simp [Poly.eval, Poly.X0, Mon.eval]
theorem Poly.eval_X1 : Poly.eval Poly.X1 x0 x1 x2 x3 = x1 := by simp [Poly.eval, Poly.X1, Mon.eval]
theorem Poly.eval_X2 : Poly.eval Poly.X2 x0 x1 x2 x3 = x2 := by simp [Poly.eval, Poly.X2, Mon.eval]
theorem Poly.eval_X3 : Poly.eval Poly.X3 x0 x1 x2 x3 = x3 := by simp [Poly.eval, Poly.X3, Mon.eval]

end Eval

/-! ## The regions of the model as polynomials -/

/-- the model's `regions`, run on polynomials: `ξ, η1, η2, η3` are the variables and `tw = 1` -/
def regionPolys (adj : Adj) : List (QP Poly) := regions adj Poly.X0 Poly.X1 Poly.X2 Poly.X3 1

section Regions
variable {K : Type} [CommRing K]

/-- evaluate a polynomial quadrature point at `(ξ, η1, η2, η3)`, weight multiplied by `tw` -/
def evalQP (tw x0 x1 x2 x3 : K) (q : QP Poly) : QP K :=
  ⟨q.tx.eval x0 x1 x2 x3, q.ty.eval x0 x1 x2 x3, q.sx.eval x0 x1 x2 x3, q.sy.eval x0 x1 x2 x3,
    tw * q.w.eval x0 x1 x2 x3⟩

theorem regions_eq (adj : Adj) (tw x0 x1 x2 x3 : K) :
    regions adj x0 x1 x2 x3 tw = (regionPolys adj).map (evalQP tw x0 x1 x2 x3) := by
  cases adj <;>
  · simp only [regions, regionPolys, List.map_cons, List.map_nil, evalQP, Poly.eval_mul,
      Poly.eval_sub, Poly.eval_add, Poly.eval_one, Poly.eval_X0, Poly.eval_X1, Poly.eval_X2,
      Poly.eval_X3, List.cons.injEq, QP.mk.injEq, and_true, true_and]
    and_intros <;> ring

/-- `w * tx^a * ty^b * sx^c * sy^d` for one polynomial region -/
def termPoly (q : QP Poly) (a b c d : Nat) : Poly :=
  q.w * ((Poly.pow q.tx a * Poly.pow q.ty b) * (Poly.pow q.sx c * Poly.pow q.sy d))

/-- the pulled-back integrand of the monomial `x1^a y1^b x2^c y2^d`, summed over the regions -/
def totalPoly (adj : Adj) (a b c d : Nat) : Poly :=
  (regionPolys adj).flatMap fun q => termPoly q a b c d

theorem region_sum (l : List (QP Poly)) (tw x0 x1 x2 x3 : K) (a b c d : Nat) :
    ((l.map (evalQP tw x0 x1 x2 x3)).map
        fun q => q.w * (q.tx ^ a * q.ty ^ b * q.sx ^ c * q.sy ^ d)).sum
      = tw * Poly.eval (l.flatMap fun q => termPoly q a b c d) x0 x1 x2 x3 := by
  induction l with
  | nil => simp [Poly.eval]
  | cons q l ih =>
    rw [List.map_cons, List.map_cons, List.sum_cons, ih, List.flatMap_cons, Poly.eval_append]
    simp only [evalQP, termPoly, Poly.eval_mul, Poly.eval_pow]
    ring

theorem regions_sum_eq (adj : Adj) (tw x0 x1 x2 x3 : K) (a b c d : Nat) :
    ((regions adj x0 x1 x2 x3 tw).map
        fun q => q.w * (q.tx ^ a * q.ty ^ b * q.sx ^ c * q.sy ^ d)).sum
      = tw * Poly.eval (totalPoly adj a b c d) x0 x1 x2 x3 := by
  rw [regions_eq, region_sum]
  rfl

end Regions

/-! ## Exact tensor integration of polynomials -/

section Tensor
variable {K : Type} [Field K]

/-- `∫_{[0,1]^4} m` -/
def Mon.tint (m : Mon) : K :=
  (m.c : K) * (1 / ((m.e0 : K) + 1) * (1 / ((m.e1 : K) + 1)) * (1 / ((m.e2 : K) + 1)) *
    (1 / ((m.e3 : K) + 1)))

/-- `∫_{[0,1]^4} p` -/
def Poly.tint (p : Poly) : K := (p.map fun m => (m.tint : K)).sum

theorem sum_map_zero' {α : Type} (l : List α) : (l.map fun _ => (0 : K)).sum = 0 := by
  induction l with
  | nil => simp
  | cons a l ih => simp

theorem sum2_map_mul_left {α β : Type} (l : List α) (m : List β) (c : K) (F : α → β → K) :
    (l.map fun a => (m.map fun b => c * F a b).sum).sum
      = c * (l.map fun a => (m.map fun b => F a b).sum).sum := by
  simp only [sum_map_mul_left']

theorem tensor4_sum_mon (xs ws : List K) (D : Nat)
    (hex : ∀ j ≤ D, mom xs ws j = 1 / ((j : K) + 1)) (m : Mon) (hm : m.le D = true) :
    ((tensor xs ws).map fun t => ((tensor xs ws).map fun s =>
        (t.2.2 * s.2.2) * m.eval t.1 t.2.1 s.1 s.2.1).sum).sum = m.tint := by
  have h : ∀ t s : K × K × K, (t.2.2 * s.2.2) * m.eval t.1 t.2.1 s.1 s.2.1
      = (m.c : K) * ((t.2.2 * (t.1 ^ m.e0 * t.2.1 ^ m.e1)) * (s.2.2 * (s.1 ^ m.e2 * s.2.1 ^ m.e3))) := by
    intro t s
    simp only [Mon.eval]
    ring
  simp only [h]
  rw [sum2_map_mul_left, tensor2_sum_sep xs ws (fun x => x ^ m.e0) (fun x => x ^ m.e1) (fun x => x ^ m.e2)
    (fun x => x ^ m.e3)]
  simp only [Mon.le, Bool.and_eq_true, decide_eq_true_eq] at hm
  obtain ⟨⟨⟨h0, h1⟩, h2⟩, h3⟩ := hm
  have m0 := hex _ h0
  have m1 := hex _ h1
  have m2 := hex _ h2
  have m3 := hex _ h3
  unfold mom at m0 m1 m2 m3
  rw [m0, m1, m2, m3]
  unfold Mon.tint
  ring

/-- a 1-D rule with exact moments up to `D`, tensorised four times, integrates every polynomial with
all exponents `≤ D` exactly -/
theorem tensor4_sum_poly (xs ws : List K) (D : Nat)
    (hex : ∀ j ≤ D, mom xs ws j = 1 / ((j : K) + 1)) (p : Poly) (hp : p.all (Mon.le D) = true) :
    ((tensor xs ws).map fun t => ((tensor xs ws).map fun s =>
        (t.2.2 * s.2.2) * p.eval t.1 t.2.1 s.1 s.2.1).sum).sum = p.tint := by
  induction p with
  | nil => simp [Poly.eval, Poly.tint]
  | cons m p ih =>
    rw [List.all_cons, Bool.and_eq_true] at hp
    simp only [Poly.eval_cons, mul_add, sum_map_add']
    rw [tensor4_sum_mon xs ws D hex m hp.1, ih hp.2]
    simp [Poly.tint]

end Tensor

/-! ## Integer evaluation of the exact integrals -/

section SInt
variable {K : Type} [Field K] [CharZero K]

theorem cast_div_succ (L e : Nat) (h : L % (e + 1) = 0) :
    ((L / (e + 1) : Nat) : K) = (L : K) * (1 / ((e : K) + 1)) := by
  obtain ⟨k, hk⟩ := Nat.dvd_of_mod_eq_zero h
  subst hk
  have hne : ((e : K) + 1) ≠ 0 := by exact_mod_cast Nat.succ_ne_zero e
  rw [Nat.mul_div_cancel_left k (Nat.succ_pos e)]
  push_cast
  field_simp

theorem Mon.sint_cast (L : Nat) (m : Mon) (h : m.divOK L = true) :
    ((m.sint L : Int) : K) = (L : K) ^ 4 * m.tint := by
  simp only [Mon.divOK, Bool.and_eq_true, decide_eq_true_eq] at h
  obtain ⟨⟨⟨h0, h1⟩, h2⟩, h3⟩ := h
  simp only [Mon.sint, Mon.tint, Int.cast_mul, Int.cast_natCast, Nat.cast_mul]
  rw [cast_div_succ L _ h0, cast_div_succ L _ h1, cast_div_succ L _ h2, cast_div_succ L _ h3]
  ring

theorem Poly.sint_cast (L : Nat) (p : Poly) (h : p.all (Mon.divOK L) = true) :
    ((p.sint L : Int) : K) = (L : K) ^ 4 * p.tint := by
  induction p with
  | nil => simp [Poly.sint, Poly.tint]
  | cons m p ih =>
    rw [List.all_cons, Bool.and_eq_true] at h
    have ih' := ih h.2
    simp only [Poly.sint, Poly.tint, List.map_cons, List.sum_cons, Int.cast_add] at ih' ⊢
    rw [ih', Mon.sint_cast L m h.1]
    ring

end SInt

/-! ## The checker -/

/-- For the monomial `x1^a y1^b x2^c y2^d`: every monomial of the pulled-back integrand (summed over
the regions of `adj`) has exponents `≤ a+b+c+d+3` and `e_i+1 ∣ L`, and its exact integral over
`[0,1]^4` equals `1/((b+1)(a+b+2)(d+1)(c+d+2))`, all in integer arithmetic (scaled by `L^4`). -/
def checkOne (L : Nat) (adj : Adj) (a b c d : Nat) : Bool :=
  (totalPoly adj a b c d).all (Mon.le (a + b + c + d + 3)) &&
  (totalPoly adj a b c d).all (Mon.divOK L) &&
  decide ((totalPoly adj a b c d).sint L * (((b + 1) * (a + b + 2) * ((d + 1) * (c + d + 2)) : Nat) : Int)
    = ((L ^ 4 : Nat) : Int))

/-- `checkOne` for all exponents of total degree `≤ Dmax` -/
def checkAll (L : Nat) (adj : Adj) (Dmax : Nat) : Bool :=
  (List.range (Dmax + 1)).all fun a => (List.range (Dmax + 1 - a)).all fun b =>
    (List.range (Dmax + 1 - a - b)).all fun c => (List.range (Dmax + 1 - a - b - c)).all fun d =>
      checkOne L adj a b c d

theorem checkAll_spec (L : Nat) (adj : Adj) (Dmax : Nat) (h : checkAll L adj Dmax = true)
    (a b c d : Nat) (hdeg : a + b + c + d ≤ Dmax) : checkOne L adj a b c d = true := by
  simp only [checkAll, List.all_eq_true, List.mem_range] at h
  exact h a (by omega) b (by omega) c (by omega) d (by omega)

theorem Mon.le_mono {D D' : Nat} (hDD : D ≤ D') (m : Mon) (h : m.le D = true) : m.le D' = true := by
  simp only [Mon.le, Bool.and_eq_true, decide_eq_true_eq] at h ⊢
  omega

/-- Reflection: if the integer check succeeds for `adj` up to total degree `Dmax` (for some `L > 0`),
then for EVERY 1-D rule `(xs, ws)` with exact moments up to `D`, the raw singular rule for `adj`
integrates `x1^a y1^b x2^c y2^d` exactly over the product of two reference triangles
`0 ≤ y ≤ x ≤ 1`, whenever `a+b+c+d ≤ Dmax` and `a+b+c+d+3 ≤ D`. -/
theorem duffy_exact_of_check (L : Nat) (hL : 0 < L) (adj : Adj) (Dmax : Nat)
    (hcheck : checkAll L adj Dmax = true)
    {K : Type} [Field K] [CharZero K] (xs ws : List K) (D : Nat)
    (hex : ∀ j ≤ D, mom xs ws j = 1 / ((j : K) + 1)) (a b c d : Nat)
    (hdeg : a + b + c + d ≤ Dmax) (hD : a + b + c + d + 3 ≤ D) :
    ((duffyRaw adj xs ws).map
        fun q => q.w * (q.tx ^ a * q.ty ^ b * q.sx ^ c * q.sy ^ d)).sum
      = 1 / (((b : K) + 1) * ((a : K) + b + 2)) * (1 / (((d : K) + 1) * ((c : K) + d + 2))) := by
  have h1 := checkAll_spec L adj Dmax hcheck a b c d hdeg
  simp only [checkOne, Bool.and_eq_true, decide_eq_true_eq] at h1
  obtain ⟨⟨hle, hdiv⟩, hval⟩ := h1
  have hle' : (totalPoly adj a b c d).all (Mon.le D) = true := by
    rw [List.all_eq_true] at hle ⊢
    exact fun m hm => Mon.le_mono hD m (hle m hm)
  rw [duffyRaw_sum]
  simp only [regions_sum_eq]
  rw [tensor4_sum_poly xs ws D hex _ hle']
  have hs := Poly.sint_cast (K := K) L _ hdiv
  have hv : (((totalPoly adj a b c d).sint L : Int) : K) *
      ((((b + 1) * (a + b + 2) * ((d + 1) * (c + d + 2)) : Nat) : Int) : K) = (((L ^ 4 : Nat) : Int) : K) := by
    rw [← Int.cast_mul, hval]
  rw [hs] at hv
  push_cast at hv
  have hL' : (L : K) ≠ 0 := by exact_mod_cast (Nat.pos_iff_ne_zero.mp hL)
  have h1 : ((b : K) + 1) ≠ 0 := by exact_mod_cast Nat.succ_ne_zero b
  have h2 : ((d : K) + 1) ≠ 0 := by exact_mod_cast Nat.succ_ne_zero d
  have h3 : ((a : K) + b + 2) ≠ 0 := by exact_mod_cast Nat.succ_ne_zero (a + b + 1)
  have h4 : ((c : K) + d + 2) ≠ 0 := by exact_mod_cast Nat.succ_ne_zero (c + d + 1)
  have hL4 : (L : K) ^ 4 ≠ 0 := pow_ne_zero 4 hL'
  have hv' : (Poly.tint (totalPoly adj a b c d) : K) *
      (((b : K) + 1) * ((a : K) + b + 2) * (((d : K) + 1) * ((c : K) + d + 2))) = 1 := by
    apply mul_left_cancel₀ hL4
    rw [mul_one, ← mul_assoc]
    exact hv
  have hne : ((b : K) + 1) * ((a : K) + b + 2) * (((d : K) + 1) * ((c : K) + d + 2)) ≠ 0 :=
    mul_ne_zero (mul_ne_zero h1 h3) (mul_ne_zero h2 h4)
  rw [eq_div_of_mul_eq hne hv']
  field_simp

end BemppVerif.Lemmas
