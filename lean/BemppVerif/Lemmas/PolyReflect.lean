/-
Proof by reflection for the singular (Duffy) rules.

* `Mon`, `Poly`: a small polynomial calculus in the four variables `(ξ, η1, η2, η3)` with integer
  coefficients (`Poly` is a list of monomials, no normal form), `eval` into any commutative ring,
  proved homomorphic for `+ - * 1` and `pow`.
* `regionPolys adj`: the regions of `duffy_galerkin.rule` as polynomials, obtained by running the
  model's own `regions` on `Poly` (no transcription); `regions_eq` ties them back to the model at `K`.
* `tensor4_sum_poly`: a 1-D rule with exact moments up to `D` integrates every polynomial with
  exponents `≤ D` exactly when tensorised four times.
* `checkAll L adj Dmax : Bool`: integer arithmetic only; for every monomial of total degree `≤ Dmax`
  the exact integrals of the pulled-back integrands over the regions add up to the integral over the
  product of two reference triangles.  It is written for the kernel (`decide +kernel`): continuation
  passing with `forceNat/forceInt` so that intermediate results are literals, tables of normalised
  powers of the region coordinates, and a fused "integrate the product" loop.  Every strict function
  has a direct-style twin (`mulR`, `powTab`, `regionTab`, `RTab.prod`, `PTab.term`) and a lemma `…S_eq`.
  `duffy_exact_of_check` turns `checkAll = true` into the exactness theorem for every 1-D rule and
  every order.
-/
import BemppVerif.Lemmas.Duffy
import Mathlib.Tactic.FieldSimp
import Mathlib.Tactic.Ring

namespace BemppVerif.Lemmas
open BemppVerif.Model.Quad

/-! ## The calculus -/

/-- `c * ξ^e0 * η1^e1 * η2^e2 * η3^e3` -/
structure Mon where
  c : Int
  e0 : Nat
  e1 : Nat
  e2 : Nat
  e3 : Nat
deriving DecidableEq, Repr

abbrev Poly := List Mon

namespace Mon

def mul (m n : Mon) : Mon := ⟨m.c * n.c, m.e0 + n.e0, m.e1 + n.e1, m.e2 + n.e2, m.e3 + n.e3⟩

def neg (m : Mon) : Mon := ⟨-m.c, m.e0, m.e1, m.e2, m.e3⟩

/-- all exponents `≤ D` -/
def le (D : Nat) (m : Mon) : Bool :=
  decide (m.e0 ≤ D) && decide (m.e1 ≤ D) && decide (m.e2 ≤ D) && decide (m.e3 ≤ D)

/-- every `e_i + 1` divides `L` -/
def divOK (L : Nat) (m : Mon) : Bool :=
  decide (L % (m.e0 + 1) = 0) && decide (L % (m.e1 + 1) = 0) && decide (L % (m.e2 + 1) = 0) &&
    decide (L % (m.e3 + 1) = 0)

/-- `L^4 * ∫_{[0,1]^4} m` as an integer (when `divOK L m`) -/
def sint (L : Nat) (m : Mon) : Int :=
  m.c * ((L / (m.e0 + 1) * (L / (m.e1 + 1)) * (L / (m.e2 + 1)) * (L / (m.e3 + 1)) : Nat) : Int)

end Mon

namespace Poly

def add (p q : Poly) : Poly := p ++ q
def neg (p : Poly) : Poly := p.map Mon.neg
def sub (p q : Poly) : Poly := p ++ neg q
def mul (p q : Poly) : Poly := p.flatMap fun m => q.map fun n => m.mul n
def one : Poly := [⟨1, 0, 0, 0, 0⟩]

def pow (p : Poly) : Nat → Poly
  | 0 => one
  | n + 1 => mul (pow p n) p

instance : Add Poly := ⟨add⟩
instance : Sub Poly := ⟨sub⟩
instance : Mul Poly := ⟨mul⟩
instance : One Poly := ⟨one⟩

/-- the variables `ξ, η1, η2, η3` -/
def X0 : Poly := [⟨1, 1, 0, 0, 0⟩]
def X1 : Poly := [⟨1, 0, 1, 0, 0⟩]
def X2 : Poly := [⟨1, 0, 0, 1, 0⟩]
def X3 : Poly := [⟨1, 0, 0, 0, 1⟩]

def sint (L : Nat) (p : Poly) : Int := (p.map (Mon.sint L)).sum

end Poly

section Eval
variable {K : Type} [CommRing K]

def Mon.eval (m : Mon) (x0 x1 x2 x3 : K) : K :=
  (m.c : K) * (x0 ^ m.e0 * x1 ^ m.e1 * x2 ^ m.e2 * x3 ^ m.e3)

def Poly.eval (p : Poly) (x0 x1 x2 x3 : K) : K := (p.map fun m => m.eval x0 x1 x2 x3).sum

variable (x0 x1 x2 x3 : K)

theorem Mon.eval_mul (m n : Mon) :
    (m.mul n).eval x0 x1 x2 x3 = m.eval x0 x1 x2 x3 * n.eval x0 x1 x2 x3 := by
  simp only [Mon.eval, Mon.mul, Int.cast_mul, pow_add]
  ring

theorem Mon.eval_neg (m : Mon) : m.neg.eval x0 x1 x2 x3 = -m.eval x0 x1 x2 x3 := by
  simp only [Mon.eval, Mon.neg, Int.cast_neg]
  ring

theorem Poly.eval_nil : Poly.eval ([] : Poly) x0 x1 x2 x3 = 0 := by
  simp [Poly.eval]

theorem Poly.eval_cons (m : Mon) (p : Poly) :
    Poly.eval (m :: p) x0 x1 x2 x3 = m.eval x0 x1 x2 x3 + Poly.eval p x0 x1 x2 x3 := by
  simp [Poly.eval]

theorem Poly.eval_append (p q : Poly) :
    Poly.eval (p ++ q) x0 x1 x2 x3 = Poly.eval p x0 x1 x2 x3 + Poly.eval q x0 x1 x2 x3 := by
  simp [Poly.eval, List.map_append, List.sum_append]

theorem Poly.eval_add (p q : Poly) :
    Poly.eval (p + q) x0 x1 x2 x3 = Poly.eval p x0 x1 x2 x3 + Poly.eval q x0 x1 x2 x3 :=
  Poly.eval_append x0 x1 x2 x3 p q

theorem Poly.eval_neg (p : Poly) :
    Poly.eval (Poly.neg p) x0 x1 x2 x3 = -Poly.eval p x0 x1 x2 x3 := by
  induction p with
  | nil => simp [Poly.neg, Poly.eval]
  | cons m p ih =>
    have : Poly.neg (m :: p) = m.neg :: Poly.neg p := rfl
    rw [this, Poly.eval_cons, Poly.eval_cons, ih, Mon.eval_neg]
    ring

theorem Poly.eval_sub (p q : Poly) :
    Poly.eval (p - q) x0 x1 x2 x3 = Poly.eval p x0 x1 x2 x3 - Poly.eval q x0 x1 x2 x3 := by
  show Poly.eval (p ++ Poly.neg q) x0 x1 x2 x3 = _
  rw [Poly.eval_append, Poly.eval_neg]
  ring

theorem Poly.eval_mul (p q : Poly) :
    Poly.eval (p * q) x0 x1 x2 x3 = Poly.eval p x0 x1 x2 x3 * Poly.eval q x0 x1 x2 x3 := by
  show Poly.eval (p.flatMap fun m => q.map fun n => m.mul n) x0 x1 x2 x3 = _
  unfold Poly.eval
  rw [sum_map_flatMap]
  simp only [List.map_map, Function.comp_def, Mon.eval_mul]
  exact sum_mul_sum p q _ _

theorem Poly.eval_one : Poly.eval (1 : Poly) x0 x1 x2 x3 = 1 := by
  show Poly.eval Poly.one x0 x1 x2 x3 = 1
  simp [Poly.eval, Poly.one, Mon.eval]

theorem Poly.eval_pow (p : Poly) (n : Nat) :
    Poly.eval (Poly.pow p n) x0 x1 x2 x3 = Poly.eval p x0 x1 x2 x3 ^ n := by
  induction n with
  | zero => exact (Poly.eval_one x0 x1 x2 x3).trans (pow_zero _).symm
  | succ n ih =>
    show Poly.eval (Poly.pow p n * p) x0 x1 x2 x3 = _
    rw [Poly.eval_mul, ih, pow_succ]

theorem Poly.eval_X0 : Poly.eval Poly.X0 x0 x1 x2 x3 = x0 := by simp [Poly.eval, Poly.X0, Mon.eval]
theorem Poly.eval_X1 : Poly.eval Poly.X1 x0 x1 x2 x3 = x1 := by simp [Poly.eval, Poly.X1, Mon.eval]
theorem Poly.eval_X2 : Poly.eval Poly.X2 x0 x1 x2 x3 = x2 := by simp [Poly.eval, Poly.X2, Mon.eval]
theorem Poly.eval_X3 : Poly.eval Poly.X3 x0 x1 x2 x3 = x3 := by simp [Poly.eval, Poly.X3, Mon.eval]

end Eval

/-! ## The regions of the model as polynomials -/

/-- the model's `regions`, run on polynomials: `ξ, η1, η2, η3` are the variables and `tw = 1` -/
def regionPolys (adj : Adj) : List (QP Poly) := regions adj Poly.X0 Poly.X1 Poly.X2 Poly.X3 1

section Regions
variable {K : Type} [CommRing K]

/-- evaluate a polynomial quadrature point at `(ξ, η1, η2, η3)`, weight multiplied by `tw` -/
def evalQP (tw x0 x1 x2 x3 : K) (q : QP Poly) : QP K :=
  ⟨q.tx.eval x0 x1 x2 x3, q.ty.eval x0 x1 x2 x3, q.sx.eval x0 x1 x2 x3, q.sy.eval x0 x1 x2 x3,
    tw * q.w.eval x0 x1 x2 x3⟩

theorem regions_eq (adj : Adj) (tw x0 x1 x2 x3 : K) :
    regions adj x0 x1 x2 x3 tw = (regionPolys adj).map (evalQP tw x0 x1 x2 x3) := by
  cases adj <;>
  · simp only [regions, regionPolys, List.map_cons, List.map_nil, evalQP, Poly.eval_mul,
      Poly.eval_sub, Poly.eval_add, Poly.eval_one, Poly.eval_X0, Poly.eval_X1, Poly.eval_X2,
      Poly.eval_X3, List.cons.injEq, QP.mk.injEq, and_true, true_and]
    and_intros <;> ring

theorem region_sum (l : List (QP Poly)) (F : QP Poly → Poly) (tw x0 x1 x2 x3 : K) (a b c d : Nat)
    (hF : ∀ q ∈ l, Poly.eval (F q) x0 x1 x2 x3 = q.w.eval x0 x1 x2 x3 *
      (q.tx.eval x0 x1 x2 x3 ^ a * q.ty.eval x0 x1 x2 x3 ^ b *
        (q.sx.eval x0 x1 x2 x3 ^ c * q.sy.eval x0 x1 x2 x3 ^ d))) :
    ((l.map (evalQP tw x0 x1 x2 x3)).map
        fun q => q.w * (q.tx ^ a * q.ty ^ b * q.sx ^ c * q.sy ^ d)).sum
      = tw * Poly.eval (l.flatMap F) x0 x1 x2 x3 := by
  induction l with
  | nil => simp [Poly.eval]
  | cons q l ih =>
    rw [List.map_cons, List.map_cons, List.sum_cons, ih (fun q' hq' => hF q' (by simp [hq'])),
      List.flatMap_cons, Poly.eval_append, hF q (by simp)]
    simp only [evalQP]
    ring

/-- the sum over the regions of the model, for any family `F` of polynomials representing the
pulled-back integrand on each region -/
theorem regions_sum_eq (adj : Adj) (F : QP Poly → Poly) (tw x0 x1 x2 x3 : K) (a b c d : Nat)
    (hF : ∀ q ∈ regionPolys adj, Poly.eval (F q) x0 x1 x2 x3 = q.w.eval x0 x1 x2 x3 *
      (q.tx.eval x0 x1 x2 x3 ^ a * q.ty.eval x0 x1 x2 x3 ^ b *
        (q.sx.eval x0 x1 x2 x3 ^ c * q.sy.eval x0 x1 x2 x3 ^ d))) :
    ((regions adj x0 x1 x2 x3 tw).map
        fun q => q.w * (q.tx ^ a * q.ty ^ b * q.sx ^ c * q.sy ^ d)).sum
      = tw * Poly.eval ((regionPolys adj).flatMap F) x0 x1 x2 x3 := by
  rw [regions_eq, region_sum _ F _ _ _ _ _ _ _ _ _ hF]

end Regions

/-! ## Exact tensor integration of polynomials -/


section Tensor
variable {K : Type} [Field K]

/-- `∫_{[0,1]^4} m` -/
def Mon.tint (m : Mon) : K :=
  (m.c : K) * (1 / ((m.e0 : K) + 1) * (1 / ((m.e1 : K) + 1)) * (1 / ((m.e2 : K) + 1)) *
    (1 / ((m.e3 : K) + 1)))

/-- `∫_{[0,1]^4} p` -/
def Poly.tint (p : Poly) : K := (p.map fun m => (m.tint : K)).sum

theorem sum_map_zero' {α : Type} (l : List α) : (l.map fun _ => (0 : K)).sum = 0 := by
  induction l with
  | nil => simp
  | cons a l ih => simp

theorem sum2_map_mul_left {α β : Type} (l : List α) (m : List β) (c : K) (F : α → β → K) :
    (l.map fun a => (m.map fun b => c * F a b).sum).sum
      = c * (l.map fun a => (m.map fun b => F a b).sum).sum := by
  simp only [sum_map_mul_left']

theorem tensor4_sum_mon (xs ws : List K) (D : Nat)
    (hex : ∀ j ≤ D, mom xs ws j = 1 / ((j : K) + 1)) (m : Mon) (hm : m.le D = true) :
    ((tensor xs ws).map fun t => ((tensor xs ws).map fun s =>
        (t.2.2 * s.2.2) * m.eval t.1 t.2.1 s.1 s.2.1).sum).sum = m.tint := by
  have h : ∀ t s : K × K × K, (t.2.2 * s.2.2) * m.eval t.1 t.2.1 s.1 s.2.1
      = (m.c : K) * ((t.2.2 * (t.1 ^ m.e0 * t.2.1 ^ m.e1)) * (s.2.2 * (s.1 ^ m.e2 * s.2.1 ^ m.e3))) := by
    intro t s
    simp only [Mon.eval]
    ring
  simp only [h]
  rw [sum2_map_mul_left, tensor2_sum_sep xs ws (fun x => x ^ m.e0) (fun x => x ^ m.e1) (fun x => x ^ m.e2)
    (fun x => x ^ m.e3)]
  simp only [Mon.le, Bool.and_eq_true, decide_eq_true_eq] at hm
  obtain ⟨⟨⟨h0, h1⟩, h2⟩, h3⟩ := hm
  have m0 := hex _ h0
  have m1 := hex _ h1
  have m2 := hex _ h2
  have m3 := hex _ h3
  unfold mom at m0 m1 m2 m3
  rw [m0, m1, m2, m3]
  unfold Mon.tint
  ring

/-- a 1-D rule with exact moments up to `D`, tensorised four times, integrates every polynomial with
all exponents `≤ D` exactly -/
theorem tensor4_sum_poly (xs ws : List K) (D : Nat)
    (hex : ∀ j ≤ D, mom xs ws j = 1 / ((j : K) + 1)) (p : Poly) (hp : p.all (Mon.le D) = true) :
    ((tensor xs ws).map fun t => ((tensor xs ws).map fun s =>
        (t.2.2 * s.2.2) * p.eval t.1 t.2.1 s.1 s.2.1).sum).sum = p.tint := by
  induction p with
  | nil => simp [Poly.eval, Poly.tint]
  | cons m p ih =>
    rw [List.all_cons, Bool.and_eq_true] at hp
    simp only [Poly.eval_cons, mul_add, sum_map_add']
    rw [tensor4_sum_mon xs ws D hex m hp.1, ih hp.2]
    simp [Poly.tint]

end Tensor

/-! ## Integer evaluation of the exact integrals -/

section SInt
variable {K : Type} [Field K] [CharZero K]

theorem cast_div_succ (L e : Nat) (h : L % (e + 1) = 0) :
    ((L / (e + 1) : Nat) : K) = (L : K) * (1 / ((e : K) + 1)) := by
  obtain ⟨k, hk⟩ := Nat.dvd_of_mod_eq_zero h
  subst hk
  have hne : ((e : K) + 1) ≠ 0 := by exact_mod_cast Nat.succ_ne_zero e
  rw [Nat.mul_div_cancel_left k (Nat.succ_pos e)]
  push_cast
  field_simp

theorem Mon.sint_cast (L : Nat) (m : Mon) (h : m.divOK L = true) :
    ((m.sint L : Int) : K) = (L : K) ^ 4 * m.tint := by
  simp only [Mon.divOK, Bool.and_eq_true, decide_eq_true_eq] at h
  obtain ⟨⟨⟨h0, h1⟩, h2⟩, h3⟩ := h
  simp only [Mon.sint, Mon.tint, Int.cast_mul, Int.cast_natCast, Nat.cast_mul]
  rw [cast_div_succ L _ h0, cast_div_succ L _ h1, cast_div_succ L _ h2, cast_div_succ L _ h3]
  ring

theorem Poly.sint_cast (L : Nat) (p : Poly) (h : p.all (Mon.divOK L) = true) :
    ((p.sint L : Int) : K) = (L : K) ^ 4 * p.tint := by
  induction p with
  | nil => simp [Poly.sint, Poly.tint]
  | cons m p ih =>
    rw [List.all_cons, Bool.and_eq_true] at h
    have ih' := ih h.2
    simp only [Poly.sint, Poly.tint, List.map_cons, List.sum_cons, Int.cast_add] at ih' ⊢
    rw [ih', Mon.sint_cast L m h.1]
    ring

end SInt

/-! ## More calculus: reversal, merging of like terms, exponent bounds -/

section More
variable {K : Type} [CommRing K] (x0 x1 x2 x3 : K)

theorem Poly.eval_reverse (p : Poly) :
    Poly.eval p.reverse x0 x1 x2 x3 = Poly.eval p x0 x1 x2 x3 := by
  induction p with
  | nil => rfl
  | cons m p ih =>
    rw [List.reverse_cons, Poly.eval_append, ih, Poly.eval_cons, Poly.eval_cons, Poly.eval_nil]
    ring

/-- same exponents (written with `Nat.beq` for the kernel) -/
def Mon.sameExp (m n : Mon) : Bool :=
  Nat.beq m.e1 n.e1 && Nat.beq m.e2 n.e2 && Nat.beq m.e3 n.e3 && Nat.beq m.e0 n.e0

theorem Mon.eq_of_sameExp {m n : Mon} (h : m.sameExp n = true) :
    m.e0 = n.e0 ∧ m.e1 = n.e1 ∧ m.e2 = n.e2 ∧ m.e3 = n.e3 := by
  simp only [Mon.sameExp, Bool.and_eq_true] at h
  obtain ⟨⟨⟨h1, h2⟩, h3⟩, h0⟩ := h
  exact ⟨Nat.eq_of_beq_eq_true h0, Nat.eq_of_beq_eq_true h1, Nat.eq_of_beq_eq_true h2,
    Nat.eq_of_beq_eq_true h3⟩

/-- add a monomial to a polynomial, merging it with the first term with the same exponents -/
def Poly.ins (m : Mon) : Poly → Poly
  | [] => [m]
  | n :: q => if m.sameExp n then ⟨m.c + n.c, n.e0, n.e1, n.e2, n.e3⟩ :: q else n :: Poly.ins m q

/-- merge like terms -/
def Poly.nrm (p : Poly) : Poly := p.foldr Poly.ins []

theorem Poly.eval_ins (m : Mon) (p : Poly) :
    Poly.eval (Poly.ins m p) x0 x1 x2 x3 = m.eval x0 x1 x2 x3 + Poly.eval p x0 x1 x2 x3 := by
  induction p with
  | nil => rfl
  | cons n q ih =>
    unfold Poly.ins
    split
    · rename_i h
      obtain ⟨h0, h1, h2, h3⟩ := Mon.eq_of_sameExp h
      simp only [Poly.eval_cons, Mon.eval, h0, h1, h2, h3, Int.cast_add]
      ring
    · simp only [Poly.eval_cons, ih]
      ring

theorem Poly.eval_nrm (p : Poly) :
    Poly.eval (Poly.nrm p) x0 x1 x2 x3 = Poly.eval p x0 x1 x2 x3 := by
  induction p with
  | nil => rfl
  | cons m p ih =>
    show Poly.eval (Poly.ins m (Poly.nrm p)) x0 x1 x2 x3 = _
    rw [Poly.eval_ins, ih, Poly.eval_cons]

end More

theorem Mon.le_iff (D : Nat) (m : Mon) :
    m.le D = true ↔ (m.e0 ≤ D ∧ m.e1 ≤ D ∧ m.e2 ≤ D ∧ m.e3 ≤ D) := by
  simp only [Mon.le, Bool.and_eq_true, decide_eq_true_eq, and_assoc]

theorem Mon.le_mono {D D' : Nat} (hDD : D ≤ D') (m : Mon) (h : m.le D = true) : m.le D' = true := by
  simp only [Mon.le, Bool.and_eq_true, decide_eq_true_eq] at h ⊢
  omega

theorem Mon.le_mul {d1 d2 : Nat} {m n : Mon} (h1 : m.le d1 = true) (h2 : n.le d2 = true) :
    (m.mul n).le (d1 + d2) = true := by
  rw [Mon.le_iff] at h1 h2 ⊢
  simp only [Mon.mul]
  omega

theorem Poly.all_le_mono {D D' : Nat} (hDD : D ≤ D') (p : Poly) (h : p.all (Mon.le D) = true) :
    p.all (Mon.le D') = true := by
  rw [List.all_eq_true] at h ⊢
  exact fun m hm => Mon.le_mono hDD m (h m hm)

theorem Poly.all_le_mul {d1 d2 : Nat} {p q : Poly} (hp : p.all (Mon.le d1) = true)
    (hq : q.all (Mon.le d2) = true) : (p * q).all (Mon.le (d1 + d2)) = true := by
  show (p.flatMap fun m => q.map fun n => m.mul n).all (Mon.le (d1 + d2)) = true
  rw [List.all_eq_true] at hp hq ⊢
  intro x hx
  simp only [List.mem_flatMap, List.mem_map] at hx
  obtain ⟨m, hm, n, hn, rfl⟩ := hx
  exact Mon.le_mul (hp m hm) (hq n hn)

theorem Poly.all_le_ins {D : Nat} {m : Mon} {p : Poly} (hm : m.le D = true)
    (hp : p.all (Mon.le D) = true) : (Poly.ins m p).all (Mon.le D) = true := by
  induction p with
  | nil => simp [Poly.ins, hm]
  | cons n q ih =>
    rw [List.all_cons, Bool.and_eq_true] at hp
    unfold Poly.ins
    split
    · rw [List.all_cons, Bool.and_eq_true]
      exact ⟨hp.1, hp.2⟩
    · rw [List.all_cons, Bool.and_eq_true]
      exact ⟨hp.1, ih hp.2⟩

theorem Poly.all_le_nrm {D : Nat} {p : Poly} (hp : p.all (Mon.le D) = true) :
    (Poly.nrm p).all (Mon.le D) = true := by
  induction p with
  | nil => rfl
  | cons m p ih =>
    rw [List.all_cons, Bool.and_eq_true] at hp
    exact Poly.all_le_ins hp.1 (ih hp.2)

theorem Poly.sint_append (L : Nat) (p q : Poly) :
    Poly.sint L (p ++ q) = Poly.sint L p + Poly.sint L q := by
  simp [Poly.sint, List.map_append, List.sum_append]

theorem Poly.sint_flatMap {β : Type} (L : Nat) (l : List β) (F : β → Poly) :
    Poly.sint L (l.flatMap F) = (l.map fun q => Poly.sint L (F q)).sum := by
  induction l with
  | nil => rfl
  | cons q l ih => rw [List.flatMap_cons, Poly.sint_append, ih, List.map_cons, List.sum_cons]

theorem Poly.cons_mul (m : Mon) (p q : Poly) :
    (m :: p : Poly) * q = (q.map fun n => m.mul n) ++ p * q := by
  show (m :: p).flatMap (fun m' => q.map fun n => m'.mul n) = _
  rw [List.flatMap_cons]
  rfl

theorem Poly.nil_mul (q : Poly) : ([] : Poly) * q = [] := rfl

/-! ## Strict evaluation for the kernel

The kernel evaluates lazily and by substitution.  `forceNat n k` makes it evaluate `n` to a literal
before `k` is entered; all of these are the identity (`force…_eq`). -/

section Strict
variable {α : Type}

def forceNat (n : Nat) (k : Nat → α) : α :=
  match n with
  | 0 => k 0
  | m + 1 => k (m + 1)

theorem forceNat_eq (n : Nat) (k : Nat → α) : forceNat n k = k n := by
  cases n <;> rfl

def forceInt (c : Int) (k : Int → α) : α :=
  match c with
  | Int.ofNat n => forceNat n fun n' => k (Int.ofNat n')
  | Int.negSucc n => forceNat n fun n' => k (Int.negSucc n')

theorem forceInt_eq (c : Int) (k : Int → α) : forceInt c k = k c := by
  cases c <;> simp only [forceInt, forceNat_eq]

def Mon.force (m : Mon) (k : Mon → α) : α :=
  forceInt m.c fun c => forceNat m.e0 fun e0 => forceNat m.e1 fun e1 => forceNat m.e2 fun e2 =>
    forceNat m.e3 fun e3 => k ⟨c, e0, e1, e2, e3⟩

theorem Mon.force_eq (m : Mon) (k : Mon → α) : m.force k = k m := by
  cases m
  simp only [Mon.force, forceInt_eq, forceNat_eq]

/-- hand the fully evaluated list `p.reverse ++ acc` to `k` -/
def forceRev : Poly → Poly → (Poly → α) → α
  | [], acc, k => k acc
  | m :: p, acc, k => Mon.force m fun m' => forceRev p (m' :: acc) k

theorem forceRev_eq (p acc : Poly) (k : Poly → α) : forceRev p acc k = k (p.reverse ++ acc) := by
  induction p generalizing acc with
  | nil => rfl
  | cons m p ih =>
    simp only [forceRev, Mon.force_eq, ih, List.reverse_cons, List.append_assoc,
      List.singleton_append]

/-! ### products and tables of powers -/

def mulR (p q : Poly) : Poly := (p * q).reverse
def mulS (p q : Poly) (k : Poly → α) : α := forceRev (p * q) [] k

theorem mulS_eq (p q : Poly) (k : Poly → α) : mulS p q k = k (mulR p q) := by
  simp only [mulS, mulR, forceRev_eq, List.append_nil]

/-- next power, like terms merged -/
def stepR (cur p : Poly) : Poly := (Poly.nrm (cur * p)).reverse
def stepS (cur p : Poly) (k : Poly → α) : α := forceRev (Poly.nrm (cur * p)) [] k

theorem stepS_eq (cur p : Poly) (k : Poly → α) : stepS cur p k = k (stepR cur p) := by
  simp only [stepS, stepR, forceRev_eq, List.append_nil]

/-- `[cur, cur*p, …, cur*p^n]` -/
def powTab (p : Poly) : Nat → Poly → List Poly
  | 0, cur => [cur]
  | n + 1, cur => cur :: powTab p n (stepR cur p)

def powTabS (p : Poly) : Nat → Poly → (List Poly → α) → α
  | 0, cur, k => k [cur]
  | n + 1, cur, k => stepS cur p fun nxt => powTabS p n nxt fun T => k (cur :: T)

theorem powTabS_eq (p : Poly) (n : Nat) (cur : Poly) (k : List Poly → α) :
    powTabS p n cur k = k (powTab p n cur) := by
  induction n generalizing cur k with
  | zero => rfl
  | succ n ih => simp only [powTabS, powTab, stepS_eq, ih]

/-- the weight and the tables of powers of the four coordinates of one region -/
structure RTab where
  w : Poly
  A : List Poly
  B : List Poly
  C : List Poly
  D : List Poly

def regionTab (n : Nat) (q : QP Poly) : RTab :=
  ⟨q.w.reverse, powTab q.tx.reverse n 1, powTab q.ty.reverse n 1, powTab q.sx.reverse n 1,
    powTab q.sy.reverse n 1⟩

def regionTabS (n : Nat) (q : QP Poly) (k : RTab → α) : α :=
  forceRev q.w [] fun w => forceRev q.tx [] fun tx => forceRev q.ty [] fun ty =>
  forceRev q.sx [] fun sx => forceRev q.sy [] fun sy =>
  powTabS tx n 1 fun A => powTabS ty n 1 fun B => powTabS sx n 1 fun C => powTabS sy n 1 fun D =>
  k ⟨w, A, B, C, D⟩

theorem regionTabS_eq (n : Nat) (q : QP Poly) (k : RTab → α) :
    regionTabS n q k = k (regionTab n q) := by
  simp only [regionTabS, regionTab, forceRev_eq, powTabS_eq, List.append_nil]

/-! ### integrating a product without building it -/

/-- `(m.mul n).sint L`, written with the primitive operations -/
def Mon.sintMul (L : Nat) (m n : Mon) : Int :=
  Int.mul (Int.mul m.c n.c) (Int.ofNat (Nat.mul (Nat.mul (Nat.mul
    (Nat.div L (Nat.add (Nat.add m.e0 n.e0) 1)) (Nat.div L (Nat.add (Nat.add m.e1 n.e1) 1)))
    (Nat.div L (Nat.add (Nat.add m.e2 n.e2) 1))) (Nat.div L (Nat.add (Nat.add m.e3 n.e3) 1))))

theorem Mon.sintMul_eq (L : Nat) (m n : Mon) : m.sintMul L n = (m.mul n).sint L := rfl

def sintMon (L : Nat) (m : Mon) : Poly → Int → (Int → α) → α
  | [], acc, k => k acc
  | n :: q, acc, k => forceInt (Int.add acc (m.sintMul L n)) fun acc' => sintMon L m q acc' k

theorem sintMon_eq (L : Nat) (m : Mon) (q : Poly) (acc : Int) (k : Int → α) :
    sintMon L m q acc k = k (acc + Poly.sint L (q.map fun n => m.mul n)) := by
  induction q generalizing acc with
  | nil => simp [sintMon, Poly.sint]
  | cons n q ih =>
    have e : Int.add acc (m.sintMul L n) = acc + (m.mul n).sint L := rfl
    simp only [sintMon, forceInt_eq, ih, e, Poly.sint, List.map_cons, List.sum_cons, Int.add_assoc]

def sintMulS (L : Nat) : Poly → Poly → Int → (Int → α) → α
  | [], _, acc, k => k acc
  | m :: p, q, acc, k => sintMon L m q acc fun acc' => sintMulS L p q acc' k

theorem sintMulS_eq (L : Nat) (p q : Poly) (acc : Int) (k : Int → α) :
    sintMulS L p q acc k = k (acc + Poly.sint L (p * q)) := by
  induction p generalizing acc with
  | nil => simp [sintMulS, Poly.nil_mul, Poly.sint]
  | cons m p ih =>
    simp only [sintMulS, sintMon_eq, ih, Poly.cons_mul, Poly.sint_append, Int.add_assoc]

/-- the pulled-back integrand on one region, from the tables -/
def RTab.term (r : RTab) (a b c d : Nat) : Poly :=
  mulR (mulR r.w (r.A.getD a [])) (r.B.getD b []) * mulR (r.C.getD c []) (r.D.getD d [])

/-! ### tables of the products `w·tx^a·ty^b` and `sx^c·sy^d` -/

/-- generic strict map -/
def mapS {β γ : Type} (f : β → (γ → α) → α) : List β → (List γ → α) → α
  | [], k => k []
  | b :: l, k => f b fun y => mapS f l fun ys => k (y :: ys)

theorem mapS_eq {β γ : Type} (f : β → (γ → α) → α) (g : β → γ) (hf : ∀ b k, f b k = k (g b))
    (l : List β) (k : List γ → α) : mapS f l k = k (l.map g) := by
  induction l generalizing k with
  | nil => rfl
  | cons b l ih => simp only [mapS, hf, ih, List.map_cons]

structure PTab where
  AB : List (List Poly)
  CD : List (List Poly)

def RTab.prod (r : RTab) : PTab :=
  ⟨r.A.map fun A => r.B.map fun B => mulR (mulR r.w A) B,
    r.C.map fun C => r.D.map fun D => mulR C D⟩

def RTab.prodS (r : RTab) (k : PTab → α) : α :=
  mapS (fun A k1 => mulS r.w A fun wA => mapS (fun B k2 => mulS wA B k2) r.B k1) r.A fun AB =>
  mapS (fun C k1 => mapS (fun D k2 => mulS C D k2) r.D k1) r.C fun CD => k ⟨AB, CD⟩

theorem RTab.prodS_eq (r : RTab) (k : PTab → α) : r.prodS k = k r.prod := by
  unfold RTab.prodS RTab.prod
  rw [mapS_eq _ (fun A => r.B.map fun B => mulR (mulR r.w A) B) (fun A k1 => by
        rw [mulS_eq, mapS_eq _ (fun B => mulR (mulR r.w A) B) (fun B k2 => mulS_eq _ _ _)]),
    mapS_eq _ (fun C => r.D.map fun D => mulR C D) (fun C k1 =>
        mapS_eq _ (fun D => mulR C D) (fun D k2 => mulS_eq _ _ _) _ _)]

def ptabsS (n : Nat) : List (QP Poly) → (List PTab → α) → α
  | [], k => k []
  | q :: l, k => regionTabS n q fun r => r.prodS fun pt => ptabsS n l fun T => k (pt :: T)

theorem ptabsS_eq (n : Nat) (l : List (QP Poly)) (k : List PTab → α) :
    ptabsS n l k = k (l.map fun q => (regionTab n q).prod) := by
  induction l generalizing k with
  | nil => rfl
  | cons q l ih => simp only [ptabsS, regionTabS_eq, RTab.prodS_eq, ih, List.map_cons]

/-- evaluate a list to its first cell (a pointer into a table) before `k` is entered -/
def forcePoly (p : Poly) (k : Poly → α) : α :=
  match p with
  | [] => k []
  | m :: t => k (m :: t)

theorem forcePoly_eq (p : Poly) (k : Poly → α) : forcePoly p k = k p := by
  cases p <;> rfl

/-- the pulled-back integrand on one region, from the product tables -/
def PTab.term (pt : PTab) (a b c d : Nat) : Poly :=
  (pt.AB.getD a []).getD b [] * (pt.CD.getD c []).getD d []

def tupleS (L a b c d : Nat) : List PTab → Int → (Int → α) → α
  | [], acc, k => k acc
  | pt :: T, acc, k =>
    forcePoly ((pt.AB.getD a []).getD b []) fun AB =>
    forcePoly ((pt.CD.getD c []).getD d []) fun CD =>
    sintMulS L AB CD acc fun acc' => tupleS L a b c d T acc' k

theorem tupleS_eq (L a b c d : Nat) (T : List PTab) (acc : Int) (k : Int → α) :
    tupleS L a b c d T acc k = k (acc + (T.map fun pt => Poly.sint L (pt.term a b c d)).sum) := by
  induction T generalizing acc with
  | nil => simp [tupleS]
  | cons pt T ih =>
    simp only [tupleS, forcePoly_eq, sintMulS_eq, ih, PTab.term, List.map_cons, List.sum_cons,
      Int.add_assoc]

end Strict

/-! ## Meaning of the tables -/

section Tables
variable {K : Type} [CommRing K] (x0 x1 x2 x3 : K)

theorem eval_mulR (p q : Poly) :
    Poly.eval (mulR p q) x0 x1 x2 x3 = Poly.eval p x0 x1 x2 x3 * Poly.eval q x0 x1 x2 x3 := by
  rw [mulR, Poly.eval_reverse, Poly.eval_mul]

theorem eval_stepR (cur p : Poly) :
    Poly.eval (stepR cur p) x0 x1 x2 x3 = Poly.eval cur x0 x1 x2 x3 * Poly.eval p x0 x1 x2 x3 := by
  rw [stepR, Poly.eval_reverse, Poly.eval_nrm, Poly.eval_mul]

theorem powTab_eval (p : Poly) (n : Nat) (cur : Poly) (i : Nat) (hi : i ≤ n) :
    Poly.eval ((powTab p n cur).getD i []) x0 x1 x2 x3
      = Poly.eval cur x0 x1 x2 x3 * Poly.eval p x0 x1 x2 x3 ^ i := by
  induction n generalizing cur i with
  | zero =>
    have : i = 0 := by omega
    subst this
    simp [powTab]
  | succ n ih =>
    cases i with
    | zero => simp [powTab]
    | succ i =>
      rw [powTab, List.getD_cons_succ, ih _ i (by omega), eval_stepR, pow_succ]
      ring

end Tables

theorem all_le_mulR {d1 d2 : Nat} {p q : Poly} (hp : p.all (Mon.le d1) = true)
    (hq : q.all (Mon.le d2) = true) : (mulR p q).all (Mon.le (d1 + d2)) = true := by
  rw [mulR, List.all_reverse]
  exact Poly.all_le_mul hp hq

theorem all_le_stepR {d1 d2 : Nat} {p q : Poly} (hp : p.all (Mon.le d1) = true)
    (hq : q.all (Mon.le d2) = true) : (stepR p q).all (Mon.le (d1 + d2)) = true := by
  rw [stepR, List.all_reverse]
  exact Poly.all_le_nrm (Poly.all_le_mul hp hq)

theorem powTab_le (p : Poly) (dp : Nat) (hp : p.all (Mon.le dp) = true) (n : Nat) (cur : Poly)
    (dc : Nat) (hc : cur.all (Mon.le dc) = true) (i : Nat) (hi : i ≤ n) :
    ((powTab p n cur).getD i []).all (Mon.le (dc + i * dp)) = true := by
  induction n generalizing cur dc i with
  | zero =>
    have : i = 0 := by omega
    subst this
    simpa [powTab] using hc
  | succ n ih =>
    cases i with
    | zero => simpa [powTab] using hc
    | succ i =>
      rw [powTab, List.getD_cons_succ]
      have := ih (stepR cur p) (dc + dp) (all_le_stepR hc hp) i (by omega)
      refine Poly.all_le_mono ?_ _ this
      rw [Nat.succ_mul]
      omega

/-- bounds on the exponents of the components of a region: weight `≤ 3`, coordinates `≤ 1` -/
def compOK (q : QP Poly) : Bool :=
  q.w.all (Mon.le 3) && q.tx.all (Mon.le 1) && q.ty.all (Mon.le 1) && q.sx.all (Mon.le 1) &&
    q.sy.all (Mon.le 1)

theorem one_all_le : (1 : Poly).all (Mon.le 0) = true := rfl

theorem regionTab_term_eval {K : Type} [CommRing K] (x0 x1 x2 x3 : K) (n : Nat) (q : QP Poly)
    (a b c d : Nat) (ha : a ≤ n) (hb : b ≤ n) (hc : c ≤ n) (hd : d ≤ n) :
    Poly.eval ((regionTab n q).term a b c d) x0 x1 x2 x3 = q.w.eval x0 x1 x2 x3 *
      (q.tx.eval x0 x1 x2 x3 ^ a * q.ty.eval x0 x1 x2 x3 ^ b *
        (q.sx.eval x0 x1 x2 x3 ^ c * q.sy.eval x0 x1 x2 x3 ^ d)) := by
  simp only [RTab.term, regionTab, Poly.eval_mul, eval_mulR, powTab_eval _ _ _ _ _ _ _ _ ha,
    powTab_eval _ _ _ _ _ _ _ _ hb, powTab_eval _ _ _ _ _ _ _ _ hc, powTab_eval _ _ _ _ _ _ _ _ hd,
    Poly.eval_reverse, Poly.eval_one]
  ring

theorem regionTab_term_le (n : Nat) (q : QP Poly) (hq : compOK q = true)
    (a b c d : Nat) (ha : a ≤ n) (hb : b ≤ n) (hc : c ≤ n) (hd : d ≤ n) :
    ((regionTab n q).term a b c d).all (Mon.le (a + b + c + d + 3)) = true := by
  simp only [compOK, Bool.and_eq_true] at hq
  obtain ⟨⟨⟨⟨hw, htx⟩, hty⟩, hsx⟩, hsy⟩ := hq
  have rv : ∀ (p : Poly) (D : Nat), p.all (Mon.le D) = true → p.reverse.all (Mon.le D) = true :=
    fun p D h => by rw [List.all_reverse]; exact h
  have hA := powTab_le _ 1 (rv _ _ htx) n 1 0 one_all_le a ha
  have hB := powTab_le _ 1 (rv _ _ hty) n 1 0 one_all_le b hb
  have hC := powTab_le _ 1 (rv _ _ hsx) n 1 0 one_all_le c hc
  have hD := powTab_le _ 1 (rv _ _ hsy) n 1 0 one_all_le d hd
  have h := Poly.all_le_mul (all_le_mulR (all_le_mulR (rv _ _ hw) hA) hB) (all_le_mulR hC hD)
  refine Poly.all_le_mono ?_ _ h
  omega

theorem powTab_length (p : Poly) (n : Nat) (cur : Poly) : (powTab p n cur).length = n + 1 := by
  induction n generalizing cur with
  | zero => rfl
  | succ n ih => rw [powTab, List.length_cons, ih]

theorem getD_map_of_lt {β γ : Type} (f : β → γ) (l : List β) (i : Nat) (h : i < l.length)
    (d : γ) (d' : β) : (l.map f).getD i d = f (l.getD i d') := by
  induction l generalizing i with
  | nil => simp at h
  | cons b l ih =>
    cases i with
    | zero => simp
    | succ i =>
      rw [List.map_cons, List.getD_cons_succ, List.getD_cons_succ]
      exact ih i (by simpa using h)

/-- within the tabulated range the product tables hold the products of the tabulated powers -/
theorem prod_term_eq (n : Nat) (q : QP Poly) (a b c d : Nat) (ha : a ≤ n) (hb : b ≤ n) (hc : c ≤ n)
    (hd : d ≤ n) : (regionTab n q).prod.term a b c d = (regionTab n q).term a b c d := by
  have hA : a < (regionTab n q).A.length := by simp only [regionTab, powTab_length]; omega
  have hB : b < (regionTab n q).B.length := by simp only [regionTab, powTab_length]; omega
  have hC : c < (regionTab n q).C.length := by simp only [regionTab, powTab_length]; omega
  have hD : d < (regionTab n q).D.length := by simp only [regionTab, powTab_length]; omega
  unfold PTab.term RTab.prod RTab.term
  simp only
  rw [getD_map_of_lt _ _ a hA [] [], getD_map_of_lt _ _ b hB [] [],
    getD_map_of_lt _ _ c hC [] [], getD_map_of_lt _ _ d hD [] []]

theorem prodTab_term_eval {K : Type} [CommRing K] (x0 x1 x2 x3 : K) (n : Nat) (q : QP Poly)
    (a b c d : Nat) (ha : a ≤ n) (hb : b ≤ n) (hc : c ≤ n) (hd : d ≤ n) :
    Poly.eval ((regionTab n q).prod.term a b c d) x0 x1 x2 x3 = q.w.eval x0 x1 x2 x3 *
      (q.tx.eval x0 x1 x2 x3 ^ a * q.ty.eval x0 x1 x2 x3 ^ b *
        (q.sx.eval x0 x1 x2 x3 ^ c * q.sy.eval x0 x1 x2 x3 ^ d)) := by
  rw [prod_term_eq n q a b c d ha hb hc hd]
  exact regionTab_term_eval x0 x1 x2 x3 n q a b c d ha hb hc hd

theorem prodTab_term_le (n : Nat) (q : QP Poly) (hq : compOK q = true)
    (a b c d : Nat) (ha : a ≤ n) (hb : b ≤ n) (hc : c ≤ n) (hd : d ≤ n) :
    ((regionTab n q).prod.term a b c d).all (Mon.le (a + b + c + d + 3)) = true := by
  rw [prod_term_eq n q a b c d ha hb hc hd]
  exact regionTab_term_le n q hq a b c d ha hb hc hd

/-! ## The checker -/

/-- `e + 1 ∣ L` for all `e ≤ N` -/
def divTable (L N : Nat) : Bool :=
  (List.range (N + 1)).all fun e => Nat.beq (Nat.mod L (Nat.add e 1)) 0

theorem divTable_spec {L N : Nat} (h : divTable L N = true) (e : Nat) (he : e ≤ N) :
    L % (e + 1) = 0 := by
  simp only [divTable, List.all_eq_true, List.mem_range] at h
  exact Nat.eq_of_beq_eq_true (h e (by omega))

theorem Mon.divOK_of_le {L N : Nat} (h : divTable L N = true) (m : Mon) (hm : m.le N = true) :
    m.divOK L = true := by
  simp only [Mon.le, Bool.and_eq_true, decide_eq_true_eq] at hm
  obtain ⟨⟨⟨h0, h1⟩, h2⟩, h3⟩ := hm
  simp only [Mon.divOK, Bool.and_eq_true, decide_eq_true_eq]
  exact ⟨⟨⟨divTable_spec h _ h0, divTable_spec h _ h1⟩, divTable_spec h _ h2⟩, divTable_spec h _ h3⟩

/-- For every monomial `x1^a y1^b x2^c y2^d` of total degree `≤ Dmax`: the exact integral over
`[0,1]^4` of the pulled-back integrand, summed over the regions of `adj`, equals
`1/((b+1)(a+b+2)(d+1)(c+d+2))`, in integer arithmetic scaled by `L^4`
(`e+1 ∣ L` for all `e ≤ Dmax+3`, exponents of the region components bounded by `compOK`). -/
def checkAll (L : Nat) (adj : Adj) (Dmax : Nat) : Bool :=
  divTable L (Dmax + 3) && (regionPolys adj).all compOK &&
  ptabsS Dmax (regionPolys adj) fun T =>
  (List.range (Dmax + 1)).all fun a => (List.range (Dmax + 1 - a)).all fun b =>
    (List.range (Dmax + 1 - a - b)).all fun c => (List.range (Dmax + 1 - a - b - c)).all fun d =>
      tupleS L a b c d T 0 fun r =>
        decide (r * (((b + 1) * (a + b + 2) * ((d + 1) * (c + d + 2)) : Nat) : Int)
          = ((L ^ 4 : Nat) : Int))

/-- the polynomial that `checkAll` integrates for the exponents `(a,b,c,d)` -/
def checkPoly (adj : Adj) (Dmax a b c d : Nat) : Poly :=
  (regionPolys adj).flatMap fun q => (regionTab Dmax q).prod.term a b c d

theorem checkAll_spec (L : Nat) (adj : Adj) (Dmax : Nat) (h : checkAll L adj Dmax = true)
    (a b c d : Nat) (hdeg : a + b + c + d ≤ Dmax) :
    divTable L (Dmax + 3) = true ∧ (regionPolys adj).all compOK = true ∧
    Poly.sint L (checkPoly adj Dmax a b c d) *
      (((b + 1) * (a + b + 2) * ((d + 1) * (c + d + 2)) : Nat) : Int) = ((L ^ 4 : Nat) : Int) := by
  simp only [checkAll, ptabsS_eq, tupleS_eq, Bool.and_eq_true, List.all_eq_true, List.mem_range,
    decide_eq_true_eq, Int.zero_add, List.map_map, Function.comp_def] at h
  obtain ⟨⟨h1, h2⟩, h3⟩ := h
  refine ⟨h1, ?_, ?_⟩
  · rw [List.all_eq_true]; exact h2
  · rw [checkPoly, Poly.sint_flatMap]
    exact h3 a (by omega) b (by omega) c (by omega) d (by omega)

/-- Reflection: if the integer check succeeds for `adj` up to total degree `Dmax` (for some `L > 0`),
then for EVERY 1-D rule `(xs, ws)` with exact moments up to `D`, the raw singular rule for `adj`
integrates `x1^a y1^b x2^c y2^d` exactly over the product of two reference triangles
`0 ≤ y ≤ x ≤ 1`, whenever `a+b+c+d ≤ Dmax` and `a+b+c+d+3 ≤ D`. -/
theorem duffy_exact_of_check (L : Nat) (hL : 0 < L) (adj : Adj) (Dmax : Nat)
    (hcheck : checkAll L adj Dmax = true)
    {K : Type} [Field K] [CharZero K] (xs ws : List K) (D : Nat)
    (hex : ∀ j ≤ D, mom xs ws j = 1 / ((j : K) + 1)) (a b c d : Nat)
    (hdeg : a + b + c + d ≤ Dmax) (hD : a + b + c + d + 3 ≤ D) :
    ((duffyRaw adj xs ws).map
        fun q => q.w * (q.tx ^ a * q.ty ^ b * q.sx ^ c * q.sy ^ d)).sum
      = 1 / (((b : K) + 1) * ((a : K) + b + 2)) * (1 / (((d : K) + 1) * ((c : K) + d + 2))) := by
  obtain ⟨hdivT, hcomp, hval⟩ := checkAll_spec L adj Dmax hcheck a b c d hdeg
  rw [List.all_eq_true] at hcomp
  -- exponent bounds of the checked polynomial
  have hle3 : (checkPoly adj Dmax a b c d).all (Mon.le (a + b + c + d + 3)) = true := by
    rw [checkPoly, List.all_flatMap, List.all_eq_true]
    intro q hq
    exact prodTab_term_le Dmax q (hcomp q hq) a b c d (by omega) (by omega) (by omega) (by omega)
  have hle : (checkPoly adj Dmax a b c d).all (Mon.le D) = true := Poly.all_le_mono hD _ hle3
  have hdiv : (checkPoly adj Dmax a b c d).all (Mon.divOK L) = true := by
    rw [List.all_eq_true] at hle3 ⊢
    intro m hm
    exact Mon.divOK_of_le hdivT m (Mon.le_mono (by omega) m (hle3 m hm))
  -- the rule sum is the tensor integral of the checked polynomial
  rw [duffyRaw_sum]
  have hreg : ∀ t s : K × K × K,
      ((regions adj t.1 t.2.1 s.1 s.2.1 (t.2.2 * s.2.2)).map
        fun q => q.w * (q.tx ^ a * q.ty ^ b * q.sx ^ c * q.sy ^ d)).sum
      = (t.2.2 * s.2.2) * Poly.eval (checkPoly adj Dmax a b c d) t.1 t.2.1 s.1 s.2.1 := by
    intro t s
    exact regions_sum_eq adj _ _ _ _ _ _ a b c d fun q _ =>
      prodTab_term_eval _ _ _ _ Dmax q a b c d (by omega) (by omega) (by omega) (by omega)
  simp only [hreg]
  rw [tensor4_sum_poly xs ws D hex _ hle]
  -- the integer check gives its value
  have hs := Poly.sint_cast (K := K) L _ hdiv
  have hv : ((Poly.sint L (checkPoly adj Dmax a b c d) : Int) : K) *
      ((((b + 1) * (a + b + 2) * ((d + 1) * (c + d + 2)) : Nat) : Int) : K) = (((L ^ 4 : Nat) : Int) : K) := by
    rw [← Int.cast_mul, hval]
  rw [hs] at hv
  push_cast at hv
  have hL' : (L : K) ≠ 0 := by exact_mod_cast (Nat.pos_iff_ne_zero.mp hL)
  have h1 : ((b : K) + 1) ≠ 0 := by exact_mod_cast Nat.succ_ne_zero b
  have h2 : ((d : K) + 1) ≠ 0 := by exact_mod_cast Nat.succ_ne_zero d
  have h3 : ((a : K) + b + 2) ≠ 0 := by exact_mod_cast Nat.succ_ne_zero (a + b + 1)
  have h4 : ((c : K) + d + 2) ≠ 0 := by exact_mod_cast Nat.succ_ne_zero (c + d + 1)
  have hL4 : (L : K) ^ 4 ≠ 0 := pow_ne_zero 4 hL'
  have hv' : (Poly.tint (checkPoly adj Dmax a b c d) : K) *
      (((b : K) + 1) * ((a : K) + b + 2) * (((d : K) + 1) * ((c : K) + d + 2))) = 1 := by
    apply mul_left_cancel₀ hL4
    rw [mul_one, ← mul_assoc]
    exact hv
  have hne : ((b : K) + 1) * ((a : K) + b + 2) * (((d : K) + 1) * ((c : K) + d + 2)) ≠ 0 :=
    mul_ne_zero (mul_ne_zero h1 h3) (mul_ne_zero h2 h4)
  rw [eq_div_of_mul_eq hne hv']
  field_simp

end BemppVerif.Lemmas
