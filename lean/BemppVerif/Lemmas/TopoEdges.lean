/- Helper lemmas for C11: insertion-ordered dictionaries and the edge enumeration loop (core Lean only). -/
import BemppVerif.Model.Topo

namespace BemppVerif.Lemmas.Topo
open BemppVerif.Model.Topo BemppVerif.Gen

section InsertKey
variable {α : Type} [DecidableEq α]

theorem getElem?_idxOf_of_mem (l : List α) (a : α) (h : a ∈ l) : l[l.idxOf a]? = some a := by
  induction l with
  | nil => simp at h
  | cons b l ih => grind

theorem insertKey_prefix (l : List α) (a : α) : l <+: (insertKey l a).1 := by
  unfold insertKey; split <;> simp

theorem insertKey_get (l : List α) (a : α) : (insertKey l a).1[(insertKey l a).2]? = some a := by
  unfold insertKey; split
  · next h => simpa using getElem?_idxOf_of_mem l a h
  · simp

theorem insertKey_nodup (l : List α) (a : α) (h : l.Nodup) : (insertKey l a).1.Nodup := by
  unfold insertKey; split
  · exact h
  · next hn => grind [List.nodup_append]

theorem insertKey_mem (l : List α) (a b : α) : b ∈ (insertKey l a).1 ↔ b ∈ l ∨ b = a := by
  unfold insertKey; split <;> grind

omit [DecidableEq α] in
theorem prefix_get {l m : List α} (h : l <+: m) {i : Nat} {x : α} (hx : l[i]? = some x) : m[i]? = some x := by
  obtain ⟨t, rfl⟩ := h
  grind

end InsertKey

/-! ### the element loop `enumGo` -/

theorem enumGo_prefix (es : List Edge) (ts : List Tri) : es <+: (enumGo es ts).1 := by
  induction ts generalizing es with
  | nil => simp [enumGo]
  | cons t ts ih =>
    simp only [enumGo, insertEdge]
    exact ((insertKey_prefix es _).trans (insertKey_prefix _ _)).trans ((insertKey_prefix _ _).trans (ih _))

theorem enumGo_nodup (es : List Edge) (ts : List Tri) (h : es.Nodup) : (enumGo es ts).1.Nodup := by
  induction ts generalizing es with
  | nil => simpa [enumGo]
  | cons t ts ih =>
    simp only [enumGo, insertEdge]
    exact ih _ (insertKey_nodup _ _ (insertKey_nodup _ _ (insertKey_nodup _ _ h)))

theorem enumGo_mem (es : List Edge) (ts : List Tri) (e : Edge) :
    e ∈ (enumGo es ts).1 ↔ e ∈ es ∨ ∃ t ∈ ts, e = edgeOf t 0 ∨ e = edgeOf t 1 ∨ e = edgeOf t 2 := by
  induction ts generalizing es with
  | nil => simp [enumGo]
  | cons t ts ih =>
    simp only [enumGo, insertEdge, ih, insertKey_mem]
    grind

theorem enumGo_length (es : List Edge) (ts : List Tri) : (enumGo es ts).2.length = ts.length := by
  induction ts generalizing es with
  | nil => simp [enumGo]
  | cons t ts ih => simp [enumGo, ih]

/-- every recorded `element_edges` entry indexes, in the FINAL edge list, the edge it was computed for -/
theorem enumGo_index (es : List Edge) (ts : List Tri) (i : Nat) (t x : Tri)
    (ht : ts[i]? = some t) (hx : (enumGo es ts).2[i]? = some x) :
    (enumGo es ts).1[x.1]? = some (edgeOf t 0) ∧ (enumGo es ts).1[x.2.1]? = some (edgeOf t 1) ∧
      (enumGo es ts).1[x.2.2]? = some (edgeOf t 2) := by
  induction ts generalizing es i with
  | nil => simp at ht
  | cons t' ts ih =>
    cases i with
    | zero =>
      simp only [List.getElem?_cons_zero, Option.some.injEq] at ht
      subst ht
      simp only [enumGo, insertEdge, List.getElem?_cons_zero, Option.some.injEq] at hx ⊢
      subst hx
      have p3 := enumGo_prefix (insertKey (insertKey (insertKey es (edgeOf t' 0)).1 (edgeOf t' 1)).1 (edgeOf t' 2)).1 ts
      have p2 := insertKey_prefix (insertKey (insertKey es (edgeOf t' 0)).1 (edgeOf t' 1)).1 (edgeOf t' 2)
      have p1 := insertKey_prefix (insertKey es (edgeOf t' 0)).1 (edgeOf t' 1)
      refine ⟨?_, ?_, ?_⟩
      · exact prefix_get (p1.trans (p2.trans p3)) (insertKey_get _ _)
      · exact prefix_get (p2.trans p3) (insertKey_get _ _)
      · exact prefix_get p3 (insertKey_get _ _)
    | succ i =>
      simp only [List.getElem?_cons_succ] at ht
      simp only [enumGo, List.getElem?_cons_succ] at hx ⊢
      exact ih _ i ht hx

end BemppVerif.Lemmas.Topo
