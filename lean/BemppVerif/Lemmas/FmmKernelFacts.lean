/-
The Numba FMM helper kernels (`bempp_cl/api/fmm/helpers.py`: `laplace_kernel`, `modified_helmholtz_kernel`,
`helmholtz_kernel`; traced into `Gen/FmmKernels.lean` on every run) against the canonical Green's functions of
`Lemmas/KernelFacts.lean`, i.e. against what the DENSE assembler's kernels are proved to compute:

  component 0            = G(x, y)                      (single layer)
  Σ_k component(1+k) n_k(x) =  ∂G/∂n_x                  (adjoint double layer: gradient with respect to the TARGET x)
  −Σ_k component(1+k) n_k(y) = ∂G/∂n_y                  (double layer, ∇_y G = −∇_x G)

These are the kernels of the near-field correction of the FMM operators (C17): together with `fmm_matvec_eq_dense`,
`dl_from_gradient`, `adl_from_gradient` (Props/C17.lean, abstract kernel) they say that the FMM-mode operator subtracts and
re-adds exactly the integrand of the dense one.  x = target (test) point, y = source (trial) point.
(statements laid out by a script; maintained by hand)
-/
import BemppVerif.Gen.FmmKernels
import BemppVerif.Lemmas.KernelFacts

namespace BemppVerif.FmmKernels
open BemppVerif.Gen.FmmKernels BemppVerif.Kernels
set_option linter.unusedVariables false
set_option linter.unusedSimpArgs false

variable {K : Type} [Field K] (sqrt cos sin exp : K → K) (c4pi : K)

theorem laplace_c0_im0 (x0 x1 x2 y0 y1 y2 nx0 nx1 nx2 ny0 ny1 ny2 p0 p1 : K) :
    fmm_laplace_kernel_im0_c0_re sqrt cos sin exp c4pi x0 x1 x2 y0 y1 y2 p0 p1 = lapSL sqrt cos sin exp c4pi x0 x1 x2 y0 y1 y2 nx0 nx1 nx2 ny0 ny1 ny2 p0 p1 := by
  simp only [fmm_laplace_kernel_im0_c0_re, r, dny, dnx, lapSL, lapDL, lapADL, helmSLre, helmSLim, helmFre, helmFim, helmDLre, helmDLim, helmADLre, helmADLim, modSL, modDL, modADL] <;> ring_nf

theorem laplace_grad_nx_im0 (x0 x1 x2 y0 y1 y2 nx0 nx1 nx2 ny0 ny1 ny2 p0 p1 : K) :
    fmm_laplace_kernel_im0_c1_re sqrt cos sin exp c4pi x0 x1 x2 y0 y1 y2 p0 p1 * nx0 + fmm_laplace_kernel_im0_c2_re sqrt cos sin exp c4pi x0 x1 x2 y0 y1 y2 p0 p1 * nx1 + fmm_laplace_kernel_im0_c3_re sqrt cos sin exp c4pi x0 x1 x2 y0 y1 y2 p0 p1 * nx2 = lapADL sqrt cos sin exp c4pi x0 x1 x2 y0 y1 y2 nx0 nx1 nx2 ny0 ny1 ny2 p0 p1 := by
  simp only [fmm_laplace_kernel_im0_c1_re, fmm_laplace_kernel_im0_c2_re, fmm_laplace_kernel_im0_c3_re, r, dny, dnx, lapSL, lapDL, lapADL, helmSLre, helmSLim, helmFre, helmFim, helmDLre, helmDLim, helmADLre, helmADLim, modSL, modDL, modADL] <;> ring_nf

theorem laplace_grad_ny_im0 (x0 x1 x2 y0 y1 y2 nx0 nx1 nx2 ny0 ny1 ny2 p0 p1 : K) :
    -(fmm_laplace_kernel_im0_c1_re sqrt cos sin exp c4pi x0 x1 x2 y0 y1 y2 p0 p1 * ny0 + fmm_laplace_kernel_im0_c2_re sqrt cos sin exp c4pi x0 x1 x2 y0 y1 y2 p0 p1 * ny1 + fmm_laplace_kernel_im0_c3_re sqrt cos sin exp c4pi x0 x1 x2 y0 y1 y2 p0 p1 * ny2) = lapDL sqrt cos sin exp c4pi x0 x1 x2 y0 y1 y2 nx0 nx1 nx2 ny0 ny1 ny2 p0 p1 := by
  simp only [fmm_laplace_kernel_im0_c1_re, fmm_laplace_kernel_im0_c2_re, fmm_laplace_kernel_im0_c3_re, r, dny, dnx, lapSL, lapDL, lapADL, helmSLre, helmSLim, helmFre, helmFim, helmDLre, helmDLim, helmADLre, helmADLim, modSL, modDL, modADL] <;> ring_nf

theorem modified_c0_im0 (x0 x1 x2 y0 y1 y2 nx0 nx1 nx2 ny0 ny1 ny2 p0 p1 : K) :
    fmm_modified_helmholtz_kernel_im0_c0_re sqrt cos sin exp c4pi x0 x1 x2 y0 y1 y2 p0 p1 = modSL sqrt cos sin exp c4pi x0 x1 x2 y0 y1 y2 nx0 nx1 nx2 ny0 ny1 ny2 p0 p1 := by
  simp only [fmm_modified_helmholtz_kernel_im0_c0_re, r, dny, dnx, lapSL, lapDL, lapADL, helmSLre, helmSLim, helmFre, helmFim, helmDLre, helmDLim, helmADLre, helmADLim, modSL, modDL, modADL] <;> ring_nf

theorem modified_grad_nx_im0 (x0 x1 x2 y0 y1 y2 nx0 nx1 nx2 ny0 ny1 ny2 p0 p1 : K) :
    fmm_modified_helmholtz_kernel_im0_c1_re sqrt cos sin exp c4pi x0 x1 x2 y0 y1 y2 p0 p1 * nx0 + fmm_modified_helmholtz_kernel_im0_c2_re sqrt cos sin exp c4pi x0 x1 x2 y0 y1 y2 p0 p1 * nx1 + fmm_modified_helmholtz_kernel_im0_c3_re sqrt cos sin exp c4pi x0 x1 x2 y0 y1 y2 p0 p1 * nx2 = modADL sqrt cos sin exp c4pi x0 x1 x2 y0 y1 y2 nx0 nx1 nx2 ny0 ny1 ny2 p0 p1 := by
  simp only [fmm_modified_helmholtz_kernel_im0_c1_re, fmm_modified_helmholtz_kernel_im0_c2_re, fmm_modified_helmholtz_kernel_im0_c3_re, r, dny, dnx, lapSL, lapDL, lapADL, helmSLre, helmSLim, helmFre, helmFim, helmDLre, helmDLim, helmADLre, helmADLim, modSL, modDL, modADL] <;> ring_nf

theorem modified_grad_ny_im0 (x0 x1 x2 y0 y1 y2 nx0 nx1 nx2 ny0 ny1 ny2 p0 p1 : K) :
    -(fmm_modified_helmholtz_kernel_im0_c1_re sqrt cos sin exp c4pi x0 x1 x2 y0 y1 y2 p0 p1 * ny0 + fmm_modified_helmholtz_kernel_im0_c2_re sqrt cos sin exp c4pi x0 x1 x2 y0 y1 y2 p0 p1 * ny1 + fmm_modified_helmholtz_kernel_im0_c3_re sqrt cos sin exp c4pi x0 x1 x2 y0 y1 y2 p0 p1 * ny2) = modDL sqrt cos sin exp c4pi x0 x1 x2 y0 y1 y2 nx0 nx1 nx2 ny0 ny1 ny2 p0 p1 := by
  simp only [fmm_modified_helmholtz_kernel_im0_c1_re, fmm_modified_helmholtz_kernel_im0_c2_re, fmm_modified_helmholtz_kernel_im0_c3_re, r, dny, dnx, lapSL, lapDL, lapADL, helmSLre, helmSLim, helmFre, helmFim, helmDLre, helmDLim, helmADLre, helmADLim, modSL, modDL, modADL] <;> ring_nf

theorem laplace_c0_imnz (x0 x1 x2 y0 y1 y2 nx0 nx1 nx2 ny0 ny1 ny2 p0 p1 : K) :
    fmm_laplace_kernel_imnz_c0_re sqrt cos sin exp c4pi x0 x1 x2 y0 y1 y2 p0 p1 = lapSL sqrt cos sin exp c4pi x0 x1 x2 y0 y1 y2 nx0 nx1 nx2 ny0 ny1 ny2 p0 p1 := by
  simp only [fmm_laplace_kernel_imnz_c0_re, r, dny, dnx, lapSL, lapDL, lapADL, helmSLre, helmSLim, helmFre, helmFim, helmDLre, helmDLim, helmADLre, helmADLim, modSL, modDL, modADL] <;> ring_nf

theorem laplace_grad_nx_imnz (x0 x1 x2 y0 y1 y2 nx0 nx1 nx2 ny0 ny1 ny2 p0 p1 : K) :
    fmm_laplace_kernel_imnz_c1_re sqrt cos sin exp c4pi x0 x1 x2 y0 y1 y2 p0 p1 * nx0 + fmm_laplace_kernel_imnz_c2_re sqrt cos sin exp c4pi x0 x1 x2 y0 y1 y2 p0 p1 * nx1 + fmm_laplace_kernel_imnz_c3_re sqrt cos sin exp c4pi x0 x1 x2 y0 y1 y2 p0 p1 * nx2 = lapADL sqrt cos sin exp c4pi x0 x1 x2 y0 y1 y2 nx0 nx1 nx2 ny0 ny1 ny2 p0 p1 := by
  simp only [fmm_laplace_kernel_imnz_c1_re, fmm_laplace_kernel_imnz_c2_re, fmm_laplace_kernel_imnz_c3_re, r, dny, dnx, lapSL, lapDL, lapADL, helmSLre, helmSLim, helmFre, helmFim, helmDLre, helmDLim, helmADLre, helmADLim, modSL, modDL, modADL] <;> ring_nf

theorem laplace_grad_ny_imnz (x0 x1 x2 y0 y1 y2 nx0 nx1 nx2 ny0 ny1 ny2 p0 p1 : K) :
    -(fmm_laplace_kernel_imnz_c1_re sqrt cos sin exp c4pi x0 x1 x2 y0 y1 y2 p0 p1 * ny0 + fmm_laplace_kernel_imnz_c2_re sqrt cos sin exp c4pi x0 x1 x2 y0 y1 y2 p0 p1 * ny1 + fmm_laplace_kernel_imnz_c3_re sqrt cos sin exp c4pi x0 x1 x2 y0 y1 y2 p0 p1 * ny2) = lapDL sqrt cos sin exp c4pi x0 x1 x2 y0 y1 y2 nx0 nx1 nx2 ny0 ny1 ny2 p0 p1 := by
  simp only [fmm_laplace_kernel_imnz_c1_re, fmm_laplace_kernel_imnz_c2_re, fmm_laplace_kernel_imnz_c3_re, r, dny, dnx, lapSL, lapDL, lapADL, helmSLre, helmSLim, helmFre, helmFim, helmDLre, helmDLim, helmADLre, helmADLim, modSL, modDL, modADL] <;> ring_nf

theorem modified_c0_imnz (x0 x1 x2 y0 y1 y2 nx0 nx1 nx2 ny0 ny1 ny2 p0 p1 : K) :
    fmm_modified_helmholtz_kernel_imnz_c0_re sqrt cos sin exp c4pi x0 x1 x2 y0 y1 y2 p0 p1 = modSL sqrt cos sin exp c4pi x0 x1 x2 y0 y1 y2 nx0 nx1 nx2 ny0 ny1 ny2 p0 p1 := by
  simp only [fmm_modified_helmholtz_kernel_imnz_c0_re, r, dny, dnx, lapSL, lapDL, lapADL, helmSLre, helmSLim, helmFre, helmFim, helmDLre, helmDLim, helmADLre, helmADLim, modSL, modDL, modADL] <;> ring_nf

theorem modified_grad_nx_imnz (x0 x1 x2 y0 y1 y2 nx0 nx1 nx2 ny0 ny1 ny2 p0 p1 : K) :
    fmm_modified_helmholtz_kernel_imnz_c1_re sqrt cos sin exp c4pi x0 x1 x2 y0 y1 y2 p0 p1 * nx0 + fmm_modified_helmholtz_kernel_imnz_c2_re sqrt cos sin exp c4pi x0 x1 x2 y0 y1 y2 p0 p1 * nx1 + fmm_modified_helmholtz_kernel_imnz_c3_re sqrt cos sin exp c4pi x0 x1 x2 y0 y1 y2 p0 p1 * nx2 = modADL sqrt cos sin exp c4pi x0 x1 x2 y0 y1 y2 nx0 nx1 nx2 ny0 ny1 ny2 p0 p1 := by
  simp only [fmm_modified_helmholtz_kernel_imnz_c1_re, fmm_modified_helmholtz_kernel_imnz_c2_re, fmm_modified_helmholtz_kernel_imnz_c3_re, r, dny, dnx, lapSL, lapDL, lapADL, helmSLre, helmSLim, helmFre, helmFim, helmDLre, helmDLim, helmADLre, helmADLim, modSL, modDL, modADL] <;> ring_nf

theorem modified_grad_ny_imnz (x0 x1 x2 y0 y1 y2 nx0 nx1 nx2 ny0 ny1 ny2 p0 p1 : K) :
    -(fmm_modified_helmholtz_kernel_imnz_c1_re sqrt cos sin exp c4pi x0 x1 x2 y0 y1 y2 p0 p1 * ny0 + fmm_modified_helmholtz_kernel_imnz_c2_re sqrt cos sin exp c4pi x0 x1 x2 y0 y1 y2 p0 p1 * ny1 + fmm_modified_helmholtz_kernel_imnz_c3_re sqrt cos sin exp c4pi x0 x1 x2 y0 y1 y2 p0 p1 * ny2) = modDL sqrt cos sin exp c4pi x0 x1 x2 y0 y1 y2 nx0 nx1 nx2 ny0 ny1 ny2 p0 p1 := by
  simp only [fmm_modified_helmholtz_kernel_imnz_c1_re, fmm_modified_helmholtz_kernel_imnz_c2_re, fmm_modified_helmholtz_kernel_imnz_c3_re, r, dny, dnx, lapSL, lapDL, lapADL, helmSLre, helmSLim, helmFre, helmFim, helmDLre, helmDLim, helmADLre, helmADLim, modSL, modDL, modADL] <;> ring_nf

theorem helmholtz_c0_imnz_re (x0 x1 x2 y0 y1 y2 nx0 nx1 nx2 ny0 ny1 ny2 p0 p1 : K) :
    fmm_helmholtz_kernel_imnz_c0_re sqrt cos sin exp c4pi x0 x1 x2 y0 y1 y2 p0 p1 = helmSLre sqrt cos sin exp c4pi x0 x1 x2 y0 y1 y2 nx0 nx1 nx2 ny0 ny1 ny2 p0 p1 := by
  simp only [fmm_helmholtz_kernel_imnz_c0_re, r, dny, dnx, lapSL, lapDL, lapADL, helmSLre, helmSLim, helmFre, helmFim, helmDLre, helmDLim, helmADLre, helmADLim, modSL, modDL, modADL] <;> ring_nf

theorem helmholtz_grad_nx_imnz_re (x0 x1 x2 y0 y1 y2 nx0 nx1 nx2 ny0 ny1 ny2 p0 p1 : K) :
    fmm_helmholtz_kernel_imnz_c1_re sqrt cos sin exp c4pi x0 x1 x2 y0 y1 y2 p0 p1 * nx0 + fmm_helmholtz_kernel_imnz_c2_re sqrt cos sin exp c4pi x0 x1 x2 y0 y1 y2 p0 p1 * nx1 + fmm_helmholtz_kernel_imnz_c3_re sqrt cos sin exp c4pi x0 x1 x2 y0 y1 y2 p0 p1 * nx2 = helmADLre sqrt cos sin exp c4pi x0 x1 x2 y0 y1 y2 nx0 nx1 nx2 ny0 ny1 ny2 p0 p1 := by
  simp only [fmm_helmholtz_kernel_imnz_c1_re, fmm_helmholtz_kernel_imnz_c2_re, fmm_helmholtz_kernel_imnz_c3_re, r, dny, dnx, lapSL, lapDL, lapADL, helmSLre, helmSLim, helmFre, helmFim, helmDLre, helmDLim, helmADLre, helmADLim, modSL, modDL, modADL] <;> ring_nf

theorem helmholtz_grad_ny_imnz_re (x0 x1 x2 y0 y1 y2 nx0 nx1 nx2 ny0 ny1 ny2 p0 p1 : K) :
    -(fmm_helmholtz_kernel_imnz_c1_re sqrt cos sin exp c4pi x0 x1 x2 y0 y1 y2 p0 p1 * ny0 + fmm_helmholtz_kernel_imnz_c2_re sqrt cos sin exp c4pi x0 x1 x2 y0 y1 y2 p0 p1 * ny1 + fmm_helmholtz_kernel_imnz_c3_re sqrt cos sin exp c4pi x0 x1 x2 y0 y1 y2 p0 p1 * ny2) = helmDLre sqrt cos sin exp c4pi x0 x1 x2 y0 y1 y2 nx0 nx1 nx2 ny0 ny1 ny2 p0 p1 := by
  simp only [fmm_helmholtz_kernel_imnz_c1_re, fmm_helmholtz_kernel_imnz_c2_re, fmm_helmholtz_kernel_imnz_c3_re, r, dny, dnx, lapSL, lapDL, lapADL, helmSLre, helmSLim, helmFre, helmFim, helmDLre, helmDLim, helmADLre, helmADLim, modSL, modDL, modADL] <;> ring_nf

theorem helmholtz_c0_im0_re (x0 x1 x2 y0 y1 y2 nx0 nx1 nx2 ny0 ny1 ny2 p0 p1 : K) (hexp : exp 0 = 1) :
    fmm_helmholtz_kernel_im0_c0_re sqrt cos sin exp c4pi x0 x1 x2 y0 y1 y2 p0 p1 = helmSLre sqrt cos sin exp c4pi x0 x1 x2 y0 y1 y2 nx0 nx1 nx2 ny0 ny1 ny2 p0 0 := by
  simp only [fmm_helmholtz_kernel_im0_c0_re, r, dny, dnx, lapSL, lapDL, lapADL, helmSLre, helmSLim, helmFre, helmFim, helmDLre, helmDLim, helmADLre, helmADLim, modSL, modDL, modADL]
  simp only [zero_mul, mul_zero, neg_zero, hexp] <;> ring_nf

theorem helmholtz_grad_nx_im0_re (x0 x1 x2 y0 y1 y2 nx0 nx1 nx2 ny0 ny1 ny2 p0 p1 : K) (hexp : exp 0 = 1) :
    fmm_helmholtz_kernel_im0_c1_re sqrt cos sin exp c4pi x0 x1 x2 y0 y1 y2 p0 p1 * nx0 + fmm_helmholtz_kernel_im0_c2_re sqrt cos sin exp c4pi x0 x1 x2 y0 y1 y2 p0 p1 * nx1 + fmm_helmholtz_kernel_im0_c3_re sqrt cos sin exp c4pi x0 x1 x2 y0 y1 y2 p0 p1 * nx2 = helmADLre sqrt cos sin exp c4pi x0 x1 x2 y0 y1 y2 nx0 nx1 nx2 ny0 ny1 ny2 p0 0 := by
  simp only [fmm_helmholtz_kernel_im0_c1_re, fmm_helmholtz_kernel_im0_c2_re, fmm_helmholtz_kernel_im0_c3_re, r, dny, dnx, lapSL, lapDL, lapADL, helmSLre, helmSLim, helmFre, helmFim, helmDLre, helmDLim, helmADLre, helmADLim, modSL, modDL, modADL]
  simp only [zero_mul, mul_zero, neg_zero, hexp] <;> ring_nf

theorem helmholtz_grad_ny_im0_re (x0 x1 x2 y0 y1 y2 nx0 nx1 nx2 ny0 ny1 ny2 p0 p1 : K) (hexp : exp 0 = 1) :
    -(fmm_helmholtz_kernel_im0_c1_re sqrt cos sin exp c4pi x0 x1 x2 y0 y1 y2 p0 p1 * ny0 + fmm_helmholtz_kernel_im0_c2_re sqrt cos sin exp c4pi x0 x1 x2 y0 y1 y2 p0 p1 * ny1 + fmm_helmholtz_kernel_im0_c3_re sqrt cos sin exp c4pi x0 x1 x2 y0 y1 y2 p0 p1 * ny2) = helmDLre sqrt cos sin exp c4pi x0 x1 x2 y0 y1 y2 nx0 nx1 nx2 ny0 ny1 ny2 p0 0 := by
  simp only [fmm_helmholtz_kernel_im0_c1_re, fmm_helmholtz_kernel_im0_c2_re, fmm_helmholtz_kernel_im0_c3_re, r, dny, dnx, lapSL, lapDL, lapADL, helmSLre, helmSLim, helmFre, helmFim, helmDLre, helmDLim, helmADLre, helmADLim, modSL, modDL, modADL]
  simp only [zero_mul, mul_zero, neg_zero, hexp] <;> ring_nf

theorem helmholtz_c0_imnz_im (x0 x1 x2 y0 y1 y2 nx0 nx1 nx2 ny0 ny1 ny2 p0 p1 : K) :
    fmm_helmholtz_kernel_imnz_c0_im sqrt cos sin exp c4pi x0 x1 x2 y0 y1 y2 p0 p1 = helmSLim sqrt cos sin exp c4pi x0 x1 x2 y0 y1 y2 nx0 nx1 nx2 ny0 ny1 ny2 p0 p1 := by
  simp only [fmm_helmholtz_kernel_imnz_c0_im, r, dny, dnx, lapSL, lapDL, lapADL, helmSLre, helmSLim, helmFre, helmFim, helmDLre, helmDLim, helmADLre, helmADLim, modSL, modDL, modADL] <;> ring_nf

theorem helmholtz_grad_nx_imnz_im (x0 x1 x2 y0 y1 y2 nx0 nx1 nx2 ny0 ny1 ny2 p0 p1 : K) :
    fmm_helmholtz_kernel_imnz_c1_im sqrt cos sin exp c4pi x0 x1 x2 y0 y1 y2 p0 p1 * nx0 + fmm_helmholtz_kernel_imnz_c2_im sqrt cos sin exp c4pi x0 x1 x2 y0 y1 y2 p0 p1 * nx1 + fmm_helmholtz_kernel_imnz_c3_im sqrt cos sin exp c4pi x0 x1 x2 y0 y1 y2 p0 p1 * nx2 = helmADLim sqrt cos sin exp c4pi x0 x1 x2 y0 y1 y2 nx0 nx1 nx2 ny0 ny1 ny2 p0 p1 := by
  simp only [fmm_helmholtz_kernel_imnz_c1_im, fmm_helmholtz_kernel_imnz_c2_im, fmm_helmholtz_kernel_imnz_c3_im, r, dny, dnx, lapSL, lapDL, lapADL, helmSLre, helmSLim, helmFre, helmFim, helmDLre, helmDLim, helmADLre, helmADLim, modSL, modDL, modADL] <;> ring_nf

theorem helmholtz_grad_ny_imnz_im (x0 x1 x2 y0 y1 y2 nx0 nx1 nx2 ny0 ny1 ny2 p0 p1 : K) :
    -(fmm_helmholtz_kernel_imnz_c1_im sqrt cos sin exp c4pi x0 x1 x2 y0 y1 y2 p0 p1 * ny0 + fmm_helmholtz_kernel_imnz_c2_im sqrt cos sin exp c4pi x0 x1 x2 y0 y1 y2 p0 p1 * ny1 + fmm_helmholtz_kernel_imnz_c3_im sqrt cos sin exp c4pi x0 x1 x2 y0 y1 y2 p0 p1 * ny2) = helmDLim sqrt cos sin exp c4pi x0 x1 x2 y0 y1 y2 nx0 nx1 nx2 ny0 ny1 ny2 p0 p1 := by
  simp only [fmm_helmholtz_kernel_imnz_c1_im, fmm_helmholtz_kernel_imnz_c2_im, fmm_helmholtz_kernel_imnz_c3_im, r, dny, dnx, lapSL, lapDL, lapADL, helmSLre, helmSLim, helmFre, helmFim, helmDLre, helmDLim, helmADLre, helmADLim, modSL, modDL, modADL] <;> ring_nf

theorem helmholtz_c0_im0_im (x0 x1 x2 y0 y1 y2 nx0 nx1 nx2 ny0 ny1 ny2 p0 p1 : K) (hexp : exp 0 = 1) :
    fmm_helmholtz_kernel_im0_c0_im sqrt cos sin exp c4pi x0 x1 x2 y0 y1 y2 p0 p1 = helmSLim sqrt cos sin exp c4pi x0 x1 x2 y0 y1 y2 nx0 nx1 nx2 ny0 ny1 ny2 p0 0 := by
  simp only [fmm_helmholtz_kernel_im0_c0_im, r, dny, dnx, lapSL, lapDL, lapADL, helmSLre, helmSLim, helmFre, helmFim, helmDLre, helmDLim, helmADLre, helmADLim, modSL, modDL, modADL]
  simp only [zero_mul, mul_zero, neg_zero, hexp] <;> ring_nf

theorem helmholtz_grad_nx_im0_im (x0 x1 x2 y0 y1 y2 nx0 nx1 nx2 ny0 ny1 ny2 p0 p1 : K) (hexp : exp 0 = 1) :
    fmm_helmholtz_kernel_im0_c1_im sqrt cos sin exp c4pi x0 x1 x2 y0 y1 y2 p0 p1 * nx0 + fmm_helmholtz_kernel_im0_c2_im sqrt cos sin exp c4pi x0 x1 x2 y0 y1 y2 p0 p1 * nx1 + fmm_helmholtz_kernel_im0_c3_im sqrt cos sin exp c4pi x0 x1 x2 y0 y1 y2 p0 p1 * nx2 = helmADLim sqrt cos sin exp c4pi x0 x1 x2 y0 y1 y2 nx0 nx1 nx2 ny0 ny1 ny2 p0 0 := by
  simp only [fmm_helmholtz_kernel_im0_c1_im, fmm_helmholtz_kernel_im0_c2_im, fmm_helmholtz_kernel_im0_c3_im, r, dny, dnx, lapSL, lapDL, lapADL, helmSLre, helmSLim, helmFre, helmFim, helmDLre, helmDLim, helmADLre, helmADLim, modSL, modDL, modADL]
  simp only [zero_mul, mul_zero, neg_zero, hexp] <;> ring_nf

theorem helmholtz_grad_ny_im0_im (x0 x1 x2 y0 y1 y2 nx0 nx1 nx2 ny0 ny1 ny2 p0 p1 : K) (hexp : exp 0 = 1) :
    -(fmm_helmholtz_kernel_im0_c1_im sqrt cos sin exp c4pi x0 x1 x2 y0 y1 y2 p0 p1 * ny0 + fmm_helmholtz_kernel_im0_c2_im sqrt cos sin exp c4pi x0 x1 x2 y0 y1 y2 p0 p1 * ny1 + fmm_helmholtz_kernel_im0_c3_im sqrt cos sin exp c4pi x0 x1 x2 y0 y1 y2 p0 p1 * ny2) = helmDLim sqrt cos sin exp c4pi x0 x1 x2 y0 y1 y2 nx0 nx1 nx2 ny0 ny1 ny2 p0 0 := by
  simp only [fmm_helmholtz_kernel_im0_c1_im, fmm_helmholtz_kernel_im0_c2_im, fmm_helmholtz_kernel_im0_c3_im, r, dny, dnx, lapSL, lapDL, lapADL, helmSLre, helmSLim, helmFre, helmFim, helmDLre, helmDLim, helmADLre, helmADLim, modSL, modDL, modADL]
  simp only [zero_mul, mul_zero, neg_zero, hexp] <;> ring_nf

end BemppVerif.FmmKernels
