/- Helper lemmas for the colouring model (core Lean only). -/
import BemppVerif.Model.Color

namespace BemppVerif.Lemmas.Color
open BemppVerif.Model.Color

/-! ### basic facts -/

theorem mem_supportElements (S : Space) (e : Nat) :
    e ∈ S.supportElements ↔ e < S.nelems ∧ S.sup e = true := by
  simp [Space.supportElements]

theorem supportElements_nodup (S : Space) : S.supportElements.Nodup :=
  List.Nodup.sublist List.filter_sublist List.nodup_range

theorem colorOf_set (cm : Array Int) (e x : Nat) (v : Int) (he : e < cm.size) :
    colorOf (cm.setIfInBounds e v) x = if x = e then v else colorOf cm x := by
  unfold colorOf
  by_cases h : x = e
  · subst h
    simp [Array.getD_eq_getD_getElem?, he]
  · simp [Array.getD_eq_getD_getElem?, h, Ne.symm h]

theorem colorOf_replicate (n x : Nat) : colorOf (Array.replicate n (-1)) x = -1 := by
  unfold colorOf
  simp [Array.getD]

theorem pickColor_spec (b : Nat) (used : List Int) (c : Nat) (h : pickColor b used = some c) :
    c < b ∧ (c : Int) ∉ used := by
  unfold pickColor at h
  have h1 := List.mem_of_find?_eq_some h
  have h2 := List.find?_some h
  simp at h1 h2
  exact ⟨h1, h2⟩

/-- `c` is the smallest colour not used -/
theorem pickColor_min (b : Nat) (used : List Int) (c : Nat) (h : pickColor b used = some c) :
    ∀ c', c' < c → (c' : Int) ∈ used := by
  intro c' hc'
  unfold pickColor at h
  rw [List.find?_eq_some_iff_append] at h
  obtain ⟨_, as, bs, hr, hall⟩ := h
  have hlen : as.length = c := by
    have := congrArg (fun l => l[as.length]?) hr
    simp at this
    have hlt : as.length < b := by
      have := congrArg List.length hr
      simp at this; omega
    rw [List.getElem?_range hlt] at this
    simpa using this
  have hmem : c' ∈ as := by
    have : (List.range b)[c']? = some c' := List.getElem?_range (by
      have := congrArg List.length hr
      simp at this; omega)
    rw [hr, List.getElem?_append_left (by omega)] at this
    exact List.mem_of_getElem? this
  have := hall c' hmem
  simpa using this

/-! ### neighbour discovery -/

/-- `e` has the global dof `d` somewhere in its row, and `y` has it at an entry with non-zero multiplier -/
def SeesNZ (S : Space) (e y : Nat) : Prop :=
  ∃ d, d ∈ S.row e ∧ ∃ j, (S.row y)[j]? = some d ∧ S.nz y j = true

theorem mem_rowHits (S : Space) (d e : Nat) (p : Nat × Nat) :
    p ∈ rowHits S d e ↔ p.1 = e ∧ (S.row e)[p.2]? = some d ∧ S.nz e p.2 = true := by
  unfold rowHits
  simp only [List.mem_filterMap]
  constructor
  · rintro ⟨⟨dof, i⟩, hm, hp⟩
    have hz := List.mem_zipIdx hm
    simp at hz
    split at hp
    · rename_i hcond
      cases hp
      obtain ⟨hlt, hdof⟩ := hz
      refine ⟨rfl, ?_, hcond.2⟩
      have hd : dof = d := hcond.1
      simp [List.getElem?_eq_getElem hlt, ← hdof, hd]
    · cases hp
  · rintro ⟨h1, h2, h3⟩
    obtain ⟨a, i⟩ := p
    simp at h1 h2 h3
    subst h1
    refine ⟨(d, i), ?_, by simp [h3]⟩
    rw [List.mem_zipIdx_iff_getElem?]
    simpa using h2

theorem ownedCheck_sound (S : Space) (h : ownedCheck S = true) (e : Nat) (he : e < S.nelems)
    (hs : S.sup e = true) (d : Nat) (hd : d ∈ S.row e) :
    ∃ j : Nat, (S.row e)[j]? = some d ∧ S.nz e j = true := by
  unfold ownedCheck at h
  rw [List.all_eq_true] at h
  have h1 := h e (by simpa using he)
  simp only [hs, Bool.not_true, Bool.false_or, List.all_eq_true] at h1
  have h2 := h1 d hd
  cases hrh : rowHits S d e with
  | nil => simp [hrh] at h2
  | cons p ps =>
    have hp : p ∈ rowHits S d e := by rw [hrh]; simp
    rw [mem_rowHits] at hp
    exact ⟨p.2, hp.2.1, hp.2.2⟩

theorem mem_g2l (S : Space) (d : Nat) (p : Nat × Nat) :
    p ∈ g2l S d ↔ p.1 < S.nelems ∧ (S.row p.1)[p.2]? = some d ∧ S.nz p.1 p.2 = true := by
  unfold g2l
  simp only [List.mem_flatMap, List.mem_range, mem_rowHits]
  constructor
  · rintro ⟨e, he, h1, h2, h3⟩
    subst h1
    exact ⟨he, h2, h3⟩
  · rintro ⟨h1, h2, h3⟩
    exact ⟨p.1, h1, rfl, h2, h3⟩

theorem mem_neighbors (S : Space) (e y : Nat) :
    y ∈ neighbors S e ↔ y ≠ e ∧ y < S.nelems ∧ SeesNZ S e y := by
  unfold neighbors SeesNZ
  simp only [List.mem_filter, List.mem_flatMap, List.mem_map, mem_g2l, bne_iff_ne, ne_eq]
  constructor
  · rintro ⟨⟨d, hd, ⟨a, j⟩, ⟨h1, h2, h3⟩, rfl⟩, hne⟩
    exact ⟨hne, h1, d, hd, j, h2, h3⟩
  · rintro ⟨hne, hlt, d, hd, j, h2, h3⟩
    exact ⟨⟨d, hd, (y, j), ⟨hlt, h2, h3⟩, rfl⟩, hne⟩


/-! ### the loop invariant -/

/-- invariant of the colouring loop after the elements of `P` have been coloured -/
structure Inv (S : Space) (P : List Nat) (cm : Array Int) : Prop where
  size : cm.size = S.nelems
  uncol : ∀ x, x ∉ P → colorOf cm x = -1
  col : ∀ x, x ∈ P → 0 ≤ colorOf cm x ∧ colorOf cm x < S.nsupport
  proper : ∀ x y, x ∈ P → y ∈ P → x ≠ y → SeesNZ S x y → SeesNZ S y x → colorOf cm x ≠ colorOf cm y

theorem inv_init (S : Space) : Inv S [] (Array.replicate S.nelems (-1)) where
  size := by simp
  uncol := fun x _ => colorOf_replicate _ _
  col := fun x hx => by simp at hx
  proper := fun x y hx => by simp at hx

theorem inv_step (S : Space) (P : List Nat) (cm : Array Int) (e c : Nat) (hinv : Inv S P cm)
    (heP : e ∉ P) (he : e < S.nelems) (hP : ∀ x, x ∈ P → x < S.nelems)
    (hpick : pickColor S.nsupport (neighborColors S cm e) = some c) :
    Inv S (P ++ [e]) (cm.setIfInBounds e (c : Int)) := by
  have hsz : e < cm.size := by rw [hinv.size]; exact he
  obtain ⟨hcb, hcu⟩ := pickColor_spec _ _ _ hpick
  have hnb : ∀ y, y ∈ P → SeesNZ S e y → colorOf cm y ≠ (c : Int) := by
    intro y hy hs heq
    apply hcu
    unfold neighborColors
    rw [List.mem_map]
    refine ⟨y, (mem_neighbors S e y).2 ⟨?_, hP y hy, hs⟩, heq⟩
    intro h; subst h; exact heP hy
  refine ⟨by simp [hinv.size], ?_, ?_, ?_⟩
  · intro x hx
    simp only [List.mem_append, List.mem_singleton, not_or] at hx
    rw [colorOf_set _ _ _ _ hsz, if_neg hx.2]
    exact hinv.uncol x hx.1
  · intro x hx
    rw [colorOf_set _ _ _ _ hsz]
    by_cases hxe : x = e
    · simp only [hxe, if_true]
      omega
    · simp only [hxe, if_false]
      simp only [List.mem_append, List.mem_singleton, hxe, or_false] at hx
      exact hinv.col x hx
  · intro x y hx hy hxy h1 h2
    rw [colorOf_set _ _ _ _ hsz, colorOf_set _ _ _ _ hsz]
    simp only [List.mem_append, List.mem_singleton] at hx hy
    by_cases hxe : x = e
    · have hye : y ≠ e := fun h => hxy (hxe.trans h.symm)
      simp only [hxe, if_true, hye, if_false]
      subst hxe
      have hyP : y ∈ P := by
        rcases hy with h | h
        · exact h
        · exact absurd h hye
      exact fun h => hnb y hyP h1 h.symm
    · simp only [hxe, if_false]
      have hxP : x ∈ P := by
        rcases hx with h | h
        · exact h
        · exact absurd h hxe
      by_cases hye : y = e
      · simp only [hye, if_true]
        subst hye
        exact hnb x hxP h2
      · simp only [hye, if_false]
        have hyP : y ∈ P := by
          rcases hy with h | h
          · exact h
          · exact absurd h hye
        exact hinv.proper x y hxP hyP hxy h1 h2

theorem colorLoop_inv (S : Space) : ∀ (rest P : List Nat) (cm cm' : Array Int), Inv S P cm →
    (P ++ rest).Nodup → (∀ x, x ∈ P ++ rest → x < S.nelems) → colorLoop S rest cm = some cm' →
    Inv S (P ++ rest) cm' := by
  intro rest
  induction rest with
  | nil =>
    intro P cm cm' hinv _ _ h
    simp only [colorLoop, Option.some.injEq] at h
    subst h
    simpa using hinv
  | cons e rest ih =>
    intro P cm cm' hinv hnd hlt h
    simp only [colorLoop] at h
    split at h
    · cases h
    · rename_i c hc
      have heP : e ∉ P := by
        intro hm
        have := List.nodup_append.mp hnd
        exact this.2.2 e hm e (by simp) rfl
      have he : e < S.nelems := hlt e (by simp)
      have hP : ∀ x, x ∈ P → x < S.nelems := fun x hx => hlt x (by simp [hx])
      have hinv' := inv_step S P cm e c hinv heP he hP hc
      have := ih (P ++ [e]) _ cm' hinv' (by simpa using hnd) (by simpa using hlt) h
      simpa using this

/-! ### the `next(...)` never raises -/

theorem exists_lt_not_mem (n : Nat) : ∀ (l : List Nat), l.length < n → ∃ c, c < n ∧ c ∉ l := by
  induction n with
  | zero => intro l h; omega
  | succ n ih =>
    intro l h
    by_cases hn : n ∈ l
    · have hlen : (l.erase n).length < n := by
        have := List.length_pos_of_mem hn
        rw [List.length_erase_of_mem hn]; omega
      obtain ⟨c, hc, hcn⟩ := ih (l.erase n) hlen
      refine ⟨c, by omega, ?_⟩
      intro hm
      exact hcn ((List.mem_erase_of_ne (by omega)).2 hm)
    · exact ⟨n, by omega, hn⟩

theorem pickColor_isSome (b : Nat) (used : List Int) (c : Nat) (hc : c < b) (hu : (c : Int) ∉ used) :
    ∃ c', pickColor b used = some c' := by
  unfold pickColor
  have : ((List.range b).find? fun (c : Nat) => !(used.contains (c : Int))).isSome = true := by
    rw [List.find?_isSome]
    exact ⟨c, by simpa using hc, by simpa using hu⟩
  exact Option.isSome_iff_exists.mp this

theorem colorLoop_total (S : Space) : ∀ (rest P : List Nat) (cm : Array Int), Inv S P cm →
    (P ++ rest).Nodup → (∀ x, x ∈ P ++ rest → x < S.nelems) → (P ++ rest).length ≤ S.nsupport →
    ∃ cm', colorLoop S rest cm = some cm' := by
  intro rest
  induction rest with
  | nil => intro P cm _ _ _ _; exact ⟨cm, rfl⟩
  | cons e rest ih =>
    intro P cm hinv hnd hlt hlen
    have heP : e ∉ P := by
      intro hm
      have := List.nodup_append.mp hnd
      exact this.2.2 e hm e (by simp) rfl
    have he : e < S.nelems := hlt e (by simp)
    have hP : ∀ x, x ∈ P → x < S.nelems := fun x hx => hlt x (by simp [hx])
    -- pigeonhole on the colours of the already coloured elements
    have hPlen : (P.map fun y => (colorOf cm y).toNat).length < S.nsupport := by
      simp only [List.length_map]
      simp only [List.length_append, List.length_cons] at hlen
      omega
    obtain ⟨c, hcb, hcn⟩ := exists_lt_not_mem _ _ hPlen
    have hfree : (c : Int) ∉ neighborColors S cm e := by
      intro hm
      unfold neighborColors at hm
      rw [List.mem_map] at hm
      obtain ⟨y, _, hy⟩ := hm
      by_cases hyP : y ∈ P
      · apply hcn
        rw [List.mem_map]
        exact ⟨y, hyP, by rw [hy]; simp⟩
      · have := hinv.uncol y hyP
        omega
    obtain ⟨c', hc'⟩ := pickColor_isSome _ _ c hcb hfree
    have hinv' := inv_step S P cm e c' hinv heP he hP hc'
    obtain ⟨cm', hcm'⟩ := ih (P ++ [e]) _ hinv' (by simpa using hnd) (by simpa using hlt) (by simpa using hlen)
    exact ⟨cm', by simp only [colorLoop, hc', hcm']⟩

theorem greedy_inv (S : Space) (cm : Array Int) (h : greedy S = some cm) : Inv S S.supportElements cm := by
  have := colorLoop_inv S S.supportElements [] _ cm (inv_init S) (by simpa using supportElements_nodup S)
    (by intro x hx; exact ((mem_supportElements S x).1 (by simpa using hx)).1) h
  simpa using this

theorem greedy_total (S : Space) : ∃ cm, greedy S = some cm :=
  colorLoop_total S S.supportElements [] _ (inv_init S) (by simpa using supportElements_nodup S)
    (by intro x hx; exact ((mem_supportElements S x).1 (by simpa using hx)).1) (by simp [Space.nsupport])


/-! ### `_sort_elements_by_color` -/

theorem le_foldl_max (l : List Int) (a : Int) : a ≤ l.foldl max a ∧ ∀ x, x ∈ l → x ≤ l.foldl max a := by
  induction l generalizing a with
  | nil => simp
  | cons b l ih =>
    simp only [List.foldl_cons, List.mem_cons]
    obtain ⟨h1, h2⟩ := ih (max a b)
    refine ⟨by omega, ?_⟩
    rintro x (rfl | hx)
    · omega
    · exact h2 x hx

theorem colorOf_le_max (cm : Array Int) (x : Nat) : colorOf cm x ≤ maxColor cm := by
  unfold colorOf maxColor
  obtain ⟨h1, h2⟩ := le_foldl_max cm.toList (-1)
  by_cases hx : x < cm.size
  · have : cm.getD x (-1) = cm[x] := by simp [Array.getD_eq_getD_getElem?, hx]
    rw [this]
    exact h2 _ (by simp)
  · have : cm.getD x (-1) = -1 := by simp [Array.getD_eq_getD_getElem?, hx]
    rw [this]; exact h1

theorem mem_withColor (cm : Array Int) (c e : Nat) :
    e ∈ withColor cm c ↔ e < cm.size ∧ colorOf cm e = (c : Int) := by
  simp [withColor]

theorem withColor_nodup (cm : Array Int) (c : Nat) : (withColor cm c).Nodup :=
  List.Nodup.sublist List.filter_sublist List.nodup_range

theorem withColor_disjoint (cm : Array Int) (c c' e : Nat) (h : e ∈ withColor cm c) (h' : e ∈ withColor cm c') :
    c = c' := by
  rw [mem_withColor] at h h'
  omega

theorem lt_ncolors (cm : Array Int) (x c : Nat) (h : colorOf cm x = (c : Int)) : c < ncolors cm := by
  have := colorOf_le_max cm x
  unfold ncolors
  omega

theorem flatten_nodup : ∀ (L : List (List Nat)), (∀ l, l ∈ L → l.Nodup) →
    L.Pairwise (fun a b => ∀ x, x ∈ a → x ∉ b) → L.flatten.Nodup := by
  intro L
  induction L with
  | nil => intro _ _; simp
  | cons b L ih =>
    intro h1 h2
    rw [List.pairwise_cons] at h2
    simp only [List.flatten_cons]
    rw [List.nodup_append]
    refine ⟨h1 b (by simp), ih (fun l hl => h1 l (by simp [hl])) h2.2, ?_⟩
    intro x hx y hy hxy
    subst hxy
    rw [List.mem_flatten] at hy
    obtain ⟨l, hl, hxl⟩ := hy
    exact h2.1 l hl x hx hxl

theorem sortedIndices_nodup (cm : Array Int) : (sortedIndices cm).Nodup := by
  unfold sortedIndices launches
  apply flatten_nodup
  · intro l hl
    rw [List.mem_map] at hl
    obtain ⟨c, _, rfl⟩ := hl
    exact withColor_nodup cm c
  · rw [List.pairwise_map]
    refine List.Pairwise.imp ?_ (List.pairwise_lt_range (n := ncolors cm))
    intro a b hab x hxa hxb
    have := withColor_disjoint cm a b x hxa hxb
    omega

theorem mem_sortedIndices (cm : Array Int) (e : Nat) :
    e ∈ sortedIndices cm ↔ e < cm.size ∧ 0 ≤ colorOf cm e := by
  unfold sortedIndices launches
  simp only [List.mem_flatten, List.mem_map, List.mem_range]
  constructor
  · rintro ⟨l, ⟨c, _, rfl⟩, he⟩
    rw [mem_withColor] at he
    exact ⟨he.1, by omega⟩
  · rintro ⟨h1, h2⟩
    have hc : colorOf cm e = ((colorOf cm e).toNat : Int) := by omega
    exact ⟨_, ⟨(colorOf cm e).toNat, lt_ncolors cm e _ hc, rfl⟩, (mem_withColor _ _ _).2 ⟨h1, hc⟩⟩

/-! ### slicing `sorted_indices` with `indexptr` -/

theorem prefixSums_length (L : List (List Nat)) (acc : Nat) : (prefixSums acc L).length = L.length + 1 := by
  induction L generalizing acc with
  | nil => rfl
  | cons b L ih => simp [prefixSums, ih]

theorem prefixSums_zero (L : List (List Nat)) (acc : Nat) : (prefixSums acc L).getD 0 0 = acc := by
  cases L <;> simp [prefixSums]

theorem prefixSums_ge (L : List (List Nat)) (acc c : Nat) (hc : c ≤ L.length) :
    acc ≤ (prefixSums acc L).getD c 0 := by
  induction L generalizing acc c with
  | nil =>
    have : c = 0 := by simpa using hc
    subst this; simp [prefixSums]
  | cons b L ih =>
    cases c with
    | zero => simp [prefixSums]
    | succ c =>
      simp only [prefixSums, List.getD_cons_succ]
      have := ih (acc + b.length) c (by simpa using hc)
      omega

theorem slice_blocks (L : List (List Nat)) (acc c : Nat) (hc : c < L.length) :
    (L.flatten.drop ((prefixSums acc L).getD c 0 - acc)).take
      ((prefixSums acc L).getD (c + 1) 0 - (prefixSums acc L).getD c 0) = L.getD c [] := by
  induction L generalizing acc c with
  | nil => simp at hc
  | cons b L ih =>
    cases c with
    | zero =>
      simp only [prefixSums, List.getD_cons_zero, List.getD_cons_succ, prefixSums_zero, Nat.sub_self,
        List.drop_zero, List.flatten_cons]
      exact List.take_left' (by omega)
    | succ c =>
      have hc' : c < L.length := by simpa using hc
      simp only [prefixSums, List.getD_cons_succ, List.flatten_cons]
      have hge := prefixSums_ge L (acc + b.length) c (by omega)
      have := ih (acc + b.length) c hc'
      rw [← this, List.drop_append]
      have h1 : (prefixSums (acc + b.length) L).getD c 0 - acc - b.length
          = (prefixSums (acc + b.length) L).getD c 0 - (acc + b.length) := by omega
      have h2 : List.drop ((prefixSums (acc + b.length) L).getD c 0 - acc) b = [] := by
        apply List.drop_eq_nil_of_le; omega
      rw [h2, h1, List.nil_append]

theorem launches_length (cm : Array Int) : (launches cm).length = ncolors cm := by
  simp [launches]

theorem launchSlice_eq (cm : Array Int) (c : Nat) (hc : c < ncolors cm) :
    launchSlice cm c = withColor cm c := by
  unfold launchSlice indexptr sortedIndices
  have := slice_blocks (launches cm) 0 c (by rw [launches_length]; exact hc)
  simp only [Nat.sub_zero] at this
  rw [this]
  simp [launches, hc]

theorem launchLoop_eq (cm : Array Int) : launchLoop cm = launches cm := by
  unfold launchLoop
  have hl : (indexptr cm).length - 1 = ncolors cm := by
    unfold indexptr
    rw [prefixSums_length, launches_length]; omega
  rw [hl]
  unfold launches
  apply List.map_congr_left
  intro c hc
  exact launchSlice_eq cm c (by simpa using hc)

end BemppVerif.Lemmas.Color
