/- Lemmas on the singular bookkeeping: the offsets address exactly the intended blocks of the concatenated arrays. -/
import BemppVerif.Model.Sing
import BemppVerif.Lemmas.Duffy
import Mathlib.Tactic.IntervalCases

namespace BemppVerif.Lemmas
open BemppVerif.Model.Sing BemppVerif.Model.Quad BemppVerif.Model.Asm BemppVerif.Gen

/-- block `k` of a concatenation of blocks of equal length `m` -/
theorem drop_take_flatMap_block {α β : Type} (l : List α) (f : α → List β) (m k : Nat) (a : α)
    (hlen : ∀ x ∈ l, (f x).length = m) (hk : l[k]? = some a) (post : List β) :
    ((l.flatMap f ++ post).drop (m * k)).take m = f a := by
  induction l generalizing k with
  | nil => simp at hk
  | cons x xs ih =>
    have hx : (f x).length = m := hlen x (by simp)
    cases k with
    | zero =>
      simp only [List.getElem?_cons_zero, Option.some.injEq] at hk
      subst hk
      simp only [Nat.mul_zero, List.drop_zero, List.flatMap_cons, List.append_assoc]
      rw [List.take_append_of_le_length (by omega)]
      rw [List.take_of_length_le (by omega)]
    | succ k =>
      simp only [List.getElem?_cons_succ] at hk
      have e : m * (k + 1) = (f x).length + m * k := by rw [hx, Nat.mul_succ, Nat.add_comm]
      simp only [List.flatMap_cons, List.append_assoc]
      rw [e, List.drop_append, List.drop_of_length_le (by omega), Nat.add_sub_cancel_left, List.nil_append]
      exact ih k (fun y hy => hlen y (by simp [hy])) hk

/-- the same with a prefix of known length in front -/
theorem drop_take_block_after {α β : Type} (pre : List β) (l : List α) (f : α → List β) (m k : Nat) (a : α)
    (hlen : ∀ x ∈ l, (f x).length = m) (hk : l[k]? = some a) (post : List β) :
    ((pre ++ (l.flatMap f ++ post)).drop (pre.length + m * k)).take m = f a := by
  rw [List.drop_append, List.drop_of_length_le (by omega), Nat.add_sub_cancel_left, List.nil_append]
  exact drop_take_flatMap_block l f m k a hlen hk post

/-- **the offset table is the inverse of the remap order**: `offset_values[a,b]` is the position of the block produced by
`remap_points_shared_edge(·, a, b)`, for all six ordered pairs -/
theorem offset_table_inverts_order :
    ∀ a b : Nat, a < 3 → b < 3 → a ≠ b →
      ∃ k, offsetValue a b = some k ∧ SingTables.edgeRemapOrder[k]? = some (a, b) := by
  intro a b ha hb hab
  have : (a, b) ∈ [(0, 1), (1, 0), (1, 2), (2, 1), (0, 2), (2, 0)] := by
    rcases a with _ | _ | _ | a <;> rcases b with _ | _ | _ | b <;> simp_all <;> omega
  simp only [List.mem_cons, Prod.mk.injEq, List.mem_nil_iff, or_false] at this
  rcases this with ⟨rfl, rfl⟩ | ⟨rfl, rfl⟩ | ⟨rfl, rfl⟩ | ⟨rfl, rfl⟩ | ⟨rfl, rfl⟩ | ⟨rfl, rfl⟩
  · exact ⟨0, by decide, by decide⟩
  · exact ⟨1, by decide, by decide⟩
  · exact ⟨2, by decide, by decide⟩
  · exact ⟨3, by decide, by decide⟩
  · exact ⟨4, by decide, by decide⟩
  · exact ⟨5, by decide, by decide⟩

theorem offset_table_diagonal_rejected (a : Nat) : offsetValue a a = none := by
  rcases a with _ | _ | _ | a
  · decide
  · decide
  · decide
  · simp [offsetValue, SingTables.offsetValues]

/-- vertex remap `v` is block `v` -/
theorem vertex_order_identity : ∀ v, v < 3 → SingTables.vertexRemapOrder[v]? = some v := by
  intro v hv
  rcases v with _ | _ | _ | v
  · decide
  · decide
  · decide
  · omega

section blocks
variable {R : Type} [Add R] [Sub R] [Mul R] [One R] [Zero R]

/-- **coincident pairs read the coincident rule**: offset 0, `6n⁴` points -/
theorem coincident_block (sel : QP R → R × R) (xs ws : List R) (n : Nat) (hx : xs.length = n) (hw : ws.length = n) :
    ((vectorizePoints sel xs ws).drop 0).take (nCoinc n) = (duffy .coincident xs ws).map sel := by
  unfold vectorizePoints nCoinc
  rw [List.drop_zero, List.append_assoc, List.take_append_of_le_length (by simp [duffy_length .coincident xs ws n hx hw])]
  rw [List.take_of_length_le (by simp [duffy_length .coincident xs ws n hx hw])]

/-- **edge-adjacent pairs with shared local vertices `(a, b)` read the points remapped by
`remap_points_shared_edge(·, a, b)`**: `edge_offsets[a, b]` addresses exactly that block of `5n⁴` points -/
theorem edge_block (sel : QP R → R × R) (xs ws : List R) (n a b : Nat) (hx : xs.length = n) (hw : ws.length = n)
    (ha : a < 3) (hb : b < 3) (hab : a ≠ b) :
    ∃ off, edgeOffset n a b = some off ∧
      ((vectorizePoints sel xs ws).drop off).take (nEdge n)
        = (duffy .edge xs ws).map fun q => (remapEdge (sel q) a b).getD (sel q) := by
  obtain ⟨k, hk1, hk2⟩ := offset_table_inverts_order a b ha hb hab
  refine ⟨nCoinc n + nEdge n * k, by simp [edgeOffset, hk1], ?_⟩
  unfold vectorizePoints
  have hc : ((duffy .coincident xs ws).map sel).length = nCoinc n := by
    simp [nCoinc, duffy_length .coincident xs ws n hx hw]
  rw [List.append_assoc, ← hc]
  exact drop_take_block_after _ SingTables.edgeRemapOrder _ (nEdge n) k (a, b)
    (fun x _ => by simp [nEdge, duffy_length .edge xs ws n hx hw]) hk2 _

/-- **vertex-adjacent pairs with shared local vertex `v` read the points remapped by
`remap_points_shared_vertex(·, v)`** -/
theorem vertex_block (sel : QP R → R × R) (xs ws : List R) (n v : Nat) (hx : xs.length = n) (hw : ws.length = n)
    (hv : v < 3) :
    ((vectorizePoints sel xs ws).drop (vertexOffset n v)).take (nVert n)
      = (duffy .vertex xs ws).map fun q => (remapVertex (sel q) v).getD (sel q) := by
  unfold vectorizePoints vertexOffset
  have hc : ((duffy .coincident xs ws).map sel).length = nCoinc n := by
    simp [nCoinc, duffy_length .coincident xs ws n hx hw]
  have he : (SingTables.edgeRemapOrder.flatMap fun ab =>
      (duffy .edge xs ws).map fun q => (remapEdge (sel q) ab.1 ab.2).getD (sel q)).length = 6 * nEdge n := by
    simp [SingTables.edgeRemapOrder, nEdge, duffy_length .edge xs ws n hx hw]; ring
  have hpre : ((duffy .coincident xs ws).map sel ++ SingTables.edgeRemapOrder.flatMap fun ab =>
      (duffy .edge xs ws).map fun q => (remapEdge (sel q) ab.1 ab.2).getD (sel q)).length
      = nCoinc n + 6 * nEdge n := by rw [List.length_append, hc, he]
  rw [← hpre]
  have := drop_take_block_after
    ((duffy .coincident xs ws).map sel ++ SingTables.edgeRemapOrder.flatMap fun ab =>
      (duffy .edge xs ws).map fun q => (remapEdge (sel q) ab.1 ab.2).getD (sel q))
    SingTables.vertexRemapOrder (fun v => (duffy .vertex xs ws).map fun q => (remapVertex (sel q) v).getD (sel q))
    (nVert n) v v (fun x _ => by simp [nVert, duffy_length .vertex xs ws n hx hw]) (vertex_order_identity v hv) []
  simpa using this

end blocks

end BemppVerif.Lemmas

namespace BemppVerif.Lemmas
open BemppVerif.Model.Quad

/-- physical point of a triangle with vertex coordinates `v 0, v 1, v 2` (one Cartesian component) at the local point
`p`: `v0 + (v1 - v0) p.1 + (v2 - v0) p.2` — what `GridData.local2global` computes -/
def physical {K : Type} [Field K] (v : Nat → K) (p : K × K) : K := v 0 + (v 1 - v 0) * p.1 + (v 2 - v 0) * p.2

end BemppVerif.Lemmas
