/-
Helper lemmas for C14 (continued): preservation of `Rel` by subtraction, products, application, forcing, transposes.
-/
import BemppVerif.Lemmas.AlgSound

namespace BemppVerif.Lemmas.AlgSound
open BemppVerif.Model.Alg BemppVerif.Lemmas.AlgMat BemppVerif.Lemmas.AlgType

set_option linter.unusedSectionVars false
set_option linter.unusedSimpArgs false

variable {R : Type} [CommRing R] [CParts R]

theorem subV_rel (hp : LawfulParts R) {p : Pool R} (ok : PoolOk p) {x y r : Obj R} {dx dy : Den R}
    (hx : Rel p x dx) (hy : Rel p y dy) (h : subV p x y = .ok r) : Rel p r (addD dx (scaleD (-1) dy)) := by
  have general : ∀ r', ((negV y >>= fun ny => addV p x ny) = .ok r') → Rel p r' (addD dx (scaleD (-1) dy)) := by
    intro r' h'
    obtain ⟨ny, hny, h'⟩ := bind_eq_ok h'
    exact addV_rel hp ok hx (negV_rel hp ok hy hny) h'
  cases x <;> cases dx <;> simp only [Rel] at hx <;> cases y <;> cases dy <;> simp only [Rel] at hy <;>
    simp only [subV] at h
  case scalar.sc.scalar.sc => cases h; simp [Rel, addD, scaleD, hx, hy]
  case gf.fn.gf.fn a _ _ b _ _ =>
    split at h
    · rename_i hs
      obtain ⟨g, hg, rfl⟩ := map_eq_ok h
      have hb' := relG_scale hp ok (-1) false hy
      exact relG_add hp ok hx ⟨by simp only [gfScale]; rw [← hs, hx.1], by
        have := hb'.2.1
        simp only [gfScale] at this ⊢
        rw [← hx.1, hs]; exact hy.1 ▸ this, hb'.2.2⟩ hg
    · cases h
  all_goals first
    | exact general _ h
    | cases h
    | (split at h <;> cases h)

/-- `strong_form()` of a boundary operator is inverse mass times weak form -/
theorem strongB_ok {p : Pool R} (ok : PoolOk p) {b : BOpV R} {d r u : Nat} {W : Mat R} (hb : RelB p b d r u W)
    {S : DOp R} (h : strongB p b = .ok S) :
    WFD S ∧ S.rows = p.ndof r ∧ S.cols = p.ndof d ∧ S.toDense = mmul (minvD p r u) W (p.ndof d) := by
  obtain ⟨b1, b2, b3, b4⟩ := hb
  unfold strongB at h
  obtain ⟨m, hm, h⟩ := bind_eq_ok h
  obtain ⟨w, hw, h⟩ := bind_eq_ok h
  obtain ⟨M, hM, rfl, hsh⟩ := minvOp_ok ok hm
  obtain ⟨w1, _, w3, w4⟩ := b4 w hw
  obtain ⟨s1, s2, s3, s4⟩ := dMul_ok h hsh w1
  refine ⟨s1, by rw [s2, ← b2]; rfl, by rw [s3, w3], ?_⟩
  rw [s4, w4, w3]
  simp only [DOp.toDense, minvD]
  rw [← b2, ← b3, hM]
  rfl

theorem mulV_rel_nonblk (hp : LawfulParts R) {p : Pool R} (ok : PoolOk p) {mm : Bool} {x y r : Obj R} {dx dy : Den R}
    (hx : Rel p x dx) (hy : Rel p y dy) (h : mulV p mm x y = .ok r)
    (hnb : ∀ k, x ≠ .blk k) : Rel p r (mulD p dx dy) := by
  cases x <;> first | exact absurd rfl (hnb _) | skip
  all_goals
    cases dx <;> (have hx0 := hx) <;> simp only [Rel] at hx <;> cases y <;> cases dy <;> (have hy0 := hy) <;>
      simp only [Rel] at hy <;> simp only [mulV] at h
  case bop.op.bop.op a _ _ _ _ b _ _ _ _ =>
    split at h
    · cases h
      obtain ⟨a1, a2, a3, a4⟩ := hx
      refine ⟨hy.1, a2, a3, ?_⟩
      intro D hD
      obtain ⟨Da, S, hDa, hS, hD⟩ := wf2_ok hD
      obtain ⟨wa1, wa2, _, wa4⟩ := a4 Da hDa
      obtain ⟨t1, _, t3, t4⟩ := strongB_ok ok hy hS
      obtain ⟨s1, s2, s3, s4⟩ := dMul_ok hD wa1 t1
      exact ⟨s1, by rw [s2, wa2], by rw [s3, t3], by rw [s4, wa4, t4, t3]⟩
    · cases h
  case bop.op.gf.fn a _ _ _ _ g _ _ =>
    split at h
    · rename_i hs
      obtain ⟨w, hw, h⟩ := bind_eq_ok h
      obtain ⟨x, hx', h⟩ := bind_eq_ok h
      cases h
      obtain ⟨a1, a2, a3, a4⟩ := hx
      obtain ⟨g1, g2, g3⟩ := hy
      obtain ⟨w1, w2, w3, w4⟩ := a4 w hw
      have lx : x.length = w.cols := by
        rw [gfCoeffs_length hp ok (by rw [g1]; exact g2) hx', w3, ← a1, hs]
      refine ⟨a2, ?_, ?_⟩
      · simp only [Option.getD_some]
        rw [matvec_length hp w1 _ _ lx, w2, a3]
      · intro c' hc'
        rcases gfCoeffs_ok hp ok hc' with ⟨hd, _⟩ | ⟨d, M, hd, hM, _, rfl⟩
        · cases hd
        · cases hd
          simp only at hM ⊢
          rw [matvec_eq hp w1 _ _ lx, w4, g3 x hx']
          simp only [minvD]
          rw [← a2, ← a3, hM]
          rfl
    · cases h
  case pot.pot.gf.fn q _ _ g _ _ =>
    split at h
    · obtain ⟨x, hx', h⟩ := bind_eq_ok h
      cases h
      simp only [Rel, mulD]
      rw [hx.2, hy.2.2 x hx']
    · cases h
  case dop.dmat.dop.dmat =>
    obtain ⟨D, hD, rfl⟩ := map_eq_ok h
    obtain ⟨s1, s2, s3, s4⟩ := dMul_ok hD hx.1 hy.1
    exact ⟨s1, by rw [s2, hx.2.1], by rw [s3, hy.2.2.1], by rw [s4, hx.2.2.2, hy.2.2.2, hy.2.2.1]⟩
  all_goals try subst hx
  all_goals try subst hy
  all_goals first
    | (cases h; done)
    | exact scaleV_rel hp ok hy0 h
    | exact scaleV_rel hp ok hx0 h
    | (split at h <;> first
        | (cases h; done)
        | exact scaleV_rel hp ok hy0 h
        | exact scaleV_rel hp ok hx0 h
        | (split at h <;> cases h))

end BemppVerif.Lemmas.AlgSound
