/-
Helper definitions and lemmas for C14: the plain matrix / vector denotation of an expression (`denote`), the relation
between values of the interpreter and denotations (`Rel`), and its preservation by every operation.
-/
import BemppVerif.Lemmas.AlgDOp
import BemppVerif.Lemmas.AlgType

namespace BemppVerif.Lemmas.AlgSound
open BemppVerif.Model.Alg BemppVerif.Lemmas.AlgMat BemppVerif.Lemmas.AlgType

set_option linter.unusedSectionVars false
set_option linter.unusedSimpArgs false

variable {R : Type} [CommRing R] [CParts R]

/-! ## Denotations: no dtype flags, no classes, no laziness, no checks -/

inductive Den (R : Type) where
  | sc (v : R)
  /-- an operator: its spaces and its weak-form matrix -/
  | op (dom ran dual : Nat) (W : Mat R)
  /-- a function: its space and its coefficient vector -/
  | fn (space : Nat) (c : Vec R)
  | pot (space : Nat) (M : Mat R)
  /-- a blocked operator: spaces, (for arrays) the assigned block matrices, the big block matrix -/
  | blk (doms rans duals : List (Option Nat)) (blocks : List (Nat × Nat × Mat R)) (W : Mat R)
  | fns (l : List (Nat × Vec R))
  | arr (v : Vec R)
  | dmat (r n : Nat) (M : Mat R)
  | junk

/-- inverse mass matrix of a pair (empty if the pool has none) -/
def minvD (p : Pool R) (r d : Nat) : Mat R := (p.minvMat r d).getD []

def minvList (p : Pool R) : List (Option Nat) → List (Option Nat) → List (Mat R)
  | r :: rans, d :: duals => minvD p (r.getD 0) (d.getD 0) :: minvList p rans duals
  | _, _ => []

/-- block-diagonal matrix of the inverse mass matrices -/
def diagD (p : Pool R) (rans duals : List (Option Nat)) : Mat R :=
  blockedDense (diagBlocks (dimsOf p rans) (dimsOf p duals) (minvList p rans duals)) (dimsOf p rans)

def rowD (blocks : List (Nat × Nat × Mat R)) (i r : Nat) : Nat → List Nat → List (Bool × Mat R)
  | _, [] => []
  | j, d :: cd => (false, (logGet blocks i j).getD (zeroMat r d)) :: rowD blocks i r (j + 1) cd

def rowsD (blocks : List (Nat × Nat × Mat R)) (cd : List Nat) : Nat → List Nat → List (List (Bool × Mat R))
  | _, [] => []
  | i, r :: rd => rowD blocks i r 0 cd :: rowsD blocks cd (i + 1) rd

/-- block matrix with zero blocks where nothing was assigned -/
def assembleD (p : Pool R) (doms duals : List (Option Nat)) (blocks : List (Nat × Nat × Mat R)) : Mat R :=
  blockedDense (rowsD blocks (dimsOf p doms) 0 (dimsOf p duals)) (dimsOf p duals)

/-- slices of a projection vector, each multiplied by its inverse mass matrix -/
def splitD (p : Pool R) : List (Option Nat) → List (Option Nat) → Vec R → List (Nat × Vec R)
  | some r :: rans, some d :: duals, x =>
    (r, mulVec (minvD p r d) (x.take (p.ndof d))) :: splitD p rans duals (x.drop (p.ndof d))
  | _, _, _ => []

def scaleD (v : R) : Den R → Den R
  | .sc w => .sc (v * w)
  | .op d r u W => .op d r u (msmul v W)
  | .fn s c => .fn s (vsmul v c)
  | .pot s M => .pot s (msmul v M)
  | .blk d r u _ W => .blk d r u [] (msmul v W)
  | .dmat r n M => .dmat r n (msmul v M)
  | _ => .junk

def addD : Den R → Den R → Den R
  | .sc a, .sc b => .sc (a + b)
  | .op d r u A, .op _ _ _ B => .op d r u (madd A B)
  | .fn s a, .fn _ b => .fn s (vadd a b)
  | .pot s A, .pot _ B => .pot s (madd A B)
  | .blk d r u _ A, .blk _ _ _ _ B => .blk d r u [] (madd A B)
  | .fns a, .fns b => .fns (a ++ b)
  | .dmat r n A, .dmat _ _ B => .dmat r n (madd A B)
  | _, _ => .junk

def mulD (p : Pool R) : Den R → Den R → Den R
  | .sc a, y => scaleD a y
  | .op d r u A, .sc b => scaleD b (.op d r u A)
  | .fn s c, .sc b => scaleD b (.fn s c)
  | .pot s M, .sc b => scaleD b (.pot s M)
  | .blk d r u l W, .sc b => scaleD b (.blk d r u l W)
  | .dmat r n M, .sc b => scaleD b (.dmat r n M)
  /- product = weak form · inverse mass · weak form -/
  | .op _ r1 u1 A, .op d2 r2 u2 B => .op d2 r1 u1 (mmul A (mmul (minvD p r2 u2) B (p.ndof d2)) (p.ndof d2))
  /- application: coefficients of the image = inverse mass · (weak form · coefficients) -/
  | .op _ r u A, .fn _ c => .fn r (mulVec (minvD p r u) (mulVec A c))
  | .pot _ M, .fn _ c => .arr (mulVec M c)
  | .blk _ r1 u1 _ A, .blk d2 r2 u2 _ B =>
    .blk d2 r1 u1 [] (mmul A (mmul (diagD p r2 u2) B (dimsOf p d2).sum) (dimsOf p d2).sum)
  | .blk _ r u _ A, .fns l => .fns (splitD p r u (mulVec A (l.flatMap (·.2))))
  | .dmat r _ A, .dmat _ n B => .dmat r n (mmul A B n)
  | _, _ => .junk

def weakD (p : Pool R) : Den R → Den R
  | .op d _ u W => .dmat (p.ndof u) (p.ndof d) W
  | .blk d _ u _ W => .dmat (dimsOf p u).sum (dimsOf p d).sum W
  | _ => .junk

def strongD (p : Pool R) : Den R → Den R
  | .op d r u W => .dmat (p.ndof r) (p.ndof d) (mmul (minvD p r u) W (p.ndof d))
  | .blk d r u _ W => .dmat (dimsOf p r).sum (dimsOf p d).sum (mmul (diagD p r u) W (dimsOf p d).sum)
  | _ => .junk

def transposeD : Den R → Den R
  | .dmat r n M => .dmat n r (transposeM M n)
  | .sc v => .sc v
  | _ => .junk

def adjointD : Den R → Den R
  | .dmat r n M => .dmat n r ((transposeM M n).map (·.map CParts.conj))
  | _ => .junk

def blkSetD (p : Pool R) (i j : Nat) : Den R → Den R → Den R
  | .blk doms rans duals blocks _, .op d r u W =>
    let doms' := doms.set j (some d)
    let duals' := duals.set i (some u)
    .blk doms' (rans.set i (some r)) duals' ((i, j, W) :: blocks) (assembleD p doms' duals' ((i, j, W) :: blocks))
  | _, _ => .junk

def lconsD : Den R → Den R → Den R
  | .fn s c, .fns l => .fns ((s, c) :: l)
  | _, _ => .junk

/-- The plain matrix / vector expression an expression tree stands for. -/
def denote (p : Pool R) : Expr R → Den R
  | .sc _ _ v => .sc v
  | .op i => match p.ops[i]? with
    | some l => .op l.dom l.ran l.dual l.mat
    | none => .junk
  | .gf i => match p.gfs[i]? with
    | some l => .fn l.space (match l.dual with
      | none => l.data
      | some d => mulVec (minvD p l.space d) l.data)
    | none => .junk
  | .pot i => match p.pots[i]? with
    | some l => .pot l.space l.mat
    | none => .junk
  | .add a b => addD (denote p a) (denote p b)
  | .sub a b => addD (denote p a) (scaleD (-1) (denote p b))
  | .mul a b => mulD p (denote p a) (denote p b)
  | .matmul a b => mulD p (denote p a) (denote p b)
  | .neg a => scaleD (-1) (denote p a)
  | .weak a => weakD p (denote p a)
  | .strong a => strongD p (denote p a)
  | .transpose a => transposeD (denote p a)
  | .adjoint a => adjointD (denote p a)
  | .blkEmpty m n => .blk (List.replicate n none) (List.replicate m none) (List.replicate m none) [] []
  | .blkSet k i j o => blkSetD p i j (denote p k) (denote p o)
  | .lnil => .fns []
  | .lcons g l => lconsD (denote p g) (denote p l)

/-! ## Well-formed pools -/

structure PoolOk (p : Pool R) : Prop where
  ops : ∀ l ∈ p.ops, IsMat (p.ndof l.dual) (p.ndof l.dom) l.mat
  gfs : ∀ l ∈ p.gfs, l.data.length = p.ndof (l.dual.getD l.space)
  minv : ∀ r d M, p.minvMat r d = some M → IsMat (p.ndof r) (p.ndof d) M

theorem shapeOk_isMat {m n : Nat} {M : Mat R} (h : shapeOk m n M = true) : IsMat m n M := by
  simp only [shapeOk, Bool.and_eq_true, beq_iff_eq, List.all_eq_true] at h
  exact ⟨h.1, h.2⟩

/-- the decidable check the driver performs implies the invariant used by the theorems -/
theorem poolOk_of_wfb {p : Pool R} (h : p.wfb = true) : PoolOk p := by
  simp only [Pool.wfb, Bool.and_eq_true, List.all_eq_true] at h
  obtain ⟨⟨⟨h1, h2⟩, _⟩, h4⟩ := h
  refine ⟨fun l hl => shapeOk_isMat (h1 l hl), fun l hl => by simpa using h2 l hl, ?_⟩
  intro r d M hM
  simp only [Pool.minvMat, Option.map_eq_some_iff] at hM
  obtain ⟨e, he, rfl⟩ := hM
  have hmem := List.mem_of_find?_eq_some he
  have hp := List.find?_some he
  simp only [Bool.and_eq_true, beq_iff_eq] at hp
  have := shapeOk_isMat (h4 e hmem)
  rw [hp.1, hp.2] at this
  exact this

/-! ## The relation between interpreter values and denotations -/

def RelB (p : Pool R) (b : BOpV R) (d r u : Nat) (W : Mat R) : Prop :=
  b.dom = d ∧ b.ran = r ∧ b.dual = u ∧
    ∀ D, b.wf = .ok D → WFD D ∧ D.rows = p.ndof u ∧ D.cols = p.ndof d ∧ D.toDense = W

def RelG (p : Pool R) (g : GfV R) (s : Nat) (c : Vec R) : Prop :=
  g.space = s ∧ g.data.length = p.ndof (g.dual.getD s) ∧ ∀ c', gfCoeffs p g = .ok c' → c' = c

def RelLog (p : Pool R) (doms duals : List (Option Nat)) (log : List (Nat × Nat × BlockF R))
    (blocks : List (Nat × Nat × Mat R)) : Prop :=
  List.Forall₂ (fun e f => e.1 = f.1 ∧ e.2.1 = f.2.1 ∧
    ∃ u d, duals.getD e.1 none = some u ∧ doms.getD e.2.1 none = some d ∧
      ∀ c M, e.2.2 = .ok (c, M) → M = f.2.2 ∧ IsMat (p.ndof u) (p.ndof d) M) log blocks

def RelK (p : Pool R) (k : BlkV R) (doms rans duals : List (Option Nat)) (blocks : List (Nat × Nat × Mat R))
    (W : Mat R) : Prop :=
  k.doms = doms ∧ k.rans = rans ∧ k.duals = duals ∧
    rans.length = duals.length ∧
    (∀ D, k.wf = .ok D → WFD D ∧ D.rows = (dimsOf p duals).sum ∧ D.cols = (dimsOf p doms).sum ∧ D.toDense = W) ∧
    (∀ log, k.log = some log → RelLog p doms duals log blocks)

def Rel (p : Pool R) : Obj R → Den R → Prop
  | .scalar _ _ v, .sc w => v = w
  | .bop b, .op d r u W => RelB p b d r u W
  | .gf g, .fn s c => RelG p g s c
  | .pot q, .pot s M => q.space = s ∧ ∀ xc x, q.t.eval xc x = mulVec M x
  | .blk k, .blk d r u bl W => RelK p k d r u bl W
  | .gfl l, .fns l' => List.Forall₂ (fun g f => RelG p g f.1 f.2) l l'
  | .arr _ v, .arr w => v = w
  | .dop D, .dmat r n M => WFD D ∧ D.rows = r ∧ D.cols = n ∧ D.toDense = M
  | _, _ => False

/-! ## Basic facts -/

theorem map_eq_ok {α β : Type} {x : Except Err α} {f : α → β} {b : β} (h : x.map f = .ok b) :
    ∃ a, x = .ok a ∧ f a = b := by
  cases x with
  | error e => cases h
  | ok a => exact ⟨a, rfl, by simpa using h⟩

theorem bind_eq_ok {α β : Type} {x : Except Err α} {f : α → Except Err β} {b : β} (h : (x >>= f) = .ok b) :
    ∃ a, x = .ok a ∧ f a = .ok b := by
  cases x with
  | error e => cases h
  | ok a => exact ⟨a, rfl, h⟩

theorem minvOp_ok {p : Pool R} (ok : PoolOk p) {r d : Nat} {D : DOp R} (h : minvOp p r d = .ok D) :
    ∃ M, p.minvMat r d = some M ∧ D = .leaf .inv false (p.ndof r) (p.ndof d) M ∧ IsMat (p.ndof r) (p.ndof d) M := by
  unfold minvOp at h
  cases hm : p.minvMat r d with
  | none => rw [hm] at h; cases h
  | some M =>
    rw [hm] at h
    cases h
    exact ⟨M, rfl, rfl, ok.minv r d M hm⟩

theorem gfCoeffs_ok (hp : LawfulParts R) {p : Pool R} (ok : PoolOk p) {g : GfV R} {c : Vec R}
    (h : gfCoeffs p g = .ok c) :
    (g.dual = none ∧ c = g.data) ∨
      ∃ d M, g.dual = some d ∧ p.minvMat g.space d = some M ∧ IsMat (p.ndof g.space) (p.ndof d) M ∧ c = mulVec M g.data := by
  unfold gfCoeffs at h
  cases hd : g.dual with
  | none => rw [hd] at h; cases h; exact Or.inl ⟨rfl, rfl⟩
  | some d =>
    rw [hd] at h
    obtain ⟨m, hm, hc⟩ := bind_eq_ok h
    obtain ⟨M, hM, rfl, hsh⟩ := minvOp_ok ok hm
    cases hc
    exact Or.inr ⟨d, M, rfl, hM, hsh, by simp only [DOp.matvec]; exact applyMat_eq hp _ _ _ _⟩

theorem gfCoeffs_length (hp : LawfulParts R) {p : Pool R} (ok : PoolOk p) {g : GfV R} {c : Vec R}
    (hl : g.data.length = p.ndof (g.dual.getD g.space)) (h : gfCoeffs p g = .ok c) : c.length = p.ndof g.space := by
  rcases gfCoeffs_ok hp ok h with ⟨hd, rfl⟩ | ⟨d, M, hd, _, hsh, rfl⟩
  · simpa [hd] using hl
  · simp [hsh.1]

theorem gfCoeffs_dual_some {p : Pool R} {g : GfV R} {d : Nat} {M : Mat R} (hp : LawfulParts R)
    (hd : g.dual = some d) (hM : p.minvMat g.space d = some M) : gfCoeffs p g = .ok (mulVec M g.data) := by
  unfold gfCoeffs minvOp
  rw [hd]
  simp only [hM, bind_ok, pure_eq, DOp.matvec]
  rw [applyMat_eq hp]

theorem relB_scale {p : Pool R} {b : BOpV R} {d r u : Nat} {W : Mat R} (v : R) (c : Bool) (h : RelB p b d r u W) :
    RelB p (bScale v c b) d r u (msmul v W) := by
  obtain ⟨h1, h2, h3, h4⟩ := h
  refine ⟨h1, h2, h3, ?_⟩
  intro D hD
  obtain ⟨D0, hD0, rfl⟩ := map_eq_ok hD
  obtain ⟨w1, w2, w3, w4⟩ := h4 D0 hD0
  obtain ⟨s1, s2, s3, s4⟩ := dScale_ok v c w1
  exact ⟨s1, by rw [s2, w2], by rw [s3, w3], by rw [s4, w4]⟩

theorem relG_scale (hp : LawfulParts R) {p : Pool R} (ok : PoolOk p) {g : GfV R} {s : Nat} {c : Vec R} (v : R) (ac : Bool)
    (h : RelG p g s c) : RelG p (gfScale v ac g) s (vsmul v c) := by
  obtain ⟨h1, h2, h3⟩ := h
  refine ⟨h1, by simpa [gfScale, vsmul] using h2, ?_⟩
  intro c' hc'
  rcases gfCoeffs_ok hp ok hc' with ⟨hd, rfl⟩ | ⟨d, M, hd, hM, _, rfl⟩
  · simp only [gfScale] at hd ⊢
    have : gfCoeffs p g = .ok g.data := by unfold gfCoeffs; rw [hd]
    rw [← h3 _ this]
  · simp only [gfScale] at hd hM ⊢
    rw [← h3 _ (gfCoeffs_dual_some hp hd hM), mulVec_vsmul_right]

theorem relG_add (hp : LawfulParts R) {p : Pool R} (ok : PoolOk p) {a b g : GfV R} {s : Nat} {ca cb : Vec R}
    (ha : RelG p a s ca) (hb : RelG p b s cb) (h : gfAdd p a b = .ok g) : RelG p g s (vadd ca cb) := by
  obtain ⟨a1, a2, a3⟩ := ha
  obtain ⟨b1, b2, b3⟩ := hb
  have primal : ∀ g', ((gfCoeffs p a >>= fun x => gfCoeffs p b >>= fun y =>
      (pure ⟨a.space, none, a.c || b.c, vadd x y⟩ : Except Err (GfV R))) = .ok g') → RelG p g' s (vadd ca cb) := by
    intro g' hg'
    obtain ⟨x, hx, hg'⟩ := bind_eq_ok hg'
    obtain ⟨y, hy, hg'⟩ := bind_eq_ok hg'
    cases hg'
    have lx := gfCoeffs_length hp ok (by rw [a1]; exact a2) hx
    have ly := gfCoeffs_length hp ok (by rw [b1]; exact b2) hy
    rw [a1] at lx
    rw [b1] at ly
    refine ⟨a1, ?_, ?_⟩
    · simpa using vadd_length_eq lx ly
    · intro c' hc'
      simp only [gfCoeffs] at hc'
      cases hc'
      rw [a3 x hx, b3 y hy]
  unfold gfAdd at h
  cases hda : a.dual with
  | none => rw [hda] at h; exact primal g h
  | some d1 =>
    cases hdb : b.dual with
    | none => rw [hda, hdb] at h; exact primal g h
    | some d2 =>
      rw [hda, hdb] at h
      simp only at h
      split at h
      · rename_i hdd
        subst hdd
        cases h
        refine ⟨a1, ?_, ?_⟩
        · simp only [Option.getD_some]
          rw [hda] at a2
          rw [hdb] at b2
          exact vadd_length_eq (by simpa using a2) (by simpa using b2)
        · intro c' hc'
          rcases gfCoeffs_ok hp ok hc' with ⟨hd, _⟩ | ⟨d, M, hd, hM, _, rfl⟩
          · cases hd
          · cases hd
            simp only at hM ⊢
            rw [← a3 _ (gfCoeffs_dual_some hp hda hM), ← b3 _ (gfCoeffs_dual_some hp hdb (by rw [b1, ← a1]; exact hM)),
              mulVec_vadd_right]
      · exact primal g h

theorem relK_scale {p : Pool R} {k : BlkV R} {d r u : List (Option Nat)} {bl : List (Nat × Nat × Mat R)} {W : Mat R}
    (v : R) (c : Bool) (h : RelK p k d r u bl W) : RelK p (kScale v c k) d r u [] (msmul v W) := by
  obtain ⟨h1, h2, h3, h4, h5, _⟩ := h
  refine ⟨h1, h2, h3, h4, ?_, ?_⟩
  · intro D hD
    obtain ⟨D0, hD0, rfl⟩ := map_eq_ok hD
    obtain ⟨w1, w2, w3, w4⟩ := h5 D0 hD0
    obtain ⟨s1, s2, s3, s4⟩ := dScale_ok v c w1
    exact ⟨s1, by rw [s2, w2], by rw [s3, w3], by rw [s4, w4]⟩
  · intro log hlog
    cases hlog

theorem scaleV_rel (hp : LawfulParts R) {p : Pool R} (ok : PoolOk p) {c np : Bool} {v : R} {y r : Obj R} {dy : Den R}
    (hy : Rel p y dy) (h : scaleV c np v y = .ok r) : Rel p r (scaleD v dy) := by
  cases y <;> cases dy <;> simp only [Rel] at hy <;> simp only [scaleV] at h
  case scalar.sc => cases h; simp [Rel, scaleD, hy]
  case bop.op => cases h; exact relB_scale v c hy
  case gf.fn => cases h; exact relG_scale hp ok v c hy
  case pot.pot =>
    cases h
    refine ⟨hy.1, fun xc x => ?_⟩
    simp only [PTree.eval, hy.2, mulVec_msmul]
  case blk.blk => cases h; exact relK_scale v c hy
  case gfl.fns => split at h <;> cases h
  case dop.dmat =>
    cases h
    obtain ⟨s1, s2, s3, s4⟩ := dScale_ok v c hy.1
    exact ⟨s1, by rw [s2, hy.2.1], by rw [s3, hy.2.2.1], by rw [s4, hy.2.2.2]⟩
  all_goals cases h

theorem negV_rel (hp : LawfulParts R) {p : Pool R} (ok : PoolOk p) {x r : Obj R} {dx : Den R}
    (hx : Rel p x dx) (h : negV x = .ok r) : Rel p r (scaleD (-1) dx) := by
  cases x <;> cases dx <;> simp only [Rel] at hx <;> simp only [negV] at h
  case scalar.sc => cases h; simp [Rel, scaleD, hx]
  case bop.op => cases h; exact relB_scale _ _ hx
  case gf.fn => cases h; exact relG_scale hp ok _ _ hx
  case pot.pot =>
    cases h
    refine ⟨hx.1, fun xc x => ?_⟩
    simp only [PTree.eval, hx.2, mulVec_msmul]
  case blk.blk => cases h; exact relK_scale _ _ hx
  case dop.dmat =>
    cases h
    obtain ⟨s1, s2, s3, s4⟩ := dNeg_ok hx.1
    exact ⟨s1, by rw [s2, hx.2.1], by rw [s3, hx.2.2.1], by rw [s4, hx.2.2.2]⟩
  all_goals cases h

theorem cmpSpaces_true {a b : List (Option Nat)} (h : cmpSpaces a b = .ok true) : a = b := by
  induction a generalizing b with
  | nil => cases b with
    | nil => rfl
    | cons _ _ => simp [cmpSpaces] at h
  | cons x a ih =>
    cases b with
    | nil => simp [cmpSpaces] at h
    | cons y b =>
      cases x <;> cases y <;> simp only [cmpSpaces] at h
      · rw [ih h]
      · cases h
      · cases h
      · split at h
        · rename_i hxy; rw [hxy, ih h]
        · cases h

theorem wf2_ok {wa wb : Except Err (DOp R)} {f : DOp R → DOp R → Except Err (DOp R)} {D : DOp R}
    (h : (wa >>= fun x => wb >>= fun y => f x y) = .ok D) : ∃ a b, wa = .ok a ∧ wb = .ok b ∧ f a b = .ok D := by
  obtain ⟨a, ha, h⟩ := bind_eq_ok h
  obtain ⟨b, hb, h⟩ := bind_eq_ok h
  exact ⟨a, b, ha, hb, h⟩

theorem forall₂_append {α β : Type} {P : α → β → Prop} {a1 a2 : List α} {b1 b2 : List β}
    (h1 : List.Forall₂ P a1 b1) (h2 : List.Forall₂ P a2 b2) : List.Forall₂ P (a1 ++ a2) (b1 ++ b2) := by
  induction h1 with
  | nil => exact h2
  | cons h _ ih => exact List.Forall₂.cons h ih

theorem addV_rel (hp : LawfulParts R) {p : Pool R} (ok : PoolOk p) {x y r : Obj R} {dx dy : Den R}
    (hx : Rel p x dx) (hy : Rel p y dy) (h : addV p x y = .ok r) : Rel p r (addD dx dy) := by
  cases x <;> cases dx <;> simp only [Rel] at hx <;> cases y <;> cases dy <;> simp only [Rel] at hy <;>
    simp only [addV] at h
  case scalar.sc.scalar.sc => cases h; simp [Rel, addD, hx, hy]
  case bop.op.bop.op a _ _ _ _ b _ _ _ _ =>
    split at h
    · cases h
      obtain ⟨a1, a2, a3, a4⟩ := hx
      obtain ⟨b1, b2, b3, b4⟩ := hy
      refine ⟨a1, a2, a3, ?_⟩
      intro D hD
      obtain ⟨Da, Db, hDa, hDb, hD⟩ := wf2_ok hD
      obtain ⟨wa1, wa2, wa3, wa4⟩ := a4 Da hDa
      obtain ⟨wb1, _, _, wb4⟩ := b4 Db hDb
      obtain ⟨s1, s2, s3, s4⟩ := dAdd_ok hD wa1 wb1
      exact ⟨s1, by rw [s2, wa2], by rw [s3, wa3], by rw [s4, wa4, wb4]⟩
    · cases h
  case gf.fn.gf.fn a _ _ b _ _ =>
    split at h
    · rename_i hs
      obtain ⟨g, hg, rfl⟩ := map_eq_ok h
      exact relG_add hp ok hx ⟨by rw [← hs, hx.1], by rw [← hx.1, hs]; exact hy.1 ▸ hy.2.1, hy.2.2⟩ hg
    · cases h
  case pot.pot.pot.pot =>
    split at h
    · cases h
      refine ⟨hx.1, fun xc x => ?_⟩
      simp only [PTree.eval, hx.2, hy.2, mulVec_madd]
    · cases h
  case blk.blk.blk.blk a _ _ _ _ _ b _ _ _ _ _ =>
    obtain ⟨e1, he1, h⟩ := bind_eq_ok h
    cases e1 with
    | false => cases h
    | true =>
      simp only [if_true] at h
      obtain ⟨e2, he2, h⟩ := bind_eq_ok h
      cases e2 with
      | false => cases h
      | true =>
        simp only [if_true] at h
        obtain ⟨e3, he3, h⟩ := bind_eq_ok h
        cases e3 with
        | false => cases h
        | true =>
          cases h
          obtain ⟨a1, a2, a3, a4, a5, _⟩ := hx
          obtain ⟨_, _, _, _, b5, _⟩ := hy
          refine ⟨a1, a2, a3, a4, ?_, fun log hlog => by cases hlog⟩
          intro D hD
          obtain ⟨Da, Db, hDa, hDb, hD⟩ := wf2_ok hD
          obtain ⟨wa1, wa2, wa3, wa4⟩ := a5 Da hDa
          obtain ⟨wb1, _, _, wb4⟩ := b5 Db hDb
          obtain ⟨s1, s2, s3, s4⟩ := dAdd_ok hD wa1 wb1
          exact ⟨s1, by rw [s2, wa2], by rw [s3, wa3], by rw [s4, wa4, wb4]⟩
  case gfl.fns.gfl.fns => cases h; exact forall₂_append hx hy
  case dop.dmat.dop.dmat =>
    obtain ⟨D, hD, rfl⟩ := map_eq_ok h
    obtain ⟨s1, s2, s3, s4⟩ := dAdd_ok hD hx.1 hy.1
    exact ⟨s1, by rw [s2, hx.2.1], by rw [s3, hx.2.2.1], by rw [s4, hx.2.2.2, hy.2.2.2]⟩
  all_goals first
    | cases h
    | (split at h <;> cases h)

end BemppVerif.Lemmas.AlgSound
