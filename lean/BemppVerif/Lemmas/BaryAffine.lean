/-
Helper lemmas for C10: affine interpolation on a sub-triangle, transfer of the rational vertex identities
(checked by `decide` on the regenerated tables) to an arbitrary field of characteristic zero, cancellation
of the length factors of `generate_rwg0_map` against the scaling of the RWG/SNC evaluators.
-/
import BemppVerif.Model.Bary
import Mathlib.Tactic.Ring
import Mathlib.Tactic.FieldSimp
import Mathlib.Tactic.LinearCombination
import Mathlib.Tactic.NormNum
import Mathlib.Data.Rat.Cast.CharZero

namespace BemppVerif.Lemmas.BaryAffine
open BemppVerif.Model.Bary BemppVerif.Gen.BaryTables

variable {K : Type} [Field K]

/-- a rational reference point as a point over `K` -/
def castPt (p : Rat × Rat) : K × K := ((p.1 : K), (p.2 : K))

/-- vertices of sub-triangle `s` over `K` -/
def subP (s k : Nat) : K × K := castPt (subVertex s k)

theorem p1_interp (p0 p1 p2 : K × K) (i : Nat) (x y : K) :
    p1G i (triMap p0 p1 p2 (x, y)) = p1G i p0 * (1 - x - y) + p1G i p1 * x + p1G i p2 * y := by
  unfold p1G triMap
  split_ifs <;> ring

theorem p1G_cast [CharZero K] (i : Nat) (p : Rat × Rat) : p1G i (castPt (K := K) p) = ((p1G i p : Rat) : K) := by
  unfold p1G castPt
  split_ifs <;> push_cast <;> rfl

theorem piola_affine (p0 p1 p2 : K × K) (q : Nat → K) (i : Nat) (x y : K) :
    piolaDefect p0 p1 p2 q i (x, y) =
      add2 (add2 (smul2 (1 - x - y) (piolaDefect p0 p1 p2 q i (0, 0))) (smul2 x (piolaDefect p0 p1 p2 q i (1, 0))))
        (smul2 y (piolaDefect p0 p1 p2 q i (0, 1))) := by
  unfold piolaDefect rwgG triMap triLin sum3v add2 sub2 smul2
  split_ifs <;> (ext <;> simp <;> ring)

theorem piolaDefect_cast [CharZero K] (p0 p1 p2 : Rat × Rat) (q : Nat → Rat) (i : Nat) (e : Rat × Rat) :
    piolaDefect (castPt (K := K) p0) (castPt p1) (castPt p2) (fun k => ((q k : Rat) : K)) i (castPt e)
      = castPt (piolaDefect p0 p1 p2 q i e) := by
  unfold piolaDefect rwgG triMap triLin sum3v add2 sub2 smul2 castPt
  split_ifs <;> (ext <;> simp)

/-- the vertex identities over `Rat` give the identity at every point over `K` -/
theorem piola_2d [CharZero K] (coeffs : List (List (List Rat))) (lc : List (Rat × Rat)) (ev : List (Nat × Nat))
    (i s : Nat)
    (hv : ∀ j, j < 3 → piolaDefect (subVertex s 0) (subVertex s 1) (subVertex s 2) (subQ coeffs lc ev i s) i
      (refVertex j) = (0, 0)) (x y : K) :
    rwgG i (triMap (subP s 0) (subP s 1) (subP s 2) (x, y))
      = sum3v fun k => smul2 ((subQ coeffs lc ev i s k : Rat) : K) (triLin (subP s 0) (subP s 1) (subP s 2) (rwgG k (x, y))) := by
  have h0 := congrArg (castPt (K := K)) (hv 0 (by decide))
  have h1 := congrArg (castPt (K := K)) (hv 1 (by decide))
  have h2 := congrArg (castPt (K := K)) (hv 2 (by decide))
  rw [← piolaDefect_cast] at h0 h1 h2
  have e0 : castPt (K := K) (refVertex 0) = (0, 0) := by simp [castPt, refVertex]
  have e1 : castPt (K := K) (refVertex 1) = (1, 0) := by simp [castPt, refVertex]
  have e2 : castPt (K := K) (refVertex 2) = (0, 1) := by simp [castPt, refVertex]
  have z : castPt (K := K) (0, 0) = (0, 0) := by simp [castPt]
  rw [e0, z] at h0
  rw [e1, z] at h1
  rw [e2, z] at h2
  have h := piola_affine (subP s 0) (subP s 1) (subP s 2) (fun k => ((subQ coeffs lc ev i s k : Rat) : K)) i x y
  unfold subP at h ⊢
  rw [h0, h1, h2] at h
  have hz : piolaDefect (castPt (K := K) (subVertex s 0)) (castPt (subVertex s 1)) (castPt (subVertex s 2))
      (fun k => ((subQ coeffs lc ev i s k : Rat) : K)) i (x, y) = (0, 0) := by
    rw [h]; simp [add2, smul2]
  unfold piolaDefect sub2 at hz
  have ha := congrArg Prod.fst hz
  have hb := congrArg Prod.snd hz
  simp only at ha hb
  ext
  · exact sub_eq_zero.mp ha
  · exact sub_eq_zero.mp hb

theorem smul3_smul3 (a b : K) (v : V3 K) : smul3 a (smul3 b v) = smul3 (a * b) v := by
  unfold smul3; ext <;> simp <;> ring

theorem cross_smul3 (n : V3 K) (a : K) (v : V3 K) : cross n (smul3 a v) = smul3 a (cross n v) := by
  unfold cross smul3; ext <;> simp <;> ring

theorem cross_sum3w (n : V3 K) (f : Nat → V3 K) : cross n (sum3w f) = sum3w fun k => cross n (f k) := by
  unfold cross sum3w add3; ext <;> simp <;> ring

/-- the 3-D statement: scalar bookkeeping of `generate_rwg0_map` and of the evaluators -/
theorem piola_3d [CharZero K] (coeffs : List (List (List Rat))) (lc : List (Rat × Rat)) (ev : List (Nat × Nat))
    (i s : Nat)
    (hv : ∀ j, j < 3 → piolaDefect (subVertex s 0) (subVertex s 1) (subVertex s 2) (subQ coeffs lc ev i s) i
      (refVertex j) = (0, 0))
    (hd : subDet s ≠ 0)
    (ja jb : V3 K) (A m : K) (hA : A ≠ 0) (L : Nat → K) (hL : ∀ d, L d ≠ 0) (x y : K) :
    rwgEval ja jb A (L (outerEdges.getD i 99)) m i (triMap (subP s 0) (subP s 1) (subP s 2) (x, y))
      = sum3w fun k => smul3 (m * mapEntry (fun q : Rat => (q : K)) coeffs L i s k)
          (rwgEval (applyJ ja jb (sub2 (subP s 1) (subP s 0))) (applyJ ja jb (sub2 (subP s 2) (subP s 0)))
            (A * ((subDet s : Rat) : K)) (fineLen (fun q : Rat => (q : K)) lc ev L s k) 1 k (x, y)) := by
  have h2 := piola_2d (K := K) coeffs lc ev i s hv x y
  have hdK : ((subDet s : Rat) : K) ≠ 0 := by exact_mod_cast hd
  have hk : ∀ k, m * mapEntry (fun q : Rat => (q : K)) coeffs L i s k
      * (1 * fineLen (fun q : Rat => (q : K)) lc ev L s k / (A * ((subDet s : Rat) : K)))
      = m * L (outerEdges.getD i 99) / A * ((subQ coeffs lc ev i s k : Rat) : K) := by
    intro k
    have := hL (dm s k)
    unfold mapEntry fineLen subQ
    push_cast
    field_simp
  unfold rwgEval
  simp only [sum3w, smul3_smul3, hk]
  rw [h2]
  unfold sum3v add2 smul2 triLin applyJ smul3 add3 sub2
  ext <;> simp <;> ring


/-! ### quadrature of a product of two affine functions -/

/-- value at `(x, y)` of the affine function with coefficients `f = (f0, f1, f2)`: `f0 + f1 x + f2 y` -/
def aff (f : K × K × K) (p : K × K) : K := f.1 + f.2.1 * p.1 + f.2.2 * p.2

/-- monomial sum `Σ_q w_q x_q^a y_q^b` of a rule given as a list of `(x, y, w)` -/
def ruleMoment (rule : List (K × K × K)) (a b : Nat) : K :=
  (rule.map fun q => q.2.2 * q.1 ^ a * q.2.1 ^ b).sum

theorem quad_affine_product (rule : List (K × K × K)) (f g : K × K × K) (A : K) :
    (rule.map fun q => aff f (q.1, q.2.1) * aff g (q.1, q.2.1) * q.2.2 * A).sum
      = A * (f.1 * g.1 * ruleMoment rule 0 0 + (f.1 * g.2.1 + f.2.1 * g.1) * ruleMoment rule 1 0
          + (f.1 * g.2.2 + f.2.2 * g.1) * ruleMoment rule 0 1 + f.2.1 * g.2.1 * ruleMoment rule 2 0
          + (f.2.1 * g.2.2 + f.2.2 * g.2.1) * ruleMoment rule 1 1 + f.2.2 * g.2.2 * ruleMoment rule 0 2) := by
  induction rule with
  | nil => simp [ruleMoment]
  | cons q r ih =>
    simp only [ruleMoment, List.map_cons, List.sum_cons] at ih ⊢
    rw [ih]
    unfold aff
    ring

end BemppVerif.Lemmas.BaryAffine
