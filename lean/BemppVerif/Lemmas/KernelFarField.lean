/-
Far-field limit of the canonical Helmholtz single-layer kernel (property C08).

For a unit direction e = x̂, a fixed source point y and k = p0 + i p1, with ρ(t) = |t e - y|:

  t e^{-ikt} G(t e, y) = c4pi (t/ρ) e^{ik(ρ - t)}  →  c4pi e^{-ik e·y}      (t → ∞).

* `abs_sqrt_sub_le`, `farfield_dist_bound` : the algebraic core  | |t e - y| - (t - e·y) | ≤ | |y|² - (e·y)² | / (t - e·y).
* `tendsto_farfield_dist`  : ρ(t) - t → -e·y,   `tendsto_farfield_ratio` : t/ρ(t) → 1.
* `far_field_limit_re/_im` : real and imaginary part of the limit for arbitrary real p0, p1, stated on
  `helmSLre/helmSLim`;  `far_field_limit_real_k_re/_im` : p1 = 0, the limit is the canonical `ffSLre/ffSLim`
  (the far-field kernel of the code, which uses only Re k).
-/
import BemppVerif.Lemmas.KernelCalculus
import Mathlib.Topology.Algebra.Order.Field
import Mathlib.Topology.MetricSpace.Pseudo.Lemmas
import Mathlib.Analysis.SpecialFunctions.Exp
import Mathlib.Analysis.SpecialFunctions.Trigonometric.Basic
import Mathlib.Tactic.Linarith
import Mathlib.Tactic.LinearCombination

namespace BemppVerif.KernelCalculus
open BemppVerif.Kernels Filter Topology

/-! ## algebraic core -/

theorem abs_sub_le_of_sq_eq (S u m : ℝ) (hS : 0 ≤ S) (hu : 0 < u) (h2 : S ^ 2 = u ^ 2 + m) :
    |S - u| ≤ |m| / u := by
  have hden : 0 < S + u := by linarith
  have key : (S - u) * (S + u) = m := by linear_combination h2
  have habs : |S - u| * (S + u) = |m| := by
    rw [← key, abs_mul, abs_of_pos hden]
  rw [le_div_iff₀ hu]
  calc |S - u| * u ≤ |S - u| * (S + u) := by
        apply mul_le_mul_of_nonneg_left _ (abs_nonneg _)
        linarith
    _ = |m| := habs

theorem abs_sqrt_sub_le (t a m : ℝ) (hta : a < t) (hq : 0 ≤ (t - a) ^ 2 + m) :
    |Real.sqrt ((t - a) ^ 2 + m) - (t - a)| ≤ |m| / (t - a) :=
  abs_sub_le_of_sq_eq _ _ _ (Real.sqrt_nonneg _) (sub_pos.mpr hta) (Real.sq_sqrt hq)

section farfield
variable (c4pi e0 e1 e2 y0 y1 y2 nx0 nx1 nx2 ny0 ny1 ny2 p0 p1 : ℝ)

/-- | |t e - y| - (t - e·y) | ≤ | |y|² - (e·y)² | / (t - e·y) for a unit vector e and t > e·y -/
theorem farfield_dist_bound (he : e0 ^ 2 + e1 ^ 2 + e2 ^ 2 = 1) (t : ℝ) (ht : e0 * y0 + e1 * y1 + e2 * y2 < t) :
    |Real.sqrt ((y0 - t * e0) ^ 2 + (y1 - t * e1) ^ 2 + (y2 - t * e2) ^ 2) - (t - (e0 * y0 + e1 * y1 + e2 * y2))|
      ≤ |(y0 ^ 2 + y1 ^ 2 + y2 ^ 2) - (e0 * y0 + e1 * y1 + e2 * y2) ^ 2| / (t - (e0 * y0 + e1 * y1 + e2 * y2)) := by
  apply abs_sub_le_of_sq_eq _ _ _ (Real.sqrt_nonneg _) (sub_pos.mpr ht)
  rw [Real.sq_sqrt (by positivity)]
  linear_combination (t ^ 2) * he

theorem tendsto_farfield_dist (he : e0 ^ 2 + e1 ^ 2 + e2 ^ 2 = 1) :
    Tendsto (fun t : ℝ => Real.sqrt ((y0 - t * e0) ^ 2 + (y1 - t * e1) ^ 2 + (y2 - t * e2) ^ 2) - t) atTop
      (𝓝 (-(e0 * y0 + e1 * y1 + e2 * y2))) := by
  have h0 : Tendsto (fun t : ℝ => Real.sqrt ((y0 - t * e0) ^ 2 + (y1 - t * e1) ^ 2 + (y2 - t * e2) ^ 2)
      - (t - (e0 * y0 + e1 * y1 + e2 * y2))) atTop (𝓝 0) := by
    rw [tendsto_zero_iff_abs_tendsto_zero]
    refine squeeze_zero' (g := fun t : ℝ => |(y0 ^ 2 + y1 ^ 2 + y2 ^ 2) - (e0 * y0 + e1 * y1 + e2 * y2) ^ 2|
        / (t - (e0 * y0 + e1 * y1 + e2 * y2))) (Eventually.of_forall fun t => abs_nonneg _) ?_ ?_
    · filter_upwards [eventually_gt_atTop (e0 * y0 + e1 * y1 + e2 * y2)] with t ht
      exact farfield_dist_bound e0 e1 e2 y0 y1 y2 he t ht
    · have hd : Tendsto (fun t : ℝ => t - (e0 * y0 + e1 * y1 + e2 * y2)) atTop atTop :=
        (tendsto_atTop_add_const_right _ (-(e0 * y0 + e1 * y1 + e2 * y2)) tendsto_id).congr
          (fun t => by simp only [id, sub_eq_add_neg])
      exact tendsto_const_nhds.div_atTop hd
  have h1 := h0.add_const (-(e0 * y0 + e1 * y1 + e2 * y2))
  rw [zero_add] at h1
  exact h1.congr (fun t => by ring)

theorem tendsto_ratio_of_tendsto_sub (ρ : ℝ → ℝ) (a : ℝ) (h1 : Tendsto (fun t : ℝ => ρ t - t) atTop (𝓝 a)) :
    Tendsto (fun t : ℝ => t / ρ t) atTop (𝓝 1) := by
  have h2 : Tendsto (fun t : ℝ => (ρ t - t) / t + 1) atTop (𝓝 (0 + 1)) :=
    (h1.div_atTop tendsto_id).add_const 1
  rw [zero_add] at h2
  have h3 : Tendsto (fun t : ℝ => ρ t / t) atTop (𝓝 1) := by
    refine h2.congr' ?_
    filter_upwards [eventually_gt_atTop (0 : ℝ)] with t ht
    have ht0 : t ≠ 0 := ht.ne'
    rw [div_add_one ht0, sub_add_cancel]
  have h4 := h3.inv₀ one_ne_zero
  rw [inv_one] at h4
  exact h4.congr (fun t => inv_div _ _)

theorem tendsto_farfield_ratio (he : e0 ^ 2 + e1 ^ 2 + e2 ^ 2 = 1) :
    Tendsto (fun t : ℝ => t / Real.sqrt ((y0 - t * e0) ^ 2 + (y1 - t * e1) ^ 2 + (y2 - t * e2) ^ 2)) atTop (𝓝 1) :=
  tendsto_ratio_of_tendsto_sub _ _ (tendsto_farfield_dist e0 e1 e2 y0 y1 y2 he)

/-- t e^{-ikt} G = c (t/ρ) e^{ik(ρ-t)}, real part -/
theorem farfield_alg_re (c p0 p1 t ρ : ℝ) :
    t * (Real.exp (p1 * t) * (Real.cos (p0 * t) * (c * Real.exp (-(p1 * ρ)) * Real.cos (p0 * ρ) / ρ)
        + Real.sin (p0 * t) * (c * Real.exp (-(p1 * ρ)) * Real.sin (p0 * ρ) / ρ)))
      = c * (t / ρ) * (Real.exp (-(p1 * (ρ - t))) * Real.cos (p0 * (ρ - t))) := by
  rw [show -(p1 * (ρ - t)) = -(p1 * ρ) + p1 * t by ring, Real.exp_add,
    show p0 * (ρ - t) = p0 * ρ - p0 * t by ring, Real.cos_sub]
  ring

/-- imaginary part -/
theorem farfield_alg_im (c p0 p1 t ρ : ℝ) :
    t * (Real.exp (p1 * t) * (Real.cos (p0 * t) * (c * Real.exp (-(p1 * ρ)) * Real.sin (p0 * ρ) / ρ)
        - Real.sin (p0 * t) * (c * Real.exp (-(p1 * ρ)) * Real.cos (p0 * ρ) / ρ)))
      = c * (t / ρ) * (Real.exp (-(p1 * (ρ - t))) * Real.sin (p0 * (ρ - t))) := by
  rw [show -(p1 * (ρ - t)) = -(p1 * ρ) + p1 * t by ring, Real.exp_add,
    show p0 * (ρ - t) = p0 * ρ - p0 * t by ring, Real.sin_sub]
  ring

theorem tendsto_farfield_profile (F : ℝ → ℝ) (hF : Continuous F) (ρ : ℝ → ℝ) (a c : ℝ)
    (h1 : Tendsto (fun t : ℝ => ρ t - t) atTop (𝓝 a)) :
    Tendsto (fun t : ℝ => c * (t / ρ t) * F (ρ t - t)) atTop (𝓝 (c * F a)) := by
  have h2 := tendsto_ratio_of_tendsto_sub ρ a h1
  have h3 := (h2.const_mul c).mul ((hF.tendsto a).comp h1)
  rw [mul_one] at h3
  exact h3

/-- Re of t e^{-ikt} G(t e, y) → Re of c4pi e^{-ik e·y};  k = p0 + i p1, |e| = 1. -/
theorem far_field_limit_re (he : e0 ^ 2 + e1 ^ 2 + e2 ^ 2 = 1) :
    Tendsto (fun t : ℝ => t * (Real.exp (p1 * t) * (Real.cos (p0 * t) *
          helmSLre Real.sqrt Real.cos Real.sin Real.exp c4pi (t * e0) (t * e1) (t * e2) y0 y1 y2
            nx0 nx1 nx2 ny0 ny1 ny2 p0 p1
        + Real.sin (p0 * t) *
          helmSLim Real.sqrt Real.cos Real.sin Real.exp c4pi (t * e0) (t * e1) (t * e2) y0 y1 y2
            nx0 nx1 nx2 ny0 ny1 ny2 p0 p1))) atTop
      (𝓝 (c4pi * (Real.exp (p1 * (e0 * y0 + e1 * y1 + e2 * y2)) * Real.cos (-(p0 * (e0 * y0 + e1 * y1 + e2 * y2)))))) := by
  have hF : Continuous (fun s : ℝ => Real.exp (-(p1 * s)) * Real.cos (p0 * s)) := by fun_prop
  have h := tendsto_farfield_profile _ hF _ _ c4pi (tendsto_farfield_dist e0 e1 e2 y0 y1 y2 he)
  simp only [mul_neg, neg_neg] at h
  refine h.congr (fun t => ?_)
  exact (farfield_alg_re c4pi p0 p1 t _).symm

/-- Im of t e^{-ikt} G(t e, y) → Im of c4pi e^{-ik e·y}. -/
theorem far_field_limit_im (he : e0 ^ 2 + e1 ^ 2 + e2 ^ 2 = 1) :
    Tendsto (fun t : ℝ => t * (Real.exp (p1 * t) * (Real.cos (p0 * t) *
          helmSLim Real.sqrt Real.cos Real.sin Real.exp c4pi (t * e0) (t * e1) (t * e2) y0 y1 y2
            nx0 nx1 nx2 ny0 ny1 ny2 p0 p1
        - Real.sin (p0 * t) *
          helmSLre Real.sqrt Real.cos Real.sin Real.exp c4pi (t * e0) (t * e1) (t * e2) y0 y1 y2
            nx0 nx1 nx2 ny0 ny1 ny2 p0 p1))) atTop
      (𝓝 (c4pi * (Real.exp (p1 * (e0 * y0 + e1 * y1 + e2 * y2)) * Real.sin (-(p0 * (e0 * y0 + e1 * y1 + e2 * y2)))))) := by
  have hF : Continuous (fun s : ℝ => Real.exp (-(p1 * s)) * Real.sin (p0 * s)) := by fun_prop
  have h := tendsto_farfield_profile _ hF _ _ c4pi (tendsto_farfield_dist e0 e1 e2 y0 y1 y2 he)
  simp only [mul_neg, neg_neg] at h
  refine h.congr (fun t => ?_)
  exact (farfield_alg_im c4pi p0 p1 t _).symm

/-- real wavenumber (p1 = 0): the limit is the canonical far-field kernel `ffSLre` evaluated at the direction e. -/
theorem far_field_limit_real_k_re (he : e0 ^ 2 + e1 ^ 2 + e2 ^ 2 = 1) :
    Tendsto (fun t : ℝ => t * (Real.cos (p0 * t) *
          helmSLre Real.sqrt Real.cos Real.sin Real.exp c4pi (t * e0) (t * e1) (t * e2) y0 y1 y2
            nx0 nx1 nx2 ny0 ny1 ny2 p0 0
        + Real.sin (p0 * t) *
          helmSLim Real.sqrt Real.cos Real.sin Real.exp c4pi (t * e0) (t * e1) (t * e2) y0 y1 y2
            nx0 nx1 nx2 ny0 ny1 ny2 p0 0)) atTop
      (𝓝 (ffSLre Real.sqrt Real.cos Real.sin Real.exp c4pi e0 e1 e2 y0 y1 y2 nx0 nx1 nx2 ny0 ny1 ny2 p0 p1)) := by
  have h := far_field_limit_re c4pi e0 e1 e2 y0 y1 y2 nx0 nx1 nx2 ny0 ny1 ny2 p0 0 he
  simp only [zero_mul, Real.exp_zero, one_mul] at h
  exact h

theorem far_field_limit_real_k_im (he : e0 ^ 2 + e1 ^ 2 + e2 ^ 2 = 1) :
    Tendsto (fun t : ℝ => t * (Real.cos (p0 * t) *
          helmSLim Real.sqrt Real.cos Real.sin Real.exp c4pi (t * e0) (t * e1) (t * e2) y0 y1 y2
            nx0 nx1 nx2 ny0 ny1 ny2 p0 0
        - Real.sin (p0 * t) *
          helmSLre Real.sqrt Real.cos Real.sin Real.exp c4pi (t * e0) (t * e1) (t * e2) y0 y1 y2
            nx0 nx1 nx2 ny0 ny1 ny2 p0 0)) atTop
      (𝓝 (ffSLim Real.sqrt Real.cos Real.sin Real.exp c4pi e0 e1 e2 y0 y1 y2 nx0 nx1 nx2 ny0 ny1 ny2 p0 p1)) := by
  have h := far_field_limit_im c4pi e0 e1 e2 y0 y1 y2 nx0 nx1 nx2 ny0 ny1 ny2 p0 0 he
  simp only [zero_mul, Real.exp_zero, one_mul] at h
  exact h

end farfield

end BemppVerif.KernelCalculus
