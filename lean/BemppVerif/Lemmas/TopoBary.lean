/- Helper lemmas for C11: the element loop of `_create_barycentric_connectivity_array`. -/
import BemppVerif.Lemmas.TopoRefine

namespace BemppVerif.Lemmas.Topo
open BemppVerif.Model.Topo BemppVerif.Model.Geom BemppVerif.Gen

/-- what the vertex index `v` produced for a code means, relative to the FINAL list of new vertices -/
def BaryCodeOK (nv : Nat) (final : List BaryVertex) (t x : Tri) (i : Nat) (code : GridConsts.Code) (v : Nat) : Prop :=
  (code.1 = 0 → v = t.get code.2) ∧
  (code.1 = 1 → ∃ p, v = nv + p ∧ final[p]? = some (BaryVertex.mid (x.get code.2))) ∧
  (2 ≤ code.1 → ∃ p, v = nv + p ∧ final[p]? = some (BaryVertex.centre i))

theorem baryEdgeStep_prefix (nv : Nat) (d : List BaryVertex) (e : Nat) : d <+: (baryEdgeStep nv d e).1 := by
  simp only [baryEdgeStep]; exact insertKey_prefix _ _

theorem baryEdgeStep_get (nv : Nat) (d : List BaryVertex) (e : Nat) :
    ∃ p, (baryEdgeStep nv d e).2 = nv + p ∧ (baryEdgeStep nv d e).1[p]? = some (BaryVertex.mid e) := by
  simp only [baryEdgeStep]
  exact ⟨_, rfl, insertKey_get _ _⟩

theorem baryGo_prefix (nv : Nat) (d : List BaryVertex) (l : List ((Tri × Tri) × Nat)) :
    d <+: (baryGo nv d l).1 := by
  induction l generalizing d with
  | nil => simp [baryGo]
  | cons p l ih =>
    simp only [baryGo]
    refine List.IsPrefix.trans ?_ (ih _)
    exact (List.prefix_append d _).trans ((baryEdgeStep_prefix _ _ _).trans
      ((baryEdgeStep_prefix _ _ _).trans (baryEdgeStep_prefix _ _ _)))

theorem baryGo_children (nv : Nat) (d : List BaryVertex) (l : List ((Tri × Tri) × Nat)) (j s : Nat) (t x : Tri) (i : Nat)
    (code : GridConsts.Code × GridConsts.Code × GridConsts.Code)
    (hl : l[j]? = some ((t, x), i)) (hs : GridConsts.baryChildren[s]? = some code) :
    ∃ child, (baryGo nv d l).2[6 * j + s]? = some child ∧
      BaryCodeOK nv (baryGo nv d l).1 t x i code.1 child.1 ∧
      BaryCodeOK nv (baryGo nv d l).1 t x i code.2.1 child.2.1 ∧
      BaryCodeOK nv (baryGo nv d l).1 t x i code.2.2 child.2.2 := by
  have hs6 : s < 6 := by
    have := (List.getElem?_eq_some_iff.mp hs).1
    simpa [GridConsts.baryChildren] using this
  induction l generalizing d j with
  | nil => simp at hl
  | cons p l ih =>
    cases j with
    | zero =>
      simp only [List.getElem?_cons_zero, Option.some.injEq] at hl
      subst hl
      simp only [baryGo, Nat.mul_zero, Nat.zero_add]
      -- abbreviations for the three dictionary accesses
      generalize hr0 : baryEdgeStep nv (d ++ [BaryVertex.centre i]) x.1 = r0
      generalize hr1 : baryEdgeStep nv r0.1 x.2.1 = r1
      generalize hr2 : baryEdgeStep nv r1.1 x.2.2 = r2
      have p0 : (d ++ [BaryVertex.centre i]) <+: r0.1 := hr0 ▸ baryEdgeStep_prefix _ _ _
      have p1 : r0.1 <+: r1.1 := hr1 ▸ baryEdgeStep_prefix _ _ _
      have p2 : r1.1 <+: r2.1 := hr2 ▸ baryEdgeStep_prefix _ _ _
      have p3 : r2.1 <+: (baryGo nv r2.1 l).1 := baryGo_prefix _ _ _
      obtain ⟨q0, hq0, hg0⟩ := hr0 ▸ baryEdgeStep_get nv (d ++ [BaryVertex.centre i]) x.1
      obtain ⟨q1, hq1, hg1⟩ := hr1 ▸ baryEdgeStep_get nv r0.1 x.2.1
      obtain ⟨q2, hq2, hg2⟩ := hr2 ▸ baryEdgeStep_get nv r1.1 x.2.2
      have f0 := prefix_get (p1.trans (p2.trans p3)) hg0
      have f1 := prefix_get (p2.trans p3) hg1
      have f2 := prefix_get p3 hg2
      have fc : (baryGo nv r2.1 l).1[d.length]? = some (BaryVertex.centre i) :=
        prefix_get (p0.trans (p1.trans (p2.trans p3))) (by simp)
      have hcode : ∀ c : GridConsts.Code, BaryCodeOK nv (baryGo nv r2.1 l).1 t x i c
          (codeVertex t (r0.2, r1.2, r2.2) (nv + d.length) c) := by
        intro c
        obtain ⟨kind, e⟩ := c
        refine ⟨?_, ?_, ?_⟩
        · intro h; simp only at h; subst h; rfl
        · intro h; simp only at h; subst h
          simp only [codeVertex]
          match e with
          | 0 => exact ⟨q0, hq0, f0⟩
          | 1 => exact ⟨q1, hq1, f1⟩
          | _ + 2 => exact ⟨q2, hq2, f2⟩
        · intro h; simp only at h
          refine ⟨d.length, ?_, fc⟩
          simp only [codeVertex]
          match kind, h with
          | _ + 2, _ => rfl
      refine ⟨(codeVertex t (r0.2, r1.2, r2.2) (nv + d.length) code.1,
        codeVertex t (r0.2, r1.2, r2.2) (nv + d.length) code.2.1,
        codeVertex t (r0.2, r1.2, r2.2) (nv + d.length) code.2.2), ?_, hcode _, hcode _, hcode _⟩
      rw [List.getElem?_append_left (by rw [children_length]; simpa [GridConsts.baryChildren] using hs6)]
      exact children_get _ _ _ _ _ _ hs
    | succ j =>
      simp only [List.getElem?_cons_succ] at hl
      simp only [baryGo]
      have hlen : (children GridConsts.baryChildren p.1.1
          ((baryEdgeStep nv (d ++ [BaryVertex.centre p.2]) p.1.2.1).2,
           (baryEdgeStep nv (baryEdgeStep nv (d ++ [BaryVertex.centre p.2]) p.1.2.1).1 p.1.2.2.1).2,
           (baryEdgeStep nv (baryEdgeStep nv (baryEdgeStep nv (d ++ [BaryVertex.centre p.2]) p.1.2.1).1 p.1.2.2.1).1
              p.1.2.2.2).2) (nv + d.length)).length = 6 := by
        rw [children_length]; rfl
      rw [List.getElem?_append_right (by rw [hlen]; omega)]
      have : 6 * (j + 1) + s - 6 = 6 * j + s := by omega
      rw [hlen, this]
      exact ih _ j hl

end BemppVerif.Lemmas.Topo

namespace BemppVerif.Lemmas.Topo
open BemppVerif.Model.Topo BemppVerif.Model.Geom BemppVerif.Gen

section Coord
variable {K : Type} [Field K]

theorem bary_code_vertex (V : List (V3 K)) (els : List Tri) (i : Nat) (t x : Tri) (code : GridConsts.Code) (v : Nat)
    (hr : InRange V.length els) (ht : els[i]? = some t) (hx : (elementEdges els)[i]? = some x) (hl : code.2 < 3)
    (hok : BaryCodeOK V.length (baryNewVertices V.length els) t x i code v) :
    vert (baryVerts V els) v = codePoint (vert V t.1) (vert V t.2.1) (vert V t.2.2) code := by
  obtain ⟨kind, l⟩ := code
  obtain ⟨ok0, ok1, ok2⟩ := hok
  have htr := hr t (List.mem_of_getElem? ht)
  obtain ⟨h0, h1, h2⟩ := elementEdges_spec els i t x ht hx
  have hl' : l = 0 ∨ l = 1 ∨ l = 2 := by simp only at hl; omega
  have newv : ∀ (p : Nat) (b : BaryVertex), (baryNewVertices V.length els)[p]? = some b →
      vert (baryVerts V els) (V.length + p) = baryCoord V els b := by
    intro p b hb
    simp only [baryVerts]
    rw [Nat.add_comm, vert_append_right]
    simp [List.getD, hb]
  match kind with
  | 0 =>
    have := ok0 rfl
    subst this
    simp only [codePoint, baryVerts, pick_corners]
    apply vert_append_left
    rcases hl' with rfl | rfl | rfl <;> simp [Tri.get] <;> omega
  | 1 =>
    obtain ⟨p, rfl, hp⟩ := ok1 rfl
    rw [newv p _ hp]
    simp only [baryCoord, codePoint, pick_corners]
    rcases hl' with rfl | rfl | rfl
    · simp only [Tri.get_zero, List.getD, h0, Option.getD_some]; rw [edgeOf, midpoint_sortPair]
    · simp only [Tri.get_one, List.getD, h1, Option.getD_some]; rw [edgeOf, midpoint_sortPair]
    · simp only [Tri.get_two, List.getD, h2, Option.getD_some]; rw [edgeOf, midpoint_sortPair]
  | k + 2 =>
    obtain ⟨p, rfl, hp⟩ := ok2 (by simp)
    rw [newv p _ hp]
    simp only [baryCoord, codePoint, List.getD, ht, Option.getD_some]

/-- the codes of the two child tables only use local indices 0..2 and the kinds they are meant to use -/
theorem refineChildren_codes : ∀ c ∈ GridConsts.refineChildren,
    (c.1.1 ≤ 1 ∧ c.1.2 < 3) ∧ (c.2.1.1 ≤ 1 ∧ c.2.1.2 < 3) ∧ (c.2.2.1 ≤ 1 ∧ c.2.2.2 < 3) := by decide

theorem baryChildren_codes : ∀ c ∈ GridConsts.baryChildren, c.1.2 < 3 ∧ c.2.1.2 < 3 ∧ c.2.2.2 < 3 := by decide

end Coord
end BemppVerif.Lemmas.Topo
