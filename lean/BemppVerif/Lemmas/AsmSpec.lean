/- Refinement of the assembly loops to the Galerkin double sum. -/
import BemppVerif.Lemmas.AsmLemmas

namespace BemppVerif.Lemmas
open BemppVerif.Model.Asm

variable {R : Type} [CommRing R]

/-- one launch of the regular kernel computes the Galerkin sum over `testElems × trialElems` -/
theorem entry_regularLaunch (d : RegData R) (T S : SpaceData R) (te tr : List Nat) (r c : Nat) :
    entry (regularLaunch d T S te tr) r c = galerkin T S te tr (localReg d) r c := by
  simp only [regularLaunch, entry_flatMap, entry_map, galerkin, rsum]

/-- all launches together: the sum over the concatenation of the colour classes -/
theorem entry_denseRegular (d : RegData R) (T S : SpaceData R) (byColor : List (List Nat)) (tr : List Nat)
    (r c : Nat) :
    entry (denseRegular d T S byColor tr) r c = galerkin T S byColor.flatten tr (localReg d) r c := by
  simp only [denseRegular, entry_flatMap, entry_regularLaunch, galerkin]
  induction byColor with
  | nil => rfl
  | cons l ls ih => simp [List.flatten_cons, lsum_append, ih]

/-- the Galerkin sum does not depend on the order in which test / trial elements are visited -/
theorem galerkin_perm (T S : SpaceData R) {te te' tr tr' : List Nat} (h1 : te.Perm te') (h2 : tr.Perm tr')
    (I : Nat → Nat → Nat → Nat → R) (r c : Nat) :
    galerkin T S te tr I r c = galerkin T S te' tr' I r c := by
  unfold galerkin
  rw [lsum_map_perm h1]
  apply lsum_map_congr
  intro τ _
  exact lsum_map_perm h2 _

/-- **Regular part refines the specification**: if the colour classes are a partition of the test support
(their concatenation is a permutation of it) and the trial list is a permutation of the trial support, the regular
assembly equals the Galerkin sum over `support × support` of the regular local integrals (which vanish on
adjacent pairs). -/
theorem denseRegular_refines (d : RegData R) (T S : SpaceData R) (byColor : List (List Nat)) (tr suppT suppS : List Nat)
    (hT : byColor.flatten.Perm suppT) (hS : tr.Perm suppS) (r c : Nat) :
    entry (denseRegular d T S byColor tr) r c = galerkin T S suppT suppS (localReg d) r c := by
  rw [entry_denseRegular]
  exact galerkin_perm T S hT hS _ r c

end BemppVerif.Lemmas

namespace BemppVerif.Lemmas
open BemppVerif.Model.Asm

variable {R : Type} [CommRing R]

/-- regroup a sum over a list by a key that ranges over a duplicate-free list -/
theorem lsum_by_key {α β : Type} [DecidableEq β] (l : List α) (k : α → β) (keys : List β) (hk : keys.Nodup)
    (hmem : ∀ a ∈ l, k a ∈ keys) (f : α → R) :
    lsum (l.map f) = lsum (keys.map fun b => lsum ((l.filter fun a => k a = b).map f)) := by
  induction l with
  | nil =>
    show (0 : R) = lsum (keys.map fun _ => (0 : R))
    rw [lsum_map_zero]
  | cons a l ih =>
    have ih' := ih (fun x hx => hmem x (by simp [hx]))
    have ha : k a ∈ keys := hmem a (by simp)
    have hsplit : ∀ b, lsum (((a :: l).filter fun x => k x = b).map f)
        = (if b = k a then f a else 0) + lsum ((l.filter fun x => k x = b).map f) := by
      intro b
      by_cases h : k a = b
      · simp [List.filter_cons, h]
      · have : ¬ b = k a := fun e => h e.symm
        simp [List.filter_cons, h, this]
    simp only [hsplit, lsum_map_add]
    rw [lsum_map_ite_eq keys hk (k a) (fun _ => f a)]
    simp [ha, ih']

theorem galerkin_add (T S : SpaceData R) (te tr : List Nat) (I J : Nat → Nat → Nat → Nat → R) (r c : Nat) :
    galerkin T S te tr (fun τ σ i j => I τ σ i j + J τ σ i j) r c
      = galerkin T S te tr I r c + galerkin T S te tr J r c := by
  unfold galerkin rsum
  simp only [← lsum_map_add]
  apply lsum_map_congr; intro τ _
  apply lsum_map_congr; intro σ _
  apply lsum_map_congr; intro i _
  apply lsum_map_congr; intro j _
  split <;> ring

/-- sum of the singular local integrals of all pairs addressed to the element pair `(τ, σ)` -/
def singSum (d : SingData R) (pairs : List SingPair) (τ σ i j : Nat) : R :=
  lsum ((pairs.filter fun pr => pr.testElem = τ ∧ pr.trialElem = σ).map fun pr => localSing d pr i j)

theorem entry_singularContribs (d : SingData R) (T S : SpaceData R) (pairs : List SingPair) (r c : Nat) :
    entry (singularContribs d T S pairs) r c =
      lsum (pairs.map fun pr => rsum T.nshape fun i => rsum S.nshape fun j =>
        if T.l2g pr.testElem i = r ∧ S.l2g pr.trialElem j = c
        then localSing d pr i j * S.mult pr.trialElem j * T.mult pr.testElem i else 0) := by
  simp only [singularContribs, entry_flatMap, entry_map, rsum]

/-- the singular part is the Galerkin sum of `singSum`, provided every singular pair lies in `support × support` -/
theorem singular_refines (d : SingData R) (T S : SpaceData R) (pairs : List SingPair) (suppT suppS : List Nat)
    (hT : suppT.Nodup) (hS : suppS.Nodup)
    (hmemT : ∀ pr ∈ pairs, pr.testElem ∈ suppT) (hmemS : ∀ pr ∈ pairs, pr.trialElem ∈ suppS) (r c : Nat) :
    entry (singularContribs d T S pairs) r c = galerkin T S suppT suppS (singSum d pairs) r c := by
  rw [entry_singularContribs]
  rw [lsum_by_key pairs (fun pr => pr.testElem) suppT hT hmemT]
  unfold galerkin
  apply lsum_map_congr; intro τ _
  rw [lsum_by_key _ (fun pr => pr.trialElem) suppS hS
    (fun pr hpr => hmemS pr (List.mem_of_mem_filter hpr))]
  apply lsum_map_congr; intro σ _
  simp only [List.filter_filter]
  -- inside the filter both element indices are fixed
  have hfix : ∀ pr ∈ (pairs.filter fun a => (decide (a.trialElem = σ) && decide (a.testElem = τ))),
      (rsum T.nshape fun i => rsum S.nshape fun j =>
        if T.l2g pr.testElem i = r ∧ S.l2g pr.trialElem j = c
        then localSing d pr i j * S.mult pr.trialElem j * T.mult pr.testElem i else 0)
      = (rsum T.nshape fun i => rsum S.nshape fun j =>
        if T.l2g τ i = r ∧ S.l2g σ j = c then localSing d pr i j * S.mult σ j * T.mult τ i else 0) := by
    intro pr hpr
    have h := (List.mem_filter.mp hpr).2
    simp only [Bool.and_eq_true, decide_eq_true_eq] at h
    rw [h.1, h.2]
  rw [lsum_map_congr _ _ _ hfix]
  unfold rsum
  rw [lsum_comm]
  apply lsum_map_congr; intro i _
  rw [lsum_comm]
  apply lsum_map_congr; intro j _
  unfold singSum
  have hf : (pairs.filter fun a => (decide (a.trialElem = σ) && decide (a.testElem = τ)))
      = pairs.filter fun pr => pr.testElem = τ ∧ pr.trialElem = σ := by
    apply List.filter_congr; intro pr _; simp [Bool.and_comm]
  rw [hf]
  by_cases hc : T.l2g τ i = r ∧ S.l2g σ j = c
  · simp only [hc, and_self, if_true]
    rw [← lsum_map_mul_right, ← lsum_map_mul_right]
    apply lsum_map_congr; intro pr _; ring
  · simp only [hc, if_false]
    exact lsum_map_zero _

/-- **dense_refines_spec**: regular launches over a colour partition plus the scattered singular part equal the
Galerkin sum over `support × support` of `localReg + singSum` -/
theorem dense_refines_spec (dr : RegData R) (ds : SingData R) (T S : SpaceData R) (byColor : List (List Nat))
    (tr suppT suppS : List Nat) (pairs : List SingPair)
    (hcol : byColor.flatten.Perm suppT) (htr : tr.Perm suppS) (hT : suppT.Nodup) (hS : suppS.Nodup)
    (hmemT : ∀ pr ∈ pairs, pr.testElem ∈ suppT) (hmemS : ∀ pr ∈ pairs, pr.trialElem ∈ suppS) (r c : Nat) :
    entry (denseRegular dr T S byColor tr ++ singularContribs ds T S pairs) r c
      = galerkin T S suppT suppS (fun τ σ i j => localReg dr τ σ i j + singSum ds pairs τ σ i j) r c := by
  rw [entry_append, denseRegular_refines dr T S byColor tr suppT suppS hcol htr,
    singular_refines ds T S pairs suppT suppS hT hS hmemT hmemS, galerkin_add]

end BemppVerif.Lemmas
