/- Refinement of the assembly loops to the Galerkin double sum. -/
import BemppVerif.Lemmas.AsmLemmas

namespace BemppVerif.Lemmas
open BemppVerif.Model.Asm

variable {R : Type} [CommRing R]

/-- one launch of the regular kernel computes the Galerkin sum over `testElems × trialElems` -/
theorem entry_regularLaunch (d : RegData R) (T S : SpaceData R) (te tr : List Nat) (r c : Nat) :
    entry (regularLaunch d T S te tr) r c = galerkin T S te tr (localReg d) r c := by
  simp only [regularLaunch, entry_flatMap, entry_map, galerkin, rsum]

/-- all launches together: the sum over the concatenation of the colour classes -/
theorem entry_denseRegular (d : RegData R) (T S : SpaceData R) (byColor : List (List Nat)) (tr : List Nat)
    (r c : Nat) :
    entry (denseRegular d T S byColor tr) r c = galerkin T S byColor.flatten tr (localReg d) r c := by
  simp only [denseRegular, entry_flatMap, entry_regularLaunch, galerkin]
  induction byColor with
  | nil => rfl
  | cons l ls ih => simp [List.flatten_cons, lsum_append, ih]

/-- the Galerkin sum does not depend on the order in which test / trial elements are visited -/
theorem galerkin_perm (T S : SpaceData R) {te te' tr tr' : List Nat} (h1 : te.Perm te') (h2 : tr.Perm tr')
    (I : Nat → Nat → Nat → Nat → R) (r c : Nat) :
    galerkin T S te tr I r c = galerkin T S te' tr' I r c := by
  unfold galerkin
  rw [lsum_map_perm h1]
  apply lsum_map_congr
  intro τ _
  exact lsum_map_perm h2 _

/-- **Regular part refines the specification**: if the colour classes are a partition of the test support
(their concatenation is a permutation of it) and the trial list is a permutation of the trial support, the regular
assembly equals the Galerkin sum over `support × support` of the regular local integrals (which vanish on
adjacent pairs). -/
theorem denseRegular_refines (d : RegData R) (T S : SpaceData R) (byColor : List (List Nat)) (tr suppT suppS : List Nat)
    (hT : byColor.flatten.Perm suppT) (hS : tr.Perm suppS) (r c : Nat) :
    entry (denseRegular d T S byColor tr) r c = galerkin T S suppT suppS (localReg d) r c := by
  rw [entry_denseRegular]
  exact galerkin_perm T S hT hS _ r c

end BemppVerif.Lemmas

namespace BemppVerif.Lemmas
open BemppVerif.Model.Asm

variable {R : Type} [CommRing R]

/-- regroup a sum over a list by a key that ranges over a duplicate-free list -/
theorem lsum_by_key {α β : Type} [DecidableEq β] (l : List α) (k : α → β) (keys : List β) (hk : keys.Nodup)
    (hmem : ∀ a ∈ l, k a ∈ keys) (f : α → R) :
    lsum (l.map f) = lsum (keys.map fun b => lsum ((l.filter fun a => k a = b).map f)) := by
  induction l with
  | nil =>
    show (0 : R) = lsum (keys.map fun _ => (0 : R))
    rw [lsum_map_zero]
  | cons a l ih =>
    have ih' := ih (fun x hx => hmem x (by simp [hx]))
    have ha : k a ∈ keys := hmem a (by simp)
    have hsplit : ∀ b, lsum (((a :: l).filter fun x => k x = b).map f)
        = (if b = k a then f a else 0) + lsum ((l.filter fun x => k x = b).map f) := by
      intro b
      by_cases h : k a = b
      · simp [List.filter_cons, h]
      · have : ¬ b = k a := fun e => h e.symm
        simp [List.filter_cons, h, this]
    simp only [hsplit, lsum_map_add]
    rw [lsum_map_ite_eq keys hk (k a) (fun _ => f a)]
    simp [ha, ih']

theorem galerkin_add (T S : SpaceData R) (te tr : List Nat) (I J : Nat → Nat → Nat → Nat → R) (r c : Nat) :
    galerkin T S te tr (fun τ σ i j => I τ σ i j + J τ σ i j) r c
      = galerkin T S te tr I r c + galerkin T S te tr J r c := by
  unfold galerkin rsum
  simp only [← lsum_map_add]
  apply lsum_map_congr; intro τ _
  apply lsum_map_congr; intro σ _
  apply lsum_map_congr; intro i _
  apply lsum_map_congr; intro j _
  split <;> ring

/-- sum of the singular local integrals of all pairs addressed to the element pair `(τ, σ)` -/
def singSum (d : SingData R) (pairs : List SingPair) (τ σ i j : Nat) : R :=
  lsum ((pairs.filter fun pr => pr.testElem = τ ∧ pr.trialElem = σ).map fun pr => localSing d pr i j)

theorem entry_singularContribs (d : SingData R) (T S : SpaceData R) (pairs : List SingPair) (r c : Nat) :
    entry (singularContribs d T S pairs) r c =
      lsum (pairs.map fun pr => rsum T.nshape fun i => rsum S.nshape fun j =>
        if T.l2g pr.testElem i = r ∧ S.l2g pr.trialElem j = c
        then localSing d pr i j * S.mult pr.trialElem j * T.mult pr.testElem i else 0) := by
  simp only [singularContribs, entry_flatMap, entry_map, rsum]

/-- the singular part is the Galerkin sum of `singSum`, provided every singular pair lies in `support × support` -/
theorem singular_refines (d : SingData R) (T S : SpaceData R) (pairs : List SingPair) (suppT suppS : List Nat)
    (hT : suppT.Nodup) (hS : suppS.Nodup)
    (hmemT : ∀ pr ∈ pairs, pr.testElem ∈ suppT) (hmemS : ∀ pr ∈ pairs, pr.trialElem ∈ suppS) (r c : Nat) :
    entry (singularContribs d T S pairs) r c = galerkin T S suppT suppS (singSum d pairs) r c := by
  rw [entry_singularContribs]
  rw [lsum_by_key pairs (fun pr => pr.testElem) suppT hT hmemT]
  unfold galerkin
  apply lsum_map_congr; intro τ _
  rw [lsum_by_key _ (fun pr => pr.trialElem) suppS hS
    (fun pr hpr => hmemS pr (List.mem_of_mem_filter hpr))]
  apply lsum_map_congr; intro σ _
  simp only [List.filter_filter]
  -- inside the filter both element indices are fixed
  have hfix : ∀ pr ∈ (pairs.filter fun a => (decide (a.trialElem = σ) && decide (a.testElem = τ))),
      (rsum T.nshape fun i => rsum S.nshape fun j =>
        if T.l2g pr.testElem i = r ∧ S.l2g pr.trialElem j = c
        then localSing d pr i j * S.mult pr.trialElem j * T.mult pr.testElem i else 0)
      = (rsum T.nshape fun i => rsum S.nshape fun j =>
        if T.l2g τ i = r ∧ S.l2g σ j = c then localSing d pr i j * S.mult σ j * T.mult τ i else 0) := by
    intro pr hpr
    have h := (List.mem_filter.mp hpr).2
    simp only [Bool.and_eq_true, decide_eq_true_eq] at h
    rw [h.1, h.2]
  rw [lsum_map_congr _ _ _ hfix]
  unfold rsum
  rw [lsum_comm]
  apply lsum_map_congr; intro i _
  rw [lsum_comm]
  apply lsum_map_congr; intro j _
  unfold singSum
  have hf : (pairs.filter fun a => (decide (a.trialElem = σ) && decide (a.testElem = τ)))
      = pairs.filter fun pr => pr.testElem = τ ∧ pr.trialElem = σ := by
    apply List.filter_congr; intro pr _; simp [Bool.and_comm]
  rw [hf]
  by_cases hc : T.l2g τ i = r ∧ S.l2g σ j = c
  · simp only [hc, and_self, if_true]
    rw [← lsum_map_mul_right, ← lsum_map_mul_right]
    apply lsum_map_congr; intro pr _; ring
  · simp only [hc, if_false]
    exact lsum_map_zero _

/-- **dense_refines_spec**: regular launches over a colour partition plus the scattered singular part equal the
Galerkin sum over `support × support` of `localReg + singSum` -/
theorem dense_refines_spec (dr : RegData R) (ds : SingData R) (T S : SpaceData R) (byColor : List (List Nat))
    (tr suppT suppS : List Nat) (pairs : List SingPair)
    (hcol : byColor.flatten.Perm suppT) (htr : tr.Perm suppS) (hT : suppT.Nodup) (hS : suppS.Nodup)
    (hmemT : ∀ pr ∈ pairs, pr.testElem ∈ suppT) (hmemS : ∀ pr ∈ pairs, pr.trialElem ∈ suppS) (r c : Nat) :
    entry (denseRegular dr T S byColor tr ++ singularContribs ds T S pairs) r c
      = galerkin T S suppT suppS (fun τ σ i j => localReg dr τ σ i j + singSum ds pairs τ σ i j) r c := by
  rw [entry_append, denseRegular_refines dr T S byColor tr suppT suppS hcol htr,
    singular_refines ds T S pairs suppT suppS hT hS hmemT hmemS, galerkin_add]

end BemppVerif.Lemmas

namespace BemppVerif.Lemmas
open BemppVerif.Model.Asm

variable {R : Type} [CommRing R]

/-! ### Potentials -/

/-- the potential is linear in the coefficient vector -/
theorem potential_add (d : PotData R) (n : Nat) (supp : List Nat) (c1 c2 : Nat → R) (x : Nat) :
    potential d n supp (fun a => c1 a + c2 a) x = potential d n supp c1 x + potential d n supp c2 x := by
  unfold potential rsum
  rw [← lsum_map_add]
  apply lsum_map_congr; intro σ _
  rw [← lsum_map_add]
  apply lsum_map_congr; intro q _
  rw [← mul_add, ← lsum_map_add]
  congr 1
  apply lsum_map_congr; intro j _
  ring

theorem potential_smul (d : PotData R) (n : Nat) (supp : List Nat) (a : R) (c : Nat → R) (x : Nat) :
    potential d n supp (fun k => a * c k) x = a * potential d n supp c x := by
  unfold potential rsum
  rw [← lsum_map_mul_left]
  apply lsum_map_congr; intro σ _
  rw [← lsum_map_mul_left]
  apply lsum_map_congr; intro q _
  have h : lsum ((List.range n).map fun j => d.ie σ * d.w q * d.phi j q * (a * c (n * σ + j)))
      = a * lsum ((List.range n).map fun j => d.ie σ * d.w q * d.phi j q * c (n * σ + j)) := by
    rw [← lsum_map_mul_left]; apply lsum_map_congr; intro j _; ring
  rw [h]; ring

/-- potentials of spaces on disjoint pieces of the support add up (segment-wise assembly) -/
theorem potential_support_append (d : PotData R) (n : Nat) (s1 s2 : List Nat) (c : Nat → R) (x : Nat) :
    potential d n (s1 ++ s2) c x = potential d n s1 c x + potential d n s2 c x := by
  unfold potential
  rw [List.map_append, lsum_append]

/-- **potential = closed-form kernel sum**: the value at `x` is
`Σ_{σ∈supp} Σ_q K(x; σ, q) · w_q · ie_σ · (Σ_j φ_j(q) · coef[nshape·σ + j])`, i.e. kernel × weight × integration element ×
the density evaluated at the quadrature point. -/
theorem potential_is_kernel_sum (d : PotData R) (n : Nat) (supp : List Nat) (c : Nat → R) (x : Nat) :
    potential d n supp c x =
      lsum (supp.map fun σ => rsum d.nq fun q =>
        d.K x σ q * (d.w q * d.ie σ * rsum n fun j => d.phi j q * c (n * σ + j))) := by
  unfold potential rsum
  apply lsum_map_congr; intro σ _
  apply lsum_map_congr; intro q _
  congr 1
  rw [← lsum_map_mul_left]
  apply lsum_map_congr; intro j _
  ring

/-! ### Boundary operator between two grids = Galerkin-tested potential (regular part, no skipped pairs) -/

/-- If no pair is skipped (`adjacent = false`, the case of two different grids), the local regular integral is the
test function integrated against the potential of the trial shape function:
`localReg τ σ i j = Σ_p w_p ie_τ φ_i(p) · Pot_{σ,j}(x_{τ,p})` where `Pot_{σ,j}` is the potential (model) of the unit
coefficient vector `e_{nshape·σ+j}` supported on `[σ]`. -/
theorem localReg_eq_tested_potential (d : RegData R) (nS : Nat) (τ σ i j : Nat) (hj : j < nS)
    (hadj : d.adjacent τ σ = false) :
    localReg d τ σ i j =
      rsum d.nq fun p => d.w p * d.ieT τ * d.phiT i p *
        potential ⟨d.nq, d.w, d.ieS, d.phiS, fun x σ' q => d.K τ x σ' q⟩ nS [σ]
          (fun a => if a = nS * σ + j then 1 else 0) p := by
  unfold localReg potential rsum
  simp only [hadj, Bool.false_eq_true, if_false, List.map_cons, List.map_nil, lsum_cons, lsum_nil, add_zero]
  apply lsum_map_congr; intro p _
  rw [← lsum_map_mul_left]
  apply lsum_map_congr; intro q _
  -- the inner sum over the shape functions of the unit vector selects `j`
  have hsel : lsum ((List.range nS).map fun j' => d.ieS σ * d.w q * d.phiS j' q *
      (if nS * σ + j' = nS * σ + j then (1 : R) else 0)) = d.ieS σ * d.w q * d.phiS j q := by
    have h1 : ∀ j' ∈ List.range nS, d.ieS σ * d.w q * d.phiS j' q * (if nS * σ + j' = nS * σ + j then (1 : R) else 0)
        = if j' = j then d.ieS σ * d.w q * d.phiS j' q else 0 := by
      intro j' _
      by_cases h : j' = j
      · simp [h]
      · have : ¬ (nS * σ + j' = nS * σ + j) := by omega
        simp [h, this]
    rw [lsum_map_congr _ _ _ h1, lsum_map_ite_eq _ List.nodup_range j]
    simp [hj]
  rw [hsel]
  ring

/-! ### Congruence (operators on a subspace) -/

/-- **Congruence**: the Galerkin matrix of spaces `(T, S)` is `Σ_{(τ,i)} Σ_{(σ,j)} Tmap[(τ,i), r] · I τ σ i j · Smap[(σ,j), c]`
with `Tmap[(τ,i), r] = mult_T τ i · [l2g_T τ i = r]` — the element-wise (discontinuous) matrix `I` conjugated by the
spaces' coefficient maps. -/
theorem galerkin_congruence (T S : SpaceData R) (suppT suppS : List Nat) (I : Nat → Nat → Nat → Nat → R) (r c : Nat) :
    galerkin T S suppT suppS I r c =
      lsum (suppT.map fun τ => rsum T.nshape fun i =>
        (if T.l2g τ i = r then T.mult τ i else 0) *
          lsum (suppS.map fun σ => rsum S.nshape fun j =>
            I τ σ i j * (if S.l2g σ j = c then S.mult σ j else 0))) := by
  unfold galerkin rsum
  apply lsum_map_congr; intro τ _
  rw [lsum_comm]
  apply lsum_map_congr; intro i _
  rw [← lsum_map_mul_left]
  apply lsum_map_congr; intro σ _
  rw [← lsum_map_mul_left]
  apply lsum_map_congr; intro j _
  by_cases h1 : T.l2g τ i = r <;> by_cases h2 : S.l2g σ j = c <;> simp [h1, h2] <;> ring

/-- **Sub-blocks**: on the element-wise space (`l2g e i = nshape·e + i`, multipliers 1) the entry
`(nT·τ + i, nS·σ + j)` is exactly the local integral `I τ σ i j`, for support elements of duplicate-free supports. -/
theorem galerkin_dp_entry (nT nS : Nat) (suppT suppS : List Nat) (hT : suppT.Nodup) (hS : suppS.Nodup)
    (I : Nat → Nat → Nat → Nat → R) (τ σ i j : Nat) (hτ : τ ∈ suppT) (hσ : σ ∈ suppS) (hi : i < nT) (hj : j < nS) :
    galerkin (dpSpace nT) (dpSpace nS) suppT suppS I (nT * τ + i) (nS * σ + j) = I τ σ i j := by
  unfold galerkin rsum dpSpace
  simp only [mul_one]
  have key : ∀ τ' ∈ suppT, lsum (suppS.map fun σ' => lsum ((List.range nT).map fun i' =>
      lsum ((List.range nS).map fun j' =>
        if nT * τ' + i' = nT * τ + i ∧ nS * σ' + j' = nS * σ + j then I τ' σ' i' j' else 0)))
      = if τ' = τ then I τ σ i j else 0 := by
    intro τ' _
    by_cases hτ' : τ' = τ
    · subst hτ'
      simp only [if_true]
      have inner : ∀ σ' ∈ suppS, lsum ((List.range nT).map fun i' => lsum ((List.range nS).map fun j' =>
          if nT * τ' + i' = nT * τ' + i ∧ nS * σ' + j' = nS * σ + j then I τ' σ' i' j' else 0))
          = if σ' = σ then I τ' σ i j else 0 := by
        intro σ' _
        by_cases hσ' : σ' = σ
        · subst hσ'
          simp only [if_true]
          have h1 : ∀ i' ∈ List.range nT, lsum ((List.range nS).map fun j' =>
              if nT * τ' + i' = nT * τ' + i ∧ nS * σ' + j' = nS * σ' + j then I τ' σ' i' j' else 0)
              = if i' = i then I τ' σ' i j else 0 := by
            intro i' _
            by_cases hi' : i' = i
            · subst hi'
              have h2 : ∀ j' ∈ List.range nS,
                  (if nT * τ' + i' = nT * τ' + i' ∧ nS * σ' + j' = nS * σ' + j then I τ' σ' i' j' else 0)
                  = if j' = j then I τ' σ' i' j' else 0 := by
                intro j' _
                by_cases hj' : j' = j
                · simp [hj']
                · have : ¬ (nS * σ' + j' = nS * σ' + j) := by omega
                  simp [hj', this]
              rw [lsum_map_congr _ _ _ h2, lsum_map_ite_eq _ List.nodup_range j]
              simp [hj]
            · have : ¬ (nT * τ' + i' = nT * τ' + i) := by omega
              simp [hi', this, lsum_replicate_zero]
          rw [lsum_map_congr _ _ _ h1, lsum_map_ite_eq _ List.nodup_range i]
          simp [hi]
        · -- different trial element: every term vanishes because j, j' < nS
          simp only [hσ', if_false]
          have hz : ∀ i' ∈ List.range nT, lsum ((List.range nS).map fun j' =>
              if nT * τ' + i' = nT * τ' + i ∧ nS * σ' + j' = nS * σ + j then I τ' σ' i' j' else 0) = 0 := by
            intro i' _
            have hz2 : ∀ j' ∈ List.range nS,
                (if nT * τ' + i' = nT * τ' + i ∧ nS * σ' + j' = nS * σ + j then I τ' σ' i' j' else (0 : R)) = 0 := by
              intro j' hj'
              have hj'' : j' < nS := List.mem_range.mp hj'
              have : ¬ (nS * σ' + j' = nS * σ + j) := by
                intro e
                rcases Nat.lt_or_gt_of_ne hσ' with h | h
                · have : nS * σ' + nS ≤ nS * σ := by
                    have := Nat.mul_le_mul_left nS (Nat.succ_le_of_lt h); simpa [Nat.mul_succ] using this
                  omega
                · have : nS * σ + nS ≤ nS * σ' := by
                    have := Nat.mul_le_mul_left nS (Nat.succ_le_of_lt h); simpa [Nat.mul_succ] using this
                  omega
              simp [this]
            rw [lsum_map_congr _ _ _ hz2, lsum_map_zero]
          rw [lsum_map_congr _ _ _ hz, lsum_map_zero]
      rw [lsum_map_congr _ _ _ inner, lsum_map_ite_eq _ hS σ]
      simp [hσ]
    · simp only [hτ', if_false]
      have hz : ∀ σ' ∈ suppS, lsum ((List.range nT).map fun i' => lsum ((List.range nS).map fun j' =>
          if nT * τ' + i' = nT * τ + i ∧ nS * σ' + j' = nS * σ + j then I τ' σ' i' j' else (0 : R))) = 0 := by
        intro σ' _
        have hz1 : ∀ i' ∈ List.range nT, lsum ((List.range nS).map fun j' =>
            if nT * τ' + i' = nT * τ + i ∧ nS * σ' + j' = nS * σ + j then I τ' σ' i' j' else (0 : R)) = 0 := by
          intro i' hi'
          have hi'' : i' < nT := List.mem_range.mp hi'
          have : ¬ (nT * τ' + i' = nT * τ + i) := by
            intro e
            rcases Nat.lt_or_gt_of_ne hτ' with h | h
            · have : nT * τ' + nT ≤ nT * τ := by
                have := Nat.mul_le_mul_left nT (Nat.succ_le_of_lt h); simpa [Nat.mul_succ] using this
              omega
            · have : nT * τ + nT ≤ nT * τ' := by
                have := Nat.mul_le_mul_left nT (Nat.succ_le_of_lt h); simpa [Nat.mul_succ] using this
              omega
          simp [this, lsum_replicate_zero]
        rw [lsum_map_congr _ _ _ hz1, lsum_map_zero]
      rw [lsum_map_congr _ _ _ hz, lsum_map_zero]
  rw [lsum_map_congr _ _ _ key, lsum_map_ite_eq _ hT τ]
  simp [hτ]

end BemppVerif.Lemmas

namespace BemppVerif.Lemmas
open BemppVerif.Model.Asm

variable {R : Type} [CommRing R]

/-! ### Linearity in the kernel and transposition (used by C05 / C06) -/

/-- the regular local integral is additive in the kernel values -/
theorem localReg_add_kernel (d : RegData R) (K1 K2 : Nat → Nat → Nat → Nat → R) (τ σ i j : Nat) :
    localReg { d with K := fun a b c e => K1 a b c e + K2 a b c e } τ σ i j
      = localReg { d with K := K1 } τ σ i j + localReg { d with K := K2 } τ σ i j := by
  unfold localReg rsum
  by_cases h : d.adjacent τ σ = true
  · simp [h]
  · simp only [h, Bool.false_eq_true, if_false]
    rw [← lsum_map_add]
    apply lsum_map_congr; intro p _
    rw [← lsum_map_add]
    apply lsum_map_congr; intro q _
    ring

/-- ... and homogeneous: multiplying the kernel by a scalar multiplies the local integral -/
theorem localReg_smul_kernel (d : RegData R) (a : R) (τ σ i j : Nat) :
    localReg { d with K := fun x y z w => a * d.K x y z w } τ σ i j = a * localReg d τ σ i j := by
  unfold localReg rsum
  by_cases h : d.adjacent τ σ = true
  · simp [h]
  · simp only [h, Bool.false_eq_true, if_false]
    rw [← lsum_map_mul_left]
    apply lsum_map_congr; intro p _
    rw [← lsum_map_mul_left]
    apply lsum_map_congr; intro q _
    ring

/-- the Galerkin sum is homogeneous in the local integrals -/
theorem galerkin_smul (T S : SpaceData R) (te tr : List Nat) (a : R) (I : Nat → Nat → Nat → Nat → R) (r c : Nat) :
    galerkin T S te tr (fun τ σ i j => a * I τ σ i j) r c = a * galerkin T S te tr I r c := by
  unfold galerkin rsum
  rw [← lsum_map_mul_left]
  apply lsum_map_congr; intro τ _
  rw [← lsum_map_mul_left]
  apply lsum_map_congr; intro σ _
  rw [← lsum_map_mul_left]
  apply lsum_map_congr; intro i _
  rw [← lsum_map_mul_left]
  apply lsum_map_congr; intro j _
  split <;> ring

/-- exchanging the roles of test and trial data in the regular local integral (kernel with its two points exchanged,
integration elements and shape functions exchanged) transposes it: the regular part of an operator whose kernel is the
transpose of another one's is the transposed local matrix -/
theorem localReg_transpose (d : RegData R) (τ σ i j : Nat) :
    localReg ⟨d.nq, d.w, d.ieS, d.ieT, d.phiS, d.phiT, fun a p b q => d.K b q a p, fun a b => d.adjacent b a⟩ τ σ i j
      = localReg d σ τ j i := by
  unfold localReg rsum
  by_cases h : d.adjacent σ τ = true
  · simp [h]
  · simp only [h, Bool.false_eq_true, if_false]
    rw [lsum_comm]
    apply lsum_map_congr; intro p _
    apply lsum_map_congr; intro q _
    ring

/-- transposing the local integrals and exchanging the spaces transposes the Galerkin matrix -/
theorem galerkin_transpose (T S : SpaceData R) (te tr : List Nat) (I : Nat → Nat → Nat → Nat → R) (r c : Nat) :
    galerkin T S te tr (fun τ σ i j => I σ τ j i) r c = galerkin S T tr te I c r := by
  unfold galerkin rsum
  rw [lsum_comm]
  apply lsum_map_congr; intro σ _
  apply lsum_map_congr; intro τ _
  rw [lsum_comm]
  apply lsum_map_congr; intro j _
  apply lsum_map_congr; intro i _
  by_cases h1 : T.l2g τ i = r <;> by_cases h2 : S.l2g σ j = c <;> simp [h1, h2] <;> ring

end BemppVerif.Lemmas
