/-
Specification-level definitions for the Maxwell assemblers and potentials, and the algebra that turns the closed forms of
the traced local integrals into the single-layer decomposition of the electric-field operator (C06).

The generated files `Gen/AsmMatchMaxwell*.lean` prove, entry by entry, that the TRACES of the real assemblers
(`bempp_cl/core/numba_kernels.py`: `maxwell_efield_regular_assembler`, `maxwell_efield_singular`, …) equal the closed forms
defined here (`efieldClosed`, `mfieldTerm`, `efieldPotTerm`, …), and that the traces of `default_scalar_regular_kernel` /
`default_scalar_singular_kernel` on the element-wise constant / linear spaces equal `regV0` / `regV1` (`singV0` / `singV1`).
`efield_decomposition` / `efield_decomposition_sing` below are the (size-independent in the geometry, fixed to the 2-point
rules of the traced configuration) identities `closed form = −ik Σ_c R_cᵀ V1 R_c − (1/(ik)) Dᵀ V0 D`.

Complex numbers are pairs `CP K` over an arbitrary field (see `Lemmas/CPair.lean`).
-/
import BemppVerif.Lemmas.CPair
import BemppVerif.Lemmas.AtomTactic
import Mathlib.Tactic.Ring
import Mathlib.Tactic.FieldSimp

namespace BemppVerif.Mx
open BemppVerif

section
variable {K : Type} [Field K]

/-- reference edge function i, component a, at (u, v): the rows of `vals` in `get_piola_transform` -/
def rwgRef (i a : Nat) (u v : K) : K :=
  match i, a with
  | 0, 0 => u
  | 0, _ => v - 1
  | 1, 0 => u - 1
  | 1, _ => v
  | _, 0 => u
  | _, _ => v

/-- Piola-mapped reference function, component c: `(J_e φ̂_i(u,v))_c / ie_e` -/
def piola (J : Nat → Nat → Nat → K) (ie : Nat → K) (e i c : Nat) (u v : K) : K :=
  (J e c 0 * rwgRef i 0 u v + J e c 1 * rwgRef i 1 u v) / ie e

/-- the edge length that scales local function i of element e: `el a b` stands for |V_a − V_b| (the tracer names the
norm by the ordered vertex pair that the source subtracts); local edges are (v0,v1), (v2,v0), (v1,v2) -/
def edgeLen (elems : Nat → Nat → Nat) (el : Nat → Nat → K) (e i : Nat) : K :=
  match i with
  | 0 => el (elems e 0) (elems e 1)
  | 1 => el (elems e 2) (elems e 0)
  | _ => el (elems e 1) (elems e 2)

/-- the basis function as the assemblers use it: local multiplier × edge length × Piola-mapped reference function -/
def rwgVal (m : Nat → Nat → K) (elems : Nat → Nat → Nat) (el : Nat → Nat → K) (J : Nat → Nat → Nat → K)
    (ie : Nat → K) (e i c : Nat) (u v : K) : K :=
  m e i * edgeLen elems el e i * piola J ie e i c u v

def vtxU (n : Nat) : K := match n with | 1 => 1 | _ => 0
def vtxV (n : Nat) : K := match n with | 2 => 1 | _ => 0

/-- value of the basis function at local vertex n = its coefficient in the element-wise linear space -/
def rwgVtx (m : Nat → Nat → K) (elems : Nat → Nat → Nat) (el : Nat → Nat → K) (J : Nat → Nat → Nat → K)
    (ie : Nat → K) (e i c n : Nat) : K :=
  rwgVal m elems el J ie e i c (vtxU n) (vtxV n)

/-- its (constant) surface divergence: reference divergence 2, divided by the integration element -/
def rwgDiv (m : Nat → Nat → K) (elems : Nat → Nat → Nat) (el : Nat → Nat → K) (ie : Nat → K) (e i : Nat) : K :=
  m e i * edgeLen elems el e i * (2 / ie e)

/-- integration element × divergence (`= 2 · multiplier · edge length`) -/
def rwgDivIe (m : Nat → Nat → K) (elems : Nat → Nat → Nat) (el : Nat → Nat → K) (e i : Nat) : K :=
  m e i * edgeLen elems el e i * 2

theorem rwgDivIe_eq (m : Nat → Nat → K) (elems : Nat → Nat → Nat) (el : Nat → Nat → K) (ie : Nat → K) (e i : Nat)
    (h : ie e ≠ 0) : rwgDivIe m elems el e i = ie e * rwgDiv m elems el ie e i := by
  unfold rwgDivIe rwgDiv; field_simp

/-- `local2global`: component c of the point with local coordinates (u, v) on element e -/
def pt (V : Nat → Nat → K) (J : Nat → Nat → Nat → K) (elems : Nat → Nat → Nat) (e c : Nat) (u v : K) : K :=
  V (elems e 0) c + (J e c 0 * u + J e c 1 * v)

def dot3 (a b : Nat → K) : K := a 0 * b 0 + a 1 * b 1 + a 2 * b 2

def cross3 (a b : Nat → K) (c : Nat) : K :=
  match c with
  | 0 => a 1 * b 2 - a 2 * b 1
  | 1 => a 2 * b 0 - a 0 * b 2
  | _ => a 0 * b 1 - a 1 * b 0

/-- `a · (b × c)` -/
def triple (a b c : Nat → K) : K := a 0 * cross3 b c 0 + a 1 * cross3 b c 1 + a 2 * cross3 b c 2

/-- a 3×3 table as a function of two indices -/
def tab9 (v00 v01 v02 v10 v11 v12 v20 v21 v22 : CP K) : Nat → Nat → CP K := fun m n =>
  match m, n with
  | 0, 0 => v00 | 0, 1 => v01 | 0, 2 => v02
  | 1, 0 => v10 | 1, 1 => v11 | 1, 2 => v12
  | 2, 0 => v20 | 2, 1 => v21 | 2, 2 => v22
  | _, _ => 0

/-- `Σ_c Σ_m Σ_n Rt c m · V m n · Rs c n`: the (real) bilinear form `Σ_c R_cᵀ V R_c` of one local block -/
def quadForm (Rt Rs : Nat → Nat → K) (V : Nat → Nat → K) : K :=
  CP.sum3 fun c => CP.sum3 fun m => CP.sum3 fun n => Rt c m * V m n * Rs c n

/-- **electric-field decomposition of one local block**: `−ik Σ_c Σ_m Σ_n R_c[i,m] V1[m,n] R_c[j,n] − (1/(ik)) D_i V0 D_j`
(`Rt c m`, `Rs c n`: vertex values of the test / trial basis function (real), `Dt`, `Ds` their divergences, `V1`, `V0` the
(complex) single-layer local integrals on the element-wise linear / constant spaces; `R` is real, so the bilinear form
acts on the real and on the imaginary part of `V1` separately) -/
def efieldLocal (kr ki : K) (Rt Rs : Nat → Nat → K) (Dt Ds : K) (V1 : Nat → Nat → CP K) (V0 : CP K) : CP K :=
  -(CP.ik kr ki * ⟨quadForm Rt Rs fun m n => (V1 m n).re, quadForm Rt Rs fun m n => (V1 m n).im⟩)
    - (CP.ofK Dt * V0 * CP.ofK Ds) / CP.ik kr ki

/-! ### closed forms of the regular local integrals (2-point rule: test point p, trial point q) -/

/-- single layer, element-wise linear space: `Σ_p Σ_q W_pq φt_m(p) φs_n(q) G(x_p, y_q)`, `W_pq = w_p w_q ie_τ ie_σ` -/
def regV1 (W : Nat → Nat → K) (G : Nat → Nat → CP K) (φt φs : Nat → Nat → K) (m n : Nat) : CP K :=
  CP.sum2 fun p => CP.sum2 fun q => CP.ofK (W p q * φt m p * φs n q) * G p q

/-- single layer, element-wise constant space: `Σ_p Σ_q W_pq G(x_p, y_q)` -/
def regV0 (W : Nat → Nat → K) (G : Nat → Nat → CP K) : CP K :=
  CP.sum2 fun p => CP.sum2 fun q => CP.ofK (W p q) * G p q

/-- electric field: `Σ_p Σ_q G(x_p,y_q) W_pq (−ik ψt(x_p)·ψs(y_q) − (1/(ik)) div ψt div ψs)` -/
def efieldClosed (kr ki : K) (W : Nat → Nat → K) (G : Nat → Nat → CP K) (ψt ψs : Nat → Nat → K) (Dt Ds : K) : CP K :=
  CP.sum2 fun p => CP.sum2 fun q =>
    G p q * CP.ofK (W p q) * (-(CP.ik kr ki * CP.ofK (dot3 (ψt p) (ψs q))) - CP.ofK (Dt * Ds) / CP.ik kr ki)

/-! ### closed forms of the singular local integrals (q-th pair of points of the transformed rule, 2 points traced) -/

def singV1 (W : Nat → K) (G : Nat → CP K) (φt φs : Nat → Nat → K) (m n : Nat) : CP K :=
  CP.sum2 fun q => CP.ofK (W q * φt m q * φs n q) * G q

def singV0 (W : Nat → K) (G : Nat → CP K) : CP K := CP.sum2 fun q => CP.ofK (W q) * G q

def efieldClosedSing (kr ki : K) (W : Nat → K) (G : Nat → CP K) (ψt ψs : Nat → Nat → K) (Dt Ds : K) : CP K :=
  CP.sum2 fun q =>
    G q * CP.ofK (W q) * (-(CP.ik kr ki * CP.ofK (dot3 (ψt q) (ψs q))) - CP.ofK (Dt * Ds) / CP.ik kr ki)

/-- the factor the Maxwell kernels put in front of `x − y` to get the gradient of the Helmholtz kernel:
`G · (ik d − 1) / d²` (`∇ₓ G(x,y) = gradFac · (x − y)` for `G = e^{ikd}/(4πd)`) -/
def gradFac (kr ki : K) (G : CP K) (d : K) : CP K :=
  CP.divK (G * (CP.ik kr ki * CP.ofK d - CP.ofK 1)) (d * d)

/-- one quadrature term of the magnetic-field double integral: `W · (x − y)·(ψt × ψs) · G (ik d − 1)/d²`
`= W · ∇ₓG(x,y) · (ψt × ψs)` -/
def mfieldTerm (kr ki W : K) (x y ψt ψs : Nat → K) (G : CP K) (d : K) : CP K :=
  CP.ofK (W * triple (fun c => x c - y c) ψt ψs) * gradFac kr ki G d

/-- component c of one quadrature term of the electric-field potential:
`G · (ik F_c − (x − y)_c (ik d − 1) Dv / (ik d²))`, with `F = w·ie·f(y)` and `Dv = w·ie·div f(y)`; this is
`w·ie·[ik G f − (1/(ik)) ∇ₓG div f]_c` -/
def efieldPotTerm (kr ki : K) (G : CP K) (d : K) (x y F : Nat → K) (Dv : K) (c : Nat) : CP K :=
  G * (CP.ik kr ki * CP.ofK (F c)
       - CP.ofK (x c - y c) * (CP.ik kr ki * CP.ofK d - CP.ofK 1) * CP.ofK Dv / (CP.ik kr ki * CP.ofK d * CP.ofK d))

/-- component c of one quadrature term of the magnetic-field potential: `(∇ₓG × F)_c`, `∇ₓG = gradFac · (x − y)` -/
def mfieldPotTerm (kr ki : K) (G : CP K) (d : K) (x y F : Nat → K) (c : Nat) : CP K :=
  gradFac kr ki G d * CP.ofK (cross3 (fun a => x a - y a) F c)

/-- electric far field term: `G · (ik F_c − x_c Dv)` (G: far-field kernel value, x: direction) -/
def efieldFarTerm (kr ki : K) (G : CP K) (x F : Nat → K) (Dv : K) (c : Nat) : CP K :=
  G * (CP.ik kr ki * CP.ofK (F c) - CP.ofK (x c * Dv))

/-- magnetic far field term: `ik G (x × F)_c` -/
def mfieldFarTerm (kr ki : K) (G : CP K) (x F : Nat → K) (c : Nat) : CP K :=
  G * CP.ik kr ki * CP.ofK (cross3 x F c)

/-- what separates the electric-field boundary integrand from minus the tested potential at one pair of quadrature
points: `G · ( wt·(wq ieS)·div ψt·div ψs / (ik) + wt (ψt·(x − y)) (ik d − 1) (wq·DvS) / (ik d²) )`, which is
`(1/(ik)) · wt · wq ieS · divₓ(ψt(x) G(x,y)) · div ψs(y)` when `DvS = ieS · div ψs` (`wt = w_p ie_τ`); its sum over
the test points is the quadrature of a surface divergence (exact integral: the boundary flux of ψt G) -/
def efieldRemainder (kr ki : K) (G : CP K) (d wt wq ieS : K) (x y ψt : Nat → K) (divT divS DvS : K) : CP K :=
  G * (CP.ofK (wt * (wq * ieS) * (divT * divS)) / CP.ik kr ki
       + CP.ofK (wt * dot3 ψt (fun c => x c - y c)) * (CP.ik kr ki * CP.ofK d - CP.ofK 1) * CP.ofK (wq * DvS)
         / (CP.ik kr ki * CP.ofK d * CP.ofK d))

/-! ### The decomposition -/

/-- the real identity behind the decomposition: if `ψ(x_p)_c = Σ_m R_c[m] φ_m(p)` then
`Σ_c R_cᵀ (Σ_p Σ_q w_pq g_pq φt(p) φs(q)ᵀ) R_c = Σ_p Σ_q w_pq g_pq ψt(x_p)·ψs(y_q)` -/
theorem quadForm_reg (Rt Rs : Nat → Nat → K) (w g : Nat → Nat → K) (φt φs ψt ψs : Nat → Nat → K)
    (ht : ∀ p c, ψt p c = CP.sum3 fun m => Rt c m * φt m p) (hs : ∀ q c, ψs q c = CP.sum3 fun n => Rs c n * φs n q) :
    quadForm Rt Rs (fun m n => CP.sum2 fun p => CP.sum2 fun q => w p q * φt m p * φs n q * g p q)
      = CP.sum2 fun p => CP.sum2 fun q => w p q * g p q * dot3 (ψt p) (ψs q) := by
  simp only [quadForm, dot3, ht, hs, CP.sum3, CP.sum2]
  generalize_atoms
  ring

theorem quadForm_sing (Rt Rs : Nat → Nat → K) (w g : Nat → K) (φt φs ψt ψs : Nat → Nat → K)
    (ht : ∀ q c, ψt q c = CP.sum3 fun m => Rt c m * φt m q) (hs : ∀ q c, ψs q c = CP.sum3 fun n => Rs c n * φs n q) :
    quadForm Rt Rs (fun m n => CP.sum2 fun q => w q * φt m q * φs n q * g q)
      = CP.sum2 fun q => w q * g q * dot3 (ψt q) (ψs q) := by
  simp only [quadForm, dot3, ht, hs, CP.sum3, CP.sum2]
  generalize_atoms
  ring

theorem regV1_re (W : Nat → Nat → K) (G : Nat → Nat → CP K) (φt φs : Nat → Nat → K) (m n : Nat) :
    (regV1 W G φt φs m n).re = CP.sum2 fun p => CP.sum2 fun q => W p q * φt m p * φs n q * (G p q).re := by
  simp only [regV1, CP.sum2, CP.add_re, CP.mul_re, CP.ofK_re, CP.ofK_im]; ring
theorem regV1_im (W : Nat → Nat → K) (G : Nat → Nat → CP K) (φt φs : Nat → Nat → K) (m n : Nat) :
    (regV1 W G φt φs m n).im = CP.sum2 fun p => CP.sum2 fun q => W p q * φt m p * φs n q * (G p q).im := by
  simp only [regV1, CP.sum2, CP.add_im, CP.mul_im, CP.ofK_re, CP.ofK_im]; ring
theorem singV1_re (W : Nat → K) (G : Nat → CP K) (φt φs : Nat → Nat → K) (m n : Nat) :
    (singV1 W G φt φs m n).re = CP.sum2 fun q => W q * φt m q * φs n q * (G q).re := by
  simp only [singV1, CP.sum2, CP.add_re, CP.mul_re, CP.ofK_re, CP.ofK_im]; ring
theorem singV1_im (W : Nat → K) (G : Nat → CP K) (φt φs : Nat → Nat → K) (m n : Nat) :
    (singV1 W G φt φs m n).im = CP.sum2 fun q => W q * φt m q * φs n q * (G q).im := by
  simp only [singV1, CP.sum2, CP.add_im, CP.mul_im, CP.ofK_re, CP.ofK_im]; ring

/-- **C06, electric field, regular part.**  If the test / trial basis functions are the interpolants of their vertex
values (`ψ(x_p)_c = Σ_m R_c[m] φ_m(p)`: their components are affine), the closed form of the local electric-field
integral is `−ik Σ_c R_cᵀ V1 R_c − (1/(ik)) Dt V0 Ds` with `V1`, `V0` the closed forms of the single-layer local
integrals on the element-wise linear / constant space with the same points, weights and kernel values. -/
theorem efield_decomposition (kr ki : K) (Rt Rs : Nat → Nat → K) (Dt Ds : K) (W : Nat → Nat → K) (G : Nat → Nat → CP K)
    (φt φs ψt ψs : Nat → Nat → K)
    (ht : ∀ p c, ψt p c = CP.sum3 fun m => Rt c m * φt m p) (hs : ∀ q c, ψs q c = CP.sum3 fun n => Rs c n * φs n q) :
    efieldClosed kr ki W G ψt ψs Dt Ds
      = efieldLocal kr ki Rt Rs Dt Ds
          (tab9 (regV1 W G φt φs 0 0) (regV1 W G φt φs 0 1) (regV1 W G φt φs 0 2)
                (regV1 W G φt φs 1 0) (regV1 W G φt φs 1 1) (regV1 W G φt φs 1 2)
                (regV1 W G φt φs 2 0) (regV1 W G φt φs 2 1) (regV1 W G φt φs 2 2)) (regV0 W G) := by
  have hre := quadForm_reg Rt Rs W (fun p q => (G p q).re) φt φs ψt ψs ht hs
  have him := quadForm_reg Rt Rs W (fun p q => (G p q).im) φt φs ψt ψs ht hs
  simp only [quadForm, CP.sum3] at hre him
  simp only [efieldLocal, quadForm, CP.sum3, tab9, regV1_re, regV1_im, hre, him]
  simp only [efieldClosed, regV0, CP.ext_iff', CP.ofK_re, CP.ofK_im, CP.add_re, CP.add_im, CP.sub_re, CP.sub_im, CP.neg_re,
    CP.neg_im, CP.mul_re, CP.mul_im, CP.div_re, CP.div_im, CP.ik_re, CP.ik_im, CP.sum2]
  constructor <;> (generalize_atoms [dot3, CP.re, CP.im]; ring)

/-- **C06, electric field, singular local integrals** (same statement for the paired points of the singular rule) -/
theorem efield_decomposition_sing (kr ki : K) (Rt Rs : Nat → Nat → K) (Dt Ds : K) (W : Nat → K) (G : Nat → CP K)
    (φt φs ψt ψs : Nat → Nat → K)
    (ht : ∀ q c, ψt q c = CP.sum3 fun m => Rt c m * φt m q) (hs : ∀ q c, ψs q c = CP.sum3 fun n => Rs c n * φs n q) :
    efieldClosedSing kr ki W G ψt ψs Dt Ds
      = efieldLocal kr ki Rt Rs Dt Ds
          (tab9 (singV1 W G φt φs 0 0) (singV1 W G φt φs 0 1) (singV1 W G φt φs 0 2)
                (singV1 W G φt φs 1 0) (singV1 W G φt φs 1 1) (singV1 W G φt φs 1 2)
                (singV1 W G φt φs 2 0) (singV1 W G φt φs 2 1) (singV1 W G φt φs 2 2)) (singV0 W G) := by
  have hre := quadForm_sing Rt Rs W (fun q => (G q).re) φt φs ψt ψs ht hs
  have him := quadForm_sing Rt Rs W (fun q => (G q).im) φt φs ψt ψs ht hs
  simp only [quadForm, CP.sum3] at hre him
  simp only [efieldLocal, quadForm, CP.sum3, tab9, singV1_re, singV1_im, hre, him]
  simp only [efieldClosedSing, singV0, CP.ext_iff', CP.ofK_re, CP.ofK_im, CP.add_re, CP.add_im, CP.sub_re, CP.sub_im, CP.neg_re,
    CP.neg_im, CP.mul_re, CP.mul_im, CP.div_re, CP.div_im, CP.ik_re, CP.ik_im, CP.sum2]
  constructor <;> (generalize_atoms [dot3, CP.re, CP.im]; ring)

/-- the P1 shape functions `1 − u − v, u, v` (the traced `p1_discontinuous` shapeset is checked against this in the
generated `mx_scalar_*_closed_form_*` theorems, which unfold both) -/
def lam (n : Nat) (u v : K) : K :=
  match n with
  | 0 => 1 - u - v
  | 1 => u
  | _ => v

/-- **affine interpolation**: the scaled Piola-mapped basis function is the P1 interpolant of its three vertex values -/
theorem rwgVal_interp (m : Nat → Nat → K) (elems : Nat → Nat → Nat) (el : Nat → Nat → K) (J : Nat → Nat → Nat → K)
    (ie : Nat → K) (e i c : Nat) (u v : K) :
    rwgVal m elems el J ie e i c u v = CP.sum3 fun n => rwgVtx m elems el J ie e i c n * lam n u v := by
  simp only [rwgVal, rwgVtx, piola, CP.sum3, lam, vtxU, vtxV]
  rcases i with _ | _ | i <;> simp only [rwgRef] <;> ring

/-- **divergence of the Piola-mapped reference functions**: `∂_u φ̂_i^0 + ∂_v φ̂_i^1 = 2` for the three reference
functions `(u, v−1), (u−1, v), (u, v)` (difference quotients of the affine components), so that the surface divergence
of `J φ̂ / ie` is `2 / ie` (`rwgDiv`) -/
theorem rwgRef_divergence (i : Nat) (u v h : K) :
    (rwgRef i 0 (u + h) v - rwgRef i 0 u v) + (rwgRef i 1 u (v + h) - rwgRef i 1 u v) = 2 * h := by
  rcases i with _ | _ | i <;> simp only [rwgRef] <;> ring

end
end BemppVerif.Mx
