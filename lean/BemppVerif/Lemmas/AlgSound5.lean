/-
Helper lemmas for C14 (continued): products and application of blocked operators, item assignment, unary operations,
and the main induction `eval_rel`.
-/
import BemppVerif.Lemmas.AlgSound4

namespace BemppVerif.Lemmas.AlgSound
open BemppVerif.Model.Alg BemppVerif.Lemmas.AlgMat BemppVerif.Lemmas.AlgType

set_option linter.unusedSectionVars false
set_option linter.unusedSimpArgs false

variable {R : Type} [CommRing R] [CParts R]

theorem mulV_rel (hp : LawfulParts R) {p : Pool R} (ok : PoolOk p) {mm : Bool} {x y r : Obj R} {dx dy : Den R}
    (hx : Rel p x dx) (hy : Rel p y dy) (h : mulV p mm x y = .ok r) : Rel p r (mulD p dx dy) := by
  by_cases hb : ∃ k, x = .blk k
  · obtain ⟨a, rfl⟩ := hb
    have hx0 := hx
    cases dx <;> simp only [Rel] at hx
    cases y <;> cases dy <;> (have hy0 := hy) <;> simp only [Rel] at hy <;> simp only [mulV] at h
    case blk.scalar.sc => subst hy; exact scaleV_rel hp ok hx0 h
    case blk.blk.blk b _ _ _ _ _ =>
      obtain ⟨e, he, h⟩ := bind_eq_ok h
      cases e with
      | false => cases h
      | true =>
        cases h
        obtain ⟨a1, a2, a3, a4, a5, _⟩ := hx
        refine ⟨hy.1, a2, a3, a4, ?_, fun log hlog => by cases hlog⟩
        intro D hD
        obtain ⟨Da, S, hDa, hS, hD⟩ := wf2_ok hD
        obtain ⟨wa1, wa2, _, wa4⟩ := a5 Da hDa
        obtain ⟨t1, _, t3, t4⟩ := strongK_ok ok hy hS
        obtain ⟨s1, s2, s3, s4⟩ := dMul_ok hD wa1 t1
        exact ⟨s1, by rw [s2, wa2], by rw [s3, t3], by rw [s4, wa4, t4, t3]⟩
    case blk.gfl.fns l _ =>
      unfold blkApply at h
      split at h
      · rename_i hlen
        obtain ⟨u, hcs, h⟩ := bind_eq_ok h
        obtain ⟨w, hw, h⟩ := bind_eq_ok h
        obtain ⟨x, hx', h⟩ := bind_eq_ok h
        cases h
        obtain ⟨k1, k2, k3, k4, k5, _⟩ := hx
        obtain ⟨w1, w2, w3, w4⟩ := k5 w hw
        have hf := coeffs_flat hp ok hlen hcs hy hx'
        simp only [Rel, mulD]
        rw [k2, k3, matvec_eq hp w1 _ _ (by rw [hf.1, w3, k1]), w4, hf.2]
        apply gfsFromProjections_rel hp ok
        rw [mulVec_length, ← w4, (toDense_shape w1).1, w2]
      · cases h
    all_goals first
      | (cases h; done)
      | (split at h <;> cases h)
  · exact mulV_rel_nonblk hp ok hx hy h (fun k hk => hb ⟨k, hk⟩)

theorem weakV_rel {p : Pool R} {x r : Obj R} {dx : Den R} (hx : Rel p x dx) (h : weakV x = .ok r) :
    Rel p r (weakD p dx) := by
  cases x <;> cases dx <;> simp only [Rel] at hx <;> simp only [weakV] at h
  case bop.op =>
    obtain ⟨D, hD, rfl⟩ := map_eq_ok h
    obtain ⟨_, _, _, h4⟩ := hx
    exact h4 D hD
  case blk.blk =>
    obtain ⟨D, hD, rfl⟩ := map_eq_ok h
    obtain ⟨_, _, _, _, h5, _⟩ := hx
    exact h5 D hD
  all_goals cases h

theorem strongV_rel {p : Pool R} (ok : PoolOk p) {x r : Obj R} {dx : Den R} (hx : Rel p x dx)
    (h : strongV p x = .ok r) : Rel p r (strongD p dx) := by
  cases x <;> cases dx <;> simp only [Rel] at hx <;> simp only [strongV] at h
  case bop.op =>
    obtain ⟨D, hD, rfl⟩ := map_eq_ok h
    exact strongB_ok ok hx hD
  case blk.blk =>
    obtain ⟨D, hD, rfl⟩ := map_eq_ok h
    exact strongK_ok ok hx hD
  all_goals cases h

theorem transposeV_rel {p : Pool R} {x r : Obj R} {dx : Den R} (hx : Rel p x dx) (h : transposeV x = .ok r) :
    Rel p r (transposeD dx) := by
  cases x <;> cases dx <;> simp only [Rel] at hx <;> simp only [transposeV] at h
  case dop.dmat =>
    obtain ⟨D, hD, rfl⟩ := map_eq_ok h
    obtain ⟨s1, s2, s3, s4⟩ := dTranspose_ok hD hx.1
    exact ⟨s1, by rw [s2, hx.2.2.1], by rw [s3, hx.2.1], by rw [s4, hx.2.2.2, hx.2.2.1]⟩
  case scalar.sc =>
    split at h
    · cases h; exact hx
    · cases h
  all_goals cases h

theorem adjointV_rel {p : Pool R} {x r : Obj R} {dx : Den R} (hx : Rel p x dx) (h : adjointV x = .ok r) :
    Rel p r (adjointD dx) := by
  cases x <;> cases dx <;> simp only [Rel] at hx <;> simp only [adjointV] at h
  case dop.dmat =>
    obtain ⟨D, hD, rfl⟩ := map_eq_ok h
    obtain ⟨s1, s2, s3, s4⟩ := dAdjoint_ok hD hx.1
    exact ⟨s1, by rw [s2, hx.2.2.1], by rw [s3, hx.2.1], by rw [s4, hx.2.2.2, hx.2.2.1]⟩
  all_goals cases h

theorem lconsV_rel {p : Pool R} {x y r : Obj R} {dx dy : Den R} (hx : Rel p x dx) (hy : Rel p y dy)
    (h : lconsV x y = .ok r) : Rel p r (lconsD dx dy) := by
  cases x <;> cases dx <;> simp only [Rel] at hx <;> cases y <;> cases dy <;> simp only [Rel] at hy <;>
    simp only [lconsV] at h
  case gf.fn.gfl.fns => cases h; exact .cons hx hy
  all_goals cases h

/-! ### item assignment -/

theorem getD_set_self {l : List (Option Nat)} {i : Nat} (u : Nat) (hi : i < l.length) :
    (l.set i (some u)).getD i none = some u := by
  simp [List.getD_eq_getElem?_getD, List.getElem?_set, hi]

theorem getD_set_compat {l : List (Option Nat)} {i : Nat} {u : Nat} (hi : i < l.length)
    (hc : (l.getD i none).all (· == u) = true) (k u' : Nat) (h : l.getD k none = some u') :
    (l.set i (some u)).getD k none = some u' := by
  by_cases hik : i = k
  · subst hik
    rw [getD_set_self u hi]
    rw [h] at hc
    have : u' = u := by simpa using hc
    rw [this]
  · simpa [List.getD_eq_getElem?_getD, List.getElem?_set, hik] using h

theorem relLog_set {p : Pool R} {doms duals : List (Option Nat)} {log : List (Nat × Nat × BlockF R)}
    {blocks : List (Nat × Nat × Mat R)} (h : RelLog p doms duals log blocks) {i j d u : Nat}
    (hi : i < duals.length) (hj : j < doms.length)
    (hcu : (duals.getD i none).all (· == u) = true) (hcd : (doms.getD j none).all (· == d) = true) :
    RelLog p (doms.set j (some d)) (duals.set i (some u)) log blocks := by
  unfold RelLog at h ⊢
  induction h with
  | nil => exact .nil
  | cons he _ ih =>
    refine .cons ?_ ih
    obtain ⟨h1, h2, u', d', hu', hd', hb⟩ := he
    exact ⟨h1, h2, u', d', getD_set_compat hi hcu _ _ hu', getD_set_compat hj hcd _ _ hd', hb⟩

theorem allSome_replicate_none {n : Nat} (hn : 0 < n) : allSome (List.replicate n (none : Option Nat)) = false := by
  cases n with
  | zero => omega
  | succ n => simp [List.replicate_succ, allSome]

theorem blkSet_nonbop_false {kb : BlkV R} {i j : Nat} {r : Obj R}
    (h : (match kb.log with
      | none => Except.error Err.type
      | some _ =>
        if i < kb.rans.length then
          if (kb.rans.getD i none).isSome = true then Except.error Err.attr
          else if j < kb.doms.length then Except.error Err.attr else Except.error Err.index
        else Except.error Err.index) = Except.ok r) : False := by
  cases hl : kb.log with
  | none => rw [hl] at h; cases h
  | some log =>
    rw [hl] at h
    simp only at h
    split at h
    · split at h
      · cases h
      · split at h <;> cases h
    · cases h

theorem blkSetV_rel {p : Pool R} {k o r : Obj R} {i j : Nat} {dk dob : Den R} (hk : Rel p k dk) (ho : Rel p o dob)
    (h : blkSetV p k i j o = .ok r) : Rel p r (blkSetD p i j dk dob) := by
  cases k <;> cases dk <;> simp only [Rel] at hk <;> cases o <;> cases dob <;> simp only [Rel] at ho <;>
    simp only [blkSetV] at h
  case blk.blk.bop.op kb doms rans duals blocks W b d ran u Wb =>
    obtain ⟨k1, k2, k3, k4, _, k6⟩ := hk
    obtain ⟨b1, b2, b3, b4⟩ := ho
    cases hl : kb.log with
    | none => rw [hl] at h; cases h
    | some log =>
      rw [hl] at h
      simp only at h
      split at h
      · rename_i hi
        split at h
        · rename_i hc1
          split at h
          · rename_i hj
            split at h
            · rename_i hc2
              cases h
              simp only [Bool.and_eq_true] at hc1
              rw [k1] at hj hc2
              rw [k2] at hi hc1
              rw [k3] at hc1
              rw [b1] at hc2
              rw [b2, b3] at hc1
              have hlog := k6 log hl
              have hi' : i < duals.length := by rw [← k4]; exact hi
              have hlog' := relLog_set hlog hi' hj hc1.2 hc2
              have hnew : RelLog p (doms.set j (some d)) (duals.set i (some u)) ((i, j, blockOf b) :: log)
                  ((i, j, Wb) :: blocks) := by
                refine List.Forall₂.cons ⟨rfl, rfl, u, d, getD_set_self u hi', getD_set_self d hj, ?_⟩ hlog'
                intro c M hcm
                simp only [blockOf] at hcm
                obtain ⟨D, hD, hcm⟩ := map_eq_ok hcm
                cases hcm
                obtain ⟨w1, w2, w3, w4⟩ := b4 D hD
                refine ⟨w4, ?_⟩
                rw [← w2, ← w3]
                exact toDense_shape w1
              simp only [Rel, blkSetD]
              rw [k1, k2, k3, b1, b2, b3]
              refine ⟨rfl, rfl, rfl, by simp [k4], ?_, ?_⟩
              · intro D hD
                exact assemble_rel hnew hD
              · intro log' hlog'
                cases hlog'
                exact hnew
            · cases h
          · cases h
        · cases h
      · cases h
  all_goals first
    | (cases h; done)
    | exact (blkSet_nonbop_false h).elim

end BemppVerif.Lemmas.AlgSound
