/- Helper lemmas for C17: the pieces of the FMM pipeline as filtered sums. -/
import BemppVerif.Lemmas.FmmSum

namespace BemppVerif.Lemmas.FmmPipeline
open BemppVerif.Model.Fmm BemppVerif.Lemmas.FmmSum

variable {R : Type} [CommRing R]

theorem sumOver_ite_const' {α : Type} (l : List α) (c : Prop) [Decidable c] (f : α → R) :
    sumOver l (fun a => if c then 0 else f a) = if c then 0 else sumOver l f := by
  by_cases h : c <;> simp [h, sumOver_zero]

/-- value of the source map at the point `npts*σ+q`: only the element σ contributes, and only if it is
in the support -/
theorem spaceToPoints_at (S : Space R) (npts : Nat) (w : Nat → R) (x : Nat → R) (hs : S.support.Nodup)
    (σ q : Nat) (hq : q < npts) :
    spaceToPoints S npts w x (npts * σ + q)
      = if σ ∈ S.support then
          sumOver (List.range S.nshape) fun i => S.basis σ i q * w q * S.ie σ * (S.mult σ i * x (S.l2g σ i))
        else 0 := by
  unfold spaceToPoints
  have h1 : ∀ e ∈ S.support,
      (sumOver (List.range S.nshape) fun i => sumOver (List.range npts) fun q' =>
        if npts * e + q' = npts * σ + q then S.basis e i q' * w q' * S.ie e * (S.mult e i * x (S.l2g e i)) else 0)
      = if e = σ then
          (fun e => sumOver (List.range S.nshape) fun i =>
            S.basis e i q * w q * S.ie e * (S.mult e i * x (S.l2g e i))) e
        else 0 := by
    intro e _
    rw [← sumOver_ite_const]
    apply sumOver_congr
    intro i _
    have h2 : ∀ q' ∈ List.range npts,
        (if npts * e + q' = npts * σ + q then S.basis e i q' * w q' * S.ie e * (S.mult e i * x (S.l2g e i)) else 0)
        = if q' = q then
            (fun q' => if e = σ then S.basis e i q' * w q' * S.ie e * (S.mult e i * x (S.l2g e i)) else 0) q'
          else 0 := by
      intro q' hq'
      have hq'' : q' < npts := List.mem_range.mp hq'
      by_cases hc : npts * e + q' = npts * σ + q
      · have := (idx_inj hq'' hq).mp hc
        simp [this.1, this.2]
      · by_cases h3 : q' = q
        · have h4 : ¬ e = σ := fun h => hc ((idx_inj hq'' hq).mpr ⟨h, h3⟩)
          rw [if_neg hc, if_pos h3]
          simp only [if_neg h4]
        · rw [if_neg hc, if_neg h3]
    rw [sumOver_congr _ _ _ h2, sumOver_range_delta, if_pos hq]
  rw [sumOver_congr _ _ _ h1, sumOver_delta _ hs]

/-- evaluator minus near-field correction = sum over the source elements that are NOT neighbours -/
theorem corrected_eq (K : Nat → Nat → R) (npts nS : Nat) (nbrs : Nat → List Nat) (v : Nat → R) (τ p : Nat)
    (hp : p < npts) (hnd : (nbrs τ).Nodup) (hb : ∀ σ ∈ nbrs τ, σ < nS) :
    corrected K npts nS nbrs v (npts * τ + p)
      = sumOver (List.range nS) fun σ =>
          if σ ∈ nbrs τ then 0
          else sumOver (List.range npts) fun q => K (npts * τ + p) (npts * σ + q) * v (npts * σ + q) := by
  unfold corrected evalAll nearField
  rw [idx_div hp, sumOver_range_mul, sumOver_eq_range_ite (nbrs τ) nS hnd hb, ← sumOver_sub]
  apply sumOver_congr
  intro σ _
  by_cases h : σ ∈ nbrs τ <;> simp [h]

/-- `Σ_p a_p · Σ_q k_pq · Σ_i b_iq` as a triple sum with `i` outermost -/
theorem triple_sum (lp lq li : List Nat) (a : Nat → R) (k : Nat → Nat → R) (b : Nat → Nat → R) :
    (sumOver lp fun p => a p * sumOver lq fun q => k p q * sumOver li fun i => b i q)
      = sumOver li fun i => sumOver lp fun p => sumOver lq fun q => a p * (k p q * b i q) := by
  have h1 : ∀ p ∈ lp, (a p * sumOver lq fun q => k p q * sumOver li fun i => b i q)
      = sumOver li fun i => sumOver lq fun q => a p * (k p q * b i q) := by
    intro p _
    rw [mul_sumOver, ← sumOver_comm]
    apply sumOver_congr
    intro q _
    rw [mul_sumOver, mul_sumOver]
  rw [sumOver_congr _ _ _ h1, sumOver_comm]

end BemppVerif.Lemmas.FmmPipeline
