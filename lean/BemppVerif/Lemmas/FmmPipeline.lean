/- Helper lemmas for C17: the pieces of the FMM pipeline as filtered sums. -/
import BemppVerif.Lemmas.FmmSum

namespace BemppVerif.Lemmas.FmmPipeline
open BemppVerif.Model.Fmm BemppVerif.Lemmas.FmmSum

variable {R : Type} [CommRing R]

theorem sumOver_ite_const' {α : Type} (l : List α) (c : Prop) [Decidable c] (f : α → R) :
    sumOver l (fun a => if c then 0 else f a) = if c then 0 else sumOver l f := by
  by_cases h : c <;> simp [h, sumOver_zero]

/-- value of the source map at the point `npts*σ+q`: only the element σ contributes, and only if it is
in the support -/
theorem spaceToPoints_at (S : Space R) (npts : Nat) (w : Nat → R) (x : Nat → R) (hs : S.support.Nodup)
    (σ q : Nat) (hq : q < npts) :
    spaceToPoints S npts w x (npts * σ + q)
      = if σ ∈ S.support then
          sumOver (List.range S.nshape) fun i => S.basis σ i q * w q * S.ie σ * (S.mult σ i * x (S.l2g σ i))
        else 0 := by
  unfold spaceToPoints
  have h1 : ∀ e ∈ S.support,
      (sumOver (List.range S.nshape) fun i => sumOver (List.range npts) fun q' =>
        if npts * e + q' = npts * σ + q then S.basis e i q' * w q' * S.ie e * (S.mult e i * x (S.l2g e i)) else 0)
      = if e = σ then
          (fun e => sumOver (List.range S.nshape) fun i =>
            S.basis e i q * w q * S.ie e * (S.mult e i * x (S.l2g e i))) e
        else 0 := by
    intro e _
    rw [← sumOver_ite_const]
    apply sumOver_congr
    intro i _
    have h2 : ∀ q' ∈ List.range npts,
        (if npts * e + q' = npts * σ + q then S.basis e i q' * w q' * S.ie e * (S.mult e i * x (S.l2g e i)) else 0)
        = if q' = q then
            (fun q' => if e = σ then S.basis e i q' * w q' * S.ie e * (S.mult e i * x (S.l2g e i)) else 0) q'
          else 0 := by
      intro q' hq'
      have hq'' : q' < npts := List.mem_range.mp hq'
      by_cases hc : npts * e + q' = npts * σ + q
      · have := (idx_inj hq'' hq).mp hc
        simp [this.1, this.2]
      · by_cases h3 : q' = q
        · have h4 : ¬ e = σ := fun h => hc ((idx_inj hq'' hq).mpr ⟨h, h3⟩)
          rw [if_neg hc, if_pos h3]
          simp only [if_neg h4]
        · rw [if_neg hc, if_neg h3]
    rw [sumOver_congr _ _ _ h2, sumOver_range_delta, if_pos hq]
  rw [sumOver_congr _ _ _ h1, sumOver_delta _ hs]

/-- evaluator minus near-field correction = sum over the source elements that are NOT neighbours -/
theorem corrected_eq (K : Nat → Nat → R) (npts nS : Nat) (nbrs : Nat → List Nat) (v : Nat → R) (τ p : Nat)
    (hp : p < npts) (hnd : (nbrs τ).Nodup) (hb : ∀ σ ∈ nbrs τ, σ < nS) :
    corrected K npts nS nbrs v (npts * τ + p)
      = sumOver (List.range nS) fun σ =>
          if σ ∈ nbrs τ then 0
          else sumOver (List.range npts) fun q => K (npts * τ + p) (npts * σ + q) * v (npts * σ + q) := by
  unfold corrected evalAll nearField
  rw [idx_div hp, sumOver_range_mul, sumOver_eq_range_ite (nbrs τ) nS hnd hb, ← sumOver_sub]
  apply sumOver_congr
  intro σ _
  by_cases h : σ ∈ nbrs τ <;> simp [h]

/-- `Σ_p a_p · Σ_q k_pq · Σ_i b_iq` as a triple sum with `i` outermost -/
theorem triple_sum (lp lq li : List Nat) (a : Nat → R) (k : Nat → Nat → R) (b : Nat → Nat → R) :
    (sumOver lp fun p => a p * sumOver lq fun q => k p q * sumOver li fun i => b i q)
      = sumOver li fun i => sumOver lp fun p => sumOver lq fun q => a p * (k p q * b i q) := by
  have h1 : ∀ p ∈ lp, (a p * sumOver lq fun q => k p q * sumOver li fun i => b i q)
      = sumOver li fun i => sumOver lq fun q => a p * (k p q * b i q) := by
    intro p _
    rw [mul_sumOver, ← sumOver_comm]
    apply sumOver_congr
    intro q _
    rw [mul_sumOver, mul_sumOver]
  rw [sumOver_congr _ _ _ h1, sumOver_comm]

/-! ### point maps -/

theorem flatMap_congr' {α β : Type} (l : List α) (f g : α → List β) (h : ∀ a ∈ l, f a = g a) :
    l.flatMap f = l.flatMap g := by
  induction l with
  | nil => rfl
  | cons a l ih =>
    rw [List.flatMap_cons, List.flatMap_cons, h a (List.mem_cons_self ..),
      ih (fun b hb => h b (List.mem_cons_of_mem _ hb))]

/-- on `range n` every element stands at its own position -/
theorem zipIdx_range_eq (n : Nat) : ∀ p ∈ (List.range n).zipIdx, p.1 = p.2 := by
  intro p hp
  have h := List.mem_zipIdx (x := p.1) (i := p.2) hp
  have hlt : p.2 < (List.range n).length := by omega
  have h3 := h.2.2
  simp only [Nat.sub_zero] at h3
  rw [h3, List.getElem_range]

/-- the slice assignments of `map_space_to_points_impl` succeed iff every block is inside the arrays -/
theorem pointMapImpl_ok (byPos : Bool) (S : Space R) (npts : Nat) (w : Nat → R)
    (h : ∀ p ∈ S.support.zipIdx, slot byPos p.2 p.1 < S.support.length) :
    pointMapImpl byPos S npts w = some (S.support.zipIdx.flatMap fun p => elemTriplets S npts w p.2 p.1) := by
  unfold pointMapImpl
  have : (S.support.zipIdx.all fun p => decide (slot byPos p.2 p.1 < S.support.length)) = true := by
    rw [List.all_eq_true]
    intro p hp
    exact decide_eq_true (h p hp)
  simp only [this, if_true]

/-- `map_to_localised_space @ x` at the localised dof `nshape*pos+i` -/
theorem loc_at (S : Space R) (x : Nat → R) (e pos i : Nat) (hp : (e, pos) ∈ S.support.zipIdx)
    (hi : i < S.nshape) :
    cooApply (locEntries S) x (S.nshape * pos + i) = S.mult e i * x (S.l2g e i) := by
  unfold cooApply locEntries
  rw [sumOver_flatMap]
  have h1 : ∀ p ∈ S.support.zipIdx,
      (sumOver ((List.range S.nshape).map fun i' =>
          ({ row := S.nshape * p.2 + i', col := S.l2g p.1 i', val := S.mult p.1 i' } : Entry R))
        fun t => if t.row = S.nshape * pos + i then t.val * x t.col else 0)
      = if p.2 = pos then (fun p : Nat × Nat => S.mult p.1 i * x (S.l2g p.1 i)) p else 0 := by
    intro p _
    rw [sumOver_map]
    have h2 : ∀ i' ∈ List.range S.nshape,
        (if S.nshape * p.2 + i' = S.nshape * pos + i then S.mult p.1 i' * x (S.l2g p.1 i') else 0)
        = if i' = i then (fun i' => if p.2 = pos then S.mult p.1 i' * x (S.l2g p.1 i') else 0) i' else 0 := by
      intro i' hi'
      have hi'' : i' < S.nshape := List.mem_range.mp hi'
      by_cases hc : S.nshape * p.2 + i' = S.nshape * pos + i
      · have := (idx_inj hi'' hi).mp hc
        simp [this.1, this.2]
      · by_cases h3 : i' = i
        · have h4 : ¬ p.2 = pos := fun h => hc ((idx_inj hi'' hi).mpr ⟨h, h3⟩)
          rw [if_neg hc, if_pos h3]
          simp only [if_neg h4]
        · rw [if_neg hc, if_neg h3]
    rw [sumOver_congr _ _ _ h2, sumOver_range_delta, if_pos hi]
  rw [sumOver_congr _ _ _ h1, sumOver_zipIdx_delta S.support 0 e pos hp]

/-- `transform @ (map_to_localised_space @ x)` is the direct source map -/
theorem composed_eq (S : Space R) (npts : Nat) (w : Nat → R) (x : Nat → R) (P : Nat) :
    cooApply (S.support.zipIdx.flatMap fun p => elemTriplets S npts w p.2 p.1)
      (cooApply (locEntries S) x) P = spaceToPoints S npts w x P := by
  unfold spaceToPoints
  rw [← sumOver_zipIdx_fst S.support 0]
  unfold cooApply
  rw [sumOver_flatMap]
  apply sumOver_congr
  intro p hp
  unfold elemTriplets
  rw [sumOver_flatMap]
  apply sumOver_congr
  intro i hi
  rw [sumOver_map]
  apply sumOver_congr
  intro q _
  have := loc_at S x p.1 p.2 i hp (List.mem_range.mp hi)
  unfold cooApply at this
  simp only [this]

/-- the localised-dof value of `transformᵀ @ y` -/
theorem tripletsT_at (S : Space R) (npts : Nat) (w : Nat → R) (y : Nat → R) (e pos i : Nat)
    (hp : (e, pos) ∈ S.support.zipIdx) (hi : i < S.nshape) :
    cooApplyT (S.support.zipIdx.flatMap fun p => elemTriplets S npts w p.2 p.1) y (S.nshape * pos + i)
      = sumOver (List.range npts) fun q => S.basis e i q * w q * S.ie e * y (npts * e + q) := by
  unfold cooApplyT
  rw [sumOver_flatMap]
  have h1 : ∀ p ∈ S.support.zipIdx,
      (sumOver (elemTriplets S npts w p.2 p.1)
        fun t => if t.col = S.nshape * pos + i then t.val * y t.row else 0)
      = if p.2 = pos then
          (fun p : Nat × Nat => sumOver (List.range npts) fun q =>
            S.basis p.1 i q * w q * S.ie p.1 * y (npts * p.1 + q)) p
        else 0 := by
    intro p _
    unfold elemTriplets
    rw [sumOver_flatMap]
    have h2 : ∀ i' ∈ List.range S.nshape,
        (sumOver ((List.range npts).map fun q =>
            ({ row := npts * p.1 + q, col := S.nshape * p.2 + i',
               val := S.basis p.1 i' q * w q * S.ie p.1 } : Entry R))
          fun t => if t.col = S.nshape * pos + i then t.val * y t.row else 0)
        = if i' = i then
            (fun i' => if p.2 = pos then sumOver (List.range npts) fun q =>
              S.basis p.1 i' q * w q * S.ie p.1 * y (npts * p.1 + q) else 0) i'
          else 0 := by
      intro i' hi'
      have hi'' : i' < S.nshape := List.mem_range.mp hi'
      rw [sumOver_map]
      by_cases hc : S.nshape * p.2 + i' = S.nshape * pos + i
      · have := (idx_inj hi'' hi).mp hc
        simp [this.1, this.2]
      · by_cases h3 : i' = i
        · have h4 : ¬ p.2 = pos := fun h => hc ((idx_inj hi'' hi).mpr ⟨h, h3⟩)
          simp only [if_neg hc, if_pos h3, if_neg h4, sumOver_zero]
        · simp only [if_neg hc, if_neg h3, sumOver_zero]
    rw [sumOver_congr _ _ _ h2, sumOver_range_delta, if_pos hi]
  rw [sumOver_congr _ _ _ h1, sumOver_zipIdx_delta S.support 0 e pos hp]

/-- `map_to_localised_spaceᵀ @ (transformᵀ @ y)` is the direct target map -/
theorem composedT_eq (S : Space R) (npts : Nat) (w : Nat → R) (y : Nat → R) (r : Nat) :
    cooApplyT (locEntries S)
      (cooApplyT (S.support.zipIdx.flatMap fun p => elemTriplets S npts w p.2 p.1) y) r
      = pointsToSpace S npts w y r := by
  unfold pointsToSpace
  rw [← sumOver_zipIdx_fst S.support 0]
  unfold cooApplyT locEntries
  rw [sumOver_flatMap]
  apply sumOver_congr
  intro p hp
  rw [sumOver_map]
  apply sumOver_congr
  intro i hi
  have := tripletsT_at S npts w y p.1 p.2 i hp (List.mem_range.mp hi)
  unfold cooApplyT at this
  simp only [this]
  by_cases hc : S.l2g p.1 i = r
  · simp only [if_pos hc, mul_sumOver]
  · simp only [if_neg hc, sumOver_zero]

/-! ### linearity of the corrected evaluator in the kernel (gradient-based operators) -/

theorem evalAll_dl (g gy : Nat → Nat → Nat → R) (n : Nat → Nat → R) (N : Nat) (v : Nat → R) (T : Nat)
    (hg : ∀ k T P, gy k T P = - g k T P) :
    evalAll (fun T P => sumOver (List.range 3) fun k => n k P * gy k T P) N v T
      = - sumOver (List.range 3) fun k => evalAll (g k) N (fun P => n k P * v P) T := by
  unfold evalAll
  rw [← sumOver_neg]
  have h1 : ∀ P ∈ List.range N,
      (sumOver (List.range 3) fun k => n k P * gy k T P) * v P
        = sumOver (List.range 3) fun k => - (g k T P * (n k P * v P)) := by
    intro P _
    rw [sumOver_mul]
    apply sumOver_congr
    intro k _
    rw [hg]; ring
  rw [sumOver_congr _ _ _ h1, sumOver_comm]
  apply sumOver_congr
  intro k _
  rw [sumOver_neg]

theorem nearField_dl (g gy : Nat → Nat → Nat → R) (n : Nat → Nat → R) (npts : Nat) (nbrs : Nat → List Nat)
    (v : Nat → R) (T : Nat) (hg : ∀ k T P, gy k T P = - g k T P) :
    nearField (fun T P => sumOver (List.range 3) fun k => n k P * gy k T P) npts nbrs v T
      = - sumOver (List.range 3) fun k => nearField (g k) npts nbrs (fun P => n k P * v P) T := by
  unfold nearField
  rw [← sumOver_neg]
  have h1 : ∀ σ ∈ nbrs (T / npts),
      (sumOver (List.range npts) fun q =>
        (sumOver (List.range 3) fun k => n k (npts * σ + q) * gy k T (npts * σ + q)) * v (npts * σ + q))
      = sumOver (List.range 3) fun k => sumOver (List.range npts) fun q =>
          - (g k T (npts * σ + q) * (n k (npts * σ + q) * v (npts * σ + q))) := by
    intro σ _
    rw [sumOver_comm]
    apply sumOver_congr
    intro q _
    rw [sumOver_mul]
    apply sumOver_congr
    intro k _
    rw [hg]; ring
  rw [sumOver_congr _ _ _ h1, sumOver_comm]
  apply sumOver_congr
  intro k _
  rw [← sumOver_neg]
  apply sumOver_congr
  intro σ _
  rw [sumOver_neg]

theorem evalAll_adl (g : Nat → Nat → Nat → R) (nT : Nat → Nat → R) (N : Nat) (v : Nat → R) (T : Nat) :
    evalAll (fun T P => sumOver (List.range 3) fun k => nT k T * g k T P) N v T
      = sumOver (List.range 3) fun k => evalAll (g k) N v T * nT k T := by
  unfold evalAll
  have h1 : ∀ P ∈ List.range N,
      (sumOver (List.range 3) fun k => nT k T * g k T P) * v P
        = sumOver (List.range 3) fun k => g k T P * v P * nT k T := by
    intro P _
    rw [sumOver_mul]
    apply sumOver_congr
    intro k _
    ring
  rw [sumOver_congr _ _ _ h1, sumOver_comm]
  apply sumOver_congr
  intro k _
  rw [sumOver_mul]

theorem nearField_adl (g : Nat → Nat → Nat → R) (nT : Nat → Nat → R) (npts : Nat) (nbrs : Nat → List Nat)
    (v : Nat → R) (T : Nat) :
    nearField (fun T P => sumOver (List.range 3) fun k => nT k T * g k T P) npts nbrs v T
      = sumOver (List.range 3) fun k => nearField (g k) npts nbrs v T * nT k T := by
  unfold nearField
  have h1 : ∀ σ ∈ nbrs (T / npts),
      (sumOver (List.range npts) fun q =>
        (sumOver (List.range 3) fun k => nT k T * g k T (npts * σ + q)) * v (npts * σ + q))
      = sumOver (List.range 3) fun k => sumOver (List.range npts) fun q =>
          g k T (npts * σ + q) * v (npts * σ + q) * nT k T := by
    intro σ _
    rw [sumOver_comm]
    apply sumOver_congr
    intro q _
    rw [sumOver_mul]
    apply sumOver_congr
    intro k _
    ring
  rw [sumOver_congr _ _ _ h1, sumOver_comm]
  apply sumOver_congr
  intro k _
  rw [sumOver_mul]
  apply sumOver_congr
  intro σ _
  rw [sumOver_mul]

end BemppVerif.Lemmas.FmmPipeline
