/-
Helper lemmas for C19 (export / import round trip).  Core Lean only.
-/
import BemppVerif.Model.IOMap

namespace BemppVerif.Lemmas.IOMap
open BemppVerif.Model.IOMap

theorem toUInt32_toInt32 (n : Nat) (h : n < 4294967296) : toUInt32 (toInt32 (n : Int)) = n := by
  unfold toUInt32 toInt32
  simp only
  split <;> omega

theorem toInt32_eq_zero (n : Nat) (h : n < 4294967296) : toInt32 (n : Int) = 0 ↔ n = 0 := by
  unfold toInt32
  simp only
  split <;> omega

theorem traverse_map {α β : Type} (f : β → Option α) (g : α → β) (l : List α) (h : ∀ x ∈ l, f (g x) = some x) :
    traverse f (l.map g) = some l := by
  induction l with
  | nil => rfl
  | cons x xs ih =>
    have hx := h x (List.mem_cons_self)
    have hxs := ih (fun y hy => h y (List.mem_cons_of_mem _ hy))
    simp only [List.map_cons, traverse, hx, hxs]

theorem tripleOf_pointOf (v : Rat × Rat × Rat) : tripleOf (pointOf v) = some v := rfl

theorem tripleOf_cellOf (e : Nat × Nat × Nat) :
    tripleOf (cellOf e) = some (toInt32 (e.1 : Int), toInt32 (e.2.1 : Int), toInt32 (e.2.2 : Int)) := rfl

theorem traverse_tripleOf_cells (es : List (Nat × Nat × Nat)) :
    traverse tripleOf (es.map cellOf)
      = some (es.map fun e => (toInt32 (e.1 : Int), toInt32 (e.2.1 : Int), toInt32 (e.2.2 : Int))) := by
  induction es with
  | nil => rfl
  | cons x xs ih => simp only [List.map_cons, traverse, tripleOf_cellOf, ih]

theorem map_uint32_cells (es : List (Nat × Nat × Nat))
    (h : ∀ e ∈ es, e.1 < 4294967296 ∧ e.2.1 < 4294967296 ∧ e.2.2 < 4294967296) :
    (es.map fun e => (toInt32 (e.1 : Int), toInt32 (e.2.1 : Int), toInt32 (e.2.2 : Int))).map
        (fun e => (toUInt32 e.1, toUInt32 e.2.1, toUInt32 e.2.2)) = es := by
  induction es with
  | nil => rfl
  | cons x xs ih =>
    obtain ⟨h1, h2, h3⟩ := h x List.mem_cons_self
    simp only [List.map_cons, toUInt32_toInt32 _ h1, toUInt32_toInt32 _ h2, toUInt32_toInt32 _ h3,
      ih (fun y hy => h y (List.mem_cons_of_mem _ hy))]

theorem map_uint32_int32s (l : List Nat) (h : ∀ d ∈ l, d < 4294967296) : (int32s l).map toUInt32 = l := by
  induction l with
  | nil => rfl
  | cons x xs ih =>
    have := ih (fun y hy => h y (List.mem_cons_of_mem _ hy))
    simp only [int32s, List.map_cons, List.map_map] at this ⊢
    rw [toUInt32_toInt32 _ (h x List.mem_cons_self), this]

theorem int32s_all_zero_false (l : List Nat) (h : ∀ d ∈ l, d < 4294967296) (hnz : ∃ d ∈ l, d ≠ 0) :
    (int32s l).all (· == 0) = false := by
  obtain ⟨d, hd, hd0⟩ := hnz
  rw [List.all_eq_false]
  refine ⟨toInt32 (d : Int), ?_, ?_⟩
  · exact List.mem_map.mpr ⟨d, hd, rfl⟩
  · have := (toInt32_eq_zero d (h d hd))
    simp only [beq_iff_eq]
    intro h0
    exact hd0 (this.mp h0)

theorem int32s_all_zero_true (l : List Nat) (hz : ∀ d ∈ l, d = 0) : (int32s l).all (· == 0) = true := by
  rw [List.all_eq_true]
  intro x hx
  obtain ⟨d, hd, rfl⟩ := List.mem_map.mp hx
  rw [hz d hd]
  rfl

theorem length_int32s (l : List Nat) : (int32s l).length = l.length := by simp [int32s]

theorem length_geomIndices (so : List Nat → List Nat) (l : List Nat) : (geomIndices so l).length = l.length := by
  simp [geomIndices]

/-- for an all-zero non-empty index array every geometrical index is 1, whatever the set order -/
theorem geomIndices_all_zero (so : List Nat → List Nat) (hso : SetOrderSpec so) (l : List Nat)
    (hz : ∀ d ∈ l, d = 0) : geomIndices so l = l.map fun _ => (1 : Int) := by
  unfold geomIndices
  apply List.map_congr_left
  intro d hd
  have hd0 := hz d hd
  subst hd0
  have hmem : 0 ∈ so l := ((hso l).2 0).mpr hd
  have hp : pos 0 (so l) = 0 := by
    cases hsl : so l with
    | nil => rw [hsl] at hmem; cases hmem
    | cons x xs =>
      have hx : x ∈ l := ((hso l).2 x).mp (by rw [hsl]; exact List.mem_cons_self)
      have : x = 0 := hz x hx
      simp [pos, this]
  rw [hp]
  rfl

/-- the mesh built from a grid alone passes meshio's consistency check -/
theorem accepted_grid_only (so : List Nat → List Nat) (gmsh : Bool) (g : Grid) (fmt : Option String) (b : Bool)
    (hlen : g.domain.length = g.elements.length) :
    MeshRec.accepted
      { points := g.vertices.map pointOf, cells := [⟨"triangle", g.elements.map cellOf⟩], pointData := [],
        cellData := [] ++ tagFields so gmsh g, fileFormat := fmt, binary := b } = true := by
  cases gmsh <;>
    simp [MeshRec.accepted, tagFields, Block.len, length_int32s, length_geomIndices, hlen]

theorem map_const_eq {α β γ : Type} (c : γ) (l : List α) (l' : List β) (h : l.length = l'.length) :
    l.map (fun _ => c) = l'.map (fun _ => c) := by
  induction l generalizing l' with
  | nil => cases l' with
    | nil => rfl
    | cons _ _ => cases h
  | cons x xs ih => cases l' with
    | nil => cases h
    | cons y ys => simp only [List.map_cons, ih ys (by simpa using h)]

/-- the record `export` builds for a grid without data -/
def gridRec (so : List Nat → List Nat) (ext : String) (b : Bool) (g : Grid) : MeshRec :=
  { points := g.vertices.map pointOf, cells := [⟨"triangle", g.elements.map cellOf⟩], pointData := [],
    cellData := [] ++ tagFields so (ext == ".msh") g,
    fileFormat := if (ext == ".msh") = true then some "gmsh22" else none, binary := b }

theorem export_grid_only (so : List Nat → List Nat) (ext : String) (g : Grid) (dt : DataType) (tr : Transform)
    (b : Bool) (hlen : g.domain.length = g.elements.length) :
    «export» so ext (some g) none dt tr b = .ok (gridRec so ext b g) := by
  simp only [«export», assemble, gridRec]
  rw [if_pos (accepted_grid_only so _ g _ b hlen)]

theorem nodup_eraseDups : ∀ (n : Nat) (l : List Nat), l.length ≤ n → l.eraseDups.Nodup
  | 0, [], _ => by simp
  | _ + 1, [], _ => by simp
  | 0, _ :: _, h => by simp at h
  | n + 1, a :: as, h => by
    rw [List.eraseDups_cons, List.nodup_cons]
    constructor
    · simp [List.mem_eraseDups]
    · apply nodup_eraseDups n
      have := List.length_filter_le (fun b => !b == a) as
      simp only [List.length_cons] at h
      omega

/-- first-occurrence order (used by the driver) is an admissible set iteration order -/
theorem setOrderSpec_eraseDups : SetOrderSpec List.eraseDups :=
  fun l => ⟨nodup_eraseDups l.length l (Nat.le_refl _), fun _ => List.mem_eraseDups⟩

end BemppVerif.Lemmas.IOMap
