/-
Helper lemmas for C14 (continued): block arrays (`K[i, j] = op`), assembly of a block array, the remaining operations,
and the main induction `eval_rel`.
-/
import BemppVerif.Lemmas.AlgSound3

namespace BemppVerif.Lemmas.AlgSound
open BemppVerif.Model.Alg BemppVerif.Lemmas.AlgMat BemppVerif.Lemmas.AlgType

set_option linter.unusedSectionVars false
set_option linter.unusedSimpArgs false

variable {R : Type} [CommRing R] [CParts R]

/-! ### assembly of a block array -/

theorem logGet_rel {p : Pool R} {doms duals : List (Option Nat)} {log : List (Nat × Nat × BlockF R)}
    {blocks : List (Nat × Nat × Mat R)} (h : RelLog p doms duals log blocks) (i j : Nat) :
    (logGet log i j = none ∧ logGet blocks i j = none) ∨
    (∃ f M u d, logGet log i j = some f ∧ logGet blocks i j = some M ∧ duals.getD i none = some u ∧
      doms.getD j none = some d ∧ ∀ c M', f = .ok (c, M') → M' = M ∧ IsMat (p.ndof u) (p.ndof d) M') := by
  unfold RelLog at h
  induction h with
  | nil => exact Or.inl ⟨rfl, rfl⟩
  | @cons e f log blocks he _ ih =>
    obtain ⟨i1, j1, b1⟩ := e
    obtain ⟨i2, j2, M2⟩ := f
    obtain ⟨h1, h2, u, d, hu, hd, hb⟩ := he
    simp only at h1 h2 hu hd hb
    subst h1 h2
    simp only [logGet]
    split
    · rename_i hij
      obtain ⟨rfl, rfl⟩ := hij
      exact Or.inr ⟨b1, M2, u, d, rfl, rfl, hu, hd, hb⟩
    · exact ih

theorem forceRow_rel {p : Pool R} {doms duals : List (Option Nat)} {log : List (Nat × Nat × BlockF R)}
    {blocks : List (Nat × Nat × Mat R)} (h : RelLog p doms duals log blocks) (i r : Nat)
    (hr : ∀ u, duals.getD i none = some u → r = p.ndof u) :
    ∀ (cd : List Nat) (j : Nat),
      (∀ k d0, cd[k]? = some d0 → ∀ d', doms.getD (j + k) none = some d' → d0 = p.ndof d') →
      ∀ row, forceRow log i r j cd = .ok row →
        row.map (·.2) = (rowD blocks i r j cd).map (·.2) ∧ List.Forall₂ (fun b d => IsMat r d b.2) row cd := by
  intro cd
  induction cd with
  | nil =>
    intro j _ row hrow
    simp only [forceRow] at hrow
    cases hrow
    exact ⟨rfl, .nil⟩
  | cons d0 cd ih =>
    intro j hcd row hrow
    have ihj := ih (j + 1) (fun k d1 hk d' hd' => hcd (k + 1) d1 (by simpa using hk) d'
      (by rw [show j + (k + 1) = j + 1 + k by omega]; exact hd'))
    simp only [rowD, List.map_cons]
    rcases logGet_rel h i j with ⟨h1, h2⟩ | ⟨f, M, u, d, h1, h2, hu, hd, hf⟩
    · simp only [forceRow, h1, pure_eq, bind_ok] at hrow
      obtain ⟨rest, hrest, hrow⟩ := bind_eq_ok hrow
      cases hrow
      have ihr := ihj rest hrest
      rw [h2]
      exact ⟨by simp [ihr.1], .cons (isMat_zero r d0) ihr.2⟩
    · simp only [forceRow, h1] at hrow
      obtain ⟨b, hb, hrow⟩ := bind_eq_ok hrow
      obtain ⟨rest, hrest, hrow⟩ := bind_eq_ok hrow
      cases hrow
      have ihr := ihj rest hrest
      obtain ⟨c, M'⟩ := b
      obtain ⟨e1, e2⟩ := hf c M' hb
      rw [h2]
      have hd0 : d0 = p.ndof d := hcd 0 d0 (by simp) d (by simpa using hd)
      refine ⟨by simp [ihr.1, e1], .cons ?_ ihr.2⟩
      rw [hr u hu, hd0]
      exact e2

theorem forceRows_rel {p : Pool R} {doms duals : List (Option Nat)} {log : List (Nat × Nat × BlockF R)}
    {blocks : List (Nat × Nat × Mat R)} (h : RelLog p doms duals log blocks) (cd : List Nat)
    (hcd : ∀ k d0, cd[k]? = some d0 → ∀ d', doms.getD k none = some d' → d0 = p.ndof d') :
    ∀ (rd : List Nat) (i : Nat),
      (∀ k r0, rd[k]? = some r0 → ∀ u, duals.getD (i + k) none = some u → r0 = p.ndof u) →
      ∀ rows, forceRows log cd i rd = .ok rows →
        rows.map (·.map (·.2)) = (rowsD blocks cd i rd).map (·.map (·.2)) ∧ BlocksOk rd cd rows := by
  intro rd
  induction rd with
  | nil =>
    intro i _ rows hrows
    simp only [forceRows] at hrows
    cases hrows
    exact ⟨rfl, .nil⟩
  | cons r0 rd ih =>
    intro i hrd rows hrows
    simp only [forceRows] at hrows
    obtain ⟨row, hrow, hrows⟩ := bind_eq_ok hrows
    obtain ⟨rest, hrest, hrows⟩ := bind_eq_ok hrows
    cases hrows
    have ihr := ih (i + 1) (fun k r1 hk u hu => hrd (k + 1) r1 (by simpa using hk) u
      (by rw [show i + (k + 1) = i + 1 + k by omega]; exact hu)) rest hrest
    have hr := forceRow_rel h i r0 (fun u hu => hrd 0 r0 (by simp) u (by simpa using hu)) cd 0
      (fun k d0 hk d' hd' => hcd k d0 hk d' (by simpa using hd')) row hrow
    simp only [rowsD, List.map_cons]
    exact ⟨by rw [hr.1, ihr.1], .cons hr.2 ihr.2⟩

theorem blockedDense_congr {rows rows' : List (List (Bool × Mat R))}
    (h : rows.map (·.map (·.2)) = rows'.map (·.map (·.2))) (rd : List Nat) :
    blockedDense rows rd = blockedDense rows' rd := by
  induction rows generalizing rows' rd with
  | nil =>
    cases rows' with
    | nil => rfl
    | cons _ _ => simp at h
  | cons row rows ih =>
    cases rows' with
    | nil => simp at h
    | cons row' rows' =>
      simp only [List.map_cons, List.cons.injEq] at h
      cases rd with
      | nil => rfl
      | cons r rd =>
        simp only [blockedDense]
        rw [h.1, ih h.2]

theorem dimsOf_get {p : Pool R} {l : List (Option Nat)} {k d0 d' : Nat} (hk : (dimsOf p l)[k]? = some d0)
    (hd : l.getD k none = some d') : d0 = p.ndof d' := by
  simp only [dimsOf, List.getElem?_map] at hk
  simp only [List.getD_eq_getElem?_getD] at hd
  cases hl : l[k]? with
  | none => rw [hl] at hk; simp at hk
  | some s =>
    rw [hl] at hk hd
    simp only [Option.map_some, Option.some.injEq, Option.getD_some] at hk hd
    rw [← hk, hd]
    rfl

/-- assembling a block array gives the block matrix of the denotations of its entries -/
theorem assemble_rel {p : Pool R} {doms duals : List (Option Nat)} {log : List (Nat × Nat × BlockF R)}
    {blocks : List (Nat × Nat × Mat R)} (h : RelLog p doms duals log blocks) {D : DOp R}
    (hD : assembleBlk p doms duals log = .ok D) :
    WFD D ∧ D.rows = (dimsOf p duals).sum ∧ D.cols = (dimsOf p doms).sum ∧
      D.toDense = assembleD p doms duals blocks := by
  unfold assembleBlk at hD
  split at hD
  · obtain ⟨rows, hrows, hD⟩ := bind_eq_ok hD
    cases hD
    have := forceRows_rel h (dimsOf p doms) (fun k d0 hk d' hd' => dimsOf_get hk hd') (dimsOf p duals) 0
      (fun k r0 hk u hu => dimsOf_get hk (by simpa using hu)) rows hrows
    exact ⟨this.2, rfl, rfl, by simp only [DOp.toDense, assembleD]; exact blockedDense_congr this.1 _⟩
  · cases hD

end BemppVerif.Lemmas.AlgSound
