/- Consequences of the RWG loop invariant: which edges carry dofs, the final support, the second loop (core Lean only). -/
import BemppVerif.Lemmas.SpaceRwg

namespace BemppVerif.Lemmas.Space
open BemppVerif.Model BemppVerif.Model.Space

section
variable (T : Tables) (sup : Nat → Bool) (incl trunc : Bool)

/-! ### after the first loop -/

/-- an edge carries a dof iff it is selected by the options -/
theorem rwg_ed_iff (ht : EdgeTables T) (x : Nat) :
    (rwgFirstLoop T sup incl trunc).ed x ≠ none ↔ DofEdge T sup incl x := by
  have hinv := firstLoop_inv T sup incl trunc ht
  constructor
  · intro h
    cases hs : (rwgFirstLoop T sup incl trunc).ed x with
    | none => exact absurd hs h
    | some d => exact (hinv.c x d hs).1
  · intro hd
    have hpos : 0 < (N0 T sup x).length := by
      rcases hd with h | ⟨_, h⟩ <;> omega
    obtain ⟨c, hc⟩ := List.exists_mem_of_length_pos hpos
    unfold N0 at hc
    rw [List.mem_filter] at hc
    obtain ⟨hclt, j, hj, hjx⟩ := ht.sound x c hc.1
    have := hinv.d c ((mem_supportList T.ne sup c).2 ⟨hclt, hc.2⟩) ⟨hclt, hc.2⟩ j hj (hjx ▸ hd)
    rw [hjx] at this
    exact this

/-- the final support: elements with a selected edge that are in the original support or (boundary dofs included,
no truncation) anywhere -/
theorem rwg_sup_iff (ht : EdgeTables T) {c : Nat} (hc : c < T.ne) :
    (rwgFirstLoop T sup incl trunc).sup c = true ↔
      (∃ i, i < 3 ∧ DofEdge T sup incl (T.elementEdges c i)) ∧ (sup c = true ∨ (incl = true ∧ trunc = false)) := by
  have hinv := firstLoop_inv T sup incl trunc ht
  constructor
  · intro h
    rcases hinv.a c hc h with h0 | ⟨hi, htr, x, hx, hed⟩
    · exact ⟨(hinv.f c ((mem_supportList T.ne sup c).2 h0) h0).1 h, Or.inl h0.2⟩
    · obtain ⟨_, j, hj, hjx⟩ := ht.sound x c hx
      exact ⟨⟨j, hj, hjx ▸ (rwg_ed_iff T sup incl trunc ht x).1 hed⟩, Or.inr ⟨hi, htr⟩⟩
  · rintro ⟨⟨i, hi, hd⟩, hor⟩
    rcases hor with hs | ⟨hincl, htr⟩
    · exact (hinv.f c ((mem_supportList T.ne sup c).2 ⟨hc, hs⟩) ⟨hc, hs⟩).2 ⟨i, hi, hd⟩
    · exact hinv.g hincl htr _ ((rwg_ed_iff T sup incl trunc ht _).2 hd) c (ht.complete c i hc hi)

/-- Boolean form of `DofEdge` -/
def dofEdgeB (x : Nat) : Bool :=
  decide ((N0 T sup x).length = 2) || (incl && decide ((N0 T sup x).length = 1))

theorem dofEdgeB_iff (x : Nat) : dofEdgeB T sup incl x = true ↔ DofEdge T sup incl x := by
  simp [dofEdgeB, DofEdge]

/-- `dof_count` is the number of selected edges -/
theorem rwg_cnt (ht : EdgeTables T) :
    (rwgFirstLoop T sup incl trunc).cnt = ((List.range T.nedges).filter (dofEdgeB T sup incl)).length := by
  have hinv := firstLoop_inv T sup incl trunc ht
  rw [← hinv.c3]
  congr 1
  apply List.filter_congr
  intro x _
  rw [Bool.eq_iff_iff, dofEdgeB_iff, ← rwg_ed_iff T sup incl trunc ht x, Option.isSome_iff_ne_none]

/-! ### the second loop -/

theorem foldl_min_le (l : List Nat) (a : Nat) : l.foldl min a ≤ a ∧ (∀ c, c ∈ l → l.foldl min a ≤ c) ∧
    (l.foldl min a = a ∨ l.foldl min a ∈ l) := by
  induction l generalizing a with
  | nil => simp
  | cons b l ih =>
    simp only [List.foldl_cons, List.mem_cons]
    obtain ⟨h1, h2, h3⟩ := ih (min a b)
    refine ⟨by omega, ?_, ?_⟩
    · rintro c (rfl | hc)
      · omega
      · exact h2 c hc
    · rcases h3 with h | h
      · by_cases hab : a ≤ b
        · left
          rw [h]
          omega
        · right; left
          rw [h]
          omega
      · right; right
        exact h

theorem listMin_eq_some_iff {l : List Nat} {e : Nat} (he : e ∈ l) : listMin l = some e ↔ ∀ c, c ∈ l → e ≤ c := by
  cases l with
  | nil => cases he
  | cons a l =>
    unfold listMin
    obtain ⟨h1, h2, h3⟩ := foldl_min_le l a
    simp only [Option.some.injEq]
    constructor
    · intro h c hc
      rw [← h]
      rcases List.mem_cons.1 hc with rfl | hc
      · exact h1
      · exact h2 c hc
    · intro h
      have hle : l.foldl min a ≤ e := by
        rcases List.mem_cons.1 he with rfl | he'
        · exact h1
        · exact h2 e he'
      have hge : e ≤ l.foldl min a := by
        rcases h3 with h3 | h3
        · rw [h3]
          exact h a (by simp)
        · exact h _ (by simp [h3])
      omega

theorem rwgMult_none {st : RwgState} {e i : Nat} (h : st.ed (T.elementEdges e i) = none) : rwgMult T st e i = 0 := by
  unfold rwgMult
  rw [h]

theorem rwgMult_some {st : RwgState} {e i d : Nat} (h : st.ed (T.elementEdges e i) = some d) :
    rwgMult T st e i = 1 ∨ rwgMult T st e i = -1 := by
  unfold rwgMult
  rw [h]
  simp only
  split
  · exact Or.inl rfl
  · split
    · exact Or.inl rfl
    · exact Or.inr rfl

theorem rwgMult_ne_zero_iff (st : RwgState) (e i : Nat) :
    rwgMult T st e i ≠ 0 ↔ st.ed (T.elementEdges e i) ≠ none := by
  cases h : st.ed (T.elementEdges e i) with
  | none => simp [rwgMult_none T h]
  | some d =>
    rcases rwgMult_some T h with h1 | h1 <;> simp [h1]

/-- entry `i` of `local2global_map[e]` as the second loop computes it -/
def rwgEntry (st : RwgState) (e i : Nat) : Nat :=
  wrapU32 (if rwgMult T st e i == 0 then
    st.ed (T.elementEdges e ((loc3.find? fun i => rwgMult T st e i != 0).getD 0)) else st.ed (T.elementEdges e i))

theorem rwgRow_fst (st : RwgState) (e : Nat) : (rwgRow T st e).1 = loc3.map (rwgEntry T st e) := rfl

theorem rwgRow_snd (st : RwgState) (e : Nat) : (rwgRow T st e).2 = loc3.map (rwgMult T st e) := rfl

theorem rwgEntry_of_some {st : RwgState} {e i d : Nat} (h : st.ed (T.elementEdges e i) = some d) :
    rwgEntry T st e i = d := by
  unfold rwgEntry
  have : rwgMult T st e i ≠ 0 := (rwgMult_ne_zero_iff T st e i).2 (by rw [h]; simp)
  have hb : (rwgMult T st e i == 0) = false := by simpa using this
  rw [hb]
  simp [h, wrapU32]

/-- a zero-multiplier entry repeats the entry of the first local index with a dof -/
theorem rwgEntry_of_none {st : RwgState} {e i : Nat} (h : st.ed (T.elementEdges e i) = none)
    (hex : ∃ j, j < 3 ∧ st.ed (T.elementEdges e j) ≠ none) :
    ∃ j, j < 3 ∧ st.ed (T.elementEdges e j) ≠ none ∧ rwgEntry T st e i = rwgEntry T st e j := by
  obtain ⟨j0, hj0, hne0⟩ := hex
  have hfind : (loc3.find? fun i => rwgMult T st e i != 0).isSome = true := by
    rw [List.find?_isSome]
    exact ⟨j0, (mem_loc3 j0).2 hj0, by simpa using (rwgMult_ne_zero_iff T st e j0).2 hne0⟩
  obtain ⟨j, hj⟩ := Option.isSome_iff_exists.1 hfind
  have hjm := List.find?_some hj
  have hj3 := (mem_loc3 j).1 (List.mem_of_find?_eq_some hj)
  have hjne : st.ed (T.elementEdges e j) ≠ none := (rwgMult_ne_zero_iff T st e j).1 (by simpa using hjm)
  refine ⟨j, hj3, hjne, ?_⟩
  cases hs : st.ed (T.elementEdges e j) with
  | none => exact absurd hs hjne
  | some d =>
    rw [rwgEntry_of_some T hs]
    unfold rwgEntry
    rw [rwgMult_none T h, hj]
    simp [hs, wrapU32]

/-! ### the arrays of the final RWG space -/

theorem rwg_space : (rwg T sup incl trunc).space =
    mkSpace T.ne (rwgFirstLoop T sup incl trunc).sup
      (fun e => if (rwgFirstLoop T sup incl trunc).sup e then (rwgRow T (rwgFirstLoop T sup incl trunc) e).1 else [0, 0, 0])
      (fun e => if (rwgFirstLoop T sup incl trunc).sup e then (rwgRow T (rwgFirstLoop T sup incl trunc) e).2 else [0, 0, 0]) :=
  rfl

theorem rwg_count : (rwg T sup incl trunc).count = (rwgFirstLoop T sup incl trunc).cnt := rfl

theorem rwg_nelems : (rwg T sup incl trunc).space.nelems = T.ne := rfl

theorem rwg_sup_eq {e : Nat} (he : e < T.ne) :
    (rwg T sup incl trunc).space.sup e = (rwgFirstLoop T sup incl trunc).sup e := by
  rw [rwg_space, mkSpace_sup _ _ _ _ he]

theorem zeros_getD (i : Nat) : ([0, 0, 0] : List Int).getD i 0 = 0 := by
  match i with
  | 0 => rfl
  | 1 => rfl
  | 2 => rfl
  | (k + 3) => rfl

/-- `(e, i)` is listed in `global2local[d]` iff `e` is in the final support and its edge `i` carries dof `d` -/
theorem rwg_mem_g2l (d : Nat) (p : Nat × Nat) :
    p ∈ Color.g2l (rwg T sup incl trunc).space d ↔
      p.1 < T.ne ∧ (rwgFirstLoop T sup incl trunc).sup p.1 = true ∧ p.2 < 3 ∧
        (rwgFirstLoop T sup incl trunc).ed (T.elementEdges p.1 p.2) = some d := by
  rw [Color.mem_g2l, rwg_nelems]
  constructor
  · rintro ⟨he, hrow, hnz⟩
    rw [rwg_space, mkSpace_nz _ _ _ _ he] at hnz
    rw [rwg_space, mkSpace_row _ _ _ _ he] at hrow
    cases hs : (rwgFirstLoop T sup incl trunc).sup p.1 with
    | false =>
      rw [hs] at hnz
      simp only [Bool.false_eq_true, if_false, zeros_getD] at hnz
      cases hnz
    | true =>
      rw [hs] at hnz hrow
      simp only [if_true, rwgRow_snd, rwgRow_fst, map_loc3_getD, map_loc3_getElem?] at hnz hrow
      by_cases hi : p.2 < 3
      · rw [if_pos hi] at hnz hrow
        have hm : rwgMult T (rwgFirstLoop T sup incl trunc) p.1 p.2 ≠ 0 := by simpa using hnz
        have hne := (rwgMult_ne_zero_iff T _ _ _).1 hm
        cases hed : (rwgFirstLoop T sup incl trunc).ed (T.elementEdges p.1 p.2) with
        | none => exact absurd hed hne
        | some d' =>
          rw [rwgEntry_of_some T hed] at hrow
          cases hrow
          exact ⟨he, rfl, hi, rfl⟩
      · rw [if_neg hi] at hnz
        simp at hnz
  · rintro ⟨he, hs, hi, hed⟩
    refine ⟨he, ?_, ?_⟩
    · rw [rwg_space, mkSpace_row _ _ _ _ he, hs]
      simp only [if_true, rwgRow_fst, map_loc3_getElem?, if_pos hi, rwgEntry_of_some T hed]
    · rw [rwg_space, mkSpace_nz _ _ _ _ he, hs]
      simp only [if_true, rwgRow_snd, map_loc3_getD, if_pos hi]
      have := (rwgMult_ne_zero_iff T (rwgFirstLoop T sup incl trunc) p.1 p.2).2 (by rw [hed]; simp)
      simpa using this

theorem rwg_row_getElem? {e : Nat} (he : e < T.ne) (hs : (rwgFirstLoop T sup incl trunc).sup e = true) (i d : Nat) :
    ((rwg T sup incl trunc).space.row e)[i]? = some d ↔
      i < 3 ∧ rwgEntry T (rwgFirstLoop T sup incl trunc) e i = d := by
  rw [rwg_space, mkSpace_row _ _ _ _ he, hs]
  simp only [if_true, rwgRow_fst, map_loc3_getElem?]
  by_cases hi : i < 3
  · simp [hi]
  · simp [hi]

theorem rwg_nz {e : Nat} (he : e < T.ne) (hs : (rwgFirstLoop T sup incl trunc).sup e = true) (i : Nat) :
    (rwg T sup incl trunc).space.nz e i = true ↔
      i < 3 ∧ (rwgFirstLoop T sup incl trunc).ed (T.elementEdges e i) ≠ none := by
  rw [rwg_space, mkSpace_nz _ _ _ _ he, hs]
  simp only [if_true, rwgRow_snd, map_loc3_getD]
  by_cases hi : i < 3
  · rw [if_pos hi, ← rwgMult_ne_zero_iff]
    simp [hi]
  · simp [hi]

/-- `artificial_dof_owned` for RWG / SNC -/
theorem rwg_owned (ht : EdgeTables T) (e : Nat) (he : e < (rwg T sup incl trunc).space.nelems)
    (hsup : (rwg T sup incl trunc).space.sup e = true) (i d : Nat)
    (hrow : ((rwg T sup incl trunc).space.row e)[i]? = some d) :
    ∃ j, ((rwg T sup incl trunc).space.row e)[j]? = some d ∧ (rwg T sup incl trunc).space.nz e j = true := by
  rw [rwg_nelems] at he
  rw [rwg_sup_eq T sup incl trunc he] at hsup
  obtain ⟨hi, hd⟩ := (rwg_row_getElem? T sup incl trunc he hsup i d).1 hrow
  cases hed : (rwgFirstLoop T sup incl trunc).ed (T.elementEdges e i) with
  | some d' =>
    exact ⟨i, hrow, (rwg_nz T sup incl trunc he hsup i).2 ⟨hi, by rw [hed]; simp⟩⟩
  | none =>
    obtain ⟨⟨j0, hj0, hdj0⟩, _⟩ := (rwg_sup_iff T sup incl trunc ht he).1 hsup
    obtain ⟨j, hj, hne, heq⟩ := rwgEntry_of_none T hed ⟨j0, hj0, (rwg_ed_iff T sup incl trunc ht _).2 hdj0⟩
    exact ⟨j, (rwg_row_getElem? T sup incl trunc he hsup j d).2 ⟨hj, by rw [← heq, hd]⟩,
      (rwg_nz T sup incl trunc he hsup j).2 ⟨hj, hne⟩⟩

/-- every dof `d < dof_count` is attached to some `(e, i)` -/
theorem rwg_g2l_nonempty (ht : EdgeTables T) (d : Nat) (hd : d < (rwgFirstLoop T sup incl trunc).cnt) :
    ∃ p, p ∈ Color.g2l (rwg T sup incl trunc).space d := by
  have hinv := firstLoop_inv T sup incl trunc ht
  obtain ⟨x, hx⟩ := hinv.c4 d hd
  have hdx := (hinv.c x d hx).1
  have hpos : 0 < (N0 T sup x).length := by
    rcases hdx with h | ⟨_, h⟩ <;> omega
  obtain ⟨c, hc⟩ := List.exists_mem_of_length_pos hpos
  unfold N0 at hc
  rw [List.mem_filter] at hc
  obtain ⟨hclt, j, hj, hjx⟩ := ht.sound x c hc.1
  refine ⟨(c, j), (rwg_mem_g2l T sup incl trunc d (c, j)).2 ⟨hclt, ?_, hj, by rw [hjx]; exact hx⟩⟩
  exact (rwg_sup_iff T sup incl trunc ht hclt).2 ⟨⟨j, hj, hjx ▸ hdx⟩, Or.inl hc.2⟩

/-- every entry of `local2global_map` is below `max 1 dof_count` -/
theorem rwg_entry_lt (ht : EdgeTables T) {e x : Nat} (he : e < T.ne) (hx : x ∈ (rwg T sup incl trunc).space.row e) :
    x < max 1 (rwgFirstLoop T sup incl trunc).cnt := by
  have hinv := firstLoop_inv T sup incl trunc ht
  cases hs : (rwgFirstLoop T sup incl trunc).sup e with
  | false =>
    rw [rwg_space, mkSpace_row _ _ _ _ he, hs] at hx
    simp only [Bool.false_eq_true, if_false, List.mem_cons, List.not_mem_nil, or_false, or_self] at hx
    omega
  | true =>
    obtain ⟨i, hi⟩ := List.getElem?_of_mem hx
    obtain ⟨hi3, hd⟩ := (rwg_row_getElem? T sup incl trunc he hs i x).1 hi
    have key : ∀ j, (rwgFirstLoop T sup incl trunc).ed (T.elementEdges e j) ≠ none →
        rwgEntry T (rwgFirstLoop T sup incl trunc) e j < max 1 (rwgFirstLoop T sup incl trunc).cnt := by
      intro j hj
      cases hed : (rwgFirstLoop T sup incl trunc).ed (T.elementEdges e j) with
      | none => exact absurd hed hj
      | some d' =>
        rw [rwgEntry_of_some T hed]
        have := (hinv.c _ d' hed).2
        omega
    cases hed : (rwgFirstLoop T sup incl trunc).ed (T.elementEdges e i) with
    | some d' =>
      rw [← hd]
      exact key i (by rw [hed]; simp)
    | none =>
      obtain ⟨⟨j0, hj0, hdj0⟩, _⟩ := (rwg_sup_iff T sup incl trunc ht he).1 hs
      obtain ⟨j, _, hne, heq⟩ := rwgEntry_of_none T hed ⟨j0, hj0, (rwg_ed_iff T sup incl trunc ht _).2 hdj0⟩
      rw [← hd, heq]
      exact key j hne

/-- `1 + max(local2global_map)` = `dof_count`, or 1 for a space without dofs -/
theorem rwg_gridDofCount (ht : EdgeTables T) :
    gridDofCount (rwg T sup incl trunc).space = max 1 (rwgFirstLoop T sup incl trunc).cnt := by
  apply Nat.le_antisymm
  · apply gridDofCount_le _ _ (by omega)
    intro e he x hx
    exact rwg_entry_lt T sup incl trunc ht he hx
  · by_cases h0 : (rwgFirstLoop T sup incl trunc).cnt = 0
    · rw [h0]
      unfold gridDofCount
      omega
    · obtain ⟨p, hp⟩ := rwg_g2l_nonempty T sup incl trunc ht ((rwgFirstLoop T sup incl trunc).cnt - 1) (by omega)
      rw [Color.mem_g2l] at hp
      have := lt_gridDofCount _ hp.1 (List.mem_of_getElem? hp.2.1)
      omega

/-- the multiplier stored for a cell of the returned support -/
theorem rwg_multOf (T : Tables) (sup : Nat → Bool) (incl trunc : Bool) {e i : Nat} (he : e < T.ne)
    (hs : (rwgFirstLoop T sup incl trunc).sup e = true) (hi : i < 3) :
    multOf (rwg T sup incl trunc).space e i = rwgMult T (rwgFirstLoop T sup incl trunc) e i := by
  unfold multOf
  rw [rwg_space, mkSpace_mult _ _ _ _ he, hs]
  simp only [if_true, rwgRow_snd, map_loc3_getD, if_pos hi]

/-! ### the sign rule -/

/-- the multiplier of a dof edge: `+1` when the element is the only supported neighbour or the one with the
smallest index, `-1` otherwise -/
theorem rwg_sign (ht : EdgeTables T) {e i d : Nat} (he : e < T.ne)
    (hs : (rwgFirstLoop T sup incl trunc).sup e = true) (hi : i < 3)
    (hed : (rwgFirstLoop T sup incl trunc).ed (T.elementEdges e i) = some d) :
    e ∈ (T.enbrs (T.elementEdges e i)).filter (rwgFirstLoop T sup incl trunc).sup ∧
    (((T.enbrs (T.elementEdges e i)).filter (rwgFirstLoop T sup incl trunc).sup).length = 1 ∨
      ((T.enbrs (T.elementEdges e i)).filter (rwgFirstLoop T sup incl trunc).sup).length = 2) ∧
    ((∀ c, c ∈ (T.enbrs (T.elementEdges e i)).filter (rwgFirstLoop T sup incl trunc).sup → e ≤ c) →
      rwgMult T (rwgFirstLoop T sup incl trunc) e i = 1) ∧
    ((∃ c, c ∈ (T.enbrs (T.elementEdges e i)).filter (rwgFirstLoop T sup incl trunc).sup ∧ c < e) →
      rwgMult T (rwgFirstLoop T sup incl trunc) e i = -1) := by
  have hmem : e ∈ (T.enbrs (T.elementEdges e i)).filter (rwgFirstLoop T sup incl trunc).sup :=
    List.mem_filter.2 ⟨ht.complete e i he hi, hs⟩
  have h1 : 1 ≤ ((T.enbrs (T.elementEdges e i)).filter (rwgFirstLoop T sup incl trunc).sup).length :=
    List.length_pos_of_mem hmem
  have h2 : ((T.enbrs (T.elementEdges e i)).filter (rwgFirstLoop T sup incl trunc).sup).length ≤ 2 :=
    Nat.le_trans (List.length_filter_le _ _) (ht.manifold _)
  refine ⟨hmem, by omega, ?_, ?_⟩
  · intro hmin
    unfold rwgMult
    rw [hed]
    simp only
    split
    · rfl
    · rw [if_pos ((listMin_eq_some_iff hmem).2 hmin)]
  · rintro ⟨c, hc, hlt⟩
    unfold rwgMult
    rw [hed]
    simp only
    have hlen : ((T.enbrs (T.elementEdges e i)).filter (rwgFirstLoop T sup incl trunc).sup).length ≠ 1 := by
      intro h
      obtain ⟨a, ha⟩ := List.length_eq_one_iff.1 h
      rw [ha] at hc hmem
      simp only [List.mem_singleton] at hc hmem
      omega
    rw [if_neg hlen]
    have hnmin : ¬ listMin ((T.enbrs (T.elementEdges e i)).filter (rwgFirstLoop T sup incl trunc).sup) = some e := by
      intro h
      have := (listMin_eq_some_iff hmem).1 h c hc
      omega
    rw [if_neg hnmin]

end

end BemppVerif.Lemmas.Space
