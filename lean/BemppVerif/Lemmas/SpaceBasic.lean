/- Helper lemmas for the function-space model: array packing, store lists, ranks in filtered ranges (core Lean only). -/
import BemppVerif.Model.Space
import BemppVerif.Lemmas.ColorLemmas

namespace BemppVerif.Lemmas.Space
open BemppVerif.Model BemppVerif.Model.Space

/-! ### `loc3`, `supportList` -/

theorem mem_loc3 (i : Nat) : i ∈ loc3 ↔ i < 3 := by
  unfold loc3
  simp only [List.mem_cons, List.not_mem_nil, or_false]
  omega

theorem mem_supportList (ne : Nat) (sup : Nat → Bool) (e : Nat) :
    e ∈ supportList ne sup ↔ e < ne ∧ sup e = true := by
  simp [supportList]

theorem supportList_pairwise (ne : Nat) (sup : Nat → Bool) : (supportList ne sup).Pairwise (· < ·) :=
  List.Pairwise.filter _ List.pairwise_lt_range

theorem supportList_nodup (ne : Nat) (sup : Nat → Bool) : (supportList ne sup).Nodup :=
  List.Nodup.sublist List.filter_sublist List.nodup_range

/-! ### ranks in a strictly increasing list -/

theorem idxOf_lt_of_lt {l : List Nat} (hp : l.Pairwise (· < ·)) {a b : Nat} (ha : a ∈ l) (hb : b ∈ l) (hab : a < b) :
    l.idxOf a < l.idxOf b := by
  have hia := List.idxOf_lt_length_iff.2 ha
  have hib := List.idxOf_lt_length_iff.2 hb
  have ea := List.getElem_idxOf hia
  have eb := List.getElem_idxOf hib
  rw [List.pairwise_iff_getElem] at hp
  rcases Nat.lt_trichotomy (l.idxOf a) (l.idxOf b) with h | h | h
  · exact h
  · exfalso
    have : l[l.idxOf a] = l[l.idxOf b] := by simp [h]
    rw [ea, eb] at this
    omega
  · exfalso
    have := hp _ _ hib hia h
    rw [ea, eb] at this
    omega

theorem pairwise_lt_nodup {l : List Nat} (hp : l.Pairwise (· < ·)) : l.Nodup :=
  hp.imp (fun h => Nat.ne_of_lt h)

/-! ### packing rows into a `Color.Space` -/

section mk
variable (ne : Nat) (sup : Nat → Bool) (row : Nat → List Nat) (mrow : Nat → List Int)

@[simp] theorem mkSpace_nelems : (mkSpace ne sup row mrow).nelems = ne := rfl

theorem mkSpace_sup {e : Nat} (h : e < ne) : (mkSpace ne sup row mrow).sup e = sup e := by
  simp [Color.Space.sup, mkSpace, Array.getD_eq_getD_getElem?, h]

theorem mkSpace_sup_ge {e : Nat} (h : ne ≤ e) : (mkSpace ne sup row mrow).sup e = false := by
  have : ¬ e < ne := by omega
  simp [Color.Space.sup, mkSpace, Array.getD_eq_getD_getElem?, this]

theorem mkSpace_sup_true {e : Nat} (h : (mkSpace ne sup row mrow).sup e = true) : e < ne ∧ sup e = true := by
  by_cases he : e < ne
  · rw [mkSpace_sup ne sup row mrow he] at h
    exact ⟨he, h⟩
  · rw [mkSpace_sup_ge ne sup row mrow (by omega)] at h
    cases h

theorem mkSpace_row {e : Nat} (h : e < ne) : (mkSpace ne sup row mrow).row e = row e := by
  simp [Color.Space.row, mkSpace, Array.getD_eq_getD_getElem?, h]

theorem mkSpace_nz {e : Nat} (h : e < ne) (i : Nat) :
    (mkSpace ne sup row mrow).nz e i = ((mrow e).getD i 0 != 0) := by
  simp [Color.Space.nz, mkSpace, Array.getD_eq_getD_getElem?, h, List.getD_eq_getElem?_getD]

theorem mkSpace_mult {e : Nat} (h : e < ne) (i : Nat) :
    ((mkSpace ne sup row mrow).mult.getD e #[]).getD i 0 = (mrow e).getD i 0 := by
  simp [mkSpace, Array.getD_eq_getD_getElem?, h, List.getD_eq_getElem?_getD]

theorem mem_supportElements_mkSpace (e : Nat) :
    e ∈ (mkSpace ne sup row mrow).supportElements ↔ e < ne ∧ sup e = true := by
  rw [Color.mem_supportElements]
  constructor
  · rintro ⟨_, h2⟩
    exact mkSpace_sup_true ne sup row mrow h2
  · rintro ⟨h1, h2⟩
    exact ⟨h1, by rw [mkSpace_sup ne sup row mrow h1]; exact h2⟩

end mk

/-- local multiplier as an integer -/
def multOf (S : Color.Space) (e i : Nat) : Int := (S.mult.getD e #[]).getD i 0

/-- `local2global[e, i]` -/
def l2gOf (S : Color.Space) (e i : Nat) : Nat := (S.row e).getD i 0

theorem nz_iff_multOf (S : Color.Space) (e i : Nat) : S.nz e i = true ↔ multOf S e i ≠ 0 := by
  simp [Color.Space.nz, multOf]

/-! ### three-entry rows -/

theorem map_loc3_getElem? {α : Type} (f : Nat → α) (i : Nat) :
    (loc3.map f)[i]? = if i < 3 then some (f i) else none := by
  unfold loc3
  match i with
  | 0 => rfl
  | 1 => rfl
  | 2 => rfl
  | (k + 3) => simp

theorem map_loc3_getD {α : Type} (f : Nat → α) (i : Nat) (d : α) :
    (loc3.map f).getD i d = if i < 3 then f i else d := by
  rw [List.getD_eq_getElem?_getD, map_loc3_getElem?]
  split <;> rfl

/-! ### store lists -/

theorem lastWrite_eq_some {W : List Store} {e i x : Nat} (h : lastWrite W e i = some x) : (e, i, x) ∈ W := by
  unfold lastWrite at h
  rw [Option.map_eq_some_iff] at h
  obtain ⟨w, hw, hx⟩ := h
  have h1 := List.find?_some hw
  have h2 := List.mem_of_find?_eq_some hw
  simp only [Bool.and_eq_true, beq_iff_eq] at h1
  rw [List.mem_reverse] at h2
  obtain ⟨a, b, c⟩ := w
  simp only at h1 hx
  obtain ⟨rfl, rfl⟩ := h1
  subst hx
  exact h2

theorem lastWrite_isSome {W : List Store} {e i x : Nat} (h : (e, i, x) ∈ W) : ∃ y, lastWrite W e i = some y := by
  unfold lastWrite
  cases hf : W.reverse.find? (fun w => w.1 == e && w.2.1 == i) with
  | some w => exact ⟨w.2.2, rfl⟩
  | none =>
    exfalso
    rw [List.find?_eq_none] at hf
    have := hf (e, i, x) (List.mem_reverse.2 h)
    simp at this

/-- if every store into cell `(e, i)` stores the same value, the cell finally holds it iff it was stored -/
theorem lastWrite_consistent {W : List Store} {e i x : Nat} (hc : ∀ y, (e, i, y) ∈ W → y = x) :
    lastWrite W e i = some x ↔ (e, i, x) ∈ W := by
  constructor
  · exact lastWrite_eq_some
  · intro h
    obtain ⟨y, hy⟩ := lastWrite_isSome h
    rw [hy, hc y (lastWrite_eq_some hy)]

theorem lastWrite_eq_none {W : List Store} {e i : Nat} : lastWrite W e i = none ↔ ∀ y, (e, i, y) ∉ W := by
  constructor
  · intro h y hy
    obtain ⟨z, hz⟩ := lastWrite_isSome hy
    rw [h] at hz
    cases hz
  · intro h
    cases hl : lastWrite W e i with
    | none => rfl
    | some y => exact absurd (lastWrite_eq_some hl) (h y)

/-! ### `gridDofCount` -/

theorem le_foldl_max_nat (l : List Nat) (a : Nat) : a ≤ l.foldl max a ∧ ∀ x, x ∈ l → x ≤ l.foldl max a := by
  induction l generalizing a with
  | nil => simp
  | cons b l ih =>
    simp only [List.foldl_cons, List.mem_cons]
    have := ih (max a b)
    refine ⟨by omega, ?_⟩
    rintro x (rfl | hx)
    · omega
    · exact this.2 x hx

theorem foldl_max_nat_le (l : List Nat) (a b : Nat) (ha : a ≤ b) (hl : ∀ x, x ∈ l → x ≤ b) : l.foldl max a ≤ b := by
  induction l generalizing a with
  | nil => simpa using ha
  | cons c l ih =>
    simp only [List.foldl_cons]
    apply ih
    · have := hl c (by simp)
      omega
    · intro x hx
      exact hl x (by simp [hx])

theorem lt_gridDofCount (S : Color.Space) {e x : Nat} (he : e < S.nelems) (hx : x ∈ S.row e) : x < gridDofCount S := by
  unfold gridDofCount
  have h1 := (le_foldl_max_nat (S.row e) 0).2 x hx
  have h2 := (le_foldl_max_nat ((List.range S.nelems).map fun e => (S.row e).foldl max 0) 0).2
    ((S.row e).foldl max 0) (List.mem_map.2 ⟨e, List.mem_range.2 he, rfl⟩)
  omega

theorem gridDofCount_le (S : Color.Space) (b : Nat) (hb : 1 ≤ b) (h : ∀ e, e < S.nelems → ∀ x, x ∈ S.row e → x < b) :
    gridDofCount S ≤ b := by
  unfold gridDofCount
  have : ((List.range S.nelems).map fun e => (S.row e).foldl max 0).foldl max 0 ≤ b - 1 := by
    apply foldl_max_nat_le _ _ _ (by omega)
    intro y hy
    rw [List.mem_map] at hy
    obtain ⟨e, he, rfl⟩ := hy
    apply foldl_max_nat_le _ _ _ (by omega)
    intro x hx
    have := h e (List.mem_range.1 he) x hx
    omega
  omega

end BemppVerif.Lemmas.Space
