/- Vector identities in K³ used by C11 (circumcentre). -/
import BemppVerif.Model.Geom
import Mathlib.Tactic.Ring
import Mathlib.Tactic.FieldSimp

namespace BemppVerif.Lemmas.Vec3
open BemppVerif.Model.Geom

variable {K : Type} [Field K]

/-- Binet–Cauchy -/
theorem dot_cross_cross (p q r s : V3 K) :
    dot (cross p q) (cross r s) = dot p r * dot q s - dot p s * dot q r := by
  simp only [dot, cross]; ring

theorem dot_cross_left (a b : V3 K) : dot a (cross a b) = 0 := by simp only [dot, cross]; ring
theorem dot_cross_right (a b : V3 K) : dot b (cross a b) = 0 := by simp only [dot, cross]; ring
theorem dot_comm (a b : V3 K) : dot a b = dot b a := by simp only [dot]; ring

/-- scalar triple product, cyclic -/
theorem triple_cyclic (a b c : V3 K) : dot (cross a b) c = dot a (cross b c) := by
  simp only [dot, cross]; ring

theorem triple_rot (a b c : V3 K) : dot (cross a b) c = dot b (cross c a) := by
  simp only [dot, cross]; ring

theorem dot_comb (α β c : K) (p q r : V3 K) :
    dot (sdiv (vadd (smul α p) (smul β q)) c) r = (α * dot p r + β * dot q r) / c := by
  simp only [dot, sdiv, vadd, smul]; ring

theorem dot_comb_self (α β c : K) (p q : V3 K) :
    dot (sdiv (vadd (smul α p) (smul β q)) c) (sdiv (vadd (smul α p) (smul β q)) c) =
      (α * α * dot p p + 2 * α * β * dot p q + β * β * dot q q) / (c * c) := by
  simp only [dot, sdiv, vadd, smul]
  by_cases hc : c = 0
  · subst hc; simp
  · field_simp; ring

theorem dot_vsub_self (w a : V3 K) : dot (vsub w a) (vsub w a) = dot w w - 2 * dot w a + dot a a := by
  simp only [dot, vsub]; ring

end BemppVerif.Lemmas.Vec3
