/- Index arithmetic for the per-index result slots of the singular / sparse `prange` loops (core Lean only). -/
namespace BemppVerif.Lemmas.Slot

/-- `a*n + b` with `b < n` determines `a` and `b` -/
theorem pair_inj (n a b a' b' : Nat) (hb : b < n) (hb' : b' < n) (h : a * n + b = a' * n + b') :
    a = a' ∧ b = b' := by
  rcases Nat.lt_trichotomy a a' with hlt | heq | hgt
  · have := Nat.mul_le_mul_right n (show a + 1 ≤ a' from hlt)
    rw [Nat.add_mul] at this
    omega
  · subst heq
    exact ⟨rfl, by omega⟩
  · have := Nat.mul_le_mul_right n (show a' + 1 ≤ a from hgt)
    rw [Nat.add_mul] at this
    omega

/-- `(idx*nt + i)*ns + j` with `i < nt`, `j < ns` determines `idx, i, j` -/
theorem triple_inj (ns nt idx i j idx' i' j' : Nat) (hi : i < nt) (hj : j < ns) (hi' : i' < nt) (hj' : j' < ns)
    (h : (idx * nt + i) * ns + j = (idx' * nt + i') * ns + j') : idx = idx' ∧ i = i' ∧ j = j' := by
  obtain ⟨h1, h2⟩ := pair_inj ns _ _ _ _ hj hj' h
  obtain ⟨h3, h4⟩ := pair_inj nt _ _ _ _ hi hi' h1
  exact ⟨h3, h4, h2⟩

end BemppVerif.Lemmas.Slot
