/-
Radial PDEs satisfied by the canonical Green's functions (property C08).  In three dimensions the Laplacian of a
radial function g(|x|) is g'' + 2 g'/r, so

* Laplace            g = c / r                      : g'' + 2 g'/r           = 0
* modified Helmholtz g = c e^{-ω r} / r             : g'' + 2 g'/r - ω² g    = 0
* Helmholtz          g = c e^{ikr} / r, k = p0+i p1 : g'' + 2 g'/r + k² g    = 0   (real and imaginary parts u, v)

Every theorem exhibits the explicit first and second derivative (`lapG1, lapG2`, …), the two `HasDerivAt` facts and the
algebraic identity.  The profiles are tied to the canonical kernels by `lapSL_eq_radial` … (true by definition).
-/
import BemppVerif.Lemmas.KernelCalculus

namespace BemppVerif.KernelCalculus
open BemppVerif.Kernels

/-- algebra closer: the goals below are field identities with s ≠ 0 in context -/
macro "field_close" : tactic => `(tactic| (try norm_num; try field_simp; try ring))

/-! ## second derivatives -/

noncomputable def lapG2 (c : ℝ) (s : ℝ) : ℝ := 2 * c / s ^ 3
noncomputable def modG2 (c ω : ℝ) (s : ℝ) : ℝ :=
  c * Real.exp (-(ω * s)) * (ω ^ 2 * s ^ 2 + 2 * ω * s + 2) / s ^ 3
/-- Re of G (-k² - 2ik/s + 2/s²) -/
noncomputable def helmU2 (c p0 p1 : ℝ) (s : ℝ) : ℝ :=
  helmU c p0 p1 s * (-(p0 ^ 2 - p1 ^ 2) + 2 * p1 / s + 2 / s ^ 2)
    - helmV c p0 p1 s * (-(2 * p0 * p1) - 2 * p0 / s)
/-- Im of G (-k² - 2ik/s + 2/s²) -/
noncomputable def helmV2 (c p0 p1 : ℝ) (s : ℝ) : ℝ :=
  helmU c p0 p1 s * (-(2 * p0 * p1) - 2 * p0 / s)
    + helmV c p0 p1 s * (-(p0 ^ 2 - p1 ^ 2) + 2 * p1 / s + 2 / s ^ 2)

theorem hasDerivAt_sq (s : ℝ) : HasDerivAt (fun s : ℝ => s ^ 2) (2 * s) s := by
  have h := (hasDerivAt_id' s).fun_pow 2
  refine h.congr_deriv ?_
  simp

theorem hasDerivAt_lapG1 (c s : ℝ) (hs : s ≠ 0) : HasDerivAt (lapG1 c) (lapG2 c s) s := by
  have h := (hasDerivAt_const s (-c)).fun_div (hasDerivAt_sq s) (pow_ne_zero 2 hs)
  refine h.congr_deriv ?_
  simp only [lapG2]
  field_close

theorem hasDerivAt_modG1 (c ω s : ℝ) (hs : s ≠ 0) : HasDerivAt (modG1 c ω) (modG2 c ω s) s := by
  have hA := (hasDerivAt_expLin ω s).const_mul c
  have hB := ((hasDerivAt_id' s).const_mul ω).add_const 1
  have h := ((hA.fun_mul hB).fun_neg).fun_div (hasDerivAt_sq s) (pow_ne_zero 2 hs)
  refine h.congr_deriv ?_
  simp only [modG2]
  generalize Real.exp (-(ω * s)) = E
  field_close

theorem hasDerivAt_helmU1 (c p0 p1 s : ℝ) (hs : s ≠ 0) : HasDerivAt (helmU1 c p0 p1) (helmU2 c p0 p1 s) s := by
  have hA := ((hasDerivAt_id' s).const_mul p1).const_sub (-1)
  have hB := (hasDerivAt_id' s).const_mul p0
  have h := (((hasDerivAt_helmU c p0 p1 s hs).fun_mul hA).fun_sub
    ((hasDerivAt_helmV c p0 p1 s hs).fun_mul hB)).fun_div (hasDerivAt_id' s) hs
  refine h.congr_deriv ?_
  simp only [helmU2, helmU1, helmV1]
  generalize helmU c p0 p1 s = U
  generalize helmV c p0 p1 s = V
  field_close

theorem hasDerivAt_helmV1 (c p0 p1 s : ℝ) (hs : s ≠ 0) : HasDerivAt (helmV1 c p0 p1) (helmV2 c p0 p1 s) s := by
  have hA := ((hasDerivAt_id' s).const_mul p1).const_sub (-1)
  have hB := (hasDerivAt_id' s).const_mul p0
  have h := (((hasDerivAt_helmU c p0 p1 s hs).fun_mul hB).fun_add
    ((hasDerivAt_helmV c p0 p1 s hs).fun_mul hA)).fun_div (hasDerivAt_id' s) hs
  refine h.congr_deriv ?_
  simp only [helmV2, helmU1, helmV1]
  generalize helmU c p0 p1 s = U
  generalize helmV c p0 p1 s = V
  field_close

/-! ## the radial PDEs -/

theorem lapG_pde (c s : ℝ) (hs : s ≠ 0) : lapG2 c s + 2 * lapG1 c s / s = 0 := by
  simp only [lapG2, lapG1]
  field_close

theorem modG_pde (c ω s : ℝ) (hs : s ≠ 0) : modG2 c ω s + 2 * modG1 c ω s / s - ω ^ 2 * modG c ω s = 0 := by
  simp only [modG2, modG1, modG]
  generalize Real.exp (-(ω * s)) = E
  field_close

theorem helmU_pde (c p0 p1 s : ℝ) (hs : s ≠ 0) :
    helmU2 c p0 p1 s + 2 * helmU1 c p0 p1 s / s + (p0 ^ 2 - p1 ^ 2) * helmU c p0 p1 s
      - 2 * p0 * p1 * helmV c p0 p1 s = 0 := by
  simp only [helmU2, helmU1]
  generalize helmU c p0 p1 s = U
  generalize helmV c p0 p1 s = V
  field_close

theorem helmV_pde (c p0 p1 s : ℝ) (hs : s ≠ 0) :
    helmV2 c p0 p1 s + 2 * helmV1 c p0 p1 s / s + (p0 ^ 2 - p1 ^ 2) * helmV c p0 p1 s
      + 2 * p0 * p1 * helmU c p0 p1 s = 0 := by
  simp only [helmV2, helmV1]
  generalize helmU c p0 p1 s = U
  generalize helmV c p0 p1 s = V
  field_close

/-- Laplace: g = c/r, g' = -c/r², g'' = 2c/r³, g'' + 2g'/r = 0. -/
theorem laplace_radial_pde (c : ℝ) :
    (∀ s : ℝ, 0 < s → HasDerivAt (lapG c) (lapG1 c s) s) ∧
    (∀ s : ℝ, 0 < s → HasDerivAt (lapG1 c) (lapG2 c s) s) ∧
    (∀ s : ℝ, 0 < s → lapG2 c s + 2 * lapG1 c s / s = 0) :=
  ⟨fun s hs => hasDerivAt_lapG c s hs.ne', fun s hs => hasDerivAt_lapG1 c s hs.ne',
   fun s hs => lapG_pde c s hs.ne'⟩

/-- modified Helmholtz: g = c e^{-ωr}/r, g'' + 2g'/r - ω² g = 0. -/
theorem modified_radial_pde (c ω : ℝ) :
    (∀ s : ℝ, 0 < s → HasDerivAt (modG c ω) (modG1 c ω s) s) ∧
    (∀ s : ℝ, 0 < s → HasDerivAt (modG1 c ω) (modG2 c ω s) s) ∧
    (∀ s : ℝ, 0 < s → modG2 c ω s + 2 * modG1 c ω s / s - ω ^ 2 * modG c ω s = 0) :=
  ⟨fun s hs => hasDerivAt_modG c ω s hs.ne', fun s hs => hasDerivAt_modG1 c ω s hs.ne',
   fun s hs => modG_pde c ω s hs.ne'⟩

/-- Helmholtz, k = p0 + i p1: real and imaginary parts of g'' + 2g'/r + k² g = 0 for g = c e^{ikr}/r = u + i v. -/
theorem helmholtz_radial_pde (c p0 p1 : ℝ) :
    (∀ s : ℝ, 0 < s → HasDerivAt (helmU c p0 p1) (helmU1 c p0 p1 s) s) ∧
    (∀ s : ℝ, 0 < s → HasDerivAt (helmU1 c p0 p1) (helmU2 c p0 p1 s) s) ∧
    (∀ s : ℝ, 0 < s → HasDerivAt (helmV c p0 p1) (helmV1 c p0 p1 s) s) ∧
    (∀ s : ℝ, 0 < s → HasDerivAt (helmV1 c p0 p1) (helmV2 c p0 p1 s) s) ∧
    (∀ s : ℝ, 0 < s → helmU2 c p0 p1 s + 2 * helmU1 c p0 p1 s / s + (p0 ^ 2 - p1 ^ 2) * helmU c p0 p1 s
        - 2 * p0 * p1 * helmV c p0 p1 s = 0) ∧
    (∀ s : ℝ, 0 < s → helmV2 c p0 p1 s + 2 * helmV1 c p0 p1 s / s + (p0 ^ 2 - p1 ^ 2) * helmV c p0 p1 s
        + 2 * p0 * p1 * helmU c p0 p1 s = 0) :=
  ⟨fun s hs => hasDerivAt_helmU c p0 p1 s hs.ne', fun s hs => hasDerivAt_helmU1 c p0 p1 s hs.ne',
   fun s hs => hasDerivAt_helmV c p0 p1 s hs.ne', fun s hs => hasDerivAt_helmV1 c p0 p1 s hs.ne',
   fun s hs => helmU_pde c p0 p1 s hs.ne', fun s hs => helmV_pde c p0 p1 s hs.ne'⟩

/-- the same three facts in the `∃ g1 g2` packaging -/
theorem laplace_radial_pde_exists (c : ℝ) : ∃ g1 g2 : ℝ → ℝ,
    (∀ s : ℝ, 0 < s → HasDerivAt (fun s => c / s) (g1 s) s) ∧ (∀ s : ℝ, 0 < s → HasDerivAt g1 (g2 s) s) ∧
    (∀ s : ℝ, 0 < s → g2 s + 2 * g1 s / s = 0) :=
  ⟨lapG1 c, lapG2 c, laplace_radial_pde c⟩

theorem modified_radial_pde_exists (c ω : ℝ) : ∃ g1 g2 : ℝ → ℝ,
    (∀ s : ℝ, 0 < s → HasDerivAt (fun s => c * Real.exp (-(ω * s)) / s) (g1 s) s) ∧
    (∀ s : ℝ, 0 < s → HasDerivAt g1 (g2 s) s) ∧
    (∀ s : ℝ, 0 < s → g2 s + 2 * g1 s / s - ω ^ 2 * (c * Real.exp (-(ω * s)) / s) = 0) :=
  ⟨modG1 c ω, modG2 c ω, modified_radial_pde c ω⟩

theorem helmholtz_radial_pde_exists (c p0 p1 : ℝ) : ∃ u1 u2 v1 v2 : ℝ → ℝ,
    (∀ s : ℝ, 0 < s → HasDerivAt (fun s => c * Real.exp (-(p1 * s)) * Real.cos (p0 * s) / s) (u1 s) s) ∧
    (∀ s : ℝ, 0 < s → HasDerivAt u1 (u2 s) s) ∧
    (∀ s : ℝ, 0 < s → HasDerivAt (fun s => c * Real.exp (-(p1 * s)) * Real.sin (p0 * s) / s) (v1 s) s) ∧
    (∀ s : ℝ, 0 < s → HasDerivAt v1 (v2 s) s) ∧
    (∀ s : ℝ, 0 < s → u2 s + 2 * u1 s / s + (p0 ^ 2 - p1 ^ 2) * (c * Real.exp (-(p1 * s)) * Real.cos (p0 * s) / s)
        - 2 * p0 * p1 * (c * Real.exp (-(p1 * s)) * Real.sin (p0 * s) / s) = 0) ∧
    (∀ s : ℝ, 0 < s → v2 s + 2 * v1 s / s + (p0 ^ 2 - p1 ^ 2) * (c * Real.exp (-(p1 * s)) * Real.sin (p0 * s) / s)
        + 2 * p0 * p1 * (c * Real.exp (-(p1 * s)) * Real.cos (p0 * s) / s) = 0) :=
  ⟨helmU1 c p0 p1, helmU2 c p0 p1, helmV1 c p0 p1, helmV2 c p0 p1, helmholtz_radial_pde c p0 p1⟩

/-! ## the canonical single-layer kernels are these profiles of the distance (by definition) -/

section tie
variable (c4pi x0 x1 x2 y0 y1 y2 nx0 nx1 nx2 ny0 ny1 ny2 p0 p1 : ℝ)

theorem lapSL_eq_radial :
    lapSL Real.sqrt Real.cos Real.sin Real.exp c4pi x0 x1 x2 y0 y1 y2 nx0 nx1 nx2 ny0 ny1 ny2 p0 p1
      = lapG c4pi (r Real.sqrt Real.cos Real.sin Real.exp c4pi x0 x1 x2 y0 y1 y2 nx0 nx1 nx2 ny0 ny1 ny2 p0 p1) := rfl

theorem modSL_eq_radial :
    modSL Real.sqrt Real.cos Real.sin Real.exp c4pi x0 x1 x2 y0 y1 y2 nx0 nx1 nx2 ny0 ny1 ny2 p0 p1
      = modG c4pi p0 (r Real.sqrt Real.cos Real.sin Real.exp c4pi x0 x1 x2 y0 y1 y2 nx0 nx1 nx2 ny0 ny1 ny2 p0 p1) := rfl

theorem helmSLre_eq_radial :
    helmSLre Real.sqrt Real.cos Real.sin Real.exp c4pi x0 x1 x2 y0 y1 y2 nx0 nx1 nx2 ny0 ny1 ny2 p0 p1
      = helmU c4pi p0 p1 (r Real.sqrt Real.cos Real.sin Real.exp c4pi x0 x1 x2 y0 y1 y2 nx0 nx1 nx2 ny0 ny1 ny2 p0 p1) := rfl

theorem helmSLim_eq_radial :
    helmSLim Real.sqrt Real.cos Real.sin Real.exp c4pi x0 x1 x2 y0 y1 y2 nx0 nx1 nx2 ny0 ny1 ny2 p0 p1
      = helmV c4pi p0 p1 (r Real.sqrt Real.cos Real.sin Real.exp c4pi x0 x1 x2 y0 y1 y2 nx0 nx1 nx2 ny0 ny1 ny2 p0 p1) := rfl

end tie

end BemppVerif.KernelCalculus
