/-
Helper lemmas for C18: the simulation between the model of the code (`step`) and the specification (`specStep`),
the cache invariant of the repaired tree, and the "no FMM operator" invariant under which the tree as found
behaves like the repaired one.
-/
import BemppVerif.Model.Hist

namespace BemppVerif.Lemmas.Hist
open BemppVerif.Model.Hist

theorem lookup_mem {α β : Type} [BEq α] [LawfulBEq α] (k : α) (v : β) :
    ∀ l : List (α × β), l.lookup k = some v → (k, v) ∈ l
  | [], h => by simp [List.lookup] at h
  | (k', v') :: l, h => by
    by_cases hk : k = k'
    · subst hk
      simp [List.lookup] at h
      simp [h]
    · have : (k == k') = false := by simpa using hk
      simp [List.lookup, this] at h
      exact List.mem_cons_of_mem _ (lookup_mem k v l h)

/-- every entry of `_FMM_CACHE` was built for exactly the settings its key names (repaired key) -/
def KeyOK (e : List Nat × Iface) : Prop :=
  e.1 = [e.2.grid, e.2.target, e.2.kern, e.2.expansion, e.2.ncrit, e.2.cloud] ∧ e.2.grid = e.2.target

def PotKeyOK (e : List Nat × Iface) : Prop :=
  e.1 = [e.2.grid, e.2.target, e.2.kern, e.2.cloud, e.2.expansion, e.2.ncrit]

/-- cache invariant of the repaired tree -/
def Inv (s : State) : Prop := (∀ e ∈ s.fmmCache, KeyOK e) ∧ (∀ e ∈ s.potCache, PotKeyOK e)

theorem inv_init : Inv State.init := by
  constructor <;> intro e h <;> simp [State.init] at h

theorem inv_core (s : State) (t : Core) (h : Inv s) : Inv { s with core := t } := h

/-- `assemble` on the repaired tree: result = `resolve`, the core is untouched, the invariant survives -/
theorem assemble_spec (s : State) (hI : Inv s) (o : BOp) :
    match s.core.spaces[o.space]?, deref s.core o.pref with
    | some sp, some p =>
      ∃ s' h, assemble .repaired s o = some (s', h, resolve o.asm sp.grid o.kern o.prec p)
        ∧ s'.core = s.core ∧ Inv s'
    | _, _ => assemble .repaired s o = none := by
  unfold assemble
  cases hsp : s.core.spaces[o.space]? with
  | none => simp
  | some sp =>
    cases hp : deref s.core o.pref with
    | none => simp
    | some p =>
      simp only []
      cases ha : o.asm
      · exact ⟨s, false, by simp [resolve], rfl, hI⟩
      · exact ⟨s, false, by simp [resolve], rfl, hI⟩
      · exact ⟨s, false, by simp [resolve], rfl, hI⟩
      · simp only [fmmReads, resolve]
        cases hi : s.fmmCache.lookup (fmmKey .repaired sp.grid o.kern p) with
        | some i =>
          have hm := lookup_mem _ _ _ hi
          obtain ⟨hk1, hk2⟩ := hI.1 _ hm
          simp only [fmmKey] at hk1
          have : i = ⟨sp.grid, sp.grid, o.kern, p.regular, p.expansion, p.ncrit⟩ := by
            cases i
            simp_all
          subst this
          exact ⟨s, true, rfl, rfl, hI⟩
        | none =>
          refine ⟨_, false, rfl, rfl, ?_, hI.2⟩
          intro e he
          simp only [List.mem_cons] at he
          rcases he with rfl | he
          · simp [KeyOK, fmmKey]
          · exact hI.1 e he

/-- one step of the code model simulates one step of the specification -/
def Sim (r : State × Out) (q : Core × Out) : Prop := r.1.core = q.1 ∧ r.2.eraseHit = q.2 ∧ Inv r.1

theorem weakForm_sim (s : State) (hI : Inv s) (k : Nat) : Sim (weakForm .repaired s k) (specWeak s.core k) := by
  unfold weakForm specWeak
  cases hk : s.core.ops[k]? with
  | none => exact ⟨rfl, rfl, hI⟩
  | some o =>
    simp only []
    cases hc : o.cached with
    | some u => exact ⟨rfl, rfl, hI⟩
    | none =>
      simp only []
      have ha := assemble_spec s hI o
      cases hsp : s.core.spaces[o.space]? with
      | none =>
        rw [hsp] at ha
        simp only [] at ha
        rw [ha]
        exact ⟨rfl, rfl, hI⟩
      | some sp =>
        cases hp : deref s.core o.pref with
        | none =>
          rw [hsp, hp] at ha
          simp only [] at ha
          rw [ha]
          exact ⟨rfl, rfl, hI⟩
        | some p =>
          rw [hsp, hp] at ha
          obtain ⟨s', h, e, hcore, hI'⟩ := ha
          rw [e]
          refine ⟨?_, rfl, hI'⟩
          simp only [hcore]

theorem massMatrix_eq (s : State) (i : Nat) :
    massMatrix s i = (specMass s.core i).map fun r => ({ s with core := r.1 }, r.2.1, r.2.2) := by
  unfold massMatrix specMass
  cases hsp : s.core.spaces[i]? with
  | none => rfl
  | some sp =>
    simp only []
    cases hm : sp.mass with
    | some u => rfl
    | none => simp [resolve]

theorem strongForm_sim (s : State) (hI : Inv s) (k : Nat) :
    Sim (strongForm .repaired s k) (specStrong s.core k) := by
  unfold strongForm specStrong
  cases hk : s.core.ops[k]? with
  | none => exact ⟨rfl, rfl, hI⟩
  | some o =>
    simp only []
    cases hr : o.rangeMap with
    | true =>
      simp only [if_true]
      have hw := weakForm_sim s hI k
      revert hw
      generalize weakForm .repaired s k = a
      generalize specWeak s.core k = b
      intro hw
      obtain ⟨a1, a2⟩ := a
      obtain ⟨b1, b2⟩ := b
      obtain ⟨h1, h2, h3⟩ := hw
      simp only at h1 h2 h3
      subst h1
      cases a2 <;> simp [Out.eraseHit] at h2 <;> subst h2 <;> first | exact ⟨rfl, rfl, hI⟩ | exact ⟨rfl, rfl, h3⟩
    | false =>
      simp only [Bool.false_eq_true, if_false]
      rw [massMatrix_eq]
      cases hm : specMass s.core o.space with
      | none => exact ⟨rfl, rfl, hI⟩
      | some r =>
        obtain ⟨t', c, u⟩ := r
        simp only [Option.map_some]
        have hI1 : Inv { core := { t' with ops := t'.ops.set k { o with rangeMap := true } },
                         fmmCache := s.fmmCache, potCache := s.potCache } := hI
        have hw := weakForm_sim _ hI1 k
        revert hw
        generalize weakForm .repaired _ k = a
        generalize specWeak _ k = b
        intro hw
        obtain ⟨a1, a2⟩ := a
        obtain ⟨b1, b2⟩ := b
        obtain ⟨h1, h2, h3⟩ := hw
        simp only at h1 h2 h3
        subst h1
        cases a2 <;> simp [Out.eraseHit] at h2 <;> subst h2 <;> first | exact ⟨rfl, rfl, hI⟩ | exact ⟨rfl, rfl, h3⟩

theorem createPot_sim (s : State) (hI : Inv s) (a : PotAsm) (sp pts kern : Nat) (pref : PRef) :
    Sim (createPot .repaired s a sp pts kern pref) (specStep s.core (.createPot a sp pts kern pref)) := by
  unfold createPot specStep
  simp only [plainStep]
  cases hsp : s.core.spaces[sp]? with
  | none => exact ⟨rfl, rfl, hI⟩
  | some spc =>
    cases hp : deref s.core pref with
    | none => exact ⟨rfl, rfl, hI⟩
    | some p =>
      simp only []
      cases a with
      | dense => exact ⟨rfl, rfl, hI⟩
      | fmm =>
        simp only [fmmReads, resolvePot]
        cases hi : s.potCache.lookup (potKey .repaired spc.grid pts kern p) with
        | some i =>
          have hm := lookup_mem _ _ _ hi
          have hk1 := hI.2 _ hm
          simp only [PotKeyOK, potKey] at hk1
          have : i = ⟨spc.grid, pts, kern, p.regular, p.expansion, p.ncrit⟩ := by
            cases i
            simp_all
          subst this
          exact ⟨rfl, rfl, hI⟩
        | none =>
          refine ⟨rfl, rfl, hI.1, ?_⟩
          intro e he
          simp only [List.mem_cons] at he
          rcases he with rfl | he
          · simp [PotKeyOK, potKey]
          · exact hI.2 e he

theorem step_sim (s : State) (hI : Inv s) (op : Op) : Sim (step .repaired s op) (specStep s.core op) := by
  cases op with
  | weakForm k => simpa [step, specStep, plainStep] using weakForm_sim s hI k
  | strongForm k => simpa [step, specStep, plainStep] using strongForm_sim s hI k
  | createPot a sp pts kern pref =>
    have h := createPot_sim s hI a sp pts kern pref
    simpa [step, plainStep] using h
  | massMatrix i =>
    simp only [step, specStep, plainStep]
    rw [massMatrix_eq]
    cases hm : specMass s.core i with
    | none => exact ⟨rfl, rfl, hI⟩
    | some r => exact ⟨rfl, rfl, hI⟩
  | evalPot k =>
    simp only [step, specStep, plainStep]
    cases s.core.pots[k]? <;> exact ⟨rfl, rfl, hI⟩
  | clearFmmCache =>
    refine ⟨rfl, rfl, ?_, ?_⟩ <;> intro e he <;> simp [step, plainStep] at he
  | setGlobal f v => exact ⟨rfl, rfl, hI⟩
  | setDefaultPrec p => exact ⟨rfl, rfl, hI⟩
  | newParams p => exact ⟨rfl, rfl, hI⟩
  | createSpace g => exact ⟨rfl, rfl, hI⟩
  | setExplicit i f v =>
    simp only [step, specStep, plainStep]
    cases s.core.explicit[i]? <;> exact ⟨rfl, rfl, hI⟩
  | createOp a sp kern pref prec =>
    simp only [step, specStep, plainStep]
    cases s.core.spaces[sp]? with
    | none => exact ⟨rfl, rfl, hI⟩
    | some _ => cases deref s.core pref <;> exact ⟨rfl, rfl, hI⟩

theorem run_sim (ops : List Op) : ∀ (s : State), Inv s →
    (run .repaired s ops).map Out.eraseHit = specRun s.core ops := by
  induction ops with
  | nil => intro s _; rfl
  | cons op rest ih =>
    intro s hI
    obtain ⟨h1, h2, h3⟩ := step_sim s hI op
    simp only [run, specRun, List.map_cons]
    rw [ih _ h3, h1, h2]

/-! ### The tree as found: without FMM operators the two code variants coincide -/

def NoFmm (t : Core) : Prop := (∀ o ∈ t.ops, o.asm ≠ .fmm) ∧ (∀ o ∈ t.pots, o.asm ≠ .fmm)

theorem noFmm_init : NoFmm Core.init := by
  constructor <;> intro o h <;> simp [Core.init] at h

theorem noFmm_set (t : Core) (h : NoFmm t) (k : Nat) (o o' : BOp) (hk : t.ops[k]? = some o)
    (ha : o'.asm = o.asm) (sp : List Space) :
    NoFmm { t with ops := t.ops.set k o', spaces := sp } := by
  refine ⟨?_, h.2⟩
  intro x hx
  rcases List.mem_or_eq_of_mem_set hx with hx | rfl
  · exact h.1 x hx
  · rw [ha]
    exact h.1 o (List.mem_of_getElem? hk)

theorem specMass_noFmm (t : Core) (h : NoFmm t) (i : Nat) (r : Core × Bool × Used)
    (hr : specMass t i = some r) : NoFmm r.1 ∧ r.1.ops = t.ops := by
  unfold specMass at hr
  cases hsp : t.spaces[i]? with
  | none => simp [hsp] at hr
  | some sp =>
    simp only [hsp] at hr
    cases hm : sp.mass with
    | some u =>
      simp only [hm, Option.some.injEq] at hr
      subst hr
      exact ⟨h, rfl⟩
    | none =>
      simp only [hm, Option.some.injEq] at hr
      subst hr
      exact ⟨h, rfl⟩

theorem specWeak_noFmm (t : Core) (h : NoFmm t) (k : Nat) : NoFmm (specWeak t k).1 := by
  unfold specWeak
  cases hk : t.ops[k]? with
  | none => exact h
  | some o =>
    simp only []
    cases hc : o.cached with
    | some u => exact h
    | none =>
      simp only []
      cases hsp : t.spaces[o.space]? with
      | none => exact h
      | some sp =>
        cases hp : deref t o.pref with
        | none => exact h
        | some p =>
          simp only []
          exact noFmm_set t h k o { o with cached := some (resolve o.asm sp.grid o.kern o.prec p) } hk rfl t.spaces

theorem specStrong_noFmm (t : Core) (h : NoFmm t) (k : Nat) : NoFmm (specStrong t k).1 := by
  unfold specStrong
  cases hk : t.ops[k]? with
  | none => exact h
  | some o =>
    simp only []
    cases hr : o.rangeMap with
    | true =>
      simp only [if_true]
      have hw := specWeak_noFmm t h k
      revert hw
      generalize specWeak t k = b
      intro hw
      obtain ⟨b1, b2⟩ := b
      cases b2 <;> first | exact h | exact hw
    | false =>
      simp only [Bool.false_eq_true, if_false]
      cases hm : specMass t o.space with
      | none => exact h
      | some r =>
        obtain ⟨t', c, u⟩ := r
        obtain ⟨hn, ho⟩ := specMass_noFmm t h _ _ hm
        simp only [Option.map_some]
        have ho' : t'.ops = t.ops := ho
        have hk' : t'.ops[k]? = some o := by rw [ho']; exact hk
        have h1 : NoFmm { t' with ops := t'.ops.set k { o with rangeMap := true } } :=
          noFmm_set t' hn k o { o with rangeMap := true } hk' rfl t'.spaces
        have hw := specWeak_noFmm _ h1 k
        revert hw
        generalize specWeak _ k = b
        intro hw
        obtain ⟨b1, b2⟩ := b
        cases b2 <;> first | exact h | exact hw

theorem specStep_noFmm (t : Core) (h : NoFmm t) (op : Op) (hop : op.createsFmm = false) :
    NoFmm (specStep t op).1 := by
  cases op with
  | weakForm k => simpa [specStep, plainStep] using specWeak_noFmm t h k
  | strongForm k => simpa [specStep, plainStep] using specStrong_noFmm t h k
  | createPot a sp pts kern pref =>
    simp only [specStep, plainStep]
    cases t.spaces[sp]? with
    | none => exact h
    | some s =>
      cases deref t pref with
      | none => exact h
      | some p =>
        refine ⟨h.1, ?_⟩
        intro x hx
        simp only [List.mem_append, List.mem_singleton] at hx
        rcases hx with hx | rfl
        · exact h.2 x hx
        · cases a with
          | dense => simp
          | fmm => simp [Op.createsFmm] at hop
  | massMatrix i =>
    simp only [specStep, plainStep]
    cases hm : specMass t i with
    | none => exact h
    | some r => exact (specMass_noFmm t h i r hm).1
  | evalPot k =>
    simp only [specStep, plainStep]
    cases t.pots[k]? <;> exact h
  | clearFmmCache => exact h
  | setGlobal f v => exact h
  | setDefaultPrec p => exact h
  | newParams p => exact h
  | createSpace g => exact h
  | setExplicit i f v =>
    simp only [specStep, plainStep]
    cases t.explicit[i]? <;> exact h
  | createOp a sp kern pref prec =>
    simp only [specStep, plainStep]
    cases t.spaces[sp]? with
    | none => exact h
    | some _ =>
      cases deref t pref with
      | none => exact h
      | some _ =>
        refine ⟨?_, h.2⟩
        intro x hx
        simp only [List.mem_append, List.mem_singleton] at hx
        rcases hx with hx | rfl
        · exact h.1 x hx
        · cases a <;> simp_all [Op.createsFmm]

theorem assemble_code_irrelevant (s : State) (o : BOp) (h : o.asm ≠ .fmm) :
    assemble .asFound s o = assemble .repaired s o := by
  unfold assemble
  cases s.core.spaces[o.space]? with
  | none => rfl
  | some sp =>
    cases deref s.core o.pref with
    | none => rfl
    | some p =>
      simp only []
      cases ha : o.asm <;> simp_all

theorem weakForm_code_irrelevant (s : State) (h : NoFmm s.core) (k : Nat) :
    weakForm .asFound s k = weakForm .repaired s k := by
  unfold weakForm
  cases hk : s.core.ops[k]? with
  | none => rfl
  | some o =>
    simp only []
    rw [assemble_code_irrelevant s o (h.1 o (List.mem_of_getElem? hk))]

theorem step_code_irrelevant (s : State) (h : NoFmm s.core) (op : Op) (hop : op.createsFmm = false) :
    step .asFound s op = step .repaired s op := by
  cases op with
  | weakForm k => simpa [step, plainStep] using weakForm_code_irrelevant s h k
  | strongForm k =>
    simp only [step, plainStep, strongForm]
    cases hk : s.core.ops[k]? with
    | none => rfl
    | some o =>
      simp only []
      cases hr : o.rangeMap with
      | true => simp only [if_true]; rw [weakForm_code_irrelevant s h k]
      | false =>
        simp only [Bool.false_eq_true, if_false]
        rw [massMatrix_eq]
        cases hm : specMass s.core o.space with
        | none => rfl
        | some r =>
          obtain ⟨t', c, u⟩ := r
          obtain ⟨hn, ho⟩ := specMass_noFmm s.core h _ _ hm
          simp only [Option.map_some]
          have ho' : t'.ops = s.core.ops := ho
          have hk' : t'.ops[k]? = some o := by rw [ho']; exact hk
          have h1 : NoFmm { t' with ops := t'.ops.set k { o with rangeMap := true } } :=
            noFmm_set t' hn k o { o with rangeMap := true } hk' rfl t'.spaces
          rw [weakForm_code_irrelevant _ h1 k]
  | createPot a sp pts kern pref =>
    cases a with
    | dense => simp [step, plainStep, createPot]
    | fmm => simp [Op.createsFmm] at hop
  | massMatrix i => rfl
  | evalPot k => rfl
  | clearFmmCache => rfl
  | setGlobal f v => rfl
  | setDefaultPrec p => rfl
  | newParams p => rfl
  | createSpace g => rfl
  | setExplicit i f v => rfl
  | createOp a sp kern pref prec => rfl

theorem run_code_irrelevant (ops : List Op) : ∀ (s : State), Inv s → NoFmm s.core →
    (∀ op ∈ ops, op.createsFmm = false) → run .asFound s ops = run .repaired s ops := by
  induction ops with
  | nil => intros; rfl
  | cons op rest ih =>
    intro s hI h hops
    have hop := hops op (List.mem_cons_self ..)
    have e := step_code_irrelevant s h op hop
    obtain ⟨h1, _, h3⟩ := step_sim s hI op
    have hn : NoFmm (step .repaired s op).1.core := by
      rw [h1]
      exact specStep_noFmm s.core h op hop
    simp only [run]
    rw [e, ih _ h3 hn (fun o ho => hops o (List.mem_cons_of_mem _ ho))]

/-! ### Memoisation: once assembled, an operator's configuration is frozen (both code variants) -/

/-- operator `k` exists and holds a memoised discrete operator with configuration `u` -/
def Frozen (ops : List BOp) (k : Nat) (u : Used) : Prop := ∃ o, ops[k]? = some o ∧ o.cached = some u

theorem frozen_set (ops : List BOp) (k : Nat) (u : Used) (h : Frozen ops k u) (k' : Nat) (o' : BOp)
    (hk' : k' = k → o'.cached = some u) : Frozen (ops.set k' o') k u := by
  obtain ⟨o, ho, hc⟩ := h
  by_cases e : k' = k
  · subst e
    have hl : k' < ops.length := by
      rcases Nat.lt_or_ge k' ops.length with h | h
      · exact h
      · simp [List.getElem?_eq_none h] at ho
    exact ⟨o', by simp [hl], hk' rfl⟩
  · exact ⟨o, by simp [List.getElem?_set_ne e, ho], hc⟩

theorem frozen_append (ops : List BOp) (k : Nat) (u : Used) (h : Frozen ops k u) (l : List BOp) :
    Frozen (ops ++ l) k u := by
  obtain ⟨o, ho, hc⟩ := h
  have hl : k < ops.length := by
    rcases Nat.lt_or_ge k ops.length with h | h
    · exact h
    · simp [List.getElem?_eq_none h] at ho
  exact ⟨o, by rw [List.getElem?_append_left hl]; exact ho, hc⟩

theorem assemble_core (c : Code) (s : State) (o : BOp) (r : State × Bool × Used)
    (h : assemble c s o = some r) : r.1.core = s.core := by
  unfold assemble at h
  cases hsp : s.core.spaces[o.space]? with
  | none => simp [hsp] at h
  | some sp =>
    cases hp : deref s.core o.pref with
    | none => simp [hsp, hp] at h
    | some p =>
      simp only [hsp, hp] at h
      cases ha : o.asm <;> simp only [ha] at h
      · cases h; rfl
      · cases h; rfl
      · cases h; rfl
      · cases hl : s.fmmCache.lookup (fmmKey c sp.grid o.kern p) <;> simp only [hl] at h <;> cases h <;> rfl

theorem weakForm_frozen (c : Code) (s : State) (k : Nat) (u : Used) (h : Frozen s.core.ops k u) (k' : Nat) :
    Frozen (weakForm c s k').1.core.ops k u := by
  unfold weakForm
  cases hk : s.core.ops[k']? with
  | none => exact h
  | some o' =>
    simp only []
    cases hc : o'.cached with
    | some u' => exact h
    | none =>
      simp only []
      cases ha : assemble c s o' with
      | none => exact h
      | some r =>
        obtain ⟨s', hit, u'⟩ := r
        have hcore : s'.core = s.core := assemble_core c s o' _ ha
        simp only [hcore]
        apply frozen_set _ _ _ h
        intro e
        subst e
        obtain ⟨o, ho, hcu⟩ := h
        rw [hk] at ho
        cases ho
        rw [hc] at hcu
        cases hcu

/-- `weak_form()` of an assembled operator returns the memoised object and changes nothing -/
theorem weakForm_of_frozen (c : Code) (s : State) (k : Nat) (u : Used) (h : Frozen s.core.ops k u) :
    weakForm c s k = (s, .asm true false u) := by
  obtain ⟨o, ho, hc⟩ := h
  unfold weakForm
  simp only [ho, hc]

/-- whatever `weak_form()` returns is memoised afterwards -/
theorem weakForm_freezes (c : Code) (s : State) (k : Nat) (fc hit : Bool) (u : Used)
    (h : (weakForm c s k).2 = .asm fc hit u) : Frozen (weakForm c s k).1.core.ops k u := by
  unfold weakForm at h ⊢
  cases hk : s.core.ops[k]? with
  | none => simp [hk] at h
  | some o =>
    simp only [hk] at h ⊢
    cases hc : o.cached with
    | some u' =>
      simp only [hc] at h ⊢
      cases h
      exact ⟨o, hk, hc⟩
    | none =>
      simp only [hc] at h ⊢
      cases ha : assemble c s o with
      | none => simp [ha] at h
      | some r =>
        obtain ⟨s', hit', u'⟩ := r
        simp only [ha] at h ⊢
        cases h
        have hcore : s'.core = s.core := assemble_core c s o _ ha
        have hl : k < s.core.ops.length := by
          rcases Nat.lt_or_ge k s.core.ops.length with h | h
          · exact h
          · simp [List.getElem?_eq_none h] at hk
        exact ⟨{ o with cached := some u }, by simp [hcore, hl], rfl⟩

theorem massMatrix_ops (s : State) (i : Nat) (r : State × Bool × Used) (h : massMatrix s i = some r) :
    r.1.core.ops = s.core.ops := by
  unfold massMatrix at h
  cases hsp : s.core.spaces[i]? with
  | none => simp [hsp] at h
  | some sp =>
    simp only [hsp] at h
    cases hm : sp.mass <;> simp only [hm] at h <;> cases h <;> rfl

theorem strongForm_frozen (c : Code) (s : State) (k : Nat) (u : Used) (h : Frozen s.core.ops k u) (k' : Nat) :
    Frozen (strongForm c s k').1.core.ops k u := by
  unfold strongForm
  cases hk : s.core.ops[k']? with
  | none => exact h
  | some o =>
    simp only []
    cases hr : o.rangeMap with
    | true =>
      simp only [if_true]
      have hw := weakForm_frozen c s k u h k'
      revert hw
      generalize weakForm c s k' = a
      intro hw
      obtain ⟨a1, a2⟩ := a
      cases a2 <;> first | exact h | exact hw
    | false =>
      simp only [Bool.false_eq_true, if_false]
      cases hm : massMatrix s o.space with
      | none => exact h
      | some r =>
        obtain ⟨s', cc, m⟩ := r
        have hops : s'.core.ops = s.core.ops := massMatrix_ops s _ _ hm
        simp only [Option.map_some]
        have h1 : Frozen ({ s' with core := { s'.core with ops := s'.core.ops.set k' { o with rangeMap := true } } } :
            State).core.ops k u := by
          simp only [hops]
          apply frozen_set _ _ _ h
          intro e
          subst e
          obtain ⟨o2, ho2, hcu⟩ := h
          rw [hk] at ho2
          cases ho2
          exact hcu
        have hw := weakForm_frozen c _ k u h1 k'
        revert hw
        generalize weakForm c _ k' = a
        intro hw
        obtain ⟨a1, a2⟩ := a
        cases a2 <;> first | exact h | exact hw

theorem step_frozen (c : Code) (s : State) (k : Nat) (u : Used) (h : Frozen s.core.ops k u) (op : Op) :
    Frozen (step c s op).1.core.ops k u := by
  cases op with
  | weakForm k' => simpa [step, plainStep] using weakForm_frozen c s k u h k'
  | strongForm k' => simpa [step, plainStep] using strongForm_frozen c s k u h k'
  | createPot a sp pts kern pref =>
    simp only [step, plainStep, createPot]
    cases s.core.spaces[sp]? with
    | none => exact h
    | some spc =>
      cases deref s.core pref with
      | none => exact h
      | some p =>
        simp only []
        cases a with
        | dense => exact h
        | fmm =>
          simp only []
          cases s.potCache.lookup (potKey c spc.grid pts kern p) <;> exact h
  | massMatrix i =>
    simp only [step, plainStep]
    cases hm : massMatrix s i with
    | none => exact h
    | some r =>
      simp only []
      rw [massMatrix_ops s i r hm]
      exact h
  | evalPot k' =>
    simp only [step, plainStep]
    cases s.core.pots[k']? <;> exact h
  | clearFmmCache => exact h
  | setGlobal f v => exact h
  | setDefaultPrec p => exact h
  | newParams p => exact h
  | createSpace g => exact h
  | setExplicit i f v =>
    simp only [step, plainStep]
    cases s.core.explicit[i]? <;> exact h
  | createOp a sp kern pref prec =>
    simp only [step, plainStep]
    cases s.core.spaces[sp]? with
    | none => exact h
    | some _ =>
      cases deref s.core pref with
      | none => exact h
      | some _ => exact frozen_append _ _ _ h _

theorem runState_frozen (c : Code) (k : Nat) (u : Used) (ops : List Op) :
    ∀ s : State, Frozen s.core.ops k u → Frozen (runState c s ops).core.ops k u := by
  induction ops with
  | nil => intro s h; exact h
  | cons op rest ih => intro s h; exact ih _ (step_frozen c s k u h op)

/-- potential operator `k` exists and was built with configuration `u` -/
def FrozenP (pots : List POp) (k : Nat) (u : Used) : Prop := ∃ o, pots[k]? = some o ∧ o.used = u

theorem frozenP_append (pots : List POp) (k : Nat) (u : Used) (h : FrozenP pots k u) (l : List POp) :
    FrozenP (pots ++ l) k u := by
  obtain ⟨o, ho, hc⟩ := h
  have hl : k < pots.length := by
    rcases Nat.lt_or_ge k pots.length with h | h
    · exact h
    · simp [List.getElem?_eq_none h] at ho
  exact ⟨o, by rw [List.getElem?_append_left hl]; exact ho, hc⟩

theorem weakForm_pots (c : Code) (s : State) (k : Nat) : (weakForm c s k).1.core.pots = s.core.pots := by
  unfold weakForm
  cases hk : s.core.ops[k]? with
  | none => rfl
  | some o =>
    simp only []
    cases hc : o.cached with
    | some u => rfl
    | none =>
      simp only []
      cases ha : assemble c s o with
      | none => rfl
      | some r =>
        obtain ⟨s', hit, u'⟩ := r
        have hcore : s'.core = s.core := assemble_core c s o _ ha
        simp only [hcore]

theorem massMatrix_pots (s : State) (i : Nat) (r : State × Bool × Used) (h : massMatrix s i = some r) :
    r.1.core.pots = s.core.pots := by
  unfold massMatrix at h
  cases hsp : s.core.spaces[i]? with
  | none => simp [hsp] at h
  | some sp =>
    simp only [hsp] at h
    cases hm : sp.mass <;> simp only [hm] at h <;> cases h <;> rfl

theorem strongForm_pots (c : Code) (s : State) (k : Nat) : (strongForm c s k).1.core.pots = s.core.pots := by
  unfold strongForm
  cases hk : s.core.ops[k]? with
  | none => rfl
  | some o =>
    simp only []
    cases hr : o.rangeMap with
    | true =>
      simp only [if_true]
      have hw := weakForm_pots c s k
      revert hw
      generalize weakForm c s k = a
      intro hw
      obtain ⟨a1, a2⟩ := a
      cases a2 <;> first | rfl | exact hw
    | false =>
      simp only [Bool.false_eq_true, if_false]
      cases hm : massMatrix s o.space with
      | none => rfl
      | some r =>
        obtain ⟨s', cc, m⟩ := r
        have hp : s'.core.pots = s.core.pots := massMatrix_pots s _ _ hm
        simp only [Option.map_some]
        have hw := weakForm_pots c
          { s' with core := { s'.core with ops := s'.core.ops.set k { o with rangeMap := true } } } k
        revert hw
        generalize weakForm c _ k = a
        intro hw
        obtain ⟨a1, a2⟩ := a
        cases a2 <;> first | rfl | (simp only at hw ⊢; rw [hw, hp])

theorem step_frozenP (c : Code) (s : State) (k : Nat) (u : Used) (h : FrozenP s.core.pots k u) (op : Op) :
    FrozenP (step c s op).1.core.pots k u := by
  cases op with
  | weakForm k' => simpa [step, plainStep, weakForm_pots] using h
  | strongForm k' => simpa [step, plainStep, strongForm_pots] using h
  | createPot a sp pts kern pref =>
    simp only [step, plainStep, createPot]
    cases s.core.spaces[sp]? with
    | none => exact h
    | some spc =>
      cases deref s.core pref with
      | none => exact h
      | some p =>
        simp only []
        cases a with
        | dense => exact frozenP_append _ _ _ h _
        | fmm =>
          simp only []
          cases s.potCache.lookup (potKey c spc.grid pts kern p) <;> exact frozenP_append _ _ _ h _
  | massMatrix i =>
    simp only [step, plainStep]
    cases hm : massMatrix s i with
    | none => exact h
    | some r =>
      simp only []
      rw [massMatrix_pots s i r hm]
      exact h
  | evalPot k' =>
    simp only [step, plainStep]
    cases s.core.pots[k']? <;> exact h
  | clearFmmCache => exact h
  | setGlobal f v => exact h
  | setDefaultPrec p => exact h
  | newParams p => exact h
  | createSpace g => exact h
  | setExplicit i f v =>
    simp only [step, plainStep]
    cases s.core.explicit[i]? <;> exact h
  | createOp a sp kern pref prec =>
    simp only [step, plainStep]
    cases s.core.spaces[sp]? with
    | none => exact h
    | some _ => cases deref s.core pref <;> exact h

theorem runState_frozenP (c : Code) (k : Nat) (u : Used) (ops : List Op) :
    ∀ s : State, FrozenP s.core.pots k u → FrozenP (runState c s ops).core.pots k u := by
  induction ops with
  | nil => intro s h; exact h
  | cons op rest ih => intro s h; exact ih _ (step_frozenP c s k u h op)

end BemppVerif.Lemmas.Hist
