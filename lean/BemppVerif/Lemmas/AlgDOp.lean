/-
Helper lemmas for C14: shape invariant of discrete-operator trees, `to_dense` = `matvec`, and what the dispatching
operations `dAdd/dMul/dScale/dNeg/dTranspose/dAdjoint` compute.
-/
import BemppVerif.Lemmas.AlgMat

namespace BemppVerif.Lemmas.AlgMat
open BemppVerif.Model.Alg

set_option linter.unusedSectionVars false

variable {R : Type} [CommRing R] [CParts R]

/-! ### more shapes -/

theorem isMat_append {m1 m2 n : Nat} {A B : Mat R} (hA : IsMat m1 n A) (hB : IsMat m2 n B) :
    IsMat (m1 + m2) n (A ++ B) := by
  constructor
  · simp [hA.1, hB.1]
  · intro r hr
    simp only [List.mem_append] at hr
    rcases hr with hr | hr
    · exact hA.2 r hr
    · exact hB.2 r hr

theorem isMat_zipWith_append {m a b : Nat} {A B : Mat R} (hA : IsMat m a A) (hB : IsMat m b B) :
    IsMat m (a + b) (List.zipWith (· ++ ·) A B) := by
  induction A generalizing B m with
  | nil =>
    have : m = 0 := by simpa using hA.1.symm
    subst this
    exact ⟨by simp, by simp⟩
  | cons x A ih =>
    cases B with
    | nil =>
      have h1 := hA.1
      have h2 := hB.1
      simp at h1 h2
      omega
    | cons y B =>
      cases m with
      | zero => have := hA.1; simp at this
      | succ m =>
        have h := ih (m := m) (B := B)
          ⟨by simpa using hA.1, fun r hr => hA.2 r (List.mem_cons_of_mem _ hr)⟩
          ⟨by simpa using hB.1, fun r hr => hB.2 r (List.mem_cons_of_mem _ hr)⟩
        constructor
        · simp [h.1]
        · intro r hr
          simp only [List.zipWith_cons_cons, List.mem_cons] at hr
          rcases hr with rfl | hr
          · simp [hA.2 x (List.mem_cons_self ..), hB.2 y (List.mem_cons_self ..)]
          · exact h.2 r hr

theorem isMat_replicate_nil (m : Nat) : IsMat m 0 (List.replicate m ([] : Vec R)) := by
  constructor
  · simp
  · intro r hr
    simp only [List.mem_replicate] at hr
    simp [hr.2]

theorem hcat_shape {r : Nat} {row : List (Bool × Mat R)} {cd : List Nat}
    (hrow : List.Forall₂ (fun b d => IsMat r d b.2) row cd) : IsMat r cd.sum (hcat (row.map (·.2)) r) := by
  induction hrow with
  | nil => simpa [hcat] using isMat_replicate_nil (R := R) r
  | cons hb _ ih =>
    simp only [List.map_cons, hcat, List.sum_cons]
    exact isMat_zipWith_append hb ih

/-- shape invariant of the blocks of a `BlockedDiscreteOperator` -/
def BlocksOk (rd cd : List Nat) (blocks : List (List (Bool × Mat R))) : Prop :=
  List.Forall₂ (fun row r => List.Forall₂ (fun b d => IsMat r d b.2) row cd) blocks rd

theorem blockedDense_shape {rd cd : List Nat} {blocks : List (List (Bool × Mat R))} (h : BlocksOk rd cd blocks) :
    IsMat rd.sum cd.sum (blockedDense blocks rd) := by
  unfold BlocksOk at h
  induction h with
  | nil => exact ⟨by simp [blockedDense], by simp [blockedDense]⟩
  | cons hrow _ ih =>
    simp only [blockedDense, List.sum_cons]
    exact isMat_append (hcat_shape hrow) ih

theorem splitBy_forall₂ (cd : List Nat) (x : Vec R) (h : x.length = cd.sum) :
    List.Forall₂ (fun x d => x.length = d) (splitBy cd x) cd := by
  induction cd generalizing x with
  | nil => simp [splitBy]
  | cons d cd ih =>
    simp only [splitBy, List.sum_cons] at h ⊢
    refine List.Forall₂.cons ?_ (ih _ ?_)
    · simp; omega
    · simp; omega

theorem splitBy_flatten (cd : List Nat) (x : Vec R) (h : x.length = cd.sum) : (splitBy cd x).flatten = x := by
  induction cd generalizing x with
  | nil =>
    simp only [List.sum_nil, List.length_eq_zero_iff] at h
    simp [splitBy, h]
  | cons d cd ih =>
    simp only [splitBy, List.flatten_cons, List.sum_cons] at h ⊢
    rw [ih (x.drop d) (by simp; omega), List.take_append_drop]

theorem blockedMv_eq (hp : LawfulParts R) (xc : Bool) {rd cd : List Nat} {blocks : List (List (Bool × Mat R))}
    (h : BlocksOk rd cd blocks) (x : Vec R) (hx : x.length = cd.sum) :
    blockedMv xc cd blocks rd x = mulVec (blockedDense blocks rd) x := by
  unfold BlocksOk at h
  induction h with
  | nil => simp [blockedMv, blockedDense]
  | cons hrow _ ih =>
    simp only [blockedMv, blockedDense, mulVec_append]
    rw [ih, blockRow_agree hp xc _ _ _ _ hrow (splitBy_forall₂ cd x hx), splitBy_flatten cd x hx]

/-! ### discrete-operator trees -/

/-- shape invariant of a discrete-operator tree -/
def WFD : DOp R → Prop
  | .leaf _ _ r n M => IsMat r n M
  | .blocked _ rd cd blocks => BlocksOk rd cd blocks
  | .sum a b => WFD a ∧ WFD b ∧ a.rows = b.rows ∧ a.cols = b.cols
  | .prod a b => WFD a ∧ WFD b ∧ a.cols = b.rows
  | .scaled a _ _ => WFD a

theorem toDense_shape : ∀ {d : DOp R}, WFD d → IsMat d.rows d.cols d.toDense
  | .leaf _ _ _ _ _, h => h
  | .blocked _ _ _ _, h => blockedDense_shape h
  | .sum a b, h => by
    simp only [DOp.rows, DOp.cols, DOp.toDense]
    have hb := toDense_shape h.2.1
    rw [← h.2.2.1, ← h.2.2.2] at hb
    exact isMat_madd (toDense_shape h.1) hb
  | .prod a b, h => by
    simp only [DOp.rows, DOp.cols, DOp.toDense]
    have ha := toDense_shape h.1
    rw [h.2.2] at ha
    exact isMat_mmul ha (toDense_shape h.2.1)
  | .scaled a _ _, h => by
    simp only [DOp.rows, DOp.cols, DOp.toDense]
    exact isMat_msmul _ (toDense_shape (d := a) h)

/-- `to_dense` agrees with `matvec`: for every tree and every vector of the right length (whatever its dtype flag) -/
theorem matvec_eq (hp : LawfulParts R) : ∀ {d : DOp R}, WFD d → ∀ (xc : Bool) (x : Vec R), x.length = d.cols →
    d.matvec xc x = mulVec d.toDense x
  | .leaf _ _ _ _ _, _, xc, x, _ => by simp only [DOp.matvec, DOp.toDense]; exact applyMat_eq hp _ _ _ _
  | .blocked _ _ _ _, h, xc, x, hx => by
    simp only [DOp.matvec, DOp.toDense]
    exact blockedMv_eq hp xc h x hx
  | .sum a b, h, xc, x, hx => by
    simp only [DOp.matvec, DOp.toDense, DOp.cols] at hx ⊢
    rw [matvec_eq hp h.1 xc x hx, matvec_eq hp h.2.1 xc x (by rw [← h.2.2.2]; exact hx), mulVec_madd]
  | .prod a b, h, xc, x, hx => by
    simp only [DOp.matvec, DOp.toDense, DOp.cols] at hx ⊢
    rw [matvec_eq hp h.2.1 xc x hx, mulVec_mmul]
    apply matvec_eq hp h.1
    rw [mulVec_length, (toDense_shape h.2.1).1, h.2.2]
  | .scaled a _ _, h, xc, x, hx => by
    simp only [DOp.matvec, DOp.toDense, DOp.cols] at hx ⊢
    rw [matvec_eq hp (d := a) h xc x hx, mulVec_msmul]

theorem matvec_length (hp : LawfulParts R) {d : DOp R} (h : WFD d) (xc : Bool) (x : Vec R) (hx : x.length = d.cols) :
    (d.matvec xc x).length = d.rows := by
  rw [matvec_eq hp h xc x hx, mulVec_length, (toDense_shape h).1]

/-! ### dispatching operations -/

theorem dAdd_ok {a b d : DOp R} (h : dAdd a b = .ok d) (ha : WFD a) (hb : WFD b) :
    WFD d ∧ d.rows = a.rows ∧ d.cols = a.cols ∧ d.toDense = madd a.toDense b.toDense := by
  unfold dAdd at h
  split at h
  · rename_i hs
    have hsh : IsMat a.rows a.cols (madd a.toDense b.toDense) := by
      have hb' := toDense_shape hb
      rw [← hs.1, ← hs.2] at hb'
      exact isMat_madd (toDense_shape ha) hb'
    split at h
    · cases h; exact ⟨hsh, rfl, rfl, rfl⟩
    · cases h; exact ⟨hsh, rfl, rfl, rfl⟩
    · cases h; exact ⟨⟨ha, hb, hs.1, hs.2⟩, rfl, rfl, rfl⟩
  · cases h

theorem dMul_ok {a b d : DOp R} (h : dMul a b = .ok d) (ha : WFD a) (hb : WFD b) :
    WFD d ∧ d.rows = a.rows ∧ d.cols = b.cols ∧ d.toDense = mmul a.toDense b.toDense b.cols := by
  unfold dMul at h
  split at h
  · rename_i hs
    have hsh : IsMat a.rows b.cols (mmul a.toDense b.toDense b.cols) := by
      have ha' := toDense_shape ha
      rw [hs] at ha'
      exact isMat_mmul ha' (toDense_shape hb)
    split at h
    · cases h; exact ⟨hsh, rfl, rfl, rfl⟩
    · cases h; exact ⟨hsh, rfl, rfl, rfl⟩
    · cases h; exact ⟨⟨ha, hb, hs⟩, rfl, rfl, rfl⟩
  · cases h

theorem dScale_ok (v : R) (c : Bool) {a : DOp R} (ha : WFD a) :
    WFD (dScale v c a) ∧ (dScale v c a).rows = a.rows ∧ (dScale v c a).cols = a.cols ∧
      (dScale v c a).toDense = msmul v a.toDense := by
  unfold dScale
  split
  · exact ⟨isMat_msmul v (toDense_shape ha), rfl, rfl, rfl⟩
  · exact ⟨ha, rfl, rfl, rfl⟩

theorem dNeg_ok {a : DOp R} (ha : WFD a) :
    WFD (dNeg a) ∧ (dNeg a).rows = a.rows ∧ (dNeg a).cols = a.cols ∧ (dNeg a).toDense = msmul (-1) a.toDense := by
  unfold dNeg
  split
  · exact ⟨isMat_msmul _ (toDense_shape ha), rfl, rfl, rfl⟩
  · exact ⟨ha, rfl, rfl, rfl⟩

theorem dTranspose_ok {a d : DOp R} (h : dTranspose a = .ok d) (ha : WFD a) :
    WFD d ∧ d.rows = a.cols ∧ d.cols = a.rows ∧ d.toDense = transposeM a.toDense a.cols := by
  unfold dTranspose at h
  split at h
  · cases h; exact ⟨isMat_transpose _ (toDense_shape ha).1, rfl, rfl, rfl⟩
  · cases h

theorem dAdjoint_ok {a d : DOp R} (h : dAdjoint a = .ok d) (ha : WFD a) :
    WFD d ∧ d.rows = a.cols ∧ d.cols = a.rows ∧
      d.toDense = (transposeM a.toDense a.cols).map (·.map CParts.conj) := by
  unfold dAdjoint at h
  split at h
  · cases h; exact ⟨isMat_map_map _ (isMat_transpose _ (toDense_shape ha).1), rfl, rfl, rfl⟩
  · cases h

end BemppVerif.Lemmas.AlgMat
