/- Helper lemmas for C17: sums over lists (`sumOver`), delta collapses, flattening of `range (m*n)`. -/
import BemppVerif.Model.Fmm
import BemppVerif.Lemmas.ListSum
import Mathlib.Tactic.Ring

namespace BemppVerif.Lemmas.FmmSum
open BemppVerif.Model.Fmm BemppVerif.Lemmas

variable {R : Type} [CommRing R] {α β : Type}

theorem sumOver_nil (f : α → R) : sumOver ([] : List α) f = 0 := rfl

theorem sumOver_cons (a : α) (l : List α) (f : α → R) : sumOver (a :: l) f = f a + sumOver l f := by
  simp [sumOver]

theorem sumOver_append (l m : List α) (f : α → R) : sumOver (l ++ m) f = sumOver l f + sumOver m f := by
  simp [sumOver]

theorem sumOver_map (l : List β) (g : β → α) (f : α → R) : sumOver (l.map g) f = sumOver l (fun b => f (g b)) := by
  simp [sumOver, Function.comp_def]

theorem sumOver_flatMap (l : List α) (g : α → List β) (f : β → R) :
    sumOver (l.flatMap g) f = sumOver l fun a => sumOver (g a) f := by
  unfold sumOver; exact sum_map_flatMap l g f

theorem sumOver_congr (l : List α) (f g : α → R) (h : ∀ a ∈ l, f a = g a) : sumOver l f = sumOver l g :=
  sum_map_congr l f g h

theorem sumOver_zero (l : List α) : sumOver l (fun _ => (0 : R)) = 0 := by
  induction l with
  | nil => rfl
  | cons a l ih => rw [sumOver_cons, ih, add_zero]

theorem sumOver_add (l : List α) (f g : α → R) :
    sumOver l (fun a => f a + g a) = sumOver l f + sumOver l g := sum_map_add' l f g

theorem sumOver_neg (l : List α) (f : α → R) : sumOver l (fun a => - f a) = - sumOver l f := by
  induction l with
  | nil => simp [sumOver_nil]
  | cons a l ih => rw [sumOver_cons, sumOver_cons, ih]; ring

theorem sumOver_sub (l : List α) (f g : α → R) :
    sumOver l (fun a => f a - g a) = sumOver l f - sumOver l g := by
  induction l with
  | nil => simp [sumOver_nil]
  | cons a l ih => rw [sumOver_cons, sumOver_cons, sumOver_cons, ih]; ring

theorem mul_sumOver (l : List α) (c : R) (f : α → R) : c * sumOver l f = sumOver l (fun a => c * f a) :=
  (sum_map_mul_left' l c f).symm

theorem sumOver_mul (l : List α) (c : R) (f : α → R) : sumOver l f * c = sumOver l (fun a => f a * c) :=
  (sum_map_mul_right' l c f).symm

theorem sumOver_comm (l : List α) (m : List β) (f : α → β → R) :
    (sumOver l fun a => sumOver m fun b => f a b) = sumOver m fun b => sumOver l fun a => f a b := by
  induction l with
  | nil => simp [sumOver_nil, sumOver_zero]
  | cons a l ih => simp only [sumOver_cons, ih, sumOver_add]

/-- a condition that does not depend on the summation variable can be pulled out -/
theorem sumOver_ite_const (l : List α) (c : Prop) [Decidable c] (f : α → R) :
    sumOver l (fun a => if c then f a else 0) = if c then sumOver l f else 0 := by
  by_cases h : c <;> simp [h, sumOver_zero]

/-- delta collapse on `range n` -/
theorem sumOver_range_delta (n a : Nat) (f : Nat → R) :
    sumOver (List.range n) (fun b => if b = a then f b else 0) = if a < n then f a else 0 := by
  induction n with
  | zero => simp [sumOver_nil]
  | succ n ih =>
    rw [List.range_succ, sumOver_append, ih, sumOver_cons, sumOver_nil, add_zero]
    by_cases h1 : a < n
    · have : n ≠ a := by omega
      simp [h1, this, Nat.lt_succ_of_lt h1]
    · by_cases h2 : n = a
      · subst h2; simp
      · have : ¬ a < n + 1 := by omega
        simp [h1, h2, this]

/-- delta collapse on a list without duplicates -/
theorem sumOver_delta [DecidableEq α] (l : List α) (hl : l.Nodup) (a : α) (f : α → R) :
    sumOver l (fun b => if b = a then f b else 0) = if a ∈ l then f a else 0 := by
  induction l with
  | nil => simp [sumOver_nil]
  | cons b l ih =>
    rw [List.nodup_cons] at hl
    rw [sumOver_cons, ih hl.2]
    by_cases h : b = a
    · subst h; simp [hl.1]
    · have h' : ¬ a = b := fun e => h e.symm
      simp [h, h']

/-- a duplicate-free list of numbers below `n` as a filtered sum over `range n` -/
theorem sumOver_eq_range_ite (l : List Nat) (n : Nat) (hl : l.Nodup) (hb : ∀ a ∈ l, a < n) (f : Nat → R) :
    sumOver l f = sumOver (List.range n) (fun a => if a ∈ l then f a else 0) := by
  induction l with
  | nil => simp [sumOver_nil, sumOver_zero]
  | cons b l ih =>
    rw [List.nodup_cons] at hl
    rw [sumOver_cons, ih hl.2 (fun a ha => hb a (List.mem_cons_of_mem _ ha))]
    have hbn : b < n := hb b (List.mem_cons_self ..)
    have : sumOver (List.range n) (fun a => if a ∈ b :: l then f a else 0)
        = sumOver (List.range n) (fun a => (if a = b then f a else 0) + (if a ∈ l then f a else 0)) := by
      apply sumOver_congr
      intro a _
      by_cases h : a = b
      · subst h; simp [hl.1]
      · simp [h]
    rw [this, sumOver_add, sumOver_range_delta, if_pos hbn]

/-- element-major flattening: `range (m*n)` is the concatenation of the blocks `m*e + q` -/
theorem sumOver_range_mul (m n : Nat) (f : Nat → R) :
    sumOver (List.range (m * n)) f
      = sumOver (List.range n) fun e => sumOver (List.range m) fun q => f (m * e + q) := by
  induction n with
  | zero => simp [sumOver_nil]
  | succ n ih =>
    rw [Nat.mul_succ, List.range_add, sumOver_append, ih, List.range_succ, sumOver_append, sumOver_cons,
      sumOver_nil, add_zero, sumOver_map]

/-- `(e,q) ↦ m*e+q` is injective on `q < m` -/
theorem idx_inj {m e q e' q' : Nat} (hq : q < m) (hq' : q' < m) :
    m * e + q = m * e' + q' ↔ e = e' ∧ q = q' := by
  constructor
  · intro h
    have hm : 0 < m := by omega
    have h1 : (m * e + q) / m = e := by rw [Nat.mul_add_div hm, Nat.div_eq_of_lt hq, Nat.add_zero]
    have h2 : (m * e' + q') / m = e' := by rw [Nat.mul_add_div hm, Nat.div_eq_of_lt hq', Nat.add_zero]
    have he : e = e' := by rw [← h1, ← h2, h]
    subst he
    exact ⟨rfl, by omega⟩
  · rintro ⟨rfl, rfl⟩; rfl

theorem idx_div {m e q : Nat} (hq : q < m) : (m * e + q) / m = e := by
  have hm : 0 < m := by omega
  rw [Nat.mul_add_div hm, Nat.div_eq_of_lt hq, Nat.add_zero]

/-- sums over `l.zipIdx` of a function of the element only -/
theorem sumOver_zipIdx_fst (l : List α) (k : Nat) (f : α → R) :
    sumOver (l.zipIdx k) (fun p => f p.1) = sumOver l f := by
  induction l generalizing k with
  | nil => rfl
  | cons a l ih => rw [List.zipIdx_cons, sumOver_cons, sumOver_cons, ih]

/-- delta collapse on the positions of `zipIdx` -/
theorem sumOver_zipIdx_delta (l : List α) (k : Nat) (a : α) (i : Nat) (h : (a, i) ∈ l.zipIdx k)
    (f : α × Nat → R) :
    sumOver (l.zipIdx k) (fun p => if p.2 = i then f p else 0) = f (a, i) := by
  induction l generalizing k with
  | nil => simp at h
  | cons b l ih =>
    rw [List.zipIdx_cons, sumOver_cons]
    rw [List.zipIdx_cons, List.mem_cons] at h
    rcases h with h | h
    · have hb : b = a := (Prod.mk.inj h).1.symm
      have hk : k = i := (Prod.mk.inj h).2.symm
      subst hb; subst hk
      have : sumOver (l.zipIdx (k + 1)) (fun p => if p.2 = k then f p else 0) = 0 := by
        refine (sumOver_congr _ _ (fun _ => (0 : R)) ?_).trans (sumOver_zero _)
        intro p hp
        have := (List.mem_zipIdx (x := p.1) (i := p.2) hp).1
        have : p.2 ≠ k := by omega
        simp [this]
      simp [this]
    · have hi := (List.mem_zipIdx h).1
      have : k ≠ i := by omega
      simp only [this, if_false, zero_add]
      exact ih (k + 1) h

end BemppVerif.Lemmas.FmmSum
