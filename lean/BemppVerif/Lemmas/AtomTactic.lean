/-
`generalize_atoms [c₁, c₂, …]`: replace, in the goal, every maximal subterm that is an application of a local
hypothesis/variable (`J 0 1 0`, `qu 1`, `Gcre 4 0`, …) or of one of the listed constants (`piola J ie 0 1 2 (qu 0) (qv 0)`)
by a fresh variable.  Purely a performance device for `ring` on the generated assembler identities: `ring` compares
atoms with `isDefEq`, which is slow on thousands of occurrences of applications with numeral arguments and fast on
variables (measured: 54 s → 2 s on one electric-field entry).  The tactic only calls `MVarId.generalize`; the resulting
proof is checked by the kernel like any other.
-/
import Lean.Elab.Tactic.Basic
import Lean.Meta.Tactic.Generalize

namespace BemppVerif.AtomTactic
open Lean Elab Tactic Meta

/-- collect maximal applications headed by a free variable or by one of `heads` (no loose bound variables) -/
def collect (heads : List Name) : Expr → Array Expr → Array Expr
  | e@(.app f a), acc =>
    let fn := e.getAppFn
    let isHead := fn.isFVar || (match fn with | .const n _ => heads.contains n | _ => false)
    if isHead && !e.hasLooseBVars then (if acc.contains e then acc else acc.push e)
    else collect heads a (collect heads f acc)
  | .lam _ t b _, acc => collect heads b (collect heads t acc)
  | .forallE _ t b _, acc => collect heads b (collect heads t acc)
  | .letE _ t v b _, acc => collect heads b (collect heads v (collect heads t acc))
  | .mdata _ b, acc => collect heads b acc
  | .proj _ _ b, acc => collect heads b acc
  | _, acc => acc

syntax (name := generalizeAtoms) "generalize_atoms" (" [" ident,* "]")? : tactic

@[tactic generalizeAtoms] def evalGeneralizeAtoms : Tactic := fun stx => do
  let heads ← match stx with
    | `(tactic| generalize_atoms [$ids,*]) => ids.getElems.toList.mapM fun (id : TSyntax `ident) => do
        let n ← realizeGlobalConstNoOverloadWithInfo id.raw
        pure n
    | _ => pure []
  let g ← getMainGoal
  let tgt ← instantiateMVars (← g.getType)
  let atoms := collect heads tgt #[]
  if atoms.isEmpty then return
  let args := atoms.map fun e => ({ expr := e } : GeneralizeArg)
  let (_, g') ← g.generalize args
  replaceMainGoal [g']

end BemppVerif.AtomTactic
