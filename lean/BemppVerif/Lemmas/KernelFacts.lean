/-
Canonical Green's-function kernels (the specification) and the proof that every traced Numba kernel
(`Gen/NumbaKernels.lean`, regenerated from bempp_cl/core/numba_kernels.py on every run) equals its canonical form,
for all arguments, over any field with arbitrary functions sqrt/cos/sin/exp.

Conventions: x = test point, y = trial point, d = y - x, r = sqrt (d·d), k = p0 + i p1 (Helmholtz), ω = p0 (modified).
  G(x,y) = c4pi e^{ikr}/r,   ∂G/∂n_y = G (ikr-1) (d·n_y)/r²,   ∂G/∂n_x = -G (ikr-1) (d·n_x)/r².
(this file's statements were laid out by a script; it is maintained by hand)
-/
import BemppVerif.Gen.NumbaKernels
import Mathlib.Tactic.Ring

namespace BemppVerif.Kernels
open BemppVerif.Gen.NumbaKernels
set_option linter.unusedVariables false
set_option linter.unusedSimpArgs false

/-- distance |y - x| -/
def r {K : Type} [Field K] (sqrt cos sin exp : K → K) (c4pi : K) (x0 x1 x2 y0 y1 y2 nx0 nx1 nx2 ny0 ny1 ny2 p0 p1 : K) : K :=
  sqrt ((y0 - x0) ^ 2 + (y1 - x1) ^ 2 + (y2 - x2) ^ 2)
/-- (y - x)·n_y -/
def dny {K : Type} [Field K] (sqrt cos sin exp : K → K) (c4pi : K) (x0 x1 x2 y0 y1 y2 nx0 nx1 nx2 ny0 ny1 ny2 p0 p1 : K) : K :=
  (y0 - x0) * ny0 + (y1 - x1) * ny1 + (y2 - x2) * ny2
/-- (y - x)·n_x -/
def dnx {K : Type} [Field K] (sqrt cos sin exp : K → K) (c4pi : K) (x0 x1 x2 y0 y1 y2 nx0 nx1 nx2 ny0 ny1 ny2 p0 p1 : K) : K :=
  (y0 - x0) * nx0 + (y1 - x1) * nx1 + (y2 - x2) * nx2
/-- Laplace G = c4pi / r -/
def lapSL {K : Type} [Field K] (sqrt cos sin exp : K → K) (c4pi : K) (x0 x1 x2 y0 y1 y2 nx0 nx1 nx2 ny0 ny1 ny2 p0 p1 : K) : K :=
  c4pi / r sqrt cos sin exp c4pi x0 x1 x2 y0 y1 y2 nx0 nx1 nx2 ny0 ny1 ny2 p0 p1
/-- ∂G/∂n_y -/
def lapDL {K : Type} [Field K] (sqrt cos sin exp : K → K) (c4pi : K) (x0 x1 x2 y0 y1 y2 nx0 nx1 nx2 ny0 ny1 ny2 p0 p1 : K) : K :=
  -c4pi * dny sqrt cos sin exp c4pi x0 x1 x2 y0 y1 y2 nx0 nx1 nx2 ny0 ny1 ny2 p0 p1 / (r sqrt cos sin exp c4pi x0 x1 x2 y0 y1 y2 nx0 nx1 nx2 ny0 ny1 ny2 p0 p1) ^ 3
/-- ∂G/∂n_x -/
def lapADL {K : Type} [Field K] (sqrt cos sin exp : K → K) (c4pi : K) (x0 x1 x2 y0 y1 y2 nx0 nx1 nx2 ny0 ny1 ny2 p0 p1 : K) : K :=
  c4pi * dnx sqrt cos sin exp c4pi x0 x1 x2 y0 y1 y2 nx0 nx1 nx2 ny0 ny1 ny2 p0 p1 / (r sqrt cos sin exp c4pi x0 x1 x2 y0 y1 y2 nx0 nx1 nx2 ny0 ny1 ny2 p0 p1) ^ 3
/-- Re of G = c4pi e^{ikr}/r, k = p0 + i p1 -/
def helmSLre {K : Type} [Field K] (sqrt cos sin exp : K → K) (c4pi : K) (x0 x1 x2 y0 y1 y2 nx0 nx1 nx2 ny0 ny1 ny2 p0 p1 : K) : K :=
  c4pi * exp (-(p1 * r sqrt cos sin exp c4pi x0 x1 x2 y0 y1 y2 nx0 nx1 nx2 ny0 ny1 ny2 p0 p1)) * cos (p0 * r sqrt cos sin exp c4pi x0 x1 x2 y0 y1 y2 nx0 nx1 nx2 ny0 ny1 ny2 p0 p1) / r sqrt cos sin exp c4pi x0 x1 x2 y0 y1 y2 nx0 nx1 nx2 ny0 ny1 ny2 p0 p1
/-- Im of G -/
def helmSLim {K : Type} [Field K] (sqrt cos sin exp : K → K) (c4pi : K) (x0 x1 x2 y0 y1 y2 nx0 nx1 nx2 ny0 ny1 ny2 p0 p1 : K) : K :=
  c4pi * exp (-(p1 * r sqrt cos sin exp c4pi x0 x1 x2 y0 y1 y2 nx0 nx1 nx2 ny0 ny1 ny2 p0 p1)) * sin (p0 * r sqrt cos sin exp c4pi x0 x1 x2 y0 y1 y2 nx0 nx1 nx2 ny0 ny1 ny2 p0 p1) / r sqrt cos sin exp c4pi x0 x1 x2 y0 y1 y2 nx0 nx1 nx2 ny0 ny1 ny2 p0 p1
/-- Re of G (ikr - 1) -/
def helmFre {K : Type} [Field K] (sqrt cos sin exp : K → K) (c4pi : K) (x0 x1 x2 y0 y1 y2 nx0 nx1 nx2 ny0 ny1 ny2 p0 p1 : K) : K :=
  helmSLre sqrt cos sin exp c4pi x0 x1 x2 y0 y1 y2 nx0 nx1 nx2 ny0 ny1 ny2 p0 p1 * (-1 - p1 * r sqrt cos sin exp c4pi x0 x1 x2 y0 y1 y2 nx0 nx1 nx2 ny0 ny1 ny2 p0 p1) - helmSLim sqrt cos sin exp c4pi x0 x1 x2 y0 y1 y2 nx0 nx1 nx2 ny0 ny1 ny2 p0 p1 * (p0 * r sqrt cos sin exp c4pi x0 x1 x2 y0 y1 y2 nx0 nx1 nx2 ny0 ny1 ny2 p0 p1)
/-- Im of G (ikr - 1) -/
def helmFim {K : Type} [Field K] (sqrt cos sin exp : K → K) (c4pi : K) (x0 x1 x2 y0 y1 y2 nx0 nx1 nx2 ny0 ny1 ny2 p0 p1 : K) : K :=
  helmSLre sqrt cos sin exp c4pi x0 x1 x2 y0 y1 y2 nx0 nx1 nx2 ny0 ny1 ny2 p0 p1 * (p0 * r sqrt cos sin exp c4pi x0 x1 x2 y0 y1 y2 nx0 nx1 nx2 ny0 ny1 ny2 p0 p1) + helmSLim sqrt cos sin exp c4pi x0 x1 x2 y0 y1 y2 nx0 nx1 nx2 ny0 ny1 ny2 p0 p1 * (-1 - p1 * r sqrt cos sin exp c4pi x0 x1 x2 y0 y1 y2 nx0 nx1 nx2 ny0 ny1 ny2 p0 p1)
/-- Re ∂G/∂n_y -/
def helmDLre {K : Type} [Field K] (sqrt cos sin exp : K → K) (c4pi : K) (x0 x1 x2 y0 y1 y2 nx0 nx1 nx2 ny0 ny1 ny2 p0 p1 : K) : K :=
  helmFre sqrt cos sin exp c4pi x0 x1 x2 y0 y1 y2 nx0 nx1 nx2 ny0 ny1 ny2 p0 p1 * dny sqrt cos sin exp c4pi x0 x1 x2 y0 y1 y2 nx0 nx1 nx2 ny0 ny1 ny2 p0 p1 / (r sqrt cos sin exp c4pi x0 x1 x2 y0 y1 y2 nx0 nx1 nx2 ny0 ny1 ny2 p0 p1) ^ 2
/-- Im ∂G/∂n_y -/
def helmDLim {K : Type} [Field K] (sqrt cos sin exp : K → K) (c4pi : K) (x0 x1 x2 y0 y1 y2 nx0 nx1 nx2 ny0 ny1 ny2 p0 p1 : K) : K :=
  helmFim sqrt cos sin exp c4pi x0 x1 x2 y0 y1 y2 nx0 nx1 nx2 ny0 ny1 ny2 p0 p1 * dny sqrt cos sin exp c4pi x0 x1 x2 y0 y1 y2 nx0 nx1 nx2 ny0 ny1 ny2 p0 p1 / (r sqrt cos sin exp c4pi x0 x1 x2 y0 y1 y2 nx0 nx1 nx2 ny0 ny1 ny2 p0 p1) ^ 2
/-- Re ∂G/∂n_x -/
def helmADLre {K : Type} [Field K] (sqrt cos sin exp : K → K) (c4pi : K) (x0 x1 x2 y0 y1 y2 nx0 nx1 nx2 ny0 ny1 ny2 p0 p1 : K) : K :=
  -(helmFre sqrt cos sin exp c4pi x0 x1 x2 y0 y1 y2 nx0 nx1 nx2 ny0 ny1 ny2 p0 p1 * dnx sqrt cos sin exp c4pi x0 x1 x2 y0 y1 y2 nx0 nx1 nx2 ny0 ny1 ny2 p0 p1 / (r sqrt cos sin exp c4pi x0 x1 x2 y0 y1 y2 nx0 nx1 nx2 ny0 ny1 ny2 p0 p1) ^ 2)
/-- Im ∂G/∂n_x -/
def helmADLim {K : Type} [Field K] (sqrt cos sin exp : K → K) (c4pi : K) (x0 x1 x2 y0 y1 y2 nx0 nx1 nx2 ny0 ny1 ny2 p0 p1 : K) : K :=
  -(helmFim sqrt cos sin exp c4pi x0 x1 x2 y0 y1 y2 nx0 nx1 nx2 ny0 ny1 ny2 p0 p1 * dnx sqrt cos sin exp c4pi x0 x1 x2 y0 y1 y2 nx0 nx1 nx2 ny0 ny1 ny2 p0 p1 / (r sqrt cos sin exp c4pi x0 x1 x2 y0 y1 y2 nx0 nx1 nx2 ny0 ny1 ny2 p0 p1) ^ 2)
/-- modified Helmholtz G = c4pi e^{-ωr}/r, ω = p0 -/
def modSL {K : Type} [Field K] (sqrt cos sin exp : K → K) (c4pi : K) (x0 x1 x2 y0 y1 y2 nx0 nx1 nx2 ny0 ny1 ny2 p0 p1 : K) : K :=
  c4pi * exp (-(p0 * r sqrt cos sin exp c4pi x0 x1 x2 y0 y1 y2 nx0 nx1 nx2 ny0 ny1 ny2 p0 p1)) / r sqrt cos sin exp c4pi x0 x1 x2 y0 y1 y2 nx0 nx1 nx2 ny0 ny1 ny2 p0 p1
/-- ∂G/∂n_y -/
def modDL {K : Type} [Field K] (sqrt cos sin exp : K → K) (c4pi : K) (x0 x1 x2 y0 y1 y2 nx0 nx1 nx2 ny0 ny1 ny2 p0 p1 : K) : K :=
  -(modSL sqrt cos sin exp c4pi x0 x1 x2 y0 y1 y2 nx0 nx1 nx2 ny0 ny1 ny2 p0 p1 * (p0 * r sqrt cos sin exp c4pi x0 x1 x2 y0 y1 y2 nx0 nx1 nx2 ny0 ny1 ny2 p0 p1 + 1) * dny sqrt cos sin exp c4pi x0 x1 x2 y0 y1 y2 nx0 nx1 nx2 ny0 ny1 ny2 p0 p1 / (r sqrt cos sin exp c4pi x0 x1 x2 y0 y1 y2 nx0 nx1 nx2 ny0 ny1 ny2 p0 p1) ^ 2)
/-- ∂G/∂n_x -/
def modADL {K : Type} [Field K] (sqrt cos sin exp : K → K) (c4pi : K) (x0 x1 x2 y0 y1 y2 nx0 nx1 nx2 ny0 ny1 ny2 p0 p1 : K) : K :=
  modSL sqrt cos sin exp c4pi x0 x1 x2 y0 y1 y2 nx0 nx1 nx2 ny0 ny1 ny2 p0 p1 * (p0 * r sqrt cos sin exp c4pi x0 x1 x2 y0 y1 y2 nx0 nx1 nx2 ny0 ny1 ny2 p0 p1 + 1) * dnx sqrt cos sin exp c4pi x0 x1 x2 y0 y1 y2 nx0 nx1 nx2 ny0 ny1 ny2 p0 p1 / (r sqrt cos sin exp c4pi x0 x1 x2 y0 y1 y2 nx0 nx1 nx2 ny0 ny1 ny2 p0 p1) ^ 2
/-- x·y (x = far-field direction) -/
def xdoty {K : Type} [Field K] (sqrt cos sin exp : K → K) (c4pi : K) (x0 x1 x2 y0 y1 y2 nx0 nx1 nx2 ny0 ny1 ny2 p0 p1 : K) : K :=
  x0 * y0 + x1 * y1 + x2 * y2
/-- x·n_y -/
def xdotny {K : Type} [Field K] (sqrt cos sin exp : K → K) (c4pi : K) (x0 x1 x2 y0 y1 y2 nx0 nx1 nx2 ny0 ny1 ny2 p0 p1 : K) : K :=
  x0 * ny0 + x1 * ny1 + x2 * ny2
/-- Re c4pi e^{-i p0 x·y} (the code uses only Re k) -/
def ffSLre {K : Type} [Field K] (sqrt cos sin exp : K → K) (c4pi : K) (x0 x1 x2 y0 y1 y2 nx0 nx1 nx2 ny0 ny1 ny2 p0 p1 : K) : K :=
  c4pi * cos (-(p0 * xdoty sqrt cos sin exp c4pi x0 x1 x2 y0 y1 y2 nx0 nx1 nx2 ny0 ny1 ny2 p0 p1))
/-- Im -/
def ffSLim {K : Type} [Field K] (sqrt cos sin exp : K → K) (c4pi : K) (x0 x1 x2 y0 y1 y2 nx0 nx1 nx2 ny0 ny1 ny2 p0 p1 : K) : K :=
  c4pi * sin (-(p0 * xdoty sqrt cos sin exp c4pi x0 x1 x2 y0 y1 y2 nx0 nx1 nx2 ny0 ny1 ny2 p0 p1))
/-- Re of -i p0 (x·n_y) c4pi e^{-i p0 x·y} -/
def ffDLre {K : Type} [Field K] (sqrt cos sin exp : K → K) (c4pi : K) (x0 x1 x2 y0 y1 y2 nx0 nx1 nx2 ny0 ny1 ny2 p0 p1 : K) : K :=
  p0 * xdotny sqrt cos sin exp c4pi x0 x1 x2 y0 y1 y2 nx0 nx1 nx2 ny0 ny1 ny2 p0 p1 * c4pi * sin (-(p0 * xdoty sqrt cos sin exp c4pi x0 x1 x2 y0 y1 y2 nx0 nx1 nx2 ny0 ny1 ny2 p0 p1))
/-- Im -/
def ffDLim {K : Type} [Field K] (sqrt cos sin exp : K → K) (c4pi : K) (x0 x1 x2 y0 y1 y2 nx0 nx1 nx2 ny0 ny1 ny2 p0 p1 : K) : K :=
  -(p0 * xdotny sqrt cos sin exp c4pi x0 x1 x2 y0 y1 y2 nx0 nx1 nx2 ny0 ny1 ny2 p0 p1 * c4pi * cos (-(p0 * xdoty sqrt cos sin exp c4pi x0 x1 x2 y0 y1 y2 nx0 nx1 nx2 ny0 ny1 ny2 p0 p1)))

section thms
variable {K : Type} [Field K] (sqrt cos sin exp : K → K) (c4pi : K)

theorem laplace_sl_regular (x0 x1 x2 y0 y1 y2 nx0 nx1 nx2 ny0 ny1 ny2 p0 p1 : K) :
    laplace_single_layer_regular_re sqrt cos sin exp c4pi x0 x1 x2 y0 y1 y2 nx0 nx1 nx2 ny0 ny1 ny2 p0 p1 = lapSL sqrt cos sin exp c4pi x0 x1 x2 y0 y1 y2 nx0 nx1 nx2 ny0 ny1 ny2 p0 p1 := by
  simp only [laplace_single_layer_regular_re, r, dny, dnx, lapSL, lapDL, lapADL, helmSLre, helmSLim, helmFre, helmFim, helmDLre, helmDLim, helmADLre, helmADLim, modSL, modDL, modADL, xdoty, xdotny, ffSLre, ffSLim, ffDLre, ffDLim] <;> ring_nf

theorem laplace_dl_regular (x0 x1 x2 y0 y1 y2 nx0 nx1 nx2 ny0 ny1 ny2 p0 p1 : K) :
    laplace_double_layer_regular_re sqrt cos sin exp c4pi x0 x1 x2 y0 y1 y2 nx0 nx1 nx2 ny0 ny1 ny2 p0 p1 = lapDL sqrt cos sin exp c4pi x0 x1 x2 y0 y1 y2 nx0 nx1 nx2 ny0 ny1 ny2 p0 p1 := by
  simp only [laplace_double_layer_regular_re, r, dny, dnx, lapSL, lapDL, lapADL, helmSLre, helmSLim, helmFre, helmFim, helmDLre, helmDLim, helmADLre, helmADLim, modSL, modDL, modADL, xdoty, xdotny, ffSLre, ffSLim, ffDLre, ffDLim] <;> ring_nf

theorem laplace_adl_regular (x0 x1 x2 y0 y1 y2 nx0 nx1 nx2 ny0 ny1 ny2 p0 p1 : K) :
    laplace_adjoint_double_layer_regular_re sqrt cos sin exp c4pi x0 x1 x2 y0 y1 y2 nx0 nx1 nx2 ny0 ny1 ny2 p0 p1 = lapADL sqrt cos sin exp c4pi x0 x1 x2 y0 y1 y2 nx0 nx1 nx2 ny0 ny1 ny2 p0 p1 := by
  simp only [laplace_adjoint_double_layer_regular_re, r, dny, dnx, lapSL, lapDL, lapADL, helmSLre, helmSLim, helmFre, helmFim, helmDLre, helmDLim, helmADLre, helmADLim, modSL, modDL, modADL, xdoty, xdotny, ffSLre, ffSLim, ffDLre, ffDLim] <;> ring_nf

theorem modified_sl_regular (x0 x1 x2 y0 y1 y2 nx0 nx1 nx2 ny0 ny1 ny2 p0 p1 : K) :
    modified_helmholtz_single_layer_regular_re sqrt cos sin exp c4pi x0 x1 x2 y0 y1 y2 nx0 nx1 nx2 ny0 ny1 ny2 p0 p1 = modSL sqrt cos sin exp c4pi x0 x1 x2 y0 y1 y2 nx0 nx1 nx2 ny0 ny1 ny2 p0 p1 := by
  simp only [modified_helmholtz_single_layer_regular_re, r, dny, dnx, lapSL, lapDL, lapADL, helmSLre, helmSLim, helmFre, helmFim, helmDLre, helmDLim, helmADLre, helmADLim, modSL, modDL, modADL, xdoty, xdotny, ffSLre, ffSLim, ffDLre, ffDLim] <;> ring_nf

theorem modified_dl_regular (x0 x1 x2 y0 y1 y2 nx0 nx1 nx2 ny0 ny1 ny2 p0 p1 : K) :
    modified_helmholtz_double_layer_regular_re sqrt cos sin exp c4pi x0 x1 x2 y0 y1 y2 nx0 nx1 nx2 ny0 ny1 ny2 p0 p1 = modDL sqrt cos sin exp c4pi x0 x1 x2 y0 y1 y2 nx0 nx1 nx2 ny0 ny1 ny2 p0 p1 := by
  simp only [modified_helmholtz_double_layer_regular_re, r, dny, dnx, lapSL, lapDL, lapADL, helmSLre, helmSLim, helmFre, helmFim, helmDLre, helmDLim, helmADLre, helmADLim, modSL, modDL, modADL, xdoty, xdotny, ffSLre, ffSLim, ffDLre, ffDLim] <;> ring_nf

theorem modified_adl_regular (x0 x1 x2 y0 y1 y2 nx0 nx1 nx2 ny0 ny1 ny2 p0 p1 : K) :
    modified_helmholtz_adjoint_double_layer_regular_re sqrt cos sin exp c4pi x0 x1 x2 y0 y1 y2 nx0 nx1 nx2 ny0 ny1 ny2 p0 p1 = modADL sqrt cos sin exp c4pi x0 x1 x2 y0 y1 y2 nx0 nx1 nx2 ny0 ny1 ny2 p0 p1 := by
  simp only [modified_helmholtz_adjoint_double_layer_regular_re, r, dny, dnx, lapSL, lapDL, lapADL, helmSLre, helmSLim, helmFre, helmFim, helmDLre, helmDLim, helmADLre, helmADLim, modSL, modDL, modADL, xdoty, xdotny, ffSLre, ffSLim, ffDLre, ffDLim] <;> ring_nf

theorem helmholtz_sl_regular_imnz_re (x0 x1 x2 y0 y1 y2 nx0 nx1 nx2 ny0 ny1 ny2 p0 p1 : K) :
    helmholtz_single_layer_regular_imnz_re sqrt cos sin exp c4pi x0 x1 x2 y0 y1 y2 nx0 nx1 nx2 ny0 ny1 ny2 p0 p1 = helmSLre sqrt cos sin exp c4pi x0 x1 x2 y0 y1 y2 nx0 nx1 nx2 ny0 ny1 ny2 p0 p1 := by
  simp only [helmholtz_single_layer_regular_imnz_re, r, dny, dnx, lapSL, lapDL, lapADL, helmSLre, helmSLim, helmFre, helmFim, helmDLre, helmDLim, helmADLre, helmADLim, modSL, modDL, modADL, xdoty, xdotny, ffSLre, ffSLim, ffDLre, ffDLim] <;> ring_nf

theorem helmholtz_sl_regular_im0_re (x0 x1 x2 y0 y1 y2 nx0 nx1 nx2 ny0 ny1 ny2 p0 p1 : K) (hexp : exp 0 = 1) :
    helmholtz_single_layer_regular_im0_re sqrt cos sin exp c4pi x0 x1 x2 y0 y1 y2 nx0 nx1 nx2 ny0 ny1 ny2 p0 p1 = helmSLre sqrt cos sin exp c4pi x0 x1 x2 y0 y1 y2 nx0 nx1 nx2 ny0 ny1 ny2 p0 0 := by
  simp only [helmholtz_single_layer_regular_im0_re, r, dny, dnx, lapSL, lapDL, lapADL, helmSLre, helmSLim, helmFre, helmFim, helmDLre, helmDLim, helmADLre, helmADLim, modSL, modDL, modADL, xdoty, xdotny, ffSLre, ffSLim, ffDLre, ffDLim]
  simp only [zero_mul, neg_zero, hexp] <;> ring_nf

theorem helmholtz_sl_regular_imnz_im (x0 x1 x2 y0 y1 y2 nx0 nx1 nx2 ny0 ny1 ny2 p0 p1 : K) :
    helmholtz_single_layer_regular_imnz_im sqrt cos sin exp c4pi x0 x1 x2 y0 y1 y2 nx0 nx1 nx2 ny0 ny1 ny2 p0 p1 = helmSLim sqrt cos sin exp c4pi x0 x1 x2 y0 y1 y2 nx0 nx1 nx2 ny0 ny1 ny2 p0 p1 := by
  simp only [helmholtz_single_layer_regular_imnz_im, r, dny, dnx, lapSL, lapDL, lapADL, helmSLre, helmSLim, helmFre, helmFim, helmDLre, helmDLim, helmADLre, helmADLim, modSL, modDL, modADL, xdoty, xdotny, ffSLre, ffSLim, ffDLre, ffDLim] <;> ring_nf

theorem helmholtz_sl_regular_im0_im (x0 x1 x2 y0 y1 y2 nx0 nx1 nx2 ny0 ny1 ny2 p0 p1 : K) (hexp : exp 0 = 1) :
    helmholtz_single_layer_regular_im0_im sqrt cos sin exp c4pi x0 x1 x2 y0 y1 y2 nx0 nx1 nx2 ny0 ny1 ny2 p0 p1 = helmSLim sqrt cos sin exp c4pi x0 x1 x2 y0 y1 y2 nx0 nx1 nx2 ny0 ny1 ny2 p0 0 := by
  simp only [helmholtz_single_layer_regular_im0_im, r, dny, dnx, lapSL, lapDL, lapADL, helmSLre, helmSLim, helmFre, helmFim, helmDLre, helmDLim, helmADLre, helmADLim, modSL, modDL, modADL, xdoty, xdotny, ffSLre, ffSLim, ffDLre, ffDLim]
  simp only [zero_mul, neg_zero, hexp] <;> ring_nf

theorem helmholtz_dl_regular_imnz_re (x0 x1 x2 y0 y1 y2 nx0 nx1 nx2 ny0 ny1 ny2 p0 p1 : K) :
    helmholtz_double_layer_regular_imnz_re sqrt cos sin exp c4pi x0 x1 x2 y0 y1 y2 nx0 nx1 nx2 ny0 ny1 ny2 p0 p1 = helmDLre sqrt cos sin exp c4pi x0 x1 x2 y0 y1 y2 nx0 nx1 nx2 ny0 ny1 ny2 p0 p1 := by
  simp only [helmholtz_double_layer_regular_imnz_re, r, dny, dnx, lapSL, lapDL, lapADL, helmSLre, helmSLim, helmFre, helmFim, helmDLre, helmDLim, helmADLre, helmADLim, modSL, modDL, modADL, xdoty, xdotny, ffSLre, ffSLim, ffDLre, ffDLim] <;> ring_nf

theorem helmholtz_dl_regular_im0_re (x0 x1 x2 y0 y1 y2 nx0 nx1 nx2 ny0 ny1 ny2 p0 p1 : K) (hexp : exp 0 = 1) :
    helmholtz_double_layer_regular_im0_re sqrt cos sin exp c4pi x0 x1 x2 y0 y1 y2 nx0 nx1 nx2 ny0 ny1 ny2 p0 p1 = helmDLre sqrt cos sin exp c4pi x0 x1 x2 y0 y1 y2 nx0 nx1 nx2 ny0 ny1 ny2 p0 0 := by
  simp only [helmholtz_double_layer_regular_im0_re, r, dny, dnx, lapSL, lapDL, lapADL, helmSLre, helmSLim, helmFre, helmFim, helmDLre, helmDLim, helmADLre, helmADLim, modSL, modDL, modADL, xdoty, xdotny, ffSLre, ffSLim, ffDLre, ffDLim]
  simp only [zero_mul, neg_zero, hexp] <;> ring_nf

theorem helmholtz_dl_regular_imnz_im (x0 x1 x2 y0 y1 y2 nx0 nx1 nx2 ny0 ny1 ny2 p0 p1 : K) :
    helmholtz_double_layer_regular_imnz_im sqrt cos sin exp c4pi x0 x1 x2 y0 y1 y2 nx0 nx1 nx2 ny0 ny1 ny2 p0 p1 = helmDLim sqrt cos sin exp c4pi x0 x1 x2 y0 y1 y2 nx0 nx1 nx2 ny0 ny1 ny2 p0 p1 := by
  simp only [helmholtz_double_layer_regular_imnz_im, r, dny, dnx, lapSL, lapDL, lapADL, helmSLre, helmSLim, helmFre, helmFim, helmDLre, helmDLim, helmADLre, helmADLim, modSL, modDL, modADL, xdoty, xdotny, ffSLre, ffSLim, ffDLre, ffDLim] <;> ring_nf

theorem helmholtz_dl_regular_im0_im (x0 x1 x2 y0 y1 y2 nx0 nx1 nx2 ny0 ny1 ny2 p0 p1 : K) (hexp : exp 0 = 1) :
    helmholtz_double_layer_regular_im0_im sqrt cos sin exp c4pi x0 x1 x2 y0 y1 y2 nx0 nx1 nx2 ny0 ny1 ny2 p0 p1 = helmDLim sqrt cos sin exp c4pi x0 x1 x2 y0 y1 y2 nx0 nx1 nx2 ny0 ny1 ny2 p0 0 := by
  simp only [helmholtz_double_layer_regular_im0_im, r, dny, dnx, lapSL, lapDL, lapADL, helmSLre, helmSLim, helmFre, helmFim, helmDLre, helmDLim, helmADLre, helmADLim, modSL, modDL, modADL, xdoty, xdotny, ffSLre, ffSLim, ffDLre, ffDLim]
  simp only [zero_mul, neg_zero, hexp] <;> ring_nf

theorem helmholtz_adl_regular_imnz_re (x0 x1 x2 y0 y1 y2 nx0 nx1 nx2 ny0 ny1 ny2 p0 p1 : K) :
    helmholtz_adjoint_double_layer_regular_imnz_re sqrt cos sin exp c4pi x0 x1 x2 y0 y1 y2 nx0 nx1 nx2 ny0 ny1 ny2 p0 p1 = helmADLre sqrt cos sin exp c4pi x0 x1 x2 y0 y1 y2 nx0 nx1 nx2 ny0 ny1 ny2 p0 p1 := by
  simp only [helmholtz_adjoint_double_layer_regular_imnz_re, r, dny, dnx, lapSL, lapDL, lapADL, helmSLre, helmSLim, helmFre, helmFim, helmDLre, helmDLim, helmADLre, helmADLim, modSL, modDL, modADL, xdoty, xdotny, ffSLre, ffSLim, ffDLre, ffDLim] <;> ring_nf

theorem helmholtz_adl_regular_im0_re (x0 x1 x2 y0 y1 y2 nx0 nx1 nx2 ny0 ny1 ny2 p0 p1 : K) (hexp : exp 0 = 1) :
    helmholtz_adjoint_double_layer_regular_im0_re sqrt cos sin exp c4pi x0 x1 x2 y0 y1 y2 nx0 nx1 nx2 ny0 ny1 ny2 p0 p1 = helmADLre sqrt cos sin exp c4pi x0 x1 x2 y0 y1 y2 nx0 nx1 nx2 ny0 ny1 ny2 p0 0 := by
  simp only [helmholtz_adjoint_double_layer_regular_im0_re, r, dny, dnx, lapSL, lapDL, lapADL, helmSLre, helmSLim, helmFre, helmFim, helmDLre, helmDLim, helmADLre, helmADLim, modSL, modDL, modADL, xdoty, xdotny, ffSLre, ffSLim, ffDLre, ffDLim]
  simp only [zero_mul, neg_zero, hexp] <;> ring_nf

theorem helmholtz_adl_regular_imnz_im (x0 x1 x2 y0 y1 y2 nx0 nx1 nx2 ny0 ny1 ny2 p0 p1 : K) :
    helmholtz_adjoint_double_layer_regular_imnz_im sqrt cos sin exp c4pi x0 x1 x2 y0 y1 y2 nx0 nx1 nx2 ny0 ny1 ny2 p0 p1 = helmADLim sqrt cos sin exp c4pi x0 x1 x2 y0 y1 y2 nx0 nx1 nx2 ny0 ny1 ny2 p0 p1 := by
  simp only [helmholtz_adjoint_double_layer_regular_imnz_im, r, dny, dnx, lapSL, lapDL, lapADL, helmSLre, helmSLim, helmFre, helmFim, helmDLre, helmDLim, helmADLre, helmADLim, modSL, modDL, modADL, xdoty, xdotny, ffSLre, ffSLim, ffDLre, ffDLim] <;> ring_nf

theorem helmholtz_adl_regular_im0_im (x0 x1 x2 y0 y1 y2 nx0 nx1 nx2 ny0 ny1 ny2 p0 p1 : K) (hexp : exp 0 = 1) :
    helmholtz_adjoint_double_layer_regular_im0_im sqrt cos sin exp c4pi x0 x1 x2 y0 y1 y2 nx0 nx1 nx2 ny0 ny1 ny2 p0 p1 = helmADLim sqrt cos sin exp c4pi x0 x1 x2 y0 y1 y2 nx0 nx1 nx2 ny0 ny1 ny2 p0 0 := by
  simp only [helmholtz_adjoint_double_layer_regular_im0_im, r, dny, dnx, lapSL, lapDL, lapADL, helmSLre, helmSLim, helmFre, helmFim, helmDLre, helmDLim, helmADLre, helmADLim, modSL, modDL, modADL, xdoty, xdotny, ffSLre, ffSLim, ffDLre, ffDLim]
  simp only [zero_mul, neg_zero, hexp] <;> ring_nf

theorem laplace_sl_singular (x0 x1 x2 y0 y1 y2 nx0 nx1 nx2 ny0 ny1 ny2 p0 p1 : K) :
    laplace_single_layer_singular_re sqrt cos sin exp c4pi x0 x1 x2 y0 y1 y2 nx0 nx1 nx2 ny0 ny1 ny2 p0 p1 = lapSL sqrt cos sin exp c4pi x0 x1 x2 y0 y1 y2 nx0 nx1 nx2 ny0 ny1 ny2 p0 p1 := by
  simp only [laplace_single_layer_singular_re, r, dny, dnx, lapSL, lapDL, lapADL, helmSLre, helmSLim, helmFre, helmFim, helmDLre, helmDLim, helmADLre, helmADLim, modSL, modDL, modADL, xdoty, xdotny, ffSLre, ffSLim, ffDLre, ffDLim] <;> ring_nf

theorem laplace_dl_singular (x0 x1 x2 y0 y1 y2 nx0 nx1 nx2 ny0 ny1 ny2 p0 p1 : K) :
    laplace_double_layer_singular_re sqrt cos sin exp c4pi x0 x1 x2 y0 y1 y2 nx0 nx1 nx2 ny0 ny1 ny2 p0 p1 = lapDL sqrt cos sin exp c4pi x0 x1 x2 y0 y1 y2 nx0 nx1 nx2 ny0 ny1 ny2 p0 p1 := by
  simp only [laplace_double_layer_singular_re, r, dny, dnx, lapSL, lapDL, lapADL, helmSLre, helmSLim, helmFre, helmFim, helmDLre, helmDLim, helmADLre, helmADLim, modSL, modDL, modADL, xdoty, xdotny, ffSLre, ffSLim, ffDLre, ffDLim] <;> ring_nf

theorem laplace_adl_singular (x0 x1 x2 y0 y1 y2 nx0 nx1 nx2 ny0 ny1 ny2 p0 p1 : K) :
    laplace_adjoint_double_layer_singular_re sqrt cos sin exp c4pi x0 x1 x2 y0 y1 y2 nx0 nx1 nx2 ny0 ny1 ny2 p0 p1 = lapADL sqrt cos sin exp c4pi x0 x1 x2 y0 y1 y2 nx0 nx1 nx2 ny0 ny1 ny2 p0 p1 := by
  simp only [laplace_adjoint_double_layer_singular_re, r, dny, dnx, lapSL, lapDL, lapADL, helmSLre, helmSLim, helmFre, helmFim, helmDLre, helmDLim, helmADLre, helmADLim, modSL, modDL, modADL, xdoty, xdotny, ffSLre, ffSLim, ffDLre, ffDLim] <;> ring_nf

theorem modified_sl_singular (x0 x1 x2 y0 y1 y2 nx0 nx1 nx2 ny0 ny1 ny2 p0 p1 : K) :
    modified_helmholtz_single_layer_singular_re sqrt cos sin exp c4pi x0 x1 x2 y0 y1 y2 nx0 nx1 nx2 ny0 ny1 ny2 p0 p1 = modSL sqrt cos sin exp c4pi x0 x1 x2 y0 y1 y2 nx0 nx1 nx2 ny0 ny1 ny2 p0 p1 := by
  simp only [modified_helmholtz_single_layer_singular_re, r, dny, dnx, lapSL, lapDL, lapADL, helmSLre, helmSLim, helmFre, helmFim, helmDLre, helmDLim, helmADLre, helmADLim, modSL, modDL, modADL, xdoty, xdotny, ffSLre, ffSLim, ffDLre, ffDLim] <;> ring_nf

theorem modified_dl_singular (x0 x1 x2 y0 y1 y2 nx0 nx1 nx2 ny0 ny1 ny2 p0 p1 : K) :
    modified_helmholtz_double_layer_singular_re sqrt cos sin exp c4pi x0 x1 x2 y0 y1 y2 nx0 nx1 nx2 ny0 ny1 ny2 p0 p1 = modDL sqrt cos sin exp c4pi x0 x1 x2 y0 y1 y2 nx0 nx1 nx2 ny0 ny1 ny2 p0 p1 := by
  simp only [modified_helmholtz_double_layer_singular_re, r, dny, dnx, lapSL, lapDL, lapADL, helmSLre, helmSLim, helmFre, helmFim, helmDLre, helmDLim, helmADLre, helmADLim, modSL, modDL, modADL, xdoty, xdotny, ffSLre, ffSLim, ffDLre, ffDLim] <;> ring_nf

theorem modified_adl_singular (x0 x1 x2 y0 y1 y2 nx0 nx1 nx2 ny0 ny1 ny2 p0 p1 : K) :
    modified_helmholtz_adjoint_double_layer_singular_re sqrt cos sin exp c4pi x0 x1 x2 y0 y1 y2 nx0 nx1 nx2 ny0 ny1 ny2 p0 p1 = modADL sqrt cos sin exp c4pi x0 x1 x2 y0 y1 y2 nx0 nx1 nx2 ny0 ny1 ny2 p0 p1 := by
  simp only [modified_helmholtz_adjoint_double_layer_singular_re, r, dny, dnx, lapSL, lapDL, lapADL, helmSLre, helmSLim, helmFre, helmFim, helmDLre, helmDLim, helmADLre, helmADLim, modSL, modDL, modADL, xdoty, xdotny, ffSLre, ffSLim, ffDLre, ffDLim] <;> ring_nf

theorem helmholtz_sl_singular_imnz_re (x0 x1 x2 y0 y1 y2 nx0 nx1 nx2 ny0 ny1 ny2 p0 p1 : K) :
    helmholtz_single_layer_singular_imnz_re sqrt cos sin exp c4pi x0 x1 x2 y0 y1 y2 nx0 nx1 nx2 ny0 ny1 ny2 p0 p1 = helmSLre sqrt cos sin exp c4pi x0 x1 x2 y0 y1 y2 nx0 nx1 nx2 ny0 ny1 ny2 p0 p1 := by
  simp only [helmholtz_single_layer_singular_imnz_re, r, dny, dnx, lapSL, lapDL, lapADL, helmSLre, helmSLim, helmFre, helmFim, helmDLre, helmDLim, helmADLre, helmADLim, modSL, modDL, modADL, xdoty, xdotny, ffSLre, ffSLim, ffDLre, ffDLim] <;> ring_nf

theorem helmholtz_sl_singular_im0_re (x0 x1 x2 y0 y1 y2 nx0 nx1 nx2 ny0 ny1 ny2 p0 p1 : K) (hexp : exp 0 = 1) :
    helmholtz_single_layer_singular_im0_re sqrt cos sin exp c4pi x0 x1 x2 y0 y1 y2 nx0 nx1 nx2 ny0 ny1 ny2 p0 p1 = helmSLre sqrt cos sin exp c4pi x0 x1 x2 y0 y1 y2 nx0 nx1 nx2 ny0 ny1 ny2 p0 0 := by
  simp only [helmholtz_single_layer_singular_im0_re, r, dny, dnx, lapSL, lapDL, lapADL, helmSLre, helmSLim, helmFre, helmFim, helmDLre, helmDLim, helmADLre, helmADLim, modSL, modDL, modADL, xdoty, xdotny, ffSLre, ffSLim, ffDLre, ffDLim]
  simp only [zero_mul, neg_zero, hexp] <;> ring_nf

theorem helmholtz_sl_singular_imnz_im (x0 x1 x2 y0 y1 y2 nx0 nx1 nx2 ny0 ny1 ny2 p0 p1 : K) :
    helmholtz_single_layer_singular_imnz_im sqrt cos sin exp c4pi x0 x1 x2 y0 y1 y2 nx0 nx1 nx2 ny0 ny1 ny2 p0 p1 = helmSLim sqrt cos sin exp c4pi x0 x1 x2 y0 y1 y2 nx0 nx1 nx2 ny0 ny1 ny2 p0 p1 := by
  simp only [helmholtz_single_layer_singular_imnz_im, r, dny, dnx, lapSL, lapDL, lapADL, helmSLre, helmSLim, helmFre, helmFim, helmDLre, helmDLim, helmADLre, helmADLim, modSL, modDL, modADL, xdoty, xdotny, ffSLre, ffSLim, ffDLre, ffDLim] <;> ring_nf

theorem helmholtz_sl_singular_im0_im (x0 x1 x2 y0 y1 y2 nx0 nx1 nx2 ny0 ny1 ny2 p0 p1 : K) (hexp : exp 0 = 1) :
    helmholtz_single_layer_singular_im0_im sqrt cos sin exp c4pi x0 x1 x2 y0 y1 y2 nx0 nx1 nx2 ny0 ny1 ny2 p0 p1 = helmSLim sqrt cos sin exp c4pi x0 x1 x2 y0 y1 y2 nx0 nx1 nx2 ny0 ny1 ny2 p0 0 := by
  simp only [helmholtz_single_layer_singular_im0_im, r, dny, dnx, lapSL, lapDL, lapADL, helmSLre, helmSLim, helmFre, helmFim, helmDLre, helmDLim, helmADLre, helmADLim, modSL, modDL, modADL, xdoty, xdotny, ffSLre, ffSLim, ffDLre, ffDLim]
  simp only [zero_mul, neg_zero, hexp] <;> ring_nf

theorem helmholtz_dl_singular_imnz_re (x0 x1 x2 y0 y1 y2 nx0 nx1 nx2 ny0 ny1 ny2 p0 p1 : K) :
    helmholtz_double_layer_singular_imnz_re sqrt cos sin exp c4pi x0 x1 x2 y0 y1 y2 nx0 nx1 nx2 ny0 ny1 ny2 p0 p1 = helmDLre sqrt cos sin exp c4pi x0 x1 x2 y0 y1 y2 nx0 nx1 nx2 ny0 ny1 ny2 p0 p1 := by
  simp only [helmholtz_double_layer_singular_imnz_re, r, dny, dnx, lapSL, lapDL, lapADL, helmSLre, helmSLim, helmFre, helmFim, helmDLre, helmDLim, helmADLre, helmADLim, modSL, modDL, modADL, xdoty, xdotny, ffSLre, ffSLim, ffDLre, ffDLim] <;> ring_nf

theorem helmholtz_dl_singular_im0_re (x0 x1 x2 y0 y1 y2 nx0 nx1 nx2 ny0 ny1 ny2 p0 p1 : K) (hexp : exp 0 = 1) :
    helmholtz_double_layer_singular_im0_re sqrt cos sin exp c4pi x0 x1 x2 y0 y1 y2 nx0 nx1 nx2 ny0 ny1 ny2 p0 p1 = helmDLre sqrt cos sin exp c4pi x0 x1 x2 y0 y1 y2 nx0 nx1 nx2 ny0 ny1 ny2 p0 0 := by
  simp only [helmholtz_double_layer_singular_im0_re, r, dny, dnx, lapSL, lapDL, lapADL, helmSLre, helmSLim, helmFre, helmFim, helmDLre, helmDLim, helmADLre, helmADLim, modSL, modDL, modADL, xdoty, xdotny, ffSLre, ffSLim, ffDLre, ffDLim]
  simp only [zero_mul, neg_zero, hexp] <;> ring_nf

theorem helmholtz_dl_singular_imnz_im (x0 x1 x2 y0 y1 y2 nx0 nx1 nx2 ny0 ny1 ny2 p0 p1 : K) :
    helmholtz_double_layer_singular_imnz_im sqrt cos sin exp c4pi x0 x1 x2 y0 y1 y2 nx0 nx1 nx2 ny0 ny1 ny2 p0 p1 = helmDLim sqrt cos sin exp c4pi x0 x1 x2 y0 y1 y2 nx0 nx1 nx2 ny0 ny1 ny2 p0 p1 := by
  simp only [helmholtz_double_layer_singular_imnz_im, r, dny, dnx, lapSL, lapDL, lapADL, helmSLre, helmSLim, helmFre, helmFim, helmDLre, helmDLim, helmADLre, helmADLim, modSL, modDL, modADL, xdoty, xdotny, ffSLre, ffSLim, ffDLre, ffDLim] <;> ring_nf

theorem helmholtz_dl_singular_im0_im (x0 x1 x2 y0 y1 y2 nx0 nx1 nx2 ny0 ny1 ny2 p0 p1 : K) (hexp : exp 0 = 1) :
    helmholtz_double_layer_singular_im0_im sqrt cos sin exp c4pi x0 x1 x2 y0 y1 y2 nx0 nx1 nx2 ny0 ny1 ny2 p0 p1 = helmDLim sqrt cos sin exp c4pi x0 x1 x2 y0 y1 y2 nx0 nx1 nx2 ny0 ny1 ny2 p0 0 := by
  simp only [helmholtz_double_layer_singular_im0_im, r, dny, dnx, lapSL, lapDL, lapADL, helmSLre, helmSLim, helmFre, helmFim, helmDLre, helmDLim, helmADLre, helmADLim, modSL, modDL, modADL, xdoty, xdotny, ffSLre, ffSLim, ffDLre, ffDLim]
  simp only [zero_mul, neg_zero, hexp] <;> ring_nf

theorem helmholtz_adl_singular_imnz_re (x0 x1 x2 y0 y1 y2 nx0 nx1 nx2 ny0 ny1 ny2 p0 p1 : K) :
    helmholtz_adjoint_double_layer_singular_imnz_re sqrt cos sin exp c4pi x0 x1 x2 y0 y1 y2 nx0 nx1 nx2 ny0 ny1 ny2 p0 p1 = helmADLre sqrt cos sin exp c4pi x0 x1 x2 y0 y1 y2 nx0 nx1 nx2 ny0 ny1 ny2 p0 p1 := by
  simp only [helmholtz_adjoint_double_layer_singular_imnz_re, r, dny, dnx, lapSL, lapDL, lapADL, helmSLre, helmSLim, helmFre, helmFim, helmDLre, helmDLim, helmADLre, helmADLim, modSL, modDL, modADL, xdoty, xdotny, ffSLre, ffSLim, ffDLre, ffDLim] <;> ring_nf

theorem helmholtz_adl_singular_im0_re (x0 x1 x2 y0 y1 y2 nx0 nx1 nx2 ny0 ny1 ny2 p0 p1 : K) (hexp : exp 0 = 1) :
    helmholtz_adjoint_double_layer_singular_im0_re sqrt cos sin exp c4pi x0 x1 x2 y0 y1 y2 nx0 nx1 nx2 ny0 ny1 ny2 p0 p1 = helmADLre sqrt cos sin exp c4pi x0 x1 x2 y0 y1 y2 nx0 nx1 nx2 ny0 ny1 ny2 p0 0 := by
  simp only [helmholtz_adjoint_double_layer_singular_im0_re, r, dny, dnx, lapSL, lapDL, lapADL, helmSLre, helmSLim, helmFre, helmFim, helmDLre, helmDLim, helmADLre, helmADLim, modSL, modDL, modADL, xdoty, xdotny, ffSLre, ffSLim, ffDLre, ffDLim]
  simp only [zero_mul, neg_zero, hexp] <;> ring_nf

theorem helmholtz_adl_singular_imnz_im (x0 x1 x2 y0 y1 y2 nx0 nx1 nx2 ny0 ny1 ny2 p0 p1 : K) :
    helmholtz_adjoint_double_layer_singular_imnz_im sqrt cos sin exp c4pi x0 x1 x2 y0 y1 y2 nx0 nx1 nx2 ny0 ny1 ny2 p0 p1 = helmADLim sqrt cos sin exp c4pi x0 x1 x2 y0 y1 y2 nx0 nx1 nx2 ny0 ny1 ny2 p0 p1 := by
  simp only [helmholtz_adjoint_double_layer_singular_imnz_im, r, dny, dnx, lapSL, lapDL, lapADL, helmSLre, helmSLim, helmFre, helmFim, helmDLre, helmDLim, helmADLre, helmADLim, modSL, modDL, modADL, xdoty, xdotny, ffSLre, ffSLim, ffDLre, ffDLim] <;> ring_nf

theorem helmholtz_adl_singular_im0_im (x0 x1 x2 y0 y1 y2 nx0 nx1 nx2 ny0 ny1 ny2 p0 p1 : K) (hexp : exp 0 = 1) :
    helmholtz_adjoint_double_layer_singular_im0_im sqrt cos sin exp c4pi x0 x1 x2 y0 y1 y2 nx0 nx1 nx2 ny0 ny1 ny2 p0 p1 = helmADLim sqrt cos sin exp c4pi x0 x1 x2 y0 y1 y2 nx0 nx1 nx2 ny0 ny1 ny2 p0 0 := by
  simp only [helmholtz_adjoint_double_layer_singular_im0_im, r, dny, dnx, lapSL, lapDL, lapADL, helmSLre, helmSLim, helmFre, helmFim, helmDLre, helmDLim, helmADLre, helmADLim, modSL, modDL, modADL, xdoty, xdotny, ffSLre, ffSLim, ffDLre, ffDLim]
  simp only [zero_mul, neg_zero, hexp] <;> ring_nf

theorem far_field_sl_re (x0 x1 x2 y0 y1 y2 nx0 nx1 nx2 ny0 ny1 ny2 p0 p1 : K) :
    helmholtz_far_field_single_layer_re sqrt cos sin exp c4pi x0 x1 x2 y0 y1 y2 nx0 nx1 nx2 ny0 ny1 ny2 p0 p1 = ffSLre sqrt cos sin exp c4pi x0 x1 x2 y0 y1 y2 nx0 nx1 nx2 ny0 ny1 ny2 p0 p1 := by
  simp only [helmholtz_far_field_single_layer_re, r, dny, dnx, lapSL, lapDL, lapADL, helmSLre, helmSLim, helmFre, helmFim, helmDLre, helmDLim, helmADLre, helmADLim, modSL, modDL, modADL, xdoty, xdotny, ffSLre, ffSLim, ffDLre, ffDLim] <;> ring_nf

theorem far_field_sl_im (x0 x1 x2 y0 y1 y2 nx0 nx1 nx2 ny0 ny1 ny2 p0 p1 : K) :
    helmholtz_far_field_single_layer_im sqrt cos sin exp c4pi x0 x1 x2 y0 y1 y2 nx0 nx1 nx2 ny0 ny1 ny2 p0 p1 = ffSLim sqrt cos sin exp c4pi x0 x1 x2 y0 y1 y2 nx0 nx1 nx2 ny0 ny1 ny2 p0 p1 := by
  simp only [helmholtz_far_field_single_layer_im, r, dny, dnx, lapSL, lapDL, lapADL, helmSLre, helmSLim, helmFre, helmFim, helmDLre, helmDLim, helmADLre, helmADLim, modSL, modDL, modADL, xdoty, xdotny, ffSLre, ffSLim, ffDLre, ffDLim] <;> ring_nf

theorem far_field_dl_re (x0 x1 x2 y0 y1 y2 nx0 nx1 nx2 ny0 ny1 ny2 p0 p1 : K) :
    helmholtz_far_field_double_layer_re sqrt cos sin exp c4pi x0 x1 x2 y0 y1 y2 nx0 nx1 nx2 ny0 ny1 ny2 p0 p1 = ffDLre sqrt cos sin exp c4pi x0 x1 x2 y0 y1 y2 nx0 nx1 nx2 ny0 ny1 ny2 p0 p1 := by
  simp only [helmholtz_far_field_double_layer_re, r, dny, dnx, lapSL, lapDL, lapADL, helmSLre, helmSLim, helmFre, helmFim, helmDLre, helmDLim, helmADLre, helmADLim, modSL, modDL, modADL, xdoty, xdotny, ffSLre, ffSLim, ffDLre, ffDLim] <;> ring_nf

theorem far_field_dl_im (x0 x1 x2 y0 y1 y2 nx0 nx1 nx2 ny0 ny1 ny2 p0 p1 : K) :
    helmholtz_far_field_double_layer_im sqrt cos sin exp c4pi x0 x1 x2 y0 y1 y2 nx0 nx1 nx2 ny0 ny1 ny2 p0 p1 = ffDLim sqrt cos sin exp c4pi x0 x1 x2 y0 y1 y2 nx0 nx1 nx2 ny0 ny1 ny2 p0 p1 := by
  simp only [helmholtz_far_field_double_layer_im, r, dny, dnx, lapSL, lapDL, lapADL, helmSLre, helmSLim, helmFre, helmFim, helmDLre, helmDLim, helmADLre, helmADLim, modSL, modDL, modADL, xdoty, xdotny, ffSLre, ffSLim, ffDLre, ffDLim] <;> ring_nf

end thms

end BemppVerif.Kernels
