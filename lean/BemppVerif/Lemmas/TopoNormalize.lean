/- Helper lemmas for C11: `normalize_array` of `union` is the rank among the distinct values. -/
import BemppVerif.Lemmas.TopoUnion

namespace BemppVerif.Lemmas.Topo
open BemppVerif.Model.Topo

/-! ### minimum -/

theorem foldl_min_le_init (l : List Nat) (a : Nat) : l.foldl min a ≤ a := by
  induction l generalizing a with
  | nil => simp
  | cons b l ih => simp only [List.foldl_cons]; exact Nat.le_trans (ih _) (Nat.min_le_left _ _)

theorem foldl_min_le_mem (l : List Nat) (a : Nat) : ∀ x ∈ l, l.foldl min a ≤ x := by
  induction l generalizing a with
  | nil => simp
  | cons b l ih =>
    intro x hx
    simp only [List.foldl_cons]
    rcases List.mem_cons.mp hx with rfl | hx
    · exact Nat.le_trans (foldl_min_le_init l _) (Nat.min_le_right _ _)
    · exact ih _ x hx

theorem foldl_min_mem (l : List Nat) (a : Nat) : l.foldl min a = a ∨ l.foldl min a ∈ l := by
  induction l generalizing a with
  | nil => simp
  | cons b l ih =>
    simp only [List.foldl_cons]
    rcases ih (min a b) with h | h
    · rw [h]
      rcases Nat.le_total a b with hab | hab
      · left; exact Nat.min_eq_left hab
      · right; rw [Nat.min_eq_right hab]; simp
    · right; exact List.mem_cons_of_mem _ h

theorem listMin_le (l : List Nat) : ∀ x ∈ l, listMin l ≤ x := foldl_min_le_mem l _

theorem listMin_mem (l : List Nat) (h : l ≠ []) : listMin l ∈ l := by
  unfold listMin
  rcases foldl_min_mem l (l.headD 0) with h' | h'
  · rw [h']
    cases l with
    | nil => exact absurd rfl h
    | cons a l => simp
  · exact h'

/-! ### the replacement loop -/

/-- the loop `for i, index in enumerate(w, start=s): arr[arr == index] = i` on an array whose entries are either still
to be replaced (members of the increasing list `w`, all `≥ s`) or already final (`< s`) -/
theorem replace_fold (w : List Nat) (s : Nat) (a : List Nat) (hw : w.Pairwise (· < ·)) (hs : ∀ v ∈ w, s ≤ v)
    (ha : ∀ x ∈ a, x ∈ w ∨ x < s) :
    (w.zipIdx s).foldl (fun a p => a.map fun x => if x = p.1 then p.2 else x) a =
      a.map fun x => if x ∈ w then s + w.idxOf x else x := by
  induction w generalizing s a with
  | nil => simp
  | cons v w ih =>
    rw [List.pairwise_cons] at hw
    simp only [List.zipIdx_cons, List.foldl_cons]
    rw [ih (s + 1) _ hw.2]
    · rw [List.map_map]
      apply List.map_congr_left
      intro x hx
      simp only [Function.comp]
      by_cases hxv : x = v
      · subst hxv
        have hsw : s ∉ w := by
          intro h
          have h1 := hw.1 s h
          have h2 := hs x (by simp)
          omega
        simp [hsw]
      · simp only [hxv, if_false, List.mem_cons, false_or]
        by_cases hxw : x ∈ w
        · simp only [hxw, if_true, List.idxOf_cons]
          have : (v == x) = false := by simp; exact fun h => hxv h.symm
          simp [this]; omega
        · simp [hxw]
    · intro v' hv'
      have h1 := hw.1 v' hv'
      have h2 := hs v (by simp)
      omega
    · intro y hy
      simp only [List.mem_map] at hy
      obtain ⟨x, hx, rfl⟩ := hy
      by_cases hxv : x = v
      · simp [hxv]
      · simp only [hxv, if_false]
        rcases ha x hx with h | h
        · left; simpa [hxv] using h
        · right; omega

/-! ### rank in a strictly increasing list -/

theorem sorted_idxOf_lt (u : List Nat) (hu : u.Pairwise (· < ·)) (x y : Nat) (hx : x ∈ u) (hy : y ∈ u) :
    u.idxOf x < u.idxOf y ↔ x < y := by
  have ix := List.idxOf_lt_length_of_mem hx
  have iy := List.idxOf_lt_length_of_mem hy
  have gx : u[u.idxOf x] = x := List.getElem_idxOf ix
  have gy : u[u.idxOf y] = y := List.getElem_idxOf iy
  have mono : ∀ i j (hi : i < u.length) (hj : j < u.length), i < j → u[i] < u[j] := by
    intro i j hi hj hij
    exact (List.pairwise_iff_getElem.mp hu) i j hi hj hij
  constructor
  · intro h
    have := mono _ _ ix iy h
    rwa [gx, gy] at this
  · intro h
    rcases Nat.lt_trichotomy (u.idxOf x) (u.idxOf y) with h1 | h1 | h1
    · exact h1
    · exfalso
      have : u[u.idxOf x] = u[u.idxOf y] := by simp only [h1]
      rw [gx, gy] at this
      omega
    · exfalso
      have := mono _ _ iy ix h1
      rw [gx, gy] at this
      omega

/-- `normalize_array(arr)` replaces every entry by its rank among the distinct values of `arr - min(arr)` -/
theorem normalizeArray_eq_rank (arr : List Nat) :
    normalizeArray arr = (arr.map (· - listMin arr)).map
      fun x => (uniqueSorted (arr.map (· - listMin arr))).idxOf x := by
  unfold normalizeArray
  generalize ha0 : arr.map (· - listMin arr) = a0
  by_cases hne : arr = []
  · subst hne; simp at ha0; subst ha0; simp [uniqueSorted]
  have hsorted := uniqueSorted_sorted a0
  have hmem := fun y => mem_uniqueSorted y a0
  -- 0 is an entry of a0 and the head of the sorted list of distinct values
  have h0 : 0 ∈ a0 := by
    rw [← ha0, List.mem_map]
    exact ⟨listMin arr, listMin_mem arr hne, by simp⟩
  cases hu : uniqueSorted a0 with
  | nil =>
    have := (hmem 0).mpr h0
    rw [hu] at this
    simp at this
  | cons h u' =>
    rw [hu] at hsorted hmem
    rw [List.pairwise_cons] at hsorted
    have hh : h = 0 := by
      have := (hmem 0).mpr h0
      rcases List.mem_cons.mp this with h1 | h1
      · exact h1.symm
      · have := hsorted.1 0 h1; omega
    subst hh
    show List.foldl _ a0 ((List.drop 1 (uniqueSorted a0)).zipIdx 1) = _
    rw [hu]
    simp only [List.drop_succ_cons, List.drop_zero]
    rw [replace_fold u' 1 a0 hsorted.2]
    · apply List.map_congr_left
      intro x hx
      have hxu := (hmem x).mpr hx
      by_cases hx0 : x = 0
      · subst hx0
        have : (0 : Nat) ∉ u' := fun h => by have := hsorted.1 0 h; omega
        simp [this]
      · have hxu' : x ∈ u' := by
          rcases List.mem_cons.mp hxu with h1 | h1
          · exact absurd h1 hx0
          · exact h1
        have : ((0 : Nat) == x) = false := by simp; omega
        simp [hxu', List.idxOf_cons, this]; omega
    · intro v hv
      have := hsorted.1 v hv; omega
    · intro x hx
      have hxu := (hmem x).mpr hx
      rcases List.mem_cons.mp hxu with h1 | h1
      · right; omega
      · left; exact h1

theorem foldl_max_ge_init (l : List Nat) (a : Nat) : a ≤ l.foldl max a := by
  induction l generalizing a with
  | nil => simp
  | cons b l ih => simp only [List.foldl_cons]; exact Nat.le_trans (Nat.le_max_left _ _) (ih _)

theorem le_listMax (l : List Nat) : ∀ x ∈ l, x ≤ listMax l := by
  unfold listMax
  generalize (0 : Nat) = a
  induction l generalizing a with
  | nil => simp
  | cons b l ih =>
    intro x hx
    simp only [List.foldl_cons]
    rcases List.mem_cons.mp hx with rfl | hx
    · exact Nat.le_trans (Nat.le_max_right _ _) (foldl_max_ge_init l _)
    · exact ih _ x hx

/-- every entry of every later block is larger than every entry of `prev` -/
theorem unionDomains_go_gt (normalize : Bool) (prev : List Nat) (rest : List (List Nat))
    (hne : ∀ d ∈ rest, d ≠ []) :
    ∀ B ∈ unionDomains.go normalize prev rest, ∀ b ∈ B, listMax prev < b := by
  induction rest generalizing prev with
  | nil => simp [unionDomains.go]
  | cons d rest ih =>
    intro B hB b hb
    simp only [unionDomains.go, List.mem_cons] at hB
    have hd : d ≠ [] := hne d (by simp)
    have hcur : ∀ c ∈ (if normalize then (normalizeArray d).map (listMax prev + 1 + ·)
                   else d.map fun x => listMax prev + 1 + (x - listMin d)), listMax prev < c := by
      intro c hc
      split at hc <;> (simp only [List.mem_map] at hc; obtain ⟨_, _, rfl⟩ := hc; omega)
    rcases hB with rfl | hB
    · exact hcur b hb
    · have := ih _ (fun d' hd' => hne d' (by simp [hd'])) B hB b hb
      -- listMax cur > listMax prev since cur is non-empty
      have hcne : (if normalize then (normalizeArray d).map (listMax prev + 1 + ·)
                   else d.map fun x => listMax prev + 1 + (x - listMin d)) ≠ [] := by
        split
        · rw [normalizeArray_eq_rank]; simpa using hd
        · simpa using hd
      obtain ⟨c, hc⟩ := List.exists_mem_of_ne_nil _ hcne
      have h1 := hcur c hc
      have h2 := le_listMax _ c hc
      omega

theorem unionDomains_go_pairwise (normalize : Bool) (prev : List Nat) (rest : List (List Nat))
    (hne : ∀ d ∈ rest, d ≠ []) :
    (unionDomains.go normalize prev rest).Pairwise (fun A B => ∀ a ∈ A, ∀ b ∈ B, a < b) := by
  induction rest generalizing prev with
  | nil => simp [unionDomains.go]
  | cons d rest ih =>
    simp only [unionDomains.go]
    rw [List.pairwise_cons]
    have hne' : ∀ d' ∈ rest, d' ≠ [] := fun d' hd' => hne d' (by simp [hd'])
    refine ⟨?_, ih _ hne'⟩
    intro B hB a ha b hb
    have h1 := unionDomains_go_gt normalize _ rest hne' B hB b hb
    have h2 := le_listMax _ a ha
    omega

/-- the blocks of domain indices that `union` assigns to the grids are strictly separated (non-empty grids) -/
theorem unionDomains_pairwise (normalize : Bool) (ds : List (List Nat)) (hne : ∀ d ∈ ds, d ≠ []) :
    (unionDomains normalize ds).Pairwise (fun A B => ∀ a ∈ A, ∀ b ∈ B, a < b) := by
  cases ds with
  | nil => simp [unionDomains]
  | cons d0 ds =>
    simp only [unionDomains]
    rw [List.pairwise_cons]
    have hne' : ∀ d' ∈ ds, d' ≠ [] := fun d' hd' => hne d' (by simp [hd'])
    refine ⟨?_, unionDomains_go_pairwise normalize _ ds hne'⟩
    intro B hB a ha b hb
    have h1 := unionDomains_go_gt normalize _ ds hne' B hB b hb
    have h2 := le_listMax _ a ha
    omega

end BemppVerif.Lemmas.Topo
