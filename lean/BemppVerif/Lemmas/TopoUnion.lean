/- Helper lemmas for C11: `union` and `grid_from_segments`. -/
import BemppVerif.Lemmas.TopoBary

namespace BemppVerif.Lemmas.Topo
open BemppVerif.Model.Topo BemppVerif.Model.Geom BemppVerif.Gen

def shiftTri (off : Nat) (u : Tri) : Tri := (u.1 + off, u.2.1 + off, u.2.2 + off)

theorem swapTri_eq (t : Tri) : swapTri t = (t.1, t.2.2, t.2.1) := by
  simp [swapTri, GridConsts.unionSwap, Tri.get]

/-- element `j` of the `g`-th grid sits behind all elements of the earlier grids and is shifted by the number of
vertices of the earlier grids -/
theorem unionElems_get (gs : List (Nat × List Tri × Bool)) (off0 g nv : Nat) (els : List Tri) (sw : Bool) (j : Nat)
    (t : Tri) (hg : gs[g]? = some (nv, els, sw)) (ht : els[j]? = some t) :
    (unionElems off0 gs)[((gs.take g).map fun h => h.2.1.length).sum + j]? =
      some (shiftTri (off0 + ((gs.take g).map fun h => h.1).sum) (if sw then swapTri t else t)) := by
  induction gs generalizing g off0 with
  | nil => simp at hg
  | cons h rest ih =>
    obtain ⟨nv', els', sw'⟩ := h
    cases g with
    | zero =>
      simp only [List.getElem?_cons_zero, Option.some.injEq, Prod.mk.injEq] at hg
      obtain ⟨rfl, rfl, rfl⟩ := hg
      have hj : j < els'.length := (List.getElem?_eq_some_iff.mp ht).1
      simp only [unionElems, List.take_zero, List.map_nil, List.sum_nil, Nat.zero_add, Nat.add_zero]
      rw [List.getElem?_append_left (by simpa using hj)]
      simp [ht, shiftTri]
    | succ g =>
      simp only [List.getElem?_cons_succ] at hg
      simp only [unionElems, List.take_succ_cons, List.map_cons, List.sum_cons]
      rw [List.getElem?_append_right (by simp; omega)]
      have e1 : els'.length + ((rest.take g).map fun h => h.2.1.length).sum + j - els'.length
          = ((rest.take g).map fun h => h.2.1.length).sum + j := by omega
      simp only [List.length_map]
      rw [e1, ih (off0 + nv') g hg]
      congr 2
      omega

theorem flatten_get {α : Type} (Vs : List (List α)) (g v : Nat) (Vg : List α) (hg : Vs[g]? = some Vg)
    (hv : v < Vg.length) : (Vs.flatten)[((Vs.take g).map List.length).sum + v]? = Vg[v]? := by
  induction Vs generalizing g with
  | nil => simp at hg
  | cons W rest ih =>
    cases g with
    | zero =>
      simp only [List.getElem?_cons_zero, Option.some.injEq] at hg
      subst hg
      simp only [List.flatten_cons, List.take_zero, List.map_nil, List.sum_nil, Nat.zero_add]
      exact List.getElem?_append_left hv
    | succ g =>
      simp only [List.getElem?_cons_succ] at hg
      simp only [List.flatten_cons, List.take_succ_cons, List.map_cons, List.sum_cons]
      rw [List.getElem?_append_right (by omega)]
      have : W.length + ((rest.take g).map List.length).sum + v - W.length
          = ((rest.take g).map List.length).sum + v := by omega
      rw [this, ih g hg]

/-! ### `np.unique` -/

theorem mem_insertSorted (x y : Nat) (l : List Nat) : y ∈ insertSorted x l ↔ y = x ∨ y ∈ l := by
  induction l with
  | nil => simp [insertSorted]
  | cons a l ih =>
    simp only [insertSorted]
    split
    · simp
    · split
      · next h => subst h; simp
      · simp [ih]; grind

theorem mem_uniqueSorted (y : Nat) (l : List Nat) : y ∈ uniqueSorted l ↔ y ∈ l := by
  induction l with
  | nil => simp [uniqueSorted]
  | cons a l ih =>
    simp only [uniqueSorted, List.foldr_cons] at ih ⊢
    rw [mem_insertSorted, ih]
    simp

theorem insertSorted_sorted (x : Nat) (l : List Nat) (h : l.Pairwise (· < ·)) :
    (insertSorted x l).Pairwise (· < ·) := by
  induction l with
  | nil => simp [insertSorted]
  | cons a l ih =>
    simp only [insertSorted]
    rw [List.pairwise_cons] at h
    split
    · next hx =>
      rw [List.pairwise_cons]
      refine ⟨?_, List.pairwise_cons.mpr h⟩
      intro b hb
      rcases List.mem_cons.mp hb with rfl | hb
      · exact hx
      · exact Nat.lt_trans hx (h.1 b hb)
    · split
      · exact List.pairwise_cons.mpr h
      · next h1 h2 =>
        rw [List.pairwise_cons]
        refine ⟨?_, ih h.2⟩
        intro b hb
        rcases (mem_insertSorted x b l).mp hb with rfl | hb
        · omega
        · exact h.1 b hb

theorem uniqueSorted_sorted (l : List Nat) : (uniqueSorted l).Pairwise (· < ·) := by
  induction l with
  | nil => simp [uniqueSorted]
  | cons a l ih =>
    simp only [uniqueSorted, List.foldr_cons] at ih ⊢
    exact insertSorted_sorted a _ ih

theorem uniqueSorted_nodup (l : List Nat) : (uniqueSorted l).Nodup :=
  (uniqueSorted_sorted l).imp (fun h => Nat.ne_of_lt h)

end BemppVerif.Lemmas.Topo
