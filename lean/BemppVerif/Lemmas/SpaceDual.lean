/- Lemmas about the models of `dual0_function_space` / `dual1_function_space` (core Lean only). -/
import BemppVerif.Lemmas.SpaceP1
import BemppVerif.Lemmas.SpaceBlock

namespace BemppVerif.Lemmas.Space
open BemppVerif.Model BemppVerif.Model.Space BemppVerif.Gen

section
variable (T : Tables) (sup : Nat → Bool) (incl trunc : Bool)

/-- the COO triplets of the DUAL0 `dof_transformation`: two per `(face, vertex)` of `global2local[d]` of the coarse P1
space that passes the guard `coarse_space.support[face] or not truncate_at_segment_edge` -/
theorem mem_dual0_entries (t : Nat × Nat × Rat) :
    t ∈ (dual0 T sup incl trunc).entries ↔
      ∃ d p, d < gridDofCount (p1 T sup incl trunc).space ∧ p ∈ Color.g2l (p1 T sup incl trunc).space d ∧
        ((p1 T sup incl trunc).space.sup p.1 = true ∨ trunc = false) ∧
        (t = (6 * (p1 T sup incl trunc).space.supportElements.idxOf p.1 + (SpaceTables.dual0First (p.2 : Int)).toNat, d, 1) ∨
         t = (6 * (p1 T sup incl trunc).space.supportElements.idxOf p.1 + (SpaceTables.dual0Second (p.2 : Int)).toNat, d, 1)) := by
  unfold dual0
  simp only [List.mem_flatMap, List.mem_range]
  constructor
  · rintro ⟨d, hd, p, hp, ht⟩
    refine ⟨d, p, hd, hp, ?_⟩
    split at ht
    · rename_i hg
      simp only [Bool.or_eq_true, Bool.not_eq_true'] at hg
      simp only [List.mem_cons, List.not_mem_nil, or_false] at ht
      exact ⟨hg, ht⟩
    · cases ht
  · rintro ⟨d, p, hd, hp, hg, ht⟩
    refine ⟨d, hd, p, hp, ?_⟩
    have hg' : ((p1 T sup incl trunc).space.sup p.1 || !trunc) = true := by
      simp only [Bool.or_eq_true, Bool.not_eq_true']
      exact hg
    rw [if_pos hg']
    simp only [List.mem_cons, List.not_mem_nil, or_false]
    exact ht

/-- the guard of the DUAL0 fill loop is always satisfied: a `(face, vertex)` listed in `global2local` of the coarse
space lies in the coarse support -/
theorem dual0_guard (hs : VertexNeighborsSound T) (d : Nat) (p : Nat × Nat)
    (hp : p ∈ Color.g2l (p1 T sup incl trunc).space d) : (p1 T sup incl trunc).space.sup p.1 = true := by
  have hp' := hp
  rw [Color.mem_g2l, p1_nelems] at hp
  obtain ⟨he, _, hnz⟩ := hp
  have hu := (p1_nz T sup incl trunc hs he p.2).1 hnz
  exact (p1_sup T sup incl trunc hs p.1).2 ⟨he, p.2, (P1Used.lt T sup incl trunc hs hu).1, hu⟩

end

end BemppVerif.Lemmas.Space
