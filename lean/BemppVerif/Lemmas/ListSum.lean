/- Helper lemmas on sums over lists (Mathlib: single modules only). -/
import Mathlib.Tactic.Ring
import Mathlib.Algebra.BigOperators.Group.List.Basic

namespace BemppVerif.Lemmas

variable {K : Type} [CommRing K]

theorem sum_map_flatMap {α β : Type} (l : List α) (f : α → List β) (g : β → K) :
    ((l.flatMap f).map g).sum = (l.map fun a => ((f a).map g).sum).sum := by
  induction l with
  | nil => simp
  | cons a l ih => simp [List.flatMap_cons, ih]

theorem sum_map_mul_left' {α : Type} (l : List α) (c : K) (f : α → K) :
    (l.map fun a => c * f a).sum = c * (l.map f).sum := by
  induction l with
  | nil => simp
  | cons a l ih => simp [ih, mul_add]

theorem sum_map_mul_right' {α : Type} (l : List α) (c : K) (f : α → K) :
    (l.map fun a => f a * c).sum = (l.map f).sum * c := by
  induction l with
  | nil => simp
  | cons a l ih => simp [ih, add_mul]

theorem sum_map_add' {α : Type} (l : List α) (f g : α → K) :
    (l.map fun a => f a + g a).sum = (l.map f).sum + (l.map g).sum := by
  induction l with
  | nil => simp
  | cons a l ih => simp [ih]; ring

theorem sum_map_congr {α : Type} (l : List α) (f g : α → K) (h : ∀ a ∈ l, f a = g a) :
    (l.map f).sum = (l.map g).sum := by
  induction l with
  | nil => simp
  | cons a l ih =>
    simp only [List.map_cons, List.sum_cons]
    rw [h a (by simp), ih (fun b hb => h b (by simp [hb]))]

/-- product of two list sums as a double sum -/
theorem sum_mul_sum {α β : Type} (l : List α) (m : List β) (f : α → K) (g : β → K) :
    (l.map fun a => (m.map fun b => f a * g b).sum).sum = (l.map f).sum * (m.map g).sum := by
  have : ∀ a, (m.map fun b => f a * g b).sum = f a * (m.map g).sum :=
    fun a => sum_map_mul_left' m (f a) g
  simp only [this]
  exact sum_map_mul_right' l _ f

end BemppVerif.Lemmas
