/-
Closing tactics of the generated Maxwell theorems (`Gen/AsmMatchMaxwell*.lean`).  After `simp only` has unfolded the traced
terms and the specification-level definitions and split a `CP` equation into its two components, the goal is
`A ∧ B` with `A`, `B` either `True` (both sides literally zero) or commutative-ring identities between the remaining atoms;
it can also be closed already.
-/
import BemppVerif.Lemmas.Maxwell
import Mathlib.Tactic.FieldSimp

namespace BemppVerif.Mx

/-- one component: `True`, or a ring identity (atoms abstracted first, see `Lemmas/AtomTactic.lean`) -/
macro "mx_component" : tactic =>
  `(tactic| first
    | exact trivial
    | (generalize_atoms [BemppVerif.Mx.piola, BemppVerif.Mx.pt]; ring))

macro "mx_finish" : tactic =>
  `(tactic| first
    | done
    | (constructor
       · mx_component
       · mx_component))

/-- same, clearing denominators first (the non-zero hypotheses must be in the local context) -/
macro "mx_finish_field" : tactic =>
  `(tactic| first
    | done
    | (constructor
       · (field_simp; mx_component)
       · (field_simp; mx_component)))

end BemppVerif.Mx
