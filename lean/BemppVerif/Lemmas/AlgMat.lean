/-
Helper lemmas for C14: linear algebra on lists over a commutative ring, agreement of `to_dense` and `matvec` for the
discrete-operator trees of `Model/Alg.lean`.
-/
import BemppVerif.Model.Alg
import Mathlib.Algebra.Ring.Defs
import Mathlib.Tactic.Ring

namespace BemppVerif.Lemmas.AlgMat
open BemppVerif.Model.Alg

set_option linter.unusedSectionVars false

variable {R : Type} [CommRing R]

/-! ### vectors -/

@[simp] theorem vadd_nil_left (v : Vec R) : vadd [] v = v := by simp [vadd]
@[simp] theorem vadd_nil_right (u : Vec R) : vadd u [] = u := by cases u <;> simp [vadd]
@[simp] theorem vadd_cons (a b : R) (u v : Vec R) : vadd (a :: u) (b :: v) = (a + b) :: vadd u v := by simp [vadd]

@[simp] theorem dot_nil_left (x : Vec R) : dot ([] : Vec R) x = 0 := by simp [dot]
@[simp] theorem dot_nil_right (u : Vec R) : dot u ([] : Vec R) = 0 := by cases u <;> simp [dot]
@[simp] theorem dot_cons (a b : R) (u v : Vec R) : dot (a :: u) (b :: v) = a * b + dot u v := by simp [dot]

theorem vadd_length (u v : Vec R) : (vadd u v).length = max u.length v.length := by
  induction u generalizing v with
  | nil => simp
  | cons a u ih => cases v with
    | nil => simp
    | cons b v => simp [ih, Nat.succ_max_succ]

theorem dot_vadd (u v x : Vec R) : dot (vadd u v) x = dot u x + dot v x := by
  induction u generalizing v x with
  | nil => simp
  | cons a u ih =>
    cases v with
    | nil => simp
    | cons b v =>
      cases x with
      | nil => simp
      | cons c x => simp [ih]; ring

theorem dot_vadd_right (r x y : Vec R) : dot r (vadd x y) = dot r x + dot r y := by
  induction r generalizing x y with
  | nil => simp
  | cons a r ih =>
    cases x with
    | nil => simp
    | cons b x =>
      cases y with
      | nil => simp
      | cons c y => simp [ih]; ring

theorem dot_vsmul (c : R) (v x : Vec R) : dot (vsmul c v) x = c * dot v x := by
  induction v generalizing x with
  | nil => simp [vsmul]
  | cons a v ih =>
    cases x with
    | nil => simp [vsmul]
    | cons b x =>
      have := ih x
      simp only [vsmul, List.map_cons, dot_cons] at this ⊢
      rw [this]; ring

theorem dot_vsmul_right (c : R) (r x : Vec R) : dot r (vsmul c x) = c * dot r x := by
  induction r generalizing x with
  | nil => simp
  | cons a r ih =>
    cases x with
    | nil => simp [vsmul]
    | cons b x =>
      have := ih x
      simp only [vsmul, List.map_cons, dot_cons] at this ⊢
      rw [this]; ring

@[simp] theorem dot_replicate_zero (n : Nat) (x : Vec R) : dot (List.replicate n (0 : R)) x = 0 := by
  induction n generalizing x with
  | zero => simp
  | succ n ih => cases x with
    | nil => simp
    | cons b x => simp [List.replicate_succ, ih]

theorem dot_append (a b x y : Vec R) (h : a.length = x.length) : dot (a ++ b) (x ++ y) = dot a x + dot b y := by
  induction a generalizing x with
  | nil => cases x with
    | nil => simp
    | cons _ _ => simp at h
  | cons c a ih => cases x with
    | nil => simp at h
    | cons d x =>
      simp only [List.length_cons, Nat.add_right_cancel_iff] at h
      simp [ih x h]; ring

theorem vsmul_length (c : R) (v : Vec R) : (vsmul c v).length = v.length := by simp [vsmul]

theorem vadd_map_map {α : Type} (l : List α) (f g : α → R) :
    vadd (l.map f) (l.map g) = l.map (fun a => f a + g a) := by
  induction l with
  | nil => simp
  | cons a l ih => simp [ih]

theorem vsmul_map {α : Type} (c : R) (l : List α) (f : α → R) : vsmul c (l.map f) = l.map (fun a => c * f a) := by
  simp [vsmul]

/-! ### matrices -/

@[simp] theorem mulVec_nil (x : Vec R) : mulVec ([] : Mat R) x = [] := by simp [mulVec]
@[simp] theorem mulVec_cons (a : Vec R) (A : Mat R) (x : Vec R) : mulVec (a :: A) x = dot a x :: mulVec A x := by
  simp [mulVec]
@[simp] theorem mulVec_length (A : Mat R) (x : Vec R) : (mulVec A x).length = A.length := by simp [mulVec]
theorem mulVec_append (A B : Mat R) (x : Vec R) : mulVec (A ++ B) x = mulVec A x ++ mulVec B x := by simp [mulVec]

theorem mulVec_madd (A B : Mat R) (x : Vec R) : mulVec (madd A B) x = vadd (mulVec A x) (mulVec B x) := by
  induction A generalizing B with
  | nil => simp [madd]
  | cons a A ih => cases B with
    | nil => simp [madd]
    | cons b B => simp [madd, ih, dot_vadd]

theorem mulVec_msmul (c : R) (A : Mat R) (x : Vec R) : mulVec (msmul c A) x = vsmul c (mulVec A x) := by
  simp only [mulVec, msmul, vsmul_map, List.map_map]
  apply List.map_congr_left
  intro r _
  exact dot_vsmul c r x

theorem dot_vecMat (r : Vec R) (B : Mat R) (n : Nat) (x : Vec R) : dot (vecMat r B n) x = dot r (mulVec B x) := by
  induction r generalizing B with
  | nil => simp [vecMat]
  | cons a r ih => cases B with
    | nil => simp [vecMat]
    | cons b B => simp [vecMat, dot_vadd, dot_vsmul, ih]

theorem mulVec_mmul (A B : Mat R) (n : Nat) (x : Vec R) : mulVec (mmul A B n) x = mulVec A (mulVec B x) := by
  induction A with
  | nil => simp [mmul]
  | cons a A ih =>
    simp only [mmul, List.map_cons, mulVec_cons] at ih ⊢
    rw [ih, dot_vecMat]

/-- `A (x + y) = A x + A y` -/
theorem mulVec_vadd_right (A : Mat R) (x y : Vec R) : mulVec A (vadd x y) = vadd (mulVec A x) (mulVec A y) := by
  simp only [mulVec, vadd_map_map, dot_vadd_right]

/-- `A (c x) = c (A x)` -/
theorem mulVec_vsmul_right (c : R) (A : Mat R) (x : Vec R) : mulVec A (vsmul c x) = vsmul c (mulVec A x) := by
  simp only [mulVec, vsmul_map, dot_vsmul_right]

/-! ### shapes -/

/-- `M` has `m` rows of length `n` -/
def IsMat (m n : Nat) (M : Mat R) : Prop := M.length = m ∧ ∀ r ∈ M, r.length = n

theorem isMat_zero (m n : Nat) : IsMat m n (zeroMat m n : Mat R) := by
  constructor
  · simp [zeroMat]
  · intro r hr
    simp only [zeroMat, List.mem_replicate] at hr
    simp [hr.2]

theorem vadd_length_eq {u v : Vec R} {n : Nat} (hu : u.length = n) (hv : v.length = n) : (vadd u v).length = n := by
  simp [vadd_length, hu, hv]

theorem isMat_madd {m n : Nat} {A B : Mat R} (hA : IsMat m n A) (hB : IsMat m n B) : IsMat m n (madd A B) := by
  induction A generalizing B m with
  | nil =>
    simp only [madd]; exact hB
  | cons a A ih =>
    cases B with
    | nil => simp only [madd]; exact hA
    | cons b B =>
      obtain ⟨hA1, hA2⟩ := hA
      obtain ⟨hB1, hB2⟩ := hB
      cases m with
      | zero => simp at hA1
      | succ m =>
        have h := ih (m := m) (B := B) ⟨by simpa using hA1, fun r hr => hA2 r (List.mem_cons_of_mem _ hr)⟩
          ⟨by simpa using hB1, fun r hr => hB2 r (List.mem_cons_of_mem _ hr)⟩
        constructor
        · simp [madd, h.1]
        · intro r hr
          simp only [madd, List.mem_cons] at hr
          rcases hr with rfl | hr
          · exact vadd_length_eq (hA2 a (List.mem_cons_self ..)) (hB2 b (List.mem_cons_self ..))
          · exact h.2 r hr

theorem isMat_msmul {m n : Nat} (c : R) {A : Mat R} (hA : IsMat m n A) : IsMat m n (msmul c A) := by
  constructor
  · simp [msmul, hA.1]
  · intro r hr
    simp only [msmul, List.mem_map] at hr
    obtain ⟨a, ha, rfl⟩ := hr
    simp [vsmul, hA.2 a ha]

theorem vecMat_length (r : Vec R) (B : Mat R) (n : Nat) (hB : ∀ b ∈ B, b.length = n) : (vecMat r B n).length = n := by
  induction r generalizing B with
  | nil => simp [vecMat]
  | cons a r ih => cases B with
    | nil => simp [vecMat]
    | cons b B =>
      simp only [vecMat]
      exact vadd_length_eq (by simp [vsmul, hB b (List.mem_cons_self ..)])
        (ih B fun b' hb' => hB b' (List.mem_cons_of_mem _ hb'))

theorem isMat_mmul {m k n : Nat} {A B : Mat R} (hA : IsMat m k A) (hB : IsMat k n B) : IsMat m n (mmul A B n) := by
  constructor
  · simp [mmul, hA.1]
  · intro r hr
    simp only [mmul, List.mem_map] at hr
    obtain ⟨a, _, rfl⟩ := hr
    exact vecMat_length a B n hB.2

theorem isMat_transpose {m n : Nat} (A : Mat R) (hA : A.length = m) : IsMat n m (transposeM A n) := by
  constructor
  · simp [transposeM]
  · intro r hr
    simp only [transposeM, List.mem_map] at hr
    obtain ⟨j, _, rfl⟩ := hr
    simp [hA]

theorem isMat_map_map {m n : Nat} (f : R → R) {A : Mat R} (hA : IsMat m n A) : IsMat m n (A.map (·.map f)) := by
  constructor
  · simp [hA.1]
  · intro r hr
    simp only [List.mem_map] at hr
    obtain ⟨a, ha, rfl⟩ := hr
    simp [hA.2 a ha]

/-! ### by-parts application -/

/-- the scalar type splits into real and imaginary part -/
def LawfulParts (R : Type) [CommRing R] [CParts R] : Prop :=
  ∀ x : R, CParts.re x + CParts.I * CParts.im x = x

variable [CParts R]

theorem dot_parts (h : LawfulParts R) (r x : Vec R) :
    dot r (x.map CParts.re) + CParts.I * dot r (x.map CParts.im) = dot r x := by
  induction r generalizing x with
  | nil => simp
  | cons a r ih =>
    cases x with
    | nil => simp
    | cons b x =>
      simp only [List.map_cons, dot_cons]
      rw [← ih x]
      conv_rhs => rw [← h b]
      ring

/-- real operators applied to complex vectors by parts give the plain product -/
theorem mulVecParts_eq (h : LawfulParts R) (A : Mat R) (x : Vec R) : mulVecParts A x = mulVec A x := by
  simp only [mulVecParts, mulVec, vsmul_map, vadd_map_map]
  apply List.map_congr_left
  intro r _
  exact dot_parts h r x

theorem applyMat_eq (h : LawfulParts R) (c : Bool) (M : Mat R) (xc : Bool) (x : Vec R) :
    applyMat c M xc x = mulVec M x := by
  unfold applyMat
  split
  · exact mulVecParts_eq h M x
  · rfl

/-! ### blocked operators -/

theorem hcat_length (Ms : List (Mat R)) (m : Nat) (h : ∀ M ∈ Ms, M.length = m) : (hcat Ms m).length = m := by
  induction Ms with
  | nil => simp [hcat]
  | cons A As ih =>
    simp only [hcat, List.length_zipWith]
    rw [ih fun M hM => h M (List.mem_cons_of_mem _ hM), h A (List.mem_cons_self ..)]
    simp

theorem mulVec_zipWith_append (A B : Mat R) (x y : Vec R) (hlen : A.length = B.length)
    (hA : ∀ a ∈ A, a.length = x.length) :
    mulVec (List.zipWith (· ++ ·) A B) (x ++ y) = vadd (mulVec A x) (mulVec B y) := by
  induction A generalizing B with
  | nil => cases B with
    | nil => simp
    | cons _ _ => simp at hlen
  | cons a A ih => cases B with
    | nil => simp at hlen
    | cons b B =>
      simp only [List.length_cons, Nat.add_right_cancel_iff] at hlen
      simp only [List.zipWith_cons_cons, mulVec_cons, vadd_cons]
      rw [ih B hlen fun a' ha' => hA a' (List.mem_cons_of_mem _ ha'), dot_append _ _ _ _ (hA a (List.mem_cons_self ..))]

theorem forall₂_rows_length {r : Nat} {row : List (Bool × Mat R)} {cd : List Nat}
    (hrow : List.Forall₂ (fun b d => IsMat r d b.2) row cd) : ∀ b ∈ row, b.2.length = r := by
  induction hrow with
  | nil => intro b hb; simp at hb
  | cons hb _ ih =>
    intro b' hb'
    simp only [List.mem_cons] at hb'
    rcases hb' with rfl | hb'
    · exact hb.1
    · exact ih b' hb'

/-- one block row: the blockwise product equals the product with the horizontally stacked matrix -/
theorem blockRow_agree (h : LawfulParts R) (xc : Bool) (r : Nat) (row : List (Bool × Mat R)) (cd : List Nat)
    (xs : List (Vec R))
    (hrow : List.Forall₂ (fun b d => IsMat r d b.2) row cd) (hxs : List.Forall₂ (fun x d => x.length = d) xs cd) :
    blockRowMv xc row xs r = mulVec (hcat (row.map (·.2)) r) xs.flatten := by
  induction hrow generalizing xs with
  | nil =>
    cases hxs
    simp [blockRowMv, hcat, mulVec]
  | @cons b d row cd hb hrow ih =>
    cases hxs with
    | @cons x _ xs _ hx hxs =>
      simp only [blockRowMv, List.map_cons, hcat, List.flatten_cons]
      have hl : (hcat (row.map (·.2)) r).length = r := by
        apply hcat_length
        intro M hM
        simp only [List.mem_map] at hM
        obtain ⟨b', hb', rfl⟩ := hM
        exact forall₂_rows_length hrow b' hb'
      rw [mulVec_zipWith_append _ _ _ _ (by rw [hb.1, hl]) (fun a ha => by rw [hb.2 a ha, hx]), applyMat_eq h, ih xs hxs]

end BemppVerif.Lemmas.AlgMat
