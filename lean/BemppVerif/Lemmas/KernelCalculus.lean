/-
Calculus facts about the canonical Green's-function kernels of `KernelFacts.lean`, instantiated at
K = ℝ, sqrt = Real.sqrt, cos = Real.cos, sin = Real.sin, exp = Real.exp.

* `hasDerivAt_dist`, `hasDerivAt_radial`: derivative of |d + t n| and of g(|d + t n|) at t = 0.
* radial profiles `lapG, modG, helmU, helmV` with their explicit first derivatives
  `lapG1, modG1, helmU1, helmV1` (`hasDerivAt_lapG` …); the PDE file `KernelPDE.lean` re-uses them.
* the normal-derivative theorems: the canonical double-layer kernel is the derivative at t = 0 of the canonical
  single-layer kernel along the trial normal (y ↦ y + t n_y), the adjoint double layer along the test normal
  (x ↦ x + t n_x).  Hypothesis x ≠ y is `0 < (y0-x0)^2+(y1-x1)^2+(y2-x2)^2`.
-/
import BemppVerif.Lemmas.KernelFacts
import Mathlib.Analysis.SpecialFunctions.Sqrt
import Mathlib.Analysis.SpecialFunctions.Trigonometric.Deriv
import Mathlib.Analysis.SpecialFunctions.ExpDeriv
import Mathlib.Analysis.Calculus.Deriv.Inv
import Mathlib.Tactic.FieldSimp
import Mathlib.Tactic.Ring
import Mathlib.Tactic.Positivity

namespace BemppVerif.KernelCalculus
open BemppVerif.Kernels

/-! ## distance and radial functions along a line -/

theorem hasDerivAt_sqdist (d0 d1 d2 n0 n1 n2 : ℝ) :
    HasDerivAt (fun t : ℝ => (d0 + t * n0) ^ 2 + (d1 + t * n1) ^ 2 + (d2 + t * n2) ^ 2)
      (2 * (d0 * n0 + d1 * n1 + d2 * n2)) 0 := by
  have e (d n : ℝ) : HasDerivAt (fun t : ℝ => (d + t * n) ^ 2) (2 * (d * n)) 0 := by
    have h := (((hasDerivAt_id' (0 : ℝ)).mul_const n).const_add d).fun_pow 2
    refine h.congr_deriv ?_
    simp
    ring
  have h := ((e d0 n0).fun_add (e d1 n1)).fun_add (e d2 n2)
  refine h.congr_deriv ?_
  ring

theorem hasDerivAt_dist (d0 d1 d2 n0 n1 n2 : ℝ) (h : 0 < d0 ^ 2 + d1 ^ 2 + d2 ^ 2) :
    HasDerivAt (fun t : ℝ => Real.sqrt ((d0 + t * n0) ^ 2 + (d1 + t * n1) ^ 2 + (d2 + t * n2) ^ 2))
      ((d0 * n0 + d1 * n1 + d2 * n2) / Real.sqrt (d0 ^ 2 + d1 ^ 2 + d2 ^ 2)) 0 := by
  have hs := (hasDerivAt_sqdist d0 d1 d2 n0 n1 n2).sqrt
    (by simpa only [zero_mul, add_zero] using h.ne')
  convert hs using 1
  simp only [zero_mul, add_zero]
  have : Real.sqrt (d0 ^ 2 + d1 ^ 2 + d2 ^ 2) ≠ 0 := Real.sqrt_ne_zero'.mpr h
  field_simp

theorem hasDerivAt_radial (g : ℝ → ℝ) (g' : ℝ) (d0 d1 d2 n0 n1 n2 : ℝ) (h : 0 < d0 ^ 2 + d1 ^ 2 + d2 ^ 2)
    (hg : HasDerivAt g g' (Real.sqrt (d0 ^ 2 + d1 ^ 2 + d2 ^ 2))) :
    HasDerivAt (fun t : ℝ => g (Real.sqrt ((d0 + t * n0) ^ 2 + (d1 + t * n1) ^ 2 + (d2 + t * n2) ^ 2)))
      (g' * (d0 * n0 + d1 * n1 + d2 * n2) / Real.sqrt (d0 ^ 2 + d1 ^ 2 + d2 ^ 2)) 0 := by
  have hc := hg.comp_of_eq 0 (hasDerivAt_dist d0 d1 d2 n0 n1 n2 h) (by simp only [zero_mul, add_zero])
  refine hc.congr_deriv ?_
  ring

/-- radial function along the trial normal: y ↦ y + t n_y, d = y - x -/
theorem hasDerivAt_radial_trial (g : ℝ → ℝ) (g' : ℝ) (x0 x1 x2 y0 y1 y2 n0 n1 n2 : ℝ)
    (h : 0 < (y0 - x0) ^ 2 + (y1 - x1) ^ 2 + (y2 - x2) ^ 2)
    (hg : HasDerivAt g g' (Real.sqrt ((y0 - x0) ^ 2 + (y1 - x1) ^ 2 + (y2 - x2) ^ 2))) :
    HasDerivAt (fun t : ℝ => g (Real.sqrt ((y0 + t * n0 - x0) ^ 2 + (y1 + t * n1 - x1) ^ 2 + (y2 + t * n2 - x2) ^ 2)))
      (g' * ((y0 - x0) * n0 + (y1 - x1) * n1 + (y2 - x2) * n2)
        / Real.sqrt ((y0 - x0) ^ 2 + (y1 - x1) ^ 2 + (y2 - x2) ^ 2)) 0 := by
  have hr := hasDerivAt_radial g g' (y0 - x0) (y1 - x1) (y2 - x2) n0 n1 n2 h hg
  have hf : (fun t : ℝ => g (Real.sqrt ((y0 + t * n0 - x0) ^ 2 + (y1 + t * n1 - x1) ^ 2 + (y2 + t * n2 - x2) ^ 2)))
      = fun t : ℝ => g (Real.sqrt ((y0 - x0 + t * n0) ^ 2 + (y1 - x1 + t * n1) ^ 2 + (y2 - x2 + t * n2) ^ 2)) := by
    funext t
    congr 2
    ring
  rw [hf]
  exact hr

/-- radial function along the test normal: x ↦ x + t n_x, d = y - x -/
theorem hasDerivAt_radial_test (g : ℝ → ℝ) (g' : ℝ) (x0 x1 x2 y0 y1 y2 n0 n1 n2 : ℝ)
    (h : 0 < (y0 - x0) ^ 2 + (y1 - x1) ^ 2 + (y2 - x2) ^ 2)
    (hg : HasDerivAt g g' (Real.sqrt ((y0 - x0) ^ 2 + (y1 - x1) ^ 2 + (y2 - x2) ^ 2))) :
    HasDerivAt (fun t : ℝ => g (Real.sqrt ((y0 - (x0 + t * n0)) ^ 2 + (y1 - (x1 + t * n1)) ^ 2 + (y2 - (x2 + t * n2)) ^ 2)))
      (-(g' * ((y0 - x0) * n0 + (y1 - x1) * n1 + (y2 - x2) * n2)
        / Real.sqrt ((y0 - x0) ^ 2 + (y1 - x1) ^ 2 + (y2 - x2) ^ 2))) 0 := by
  have hr := hasDerivAt_radial g g' (y0 - x0) (y1 - x1) (y2 - x2) (-n0) (-n1) (-n2) h hg
  convert hr using 1
  · funext t
    congr 2
    ring
  · ring

/-! ## radial profiles and their first derivatives -/

/-- Laplace: c / s -/
noncomputable def lapG (c : ℝ) (s : ℝ) : ℝ := c / s
noncomputable def lapG1 (c : ℝ) (s : ℝ) : ℝ := -c / s ^ 2
/-- modified Helmholtz: c e^{-ω s} / s -/
noncomputable def modG (c ω : ℝ) (s : ℝ) : ℝ := c * Real.exp (-(ω * s)) / s
noncomputable def modG1 (c ω : ℝ) (s : ℝ) : ℝ := -(c * Real.exp (-(ω * s)) * (ω * s + 1)) / s ^ 2
/-- Helmholtz, real part: c e^{-p1 s} cos(p0 s) / s -/
noncomputable def helmU (c p0 p1 : ℝ) (s : ℝ) : ℝ := c * Real.exp (-(p1 * s)) * Real.cos (p0 * s) / s
/-- Helmholtz, imaginary part: c e^{-p1 s} sin(p0 s) / s -/
noncomputable def helmV (c p0 p1 : ℝ) (s : ℝ) : ℝ := c * Real.exp (-(p1 * s)) * Real.sin (p0 * s) / s
/-- Re of G (iks - 1) / s -/
noncomputable def helmU1 (c p0 p1 : ℝ) (s : ℝ) : ℝ :=
  (helmU c p0 p1 s * (-1 - p1 * s) - helmV c p0 p1 s * (p0 * s)) / s
/-- Im of G (iks - 1) / s -/
noncomputable def helmV1 (c p0 p1 : ℝ) (s : ℝ) : ℝ :=
  (helmU c p0 p1 s * (p0 * s) + helmV c p0 p1 s * (-1 - p1 * s)) / s

theorem hasDerivAt_lapG (c s : ℝ) (hs : s ≠ 0) : HasDerivAt (lapG c) (lapG1 c s) s := by
  have h := (hasDerivAt_const s c).fun_div (hasDerivAt_id' s) hs
  refine h.congr_deriv ?_
  simp only [lapG1]
  ring

theorem hasDerivAt_expLin (a s : ℝ) :
    HasDerivAt (fun s : ℝ => Real.exp (-(a * s))) (-(a * Real.exp (-(a * s)))) s := by
  have h := ((hasDerivAt_id' s).const_mul a).fun_neg.exp
  refine h.congr_deriv ?_
  ring

theorem hasDerivAt_cosLin (a s : ℝ) :
    HasDerivAt (fun s : ℝ => Real.cos (a * s)) (-(a * Real.sin (a * s))) s := by
  have h := ((hasDerivAt_id' s).const_mul a).cos
  refine h.congr_deriv ?_
  ring

theorem hasDerivAt_sinLin (a s : ℝ) :
    HasDerivAt (fun s : ℝ => Real.sin (a * s)) (a * Real.cos (a * s)) s := by
  have h := ((hasDerivAt_id' s).const_mul a).sin
  refine h.congr_deriv ?_
  ring

theorem hasDerivAt_modG (c ω s : ℝ) (hs : s ≠ 0) : HasDerivAt (modG c ω) (modG1 c ω s) s := by
  have h := ((hasDerivAt_expLin ω s).const_mul c).fun_div (hasDerivAt_id' s) hs
  refine h.congr_deriv ?_
  simp only [modG1]
  ring

theorem hasDerivAt_helmU (c p0 p1 s : ℝ) (hs : s ≠ 0) : HasDerivAt (helmU c p0 p1) (helmU1 c p0 p1 s) s := by
  have h := (((hasDerivAt_expLin p1 s).const_mul c).fun_mul (hasDerivAt_cosLin p0 s)).fun_div (hasDerivAt_id' s) hs
  refine h.congr_deriv ?_
  simp only [helmU1, helmU, helmV]
  field_simp
  ring

theorem hasDerivAt_helmV (c p0 p1 s : ℝ) (hs : s ≠ 0) : HasDerivAt (helmV c p0 p1) (helmV1 c p0 p1 s) s := by
  have h := (((hasDerivAt_expLin p1 s).const_mul c).fun_mul (hasDerivAt_sinLin p0 s)).fun_div (hasDerivAt_id' s) hs
  refine h.congr_deriv ?_
  simp only [helmV1, helmU, helmV]
  field_simp
  ring

/-! ## the canonical kernels as radial profiles of the distance -/

section normal
variable (c4pi x0 x1 x2 y0 y1 y2 nx0 nx1 nx2 ny0 ny1 ny2 p0 p1 : ℝ)

local notation "R" => Real.sqrt ((y0 - x0) ^ 2 + (y1 - x1) ^ 2 + (y2 - x2) ^ 2)

theorem laplace_dl_is_normal_derivative (hxy : 0 < (y0 - x0) ^ 2 + (y1 - x1) ^ 2 + (y2 - x2) ^ 2) :
    HasDerivAt (fun t : ℝ => lapSL Real.sqrt Real.cos Real.sin Real.exp c4pi x0 x1 x2
        (y0 + t * ny0) (y1 + t * ny1) (y2 + t * ny2) nx0 nx1 nx2 ny0 ny1 ny2 p0 p1)
      (lapDL Real.sqrt Real.cos Real.sin Real.exp c4pi x0 x1 x2 y0 y1 y2 nx0 nx1 nx2 ny0 ny1 ny2 p0 p1) 0 := by
  have hR : R ≠ 0 := Real.sqrt_ne_zero'.mpr hxy
  have h := hasDerivAt_radial_trial (lapG c4pi) _ x0 x1 x2 y0 y1 y2 ny0 ny1 ny2 hxy (hasDerivAt_lapG c4pi _ hR)
  refine h.congr_deriv ?_
  simp only [lapDL, dny, r, lapG1]
  ring

theorem laplace_adl_is_normal_derivative (hxy : 0 < (y0 - x0) ^ 2 + (y1 - x1) ^ 2 + (y2 - x2) ^ 2) :
    HasDerivAt (fun t : ℝ => lapSL Real.sqrt Real.cos Real.sin Real.exp c4pi
        (x0 + t * nx0) (x1 + t * nx1) (x2 + t * nx2) y0 y1 y2 nx0 nx1 nx2 ny0 ny1 ny2 p0 p1)
      (lapADL Real.sqrt Real.cos Real.sin Real.exp c4pi x0 x1 x2 y0 y1 y2 nx0 nx1 nx2 ny0 ny1 ny2 p0 p1) 0 := by
  have hR : R ≠ 0 := Real.sqrt_ne_zero'.mpr hxy
  have h := hasDerivAt_radial_test (lapG c4pi) _ x0 x1 x2 y0 y1 y2 nx0 nx1 nx2 hxy (hasDerivAt_lapG c4pi _ hR)
  refine h.congr_deriv ?_
  simp only [lapADL, dnx, r, lapG1]
  ring

theorem modified_dl_is_normal_derivative (hxy : 0 < (y0 - x0) ^ 2 + (y1 - x1) ^ 2 + (y2 - x2) ^ 2) :
    HasDerivAt (fun t : ℝ => modSL Real.sqrt Real.cos Real.sin Real.exp c4pi x0 x1 x2
        (y0 + t * ny0) (y1 + t * ny1) (y2 + t * ny2) nx0 nx1 nx2 ny0 ny1 ny2 p0 p1)
      (modDL Real.sqrt Real.cos Real.sin Real.exp c4pi x0 x1 x2 y0 y1 y2 nx0 nx1 nx2 ny0 ny1 ny2 p0 p1) 0 := by
  have hR : R ≠ 0 := Real.sqrt_ne_zero'.mpr hxy
  have h := hasDerivAt_radial_trial (modG c4pi p0) _ x0 x1 x2 y0 y1 y2 ny0 ny1 ny2 hxy (hasDerivAt_modG c4pi p0 _ hR)
  refine h.congr_deriv ?_
  simp only [modDL, modSL, dny, r, modG1]
  ring

theorem modified_adl_is_normal_derivative (hxy : 0 < (y0 - x0) ^ 2 + (y1 - x1) ^ 2 + (y2 - x2) ^ 2) :
    HasDerivAt (fun t : ℝ => modSL Real.sqrt Real.cos Real.sin Real.exp c4pi
        (x0 + t * nx0) (x1 + t * nx1) (x2 + t * nx2) y0 y1 y2 nx0 nx1 nx2 ny0 ny1 ny2 p0 p1)
      (modADL Real.sqrt Real.cos Real.sin Real.exp c4pi x0 x1 x2 y0 y1 y2 nx0 nx1 nx2 ny0 ny1 ny2 p0 p1) 0 := by
  have hR : R ≠ 0 := Real.sqrt_ne_zero'.mpr hxy
  have h := hasDerivAt_radial_test (modG c4pi p0) _ x0 x1 x2 y0 y1 y2 nx0 nx1 nx2 hxy (hasDerivAt_modG c4pi p0 _ hR)
  refine h.congr_deriv ?_
  simp only [modADL, modSL, dnx, r, modG1]
  ring

theorem helmholtz_dl_is_normal_derivative_re (hxy : 0 < (y0 - x0) ^ 2 + (y1 - x1) ^ 2 + (y2 - x2) ^ 2) :
    HasDerivAt (fun t : ℝ => helmSLre Real.sqrt Real.cos Real.sin Real.exp c4pi x0 x1 x2
        (y0 + t * ny0) (y1 + t * ny1) (y2 + t * ny2) nx0 nx1 nx2 ny0 ny1 ny2 p0 p1)
      (helmDLre Real.sqrt Real.cos Real.sin Real.exp c4pi x0 x1 x2 y0 y1 y2 nx0 nx1 nx2 ny0 ny1 ny2 p0 p1) 0 := by
  have hR : R ≠ 0 := Real.sqrt_ne_zero'.mpr hxy
  have h := hasDerivAt_radial_trial (helmU c4pi p0 p1) _ x0 x1 x2 y0 y1 y2 ny0 ny1 ny2 hxy
    (hasDerivAt_helmU c4pi p0 p1 _ hR)
  refine h.congr_deriv ?_
  simp only [helmDLre, helmFre, helmSLre, helmSLim, dny, r, helmU1, helmU, helmV]
  ring

theorem helmholtz_dl_is_normal_derivative_im (hxy : 0 < (y0 - x0) ^ 2 + (y1 - x1) ^ 2 + (y2 - x2) ^ 2) :
    HasDerivAt (fun t : ℝ => helmSLim Real.sqrt Real.cos Real.sin Real.exp c4pi x0 x1 x2
        (y0 + t * ny0) (y1 + t * ny1) (y2 + t * ny2) nx0 nx1 nx2 ny0 ny1 ny2 p0 p1)
      (helmDLim Real.sqrt Real.cos Real.sin Real.exp c4pi x0 x1 x2 y0 y1 y2 nx0 nx1 nx2 ny0 ny1 ny2 p0 p1) 0 := by
  have hR : R ≠ 0 := Real.sqrt_ne_zero'.mpr hxy
  have h := hasDerivAt_radial_trial (helmV c4pi p0 p1) _ x0 x1 x2 y0 y1 y2 ny0 ny1 ny2 hxy
    (hasDerivAt_helmV c4pi p0 p1 _ hR)
  refine h.congr_deriv ?_
  simp only [helmDLim, helmFim, helmSLre, helmSLim, dny, r, helmV1, helmU, helmV]
  ring

theorem helmholtz_adl_is_normal_derivative_re (hxy : 0 < (y0 - x0) ^ 2 + (y1 - x1) ^ 2 + (y2 - x2) ^ 2) :
    HasDerivAt (fun t : ℝ => helmSLre Real.sqrt Real.cos Real.sin Real.exp c4pi
        (x0 + t * nx0) (x1 + t * nx1) (x2 + t * nx2) y0 y1 y2 nx0 nx1 nx2 ny0 ny1 ny2 p0 p1)
      (helmADLre Real.sqrt Real.cos Real.sin Real.exp c4pi x0 x1 x2 y0 y1 y2 nx0 nx1 nx2 ny0 ny1 ny2 p0 p1) 0 := by
  have hR : R ≠ 0 := Real.sqrt_ne_zero'.mpr hxy
  have h := hasDerivAt_radial_test (helmU c4pi p0 p1) _ x0 x1 x2 y0 y1 y2 nx0 nx1 nx2 hxy
    (hasDerivAt_helmU c4pi p0 p1 _ hR)
  refine h.congr_deriv ?_
  simp only [helmADLre, helmFre, helmSLre, helmSLim, dnx, r, helmU1, helmU, helmV]
  ring

theorem helmholtz_adl_is_normal_derivative_im (hxy : 0 < (y0 - x0) ^ 2 + (y1 - x1) ^ 2 + (y2 - x2) ^ 2) :
    HasDerivAt (fun t : ℝ => helmSLim Real.sqrt Real.cos Real.sin Real.exp c4pi
        (x0 + t * nx0) (x1 + t * nx1) (x2 + t * nx2) y0 y1 y2 nx0 nx1 nx2 ny0 ny1 ny2 p0 p1)
      (helmADLim Real.sqrt Real.cos Real.sin Real.exp c4pi x0 x1 x2 y0 y1 y2 nx0 nx1 nx2 ny0 ny1 ny2 p0 p1) 0 := by
  have hR : R ≠ 0 := Real.sqrt_ne_zero'.mpr hxy
  have h := hasDerivAt_radial_test (helmV c4pi p0 p1) _ x0 x1 x2 y0 y1 y2 nx0 nx1 nx2 hxy
    (hasDerivAt_helmV c4pi p0 p1 _ hR)
  refine h.congr_deriv ?_
  simp only [helmADLim, helmFim, helmSLre, helmSLim, dnx, r, helmV1, helmU, helmV]
  ring

end normal

end BemppVerif.KernelCalculus
