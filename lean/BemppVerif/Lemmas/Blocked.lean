/- Helper lemmas for the application of discrete blocked operators (C15 / C14): the offset loops of
`BlockedDiscreteOperator._matvec/_matmat` and `GeneralizedDiscreteBlockedOperator._matmat` compute the product
with the matrix `to_dense()` builds.  Single Mathlib modules only. -/
import Mathlib.Algebra.BigOperators.Group.List.Basic
import Mathlib.Algebra.Ring.Defs
import Mathlib.Data.List.Forall2
import BemppVerif.Model.Blocked

namespace BemppVerif.Lemmas.Blocked
open BemppVerif.Model.Solve BemppVerif.Model.Blocked

variable {K : Type} [Semiring K]

theorem dot_nil_left (x : Vec K) : dot ([] : Vec K) x = 0 := by simp [dot]

theorem dot_cons (a : K) (as : Vec K) (b : K) (bs : Vec K) : dot (a :: as) (b :: bs) = a * b + dot as bs := by
  simp [dot]

/-- a row of length `c` only sees the first `c` entries of `x` -/
theorem dot_take (ρ : Vec K) (x : Vec K) (c : Nat) (h : ρ.length ≤ c) : dot ρ (x.take c) = dot ρ x := by
  induction ρ generalizing x c with
  | nil => simp [dot]
  | cons a ρ ih =>
    cases x with
    | nil => simp [dot]
    | cons b x =>
      cases c with
      | zero => simp at h
      | succ c =>
        simp only [List.take_succ_cons, dot_cons]
        rw [ih x c (by simpa using h)]

theorem dot_append (a b x : Vec K) :
    dot (a ++ b) x = dot a (x.take a.length) + dot b (x.drop a.length) := by
  induction a generalizing x with
  | nil => simp [dot]
  | cons a0 a ih =>
    cases x with
    | nil => simp [dot]
    | cons x0 x =>
      simp only [List.cons_append, dot_cons, List.length_cons, List.take_succ_cons, List.drop_succ_cons, ih x]
      rw [add_assoc]

theorem vadd_assoc (a b c : Vec K) : vadd (vadd a b) c = vadd a (vadd b c) := by
  induction a generalizing b c with
  | nil => simp [vadd]
  | cons a0 a ih =>
    cases b with
    | nil => simp [vadd]
    | cons b0 b =>
      cases c with
      | nil => simp [vadd]
      | cons c0 c =>
        have := ih b c
        simp only [vadd] at this ⊢
        simp [this, add_assoc]

theorem zero_vadd (v : Vec K) : vadd (List.replicate v.length (0 : K)) v = v := by
  induction v with
  | nil => simp [vadd]
  | cons a v ih =>
    simp only [vadd] at ih
    simp [vadd, List.replicate_succ, ih]

theorem length_vadd (a b : Vec K) : (vadd a b).length = min a.length b.length := by simp [vadd]

theorem length_matvec' (M : Mat K) (x : Vec K) : (matvec M x).length = M.length := by simp [matvec]

/-- rows of the right length: a slice of the right width can be replaced by the whole tail -/
theorem matvec_slice (A : Mat K) (x : Vec K) (o c : Nat) (h : ∀ ρ ∈ A, ρ.length = c) :
    matvec A (slice x o c) = matvec A (x.drop o) := by
  simp only [matvec, slice]
  apply List.map_congr_left
  intro ρ hρ
  exact dot_take ρ _ c (Nat.le_of_eq (h ρ hρ))

/-- `hstack` of `A` and more blocks, applied to `x`, is `A x[:c] + (rest) x[c:]` -/
theorem matvec_zipWith_append (A H : Mat K) (x : Vec K) (c : Nat) (h : ∀ ρ ∈ A, ρ.length = c) :
    matvec (List.zipWith (· ++ ·) A H) x = vadd (matvec A (x.take c)) (matvec H (x.drop c)) := by
  induction A generalizing H with
  | nil => simp [matvec, vadd]
  | cons ρ A ih =>
    cases H with
    | nil => simp [matvec, vadd]
    | cons σ H =>
      have hρ : ρ.length = c := h ρ (by simp)
      have := ih H (fun τ hτ => h τ (List.mem_cons_of_mem _ hτ))
      simp only [matvec, vadd] at this ⊢
      simp only [List.zipWith_cons_cons, List.map_cons, this, dot_append, hρ]

/-- well-formedness of one block row: every block has `r` rows and the width its block column prescribes -/
def RowWF (r : Nat) (row : List (Mat K)) (cols : List Nat) : Prop :=
  List.Forall₂ (fun A c => A.length = r ∧ ∀ ρ ∈ A, ρ.length = c) row cols

omit [Semiring K] in
theorem length_hstack (r : Nat) (row : List (Mat K)) (cols : List Nat) (h : RowWF r row cols) (hne : row ≠ []) :
    (hstack row).length = r := by
  induction h with
  | nil => exact absurd rfl hne
  | @cons A c row cols hA hrow ih =>
    cases row with
    | nil => simpa [hstack] using hA.1
    | cons B Bs =>
      have := ih (by simp)
      simp [hstack, hA.1, this]

/-- the inner loop adds `hstack(row) · x[col_dim:]` to the accumulator -/
theorem rowLoop_eq (r : Nat) (row : List (Mat K)) (cols : List Nat) (h : RowWF r row cols) (hne : row ≠ [])
    (x : Vec K) (o : Nat) (acc : Vec K) :
    rowLoop row cols x o acc = vadd acc (matvec (hstack row) (x.drop o)) := by
  induction h generalizing o acc with
  | nil => exact absurd rfl hne
  | @cons A c row cols hA hrow ih =>
    cases hrow with
    | nil =>
      simp only [rowLoop, hstack]
      rw [matvec_slice A x o c hA.2]
    | @cons B c' Bs cols' hB hBs =>
      have hrow' : RowWF r (B :: Bs) (c' :: cols') := List.Forall₂.cons hB hBs
      rw [rowLoop, ih (by simp) (o + c), vadd_assoc]
      congr 1
      simp only [hstack]
      rw [matvec_zipWith_append A _ (x.drop o) c hA.2, List.drop_drop]
      rfl

theorem matvec_flatten (Ms : List (Mat K)) (x : Vec K) :
    matvec Ms.flatten x = (Ms.map fun M => matvec M x).flatten := by
  simp [matvec, List.map_flatten]

/-- well-formedness of the whole block array (what `BlockedDiscreteOperator.__init__` enforces) -/
def WF (blocks : List (List (Mat K))) (rows cols : List Nat) : Prop :=
  List.Forall₂ (fun row r => RowWF r row cols) blocks rows

/-- **`_matvec` is the product with `to_dense()`**, for every block layout -/
theorem matvecBlocked_eq (blocks : List (List (Mat K))) (rows cols : List Nat) (h : WF blocks rows cols)
    (hc : cols ≠ []) (x : Vec K) :
    matvecBlocked blocks rows cols x = matvec (toDense blocks) x := by
  unfold matvecBlocked toDense
  rw [matvec_flatten]
  congr 1
  induction h with
  | nil => rfl
  | @cons row r blocks rows hrow hrest ih =>
    simp only [List.zipWith_cons_cons, List.map_cons, List.map_map]
    have hne : row ≠ [] := by
      intro he; subst he
      cases hrow
      exact hc rfl
    rw [rowLoop_eq r row cols hrow hne x 0 _]
    have hl : (matvec (hstack row) x).length = r := by
      rw [length_matvec', length_hstack r row cols hrow hne]
    simp only [List.drop_zero]
    conv_lhs => rw [← hl]
    rw [zero_vadd]
    simp only [List.map_map] at ih
    rw [ih]


/-! ## `_matmat`: column by column the same loop -/

omit [Semiring K] in
theorem zipWith_vadd_map {α : Type} [Add K] (X : List α) (h g : α → Vec K) :
    List.zipWith vadd (X.map h) (X.map g) = X.map fun xc => vadd (h xc) (g xc) := by
  induction X with
  | nil => rfl
  | cons a X ih => simp [ih]

/-- the 2-D inner loop runs the 1-D inner loop on every column -/
theorem rowLoopMM_map (row : List (Mat K)) (cols : List Nat) (X : List (Vec K)) (o : Nat) (h : Vec K → Vec K) :
    rowLoopMM row cols X o (X.map h) = X.map fun xc => rowLoop row cols xc o (h xc) := by
  induction row generalizing cols o h with
  | nil => simp [rowLoopMM, rowLoop]
  | cons A row ih =>
    cases cols with
    | nil => simp [rowLoopMM, rowLoop]
    | cons c cols =>
      simp only [rowLoopMM, rowLoop]
      rw [zipWith_vadd_map, ih]

/-- **`_matmat` applies `_matvec` to every column**, for every block layout (no well-formedness needed: both
run the same offsets) -/
theorem matmatBlocked_eq_map (blocks : List (List (Mat K))) (rows cols : List Nat) (X : List (Vec K)) :
    matmatBlocked blocks rows cols X = X.map (matvecBlocked blocks rows cols) := by
  apply List.ext_getElem
  · simp [matmatBlocked]
  · intro k h1 h2
    have hk : k < X.length := by simpa using h2
    simp only [matmatBlocked, matvecBlocked, List.getElem_map, List.getElem_range]
    congr 1
    have hconst : ∀ r : Nat, (X.map fun _ => List.replicate r (0 : K)) = X.map (fun _ => List.replicate r (0 : K)) :=
      fun _ => rfl
    simp only [rowLoopMM_map, List.map_zipWith]
    congr 1
    funext row r
    simp [List.getD_eq_getElem?_getD, List.getElem?_map, List.getElem?_eq_getElem hk]

/-! ## `GeneralizedDiscreteBlockedOperator._matmat` -/

theorem genRowLoop_eq_rowLoop (row : List (GBlock K)) (x : Vec K) (o : Nat) (acc : Vec K) :
    genRowLoop row x o acc = rowLoop (row.map GBlock.mat) (row.map GBlock.ncols) x o acc := by
  induction row generalizing o acc with
  | nil => simp [genRowLoop, rowLoop]
  | cons B row ih => simp [genRowLoop, rowLoop, ih]

/-- what the constructor's sanity check enforces for one block row, plus "the stored shape is the shape" -/
def GRowWF (row : List (GBlock K)) : Prop :=
  ∃ r, (∀ B ∈ row, B.nrows = r ∧ B.mat.length = r ∧ ∀ ρ ∈ B.mat, ρ.length = B.ncols) ∧ row ≠ []

omit [Semiring K] in
theorem GRowWF.rowWF {row : List (GBlock K)} {r : Nat}
    (h : ∀ B ∈ row, B.nrows = r ∧ B.mat.length = r ∧ ∀ ρ ∈ B.mat, ρ.length = B.ncols) :
    RowWF r (row.map GBlock.mat) (row.map GBlock.ncols) := by
  induction row with
  | nil => exact List.Forall₂.nil
  | cons B row ih =>
    exact List.Forall₂.cons ⟨(h B (by simp)).2.1, (h B (by simp)).2.2⟩
      (ih fun C hC => h C (List.mem_cons_of_mem _ hC))

/-- **the generalized blocked product is the product with `numpy.block(...)`**, for every layout whose block
rows may have different column partitions -/
theorem genMatvec_eq (blocks : List (List (GBlock K))) (h : ∀ row ∈ blocks, GRowWF row) (x : Vec K) :
    genMatvec blocks x = matvec (genToDense blocks) x := by
  unfold genMatvec genToDense toDense
  rw [matvec_flatten]
  congr 1
  simp only [List.map_map]
  apply List.map_congr_left
  intro row hrow
  obtain ⟨r, hr, hne⟩ := h row hrow
  have hwf := GRowWF.rowWF hr
  have hne' : row.map GBlock.mat ≠ [] := by simpa using hne
  simp only [Function.comp]
  rw [genRowLoop_eq_rowLoop, rowLoop_eq r _ _ hwf hne' x 0 _]
  have hl : (matvec (hstack (row.map GBlock.mat)) x).length = r := by
    rw [length_matvec', length_hstack r _ _ hwf hne']
  have hfirst : firstNrows row = r := by
    cases row with
    | nil => exact absurd rfl hne
    | cons B _ => exact (hr B (by simp)).1
  
  rw [hfirst]
  simp only [List.drop_zero]
  conv_lhs => rw [← hl]
  rw [zero_vadd]

/-! ## The constructor's dimension bookkeeping -/

section Ctor
omit [Semiring K]

theorem mem_of_getD_ne {α : Type} (l : List α) (j : Nat) (d x : α) (h : l.getD j d = x) (hne : x ≠ d) : x ∈ l := by
  rw [List.getD_eq_getElem?_getD] at h
  cases hj : l[j]? with
  | none => rw [hj] at h; exact absurd h.symm hne
  | some y =>
    rw [hj] at h
    simp only [Option.getD_some] at h
    subst h
    exact List.mem_of_getElem? hj

theorem dimStep_ok (sel : Nat × Nat → Nat) (cur : Option Nat) (ss : List Shape) (d : Option Nat)
    (h : dimStep sel cur ss = .ok d) :
    (∀ d0, cur = some d0 → d = some d0) ∧ ∀ sh, some sh ∈ ss → d = some (sel sh) := by
  induction ss generalizing cur with
  | nil =>
    simp only [dimStep, Except.ok.injEq] at h
    subst h
    exact ⟨fun _ h => h, fun _ h => by simp at h⟩
  | cons s ss ih =>
    cases s with
    | none =>
      simp only [dimStep] at h
      obtain ⟨h1, h2⟩ := ih cur h
      exact ⟨h1, fun sh hm => h2 sh (by simpa using hm)⟩
    | some s =>
      cases cur with
      | none =>
        simp only [dimStep] at h
        obtain ⟨h1, h2⟩ := ih _ h
        refine ⟨fun _ h => by simp at h, fun sh hm => ?_⟩
        rcases List.mem_cons.mp hm with heq | hm
        · have : sh = s := by simpa using heq
          subst this
          exact h1 _ rfl
        · exact h2 sh hm
      | some d0 =>
        simp only [dimStep] at h
        split at h
        · rename_i hsel
          obtain ⟨h1, h2⟩ := ih _ h
          refine ⟨fun d1 hd => by cases hd; exact h1 _ rfl, fun sh hm => ?_⟩
          rcases List.mem_cons.mp hm with heq | hm
          · have : sh = s := by simpa using heq
            subst this
            rw [hsel]; exact h1 _ rfl
          · exact h2 sh hm
        · cases h

theorem allDims_ok (ds : List (Except Unit (Option Nat))) (out : List Nat) (h : allDims ds = .ok out) :
    ds = out.map fun d => .ok (some d) := by
  induction ds generalizing out with
  | nil => simp only [allDims, Except.ok.injEq] at h; subst h; rfl
  | cons e ds ih =>
    match e, h with
    | .ok (some d), h =>
      simp only [allDims] at h
      cases hrec : allDims ds with
      | error _ => rw [hrec] at h; cases h
      | ok out' =>
        rw [hrec] at h
        simp only [Except.map, Except.ok.injEq] at h
        subst h
        simp [ih out' hrec]
    | .ok none, h => simp [allDims] at h
    | .error _, h => simp [allDims] at h

/-- **The constructor's bookkeeping is sound**: when `__init__` succeeds with `(rows, cols)`, there is one row
dimension per block row, and every block that is not `None` has exactly `rows[i]` rows and `cols[j]` columns — which
is the well-formedness `WF` the product theorems assume (the `None` entries become zero blocks of that size). -/
theorem ctorDims_sound (ss : List (List Shape)) (ncols : Nat) (rows cols : List Nat)
    (h : ctorDims ss ncols = .ok (rows, cols)) :
    rows.length = ss.length ∧ cols.length = ncols ∧
    ∀ i j r c, (ss.getD i []).getD j none = some (r, c) → i < ss.length → j < ncols →
      rows.getD i 0 = r ∧ cols.getD j 0 = c := by
  unfold ctorDims at h
  cases hr : allDims (ss.map rowDim) with
  | error _ => rw [hr] at h; cases h
  | ok rows' =>
    cases hc : allDims ((transposeShapes ss ncols).map colDim) with
    | error _ => rw [hr, hc] at h; cases h
    | ok cols' =>
      rw [hr, hc] at h
      simp only [Except.ok.injEq, Prod.mk.injEq] at h
      obtain ⟨rfl, rfl⟩ := h
      have h1 := allDims_ok _ _ hr
      have h2 := allDims_ok _ _ hc
      have l1 : rows'.length = ss.length := by simpa using (congrArg List.length h1).symm
      have l2 : cols'.length = ncols := by simpa [transposeShapes] using (congrArg List.length h2).symm
      refine ⟨l1, l2, ?_⟩
      intro i j r c hij hi hj
      have hrow : rowDim (ss.getD i []) = .ok (some (rows'.getD i 0)) := by
        have := congrArg (fun l => l[i]?) h1
        simp only [List.getElem?_map] at this
        rw [List.getElem?_eq_getElem hi, List.getElem?_eq_getElem (by omega)] at this
        simp only [Option.map_some, Option.some.injEq] at this
        simpa [List.getD_eq_getElem?_getD, List.getElem?_eq_getElem hi, List.getElem?_eq_getElem (l1 ▸ hi)] using this
      have hcol : colDim (ss.map fun row => row.getD j none) = .ok (some (cols'.getD j 0)) := by
        have := congrArg (fun l => l[j]?) h2
        simp only [List.getElem?_map, transposeShapes] at this
        rw [List.getElem?_eq_getElem (by simpa using hj), List.getElem?_eq_getElem (by omega)] at this
        simp only [List.getElem_range, Option.map_some, Option.some.injEq] at this
        simpa [List.getD_eq_getElem?_getD, List.getElem?_eq_getElem (l2 ▸ hj)] using this
      constructor
      · have hm : some (r, c) ∈ ss.getD i [] := mem_of_getD_ne _ j none _ hij (by simp)
        have := (dimStep_ok _ _ _ _ hrow).2 (r, c) hm
        simpa using this
      · have hm : some (r, c) ∈ ss.map fun row => row.getD j none := by
          refine List.mem_map.mpr ⟨ss.getD i [], ?_, hij⟩
          simp [List.getD_eq_getElem?_getD, List.getElem?_eq_getElem hi]
        have := (dimStep_ok _ _ _ _ hcol).2 (r, c) hm
        simpa using this

end Ctor

/-- index form of the well-formedness: `rows.length` block rows of `cols.length` blocks each, block `(i, j)` has
`rows[i]` rows of length `cols[j]` — the form in which `ctorDims_sound` delivers it for the shapes of the blocks -/
theorem WF_of_index {K : Type} (blocks : List (List (Mat K))) (rows cols : List Nat)
    (hlen : blocks.length = rows.length)
    (hrow : ∀ i (hi : i < blocks.length), (blocks[i]).length = cols.length)
    (hblk : ∀ i j (hi : i < blocks.length) (hj : j < (blocks[i]).length),
      ((blocks[i])[j]).length = rows.getD i 0 ∧ ∀ ρ ∈ (blocks[i])[j], ρ.length = cols.getD j 0) :
    WF blocks rows cols := by
  unfold WF RowWF
  refine List.forall₂_iff_get.mpr ⟨hlen, fun i h1 h2 => ?_⟩
  refine List.forall₂_iff_get.mpr ⟨hrow i h1, fun j g1 g2 => ?_⟩
  have := hblk i j h1 g1
  simp only [List.get_eq_getElem]
  simpa [List.getD_eq_getElem?_getD, List.getElem?_eq_getElem h2, List.getElem?_eq_getElem g2] using this

end BemppVerif.Lemmas.Blocked
