/-
Helper lemmas for C14 (continued): blocked operators — the diagonal inverse-mass operator, products, application to
lists of grid functions.
-/
import BemppVerif.Lemmas.AlgSound2

namespace BemppVerif.Lemmas.AlgSound
open BemppVerif.Model.Alg BemppVerif.Lemmas.AlgMat BemppVerif.Lemmas.AlgType

set_option linter.unusedSectionVars false
set_option linter.unusedSimpArgs false

variable {R : Type} [CommRing R] [CParts R]

/-! ### the block-diagonal inverse mass operator -/

inductive DiagShape : List Nat → List Nat → List (Mat R) → Prop
  | nil : DiagShape [] [] []
  | cons {r d : Nat} {M : Mat R} {rd cd : List Nat} {Ms : List (Mat R)} :
      IsMat r d M → DiagShape rd cd Ms → DiagShape (r :: rd) (d :: cd) (M :: Ms)

theorem forall₂_map_zero (r : Nat) (cd : List Nat) :
    List.Forall₂ (fun (b : Bool × Mat R) d' => IsMat r d' b.2) (cd.map fun d' => (false, zeroMat r d')) cd := by
  induction cd with
  | nil => exact .nil
  | cons d cd ih => exact .cons (isMat_zero r d) ih

theorem forall₂_zipWith_cons {cd : List Nat} (d : Nat) {rows : List (List (Bool × Mat R))} {rd : List Nat}
    (h : List.Forall₂ (fun row r => List.Forall₂ (fun (b : Bool × Mat R) d => IsMat r d b.2) row cd) rows rd) :
    List.Forall₂ (fun row r => List.Forall₂ (fun (b : Bool × Mat R) d => IsMat r d b.2) row (d :: cd))
      (List.zipWith (fun r' row => (false, zeroMat r' d) :: row) rd rows) rd := by
  induction h with
  | nil => exact .nil
  | cons hrow _ ih => exact .cons (.cons (isMat_zero _ d) hrow) ih

theorem diagBlocks_ok {rd cd : List Nat} {Ms : List (Mat R)} (h : DiagShape rd cd Ms) :
    BlocksOk rd cd (diagBlocks rd cd Ms) := by
  induction h with
  | nil => exact .nil
  | @cons r d M rd cd Ms hM _ ih =>
    simp only [diagBlocks]
    exact .cons (.cons hM (forall₂_map_zero r cd)) (forall₂_zipWith_cons d ih)

theorem rangeOps_ok {p : Pool R} (ok : PoolOk p) {rans duals : List (Option Nat)} {Ms : List (Mat R)}
    (hlen : rans.length = duals.length) (h : rangeOps p rans duals = .ok Ms) :
    Ms = minvList p rans duals ∧ DiagShape (dimsOf p rans) (dimsOf p duals) Ms := by
  induction rans generalizing duals Ms with
  | nil =>
    cases duals with
    | nil => simp only [rangeOps] at h; cases h; exact ⟨rfl, .nil⟩
    | cons _ _ => simp at hlen
  | cons r rans ih =>
    cases duals with
    | nil => simp at hlen
    | cons d duals =>
      cases r with
      | none => simp only [rangeOps] at h; cases h
      | some r =>
        cases d with
        | none => simp only [rangeOps] at h; cases h
        | some d =>
          cases hm : p.minvMat r d with
          | none => simp only [rangeOps, hm] at h; cases h
          | some M' =>
            simp only [rangeOps, hm, pure_eq, bind_ok] at h
            obtain ⟨rest, hrest, h⟩ := bind_eq_ok h
            cases h
            obtain ⟨e1, e2⟩ := ih (by simpa using hlen) hrest
            refine ⟨?_, ?_⟩
            · simp only [minvList, Option.getD_some, minvD, hm, e1]
            · simp only [dimsOf, List.map_cons, Option.getD_some]
              exact .cons (ok.minv r d M' hm) e2

/-- `strong_form()` of a blocked operator: block-diagonal inverse mass times weak form -/
theorem strongK_ok {p : Pool R} (ok : PoolOk p) {k : BlkV R} {d r u : List (Option Nat)}
    {bl : List (Nat × Nat × Mat R)} {W : Mat R} (hk : RelK p k d r u bl W) {S : DOp R} (h : strongK p k = .ok S) :
    WFD S ∧ S.rows = (dimsOf p r).sum ∧ S.cols = (dimsOf p d).sum ∧
      S.toDense = mmul (diagD p r u) W (dimsOf p d).sum := by
  obtain ⟨k1, k2, k3, k4, k5, _⟩ := hk
  unfold strongK at h
  obtain ⟨Ms, hMs, h⟩ := bind_eq_ok h
  obtain ⟨w, hw, h⟩ := bind_eq_ok h
  rw [k2, k3] at hMs h
  obtain ⟨e1, e2⟩ := rangeOps_ok ok k4 hMs
  obtain ⟨w1, _, w3, w4⟩ := k5 w hw
  have hdiag : WFD (DOp.blocked false (dimsOf p r) (dimsOf p u) (diagBlocks (dimsOf p r) (dimsOf p u) Ms)) :=
    diagBlocks_ok e2
  obtain ⟨s1, s2, s3, s4⟩ := dMul_ok h hdiag w1
  refine ⟨s1, by rw [s2]; rfl, by rw [s3, w3], ?_⟩
  rw [s4, w4, w3]
  simp only [DOp.toDense, diagD, e1]

/-! ### application to a list of grid functions -/

theorem coeffs_flat (hp : LawfulParts R) {p : Pool R} (ok : PoolOk p) {l : List (GfV R)} {l' : List (Nat × Vec R)}
    {doms : List (Option Nat)} {x : Vec R} (hlen : l.length = doms.length) (hcs : checkSpaces doms l = .ok ())
    (hl : List.Forall₂ (fun g f => RelG p g f.1 f.2) l l') (hx : coeffsList p l = .ok x) :
    x.length = (dimsOf p doms).sum ∧ x = l'.flatMap (·.2) := by
  induction hl generalizing doms x with
  | nil =>
    cases doms with
    | nil => simp only [coeffsList] at hx; cases hx; simp [dimsOf]
    | cons _ _ => simp at hlen
  | @cons g f l l' hg _ ih =>
    cases doms with
    | nil => simp at hlen
    | cons s doms =>
      cases s with
      | none => simp only [checkSpaces] at hcs; cases hcs
      | some s =>
        simp only [checkSpaces] at hcs
        split at hcs
        · rename_i hs
          simp only [coeffsList] at hx
          obtain ⟨c, hc, hx⟩ := bind_eq_ok hx
          obtain ⟨rest, hrest, hx⟩ := bind_eq_ok hx
          cases hx
          obtain ⟨e1, e2⟩ := ih (by simpa using hlen) hcs hrest
          obtain ⟨g1, g2, g3⟩ := hg
          have lc := gfCoeffs_length hp ok (by rw [g1]; exact g2) hc
          refine ⟨?_, ?_⟩
          · simp only [List.length_append, dimsOf, List.map_cons, List.sum_cons, Option.getD_some]
            rw [lc, e1, hs]; rfl
          · simp only [List.flatMap_cons]
            rw [g3 c hc, e2]
        · cases hcs

theorem gfsFromProjections_rel (hp : LawfulParts R) {p : Pool R} (ok : PoolOk p) (c : Bool)
    (rans duals : List (Option Nat)) (y : Vec R) (hy : y.length = (dimsOf p duals).sum) :
    List.Forall₂ (fun g f => RelG p g f.1 f.2) (gfsFromProjections p c rans duals y) (splitD p rans duals y) := by
  induction rans generalizing duals y with
  | nil => simp only [gfsFromProjections, splitD]; exact .nil
  | cons r rans ih =>
    cases r with
    | none => simp only [gfsFromProjections, splitD]; exact .nil
    | some r =>
      cases duals with
      | nil => simp only [gfsFromProjections, splitD]; exact .nil
      | cons d duals =>
        cases d with
        | none => simp only [gfsFromProjections, splitD]; exact .nil
        | some d =>
          simp only [gfsFromProjections, splitD]
          simp only [dimsOf, List.map_cons, List.sum_cons, Option.getD_some] at hy
          refine .cons ⟨rfl, ?_, ?_⟩ (ih duals _ ?_)
          · simp only [Option.getD_some, List.length_take]
            omega
          · intro c' hc'
            rcases gfCoeffs_ok hp ok hc' with ⟨hd, _⟩ | ⟨d', M, hd, hM, _, rfl⟩
            · cases hd
            · cases hd
              simp only at hM ⊢
              simp only [minvD, hM, Option.getD_some]
          · simp only [List.length_drop, dimsOf]
            omega

end BemppVerif.Lemmas.AlgSound
