/- Helper lemmas for C11: index plumbing of `refine` and of the barycentric refinement, vertex coordinates. -/
import BemppVerif.Lemmas.TopoNbr
import BemppVerif.Model.Geom
import Mathlib.Tactic.Ring
import Mathlib.Tactic.FieldSimp

namespace BemppVerif.Lemmas.Topo
open BemppVerif.Model.Topo BemppVerif.Model.Geom BemppVerif.Gen

/-- indexing into a `flatMap` whose pieces all have length `m` -/
theorem getElem?_flatMap_const {α β : Type} (l : List α) (f : α → List β) (m : Nat)
    (hm : ∀ a ∈ l, (f a).length = m) (i k : Nat) (hk : k < m) :
    (l.flatMap f)[m * i + k]? = (l[i]?).bind fun a => (f a)[k]? := by
  induction l generalizing i with
  | nil => simp
  | cons a l ih =>
    have ha : (f a).length = m := hm a (by simp)
    rw [List.flatMap_cons]
    cases i with
    | zero =>
      simp only [Nat.mul_zero, Nat.zero_add, List.getElem?_cons_zero, Option.bind_some]
      rw [List.getElem?_append_left (by omega)]
    | succ i =>
      rw [List.getElem?_append_right (by rw [ha, Nat.mul_succ]; omega)]
      have : m * (i + 1) + k - (f a).length = m * i + k := by rw [ha, Nat.mul_succ]; omega
      rw [this, ih (fun b hb => hm b (by simp [hb])) i]
      simp

theorem getElem?_zip' {α β : Type} (l : List α) (m : List β) (i : Nat) (a : α) (b : β)
    (ha : l[i]? = some a) (hb : m[i]? = some b) : (l.zip m)[i]? = some (a, b) := by
  rw [List.getElem?_zip_eq_some]; exact ⟨ha, hb⟩

theorem children_length (tbl : List (GridConsts.Code × GridConsts.Code × GridConsts.Code)) (t mids : Tri) (c : Nat) :
    (children tbl t mids c).length = tbl.length := by simp [children]

theorem children_get (tbl : List (GridConsts.Code × GridConsts.Code × GridConsts.Code)) (t mids : Tri) (c k : Nat)
    (code : GridConsts.Code × GridConsts.Code × GridConsts.Code) (hk : tbl[k]? = some code) :
    (children tbl t mids c)[k]? =
      some (codeVertex t mids c code.1, codeVertex t mids c code.2.1, codeVertex t mids c code.2.2) := by
  simp [children, hk]

/-- child `4 i + k` of `Grid.refine` in terms of the element and its edge indices -/
theorem refineElems_get (nv : Nat) (els : List Tri) (i k : Nat) (t x : Tri)
    (code : GridConsts.Code × GridConsts.Code × GridConsts.Code)
    (ht : els[i]? = some t) (hx : (elementEdges els)[i]? = some x) (hk : GridConsts.refineChildren[k]? = some code) :
    (refineElems nv els)[4 * i + k]? =
      some (codeVertex t (x.1 + nv, x.2.1 + nv, x.2.2 + nv) 0 code.1,
            codeVertex t (x.1 + nv, x.2.1 + nv, x.2.2 + nv) 0 code.2.1,
            codeVertex t (x.1 + nv, x.2.1 + nv, x.2.2 + nv) 0 code.2.2) := by
  have hk4 : k < 4 := by
    have := (List.getElem?_eq_some_iff.mp hk).1
    simpa [GridConsts.refineChildren] using this
  unfold refineElems
  rw [getElem?_flatMap_const _ _ 4 (by intro a _; rw [children_length]; rfl) i k hk4,
    getElem?_zip' els _ i t x ht hx]
  simp only [Option.bind_some]
  exact children_get _ _ _ _ _ _ hk

theorem repeatEach_get (m : Nat) (l : List Nat) (i k : Nat) (hk : k < m) :
    (repeatEach m l)[m * i + k]? = l[i]? := by
  unfold repeatEach
  rw [getElem?_flatMap_const l (List.replicate m) m (by intro a _; simp) i k hk]
  cases h : l[i]? with
  | none => simp
  | some a => simp [hk]

/-! ### vertex coordinates -/

section Coord
variable {K : Type} [Field K]

theorem vert_append_left (V M : List (V3 K)) (i : Nat) (h : i < V.length) : vert (V ++ M) i = vert V i := by
  simp [vert, List.getD, List.getElem?_append_left h]

theorem vert_append_right (V M : List (V3 K)) (e : Nat) : vert (V ++ M) (e + V.length) = M.getD e vzero := by
  simp [vert, List.getD, List.getElem?_append_right]

theorem midpoint_comm (p q : V3 K) : midpoint p q = midpoint q p := by
  simp only [midpoint, sdiv, vadd]
  ext <;> simp <;> ring

theorem midpoint_sortPair (V : List (V3 K)) (a b : Nat) :
    midpoint (vert V (sortPair a b).1) (vert V (sortPair a b).2) = midpoint (vert V a) (vert V b) := by
  simp only [sortPair]
  split
  · exact midpoint_comm _ _
  · rfl

theorem pick_corners (V : List (V3 K)) (t : Tri) (j : Nat) :
    pick (vert V t.1) (vert V t.2.1) (vert V t.2.2) j = vert V (t.get j) := by
  match j with
  | 0 => rfl
  | 1 => rfl
  | _ + 2 => rfl

theorem Tri.get_zero (t : Tri) : t.get 0 = t.1 := rfl
theorem Tri.get_one (t : Tri) : t.get 1 = t.2.1 := rfl
theorem Tri.get_two (t : Tri) : t.get 2 = t.2.2 := rfl

/-- coordinates (in the refined vertex array) of the vertex denoted by a corner code or an edge-midpoint code -/
theorem refine_code_vertex (V : List (V3 K)) (els : List Tri) (i : Nat) (t x : Tri) (code : GridConsts.Code)
    (hr : InRange V.length els) (ht : els[i]? = some t) (hx : (elementEdges els)[i]? = some x)
    (hc : code.1 ≤ 1) (hl : code.2 < 3) :
    vert (refineVerts V els) (codeVertex t (x.1 + V.length, x.2.1 + V.length, x.2.2 + V.length) 0 code) =
      codePoint (vert V t.1) (vert V t.2.1) (vert V t.2.2) code := by
  obtain ⟨kind, l⟩ := code
  have htr := hr t (List.mem_of_getElem? ht)
  obtain ⟨h0, h1, h2⟩ := elementEdges_spec els i t x ht hx
  have hl' : l = 0 ∨ l = 1 ∨ l = 2 := by simp only at hl; omega
  have hk : kind = 0 ∨ kind = 1 := by simp only at hc; omega
  rcases hk with rfl | rfl
  · -- a parent vertex
    simp only [codeVertex, codePoint, refineVerts, pick_corners]
    apply vert_append_left
    rcases hl' with rfl | rfl | rfl <;> simp [Tri.get] <;> omega
  · -- the midpoint of a local edge
    have key : ∀ (e : Nat) (ed : Edge), (edges els)[e]? = some ed →
        vert (refineVerts V els) (e + V.length) = midpoint (vert V ed.1) (vert V ed.2) := by
      intro e ed he
      simp only [refineVerts]
      rw [vert_append_right]
      simp [List.getD, he]
    simp only [codeVertex, codePoint, pick_corners]
    rcases hl' with rfl | rfl | rfl
    · rw [Tri.get_zero, key _ _ h0, edgeOf, midpoint_sortPair]
    · rw [Tri.get_one, key _ _ h1, edgeOf, midpoint_sortPair]
    · rw [Tri.get_two, key _ _ h2, edgeOf, midpoint_sortPair]

end Coord

end BemppVerif.Lemmas.Topo
