/-
Complex numbers as pairs over an arbitrary field `K` (real part, imaginary part), with exactly the arithmetic that the
tracer's `CSym` (vlib/symtrace.py) performs on the real source:

  (a,b) * (c,d) = (a c − b d, a d + b c)          (a,b) / (c,d) = ((a c + b d)/(c² + d²), (b c − a d)/(c² + d²))

The generated Maxwell theorems (`Gen/AsmMatchMaxwell*.lean`) state identities between pairs `⟨re-trace, im-trace⟩`; they are
proved by splitting into components (`CP.ext_iff`) and `ring`.  For `K = ℝ` the map `CP.toComplex` is multiplicative,
additive and commutes with division (`Props/C06.lean`), so these are statements about complex numbers.
-/
import Mathlib.Algebra.Field.Defs

namespace BemppVerif

/-- a complex value given by its real and imaginary part -/
structure CP (K : Type) where
  re : K
  im : K

namespace CP
variable {K : Type} [Field K]

omit [Field K] in
theorem ext_iff' (a b : CP K) : a = b ↔ a.re = b.re ∧ a.im = b.im := by
  cases a; cases b; simp

/-- a real number as a complex one -/
def ofK (x : K) : CP K := ⟨x, 0⟩

instance : Zero (CP K) := ⟨⟨0, 0⟩⟩
instance : Add (CP K) := ⟨fun a b => ⟨a.re + b.re, a.im + b.im⟩⟩
instance : Sub (CP K) := ⟨fun a b => ⟨a.re - b.re, a.im - b.im⟩⟩
instance : Neg (CP K) := ⟨fun a => ⟨-a.re, -a.im⟩⟩
instance : Mul (CP K) := ⟨fun a b => ⟨a.re * b.re - a.im * b.im, a.re * b.im + a.im * b.re⟩⟩
instance : Div (CP K) := ⟨fun a b =>
  ⟨(a.re * b.re + a.im * b.im) / (b.re * b.re + b.im * b.im), (a.im * b.re - a.re * b.im) / (b.re * b.re + b.im * b.im)⟩⟩

/-- division by a real number, component-wise (what the tracer does for `complex / real`) -/
def divK (a : CP K) (x : K) : CP K := ⟨a.re / x, a.im / x⟩
theorem divK_re (a : CP K) (x : K) : (divK a x).re = a.re / x := rfl
theorem divK_im (a : CP K) (x : K) : (divK a x).im = a.im / x := rfl

theorem zero_re : (0 : CP K).re = 0 := rfl
theorem zero_im : (0 : CP K).im = 0 := rfl
theorem ofK_re (x : K) : (ofK x).re = x := rfl
theorem ofK_im (x : K) : (ofK x).im = 0 := rfl
theorem add_re (a b : CP K) : (a + b).re = a.re + b.re := rfl
theorem add_im (a b : CP K) : (a + b).im = a.im + b.im := rfl
theorem sub_re (a b : CP K) : (a - b).re = a.re - b.re := rfl
theorem sub_im (a b : CP K) : (a - b).im = a.im - b.im := rfl
theorem neg_re (a : CP K) : (-a).re = -a.re := rfl
theorem neg_im (a : CP K) : (-a).im = -a.im := rfl
theorem mul_re (a b : CP K) : (a * b).re = a.re * b.re - a.im * b.im := rfl
theorem mul_im (a b : CP K) : (a * b).im = a.re * b.im + a.im * b.re := rfl
theorem div_re (a b : CP K) : (a / b).re = (a.re * b.re + a.im * b.im) / (b.re * b.re + b.im * b.im) := rfl
theorem div_im (a b : CP K) : (a / b).im = (a.im * b.re - a.re * b.im) / (b.re * b.re + b.im * b.im) := rfl

/-- `i k` for the wavenumber `k = kr + i ki` -/
def ik (kr ki : K) : CP K := ⟨-ki, kr⟩
theorem ik_re (kr ki : K) : (ik kr ki).re = -ki := rfl
theorem ik_im (kr ki : K) : (ik kr ki).im = kr := rfl

/-- `f 0 + f 1 + f 2` -/
def sum3 {R : Type} [Add R] (f : Nat → R) : R := f 0 + f 1 + f 2
/-- `f 0 + f 1` -/
def sum2 {R : Type} [Add R] (f : Nat → R) : R := f 0 + f 1

end CP
end BemppVerif
