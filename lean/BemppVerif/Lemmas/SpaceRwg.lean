/- Lemmas about the model of `_compute_rwg0_space_data`: loop invariant of the first loop (core Lean only). -/
import BemppVerif.Lemmas.SpaceBasic

namespace BemppVerif.Lemmas.Space
open BemppVerif.Model BemppVerif.Model.Space

/-! ### the table facts the RWG theorems need (C11 proves them for the real tables) -/

/-- every entry of `edge_neighbors[x]` is an element that has `x` as one of its three edges -/
def EdgeNeighborsSound (T : Tables) : Prop :=
  ∀ x e, e ∈ T.enbrs x → e < T.ne ∧ ∃ i, i < 3 ∧ T.elementEdges e i = x

/-- every element is listed among the neighbours of each of its edges -/
def EdgeNeighborsComplete (T : Tables) : Prop :=
  ∀ e i, e < T.ne → i < 3 → e ∈ T.enbrs (T.elementEdges e i)

/-- an element is listed once per edge -/
def EdgeNeighborsNodup (T : Tables) : Prop := ∀ x, (T.enbrs x).Nodup

/-- every edge has at most two neighbouring elements -/
def Manifold (T : Tables) : Prop := ∀ x, (T.enbrs x).length ≤ 2

/-- edge indices are below `number_of_edges` -/
def EdgeRange (T : Tables) : Prop := ∀ e i, e < T.ne → i < 3 → T.elementEdges e i < T.nedges

/-! ### lists -/

theorem filter_length_mono {α : Type} (l : List α) (p q : α → Bool) (h : ∀ c, c ∈ l → p c = true → q c = true) :
    (l.filter p).length ≤ (l.filter q).length := by
  induction l with
  | nil => simp
  | cons a l ih =>
    have ih' := ih (fun c hc => h c (List.mem_cons_of_mem a hc))
    have ha := h a (by simp)
    simp only [List.filter_cons]
    cases hp : p a with
    | true =>
      rw [ha hp]
      simp only [if_true, List.length_cons]
      omega
    | false =>
      cases hq : q a <;> simp <;> omega

theorem filter_all_of_length {α : Type} (l : List α) (p : α → Bool) (h : (l.filter p).length = l.length) :
    ∀ c, c ∈ l → p c = true := by
  induction l with
  | nil => simp
  | cons a l ih =>
    simp only [List.filter_cons] at h
    cases hp : p a with
    | true =>
      rw [hp] at h
      simp only [if_true, List.length_cons] at h
      intro c hc
      rcases List.mem_cons.1 hc with rfl | hc
      · exact hp
      · exact ih (by omega) c hc
    | false =>
      rw [hp] at h
      simp only [Bool.false_eq_true, if_false, List.length_cons] at h
      have := List.length_filter_le p l
      omega

theorem filter_length_pos {α : Type} (l : List α) (p : α → Bool) {c : α} (hc : c ∈ l) (hp : p c = true) :
    1 ≤ (l.filter p).length :=
  List.length_pos_of_mem (List.mem_filter.2 ⟨hc, hp⟩)

/-- number of `some` entries of a table grows by one when a `none` cell is filled -/
theorem count_upd (n : Nat) (f : Nat → Option Nat) (x v : Nat) (hx : x < n) (hn : f x = none) :
    ((List.range n).filter fun y => (upd f x (some v) y).isSome).length =
      ((List.range n).filter fun y => (f y).isSome).length + 1 := by
  induction n with
  | zero => omega
  | succ n ih =>
    rw [List.range_succ, List.filter_append, List.filter_append, List.length_append, List.length_append]
    by_cases hxn : x = n
    · subst hxn
      have h1 : ((List.range x).filter fun y => (upd f x (some v) y).isSome) =
          ((List.range x).filter fun y => (f y).isSome) := by
        apply List.filter_congr
        intro y hy
        have : y ≠ x := by have := List.mem_range.1 hy; omega
        simp [upd, this]
      rw [h1]
      simp [upd, hn]
    · have := ih (by omega)
      rw [this]
      have h2 : (upd f x (some v) n).isSome = (f n).isSome := by
        have : n ≠ x := fun h => hxn h.symm
        simp [upd, this]
      simp only [List.filter_cons, List.filter_nil, h2]
      omega

section
variable (T : Tables) (sup : Nat → Bool) (incl trunc : Bool)

/-! ### one pass of the inner loop -/

/-- the state after the extension `for cell in current_neighbors: support[cell] = True` -/
def extendSup (st : RwgState) (x : Nat) : RwgState :=
  { st with sup := fun c => if (T.enbrs x).contains c then true else st.sup c }

theorem rwgExamine_cases (st : RwgState) (has : Bool) (x : Nat) :
    (((T.enbrs x).filter st.sup).length = 2 ∧ rwgExamine T incl trunc st has x = (st.assign x, true)) ∨
    (((T.enbrs x).filter st.sup).length = 1 ∧ incl = true ∧ trunc = true ∧
      rwgExamine T incl trunc st has x = (st.assign x, true)) ∨
    (((T.enbrs x).filter st.sup).length = 1 ∧ incl = true ∧ trunc = false ∧
      rwgExamine T incl trunc st has x = (extendSup T (st.assign x) x, true)) ∨
    (((T.enbrs x).filter st.sup).length ≠ 2 ∧ ¬ (((T.enbrs x).filter st.sup).length = 1 ∧ incl = true) ∧
      rwgExamine T incl trunc st has x = (st, has)) := by
  unfold rwgExamine
  simp only
  by_cases h2 : ((T.enbrs x).filter st.sup).length = 2
  · left
    have h1 : ¬ ((T.enbrs x).filter st.sup).length = 1 := by omega
    exact ⟨h2, by simp [h2]⟩
  · right
    by_cases h1 : ((T.enbrs x).filter st.sup).length = 1
    · cases hincl : incl with
      | false =>
        right; right
        exact ⟨h2, fun h => absurd h.2 (by decide), by simp [h2]⟩
      | true =>
        cases htr : trunc with
        | true =>
          left
          exact ⟨h1, rfl, rfl, by simp [h1]⟩
        | false =>
          right; left
          exact ⟨h1, rfl, rfl, by simp [h1, extendSup, RwgState.assign]⟩
    · right; right
      exact ⟨h2, fun h => h1 h.1, by simp [h2, h1]⟩

/-! ### the loop invariant -/

/-- the neighbours of edge `x` that are in the ORIGINAL support -/
def N0 (x : Nat) : List Nat := (T.enbrs x).filter sup

/-- the edges selected by the options: two originally supported neighbours, or one when boundary dofs are included -/
def DofEdge (x : Nat) : Prop := (N0 T sup x).length = 2 ∨ (incl = true ∧ (N0 T sup x).length = 1)

/-- element of the original support -/
def S0 (c : Nat) : Prop := c < T.ne ∧ sup c = true

/-- the grid-table hypotheses of the RWG theorems -/
structure EdgeTables (T : Tables) : Prop where
  sound : EdgeNeighborsSound T
  complete : EdgeNeighborsComplete T
  manifold : Manifold T
  range : EdgeRange T

/-- invariant of the first loop after the elements of `P` have been processed -/
structure RInv (P : List Nat) (st : RwgState) : Prop where
  a : ∀ c, c < T.ne → st.sup c = true → S0 T sup c ∨ (incl = true ∧ trunc = false ∧ ∃ x, c ∈ T.enbrs x ∧ st.ed x ≠ none)
  b : ∀ c, S0 T sup c → (c ∉ P ∨ incl = true) → st.sup c = true
  c : ∀ x d, st.ed x = some d → DofEdge T sup incl x ∧ d < st.cnt
  c2 : ∀ x y d, st.ed x = some d → st.ed y = some d → x = y
  c3 : ((List.range T.nedges).filter fun y => (st.ed y).isSome).length = st.cnt
  c4 : ∀ d, d < st.cnt → ∃ x, st.ed x = some d
  d : ∀ c, c ∈ P → S0 T sup c → ∀ i, i < 3 → DofEdge T sup incl (T.elementEdges c i) →
        st.ed (T.elementEdges c i) ≠ none
  f : ∀ c, c ∈ P → S0 T sup c → (st.sup c = true ↔ ∃ i, i < 3 ∧ DofEdge T sup incl (T.elementEdges c i))
  g : incl = true → trunc = false → ∀ x, st.ed x ≠ none → ∀ c, c ∈ T.enbrs x → st.sup c = true

theorem N0_length_le (hm : Manifold T) (x : Nat) : (N0 T sup x).length ≤ 2 :=
  Nat.le_trans (List.length_filter_le _ _) (hm x)

/-- an edge of an element of the original support is selected as soon as boundary dofs are included -/
theorem dofEdge_of_incl (ht : EdgeTables T) (hincl : incl = true) {e k : Nat} (he : S0 T sup e) (hk : k < 3) :
    DofEdge T sup incl (T.elementEdges e k) := by
  have h1 : 1 ≤ (N0 T sup (T.elementEdges e k)).length :=
    filter_length_pos _ _ (ht.complete e k he.1 hk) he.2
  have h2 := N0_length_le T sup ht.manifold (T.elementEdges e k)
  unfold DofEdge
  by_cases h : (N0 T sup (T.elementEdges e k)).length = 2
  · exact Or.inl h
  · exact Or.inr ⟨hincl, by omega⟩

/-- what examining the edge `x = element_edges[k, e]` (currently without dof) does to the invariant -/
theorem examine_inv (ht : EdgeTables T) (P : List Nat) (st : RwgState) (has : Bool) (e k : Nat)
    (hinv : RInv T sup incl trunc P st) (he : S0 T sup e) (heP : e ∉ P) (hk : k < 3)
    (hed : st.ed (T.elementEdges e k) = none) :
    RInv T sup incl trunc P (rwgExamine T incl trunc st has (T.elementEdges e k)).1 ∧
    (DofEdge T sup incl (T.elementEdges e k) →
      (rwgExamine T incl trunc st has (T.elementEdges e k)).1.ed (T.elementEdges e k) ≠ none) ∧
    ((rwgExamine T incl trunc st has (T.elementEdges e k)).1.ed (T.elementEdges e k) ≠ none →
      (rwgExamine T incl trunc st has (T.elementEdges e k)).2 = true) ∧
    (has = true → (rwgExamine T incl trunc st has (T.elementEdges e k)).2 = true) ∧
    (∀ y d, st.ed y = some d → (rwgExamine T incl trunc st has (T.elementEdges e k)).1.ed y = some d) ∧
    (∀ y, (rwgExamine T incl trunc st has (T.elementEdges e k)).1.ed y ≠ none →
      st.ed y ≠ none ∨ y = T.elementEdges e k) ∧
    (incl = true → (rwgExamine T incl trunc st has (T.elementEdges e k)).2 = true) ∧
    ((rwgExamine T incl trunc st has (T.elementEdges e k)).2 = true →
      has = true ∨ (rwgExamine T incl trunc st has (T.elementEdges e k)).1.ed (T.elementEdges e k) ≠ none) := by
  -- abbreviations
  generalize hx : T.elementEdges e k = x at *
  have hxr : x < T.nedges := hx ▸ ht.range e k he.1 hk
  have hemem : e ∈ T.enbrs x := hx ▸ ht.complete e k he.1 hk
  have hsupe : st.sup e = true := hinv.b e he (Or.inl heP)
  have hsn1 : 1 ≤ ((T.enbrs x).filter st.sup).length := filter_length_pos _ _ hemem hsupe
  have hsn2 : ((T.enbrs x).filter st.sup).length ≤ 2 := Nat.le_trans (List.length_filter_le _ _) (ht.manifold x)
  have hN1 : 1 ≤ (N0 T sup x).length := filter_length_pos _ _ hemem he.2
  have hN2 := N0_length_le T sup ht.manifold x
  -- the edge is selected whenever a dof is assigned
  have hdof_of_assign : (((T.enbrs x).filter st.sup).length = 2 ∨ incl = true) → DofEdge T sup incl x := by
    intro h
    cases hincl : incl with
    | true =>
      unfold DofEdge
      by_cases h2 : (N0 T sup x).length = 2
      · exact Or.inl h2
      · exact Or.inr ⟨rfl, by omega⟩
    | false =>
      rcases h with h | h
      · left
        have hmono : ((T.enbrs x).filter st.sup).length ≤ (N0 T sup x).length := by
          apply filter_length_mono
          intro c hcm hc
          rcases hinv.a c (ht.sound x c hcm).1 hc with h0 | ⟨hi, _⟩
          · exact h0.2
          · rw [hincl] at hi
            cases hi
        omega
      · rw [hincl] at h
        cases h
  -- a selected edge does get a dof
  have hassign_of_dof : DofEdge T sup incl x →
      ((T.enbrs x).filter st.sup).length = 2 ∨ (((T.enbrs x).filter st.sup).length = 1 ∧ incl = true) := by
    intro hd
    cases hincl : incl with
    | true =>
      by_cases h2 : ((T.enbrs x).filter st.sup).length = 2
      · exact Or.inl h2
      · exact Or.inr ⟨by omega, rfl⟩
    | false =>
      left
      have hN : (N0 T sup x).length = 2 := by
        rcases hd with h | ⟨hi, _⟩
        · exact h
        · rw [hincl] at hi
          cases hi
      have hcongr : (T.enbrs x).filter st.sup = N0 T sup x := by
        unfold N0
        apply List.filter_congr
        intro c hc
        rw [Bool.eq_iff_iff]
        constructor
        · intro hs
          rcases hinv.a c (ht.sound x c hc).1 hs with h0 | ⟨hi, _⟩
          · exact h0.2
          · rw [hincl] at hi
            cases hi
        · intro hs
          obtain ⟨hclt, j, hj, hjx⟩ := ht.sound x c hc
          have hS : S0 T sup c := ⟨hclt, hs⟩
          apply hinv.b c hS
          left
          intro hcP
          have := hinv.d c hcP hS j hj (hjx ▸ hd)
          rw [hjx] at this
          exact this hed
      rw [hcongr]
      exact hN
  -- invariant after `edge_dofs[x] = dof_count; dof_count += 1`, with a support that can only have grown
  have hassign : ∀ st' : RwgState, st'.ed = upd st.ed x (some st.cnt) → st'.cnt = st.cnt + 1 →
      (∀ c, st.sup c = true → st'.sup c = true) →
      (∀ c, st'.sup c = true → st.sup c = true ∨ (incl = true ∧ trunc = false ∧ c ∈ T.enbrs x)) →
      (incl = true → trunc = false → ∀ c, c ∈ T.enbrs x → st'.sup c = true) →
      DofEdge T sup incl x → RInv T sup incl trunc P st' := by
    intro st' hed' hcnt' hmono hnew hcover hdx
    have hedx : st'.ed x = some st.cnt := by rw [hed']; simp [upd]
    have hedy : ∀ y, y ≠ x → st'.ed y = st.ed y := by
      intro y hy
      rw [hed']
      simp [upd, hy]
    have hmonoed : ∀ y, st.ed y ≠ none → st'.ed y ≠ none := by
      intro y hy
      by_cases hyx : y = x
      · rw [hyx, hedx]
        simp
      · rw [hedy y hyx]
        exact hy
    refine ⟨?_, ?_, ?_, ?_, ?_, ?_, ?_, ?_, ?_⟩
    · intro c hclt hc
      rcases hnew c hc with h | ⟨hi, htr, hcx⟩
      · rcases hinv.a c hclt h with h0 | ⟨hi, htr, y, hy, hyed⟩
        · exact Or.inl h0
        · exact Or.inr ⟨hi, htr, y, hy, hmonoed y hyed⟩
      · exact Or.inr ⟨hi, htr, x, hcx, by rw [hedx]; simp⟩
    · intro c hc hP
      exact hmono c (hinv.b c hc hP)
    · intro y d hy
      by_cases hyx : y = x
      · subst hyx
        rw [hedx] at hy
        cases hy
        exact ⟨hdx, by omega⟩
      · rw [hedy y hyx] at hy
        have := hinv.c y d hy
        exact ⟨this.1, by omega⟩
    · intro y z d hy hz
      by_cases hyx : y = x
      · by_cases hzx : z = x
        · rw [hyx, hzx]
        · exfalso
          rw [hyx, hedx] at hy
          cases hy
          rw [hedy z hzx] at hz
          have := (hinv.c z _ hz).2
          omega
      · by_cases hzx : z = x
        · exfalso
          rw [hzx, hedx] at hz
          cases hz
          rw [hedy y hyx] at hy
          have := (hinv.c y _ hy).2
          omega
        · rw [hedy y hyx] at hy
          rw [hedy z hzx] at hz
          exact hinv.c2 y z d hy hz
    · rw [hed', hcnt', count_upd T.nedges st.ed x st.cnt hxr hed, hinv.c3]
    · intro d hd
      rw [hcnt'] at hd
      by_cases hdc : d = st.cnt
      · exact ⟨x, by rw [hedx, hdc]⟩
      · obtain ⟨y, hy⟩ := hinv.c4 d (by omega)
        have : y ≠ x := fun h => by rw [h, hed] at hy; cases hy
        exact ⟨y, by rw [hedy y this]; exact hy⟩
    · intro c hcP hS i hi hd
      exact hmonoed _ (hinv.d c hcP hS i hi hd)
    · intro c hcP hS
      rw [← hinv.f c hcP hS]
      constructor
      · intro h
        rcases hnew c h with h | ⟨_, _, hcx⟩
        · exact h
        · obtain ⟨_, j, hj, hjx⟩ := ht.sound x c hcx
          exact (hinv.f c hcP hS).2 ⟨j, hj, hjx ▸ hdx⟩
      · exact hmono c
    · intro hi htr y hy c hc
      by_cases hyx : y = x
      · subst hyx
        exact hcover hi htr c hc
      · rw [hedy y hyx] at hy
        exact hmono c (hinv.g hi htr y hy c hc)
  rcases rwgExamine_cases T incl trunc st has x with ⟨h2, heq⟩ | ⟨h1, hi, htr, heq⟩ | ⟨h1, hi, htr, heq⟩ | ⟨hn2, hn1, heq⟩
  · -- two supported neighbours
    rw [heq]
    have hdx := hdof_of_assign (Or.inl h2)
    have hall : ∀ c, c ∈ T.enbrs x → st.sup c = true := by
      apply filter_all_of_length
      have := ht.manifold x
      have := List.length_filter_le st.sup (T.enbrs x)
      omega
    refine ⟨hassign (st.assign x) rfl rfl (fun c h => h) (fun c h => Or.inl h) (fun _ _ c hc => hall c hc) hdx,
      fun _ => by simp [RwgState.assign, upd], fun _ => rfl, fun _ => rfl, ?_, ?_, fun _ => rfl,
      fun _ => Or.inr (by simp [RwgState.assign, upd])⟩
    · intro y d hy
      have : y ≠ x := fun h => by rw [h, hed] at hy; cases hy
      simp [RwgState.assign, upd, this, hy]
    · intro y hy
      by_cases hyx : y = x
      · exact Or.inr hyx
      · left
        simpa [RwgState.assign, upd, hyx] using hy
  · -- one supported neighbour, boundary dofs, truncated
    rw [heq]
    have hdx := hdof_of_assign (Or.inr hi)
    refine ⟨hassign (st.assign x) rfl rfl (fun c h => h) (fun c h => Or.inl h)
        (fun _ ht' => by rw [htr] at ht'; cases ht') hdx,
      fun _ => by simp [RwgState.assign, upd], fun _ => rfl, fun _ => rfl, ?_, ?_, fun _ => rfl,
      fun _ => Or.inr (by simp [RwgState.assign, upd])⟩
    · intro y d hy
      have : y ≠ x := fun h => by rw [h, hed] at hy; cases hy
      simp [RwgState.assign, upd, this, hy]
    · intro y hy
      by_cases hyx : y = x
      · exact Or.inr hyx
      · left
        simpa [RwgState.assign, upd, hyx] using hy
  · -- one supported neighbour, boundary dofs, support extended
    rw [heq]
    have hdx := hdof_of_assign (Or.inr hi)
    refine ⟨hassign (extendSup T (st.assign x) x) rfl rfl ?_ ?_ ?_ hdx,
      fun _ => by simp [extendSup, RwgState.assign, upd], fun _ => rfl, fun _ => rfl, ?_, ?_, fun _ => rfl,
      fun _ => Or.inr (by simp [extendSup, RwgState.assign, upd])⟩
    · intro c h
      simp only [extendSup, RwgState.assign]
      split
      · rfl
      · exact h
    · intro c h
      simp only [extendSup, RwgState.assign] at h
      split at h
      · rename_i hc
        exact Or.inr ⟨hi, htr, List.contains_iff_mem.1 hc⟩
      · exact Or.inl h
    · intro _ _ c hc
      simp only [extendSup, RwgState.assign]
      rw [if_pos (List.contains_iff_mem.2 hc)]
    · intro y d hy
      have : y ≠ x := fun h => by rw [h, hed] at hy; cases hy
      simp [extendSup, RwgState.assign, upd, this, hy]
    · intro y hy
      by_cases hyx : y = x
      · exact Or.inr hyx
      · left
        simpa [extendSup, RwgState.assign, upd, hyx] using hy
  · -- nothing happens
    rw [heq]
    refine ⟨hinv, ?_, fun h => absurd hed h, fun h => h, fun y d hy => hy, fun y hy => Or.inl hy, ?_,
      fun h => Or.inl h⟩
    · intro hd
      rcases hassign_of_dof hd with h | h
      · exact absurd h hn2
      · exact absurd h hn1
    · intro hincl
      exfalso
      apply hn1
      exact ⟨by omega, hincl⟩

/-! ### the inner loop over the three edges of an element -/

/-- invariant of the inner loop of element `e` before local index `k` -/
structure JInv (P : List Nat) (e k : Nat) (st : RwgState) (has : Bool) : Prop where
  inv : RInv T sup incl trunc P st
  j1 : ∀ i, i < k → DofEdge T sup incl (T.elementEdges e i) → st.ed (T.elementEdges e i) ≠ none
  j2 : ∀ i, i < k → st.ed (T.elementEdges e i) ≠ none → has = true
  j3 : has = true → ∃ i, i < k ∧ st.ed (T.elementEdges e i) ≠ none
  j5 : incl = true → 0 < k → has = true

theorem edgeStep_inv (ht : EdgeTables T) (P : List Nat) (acc : RwgState × Bool) (e k : Nat)
    (hJ : JInv T sup incl trunc P e k acc.1 acc.2) (he : S0 T sup e) (heP : e ∉ P) (hk : k < 3) :
    JInv T sup incl trunc P e (k + 1) (rwgEdgeStep T incl trunc e acc k).1
      (rwgEdgeStep T incl trunc e acc k).2 := by
  obtain ⟨st, has⟩ := acc
  simp only at hJ
  unfold rwgEdgeStep
  simp only
  cases hed : st.ed (T.elementEdges e k) with
  | some d =>
    simp only
    refine ⟨hJ.inv, ?_, fun _ _ _ => rfl, fun _ => ⟨k, by omega, by rw [hed]; simp⟩, fun _ _ => rfl⟩
    intro i hi hd
    by_cases hik : i = k
    · rw [hik, hed]
      simp
    · exact hJ.j1 i (by omega) hd
  | none =>
    simp only
    obtain ⟨e1, e2, e3, e4, e5, e6, e7, e8⟩ := examine_inv T sup incl trunc ht P st has e k hJ.inv he heP hk hed
    refine ⟨e1, ?_, ?_, ?_, fun hi _ => e7 hi⟩
    · intro i hi hd
      by_cases hik : i = k
      · rw [hik]
        exact e2 (hik ▸ hd)
      · have := hJ.j1 i (by omega) hd
        cases hs : st.ed (T.elementEdges e i) with
        | none => exact absurd hs this
        | some d =>
          rw [e5 _ d hs]
          simp
    · intro i hi hne
      rcases e6 _ hne with h | h
      · by_cases hik : i = k
        · rw [hik] at h
          exact absurd hed h
        · exact e4 (hJ.j2 i (by omega) h)
      · rw [h] at hne
        exact e3 hne
    · intro hh
      rcases e8 hh with h | h
      · obtain ⟨i, hi, hne⟩ := hJ.j3 h
        refine ⟨i, by omega, ?_⟩
        cases hs : st.ed (T.elementEdges e i) with
        | none => exact absurd hs hne
        | some d =>
          rw [e5 _ d hs]
          simp
      · exact ⟨k, by omega, h⟩

/-! ### the outer loop -/

theorem elemStep_finish (P : List Nat) (e : Nat) (r : RwgState × Bool)
    (J3 : JInv T sup incl trunc P e 3 r.1 r.2) (he : S0 T sup e) (heP : e ∉ P) :
    RInv T sup incl trunc (P ++ [e]) (if r.2 then r.1 else { r.1 with sup := upd r.1.sup e false }) := by
  obtain ⟨st3, has3⟩ := r
  simp only at J3 ⊢
  have hmemP : ∀ c, c ∈ P ++ [e] ↔ c ∈ P ∨ c = e := by
    intro c
    simp
  cases hh : has3 with
  | true =>
    simp only [if_true]
    rw [hh] at J3
    refine ⟨J3.inv.a, ?_, J3.inv.c, J3.inv.c2, J3.inv.c3, J3.inv.c4, ?_, ?_, J3.inv.g⟩
    · intro c hc hP
      apply J3.inv.b c hc
      rcases hP with hP | hP
      · exact Or.inl fun h => hP ((hmemP c).2 (Or.inl h))
      · exact Or.inr hP
    · intro c hcP hS i hi hd
      rcases (hmemP c).1 hcP with h | h
      · exact J3.inv.d c h hS i hi hd
      · rw [h]
        exact J3.j1 i hi (h ▸ hd)
    · intro c hcP hS
      rcases (hmemP c).1 hcP with h | h
      · exact J3.inv.f c h hS
      · rw [h]
        constructor
        · intro _
          obtain ⟨i, hi, hne⟩ := J3.j3 rfl
          cases hs : st3.ed (T.elementEdges e i) with
          | none => exact absurd hs hne
          | some d => exact ⟨i, hi, (J3.inv.c _ d hs).1⟩
        · intro _
          exact J3.inv.b e he (Or.inl heP)
  | false =>
    simp only [Bool.false_eq_true, if_false]
    rw [hh] at J3
    have hincl : incl = false := by
      cases hi : incl with
      | false => rfl
      | true =>
        have := J3.j5 hi (by omega)
        cases this
    have hsup' : ∀ c, c ≠ e → upd st3.sup e false c = st3.sup c := by
      intro c hc
      simp [upd, hc]
    have hsupe : upd st3.sup e false e = false := by simp [upd]
    refine ⟨?_, ?_, J3.inv.c, J3.inv.c2, J3.inv.c3, J3.inv.c4, ?_, ?_, ?_⟩
    · intro c hclt hc
      dsimp only at hc ⊢
      have hce : c ≠ e := fun h => by rw [h, hsupe] at hc; cases hc
      rw [hsup' c hce] at hc
      exact J3.inv.a c hclt hc
    · intro c hc hP
      rcases hP with hP | hP
      · have hce : c ≠ e := fun h => hP ((hmemP c).2 (Or.inr h))
        dsimp only
        rw [hsup' c hce]
        exact J3.inv.b c hc (Or.inl fun h => hP ((hmemP c).2 (Or.inl h)))
      · rw [hincl] at hP
        cases hP
    · intro c hcP hS i hi hd
      rcases (hmemP c).1 hcP with h | h
      · exact J3.inv.d c h hS i hi hd
      · rw [h]
        exact J3.j1 i hi (h ▸ hd)
    · intro c hcP hS
      rcases (hmemP c).1 hcP with h | h
      · have hce : c ≠ e := fun h' => heP (h' ▸ h)
        show upd st3.sup e false c = true ↔ _
        rw [hsup' c hce]
        exact J3.inv.f c h hS
      · rw [h]
        show upd st3.sup e false e = true ↔ _
        rw [hsupe]
        constructor
        · intro h
          cases h
        · rintro ⟨i, hi, hd⟩
          have := J3.j2 i hi (J3.j1 i hi hd)
          cases this
    · intro hi
      rw [hincl] at hi
      cases hi

theorem elemStep_inv (ht : EdgeTables T) (P : List Nat) (st : RwgState) (e : Nat)
    (hinv : RInv T sup incl trunc P st) (he : S0 T sup e) (heP : e ∉ P) :
    RInv T sup incl trunc (P ++ [e]) (rwgElemStep T incl trunc st e) := by
  have J0 : JInv T sup incl trunc P e 0 st false :=
    ⟨hinv, fun i hi => (by omega), fun i hi => (by omega), fun h => (by cases h), fun _ h => (by omega)⟩
  have J1 := edgeStep_inv T sup incl trunc ht P (st, false) e 0 J0 he heP (by omega)
  have J2 := edgeStep_inv T sup incl trunc ht P _ e 1 J1 he heP (by omega)
  have J3 := edgeStep_inv T sup incl trunc ht P _ e 2 J2 he heP (by omega)
  exact elemStep_finish T sup incl trunc P e _ J3 he heP

theorem foldl_elemStep_inv (ht : EdgeTables T) : ∀ (rest P : List Nat) (st : RwgState),
    RInv T sup incl trunc P st → (∀ e, e ∈ rest → S0 T sup e) → (P ++ rest).Nodup →
    RInv T sup incl trunc (P ++ rest) (rest.foldl (rwgElemStep T incl trunc) st) := by
  intro rest
  induction rest with
  | nil =>
    intro P st hinv _ _
    simpa using hinv
  | cons e rest ih =>
    intro P st hinv hS hnd
    have heP : e ∉ P := by
      intro h
      rw [List.nodup_append] at hnd
      exact hnd.2.2 e h e (by simp) rfl
    have h1 := elemStep_inv T sup incl trunc ht P st e hinv (hS e (by simp)) heP
    have := ih (P ++ [e]) _ h1 (fun c hc => hS c (by simp [hc])) (by simpa using hnd)
    simpa using this

theorem init_inv : RInv T sup incl trunc [] ⟨sup, fun _ => none, 0⟩ := by
  refine ⟨fun c hclt hc => Or.inl ⟨hclt, hc⟩, fun c hc _ => hc.2, fun x d h => (by cases h),
    fun x y d h => (by cases h), ?_, fun d hd => (by simp at hd), fun c hc => (by cases hc), fun c hc => (by cases hc),
    fun _ _ x h => absurd rfl h⟩
  simp

/-- the invariant holds after the first loop with all elements of the original support processed -/
theorem firstLoop_inv (ht : EdgeTables T) :
    RInv T sup incl trunc (supportList T.ne sup) (rwgFirstLoop T sup incl trunc) := by
  have := foldl_elemStep_inv T sup incl trunc ht (supportList T.ne sup) [] _ (init_inv T sup incl trunc)
    (fun e he => (mem_supportList T.ne sup e).1 he) (by simpa using supportList_nodup T.ne sup)
  simpa [rwgFirstLoop] using this

end

end BemppVerif.Lemmas.Space
