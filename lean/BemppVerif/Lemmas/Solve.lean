/- Helper lemmas for C15 (packing / unpacking, callback fold).  Core Lean only. -/
import BemppVerif.Model.Solve

namespace BemppVerif.Lemmas.Solve
open BemppVerif.Model.Solve

theorem splitBy_pack {α : Type} (fs : List (List α)) : splitBy (fs.map List.length) (pack fs) = fs := by
  induction fs with
  | nil => rfl
  | cons a l ih =>
    simp only [List.map_cons, splitBy, pack, List.flatten_cons, List.take_left', List.drop_left'] at ih ⊢
    rw [ih]

theorem length_pack {α : Type} (fs : List (List α)) : (pack fs).length = (fs.map List.length).sum := by
  simp [pack, List.length_flatten]

theorem pack_splitBy_take {α : Type} (ns : List Nat) (v : List α) : pack (splitBy ns v) = v.take ns.sum := by
  induction ns generalizing v with
  | nil => simp [splitBy, pack]
  | cons n ns ih =>
    have h := ih (v.drop n)
    simp only [pack] at h
    simp only [splitBy, pack, List.flatten_cons, List.sum_cons, h]
    rw [List.take_add]

theorem pack_splitBy {α : Type} (ns : List Nat) (v : List α) (h : v.length ≤ ns.sum) :
    pack (splitBy ns v) = v := by
  rw [pack_splitBy_take, List.take_of_length_le h]

theorem length_splitBy {α : Type} (ns : List Nat) (v : List α) : (splitBy ns v).length = ns.length := by
  induction ns generalizing v with
  | nil => rfl
  | cons n ns ih => simp [splitBy, ih]

theorem splitBy_lengths {α : Type} (ns : List Nat) (v : List α) (h : ns.sum ≤ v.length) :
    (splitBy ns v).map List.length = ns := by
  induction ns generalizing v with
  | nil => rfl
  | cons n ns ih =>
    simp only [List.sum_cons] at h
    simp only [splitBy, List.map_cons, List.length_take]
    rw [ih (v.drop n) (by simp only [List.length_drop]; omega)]
    congr 1
    omega

theorem zipWith_map_same {α β γ δ : Type} (f : β → γ → δ) (g : α → β) (h : α → γ) (l : List α) :
    List.zipWith f (l.map g) (l.map h) = l.map fun a => f (g a) (h a) := by
  induction l with
  | nil => rfl
  | cons a l ih => simp [ih]

theorem zipWith_map_right' {α β γ δ : Type} (f : α → γ → δ) (g : β → γ) (l : List α) (m : List β) :
    List.zipWith f l (m.map g) = List.zipWith (fun a b => f a (g b)) l m := by
  induction l generalizing m with
  | nil => simp
  | cons a l ih =>
    cases m with
    | nil => simp
    | cons b m => simp [ih]

theorem zipWith_fst_eq {α β : Type} (l : List α) (m : List β) (h : m.length = l.length) :
    List.zipWith (fun s _ => s) l m = l := by
  induction l generalizing m with
  | nil => simp
  | cons a l ih =>
    cases m with
    | nil => simp at h
    | cons c m => simp [ih m (by simpa using h)]

theorem zipWith_snd_eq {α β : Type} (l : List α) (m : List β) (h : m.length = l.length) :
    List.zipWith (fun _ c => c) l m = m := by
  induction l generalizing m with
  | nil =>
    cases m with
    | nil => rfl
    | cons c m => simp at h
  | cons a l ih =>
    cases m with
    | nil => simp
    | cons c m => simp [ih m (by simpa using h)]

section
variable {R : Type} [Zero R] [Add R] [Mul R]

theorem length_matvec (M : Mat R) (x : Vec R) : (matvec M x).length = M.length := by
  simp [matvec]

/-- the grid functions built by `grid_function_list_from_projections` give back their slices when projected
onto the dual spaces they were built with -/
theorem projections_of_ofProjections (cx : MassCtx R) :
    ∀ (rs ds : List Space) (ps : List (Vec R)), rs.length = ds.length → ps.length = ds.length →
      List.zipWith (GF.projections cx)
        (List.zipWith (fun (sd : Space × Space) p => GF.ofProjections sd.1 sd.2 p) (rs.zip ds) ps) ds = ps := by
  intro rs ds
  induction ds generalizing rs with
  | nil =>
    intro ps _ hp
    cases ps with
    | nil => simp
    | cons p ps => simp at hp
  | cons d ds ih =>
    intro ps hr hp
    cases rs with
    | nil => simp at hr
    | cons r rs =>
      cases ps with
      | nil => simp at hp
      | cons p ps =>
        simp only [List.length_cons, Nat.add_right_cancel_iff] at hr hp
        simp only [List.zip_cons_cons, List.zipWith_cons_cons, GF.projections, if_true, ih rs ps hr hp]

/-- a matrix with a left inverse (on vectors of length `n`) is injective there -/
theorem injective_of_leftInverse (W Winv : Mat R) (n : Nat)
    (h : ∀ x : Vec R, x.length = n → matvec Winv (matvec W x) = x) :
    ∀ x y : Vec R, x.length = n → y.length = n → matvec W x = matvec W y → x = y := by
  intro x y hx hy hxy
  rw [← h x hx, ← h y hy, hxy]

end

theorem counter_foldl {ρ ι : Type} (store : Bool) (f : ι → ρ) (calls : List ι) (st : Counter ρ) :
    calls.foldl (Counter.call store f) st =
      ⟨st.count + calls.length, if store then st.residuals ++ calls.map f else st.residuals⟩ := by
  induction calls generalizing st with
  | nil => cases store <;> simp
  | cons c cs ih =>
    rw [List.foldl_cons, ih]
    cases store <;> simp [Counter.call] <;> omega

theorem counter_run {ρ ι : Type} (store : Bool) (f : ι → ρ) (calls : List ι) :
    Counter.run store f calls = ⟨calls.length, if store then calls.map f else []⟩ := by
  rw [Counter.run, counter_foldl]
  cases store <;> simp

end BemppVerif.Lemmas.Solve
