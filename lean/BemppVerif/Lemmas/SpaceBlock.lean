/- Lemmas about `blockSpace` (DP0, DP1, localised spaces, the spaces on the barycentric grid) (core Lean only). -/
import BemppVerif.Lemmas.SpaceBasic

namespace BemppVerif.Lemmas.Space
open BemppVerif.Model BemppVerif.Model.Space

theorem map_range_getElem? (ns : Nat) (f : Nat → Nat) (i : Nat) :
    ((List.range ns).map f)[i]? = if i < ns then some (f i) else none := by
  by_cases h : i < ns
  · simp [h]
  · simp [h]

theorem replicate_getD (ns : Nat) (a : Int) (i : Nat) : (List.replicate ns a).getD i 0 = if i < ns then a else 0 := by
  rw [List.getD_eq_getElem?_getD]
  by_cases h : i < ns
  · simp [h]
  · simp [h]

section
variable (ne ns : Nat) (sup : Nat → Bool)

theorem blockSpace_nelems : (blockSpace ne ns sup).nelems = ne := rfl

theorem blockSpace_sup {e : Nat} (he : e < ne) : (blockSpace ne ns sup).sup e = sup e := by
  unfold blockSpace
  exact mkSpace_sup _ _ _ _ he

/-- multiplier 1 exactly on the `ns` local indices of the support elements -/
theorem blockSpace_mult {e : Nat} (he : e < ne) (i : Nat) :
    multOf (blockSpace ne ns sup) e i = if sup e = true ∧ i < ns then 1 else 0 := by
  unfold multOf blockSpace
  simp only
  rw [mkSpace_mult _ _ _ _ he]
  cases hs : sup e with
  | true =>
    simp only [if_true, replicate_getD, true_and]
  | false =>
    simp only [Bool.false_eq_true, if_false, replicate_getD, false_and]
    split <;> rfl

/-- `(e, i)` is listed in `global2local[d]` iff `e` is the `k`-th support element, `i < ns` and `d = ns * k + i` -/
theorem blockSpace_mem_g2l (d : Nat) (p : Nat × Nat) :
    p ∈ Color.g2l (blockSpace ne ns sup) d ↔
      p.1 < ne ∧ sup p.1 = true ∧ p.2 < ns ∧ d = ns * (supportList ne sup).idxOf p.1 + p.2 := by
  rw [Color.mem_g2l, blockSpace_nelems]
  constructor
  · rintro ⟨he, hrow, hnz⟩
    have hm := (nz_iff_multOf _ _ _).1 hnz
    rw [blockSpace_mult ne ns sup he] at hm
    have hc : sup p.1 = true ∧ p.2 < ns := by
      by_cases h : sup p.1 = true ∧ p.2 < ns
      · exact h
      · rw [if_neg h] at hm
        exact absurd rfl hm
    refine ⟨he, hc.1, hc.2, ?_⟩
    unfold blockSpace at hrow
    simp only at hrow
    rw [mkSpace_row _ _ _ _ he, hc.1] at hrow
    simp only [if_true, map_range_getElem?, if_pos hc.2, Option.some.injEq] at hrow
    exact hrow.symm
  · rintro ⟨he, hs, hi, hd⟩
    refine ⟨he, ?_, ?_⟩
    · unfold blockSpace
      simp only
      rw [mkSpace_row _ _ _ _ he, hs]
      simp only [if_true, map_range_getElem?, if_pos hi, hd]
    · rw [nz_iff_multOf, blockSpace_mult ne ns sup he, if_pos ⟨hs, hi⟩]
      decide

/-- each global dof of a block space is attached to exactly one `(element, local index)` -/
theorem blockSpace_g2l_unique (d : Nat) (p q : Nat × Nat)
    (hp : p ∈ Color.g2l (blockSpace ne ns sup) d) (hq : q ∈ Color.g2l (blockSpace ne ns sup) d) : p = q := by
  rw [blockSpace_mem_g2l] at hp hq
  obtain ⟨hp1, hp2, hp3, hp4⟩ := hp
  obtain ⟨hq1, hq2, hq3, hq4⟩ := hq
  have hns : 0 < ns := by omega
  have hmul : (supportList ne sup).idxOf p.1 = (supportList ne sup).idxOf q.1 ∧ p.2 = q.2 := by
    have e1 : (ns * (supportList ne sup).idxOf p.1 + p.2) / ns = (supportList ne sup).idxOf p.1 := by
      rw [Nat.mul_add_div hns, Nat.div_eq_of_lt hp3]
      omega
    have e2 : (ns * (supportList ne sup).idxOf q.1 + q.2) / ns = (supportList ne sup).idxOf q.1 := by
      rw [Nat.mul_add_div hns, Nat.div_eq_of_lt hq3]
      omega
    have e3 : (ns * (supportList ne sup).idxOf p.1 + p.2) % ns = p.2 := by
      rw [Nat.mul_add_mod, Nat.mod_eq_of_lt hp3]
    have e4 : (ns * (supportList ne sup).idxOf q.1 + q.2) % ns = q.2 := by
      rw [Nat.mul_add_mod, Nat.mod_eq_of_lt hq3]
    rw [← hp4] at e1 e3
    rw [← hq4] at e2 e4
    exact ⟨e1.symm.trans e2, e3.symm.trans e4⟩
  have hmp : p.1 ∈ supportList ne sup := (mem_supportList ne sup p.1).2 ⟨hp1, hp2⟩
  have hmq : q.1 ∈ supportList ne sup := (mem_supportList ne sup q.1).2 ⟨hq1, hq2⟩
  have h1 : p.1 = q.1 := by
    have a := List.getElem_idxOf (List.idxOf_lt_length_iff.2 hmp)
    have b := List.getElem_idxOf (List.idxOf_lt_length_iff.2 hmq)
    rw [← a, ← b]
    simp [hmul.1]
  exact Prod.ext h1 hmul.2

/-- every dof below `ns * support_size` is attached to an `(element, local index)` -/
theorem blockSpace_g2l_nonempty (hns : 0 < ns) (d : Nat) (hd : d < ns * (supportList ne sup).length) :
    ∃ p, p ∈ Color.g2l (blockSpace ne ns sup) d := by
  have hk : d / ns < (supportList ne sup).length := by
    apply (Nat.div_lt_iff_lt_mul hns).2
    rw [Nat.mul_comm]
    exact hd
  have hmem : (supportList ne sup)[d / ns] ∈ supportList ne sup := List.getElem_mem hk
  obtain ⟨h1, h2⟩ := (mem_supportList ne sup _).1 hmem
  refine ⟨((supportList ne sup)[d / ns], d % ns), (blockSpace_mem_g2l ne ns sup d _).2
    ⟨h1, h2, Nat.mod_lt _ hns, ?_⟩⟩
  simp only
  rw [List.Nodup.idxOf_getElem (supportList_nodup ne sup) _ hk]
  exact (Nat.div_add_mod d ns).symm

end

end BemppVerif.Lemmas.Space
