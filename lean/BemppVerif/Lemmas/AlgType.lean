/-
Helper lemmas for C14: the interpreter `eval` and the type checker `typecheck` of `Model/Alg.lean` agree
(every operation raises exactly when its type-level counterpart does, and produces a value of the computed type).
-/
import BemppVerif.Model.Alg

namespace BemppVerif.Lemmas.AlgType
open BemppVerif.Model.Alg

set_option linter.unusedSectionVars false

variable {R : Type} [Zero R] [One R] [Add R] [Mul R] [Neg R] [CParts R]

/-! ### `Except` plumbing -/

@[simp] theorem map_ok {ε α β : Type} (f : α → β) (a : α) : Except.map f (.ok a : Except ε α) = .ok (f a) := rfl
@[simp] theorem map_error {ε α β : Type} (f : α → β) (e : ε) : Except.map f (.error e : Except ε α) = .error e := rfl
@[simp] theorem bind_ok {ε α β : Type} (a : α) (f : α → Except ε β) : ((.ok a : Except ε α) >>= f) = f a := rfl
@[simp] theorem bind_error {ε α β : Type} (e : ε) (f : α → Except ε β) : ((.error e : Except ε α) >>= f) = .error e := rfl
@[simp] theorem pure_eq {ε α : Type} (a : α) : (pure a : Except ε α) = .ok a := rfl
@[simp] theorem throw_eq {ε α : Type} (e : ε) : (throw e : Except ε α) = .error e := rfl

theorem map_map {ε α β γ : Type} (f : α → β) (g : β → γ) (x : Except ε α) :
    Except.map g (Except.map f x) = Except.map (g ∘ f) x := by cases x <;> rfl

theorem map_bind' {ε α β γ : Type} (x : Except ε α) (f : α → Except ε β) (g : β → γ) :
    Except.map g (x >>= f) = x >>= fun a => Except.map g (f a) := by cases x <;> rfl

theorem bind_map' {ε α β γ : Type} (x : Except ε α) (f : α → β) (g : β → Except ε γ) :
    (Except.map f x >>= g) = x >>= fun a => g (f a) := by cases x <;> rfl

/-! ### discrete operators -/

theorem conc_cases (a : DOp R) : a.conc = none ∨ a.conc = some .sparse ∨ a.conc = some .dense := by
  cases a with
  | leaf k c r n M => cases k <;> simp [DOp.conc]
  | _ => simp [DOp.conc]

theorem conc_leaf_of {a : DOp R} {k : Cls} (h : a.conc = some k) (c : Bool) (r n : Nat) (M : Mat R) :
    (DOp.leaf k c r n M).conc = some k := by
  rcases conc_cases a with h' | h' | h' <;> rw [h'] at h <;> cases h <;> rfl

theorem dAdd_ty (a b : DOp R) : (dAdd a b).map DOp.ty = dAddT a.ty b.ty := by
  unfold dAdd dAddT
  simp only [DOp.ty]
  split
  · rcases conc_cases a with ha | ha | ha <;> rcases conc_cases b with hb | hb | hb <;>
      simp only [ha, hb] <;> simp [concAdd, DOp.ty, DOp.conc, DOp.cplx, DOp.rows, DOp.cols, *]
  · simp [*]

theorem dMul_ty (a b : DOp R) : (dMul a b).map DOp.ty = dMulT a.ty b.ty := by
  unfold dMul dMulT
  simp only [DOp.ty]
  split
  · rcases conc_cases a with ha | ha | ha <;> rcases conc_cases b with hb | hb | hb <;>
      simp only [ha, hb] <;> simp [concAdd, DOp.ty, DOp.conc, DOp.cplx, DOp.rows, DOp.cols, *]
  · simp [*]

theorem dScale_ty (v : R) (c : Bool) (a : DOp R) : (dScale v c a).ty = dScaleT c a.ty := by
  unfold dScale dScaleT
  simp only [DOp.ty]
  rcases conc_cases a with ha | ha | ha <;> simp only [ha] <;> simp [DOp.ty, DOp.conc, DOp.cplx, DOp.rows, DOp.cols]

theorem dNeg_ty (a : DOp R) : (dNeg a).ty = dScaleT false a.ty := by
  unfold dNeg dScaleT
  simp only [DOp.ty]
  rcases conc_cases a with ha | ha | ha <;> simp only [ha] <;> simp [DOp.ty, DOp.conc, DOp.cplx, DOp.rows, DOp.cols]

theorem dTranspose_ty (a : DOp R) : (dTranspose a).map DOp.ty = dTransposeT a.ty := by
  unfold dTranspose dTransposeT
  simp only [DOp.ty]
  rcases conc_cases a with ha | ha | ha <;> simp only [ha] <;> simp [DOp.ty, DOp.conc, DOp.cplx, DOp.rows, DOp.cols]

theorem dAdjoint_ty (a : DOp R) : (dAdjoint a).map DOp.ty = dTransposeT a.ty := by
  unfold dAdjoint dTransposeT
  simp only [DOp.ty]
  rcases conc_cases a with ha | ha | ha <;> simp only [ha] <;> simp [DOp.ty, DOp.conc, DOp.cplx, DOp.rows, DOp.cols]

theorem minvOp_ty (p : Pool R) (r d : Nat) : (minvOp p r d).map DOp.ty = minvT p r d := by
  unfold minvOp minvT
  cases p.minvMat r d <;> simp [DOp.ty, DOp.conc, DOp.cplx, DOp.rows, DOp.cols]

theorem gfCoeffs_ty (p : Pool R) (g : GfV R) : (gfCoeffs p g).map (fun _ => ()) = coeffsT p g.space g.dual := by
  unfold gfCoeffs coeffsT
  cases g.dual with
  | none => rfl
  | some d =>
    simp only
    rw [← minvOp_ty]
    cases minvOp p g.space d <;> rfl

theorem strongB_ty (p : Pool R) (b : BOpV R) :
    (strongB p b).map DOp.ty = strongBT p b.ran b.dual (b.wf.map DOp.ty) := by
  unfold strongB strongBT
  rw [← minvOp_ty]
  cases minvOp p b.ran b.dual with
  | error e => rfl
  | ok m =>
    cases b.wf with
    | error e => rfl
    | ok w => simpa using dMul_ty m w

/-! ### blocked operators -/

/-- the type-level view of an assignment log -/
def eraseLog (log : List (Nat × Nat × BlockF R)) : List (Nat × Nat × Except Err Bool) :=
  log.map fun e => (e.1, e.2.1, e.2.2.map (·.1))

theorem logGet_erase (log : List (Nat × Nat × BlockF R)) (i j : Nat) :
    logGet (eraseLog log) i j = (logGet log i j).map (fun f => f.map (·.1)) := by
  induction log with
  | nil => rfl
  | cons e log ih =>
    obtain ⟨i', j', b⟩ := e
    simp only [eraseLog, List.map_cons, logGet] at ih ⊢
    split
    · rfl
    · exact ih

theorem forceRow_ty (log : List (Nat × Nat × BlockF R)) (i r : Nat) (j : Nat) (cd : List Nat) :
    (forceRow log i r j cd).map (fun row => row.map (·.1)) = forceRowT (eraseLog log) i j cd := by
  induction cd generalizing j with
  | nil => rfl
  | cons d cd ih =>
    simp only [forceRow, forceRowT, logGet_erase]
    cases hget : logGet log i j with
    | none =>
      simp only [Option.map_none, pure_eq, bind_ok]
      rw [← ih (j + 1)]
      cases forceRow log i r (j + 1) cd <;> simp
    | some f =>
      cases f with
      | error e => simp
      | ok b =>
        simp only [Option.map_some, map_ok, bind_ok]
        rw [← ih (j + 1)]
        cases forceRow log i r (j + 1) cd <;> simp

theorem forceRows_ty (log : List (Nat × Nat × BlockF R)) (cd : List Nat) (i : Nat) (rd : List Nat) :
    (forceRows log cd i rd).map (fun rows => rows.map fun row => row.map (·.1)) = forceRowsT (eraseLog log) cd i rd := by
  induction rd generalizing i with
  | nil => rfl
  | cons r rd ih =>
    simp only [forceRows, forceRowsT]
    rw [← forceRow_ty log i r 0 cd, ← ih (i + 1)]
    cases forceRow log i r 0 cd with
    | error e => simp
    | ok row => cases forceRows log cd (i + 1) rd <;> simp

theorem anyCplx_eq (blocks : List (List (Bool × Mat R))) :
    anyCplx blocks = (blocks.map fun row => row.map (·.1)).any (·.any id) := by
  simp [anyCplx, List.any_map, Function.comp_def]

theorem assembleBlk_ty (p : Pool R) (doms duals : List (Option Nat)) (log : List (Nat × Nat × BlockF R)) :
    (assembleBlk p doms duals log).map DOp.ty = assembleBlkT p doms duals (eraseLog log) := by
  unfold assembleBlk assembleBlkT
  split
  · simp only
    rw [← forceRows_ty]
    cases forceRows log (dimsOf p doms) 0 (dimsOf p duals) with
    | error e => simp
    | ok blocks => simp [DOp.ty, DOp.conc, DOp.cplx, DOp.rows, DOp.cols, anyCplx_eq]
  · rfl

theorem rangeOps_ty (p : Pool R) (rans duals : List (Option Nat)) :
    (rangeOps p rans duals).map (fun _ => ()) = rangeOpsT p rans duals := by
  induction rans generalizing duals with
  | nil => cases duals <;> rfl
  | cons r rans ih =>
    cases r with
    | none => cases duals <;> rfl
    | some r =>
      cases duals with
      | nil => rfl
      | cons d duals =>
        cases d with
        | none => rfl
        | some d =>
          simp only [rangeOps, rangeOpsT]
          cases p.minvMat r d with
          | none => simp
          | some M =>
            simp only [pure_eq, bind_ok]
            rw [← ih duals]
            cases rangeOps p rans duals <;> simp

theorem strongK_ty (p : Pool R) (k : BlkV R) :
    (strongK p k).map DOp.ty = strongKT p k.rans k.duals (k.wf.map DOp.ty) := by
  unfold strongK strongKT
  rw [← rangeOps_ty]
  cases rangeOps p k.rans k.duals with
  | error e => simp
  | ok Ms =>
    cases k.wf with
    | error e => simp
    | ok w =>
      simp only [bind_ok, map_ok]
      rw [dMul_ty]
      simp [DOp.ty, DOp.conc, DOp.cplx, DOp.rows, DOp.cols]

theorem checkSpaces_ty (doms : List (Option Nat)) (l : List (GfV R)) :
    checkSpaces doms l = checkSpacesT doms (l.map GfV.ty) := by
  induction doms generalizing l with
  | nil => cases l <;> rfl
  | cons s doms ih =>
    cases l with
    | nil => cases s <;> rfl
    | cons g l =>
      cases s with
      | none => rfl
      | some s =>
        simp only [checkSpaces, List.map_cons, checkSpacesT, GfV.ty]
        rw [ih l]

theorem coeffsList_ty (p : Pool R) (l : List (GfV R)) :
    (coeffsList p l).map (fun _ => ()) = coeffsListT p (l.map GfV.ty) := by
  induction l with
  | nil => rfl
  | cons g l ih =>
    simp only [coeffsList, List.map_cons, coeffsListT, GfV.ty]
    rw [← gfCoeffs_ty, ← ih]
    cases gfCoeffs p g with
    | error e => simp
    | ok c => cases coeffsList p l <;> simp

theorem gfsFromProjections_ty (p : Pool R) (c : Bool) (rans duals : List (Option Nat)) (x : Vec R) :
    (gfsFromProjections p c rans duals x).map GfV.ty = gfsFromProjectionsT c rans duals := by
  induction rans generalizing duals x with
  | nil => simp [gfsFromProjections, gfsFromProjectionsT]
  | cons r rans ih =>
    cases r with
    | none => simp [gfsFromProjections, gfsFromProjectionsT]
    | some r =>
      cases duals with
      | nil => simp [gfsFromProjections, gfsFromProjectionsT]
      | cons d duals =>
        cases d with
        | none => simp [gfsFromProjections, gfsFromProjectionsT]
        | some d => simp [gfsFromProjections, gfsFromProjectionsT, GfV.ty, ih]

/-! ### the Python operators -/

theorem wf2_ty (wa wb : Except Err (DOp R)) (f : DOp R → DOp R → Except Err (DOp R)) (fT : DTy → DTy → Except Err DTy)
    (hf : ∀ a b, (f a b).map DOp.ty = fT a.ty b.ty) :
    (wa >>= fun x => wb >>= fun y => f x y).map DOp.ty
      = (wa.map DOp.ty >>= fun x => wb.map DOp.ty >>= fun y => fT x y) := by
  cases wa with
  | error e => rfl
  | ok a => cases wb with
    | error e => rfl
    | ok b => simpa using hf a b

theorem blkApply_ty (p : Pool R) (k : BlkV R) (l : List (GfV R)) :
    (blkApply p k l).map Obj.ty = blkApplyT p k.doms k.rans k.duals (k.wf.map DOp.ty) (l.map GfV.ty) := by
  unfold blkApply blkApplyT
  simp only [List.length_map]
  split
  · rw [← checkSpaces_ty]
    cases checkSpaces k.doms l with
    | error e => simp
    | ok u =>
      cases k.wf with
      | error e => simp
      | ok w =>
        simp only [bind_ok, map_ok]
        rw [← coeffsList_ty]
        cases coeffsList p l with
        | error e => simp
        | ok x =>
          simp [Obj.ty, gfsFromProjections_ty, DOp.ty, List.any_map, Function.comp_def, GfV.ty]
  · rfl

theorem gfAdd_ty (p : Pool R) (a b : GfV R) (h : a.space = b.space) :
    (gfAdd p a b).map (fun g => Obj.ty (.gf g)) = gfAddT p a.space a.dual a.c b.dual b.c := by
  unfold gfAdd gfAddT
  have hb : coeffsT p a.space b.dual = (gfCoeffs p b).map (fun _ => ()) := by rw [gfCoeffs_ty, h]
  have ha : coeffsT p a.space a.dual = (gfCoeffs p a).map (fun _ => ()) := by rw [gfCoeffs_ty]
  rw [ha, hb]
  cases a.dual <;> cases b.dual <;> simp only [] <;> (try split) <;>
    cases gfCoeffs p a <;> cases gfCoeffs p b <;> simp [Obj.ty]

@[simp] theorem dScaleT_false (t : DTy) : dScaleT false t = t := by cases t; simp [dScaleT]

theorem negV_ty (x : Obj R) : (negV x).map Obj.ty = negT x.ty := by
  cases x <;> simp [negV, negT, Obj.ty, bScale, gfScale, kScale, PTree.cplx, map_map, Function.comp_def, dNeg_ty]
  all_goals first
    | (rename_i b; cases b.wf <;> simp [dScale_ty])
    | skip

theorem scaleV_ty (c np : Bool) (v : R) (y : Obj R) : (scaleV c np v y).map Obj.ty = scaleT c np y.ty := by
  cases y <;> simp [scaleV, scaleT, Obj.ty, bScale, gfScale, kScale, PTree.cplx, map_map, Function.comp_def, dScale_ty]
  all_goals first
    | (rename_i b; cases b.wf <;> simp [dScale_ty])
    | (split <;> rfl)
    | skip

theorem cmp_bind_ty {α β : Type} (x : Except Err Bool) (a : Except Err α) (g : α → β) :
    ((x >>= fun e => if e = true then a else Except.error Err.value).map g)
      = (x >>= fun e => if e = true then a.map g else Except.error Err.value) := by
  cases x with
  | error e => rfl
  | ok e => cases e <;> simp

theorem blkAdd_ty (a b : BlkV R) (wf : Except Err (DOp R)) (wfT : Except Err DTy) (h : wf.map DOp.ty = wfT)
    (doms rans duals : List (Option Nat)) :
    (Except.map Obj.ty do
      let e1 ← cmpSpaces a.doms b.doms
      if e1 = true then do
          let e2 ← cmpSpaces a.rans b.rans
          if e2 = true then do
              let e3 ← cmpSpaces a.duals b.duals
              if e3 = true then pure (Obj.blk { doms := doms, rans := rans, duals := duals, log := none, wf := wf })
                else throw Err.value
            else throw Err.value
        else throw Err.value) =
    (do
    let e1 ← cmpSpaces a.doms b.doms
    if e1 = true then do
        let e2 ← cmpSpaces a.rans b.rans
        if e2 = true then do
            let e3 ← cmpSpaces a.duals b.duals
            if e3 = true then pure (Ty.blk doms rans duals none wfT)
              else throw Err.value
          else throw Err.value
      else throw Err.value) := by
  subst h
  cases cmpSpaces a.doms b.doms with
  | error e => rfl
  | ok e1 =>
    cases e1 with
    | false => rfl
    | true =>
      simp only [bind_ok, if_true]
      cases cmpSpaces a.rans b.rans with
      | error e => rfl
      | ok e2 =>
        cases e2 with
        | false => rfl
        | true =>
          simp only [bind_ok, if_true]
          cases cmpSpaces a.duals b.duals with
          | error e => rfl
          | ok e3 =>
            cases e3 with
            | false => rfl
            | true => rfl

theorem addV_ty (p : Pool R) (x y : Obj R) : (addV p x y).map Obj.ty = addT p x.ty y.ty := by
  cases x <;> cases y <;> simp only [addV, addT, Obj.ty, map_ok, map_error]
  case bop.bop a b =>
    split
    · simp only [map_ok, Obj.ty]
      rw [wf2_ty a.wf b.wf dAdd dAddT dAdd_ty]
    · rfl
  case gf.gf a b =>
    split
    · rename_i h
      rw [map_map]
      exact gfAdd_ty p a b h
    · rfl
  case blk.blk a b =>
    exact blkAdd_ty a b _ _ (wf2_ty a.wf b.wf dAdd dAddT dAdd_ty) _ _ _
  case gfl.gfl a b => simp [List.map_append]
  case dop.dop a b =>
    rw [map_map, ← dAdd_ty]
    cases dAdd a b <;> rfl
  all_goals first
    | rfl
    | (split <;> rfl)

theorem neg_add_ty (p : Pool R) (x y : Obj R) :
    ((negV y >>= fun ny => addV p x ny).map Obj.ty) = (negT y.ty >>= fun ny => addT p x.ty ny) := by
  rw [← negV_ty]
  cases negV y with
  | error e => rfl
  | ok ny => simpa using addV_ty p x ny

theorem subV_ty (p : Pool R) (x y : Obj R) : (subV p x y).map Obj.ty = subT p x.ty y.ty := by
  cases x <;> cases y <;> simp only [subV, subT, Obj.ty, map_ok, map_error]
  case gf.gf a b =>
    split
    · rename_i h
      rw [map_map]
      have := gfAdd_ty p a (gfScale (-1) false b) (by simpa [gfScale] using h)
      simpa [gfScale, Function.comp_def] using this
    · rfl
  all_goals first
    | rfl
    | (split <;> rfl)
    | exact neg_add_ty p _ _

theorem mul_bop_bop_ty (p : Pool R) (a b : BOpV R) :
    Except.map DOp.ty (a.wf >>= fun x => strongB p b >>= fun s => dMul x s)
      = (Except.map DOp.ty a.wf >>= fun x => strongBT p b.ran b.dual (Except.map DOp.ty b.wf) >>= fun s => dMulT x s) := by
  rw [← strongB_ty]
  exact wf2_ty a.wf (strongB p b) dMul dMulT dMul_ty

theorem mul_blk_blk_ty (p : Pool R) (a b : BlkV R) :
    Except.map DOp.ty (a.wf >>= fun x => strongK p b >>= fun s => dMul x s)
      = (Except.map DOp.ty a.wf >>= fun x => strongKT p b.rans b.duals (Except.map DOp.ty b.wf) >>= fun s => dMulT x s) := by
  rw [← strongK_ty]
  exact wf2_ty a.wf (strongK p b) dMul dMulT dMul_ty

theorem mul_bop_gf_ty (p : Pool R) (a : BOpV R) (g : GfV R) :
    Except.map Obj.ty (a.wf >>= fun w => gfCoeffs p g >>= fun x =>
        pure (Obj.gf ⟨a.ran, some a.dual, w.cplx || g.c, w.matvec g.c x⟩))
      = (Except.map DOp.ty a.wf >>= fun w => coeffsT p g.space g.dual >>= fun _ =>
        pure (Ty.gf a.ran (some a.dual) (w.c || g.c))) := by
  rw [← gfCoeffs_ty]
  cases a.wf with
  | error e => rfl
  | ok w => cases gfCoeffs p g <;> simp [Obj.ty, DOp.ty]

theorem mul_pot_gf_ty (p : Pool R) (q : PotV R) (g : GfV R) :
    Except.map Obj.ty (gfCoeffs p g >>= fun x => pure (Obj.arr (q.t.cplx || g.c) (q.t.eval g.c x)))
      = (coeffsT p g.space g.dual >>= fun _ => pure (Ty.arr (q.t.cplx || g.c))) := by
  rw [← gfCoeffs_ty]
  cases gfCoeffs p g <;> simp [Obj.ty]

theorem mul_blk_blk_outer_ty (a b : BlkV R) (wf : Except Err (DOp R)) (wfT : Except Err DTy)
    (h : wf.map DOp.ty = wfT) (doms rans duals : List (Option Nat)) :
    (Except.map Obj.ty do
      let e ← cmpSpaces b.rans a.doms
      if e = true then pure (Obj.blk { doms := doms, rans := rans, duals := duals, log := none, wf := wf })
      else throw Err.value) =
    (do
      let e ← cmpSpaces b.rans a.doms
      if e = true then pure (Ty.blk doms rans duals none wfT) else throw Err.value) := by
  subst h
  cases cmpSpaces b.rans a.doms with
  | error e => rfl
  | ok e => cases e <;> rfl

theorem mulV_ty (p : Pool R) (mm : Bool) (x y : Obj R) : (mulV p mm x y).map Obj.ty = mulT p mm x.ty y.ty := by
  cases mm <;> cases x <;> cases y <;> simp only [mulV, mulT, Obj.ty, map_ok, map_error, Bool.false_eq_true, if_false, if_true]
  all_goals first
    | rfl
    | (split <;> rfl)
    | exact scaleV_ty _ _ _ _
    | exact blkApply_ty p _ _
    | exact mul_blk_blk_outer_ty _ _ _ _ (mul_blk_blk_ty p _ _) _ _ _
    | (split
       · simp only [map_ok, Obj.ty]; rw [mul_bop_bop_ty]
       · rfl)
    | (split
       · exact mul_bop_gf_ty p _ _
       · rfl)
    | (split
       · exact mul_pot_gf_ty p _ _
       · rfl)
    | (rw [map_map, ← dMul_ty]; rename_i a b; cases dMul a b <;> rfl)

theorem weakV_ty (x : Obj R) : (weakV x).map Obj.ty = weakT x.ty := by
  cases x <;> simp only [weakV, weakT, Obj.ty, map_error] <;> first | rfl | (rw [map_map, map_map]; rfl)

theorem strongV_ty (p : Pool R) (x : Obj R) : (strongV p x).map Obj.ty = strongT p x.ty := by
  cases x <;> simp only [strongV, strongT, Obj.ty, map_error]
  case bop b => rw [← strongB_ty, map_map, map_map]; rfl
  case blk k => rw [← strongK_ty, map_map, map_map]; rfl
  all_goals rfl

theorem transposeV_ty (x : Obj R) : (transposeV x).map Obj.ty = transposeT x.ty := by
  cases x <;> simp only [transposeV, transposeT, Obj.ty, map_error]
  case dop d => rw [← dTranspose_ty, map_map, map_map]; rfl
  all_goals first | rfl | (split <;> rfl)

theorem adjointV_ty (x : Obj R) : (adjointV x).map Obj.ty = adjointT x.ty := by
  cases x <;> simp only [adjointV, adjointT, Obj.ty, map_error]
  case dop d => rw [← dAdjoint_ty, map_map, map_map]; rfl
  all_goals rfl

theorem lconsV_ty (x y : Obj R) : (lconsV x y).map Obj.ty = lconsT x.ty y.ty := by
  cases x <;> cases y <;> simp [lconsV, lconsT, Obj.ty, GfV.ty]

theorem blkSet_nonbop (kb : BlkV R) (i j : Nat) :
    Except.map Obj.ty
      (match kb.log with
      | none => Except.error Err.type
      | some _ =>
        if i < kb.rans.length then
          if (kb.rans.getD i none).isSome = true then (Except.error Err.attr : Except Err (Obj R))
          else if j < kb.doms.length then Except.error Err.attr else Except.error Err.index
        else Except.error Err.index) =
    match
      Option.map (fun l => List.map (fun e => (e.fst, e.snd.fst, Except.map (fun x => x.fst) e.snd.snd)) l) kb.log with
    | none => Except.error Err.type
    | some _ =>
      if i < kb.rans.length then
        if (kb.rans.getD i none).isSome = true then Except.error Err.attr
        else if j < kb.doms.length then Except.error Err.attr else Except.error Err.index
      else Except.error Err.index := by
  cases kb.log with
  | none => rfl
  | some log =>
    simp only [Option.map_some]
    by_cases h1 : i < kb.rans.length <;> by_cases h2 : (kb.rans.getD i none).isSome = true <;>
      by_cases h3 : j < kb.doms.length <;> simp only [h1, h2, h3, if_true, if_false, map_error, Bool.false_eq_true]

theorem blkSetV_ty (p : Pool R) (k : Obj R) (i j : Nat) (o : Obj R) :
    (blkSetV p k i j o).map Obj.ty = blkSetT p k.ty i j o.ty := by
  cases k with
  | blk kb =>
    cases o with
    | bop b =>
      simp only [blkSetV, blkSetT, Obj.ty]
      cases kb.log with
      | none => rfl
      | some log =>
        simp only [Option.map_some]
        split
        · split
          · split
            · split
              · simp only [map_ok, Obj.ty, Option.map_some, blockOf]
                rw [assembleBlk_ty]
                simp [eraseLog, map_map, Function.comp_def, DOp.ty]
              · rfl
            · rfl
          · rfl
        · rfl
    | arr c v => rfl
    | scalar c np v => simp only [blkSetV, blkSetT, Obj.ty]; exact blkSet_nonbop kb i j
    | gf g => simp only [blkSetV, blkSetT, Obj.ty]; exact blkSet_nonbop kb i j
    | pot q => simp only [blkSetV, blkSetT, Obj.ty]; exact blkSet_nonbop kb i j
    | blk k2 => simp only [blkSetV, blkSetT, Obj.ty]; exact blkSet_nonbop kb i j
    | gfl l => simp only [blkSetV, blkSetT, Obj.ty]; exact blkSet_nonbop kb i j
    | dop d => simp only [blkSetV, blkSetT, Obj.ty]; exact blkSet_nonbop kb i j
  | arr c v => cases o <;> rfl
  | scalar c np v => cases o <;> rfl
  | bop b => cases o <;> rfl
  | gf g => cases o <;> rfl
  | pot q => cases o <;> rfl
  | gfl l => cases o <;> rfl
  | dop d => cases o <;> rfl

/-! ### whole programs -/

theorem bind2_ty (ea eb : Except Err (Obj R)) (ta tb : Except Err Ty) (f : Obj R → Obj R → Except Err (Obj R))
    (fT : Ty → Ty → Except Err Ty) (ha : ea.map Obj.ty = ta) (hb : eb.map Obj.ty = tb)
    (hf : ∀ x y, (f x y).map Obj.ty = fT x.ty y.ty) :
    (ea >>= fun x => eb >>= fun y => f x y).map Obj.ty = (ta >>= fun x => tb >>= fun y => fT x y) := by
  subst ha hb
  cases ea with
  | error e => rfl
  | ok a => cases eb with
    | error e => rfl
    | ok b => simpa using hf a b

theorem bind1_ty (ea : Except Err (Obj R)) (ta : Except Err Ty) (f : Obj R → Except Err (Obj R))
    (fT : Ty → Except Err Ty) (ha : ea.map Obj.ty = ta) (hf : ∀ x, (f x).map Obj.ty = fT x.ty) :
    (ea >>= fun x => f x).map Obj.ty = (ta >>= fun x => fT x) := by
  subst ha
  cases ea with
  | error e => rfl
  | ok a => simpa using hf a

/-- The interpreter raises exactly when the type checker does (same exception class), and otherwise returns a value
of the computed type. -/
theorem eval_type (p : Pool R) (e : Expr R) : (eval p e).map Obj.ty = typecheck p e := by
  induction e with
  | sc c np v => rfl
  | op i =>
    simp only [eval, typecheck]
    cases p.ops[i]? with
    | none => rfl
    | some l => simp [Obj.ty, opLeafV, DOp.ty, DOp.cplx, DOp.rows, DOp.cols]; cases l.dense <;> simp [DOp.conc]
  | gf i =>
    simp only [eval, typecheck]
    cases p.gfs[i]? <;> rfl
  | pot i =>
    simp only [eval, typecheck]
    cases p.pots[i]? <;> rfl
  | add a b iha ihb => exact bind2_ty _ _ _ _ _ _ iha ihb (addV_ty p)
  | sub a b iha ihb => exact bind2_ty _ _ _ _ _ _ iha ihb (subV_ty p)
  | mul a b iha ihb => exact bind2_ty _ _ _ _ _ _ iha ihb (mulV_ty p false)
  | matmul a b iha ihb => exact bind2_ty _ _ _ _ _ _ iha ihb (mulV_ty p true)
  | neg a ih => exact bind1_ty _ _ _ _ ih negV_ty
  | weak a ih => exact bind1_ty _ _ _ _ ih weakV_ty
  | strong a ih => exact bind1_ty _ _ _ _ ih (strongV_ty p)
  | transpose a ih => exact bind1_ty _ _ _ _ ih transposeV_ty
  | adjoint a ih => exact bind1_ty _ _ _ _ ih adjointV_ty
  | blkEmpty m n =>
    simp only [eval, typecheck]
    split
    · simp only [map_ok, Obj.ty, Option.map_some, List.map_nil]
      rw [assembleBlk_ty]
      rfl
    · rfl
  | blkSet k i j o ihk iho => exact bind2_ty _ _ _ _ _ _ ihk iho (fun x y => blkSetV_ty p x i j y)
  | lnil => rfl
  | lcons g l ihg ihl => exact bind2_ty _ _ _ _ _ _ ihg ihl lconsV_ty

theorem obsGfs_ty (p : Pool R) (l : List (GfV R)) :
    (obsGfs p l).map (fun _ => ()) = coeffsListT p (l.map GfV.ty) := by
  induction l with
  | nil => rfl
  | cons g l ih =>
    simp only [obsGfs, List.map_cons, coeffsListT, GfV.ty, obsGf]
    rw [← gfCoeffs_ty, ← ih]
    cases gfCoeffs p g with
    | error e => simp
    | ok c => cases obsGfs p l <;> simp

/-- reading out a value fails exactly when the type says so -/
theorem observe_type (p : Pool R) (probe : Nat → Vec R) (v : Obj R) :
    (observe p probe v).map (fun _ => ()) = observeT p v.ty := by
  cases v <;> simp only [observe, observeT, Obj.ty, map_ok, map_map]
  case bop b => cases b.wf <;> rfl
  case blk k => cases k.wf <;> rfl
  case gf g =>
    rw [← gfCoeffs_ty]
    simp only [obsGf]
    cases gfCoeffs p g <;> rfl
  case gfl l =>
    rw [← obsGfs_ty]

/-- a whole program returns numbers exactly when it passes the check, with the same exception class otherwise -/
theorem run_check (p : Pool R) (probe : Nat → Vec R) (e : Expr R) :
    (run p probe e).map (fun _ => ()) = check p e := by
  unfold run check
  rw [← eval_type]
  cases eval p e with
  | error err => rfl
  | ok v => simpa using observe_type p probe v

end BemppVerif.Lemmas.AlgType
