/- Helper lemmas for the Duffy rules: separable tensor sums. -/
import BemppVerif.Model.Quad
import BemppVerif.Lemmas.ListSum
import Mathlib.Tactic.FieldSimp

namespace BemppVerif.Lemmas
open BemppVerif.Model.Quad

variable {K : Type} [CommRing K]

/-- weighted sum of `f` over the 1-D rule `(xs, ws)` -/
def wsum (xs ws : List K) (f : K → K) : K := ((xs.zip ws).map fun p => p.2 * f p.1).sum

/-- `j`-th moment of the 1-D rule -/
def mom (xs ws : List K) (j : Nat) : K := wsum xs ws (fun x => x ^ j)

/-- sum over the tensor rule of a separable function -/
theorem tensor_sum_sep (xs ws : List K) (A B : K → K) :
    ((tensor xs ws).map fun t => t.2.2 * (A t.1 * B t.2.1)).sum = wsum xs ws A * wsum xs ws B := by
  unfold tensor wsum
  rw [sum_map_flatMap]
  simp only [List.map_map, Function.comp_def]
  rw [mul_comm]
  rw [← sum_mul_sum]
  apply sum_map_congr
  intro a _
  apply sum_map_congr
  intro b _
  ring

/-- sum over the raw Duffy rule as an iterated sum -/
theorem duffyRaw_sum (adj : Adj) (xs ws : List K) (g : QP K → K) :
    ((duffyRaw adj xs ws).map g).sum =
      ((tensor xs ws).map fun t => ((tensor xs ws).map fun s =>
        ((regions adj t.1 t.2.1 s.1 s.2.1 (t.2.2 * s.2.2)).map g).sum).sum).sum := by
  unfold duffyRaw
  rw [sum_map_flatMap]
  apply sum_map_congr
  intro t _
  rw [sum_map_flatMap]

/-- double tensor sum of a product of a function of the test tensor point and a function of the
trial tensor point, each separable -/
theorem tensor2_sum_sep (xs ws : List K) (A B C D : K → K) :
    ((tensor xs ws).map fun t => ((tensor xs ws).map fun s =>
        (t.2.2 * (A t.1 * B t.2.1)) * (s.2.2 * (C s.1 * D s.2.1))).sum).sum
      = wsum xs ws A * wsum xs ws B * (wsum xs ws C * wsum xs ws D) := by
  rw [sum_mul_sum (tensor xs ws) (tensor xs ws) (fun t => t.2.2 * (A t.1 * B t.2.1))
    (fun s => s.2.2 * (C s.1 * D s.2.1))]
  rw [tensor_sum_sep, tensor_sum_sep]

theorem length_flatMap_const {α β : Type} (l : List α) (f : α → List β) (c : Nat)
    (h : ∀ a, (f a).length = c) : (l.flatMap f).length = l.length * c := by
  induction l with
  | nil => simp
  | cons a l ih => simp [List.flatMap_cons, ih, h, Nat.succ_mul]; omega

theorem tensor_length {R : Type} [Mul R] (xs ws : List R) :
    (tensor xs ws).length = (xs.zip ws).length * (xs.zip ws).length := by
  unfold tensor
  apply length_flatMap_const
  intro a; simp

theorem regions_length {R : Type} [Add R] [Sub R] [Mul R] [One R] (adj : Adj) (a b c d e : R) :
    (regions adj a b c d e).length = match adj with | .coincident => 6 | .edge => 5 | .vertex => 2 := by
  cases adj <;> simp [regions]

theorem duffy_length {R : Type} [Add R] [Sub R] [Mul R] [One R] (adj : Adj) (xs ws : List R) (n : Nat)
    (hx : xs.length = n) (hw : ws.length = n) :
    (duffy adj xs ws).length = numberOfQuadPoints adj n := by
  unfold duffy duffyRaw
  rw [List.length_map]
  have hz : (xs.zip ws).length = n := by simp [hx, hw]
  rw [length_flatMap_const _ _ ((tensor xs ws).length * (match adj with | .coincident => 6 | .edge => 5 | .vertex => 2))]
  · rw [tensor_length, hz]; cases adj <;> simp [numberOfQuadPoints] <;> ring
  · intro t
    apply length_flatMap_const
    intro s
    exact regions_length adj _ _ _ _ _
end BemppVerif.Lemmas
