/- Helper lemmas for the scheduling model (core Lean only). -/
import BemppVerif.Model.Sched

namespace BemppVerif.Lemmas.Sched
open BemppVerif.Model.Sched

variable {C V : Type} [DecidableEq C]

theorem step_prog (m : C → V) (t : Thread C V) : (t.step m).2.prog = t.prog.tail := by
  unfold Thread.step
  split <;> simp_all

theorem solo_prog (m : C → V) (t : Thread C V) (k : Nat) : (solo m t k).2.prog = t.prog.drop k := by
  induction k with
  | zero => simp [solo]
  | succ k ih => simp only [solo, step_prog, ih, List.tail_drop]

omit [DecidableEq C] in
theorem reads_tail_subset (p : Task C V) : ∀ c, c ∈ reads p.tail → c ∈ reads p := by
  intro c h
  cases p with
  | nil => simpa using h
  | cons s p => cases s <;> simp_all [reads]

omit [DecidableEq C] in
theorem writes_tail_subset (p : Task C V) : ∀ c, c ∈ writes p.tail → c ∈ writes p := by
  intro c h
  cases p with
  | nil => simpa using h
  | cons s p => cases s <;> simp_all [writes]

omit [DecidableEq C] in
theorem reads_drop_subset (p : Task C V) (k : Nat) : ∀ c, c ∈ reads (p.drop k) → c ∈ reads p := by
  induction k with
  | zero => simp
  | succ k ih =>
    intro c h
    rw [← List.tail_drop] at h
    exact ih c (reads_tail_subset _ c h)

omit [DecidableEq C] in
theorem writes_drop_subset (p : Task C V) (k : Nat) : ∀ c, c ∈ writes (p.drop k) → c ∈ writes p := by
  induction k with
  | zero => simp
  | succ k ih =>
    intro c h
    rw [← List.tail_drop] at h
    exact ih c (writes_tail_subset _ c h)

/-- a step only depends on the memory cells the thread reads -/
theorem step_congr (m m' : C → V) (t : Thread C V) (A : C → Prop)
    (hr : ∀ c, c ∈ reads t.prog → A c) (hm : ∀ c, A c → m c = m' c) :
    (t.step m).2 = (t.step m').2 ∧ ∀ c, A c → (t.step m).1 c = (t.step m').1 c := by
  unfold Thread.step
  split
  · exact ⟨rfl, hm⟩
  · rename_i c p hp
    have : m c = m' c := hm c (hr c (by simp [hp, reads]))
    exact ⟨by simp [this], hm⟩
  · rename_i c f p hp
    refine ⟨rfl, ?_⟩
    intro x hx
    by_cases h : x = c <;> simp [h, hm x hx]

/-- a step changes only cells the thread writes -/
theorem step_frame (m : C → V) (t : Thread C V) (c : C) (hc : c ∉ writes t.prog) : (t.step m).1 c = m c := by
  unfold Thread.step
  split
  · rfl
  · rfl
  · rename_i c' f p hp
    have : c ≠ c' := by
      intro h
      apply hc
      simp [hp, writes, h]
    simp [this]

theorem solo_saturate (m : C → V) (t : Thread C V) (d : Nat) :
    solo m t (t.prog.length + d) = solo m t t.prog.length := by
  induction d with
  | zero => rfl
  | succ d ih =>
    have hp : (solo m t (t.prog.length + d)).2.prog = [] := by
      rw [solo_prog]; simp
    show (solo m t (t.prog.length + d)).2.step (solo m t (t.prog.length + d)).1 = _
    have : ∀ (m : C → V) (t : Thread C V), t.prog = [] → t.step m = (m, t) := by
      intro m t h
      unfold Thread.step
      simp [h]
    rw [this _ _ hp, ih]

theorem solo_saturate' (m : C → V) (t : Thread C V) (k : Nat) (h : t.prog.length ≤ k) :
    solo m t k = solo m t t.prog.length := by
  obtain ⟨d, rfl⟩ := Nat.exists_eq_add_of_le h
  exact solo_saturate m t d

/-- Projection invariant: after ANY schedule (here executed right-to-left by `foldr`), every thread's
private state and the cells it owns are those of a solo run of as many steps as it was scheduled;
cells owned by nobody are untouched. -/
theorem run_proj (m0 : C → V) (T : Nat → Task C V)
    (hdisj : ∀ i j, i ≠ j → ∀ c, c ∈ writes (T i) → c ∉ writes (T j))
    (hown : ∀ i c, c ∈ reads (T i) → c ∈ writes (T i)) (l : List Nat) :
    (∀ i, (l.foldr (fun i st => State.step st i) (⟨m0, fun i => ⟨[], T i⟩⟩ : State C V)).th i
        = (solo m0 ⟨[], T i⟩ (l.count i)).2) ∧
    (∀ i c, c ∈ writes (T i) →
      (l.foldr (fun i st => State.step st i) (⟨m0, fun i => ⟨[], T i⟩⟩ : State C V)).mem c
        = (solo m0 ⟨[], T i⟩ (l.count i)).1 c) ∧
    (∀ c, (∀ i, c ∉ writes (T i)) →
      (l.foldr (fun i st => State.step st i) (⟨m0, fun i => ⟨[], T i⟩⟩ : State C V)).mem c = m0 c) := by
  induction l with
  | nil => simp [solo]
  | cons j l ih =>
    obtain ⟨ih1, ih2, ih3⟩ := ih
    simp only [List.foldr_cons]
    generalize hs : (l.foldr (fun i st => State.step st i) (⟨m0, fun i => ⟨[], T i⟩⟩ : State C V)) = s at ih1 ih2 ih3
    -- the thread that moves
    have hprog : (s.th j).prog = (T j).drop (l.count j) := by rw [ih1 j, solo_prog]
    have hrd : ∀ c, c ∈ reads (s.th j).prog → c ∈ writes (T j) := by
      intro c hc; rw [hprog] at hc; exact hown j c (reads_drop_subset _ _ c hc)
    have hcg := step_congr s.mem (solo m0 ⟨[], T j⟩ (l.count j)).1 (s.th j) (fun c => c ∈ writes (T j)) hrd
      (fun c hc => ih2 j c hc)
    have hwr : ∀ c, c ∈ writes (s.th j).prog → c ∈ writes (T j) := by
      intro c hc; rw [hprog] at hc; exact writes_drop_subset _ _ c hc
    refine ⟨?_, ?_, ?_⟩
    · intro i
      by_cases hij : i = j
      · subst hij
        simp only [State.step, if_true, List.count_cons_self, solo]
        rw [hcg.1, ih1 i]
      · have : (j :: l).count i = l.count i := by
          rw [List.count_cons_of_ne (fun h => hij h.symm)]
        simp only [State.step, if_neg hij, this, ih1 i]
    · intro i c hc
      by_cases hij : i = j
      · subst hij
        simp only [State.step, List.count_cons_self, solo]
        rw [hcg.2 c hc, ih1 i]
      · have : (j :: l).count i = l.count i := by
          rw [List.count_cons_of_ne (fun h => hij h.symm)]
        simp only [State.step, this]
        rw [step_frame _ _ c (fun h => hdisj i j hij c hc (hwr c h)), ih2 i c hc]
    · intro c hc
      simp only [State.step]
      rw [step_frame _ _ c (fun h => hc j (hwr c h)), ih3 c hc]


/-- `run` (left-to-right `foldl`) is the right-to-left `foldr` of the reversed schedule -/
theorem run_eq_foldr (s : State C V) (sched : List Nat) :
    run s sched = sched.reverse.foldr (fun i st => State.step st i) s := by
  unfold run
  rw [List.foldl_eq_foldr_reverse]

/-- final state of a complete schedule, list-of-tasks form -/
theorem complete_final (m0 : C → V) (tasks : List (Task C V))
    (hdisj : ∀ i j, i < tasks.length → j < tasks.length → i ≠ j →
      ∀ c, c ∈ writes (tasks.getD i []) → c ∉ writes (tasks.getD j []))
    (hown : ∀ i, i < tasks.length → ∀ c, c ∈ reads (tasks.getD i []) → c ∈ writes (tasks.getD i []))
    (sched : List Nat) (hc : Complete tasks sched) :
    (∀ i, ((run (start m0 tasks) sched).th i).prog = []) ∧
    (∀ i c, c ∈ writes (tasks.getD i []) →
      (run (start m0 tasks) sched).mem c
        = (solo m0 ⟨[], tasks.getD i []⟩ (tasks.getD i []).length).1 c) ∧
    (∀ c, (∀ i, c ∉ writes (tasks.getD i [])) → (run (start m0 tasks) sched).mem c = m0 c) := by
  have hout : ∀ i, ¬ i < tasks.length → tasks.getD i [] = [] := by
    intro i hi
    simp [List.getD, List.getElem?_eq_none (Nat.le_of_not_lt hi)]
  have hd : ∀ i j, i ≠ j → ∀ c, c ∈ writes (tasks.getD i []) → c ∉ writes (tasks.getD j []) := by
    intro i j hij c hci
    by_cases hi : i < tasks.length
    · by_cases hj : j < tasks.length
      · exact hdisj i j hi hj hij c hci
      · rw [hout j hj]; simp [writes]
    · rw [hout i hi] at hci; simp [writes] at hci
  have ho : ∀ i c, c ∈ reads (tasks.getD i []) → c ∈ writes (tasks.getD i []) := by
    intro i c h
    by_cases hi : i < tasks.length
    · exact hown i hi c h
    · rw [hout i hi] at h; simp [reads] at h
  obtain ⟨p1, p2, p3⟩ := run_proj m0 (fun i => tasks.getD i []) hd ho sched.reverse
  have hcnt : ∀ i, (tasks.getD i []).length ≤ sched.reverse.count i := by
    intro i
    rw [List.count_reverse]
    by_cases hi : i < tasks.length
    · exact hc i hi
    · rw [hout i hi]; simp
  rw [run_eq_foldr]
  unfold start
  refine ⟨?_, ?_, ?_⟩
  · intro i
    rw [p1 i, solo_prog]
    simpa using hcnt i
  · intro i c hci
    rw [p2 i c hci, solo_saturate' m0 ⟨[], tasks.getD i []⟩ _ (hcnt i)]
  · intro c hcn
    exact p3 c hcn

omit [DecidableEq C] in
theorem count_flatMap_replicate (len : Nat → Nat) (idxs : List Nat) (hn : idxs.Nodup) (i : Nat) :
    (idxs.flatMap fun j => List.replicate (len j) j).count i = if i ∈ idxs then len i else 0 := by
  induction idxs with
  | nil => simp
  | cons a l ih =>
    have hn' := List.nodup_cons.mp hn
    simp only [List.flatMap_cons, List.count_append, List.count_replicate, ih hn'.2]
    by_cases h : a = i
    · subst h
      simp [hn'.1]
    · have h' : ¬ i = a := fun e => h e.symm
      simp [h, h']

omit [DecidableEq C] in
theorem seqSchedule_complete (tasks : List (Task C V)) : Complete tasks (seqSchedule tasks) := by
  intro i hi
  unfold seqSchedule
  rw [count_flatMap_replicate (fun j => (tasks.getD j []).length) _ List.nodup_range]
  simp [hi]

/-! ### the dense scatter task -/

omit [DecidableEq C] in
theorem reads_append (p q : Task C V) : reads (p ++ q) = reads p ++ reads q := by
  induction p with
  | nil => rfl
  | cons s p ih => cases s <;> simp [reads, ih]

omit [DecidableEq C] in
theorem writes_append (p q : Task C V) : writes (p ++ q) = writes p ++ writes q := by
  induction p with
  | nil => rfl
  | cons s p ih => cases s <;> simp [writes, ih]

omit [DecidableEq C] in
theorem reads_flatMap {α : Type} (l : List α) (f : α → Task C V) :
    reads (l.flatMap f) = l.flatMap fun a => reads (f a) := by
  induction l with
  | nil => rfl
  | cons a l ih => simp [List.flatMap_cons, reads_append, ih]

omit [DecidableEq C] in
theorem writes_flatMap {α : Type} (l : List α) (f : α → Task C V) :
    writes (l.flatMap f) = l.flatMap fun a => writes (f a) := by
  induction l with
  | nil => rfl
  | cons a l ih => simp [List.flatMap_cons, writes_append, ih]

omit [DecidableEq C] in
/-- the driver's `trace` lists exactly the loads (`reads`) and stores (`writes`) of a task, in program order -/
theorem trace_spec (p : Task C V) :
    reads p = ((trace p).filter fun x => !x.1).map (·.2) ∧ writes p = ((trace p).filter fun x => x.1).map (·.2) := by
  induction p with
  | nil => exact ⟨rfl, rfl⟩
  | cons s p ih => cases s <;> simp [reads, writes, trace, ih.1, ih.2]

theorem reads_denseTask (add : V → V → V) (trow : List Nat) (trialRows : List (List Nat))
    (val : Nat → Nat → Nat → V) :
    reads (denseTask add trow trialRows val) = writes (denseTask add trow trialRows val) := by
  unfold denseTask
  simp only [reads_flatMap, writes_flatMap, rmw, reads, writes]

/-- every cell written by the scatter loop of a test element lies in a row of its `local2global` row -/
theorem writes_denseTask_row (add : V → V → V) (trow : List Nat) (trialRows : List (List Nat))
    (val : Nat → Nat → Nat → V) (c : Nat × Nat)
    (h : c ∈ writes (denseTask add trow trialRows val)) : c.1 ∈ trow := by
  unfold denseTask at h
  simp only [writes_flatMap, rmw, writes, List.mem_flatMap, List.mem_singleton] at h
  obtain ⟨⟨srow, k⟩, _, ⟨r, i⟩, hr, ⟨c', j⟩, _, rfl⟩ := h
  exact (List.mem_zipIdx hr).2.2 ▸ List.getElem_mem _

end BemppVerif.Lemmas.Sched
