/- Helper lemmas for the assembly model (sums over contribution lists). -/
import BemppVerif.Model.Asm
import Mathlib.Tactic.Ring
import Mathlib.Algebra.BigOperators.Group.List.Basic

namespace BemppVerif.Lemmas
open BemppVerif.Model.Asm

variable {R : Type} [CommRing R]

theorem lsum_eq_sum (l : List R) : lsum l = l.sum := by
  induction l with
  | nil => rfl
  | cons a l ih => simp [lsum, ih]

@[simp] theorem lsum_nil : lsum ([] : List R) = 0 := rfl
@[simp] theorem lsum_cons (a : R) (l : List R) : lsum (a :: l) = a + lsum l := rfl

theorem lsum_append (l m : List R) : lsum (l ++ m) = lsum l + lsum m := by
  induction l with
  | nil => simp
  | cons a l ih => simp [ih, add_assoc]

theorem lsum_map_zero {α : Type} (l : List α) : lsum (l.map fun _ => (0 : R)) = 0 := by
  induction l with
  | nil => rfl
  | cons a l ih =>
    show (0 : R) + lsum (l.map fun _ => (0 : R)) = 0
    rw [ih, add_zero]

theorem lsum_replicate_zero (n : Nat) : lsum (List.replicate n (0 : R)) = 0 := by
  induction n with
  | zero => rfl
  | succ n ih => simp [List.replicate_succ, ih]

theorem lsum_map_add {α : Type} (l : List α) (f g : α → R) :
    lsum (l.map fun a => f a + g a) = lsum (l.map f) + lsum (l.map g) := by
  induction l with
  | nil => simp
  | cons a l ih => simp [ih]; ring

theorem lsum_map_mul_left {α : Type} (l : List α) (c : R) (f : α → R) :
    lsum (l.map fun a => c * f a) = c * lsum (l.map f) := by
  induction l with
  | nil => simp
  | cons a l ih => simp [ih, mul_add]

theorem lsum_map_mul_right {α : Type} (l : List α) (c : R) (f : α → R) :
    lsum (l.map fun a => f a * c) = lsum (l.map f) * c := by
  induction l with
  | nil => simp
  | cons a l ih => simp [ih, add_mul]

theorem lsum_map_congr {α : Type} (l : List α) (f g : α → R) (h : ∀ a ∈ l, f a = g a) :
    lsum (l.map f) = lsum (l.map g) := by
  induction l with
  | nil => rfl
  | cons a l ih =>
    simp only [List.map_cons, lsum_cons]
    rw [h a (by simp), ih (fun b hb => h b (by simp [hb]))]

theorem lsum_map_flatMap {α β : Type} (l : List α) (f : α → List β) (g : β → R) :
    lsum ((l.flatMap f).map g) = lsum (l.map fun a => lsum ((f a).map g)) := by
  induction l with
  | nil => rfl
  | cons a l ih => simp [List.flatMap_cons, lsum_append, ih]

theorem lsum_perm {l m : List R} (h : l.Perm m) : lsum l = lsum m := by
  rw [lsum_eq_sum, lsum_eq_sum]; exact h.sum_eq

theorem lsum_map_perm {α : Type} {l m : List α} (h : l.Perm m) (f : α → R) :
    lsum (l.map f) = lsum (m.map f) := lsum_perm (h.map f)

/-- exchange of two list sums -/
theorem lsum_comm {α β : Type} (l : List α) (m : List β) (f : α → β → R) :
    lsum (l.map fun a => lsum (m.map fun b => f a b)) = lsum (m.map fun b => lsum (l.map fun a => f a b)) := by
  induction l with
  | nil =>
    show (0 : R) = lsum (m.map fun _ => (0 : R))
    rw [lsum_map_zero]
  | cons a l ih =>
    simp only [List.map_cons, lsum_cons, ih, lsum_map_add]

/-- a sum with an indicator that selects exactly one element of a duplicate-free list -/
theorem lsum_map_ite_eq {α : Type} [DecidableEq α] (l : List α) (hl : l.Nodup) (a : α) (f : α → R) :
    lsum (l.map fun b => if b = a then f b else 0) = if a ∈ l then f a else 0 := by
  induction l with
  | nil => simp
  | cons b l ih =>
    have hb : b ∉ l := (List.nodup_cons.mp hl).1
    have hl' : l.Nodup := (List.nodup_cons.mp hl).2
    simp only [List.map_cons, lsum_cons, ih hl', List.mem_cons]
    by_cases h : b = a
    · subst h; simp [hb]
    · have : ¬ a = b := fun e => h e.symm
      simp [h, this]

theorem entry_append (l m : List (Contrib R)) (r c : Nat) : entry (l ++ m) r c = entry l r c + entry m r c := by
  simp [entry, lsum_append]

theorem entry_flatMap {α : Type} (l : List α) (f : α → List (Contrib R)) (r c : Nat) :
    entry (l.flatMap f) r c = lsum (l.map fun a => entry (f a) r c) := by
  unfold entry
  rw [lsum_map_flatMap]

theorem entry_map {α : Type} (l : List α) (f : α → Contrib R) (r c : Nat) :
    entry (l.map f) r c = lsum (l.map fun a => if (f a).row = r ∧ (f a).col = c then (f a).val else 0) := by
  simp [entry, List.map_map, Function.comp_def]

theorem rsum_def (n : Nat) (f : Nat → R) : rsum n f = lsum ((List.range n).map f) := rfl

end BemppVerif.Lemmas
