/-
Helper lemmas for C14 (end): the main induction — every value the interpreter produces is related to the denotation
of the expression — and the complex rationals of the driver as an instance.
-/
import BemppVerif.Lemmas.AlgSound5
import Mathlib.Algebra.Ring.Rat
import Mathlib.Algebra.Ring.MinimalAxioms

namespace BemppVerif.Lemmas.AlgSound
open BemppVerif.Model.Alg BemppVerif.Lemmas.AlgMat BemppVerif.Lemmas.AlgType

set_option linter.unusedSectionVars false
set_option linter.unusedSimpArgs false

variable {R : Type} [CommRing R] [CParts R]

theorem bind2_rel {p : Pool R} {ea eb : Except Err (Obj R)} {f : Obj R → Obj R → Except Err (Obj R)} {da db d : Den R}
    {v : Obj R} (iha : ∀ x, ea = .ok x → Rel p x da) (ihb : ∀ y, eb = .ok y → Rel p y db)
    (hf : ∀ x y r, Rel p x da → Rel p y db → f x y = .ok r → Rel p r d)
    (h : (ea >>= fun x => eb >>= fun y => f x y) = .ok v) : Rel p v d := by
  obtain ⟨x, hx, h⟩ := bind_eq_ok h
  obtain ⟨y, hy, h⟩ := bind_eq_ok h
  exact hf x y v (iha x hx) (ihb y hy) h

theorem bind1_rel {p : Pool R} {ea : Except Err (Obj R)} {f : Obj R → Except Err (Obj R)} {da d : Den R}
    {v : Obj R} (iha : ∀ x, ea = .ok x → Rel p x da) (hf : ∀ x r, Rel p x da → f x = .ok r → Rel p r d)
    (h : (ea >>= fun x => f x) = .ok v) : Rel p v d := by
  obtain ⟨x, hx, h⟩ := bind_eq_ok h
  exact hf x v (iha x hx) h

/-- Every value the interpreter produces is related to the plain matrix / vector denotation of the expression. -/
theorem eval_rel (hp : LawfulParts R) {p : Pool R} (ok : PoolOk p) :
    ∀ (e : Expr R) (v : Obj R), eval p e = .ok v → Rel p v (denote p e) := by
  intro e
  induction e with
  | sc c np v => intro v h; simp only [eval] at h; cases h; simp [Rel, denote]
  | op i =>
    intro v h
    simp only [eval, denote] at h ⊢
    cases hl : p.ops[i]? with
    | none => rw [hl] at h; cases h
    | some l =>
      rw [hl] at h
      cases h
      refine ⟨rfl, rfl, rfl, ?_⟩
      intro D hD
      simp only [opLeafV] at hD
      cases hD
      exact ⟨ok.ops l (List.mem_of_getElem? hl), rfl, rfl, rfl⟩
  | gf i =>
    intro v h
    simp only [eval, denote] at h ⊢
    cases hl : p.gfs[i]? with
    | none => rw [hl] at h; cases h
    | some l =>
      rw [hl] at h
      cases h
      refine ⟨rfl, ok.gfs l (List.mem_of_getElem? hl), ?_⟩
      intro c' hc'
      rcases gfCoeffs_ok hp ok hc' with ⟨hd, rfl⟩ | ⟨d, M, hd, hM, _, rfl⟩
      · simp only at hd; simp only [hd]
      · simp only at hd hM; simp only [hd, minvD, hM, Option.getD_some]
  | pot i =>
    intro v h
    simp only [eval, denote] at h ⊢
    cases hl : p.pots[i]? with
    | none => rw [hl] at h; cases h
    | some l =>
      rw [hl] at h
      cases h
      exact ⟨rfl, fun xc x => by simp only [PTree.eval]; exact applyMat_eq hp _ _ _ _⟩
  | add a b iha ihb => intro v h; exact bind2_rel iha ihb (fun _ _ _ hx hy hr => addV_rel hp ok hx hy hr) h
  | sub a b iha ihb => intro v h; exact bind2_rel iha ihb (fun _ _ _ hx hy hr => subV_rel hp ok hx hy hr) h
  | mul a b iha ihb => intro v h; exact bind2_rel iha ihb (fun _ _ _ hx hy hr => mulV_rel hp ok hx hy hr) h
  | matmul a b iha ihb => intro v h; exact bind2_rel iha ihb (fun _ _ _ hx hy hr => mulV_rel hp ok hx hy hr) h
  | neg a ih => intro v h; exact bind1_rel ih (fun _ _ hx hr => negV_rel hp ok hx hr) h
  | weak a ih => intro v h; exact bind1_rel ih (fun _ _ hx hr => weakV_rel hx hr) h
  | strong a ih => intro v h; exact bind1_rel ih (fun _ _ hx hr => strongV_rel ok hx hr) h
  | transpose a ih => intro v h; exact bind1_rel ih (fun _ _ hx hr => transposeV_rel hx hr) h
  | adjoint a ih => intro v h; exact bind1_rel ih (fun _ _ hx hr => adjointV_rel hx hr) h
  | blkEmpty m n =>
    intro v h
    simp only [eval] at h
    split at h
    · rename_i hmn
      cases h
      simp only [denote, Rel]
      refine ⟨rfl, rfl, rfl, by simp, ?_, ?_⟩
      · intro D hD
        simp only [assembleBlk, allSome_replicate_none hmn.2, Bool.false_and] at hD
        cases hD
      · intro log hlog
        cases hlog
        exact .nil
    · cases h
  | blkSet k i j o ihk iho => intro v h; exact bind2_rel ihk iho (fun _ _ _ hx hy hr => blkSetV_rel hx hy hr) h
  | lnil => intro v h; simp only [eval] at h; cases h; exact .nil
  | lcons g l ihg ihl => intro v h; exact bind2_rel ihg ihl (fun _ _ _ hx hy hr => lconsV_rel hx hy hr) h

/-! ### read-outs -/

/-- what a read-out must be, given the denotation -/
def ObsMatches (p : Pool R) (probe : Nat → Vec R) : Obs R → Den R → Prop
  | .scalar _ _ v, .sc w => v = w
  | .mat _ _ n M mv, .op _ _ _ W => M = W ∧ mv = mulVec W (probe n)
  | .mat _ _ n M mv, .blk _ _ _ _ W => M = W ∧ mv = mulVec W (probe n)
  | .mat _ _ n M mv, .dmat _ _ W => M = W ∧ mv = mulVec W (probe n)
  | .fn s _ _ _ co, .fn s' c => s = s' ∧ co = c
  | .fns l, .fns l' => List.Forall₂ (fun a f => a.1 = f.1 ∧ a.2.2.2.2 = f.2) l l'
  | .potv _ v, .pot s M => v = mulVec M (probe (p.ndof s))
  | .arr _ v, .arr w => v = w
  | _, _ => False

theorem obsGfs_matches {p : Pool R} {l : List (GfV R)} {l' : List (Nat × Vec R)}
    (h : List.Forall₂ (fun g f => RelG p g f.1 f.2) l l') {o : List (Nat × Option Nat × Bool × Vec R × Vec R)}
    (ho : obsGfs p l = .ok o) : List.Forall₂ (fun a f => a.1 = f.1 ∧ a.2.2.2.2 = f.2) o l' := by
  induction h generalizing o with
  | nil => simp only [obsGfs] at ho; cases ho; exact .nil
  | cons hg _ ih =>
    simp only [obsGfs] at ho
    obtain ⟨a, ha, ho⟩ := bind_eq_ok ho
    obtain ⟨rest, hrest, ho⟩ := bind_eq_ok ho
    cases ho
    simp only [obsGf] at ha
    obtain ⟨c, hc, ha⟩ := bind_eq_ok ha
    cases ha
    exact .cons ⟨hg.1, hg.2.2 c hc⟩ (ih hrest)

/-! ### the driver's scalar type -/

theorem CRat.ext' {a b : CRat} (h1 : a.re = b.re) (h2 : a.im = b.im) : a = b := by
  cases a; cases b; simp_all

@[simp] theorem CRat.add_re (a b : CRat) : (a + b).re = a.re + b.re := rfl
@[simp] theorem CRat.add_im (a b : CRat) : (a + b).im = a.im + b.im := rfl
@[simp] theorem CRat.mul_re (a b : CRat) : (a * b).re = a.re * b.re - a.im * b.im := rfl
@[simp] theorem CRat.mul_im (a b : CRat) : (a * b).im = a.re * b.im + a.im * b.re := rfl
@[simp] theorem CRat.neg_re (a : CRat) : (-a).re = -a.re := rfl
@[simp] theorem CRat.neg_im (a : CRat) : (-a).im = -a.im := rfl
@[simp] theorem CRat.zero_re : (0 : CRat).re = 0 := rfl
@[simp] theorem CRat.zero_im : (0 : CRat).im = 0 := rfl
@[simp] theorem CRat.one_re : (1 : CRat).re = 1 := rfl
@[simp] theorem CRat.one_im : (1 : CRat).im = 0 := rfl

/-- the Gaussian rationals of the native driver form a commutative ring (with exactly the operations of the model) -/
instance : CommRing CRat :=
  CommRing.ofMinimalAxioms
    (by intro a b c; apply CRat.ext' <;> simp <;> ring)
    (by intro a; apply CRat.ext' <;> simp)
    (by intro a; apply CRat.ext' <;> simp)
    (by intro a b c; apply CRat.ext' <;> simp <;> ring)
    (by intro a b; apply CRat.ext' <;> simp <;> ring)
    (by intro a; apply CRat.ext' <;> simp)
    (by intro a b c; apply CRat.ext' <;> simp <;> ring)

theorem lawfulParts_CRat : LawfulParts CRat := by
  intro x
  apply CRat.ext' <;> simp [CParts.re, CParts.im, CParts.I]

end BemppVerif.Lemmas.AlgSound
