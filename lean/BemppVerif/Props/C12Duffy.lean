/-
C12 — degree of exactness of the edge-adjacent and coincident singular (Duffy) rules, for every
order and every 1-D rule at once (proof by reflection, see `Lemmas/PolyReflect.lean`).

The model's `regions` is run on polynomials in `(ξ, η1, η2, η3)`; for each monomial
`x1^a y1^b x2^c y2^d` of total degree `≤ 6` the kernel expands the pulled-back integrand on every
region, integrates it exactly over `[0,1]^4` in integer arithmetic (scaled by `L^4`, `L = 360360`),
and compares the sum over the regions with `∫∫ x1^a y1^b x2^c y2^d` over the product of two raw
reference triangles `0 ≤ y ≤ x ≤ 1`.  All exponents of the pulled-back integrand are
`≤ a+b+c+d+3`, which is why a 1-D rule with exact moments up to `D ≥ a+b+c+d+3` suffices.
-/
import BemppVerif.Props.C12
import BemppVerif.Lemmas.PolyReflect

namespace BemppVerif.C12
open BemppVerif.Model.Quad BemppVerif.Lemmas

/-- kernel computation: the five edge-adjacent regions, all monomials of total degree `≤ 6` -/
theorem edge_check : checkAll 360360 .edge 6 = true := by decide +kernel

/-- kernel computation: the six coincident regions, all monomials of total degree `≤ 6` -/
theorem coincident_check : checkAll 360360 .coincident 6 = true := by decide +kernel

/-- If the 1-D rule `(xs, ws)` has exact moments `Σ w x^j = 1/(j+1)` for `j ≤ D`, the raw
edge-adjacent rule built from it integrates `x1^a y1^b x2^c y2^d` (raw coordinates, reference
triangle `0 ≤ y ≤ x ≤ 1`) exactly whenever `a+b+c+d ≤ 6` and `a+b+c+d+3 ≤ D`; any number of
points, any field of characteristic zero. -/
theorem edge_adjacent_exact {K : Type} [Field K] [CharZero K] (xs ws : List K) (D : Nat)
    (hex : ∀ j ≤ D, mom xs ws j = 1 / ((j : K) + 1)) (a b c d : Nat)
    (hdeg : a + b + c + d ≤ 6) (hD : a + b + c + d + 3 ≤ D) :
    ((duffyRaw .edge xs ws).map (monoRaw a b c d)).sum
      = 1 / (((b : K) + 1) * ((a : K) + b + 2)) * (1 / (((d : K) + 1) * ((c : K) + d + 2))) :=
  duffy_exact_of_check 360360 (by decide) .edge 6 edge_check xs ws D hex a b c d hdeg hD

/-- The same for the coincident rule (six regions). -/
theorem coincident_exact {K : Type} [Field K] [CharZero K] (xs ws : List K) (D : Nat)
    (hex : ∀ j ≤ D, mom xs ws j = 1 / ((j : K) + 1)) (a b c d : Nat)
    (hdeg : a + b + c + d ≤ 6) (hD : a + b + c + d + 3 ≤ D) :
    ((duffyRaw .coincident xs ws).map (monoRaw a b c d)).sum
      = 1 / (((b : K) + 1) * ((a : K) + b + 2)) * (1 / (((d : K) + 1) * ((c : K) + d + 2))) :=
  duffy_exact_of_check 360360 (by decide) .coincident 6 coincident_check xs ws D hex a b c d hdeg hD

/-- Non-vacuity: Simpson's rule on [0,1] has exact moments up to degree 3, so both theorems apply
with `D = 3`, `a=b=c=d=0`; the 5·3⁴ resp. 6·3⁴ weights then sum to `1/4 = |T|²`. -/
example :
    ((duffyRaw .edge ([0, 1/2, 1] : List ℚ) [1/6, 2/3, 1/6]).map (monoRaw 0 0 0 0)).sum = 1 / 4 ∧
    ((duffyRaw .coincident ([0, 1/2, 1] : List ℚ) [1/6, 2/3, 1/6]).map (monoRaw 0 0 0 0)).sum = 1 / 4 := by
  have hex : ∀ j ≤ 3, mom ([0, 1/2, 1] : List ℚ) [1/6, 2/3, 1/6] j = 1 / ((j : ℚ) + 1) := by
    intro j hj
    interval_cases j <;> norm_num [mom, wsum]
  constructor
  · rw [edge_adjacent_exact _ _ 3 hex 0 0 0 0 (by norm_num) (by norm_num)]; norm_num
  · rw [coincident_exact _ _ 3 hex 0 0 0 0 (by norm_num) (by norm_num)]; norm_num

end BemppVerif.C12
