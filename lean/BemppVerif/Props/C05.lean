/-
C05 — Helmholtz-family operators are consistent with Laplace and with each other (partial).

Kernel-level statements for ALL points, normals and wavenumbers about the canonical kernels, which every traced Numba
kernel equals (`BemppVerif.Kernels.*`, regenerated from the source on every run):
conjugation symmetry k ↦ -k̄, purely imaginary wavenumber = modified Helmholtz, symmetry of the single layer kernel,
adjoint double layer = double layer with points and roles exchanged, and the small-|k| bounds.
Lifting to matrices uses the Galerkin spec (`dense_refines_spec`): real weights and real basis functions.
-/
import BemppVerif.Lemmas.KernelFacts
import BemppVerif.Lemmas.AsmSpec
import Mathlib.Analysis.SpecialFunctions.Exponential
import Mathlib.Tactic.Ring
import Mathlib.Tactic.FieldSimp
import Mathlib.Tactic.Linarith

namespace BemppVerif.C05
open BemppVerif.Kernels

section algebraic
variable {K : Type} [Field K] (sqrt cos sin exp : K → K) (c4pi : K)

/-- **k ↦ -k̄ conjugates the kernels**: with k = p0 + i p1, -k̄ = -p0 + i p1; the real parts are even and the imaginary
parts odd in p0 (given cos(-t) = cos t, sin(-t) = -sin t). -/
theorem helmholtz_conj_symmetry (hcos : ∀ t, cos (-t) = cos t) (hsin : ∀ t, sin (-t) = -sin t)
    (x0 x1 x2 y0 y1 y2 nx0 nx1 nx2 ny0 ny1 ny2 p0 p1 : K) :
    helmSLre sqrt cos sin exp c4pi x0 x1 x2 y0 y1 y2 nx0 nx1 nx2 ny0 ny1 ny2 (-p0) p1
      = helmSLre sqrt cos sin exp c4pi x0 x1 x2 y0 y1 y2 nx0 nx1 nx2 ny0 ny1 ny2 p0 p1 ∧
    helmSLim sqrt cos sin exp c4pi x0 x1 x2 y0 y1 y2 nx0 nx1 nx2 ny0 ny1 ny2 (-p0) p1
      = -helmSLim sqrt cos sin exp c4pi x0 x1 x2 y0 y1 y2 nx0 nx1 nx2 ny0 ny1 ny2 p0 p1 ∧
    helmDLre sqrt cos sin exp c4pi x0 x1 x2 y0 y1 y2 nx0 nx1 nx2 ny0 ny1 ny2 (-p0) p1
      = helmDLre sqrt cos sin exp c4pi x0 x1 x2 y0 y1 y2 nx0 nx1 nx2 ny0 ny1 ny2 p0 p1 ∧
    helmDLim sqrt cos sin exp c4pi x0 x1 x2 y0 y1 y2 nx0 nx1 nx2 ny0 ny1 ny2 (-p0) p1
      = -helmDLim sqrt cos sin exp c4pi x0 x1 x2 y0 y1 y2 nx0 nx1 nx2 ny0 ny1 ny2 p0 p1 ∧
    helmADLre sqrt cos sin exp c4pi x0 x1 x2 y0 y1 y2 nx0 nx1 nx2 ny0 ny1 ny2 (-p0) p1
      = helmADLre sqrt cos sin exp c4pi x0 x1 x2 y0 y1 y2 nx0 nx1 nx2 ny0 ny1 ny2 p0 p1 ∧
    helmADLim sqrt cos sin exp c4pi x0 x1 x2 y0 y1 y2 nx0 nx1 nx2 ny0 ny1 ny2 (-p0) p1
      = -helmADLim sqrt cos sin exp c4pi x0 x1 x2 y0 y1 y2 nx0 nx1 nx2 ny0 ny1 ny2 p0 p1 := by
  refine ⟨?_, ?_, ?_, ?_, ?_, ?_⟩ <;>
    simp only [helmSLre, helmSLim, helmDLre, helmDLim, helmADLre, helmADLim, helmFre, helmFim, r, dny, dnx, neg_mul,
      hcos, hsin] <;> ring

/-- **Purely imaginary wavenumber i·w is modified Helmholtz with ω = w** (single layer, double layer, adjoint double
layer; real part equals the modified kernel, imaginary part vanishes), given cos 0 = 1, sin 0 = 0. -/
theorem imag_wavenumber_is_modified (hcos0 : cos 0 = 1) (hsin0 : sin 0 = 0)
    (x0 x1 x2 y0 y1 y2 nx0 nx1 nx2 ny0 ny1 ny2 w q : K) :
    helmSLre sqrt cos sin exp c4pi x0 x1 x2 y0 y1 y2 nx0 nx1 nx2 ny0 ny1 ny2 0 w
      = modSL sqrt cos sin exp c4pi x0 x1 x2 y0 y1 y2 nx0 nx1 nx2 ny0 ny1 ny2 w q ∧
    helmSLim sqrt cos sin exp c4pi x0 x1 x2 y0 y1 y2 nx0 nx1 nx2 ny0 ny1 ny2 0 w = 0 ∧
    helmDLre sqrt cos sin exp c4pi x0 x1 x2 y0 y1 y2 nx0 nx1 nx2 ny0 ny1 ny2 0 w
      = modDL sqrt cos sin exp c4pi x0 x1 x2 y0 y1 y2 nx0 nx1 nx2 ny0 ny1 ny2 w q ∧
    helmDLim sqrt cos sin exp c4pi x0 x1 x2 y0 y1 y2 nx0 nx1 nx2 ny0 ny1 ny2 0 w = 0 ∧
    helmADLre sqrt cos sin exp c4pi x0 x1 x2 y0 y1 y2 nx0 nx1 nx2 ny0 ny1 ny2 0 w
      = modADL sqrt cos sin exp c4pi x0 x1 x2 y0 y1 y2 nx0 nx1 nx2 ny0 ny1 ny2 w q ∧
    helmADLim sqrt cos sin exp c4pi x0 x1 x2 y0 y1 y2 nx0 nx1 nx2 ny0 ny1 ny2 0 w = 0 := by
  refine ⟨?_, ?_, ?_, ?_, ?_, ?_⟩ <;>
    simp only [helmSLre, helmSLim, helmDLre, helmDLim, helmADLre, helmADLim, helmFre, helmFim, modSL, modDL, modADL,
      r, dny, dnx, zero_mul, hcos0, hsin0, mul_zero, zero_div, mul_one, sub_zero, add_zero, zero_add, neg_zero] <;> ring

/-- **The single layer kernel is symmetric** in its two points (Laplace, Helmholtz, modified Helmholtz) -/
theorem sl_kernel_symmetric (x0 x1 x2 y0 y1 y2 nx0 nx1 nx2 ny0 ny1 ny2 p0 p1 : K) :
    lapSL sqrt cos sin exp c4pi y0 y1 y2 x0 x1 x2 ny0 ny1 ny2 nx0 nx1 nx2 p0 p1
      = lapSL sqrt cos sin exp c4pi x0 x1 x2 y0 y1 y2 nx0 nx1 nx2 ny0 ny1 ny2 p0 p1 ∧
    helmSLre sqrt cos sin exp c4pi y0 y1 y2 x0 x1 x2 ny0 ny1 ny2 nx0 nx1 nx2 p0 p1
      = helmSLre sqrt cos sin exp c4pi x0 x1 x2 y0 y1 y2 nx0 nx1 nx2 ny0 ny1 ny2 p0 p1 ∧
    helmSLim sqrt cos sin exp c4pi y0 y1 y2 x0 x1 x2 ny0 ny1 ny2 nx0 nx1 nx2 p0 p1
      = helmSLim sqrt cos sin exp c4pi x0 x1 x2 y0 y1 y2 nx0 nx1 nx2 ny0 ny1 ny2 p0 p1 ∧
    modSL sqrt cos sin exp c4pi y0 y1 y2 x0 x1 x2 ny0 ny1 ny2 nx0 nx1 nx2 p0 p1
      = modSL sqrt cos sin exp c4pi x0 x1 x2 y0 y1 y2 nx0 nx1 nx2 ny0 ny1 ny2 p0 p1 := by
  have hr : r sqrt cos sin exp c4pi y0 y1 y2 x0 x1 x2 ny0 ny1 ny2 nx0 nx1 nx2 p0 p1
      = r sqrt cos sin exp c4pi x0 x1 x2 y0 y1 y2 nx0 nx1 nx2 ny0 ny1 ny2 p0 p1 := by
    simp only [r]; congr 1; ring
  refine ⟨?_, ?_, ?_, ?_⟩ <;> simp only [lapSL, helmSLre, helmSLim, modSL, hr]

/-- **The adjoint double layer kernel is the double layer kernel with the two points (and their normals) exchanged**:
`K'(x, y; n_x) = K(y, x; n_x)` — the reason why the adjoint double layer matrix is the transpose of the double layer
matrix with test and trial spaces exchanged (for the regular part and any rule that is symmetric under the exchange). -/
theorem adl_is_dl_transposed (x0 x1 x2 y0 y1 y2 nx0 nx1 nx2 ny0 ny1 ny2 p0 p1 : K) :
    lapADL sqrt cos sin exp c4pi x0 x1 x2 y0 y1 y2 nx0 nx1 nx2 ny0 ny1 ny2 p0 p1
      = lapDL sqrt cos sin exp c4pi y0 y1 y2 x0 x1 x2 ny0 ny1 ny2 nx0 nx1 nx2 p0 p1 ∧
    helmADLre sqrt cos sin exp c4pi x0 x1 x2 y0 y1 y2 nx0 nx1 nx2 ny0 ny1 ny2 p0 p1
      = helmDLre sqrt cos sin exp c4pi y0 y1 y2 x0 x1 x2 ny0 ny1 ny2 nx0 nx1 nx2 p0 p1 ∧
    helmADLim sqrt cos sin exp c4pi x0 x1 x2 y0 y1 y2 nx0 nx1 nx2 ny0 ny1 ny2 p0 p1
      = helmDLim sqrt cos sin exp c4pi y0 y1 y2 x0 x1 x2 ny0 ny1 ny2 nx0 nx1 nx2 p0 p1 ∧
    modADL sqrt cos sin exp c4pi x0 x1 x2 y0 y1 y2 nx0 nx1 nx2 ny0 ny1 ny2 p0 p1
      = modDL sqrt cos sin exp c4pi y0 y1 y2 x0 x1 x2 ny0 ny1 ny2 nx0 nx1 nx2 p0 p1 := by
  have hr : r sqrt cos sin exp c4pi y0 y1 y2 x0 x1 x2 ny0 ny1 ny2 nx0 nx1 nx2 p0 p1
      = r sqrt cos sin exp c4pi x0 x1 x2 y0 y1 y2 nx0 nx1 nx2 ny0 ny1 ny2 p0 p1 := by
    simp only [r]; congr 1; ring
  have hd : dny sqrt cos sin exp c4pi y0 y1 y2 x0 x1 x2 ny0 ny1 ny2 nx0 nx1 nx2 p0 p1
      = -dnx sqrt cos sin exp c4pi x0 x1 x2 y0 y1 y2 nx0 nx1 nx2 ny0 ny1 ny2 p0 p1 := by
    simp only [dny, dnx]; ring
  refine ⟨?_, ?_, ?_, ?_⟩ <;>
    simp only [lapADL, lapDL, helmADLre, helmADLim, helmDLre, helmDLim, helmFre, helmFim, helmSLre, helmSLim, modADL, modDL,
      modSL, hr, hd] <;> ring

end algebraic


/-! ### Matrix level (regular part), through the Galerkin specification -/

section matrix
open BemppVerif.Model.Asm BemppVerif.Lemmas
variable {R : Type} [CommRing R]

/-- **Transposition**: if the kernel of one operator is the kernel of another with the two points exchanged (as for the
adjoint double layer vs the double layer, `adl_is_dl_transposed`), and test/trial data are exchanged accordingly, the
regular part of its Galerkin matrix on `(T, S)` is the transpose of the other's on `(S, T)`. -/
theorem regular_part_transposed (d : RegData R) (T S : SpaceData R) (te tr : List Nat) (r c : Nat) :
    galerkin T S te tr
      (localReg ⟨d.nq, d.w, d.ieS, d.ieT, d.phiS, d.phiT, fun a p b q => d.K b q a p, fun a b => d.adjacent b a⟩) r c
      = galerkin S T tr te (localReg d) c r := by
  have h : localReg ⟨d.nq, d.w, d.ieS, d.ieT, d.phiS, d.phiT, fun a p b q => d.K b q a p, fun a b => d.adjacent b a⟩
      = fun τ σ i j => localReg d σ τ j i := by
    funext τ σ i j; exact localReg_transpose d τ σ i j
  rw [h]
  exact galerkin_transpose T S te tr (localReg d) r c

/-- **Sign / scaling of the kernel carries to the matrix**: multiplying every kernel value by `a` (e.g. `a = -1` for the
imaginary part under k ↦ -k̄) multiplies the regular part of the matrix by `a`; together with
`helmholtz_conj_symmetry` this is `A(-k̄) = conj A(k)` for the regular part (weights and basis functions are real). -/
theorem regular_part_scales_with_kernel (d : RegData R) (a : R) (T S : SpaceData R) (te tr : List Nat) (r c : Nat) :
    galerkin T S te tr (localReg { d with K := fun x y z w => a * d.K x y z w }) r c
      = a * galerkin T S te tr (localReg d) r c := by
  have h : localReg { d with K := fun x y z w => a * d.K x y z w } = fun τ σ i j => a * localReg d τ σ i j := by
    funext τ σ i j; exact localReg_smul_kernel d a τ σ i j
  rw [h]
  exact galerkin_smul T S te tr a (localReg d) r c

end matrix

/-! ### Small-wavenumber bounds (complex analysis) -/

open Complex in
/-- **Single layer**: for `r > 0` and complex `k` with `‖k‖ r ≤ 1`,
`‖e^{ikr}/(4πr) − 1/(4πr) − ik/(4π)‖ ≤ ‖k‖² r/(4π)`.
Integrated against non-negative weights and `|φ_a||φ_b|` (with `r ≤ D`) this is the entrywise bound
`|V_k − V_0 − (ik/4π) m mᵀ| ≤ |k|² D/(4π) m mᵀ` of the property. -/
theorem sl_small_k_kernel_bound (k : ℂ) (r c4pi : ℝ) (hr : 0 < r) (hc : 0 ≤ c4pi) (hk : ‖k‖ * r ≤ 1) :
    ‖(c4pi : ℂ) * Complex.exp (Complex.I * k * r) / r - (c4pi : ℂ) / r - Complex.I * k * c4pi‖
      ≤ ‖k‖ ^ 2 * r * c4pi := by
  have hz : ‖Complex.I * k * r‖ ≤ 1 := by
    rw [norm_mul, norm_mul, Complex.norm_I, one_mul, Complex.norm_real, Real.norm_of_nonneg hr.le]
    exact hk
  have hb := Complex.norm_exp_sub_one_sub_id_le hz
  have hrne : (r : ℂ) ≠ 0 := by exact_mod_cast hr.ne'
  have e : (c4pi : ℂ) * Complex.exp (Complex.I * k * r) / r - (c4pi : ℂ) / r - Complex.I * k * c4pi
      = (c4pi : ℂ) / r * (Complex.exp (Complex.I * k * r) - 1 - Complex.I * k * r) := by
    field_simp
  rw [e, norm_mul, norm_div, Complex.norm_real, Complex.norm_real, Real.norm_of_nonneg hc, Real.norm_of_nonneg hr.le]
  have hz2 : ‖Complex.I * k * r‖ ^ 2 = ‖k‖ ^ 2 * r ^ 2 := by
    rw [norm_mul, norm_mul, Complex.norm_I, one_mul, Complex.norm_real, Real.norm_of_nonneg hr.le, mul_pow]
  calc c4pi / r * ‖Complex.exp (Complex.I * k * r) - 1 - Complex.I * k * r‖
      ≤ c4pi / r * (‖k‖ ^ 2 * r ^ 2) := by
        apply mul_le_mul_of_nonneg_left _ (div_nonneg hc hr.le)
        rw [← hz2]; exact hb
    _ = ‖k‖ ^ 2 * r * c4pi := by field_simp

open Complex in
/-- **Double layer (partial constant)**: the radial factor of the normal derivative is `e^{ikr}(ikr − 1)/(4π r²)`; its
difference to the Laplace one is `[(1 − z)e^{z} − 1]·(−1)/(4π r²)` with `z = ikr`, and for `‖z‖ ≤ 1`
`‖(1 − z) e^z − 1‖ ≤ 3 ‖z‖²`.  The property states the entrywise bound with constant 1 (which needs the full series
`Σ (n−1)/n! = 1`); only the constant 3 is proved here (PARTIAL), the constant 1 is checked by the oracle. -/
theorem dl_small_k_factor_bound_partial (z : ℂ) (hz : ‖z‖ ≤ 1) :
    ‖(1 - z) * Complex.exp z - 1‖ ≤ 3 * ‖z‖ ^ 2 := by
  have h1 := Complex.norm_exp_sub_one_sub_id_le hz
  have h2 := Complex.norm_exp_sub_one_le hz
  have e : (1 - z) * Complex.exp z - 1 = (Complex.exp z - 1 - z) - z * (Complex.exp z - 1) := by ring
  rw [e]
  calc ‖(Complex.exp z - 1 - z) - z * (Complex.exp z - 1)‖
      ≤ ‖Complex.exp z - 1 - z‖ + ‖z * (Complex.exp z - 1)‖ := norm_sub_le _ _
    _ ≤ ‖z‖ ^ 2 + ‖z‖ * (2 * ‖z‖) := by
        rw [norm_mul]
        exact add_le_add h1 (mul_le_mul_of_nonneg_left h2 (norm_nonneg z))
    _ = 3 * ‖z‖ ^ 2 := by ring

end BemppVerif.C05
