/-
Property theorems about the constructor specification `Model/Ctor.lean` (used by C01, C02, C05, C06, C08).
The tie to the source is `Gen/CtorTable.lean` (regenerated on every run from descriptors recorded while calling
the real constructors): its theorems `ctor_*` state that every recorded descriptor equals `spec` of the call.
-/
import BemppVerif.Model.Ctor

namespace BemppVerif.Ctors
open BemppVerif.Model.Ctor

/-- **Imaginary wavenumbers are modified Helmholtz** (boundary and potential operators, every layer, every
`ω`): the Helmholtz constructor called with `k = iω` produces exactly the descriptor of the modified Helmholtz
constructor called with `ω`; the assemblers cannot tell the two calls apart. -/
theorem helmholtz_imag_is_modified (kind : Kind) (l : Layer) (w om kre' kim' : Int) (hk : kind ≠ .farField) :
    spec ⟨kind, .helmholtz, l, 0, w, om⟩ = spec ⟨kind, .modified, l, kre', kim', w⟩ := by
  simp [spec, hk]

/-- with `Re k ≠ 0` the Helmholtz constructors keep the Helmholtz kernels, pass `(Re k, Im k)` in this order and
mark the result complex -/
theorem helmholtz_keeps_complex_wavenumber (kind : Kind) (l : Layer) (kre kim om : Int) (h : kre ≠ 0) :
    (spec ⟨kind, .helmholtz, l, kre, kim, om⟩).options = [kre, kim] ∧
    (spec ⟨kind, .helmholtz, l, kre, kim, om⟩).isComplex = true ∧
    (spec ⟨kind, .helmholtz, l, kre, kim, om⟩).kernelType.family = .helmholtz := by
  cases kind <;> simp [spec, h, scalarDesc]

/-- far-field and Maxwell constructors never dispatch: the wavenumber is always handed over as `(Re k, Im k)` -/
theorem no_dispatch_far_field_maxwell (kind : Kind) (l : Layer) (kre kim om : Int) :
    (spec ⟨.farField, .helmholtz, l, kre, kim, om⟩).options = [kre, kim] ∧
    (spec ⟨kind, .maxwell, l, kre, kim, om⟩).options = [kre, kim] := by
  cases kind <;> simp [spec, scalarDesc, maxwellDesc]

/-- the three hypersingular constructors use the SINGLE-LAYER kernel of their family inside the dedicated
hypersingular assembly function (this is what C06's decomposition theorems are about) -/
theorem hypersingular_uses_single_layer_kernel (f : Family) (opts : List Int) :
    (scalarDesc .boundary f .hyp opts).kernelType = ⟨f, false, .sl⟩ ∧
    (scalarDesc .boundary f .hyp opts).assemblyType = .hypersingular f := by
  simp [scalarDesc]

/-- Maxwell operators of every kind use the Helmholtz single-layer kernel (its far-field variant for far fields);
potentials and far fields are vector valued (kernel dimension 3) -/
theorem maxwell_kernel_and_dimension (l : Layer) (opts : List Int) :
    (maxwellDesc .boundary l opts).kernelType = ⟨.helmholtz, false, .sl⟩ ∧
    (maxwellDesc .potential l opts).kernelType = ⟨.helmholtz, false, .sl⟩ ∧
    (maxwellDesc .farField l opts).kernelType = ⟨.helmholtz, true, .sl⟩ ∧
    (maxwellDesc .potential l opts).kernelDim = 3 ∧ (maxwellDesc .farField l opts).kernelDim = 3 := by
  simp [maxwellDesc]

/-- only boundary operators carry a singular part; Laplace and modified Helmholtz are real, Helmholtz and Maxwell
complex -/
theorem singular_part_and_dtype (c : Call) :
    (spec c).hasSingularPart = decide (c.kind = .boundary) ∧
    ((spec c).isComplex = true ↔
      (c.family = .maxwell ∨ (c.family = .helmholtz ∧ ¬ (c.kre = 0 ∧ c.kind ≠ .farField)))) := by
  obtain ⟨kind, fam, l, kre, kim, om⟩ := c
  cases fam <;> cases kind <;> by_cases h : kre = 0 <;> simp [spec, scalarDesc, maxwellDesc, h]

-- non-vacuity: concrete descriptors
example : (spec ⟨.potential, .helmholtz, .dl, 0, 150, 0⟩).identifier = ⟨.modified, false, .dl⟩ ∧
    (spec ⟨.potential, .helmholtz, .dl, 0, 150, 0⟩).options = [150] := by decide
example : (spec ⟨.boundary, .helmholtz, .hyp, 200, 75, 0⟩).assemblyType = .hypersingular .helmholtz ∧
    (spec ⟨.boundary, .helmholtz, .hyp, 200, 75, 0⟩).options = [200, 75] := by decide

end BemppVerif.Ctors
