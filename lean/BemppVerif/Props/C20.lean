/-
C20 — OpenCL and Numba backends define the same kernels and shape functions.

All per-kernel theorems are GENERATED on every run from both sources (see props/c20.py) into
`BemppVerif/Gen/C20Theorems.lean`:
  * `cl_eq_numba_<opencl function>_<branch>_s<slot>` : for all points, normals, wavenumber parameters and for any field
    with arbitrary functions sqrt/cos/sin/exp and any value of M_INV_4PI, the OpenCL function (every lane and both
    precisions of its class) equals the Numba kernel that `select_numba_kernels` / `select_cl_kernel` pair it with;
  * `cl_eq_fmm_helmholtz_gradient_*` : the OpenCL gradient kernel equals the target gradient of the FMM helper kernel;
  * `cl_shapeset_eq_*`, `selection_tables_agree`, `m_inv_4pi_double_same`, `m_inv_4pi_single_close`.
This file only re-exports them and adds a hand-written sanity statement.
-/
import BemppVerif.Gen.C20Theorems
import Mathlib.Tactic.NormNum

namespace BemppVerif.C20

/-- Non-vacuity / sanity: the statements are about non-trivial functions — the traced Laplace single layer kernel
at x=(0,0,0), y=(1,0,0) over ℚ with sqrt := id evaluates to c4pi (so the definitions are not constant zero). -/
example : BemppVerif.Gen.NumbaKernels.laplace_single_layer_regular_re (K := ℚ) id id id id 5 0 0 0 1 0 0 0 0 0 0 0 0 0 0 = 5 := by
  norm_num [BemppVerif.Gen.NumbaKernels.laplace_single_layer_regular_re]

end BemppVerif.C20
