/-
C17 — FMM-mode operators equal dense-mode ones given an exact far-field evaluator.
Property theorems only; helper lemmas live in BemppVerif/Lemmas/FmmSum.lean, FmmPipeline.lean.
-/
import BemppVerif.Model.Fmm
import BemppVerif.Lemmas.FmmPipeline

namespace BemppVerif.C17
open BemppVerif.Model.Fmm BemppVerif.Lemmas.FmmSum BemppVerif.Lemmas.FmmPipeline

variable {R : Type} [CommRing R]

/-! ### The matvec -/

/-- **FMM matvec = dense regular matvec.**  For every test/trial space data (any number of elements, any
supports, dof maps, multipliers, tabulated basis values, integration elements), every quadrature rule
(`npts` points, weights `w`), every kernel `K` given on pairs of point indices (values in any commutative
ring: real or complex, any Green's function or gradient component), every coefficient vector `x` and
every test dof `r`:

  `target_mapᵀ · (all-pairs(source_map·x) − near-field(source_map·x))  =  (dense regular matrix) · x`

provided the near-field neighbour lists are exactly the element pairs the dense regular assembler skips
(`near_field_is_adjacent_pairs`; for two different grids both are empty).  Adding the same
`singular_part @ x` to both sides gives `assembler="fmm"` = `assembler="dense"`; composing with the dof
transformation of a barycentric space on either side preserves the equality (`fmm_matvec_eq_dense_dof`). -/
theorem fmm_matvec_eq_dense (T S : Space R) (npts : Nat) (w : Nat → R) (K : Nat → Nat → R)
    (nbrs : Nat → List Nat) (adjacent : Nat → Nat → Bool) (x : Nat → R) (r : Nat)
    (hT : ∀ τ ∈ T.support, τ < T.nElems)
    (hS : S.support.Nodup) (hSb : ∀ σ ∈ S.support, σ < S.nElems)
    (near_field_is_adjacent_pairs : NearFieldIsAdjacentPairs nbrs adjacent T.nElems S.nElems) :
    fmmMatvec T S npts w K nbrs x r = denseRegularMatvec T S npts w K adjacent x r := by
  unfold fmmMatvec pointsToSpace denseRegularMatvec
  apply sumOver_congr
  intro τ hτ
  have hτn := hT τ hτ
  -- the corrected evaluator output at the points of τ, as a sum over the non-adjacent support elements
  have hc : ∀ p ∈ List.range npts,
      corrected K npts S.nElems nbrs (spaceToPoints S npts w x) (npts * τ + p)
        = sumOver S.support fun σ =>
            if adjacent τ σ = true then 0
            else sumOver (List.range npts) fun q => K (npts * τ + p) (npts * σ + q) *
              sumOver (List.range S.nshape) fun i =>
                S.basis σ i q * w q * S.ie σ * (S.mult σ i * x (S.l2g σ i)) := by
    intro p hp
    rw [corrected_eq K npts S.nElems nbrs _ τ p (List.mem_range.mp hp)
      (near_field_is_adjacent_pairs.nodup τ hτn) (near_field_is_adjacent_pairs.bounded τ hτn),
      sumOver_eq_range_ite S.support S.nElems hS hSb]
    apply sumOver_congr
    intro σ hσ
    have hiff := near_field_is_adjacent_pairs.iff_adjacent τ hτn σ (List.mem_range.mp hσ)
    by_cases hn : σ ∈ nbrs τ
    · have : adjacent τ σ = true := hiff.mp hn
      simp [hn, this]
    · have hna : ¬ adjacent τ σ = true := fun h => hn (hiff.mpr h)
      rw [if_neg hn, if_neg hna]
      by_cases hs : σ ∈ S.support
      · rw [if_pos hs]
        apply sumOver_congr
        intro q hq
        rw [spaceToPoints_at S npts w x hS σ q (List.mem_range.mp hq), if_pos hs]
      · rw [if_neg hs]
        refine (sumOver_congr _ _ (fun _ => (0 : R)) ?_).trans (sumOver_zero _)
        intro q hq
        rw [spaceToPoints_at S npts w x hS σ q (List.mem_range.mp hq), if_neg hs, mul_zero]
  -- left-hand side: pull the dof test out of the point sum
  have hL : ∀ j ∈ List.range T.nshape,
      (sumOver (List.range npts) fun p =>
        if T.l2g τ j = r then
          T.mult τ j * (T.basis τ j p * w p * T.ie τ *
            corrected K npts S.nElems nbrs (spaceToPoints S npts w x) (npts * τ + p))
        else 0)
      = if T.l2g τ j = r then
          sumOver S.support fun σ =>
            if adjacent τ σ = true then 0
            else sumOver (List.range S.nshape) fun i =>
              ((sumOver (List.range npts) fun p => sumOver (List.range npts) fun q =>
                  K (npts * τ + p) (npts * σ + q) * (w q * S.ie σ * T.ie τ * w p) * S.basis σ i q * T.basis τ j p)
                * T.mult τ j * S.mult σ i) * x (S.l2g σ i)
        else 0 := by
    intro j _
    rw [sumOver_ite_const]
    by_cases hj : T.l2g τ j = r
    · rw [if_pos hj, if_pos hj]
      have h1 : ∀ p ∈ List.range npts,
          T.mult τ j * (T.basis τ j p * w p * T.ie τ *
            corrected K npts S.nElems nbrs (spaceToPoints S npts w x) (npts * τ + p))
          = sumOver S.support fun σ =>
              if adjacent τ σ = true then 0
              else (T.mult τ j * (T.basis τ j p * w p * T.ie τ)) *
                sumOver (List.range npts) fun q => K (npts * τ + p) (npts * σ + q) *
                  sumOver (List.range S.nshape) fun i =>
                    S.basis σ i q * w q * S.ie σ * (S.mult σ i * x (S.l2g σ i)) := by
        intro p hp
        rw [hc p hp, ← mul_assoc, mul_sumOver]
        apply sumOver_congr
        intro σ _
        by_cases ha : adjacent τ σ = true
        · rw [if_pos ha, if_pos ha, mul_zero]
        · rw [if_neg ha, if_neg ha]
      rw [sumOver_congr _ _ _ h1, sumOver_comm]
      apply sumOver_congr
      intro σ _
      rw [sumOver_ite_const']
      by_cases ha : adjacent τ σ = true
      · rw [if_pos ha, if_pos ha]
      · rw [if_neg ha, if_neg ha,
          triple_sum (List.range npts) (List.range npts) (List.range S.nshape)
            (fun p => T.mult τ j * (T.basis τ j p * w p * T.ie τ))
            (fun p q => K (npts * τ + p) (npts * σ + q))
            (fun i q => S.basis σ i q * w q * S.ie σ * (S.mult σ i * x (S.l2g σ i)))]
        apply sumOver_congr
        intro i _
        rw [sumOver_mul, sumOver_mul, sumOver_mul]
        apply sumOver_congr
        intro p _
        rw [sumOver_mul, sumOver_mul, sumOver_mul]
        apply sumOver_congr
        intro q _
        ring
    · rw [if_neg hj, if_neg hj]
  rw [sumOver_congr _ _ _ hL]
  -- right-hand side: the same shape
  have hR : ∀ σ ∈ S.support,
      (if adjacent τ σ = true then (0 : R)
       else sumOver (List.range T.nshape) fun j => sumOver (List.range S.nshape) fun i =>
          if T.l2g τ j = r then
            ((sumOver (List.range npts) fun p => sumOver (List.range npts) fun q =>
                K (npts * τ + p) (npts * σ + q) * (w q * S.ie σ * T.ie τ * w p) * S.basis σ i q * T.basis τ j p)
              * T.mult τ j * S.mult σ i) * x (S.l2g σ i)
          else 0)
      = sumOver (List.range T.nshape) fun j =>
          if T.l2g τ j = r then
            (if adjacent τ σ = true then (0 : R)
             else sumOver (List.range S.nshape) fun i =>
              ((sumOver (List.range npts) fun p => sumOver (List.range npts) fun q =>
                  K (npts * τ + p) (npts * σ + q) * (w q * S.ie σ * T.ie τ * w p) * S.basis σ i q * T.basis τ j p)
                * T.mult τ j * S.mult σ i) * x (S.l2g σ i))
          else 0 := by
    intro σ _
    by_cases ha : adjacent τ σ = true
    · simp only [if_pos ha, ite_self, sumOver_zero]
    · simp only [if_neg ha]
      apply sumOver_congr
      intro j _
      rw [sumOver_ite_const]
  rw [sumOver_congr _ _ _ hR, sumOver_comm]
  apply sumOver_congr
  intro j _
  rw [sumOver_ite_const]

end BemppVerif.C17
