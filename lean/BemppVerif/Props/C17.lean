/-
C17 — FMM-mode operators equal dense-mode ones given an exact far-field evaluator.
Property theorems only; helper lemmas live in BemppVerif/Lemmas/FmmSum.lean, FmmPipeline.lean.
-/
import BemppVerif.Model.Fmm
import BemppVerif.Lemmas.FmmPipeline
import Mathlib.Tactic.IntervalCases

namespace BemppVerif.C17
open BemppVerif.Model.Fmm BemppVerif.Lemmas.FmmSum BemppVerif.Lemmas.FmmPipeline

variable {R : Type} [CommRing R]

/-! ### The matvec -/

/-- **FMM matvec = dense regular matvec.**  For every test/trial space data (any number of elements, any
supports, dof maps, multipliers, tabulated basis values, integration elements), every quadrature rule
(`npts` points, weights `w`), every kernel `K` given on pairs of point indices (values in any commutative
ring: real or complex, any Green's function or gradient component), every coefficient vector `x` and
every test dof `r`:

  `target_mapᵀ · (all-pairs(source_map·x) − near-field(source_map·x))  =  (dense regular matrix) · x`

provided the near-field neighbour lists are exactly the element pairs the dense regular assembler skips
(`near_field_is_adjacent_pairs`; for two different grids both are empty).  Adding the same
`singular_part @ x` to both sides gives `assembler="fmm"` = `assembler="dense"`; composing with the dof
transformation of a barycentric space on either side preserves the equality (`fmm_matvec_eq_dense_dof`). -/
theorem fmm_matvec_eq_dense (T S : Space R) (npts : Nat) (w : Nat → R) (K : Nat → Nat → R)
    (nbrs : Nat → List Nat) (adjacent : Nat → Nat → Bool) (x : Nat → R) (r : Nat)
    (hT : ∀ τ ∈ T.support, τ < T.nElems)
    (hS : S.support.Nodup) (hSb : ∀ σ ∈ S.support, σ < S.nElems)
    (near_field_is_adjacent_pairs : NearFieldIsAdjacentPairs nbrs adjacent T.nElems S.nElems) :
    fmmMatvec T S npts w K nbrs x r = denseRegularMatvec T S npts w K adjacent x r := by
  unfold fmmMatvec pointsToSpace denseRegularMatvec
  apply sumOver_congr
  intro τ hτ
  have hτn := hT τ hτ
  -- the corrected evaluator output at the points of τ, as a sum over the non-adjacent support elements
  have hc : ∀ p ∈ List.range npts,
      corrected K npts S.nElems nbrs (spaceToPoints S npts w x) (npts * τ + p)
        = sumOver S.support fun σ =>
            if adjacent τ σ = true then 0
            else sumOver (List.range npts) fun q => K (npts * τ + p) (npts * σ + q) *
              sumOver (List.range S.nshape) fun i =>
                S.basis σ i q * w q * S.ie σ * (S.mult σ i * x (S.l2g σ i)) := by
    intro p hp
    rw [corrected_eq K npts S.nElems nbrs _ τ p (List.mem_range.mp hp)
      (near_field_is_adjacent_pairs.nodup τ hτn) (near_field_is_adjacent_pairs.bounded τ hτn),
      sumOver_eq_range_ite S.support S.nElems hS hSb]
    apply sumOver_congr
    intro σ hσ
    have hiff := near_field_is_adjacent_pairs.iff_adjacent τ hτn σ (List.mem_range.mp hσ)
    by_cases hn : σ ∈ nbrs τ
    · have : adjacent τ σ = true := hiff.mp hn
      simp [hn, this]
    · have hna : ¬ adjacent τ σ = true := fun h => hn (hiff.mpr h)
      rw [if_neg hn, if_neg hna]
      by_cases hs : σ ∈ S.support
      · rw [if_pos hs]
        apply sumOver_congr
        intro q hq
        rw [spaceToPoints_at S npts w x hS σ q (List.mem_range.mp hq), if_pos hs]
      · rw [if_neg hs]
        refine (sumOver_congr _ _ (fun _ => (0 : R)) ?_).trans (sumOver_zero _)
        intro q hq
        rw [spaceToPoints_at S npts w x hS σ q (List.mem_range.mp hq), if_neg hs, mul_zero]
  -- left-hand side: pull the dof test out of the point sum
  have hL : ∀ j ∈ List.range T.nshape,
      (sumOver (List.range npts) fun p =>
        if T.l2g τ j = r then
          T.mult τ j * (T.basis τ j p * w p * T.ie τ *
            corrected K npts S.nElems nbrs (spaceToPoints S npts w x) (npts * τ + p))
        else 0)
      = if T.l2g τ j = r then
          sumOver S.support fun σ =>
            if adjacent τ σ = true then 0
            else sumOver (List.range S.nshape) fun i =>
              ((sumOver (List.range npts) fun p => sumOver (List.range npts) fun q =>
                  K (npts * τ + p) (npts * σ + q) * (w q * S.ie σ * T.ie τ * w p) * S.basis σ i q * T.basis τ j p)
                * T.mult τ j * S.mult σ i) * x (S.l2g σ i)
        else 0 := by
    intro j _
    rw [sumOver_ite_const]
    by_cases hj : T.l2g τ j = r
    · rw [if_pos hj, if_pos hj]
      have h1 : ∀ p ∈ List.range npts,
          T.mult τ j * (T.basis τ j p * w p * T.ie τ *
            corrected K npts S.nElems nbrs (spaceToPoints S npts w x) (npts * τ + p))
          = sumOver S.support fun σ =>
              if adjacent τ σ = true then 0
              else (T.mult τ j * (T.basis τ j p * w p * T.ie τ)) *
                sumOver (List.range npts) fun q => K (npts * τ + p) (npts * σ + q) *
                  sumOver (List.range S.nshape) fun i =>
                    S.basis σ i q * w q * S.ie σ * (S.mult σ i * x (S.l2g σ i)) := by
        intro p hp
        rw [hc p hp, ← mul_assoc, mul_sumOver]
        apply sumOver_congr
        intro σ _
        by_cases ha : adjacent τ σ = true
        · rw [if_pos ha, if_pos ha, mul_zero]
        · rw [if_neg ha, if_neg ha]
      rw [sumOver_congr _ _ _ h1, sumOver_comm]
      apply sumOver_congr
      intro σ _
      rw [sumOver_ite_const']
      by_cases ha : adjacent τ σ = true
      · rw [if_pos ha, if_pos ha]
      · rw [if_neg ha, if_neg ha,
          triple_sum (List.range npts) (List.range npts) (List.range S.nshape)
            (fun p => T.mult τ j * (T.basis τ j p * w p * T.ie τ))
            (fun p q => K (npts * τ + p) (npts * σ + q))
            (fun i q => S.basis σ i q * w q * S.ie σ * (S.mult σ i * x (S.l2g σ i)))]
        apply sumOver_congr
        intro i _
        rw [sumOver_mul, sumOver_mul, sumOver_mul]
        apply sumOver_congr
        intro p _
        rw [sumOver_mul, sumOver_mul, sumOver_mul]
        apply sumOver_congr
        intro q _
        ring
    · rw [if_neg hj, if_neg hj]
  rw [sumOver_congr _ _ _ hL]
  -- right-hand side: the same shape
  have hR : ∀ σ ∈ S.support,
      (if adjacent τ σ = true then (0 : R)
       else sumOver (List.range T.nshape) fun j => sumOver (List.range S.nshape) fun i =>
          if T.l2g τ j = r then
            ((sumOver (List.range npts) fun p => sumOver (List.range npts) fun q =>
                K (npts * τ + p) (npts * σ + q) * (w q * S.ie σ * T.ie τ * w p) * S.basis σ i q * T.basis τ j p)
              * T.mult τ j * S.mult σ i) * x (S.l2g σ i)
          else 0)
      = sumOver (List.range T.nshape) fun j =>
          if T.l2g τ j = r then
            (if adjacent τ σ = true then (0 : R)
             else sumOver (List.range S.nshape) fun i =>
              ((sumOver (List.range npts) fun p => sumOver (List.range npts) fun q =>
                  K (npts * τ + p) (npts * σ + q) * (w q * S.ie σ * T.ie τ * w p) * S.basis σ i q * T.basis τ j p)
                * T.mult τ j * S.mult σ i) * x (S.l2g σ i))
          else 0 := by
    intro σ _
    by_cases ha : adjacent τ σ = true
    · simp only [if_pos ha, ite_self, sumOver_zero]
    · simp only [if_neg ha]
      apply sumOver_congr
      intro j _
      rw [sumOver_ite_const]
  rw [sumOver_congr _ _ _ hR, sumOver_comm]
  apply sumOver_congr
  intro j _
  rw [sumOver_ite_const]

/-- The statement at the level of the operator: coefficient vectors of a barycentric space pass through
its dof transformation first (`pre`), the result through the transposed one (`post`, any function of the
grid-dof result), and `singular_part @ x` (`sing`, the same sparse matrix in both modes) is added. -/
theorem fmm_matvec_eq_dense_dof (T S : Space R) (npts : Nat) (w : Nat → R) (K : Nat → Nat → R)
    (nbrs : Nat → List Nat) (adjacent : Nat → Nat → Bool)
    (pre : (Nat → R) → Nat → R) (post : (Nat → R) → Nat → R) (sing : (Nat → R) → Nat → R) (x : Nat → R)
    (hT : ∀ τ ∈ T.support, τ < T.nElems)
    (hS : S.support.Nodup) (hSb : ∀ σ ∈ S.support, σ < S.nElems)
    (near_field_is_adjacent_pairs : NearFieldIsAdjacentPairs nbrs adjacent T.nElems S.nElems) :
    post (fun r => fmmMatvec T S npts w K nbrs (pre x) r + sing (pre x) r)
      = post (fun r => denseRegularMatvec T S npts w K adjacent (pre x) r + sing (pre x) r) := by
  congr 1
  funext r
  rw [fmm_matvec_eq_dense T S npts w K nbrs adjacent (pre x) r hT hS hSb near_field_is_adjacent_pairs]

/-- Two different grids: no near-field correction, the dense assembler skips nothing. -/
theorem fmm_matvec_eq_dense_two_grids (T S : Space R) (npts : Nat) (w : Nat → R) (K : Nat → Nat → R)
    (x : Nat → R) (r : Nat) (hT : ∀ τ ∈ T.support, τ < T.nElems)
    (hS : S.support.Nodup) (hSb : ∀ σ ∈ S.support, σ < S.nElems) :
    fmmMatvec T S npts w K (fun _ => []) x r = denseRegularMatvec T S npts w K (fun _ _ => false) x r :=
  fmm_matvec_eq_dense T S npts w K _ _ x r hT hS hSb
    ⟨fun _ _ => List.nodup_nil, fun _ _ _ h => by simp at h, fun _ _ _ _ => by simp⟩

/-- Potential operators with `assembler="fmm"`: the exact evaluator at arbitrary target points `T`
(no near-field correction) applied to the source map is the dense potential sum over the support elements,
shape functions and quadrature points. -/
theorem fmm_potential_eq_dense (S : Space R) (npts : Nat) (w : Nat → R) (K : Nat → Nat → R) (x : Nat → R)
    (T : Nat) (hS : S.support.Nodup) (hSb : ∀ σ ∈ S.support, σ < S.nElems) :
    evalAll K (npts * S.nElems) (spaceToPoints S npts w x) T
      = sumOver S.support fun σ => sumOver (List.range npts) fun q => K T (npts * σ + q) *
          sumOver (List.range S.nshape) fun i =>
            S.basis σ i q * w q * S.ie σ * (S.mult σ i * x (S.l2g σ i)) := by
  unfold evalAll
  rw [sumOver_range_mul, sumOver_eq_range_ite S.support S.nElems hS hSb]
  apply sumOver_congr
  intro σ _
  by_cases hs : σ ∈ S.support
  · rw [if_pos hs]
    apply sumOver_congr
    intro q hq
    rw [spaceToPoints_at S npts w x hS σ q (List.mem_range.mp hq), if_pos hs]
  · rw [if_neg hs]
    refine (sumOver_congr _ _ (fun _ => (0 : R)) ?_).trans (sumOver_zero _)
    intro q hq
    rw [spaceToPoints_at S npts w x hS σ q (List.mem_range.mp hq), if_neg hs, mul_zero]

/-! ### The sparse space-to-points maps -/

/-- **Point-map indexing, code as it stands, whole-grid spaces** (`support_elements = 0..n-1`, which
includes barycentric spaces on the refined grid).  `map_space_to_points_impl` succeeds; its triplets are,
in array order, `row = npts*e+q`, `column = nshape*pos+i`, `value = basis·weight·integration element`;
composed with `map_to_localised_space` it is the direct source map (rows `npts*e+q`, columns
`local2global[e,i]` with the multipliers), and the transposed composition is the direct target map.

FULL STATEMENT (false for the unchanged code, see `point_map_indexing_counterexample`; true for the code
patched by findings/proposed_c17.diff, see `point_map_indexing_patched`): the same for every support. -/
theorem point_map_indexing_partial (S : Space R) (npts : Nat) (w : Nat → R)
    (hwhole : S.support = List.range S.nElems) :
    pointMapImpl false S npts w
        = some (S.support.zipIdx.flatMap fun p => elemTriplets S npts w p.2 p.1) ∧
    (∀ x, mapToPointsImpl false S npts w x = some (spaceToPoints S npts w x)) ∧
    (∀ y, mapToPointsTImpl false S npts w y = some (pointsToSpace S npts w y)) := by
  have hok : pointMapImpl false S npts w
      = some (S.support.zipIdx.flatMap fun p => elemTriplets S npts w p.2 p.1) := by
    apply pointMapImpl_ok
    intro p hp
    have hlen := (List.mem_zipIdx (x := p.1) (i := p.2) hp).2.1
    have heq : p.1 = p.2 := by
      rw [hwhole] at hp
      exact zipIdx_range_eq S.nElems p hp
    simp only [slot, Bool.false_eq_true, if_false]
    omega
  refine ⟨hok, ?_, ?_⟩
  · intro x
    unfold mapToPointsImpl
    rw [hok, Option.map_some]
    congr 1
    funext P
    exact composed_eq S npts w x P
  · intro y
    unfold mapToPointsTImpl
    rw [hok, Option.map_some]
    congr 1
    funext r
    exact composedT_eq S npts w y r

/-- **Point-map indexing, patched code** (array blocks addressed by the position in `support_elements`):
for EVERY support (segments, arbitrary `support_elements`) the implementation succeeds and the composed
maps are the direct source / target maps. -/
theorem point_map_indexing_patched (S : Space R) (npts : Nat) (w : Nat → R) :
    pointMapImpl true S npts w
        = some (S.support.zipIdx.flatMap fun p => elemTriplets S npts w p.2 p.1) ∧
    (∀ x, mapToPointsImpl true S npts w x = some (spaceToPoints S npts w x)) ∧
    (∀ y, mapToPointsTImpl true S npts w y = some (pointsToSpace S npts w y)) := by
  have hok : pointMapImpl true S npts w
      = some (S.support.zipIdx.flatMap fun p => elemTriplets S npts w p.2 p.1) := by
    apply pointMapImpl_ok
    intro p hp
    have hlen := (List.mem_zipIdx (x := p.1) (i := p.2) hp).2.1
    simp only [slot, if_true]
    omega
  refine ⟨hok, ?_, ?_⟩
  · intro x
    unfold mapToPointsImpl
    rw [hok, Option.map_some]
    congr 1
    funext P
    exact composed_eq S npts w x P
  · intro y
    unfold mapToPointsTImpl
    rw [hok, Option.map_some]
    congr 1
    funext r
    exact composedT_eq S npts w y r

/-- witness: a grid with two elements, a one-function space supported on element 1 only -/
def segmentWitness : Space Int :=
  { nElems := 2, support := [1], nshape := 1, l2g := fun _ _ => 0, mult := fun _ _ => 1,
    basis := fun _ _ _ => 1, ie := fun _ => 1 }

/-- **The unchanged code fails on segment spaces**: on the witness the implementation raises (the block of
element 1 lies outside arrays sized for one support element) although the source map it should produce
is not zero (coefficient 1 ↦ value 1 at point 1), and the patched variant produces exactly that map. -/
theorem point_map_indexing_counterexample :
    pointMapImpl false segmentWitness 1 (fun _ => 1) = none ∧
    spaceToPoints segmentWitness 1 (fun _ => 1) (fun _ => 1) 1 = 1 ∧
    pointMapImpl true segmentWitness 1 (fun _ => 1) = some [⟨1, 0, 1⟩] := by
  decide

/-- **Transform index arrays** (`compute_p1_curl_transformation_impl`, `compute_rwg_basis_transform_impl`,
`compute_rwg_div_transform_impl`): on whole-grid spaces the rows the code writes (`npts*position+q`) are the
point rows of the element (`npts*element+q`).

FULL STATEMENT (false for the unchanged code, `transform_indexing_counterexample`): for every support. -/
theorem transform_indexing_partial (n npts : Nat) :
    transformIdxImpl false (List.range n) npts = transformIdxImpl true (List.range n) npts := by
  unfold transformIdxImpl
  apply flatMap_congr'
  intro p hp
  have := zipIdx_range_eq n p hp
  simp only [this, ite_self]

/-- on a segment the code puts the values of element 1 on the point rows of element 0 (silently) -/
theorem transform_indexing_counterexample :
    transformIdxImpl false [1] 2 = [(0, 0), (1, 0), (0, 1), (1, 1), (0, 2), (1, 2)] ∧
    transformIdxImpl true [1] 2 = [(2, 0), (3, 0), (2, 1), (3, 1), (2, 2), (3, 2)] := by
  decide

/-! ### Gradient-based operators -/

/-- **Double layer from the 4-component evaluator output.**  `g k` is component `1+k` of the evaluator
kernel (k-th component of the gradient of `G` with respect to the TARGET point), `gy k = -g k` the gradient
with respect to the source point (translation-invariant kernel).  The code's
`-(Σ_k evaluate(n_k·v)[:, 1+k])` is the corrected evaluator for the double-layer kernel
`Σ_k n_k(y) ∂G/∂y_k` — so `fmm_matvec_eq_dense` applies with that kernel.  A wrong sign, a wrong column or a
target normal in place of the source normal breaks the identity. -/
theorem dl_from_gradient (g gy : Nat → Nat → Nat → R) (n : Nat → Nat → R) (npts nSrcElems : Nat)
    (nbrs : Nat → List Nat) (v : Nat → R) (T : Nat) (hg : ∀ k T P, gy k T P = - g k T P) :
    dlFromGradient g n npts nSrcElems nbrs v T
      = corrected (fun T P => sumOver (List.range 3) fun k => n k P * gy k T P) npts nSrcElems nbrs v T := by
  unfold dlFromGradient corrected
  rw [evalAll_dl g gy n _ v T hg, nearField_dl g gy n npts nbrs v T hg, sumOver_sub]
  ring

/-- **Adjoint double layer**: `Σ_k evaluate(v)[:, 1+k] · n_k(x)` is the corrected evaluator for the kernel
`Σ_k n_k(x) ∂G/∂x_k` (target normal, target gradient, no sign change). -/
theorem adl_from_gradient (g : Nat → Nat → Nat → R) (nT : Nat → Nat → R) (npts nSrcElems : Nat)
    (nbrs : Nat → List Nat) (v : Nat → R) (T : Nat) :
    adlFromGradient g nT npts nSrcElems nbrs v T
      = corrected (fun T P => sumOver (List.range 3) fun k => nT k T * g k T P) npts nSrcElems nbrs v T := by
  unfold adlFromGradient corrected
  rw [evalAll_adl g nT _ v T, nearField_adl g nT npts nbrs v T, ← sumOver_sub]
  apply sumOver_congr
  intro k _
  ring

/-- FMM double layer matvec = dense regular matvec with the double-layer kernel. -/
theorem fmm_dl_eq_dense (T S : Space R) (npts : Nat) (w : Nat → R) (g gy : Nat → Nat → Nat → R)
    (n : Nat → Nat → R) (nbrs : Nat → List Nat) (adjacent : Nat → Nat → Bool) (x : Nat → R) (r : Nat)
    (hg : ∀ k T P, gy k T P = - g k T P)
    (hT : ∀ τ ∈ T.support, τ < T.nElems) (hS : S.support.Nodup) (hSb : ∀ σ ∈ S.support, σ < S.nElems)
    (near_field_is_adjacent_pairs : NearFieldIsAdjacentPairs nbrs adjacent T.nElems S.nElems) :
    pointsToSpace T npts w (dlFromGradient g n npts S.nElems nbrs (spaceToPoints S npts w x)) r
      = denseRegularMatvec T S npts w (fun T P => sumOver (List.range 3) fun k => n k P * gy k T P)
          adjacent x r := by
  rw [← fmm_matvec_eq_dense T S npts w _ nbrs adjacent x r hT hS hSb near_field_is_adjacent_pairs]
  unfold fmmMatvec
  congr 1
  funext P
  exact dl_from_gradient g gy n npts S.nElems nbrs _ P hg

/-- FMM adjoint double layer matvec = dense regular matvec with the adjoint double-layer kernel. -/
theorem fmm_adl_eq_dense (T S : Space R) (npts : Nat) (w : Nat → R) (g : Nat → Nat → Nat → R)
    (nT : Nat → Nat → R) (nbrs : Nat → List Nat) (adjacent : Nat → Nat → Bool) (x : Nat → R) (r : Nat)
    (hT : ∀ τ ∈ T.support, τ < T.nElems) (hS : S.support.Nodup) (hSb : ∀ σ ∈ S.support, σ < S.nElems)
    (near_field_is_adjacent_pairs : NearFieldIsAdjacentPairs nbrs adjacent T.nElems S.nElems) :
    pointsToSpace T npts w (adlFromGradient g nT npts S.nElems nbrs (spaceToPoints S npts w x)) r
      = denseRegularMatvec T S npts w (fun T P => sumOver (List.range 3) fun k => nT k T * g k T P)
          adjacent x r := by
  rw [← fmm_matvec_eq_dense T S npts w _ nbrs adjacent x r hT hS hSb near_field_is_adjacent_pairs]
  unfold fmmMatvec
  congr 1
  funext P
  exact adl_from_gradient g nT npts S.nElems nbrs _ P

/-! ### Non-vacuity -/

/-- two elements sharing dof 1 (a P1-like space with 2 local functions), 2 quadrature points -/
def exSpace : Space Int :=
  { nElems := 3, support := [0, 2], nshape := 2,
    l2g := fun e i => if e = 0 then i else if i = 0 then 1 else 2,
    mult := fun e _ => if e = 2 then -1 else 1,
    basis := fun e i q => (e + 1 : Int) * (i + 2) + q,
    ie := fun e => (e : Int) + 3 }

def exNbrs : Nat → List Nat := fun τ => if τ = 0 then [0, 1] else if τ = 1 then [0, 1, 2] else [1, 2]
def exAdj : Nat → Nat → Bool := fun τ σ => decide (τ = σ ∨ τ = 1 ∨ σ = 1)
def exK : Nat → Nat → Int := fun T P => (T : Int) * 7 - P * P + 1
def exX : Nat → Int := fun c => (c : Int) * c - 5

/-- the hypotheses of `fmm_matvec_eq_dense` are satisfiable on a segment space (support {0,2} of 3
elements) with a non-trivial adjacency, and both sides are a non-zero number there -/
example : (∀ τ ∈ exSpace.support, τ < exSpace.nElems) ∧ exSpace.support.Nodup ∧
    NearFieldIsAdjacentPairs exNbrs exAdj 3 3 ∧
    fmmMatvec exSpace exSpace 2 (fun q => (q : Int) + 1) exK exNbrs exX 1 = 544605 ∧
    denseRegularMatvec exSpace exSpace 2 (fun q => (q : Int) + 1) exK exAdj exX 1 = 544605 := by
  refine ⟨by decide, by decide, ⟨?_, ?_, ?_⟩, by decide, by decide⟩
  · intro τ h; interval_cases τ <;> decide
  · intro τ h; interval_cases τ <;> decide
  · intro τ h σ h'; interval_cases τ <;> interval_cases σ <;> decide

/-- without the self-pairs in the near-field list the identity fails on the same data (the hypothesis
`near_field_is_adjacent_pairs` is what excludes this) -/
example : fmmMatvec exSpace exSpace 2 (fun q => (q : Int) + 1) exK (fun τ => (exNbrs τ).filter (· ≠ τ)) exX 1
    ≠ denseRegularMatvec exSpace exSpace 2 (fun q => (q : Int) + 1) exK exAdj exX 1 := by
  decide

/-- `dl_from_gradient`: the hypothesis `gy = -g` is satisfiable with a non-zero gradient, and the sign
matters: with `gy = g` the two sides differ -/
example : (∀ k T P, (fun k T P => -((k : Int) + T - P)) k T P = - (fun k T P => (k : Int) + T - P) k T P) ∧
    dlFromGradient (fun k T P => (k : Int) + T - P) (fun k P => (k : Int) * P + 1) 2 2 (fun _ => [0]) exX 3
      ≠ corrected (fun T P => sumOver (List.range 3) fun k => ((k : Int) * P + 1) * ((k : Int) + T - P))
          2 2 (fun _ => [0]) exX 3 := by
  refine ⟨fun _ _ _ => rfl, by decide⟩

end BemppVerif.C17
