/-
C13 — Sparse operators, projections and integrals are exact L2 quantities (model level: local mass matrices).

Generated obligations `BemppVerif.AsmMatch.identity_matches_trace_*` tie `localIdentity` to the trace of the real sparse
assembler (`default_sparse_kernel` + `l2_identity_kernel` + the space's basis evaluator).  Here: closed forms for any
quadrature rule with the exact low-order moments (which the tabulated rules have, C12), positivity and area identities.
-/
import BemppVerif.Lemmas.AsmSpec
import Mathlib.Algebra.Order.Field.Basic
import Mathlib.Tactic.Linarith
import Mathlib.Tactic.Positivity
import Mathlib.Tactic.FieldSimp
import Mathlib.Tactic.IntervalCases
import Mathlib.Tactic.NormNum

namespace BemppVerif.C13
open BemppVerif.Model.Asm BemppVerif.Lemmas

/-- the three P1 reference shape functions -/
def p1 {K : Type} [Field K] (i : Nat) (u v : K) : K :=
  match i with
  | 0 => 1 - u - v
  | 1 => u
  | _ => v

/-- moment of a rule on the reference triangle: `Σ_q w_q u_q^a v_q^b` -/
def moment {K : Type} [Field K] (nq : Nat) (w u v : Nat → K) (a b : Nat) : K :=
  rsum nq fun q => w q * u q ^ a * v q ^ b

/-- a rule is exact to degree 2 on the reference triangle (the tabulated rules of order ≥ 2 are, to 1e-14: C12) -/
structure ExactDeg2 {K : Type} [Field K] (nq : Nat) (w u v : Nat → K) : Prop where
  m00 : moment nq w u v 0 0 = 1 / 2
  m10 : moment nq w u v 1 0 = 1 / 6
  m01 : moment nq w u v 0 1 = 1 / 6
  m20 : moment nq w u v 2 0 = 1 / 12
  m11 : moment nq w u v 1 1 = 1 / 24
  m02 : moment nq w u v 0 2 = 1 / 12

private theorem rsum_lin {K : Type} [Field K] (nq : Nat) (w u v : Nat → K) (c00 c10 c01 c20 c11 c02 : K) :
    (rsum nq fun q => w q * (c00 + c10 * u q + c01 * v q + c20 * u q ^ 2 + c11 * (u q * v q) + c02 * v q ^ 2))
      = c00 * moment nq w u v 0 0 + c10 * moment nq w u v 1 0 + c01 * moment nq w u v 0 1
        + c20 * moment nq w u v 2 0 + c11 * moment nq w u v 1 1 + c02 * moment nq w u v 0 2 := by
  unfold moment rsum
  simp only [← lsum_map_mul_left, ← lsum_map_add]
  apply lsum_map_congr; intro q _; ring

/-- **P1 × P1 local mass matrix**: for any rule exact to degree 2 the quadrature of `φ̂_i φ̂_j` over the reference
triangle is `(1 + δ_ij)/24`, hence the local identity matrix of the sparse assembler is `ie·(1+δ_ij)/24`. -/
theorem p1_local_mass {K : Type} [Field K] [CharZero K] (nq : Nat) (w u v : Nat → K) (h : ExactDeg2 nq w u v)
    (i j : Nat) (hi : i < 3) (hj : j < 3) :
    (rsum nq fun q => w q * (p1 i (u q) (v q) * p1 j (u q) (v q))) = if i = j then 1 / 12 else 1 / 24 := by
  have e := rsum_lin nq w u v
  rcases h with ⟨h00, h10, h01, h20, h11, h02⟩
  have step : ∀ (c00 c10 c01 c20 c11 c02 : K) (f : Nat → K),
      (∀ q, f q = c00 + c10 * u q + c01 * v q + c20 * u q ^ 2 + c11 * (u q * v q) + c02 * v q ^ 2) →
      (rsum nq fun q => w q * f q) = c00 / 2 + c10 / 6 + c01 / 6 + c20 / 12 + c11 / 24 + c02 / 12 := by
    intro c00 c10 c01 c20 c11 c02 f hf
    have h := e c00 c10 c01 c20 c11 c02
    rw [h00, h10, h01, h20, h11, h02] at h
    have : (rsum nq fun q => w q * f q)
        = rsum nq fun q => w q * (c00 + c10 * u q + c01 * v q + c20 * u q ^ 2 + c11 * (u q * v q) + c02 * v q ^ 2) := by
      unfold rsum; apply lsum_map_congr; intro q _; rw [hf q]
    rw [this, h]; ring
  interval_cases i <;> interval_cases j
  · rw [step 1 (-2) (-2) 1 2 1 _ (fun q => by simp only [p1]; ring)]; norm_num
  · rw [step 0 1 0 (-1) (-1) 0 _ (fun q => by simp only [p1]; ring)]; norm_num
  · rw [step 0 0 1 0 (-1) (-1) _ (fun q => by simp only [p1]; ring)]; norm_num
  · rw [step 0 1 0 (-1) (-1) 0 _ (fun q => by simp only [p1]; ring)]; norm_num
  · rw [step 0 0 0 1 0 0 _ (fun q => by simp only [p1]; ring)]; norm_num
  · rw [step 0 0 0 0 1 0 _ (fun q => by simp only [p1]; ring)]; norm_num
  · rw [step 0 0 1 0 (-1) (-1) _ (fun q => by simp only [p1]; ring)]; norm_num
  · rw [step 0 0 0 0 1 0 _ (fun q => by simp only [p1]; ring)]; norm_num
  · rw [step 0 0 0 0 0 1 _ (fun q => by simp only [p1]; ring)]; norm_num

/-- **Entries of the local mass matrix of a partition-of-unity basis sum to the element area** (`ie/2`):
`Σ_i Σ_j Σ_q w_q φ̂_i φ̂_j ie = ie · Σ_q w_q = ie/2`. -/
theorem p1_local_mass_sums_to_area {K : Type} [Field K] (nq : Nat) (w u v : Nat → K) (ie : K)
    (h00 : moment nq w u v 0 0 = 1 / 2) :
    (rsum 3 fun i => rsum 3 fun j => rsum nq fun q => p1 i (u q) (v q) * p1 j (u q) (v q) * w q * ie) = ie / 2 := by
  have : (rsum 3 fun i => rsum 3 fun j => rsum nq fun q => p1 i (u q) (v q) * p1 j (u q) (v q) * w q * ie)
      = ie * moment nq w u v 0 0 := by
    unfold moment rsum
    simp only [show List.range 3 = [0, 1, 2] from rfl, List.map_cons, List.map_nil, lsum_cons, lsum_nil, p1]
    simp only [← lsum_map_add, ← lsum_map_mul_left]
    rw [add_zero, add_zero, add_zero, add_zero]
    simp only [← lsum_map_add]
    apply lsum_map_congr; intro q _; ring
  rw [this, h00]; ring

/-- **Positive semi-definiteness by construction**: for non-negative weights and integration element,
`xᵀ M_loc x = ie · Σ_q w_q (Σ_i x_i φ_i(q))² ≥ 0` for the local identity matrix of equal test and trial bases. -/
theorem local_identity_psd {K : Type} [Field K] [LinearOrder K] [IsStrictOrderedRing K]
    (d : SparseData K) (e n : Nat) (x : Nat → K) (hw : ∀ q, 0 ≤ d.w q) (hie : 0 ≤ d.ie e) (hsame : d.valS = d.valT) :
    0 ≤ rsum n fun i => rsum n fun j => x i * localIdentity d e i j * x j := by
  have key : (rsum n fun i => rsum n fun j => x i * localIdentity d e i j * x j)
      = rsum d.nq fun q => d.w q * d.ie e * (rsum n fun i => x i * d.valT e i q) ^ 2 := by
    unfold localIdentity rsum
    rw [hsame]
    have h1 : ∀ i ∈ List.range n, lsum ((List.range n).map fun j =>
        x i * lsum ((List.range d.nq).map fun q => d.valT e i q * d.valT e j q * d.w q * d.ie e) * x j)
        = lsum ((List.range d.nq).map fun q => d.w q * d.ie e * (x i * d.valT e i q)
            * lsum ((List.range n).map fun j => x j * d.valT e j q)) := by
      intro i _
      simp only [← lsum_map_mul_left, ← lsum_map_mul_right]
      rw [lsum_comm]
      apply lsum_map_congr; intro q _
      apply lsum_map_congr; intro j _; ring
    rw [lsum_map_congr _ _ _ h1, lsum_comm]
    apply lsum_map_congr; intro q _
    rw [sq, ← lsum_map_mul_right, ← lsum_map_mul_left]
    apply lsum_map_congr; intro i _; ring
  rw [key]
  unfold rsum
  rw [lsum_eq_sum]
  apply List.sum_nonneg
  intro a ha
  simp only [List.mem_map, List.mem_range] at ha
  obtain ⟨q, _, rfl⟩ := ha
  exact mul_nonneg (mul_nonneg (hw q) hie) (sq_nonneg _)

/-- Non-vacuity of `ExactDeg2`: the 3-point edge-midpoint rule over ℚ. -/
example : ExactDeg2 (K := ℚ) 3 (fun _ => 1 / 6)
    (fun q => match q with | 0 => 1 / 2 | 1 => 0 | _ => 1 / 2) (fun q => match q with | 0 => 0 | 1 => 1 / 2 | _ => 1 / 2) := by
  constructor <;> simp [moment, rsum, lsum, List.range, List.range.loop] <;> norm_num

end BemppVerif.C13
