/-
C03 — equivariance of the geometric factors under rigid motions (complements `Props/C03.lean`).

Explicit polynomial statements over any commutative ring; certificates found by hand (cof(Q) = det(Q)·Q for Q Qᵀ = 1) and
checked by `linear_combination`.  File generated once by tools/gen_c03rot.py.
-/
import Mathlib.Tactic.Ring
import Mathlib.Tactic.LinearCombination

namespace BemppVerif.C03

variable {K : Type} [CommRing K]

/-- **Rotations** (`Q Qᵀ = 1`, `det Q = 1`): `(Qa) × (Qb) = Q (a × b)`.  For the code: when every vertex of a grid is rotated,
`normal_directions = cross(jacobian columns)` rotate with it, and so do the surface curls `n × ∇φ` and the RWG/SNC
relation `snc = n × rwg` (the Jacobian columns themselves and hence the Piola maps `J·φ̂/|det|` are linear in the vertices).
Together with `rotation_preserves_invariants` (distances, `(y−x)·n`, and all dot products of Jacobian columns — so the
integration elements `sqrt det(JᵀJ)` — are unchanged) every factor of every assembled entry is invariant or co-rotates. -/
theorem cross_rotation_equivariant (q00 q01 q02 q10 q11 q12 q20 q21 q22 a0 a1 a2 b0 b1 b2 : K)
    (h00 : q00 * q00 + q01 * q01 + q02 * q02 = 1)
    (h01 : q00 * q10 + q01 * q11 + q02 * q12 = 0)
    (h02 : q00 * q20 + q01 * q21 + q02 * q22 = 0)
    (h11 : q10 * q10 + q11 * q11 + q12 * q12 = 1)
    (h12 : q10 * q20 + q11 * q21 + q12 * q22 = 0)
    (h22 : q20 * q20 + q21 * q21 + q22 * q22 = 1)
    (hdet : q00 * (q11 * q22 - q12 * q21) + q01 * (q12 * q20 - q10 * q22) + q02 * (q10 * q21 - q11 * q20) = 1) :
    ((q10 * a0 + q11 * a1 + q12 * a2) * (q20 * b0 + q21 * b1 + q22 * b2) - (q20 * a0 + q21 * a1 + q22 * a2) * (q10 * b0 + q11 * b1 + q12 * b2)) = (q00 * (a1 * b2 - a2 * b1) + q01 * (a2 * b0 - a0 * b2) + q02 * (a0 * b1 - a1 * b0)) ∧
    ((q20 * a0 + q21 * a1 + q22 * a2) * (q00 * b0 + q01 * b1 + q02 * b2) - (q00 * a0 + q01 * a1 + q02 * a2) * (q20 * b0 + q21 * b1 + q22 * b2)) = (q10 * (a1 * b2 - a2 * b1) + q11 * (a2 * b0 - a0 * b2) + q12 * (a0 * b1 - a1 * b0)) ∧
    ((q00 * a0 + q01 * a1 + q02 * a2) * (q10 * b0 + q11 * b1 + q12 * b2) - (q10 * a0 + q11 * a1 + q12 * a2) * (q00 * b0 + q01 * b1 + q02 * b2)) = (q20 * (a1 * b2 - a2 * b1) + q21 * (a2 * b0 - a0 * b2) + q22 * (a0 * b1 - a1 * b0)) := by
  refine ⟨?_, ?_, ?_⟩
  · linear_combination ((a1 * b2 - a2 * b1) * q00 + (a2 * b0 - a0 * b2) * q01 + (a0 * b1 - a1 * b0) * q02) * hdet - ((q11 * q22 - q12 * q21) * (a1 * b2 - a2 * b1) + (q12 * q20 - q10 * q22) * (a2 * b0 - a0 * b2) + (q10 * q21 - q11 * q20) * (a0 * b1 - a1 * b0)) * h00 - ((q21 * q02 - q22 * q01) * (a1 * b2 - a2 * b1) + (q22 * q00 - q20 * q02) * (a2 * b0 - a0 * b2) + (q20 * q01 - q21 * q00) * (a0 * b1 - a1 * b0)) * h01 - ((q01 * q12 - q02 * q11) * (a1 * b2 - a2 * b1) + (q02 * q10 - q00 * q12) * (a2 * b0 - a0 * b2) + (q00 * q11 - q01 * q10) * (a0 * b1 - a1 * b0)) * h02
  · linear_combination ((a1 * b2 - a2 * b1) * q10 + (a2 * b0 - a0 * b2) * q11 + (a0 * b1 - a1 * b0) * q12) * hdet - ((q11 * q22 - q12 * q21) * (a1 * b2 - a2 * b1) + (q12 * q20 - q10 * q22) * (a2 * b0 - a0 * b2) + (q10 * q21 - q11 * q20) * (a0 * b1 - a1 * b0)) * h01 - ((q21 * q02 - q22 * q01) * (a1 * b2 - a2 * b1) + (q22 * q00 - q20 * q02) * (a2 * b0 - a0 * b2) + (q20 * q01 - q21 * q00) * (a0 * b1 - a1 * b0)) * h11 - ((q01 * q12 - q02 * q11) * (a1 * b2 - a2 * b1) + (q02 * q10 - q00 * q12) * (a2 * b0 - a0 * b2) + (q00 * q11 - q01 * q10) * (a0 * b1 - a1 * b0)) * h12
  · linear_combination ((a1 * b2 - a2 * b1) * q20 + (a2 * b0 - a0 * b2) * q21 + (a0 * b1 - a1 * b0) * q22) * hdet - ((q11 * q22 - q12 * q21) * (a1 * b2 - a2 * b1) + (q12 * q20 - q10 * q22) * (a2 * b0 - a0 * b2) + (q10 * q21 - q11 * q20) * (a0 * b1 - a1 * b0)) * h02 - ((q21 * q02 - q22 * q01) * (a1 * b2 - a2 * b1) + (q22 * q00 - q20 * q02) * (a2 * b0 - a0 * b2) + (q20 * q01 - q21 * q00) * (a0 * b1 - a1 * b0)) * h12 - ((q01 * q12 - q02 * q11) * (a1 * b2 - a2 * b1) + (q02 * q10 - q00 * q12) * (a2 * b0 - a0 * b2) + (q00 * q11 - q01 * q10) * (a0 * b1 - a1 * b0)) * h22

/-- **Reflections** (`Q Qᵀ = 1`, `det Q = −1`): `(Qa) × (Qb) = −Q (a × b)`: a mirrored grid with unchanged vertex order has its
normals pointing the other way relative to the mirrored geometry — the orientation flip of the property (operators with an
odd number of normals change sign unless `swapped_normals` compensates). -/
theorem cross_reflection_flips (q00 q01 q02 q10 q11 q12 q20 q21 q22 a0 a1 a2 b0 b1 b2 : K)
    (h00 : q00 * q00 + q01 * q01 + q02 * q02 = 1)
    (h01 : q00 * q10 + q01 * q11 + q02 * q12 = 0)
    (h02 : q00 * q20 + q01 * q21 + q02 * q22 = 0)
    (h11 : q10 * q10 + q11 * q11 + q12 * q12 = 1)
    (h12 : q10 * q20 + q11 * q21 + q12 * q22 = 0)
    (h22 : q20 * q20 + q21 * q21 + q22 * q22 = 1)
    (hdet : q00 * (q11 * q22 - q12 * q21) + q01 * (q12 * q20 - q10 * q22) + q02 * (q10 * q21 - q11 * q20) = -1) :
    ((q10 * a0 + q11 * a1 + q12 * a2) * (q20 * b0 + q21 * b1 + q22 * b2) - (q20 * a0 + q21 * a1 + q22 * a2) * (q10 * b0 + q11 * b1 + q12 * b2)) = -(q00 * (a1 * b2 - a2 * b1) + q01 * (a2 * b0 - a0 * b2) + q02 * (a0 * b1 - a1 * b0)) ∧
    ((q20 * a0 + q21 * a1 + q22 * a2) * (q00 * b0 + q01 * b1 + q02 * b2) - (q00 * a0 + q01 * a1 + q02 * a2) * (q20 * b0 + q21 * b1 + q22 * b2)) = -(q10 * (a1 * b2 - a2 * b1) + q11 * (a2 * b0 - a0 * b2) + q12 * (a0 * b1 - a1 * b0)) ∧
    ((q00 * a0 + q01 * a1 + q02 * a2) * (q10 * b0 + q11 * b1 + q12 * b2) - (q10 * a0 + q11 * a1 + q12 * a2) * (q00 * b0 + q01 * b1 + q02 * b2)) = -(q20 * (a1 * b2 - a2 * b1) + q21 * (a2 * b0 - a0 * b2) + q22 * (a0 * b1 - a1 * b0)) := by
  refine ⟨?_, ?_, ?_⟩
  · linear_combination ((a1 * b2 - a2 * b1) * q00 + (a2 * b0 - a0 * b2) * q01 + (a0 * b1 - a1 * b0) * q02) * hdet - ((q11 * q22 - q12 * q21) * (a1 * b2 - a2 * b1) + (q12 * q20 - q10 * q22) * (a2 * b0 - a0 * b2) + (q10 * q21 - q11 * q20) * (a0 * b1 - a1 * b0)) * h00 - ((q21 * q02 - q22 * q01) * (a1 * b2 - a2 * b1) + (q22 * q00 - q20 * q02) * (a2 * b0 - a0 * b2) + (q20 * q01 - q21 * q00) * (a0 * b1 - a1 * b0)) * h01 - ((q01 * q12 - q02 * q11) * (a1 * b2 - a2 * b1) + (q02 * q10 - q00 * q12) * (a2 * b0 - a0 * b2) + (q00 * q11 - q01 * q10) * (a0 * b1 - a1 * b0)) * h02
  · linear_combination ((a1 * b2 - a2 * b1) * q10 + (a2 * b0 - a0 * b2) * q11 + (a0 * b1 - a1 * b0) * q12) * hdet - ((q11 * q22 - q12 * q21) * (a1 * b2 - a2 * b1) + (q12 * q20 - q10 * q22) * (a2 * b0 - a0 * b2) + (q10 * q21 - q11 * q20) * (a0 * b1 - a1 * b0)) * h01 - ((q21 * q02 - q22 * q01) * (a1 * b2 - a2 * b1) + (q22 * q00 - q20 * q02) * (a2 * b0 - a0 * b2) + (q20 * q01 - q21 * q00) * (a0 * b1 - a1 * b0)) * h11 - ((q01 * q12 - q02 * q11) * (a1 * b2 - a2 * b1) + (q02 * q10 - q00 * q12) * (a2 * b0 - a0 * b2) + (q00 * q11 - q01 * q10) * (a0 * b1 - a1 * b0)) * h12
  · linear_combination ((a1 * b2 - a2 * b1) * q20 + (a2 * b0 - a0 * b2) * q21 + (a0 * b1 - a1 * b0) * q22) * hdet - ((q11 * q22 - q12 * q21) * (a1 * b2 - a2 * b1) + (q12 * q20 - q10 * q22) * (a2 * b0 - a0 * b2) + (q10 * q21 - q11 * q20) * (a0 * b1 - a1 * b0)) * h02 - ((q21 * q02 - q22 * q01) * (a1 * b2 - a2 * b1) + (q22 * q00 - q20 * q02) * (a2 * b0 - a0 * b2) + (q20 * q01 - q21 * q00) * (a0 * b1 - a1 * b0)) * h12 - ((q01 * q12 - q02 * q11) * (a1 * b2 - a2 * b1) + (q02 * q10 - q00 * q12) * (a2 * b0 - a0 * b2) + (q00 * q11 - q01 * q10) * (a0 * b1 - a1 * b0)) * h22

/-- the Jacobian columns `v1 − v0`, `v2 − v0` (`jacobians` in `grid.py`) of a rotated and translated triangle are the rotated
columns: `Q v1 + t − (Q v0 + t) = Q (v1 − v0)`, componentwise. -/
theorem jacobian_columns_corotate (q0 q1 q2 t v00 v01 v02 v10 v11 v12 : K) :
    (q0 * v10 + q1 * v11 + q2 * v12 + t) - (q0 * v00 + q1 * v01 + q2 * v02 + t)
      = q0 * (v10 - v00) + q1 * (v11 - v01) + q2 * (v12 - v02) := by ring

/-! ### Non-vacuity: the quarter turn about the z axis is a rotation, the mirror `z ↦ −z` a reflection (over ℤ), and the
conclusions are the concrete cross products -/

example := cross_rotation_equivariant (K := ℤ) 0 (-1) 0 1 0 0 0 0 1 1 2 3 (-1) 0 2
  (by decide) (by decide) (by decide) (by decide) (by decide) (by decide) (by decide)

example := cross_reflection_flips (K := ℤ) 1 0 0 0 1 0 0 0 (-1) 1 2 3 (-1) 0 2
  (by decide) (by decide) (by decide) (by decide) (by decide) (by decide) (by decide)

end BemppVerif.C03
