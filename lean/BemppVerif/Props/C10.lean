/-
C10 — Barycentric and dual-grid spaces represent the functions they claim to.
Property theorems only (the finite table theorems are in Props/C10Tables.lean); helper lemmas live in BemppVerif/Lemmas/BaryAffine.lean, the model in
BemppVerif/Model/Bary.lean, the tables in BemppVerif/Gen/BaryTables.lean (regenerated from /repo on every run).

Reading guide.  An element `e` of the coarse grid has reference coordinates `ξ`; its barycentric refinement
consists of the six sub-triangles `6 e + s` whose local vertices `k = 0,1,2` are, in the reference
coordinates of `e`, the points `subVertex s k` (read off `grid.py`).  A point with reference coordinates
`η = (x, y)` of sub-triangle `s` is the point `ξ_s(η) = triMap (subP s 0) (subP s 1) (subP s 2) (x, y)` of `e`.
The local dof `3 s + k` of the barycentric space is shape function `k` of sub-triangle `s`.
-/
import BemppVerif.Model.Bary
import BemppVerif.Props.C10Tables
import BemppVerif.Lemmas.BaryAffine
import Mathlib.Tactic.IntervalCases

namespace BemppVerif.C10
open BemppVerif.Model.Bary BemppVerif.Gen.BaryTables BemppVerif.Lemmas.BaryAffine

/-! ### P1 -/

/-- hence, for every coefficient triple `c` of a coarse element and every point `η = (x, y)` of every
sub-triangle `s`, the coarse function `Σ_i c_i φ̂_i(ξ_s(η))` equals the function of the barycentric space with
the coefficients `Σ_i c_i coeffs[i][s][k]` that `generate_p1_map` produces (over every field of characteristic 0). -/
theorem p1_bary_represents {K : Type} [Field K] [CharZero K] (c : Nat → K) (s : Nat) (hs : s < 6) (x y : K) :
    sum3 (fun i => c i * p1G i (triMap (subP s 0) (subP s 1) (subP s 2) (x, y)))
      = sum3 (fun k => sum3 (fun i => c i * ((tab p1Coeffs i s k : Rat) : K)) * p1G k (x, y)) := by
  have h := p1_bary_table_correct.2
  simp only [sum3, subP, p1_interp, p1G_cast]
  rw [← h 0 (by decide) s hs 0 (by decide), ← h 0 (by decide) s hs 1 (by decide), ← h 0 (by decide) s hs 2 (by decide),
    ← h 1 (by decide) s hs 0 (by decide), ← h 1 (by decide) s hs 1 (by decide), ← h 1 (by decide) s hs 2 (by decide),
    ← h 2 (by decide) s hs 0 (by decide), ← h 2 (by decide) s hs 1 (by decide), ← h 2 (by decide) s hs 2 (by decide)]
  simp [p1G]
  ring

/-! ### RWG and SNC -/

/-- RWG: on sub-triangle `s` the coarse basis function `i` (as `_numba_rwg0_evaluate` computes it on the coarse
element with Jacobian columns `ja jb`, integration element `A`, edge length `outer_edges[i]`, multiplier `m`)
equals, at every point, the combination of the three fine basis functions (as the same evaluator computes them
on the sub-triangle: Jacobian `J ∘ M_s`, integration element `A · det M_s`, the sub-triangle's own edge lengths,
multiplier 1) with exactly the coefficients `m · coeffs[i][s][k] · outer_edges[i] / dof_mult[s][k]` that
`generate_rwg0_map` and `map_to_localised_space` produce.  The nine lengths `L d` are arbitrary non-zero field
elements (only `|r·v| = |r|·|v|` for parallel segments is used, through `rwg_dof_mult_parallel`). -/
theorem rwg_bary_table_correct {K : Type} [Field K] [CharZero K] (ja jb : V3 K) (A m : K) (hA : A ≠ 0)
    (L : Nat → K) (hL : ∀ d, L d ≠ 0) (i s : Nat) (hi : i < 3) (hs : s < 6) (x y : K) :
    rwgEval ja jb A (L (outerEdges.getD i 99)) m i (triMap (subP s 0) (subP s 1) (subP s 2) (x, y))
      = sum3w fun k => smul3 (m * mapEntry (fun q : Rat => (q : K)) rwgCoeffs L i s k)
          (rwgEval (applyJ ja jb (sub2 (subP s 1) (subP s 0))) (applyJ ja jb (sub2 (subP s 2) (subP s 0)))
            (A * ((subDet s : Rat) : K)) (fineLen (fun q : Rat => (q : K)) rwgLocalCoords rwgEvalEdges L s k) 1 k (x, y)) := by
  have hd : subDet s ≠ 0 := by rw [bary_subtriangles.2.1 s hs]; decide +kernel
  exact piola_3d rwgCoeffs rwgLocalCoords rwgEvalEdges i s (rwg_bary_vertex_identity.2 i hi s hs) hd ja jb A m hA L hL x y

/-- SNC: the same with `normal × ·` on both sides (`_numba_snc0_evaluate`; a sub-triangle has the normal and the
normal multiplier of its parent, `bary_subtriangles`), for the tables of `snc0_barycentric_function_space`. -/
theorem snc_bary_table_correct {K : Type} [Field K] [CharZero K] (n ja jb : V3 K) (A m : K) (hA : A ≠ 0)
    (L : Nat → K) (hL : ∀ d, L d ≠ 0) (i s : Nat) (hi : i < 3) (hs : s < 6) (x y : K) :
    sncEval n ja jb A (L (outerEdges.getD i 99)) m i (triMap (subP s 0) (subP s 1) (subP s 2) (x, y))
      = sum3w fun k => smul3 (m * mapEntry (fun q : Rat => (q : K)) sncCoeffs L i s k)
          (sncEval n (applyJ ja jb (sub2 (subP s 1) (subP s 0))) (applyJ ja jb (sub2 (subP s 2) (subP s 0)))
            (A * ((subDet s : Rat) : K)) (fineLen (fun q : Rat => (q : K)) sncLocalCoords sncEvalEdges L s k) 1 k (x, y)) := by
  have hd : subDet s ≠ 0 := by rw [bary_subtriangles.2.1 s hs]; decide +kernel
  unfold sncEval
  rw [piola_3d sncCoeffs sncLocalCoords sncEvalEdges i s (snc_bary_vertex_identity.2 i hi s hs) hd ja jb A m hA L hL x y,
    cross_sum3w]
  simp only [cross_smul3]

/-! ### mixed mass matrices -/

/-- `l2_identity_kernel` on one sub-triangle: for two functions that are affine in the sub-triangle's reference
coordinates (every P0/P1 shape function, every Cartesian component of an RWG/SNC function, and — by
`p1_bary_represents`, `rwg_bary_table_correct`, `snc_bary_table_correct` — the restriction of every coarse
P1/RWG/SNC function) and a rule whose monomial sums up to degree 2 are the exact moments of the reference
triangle (C12 `tri_exact` for order ≥ 2), the quadrature sum times the integration element is the exact
integral of the product (written with the exact moments `1/2, 1/6, 1/6, 1/12, 1/24, 1/12`).

PARTIAL.  Full statement (not a theorem here): for every grid and every pair of a primal space (DP0, P1, RWG, SNC) and
a dual / Buffa-Christiansen space (DUAL0, DUAL1, BC, RBC), the matrix returned by the sparse assembler equals
`∫ test_r · trial_c` for all global dofs.  Missing: the sum over the sub-triangles through `local2global` and the two
`dof_transformation` matrices (C13 `sparse_refines_spec`), exactness of the tabulated rule to rounding only (C12), and
the BC/RBC coefficient patterns (not modelled; oracle only). -/
theorem mixed_mass_exact_partial {K : Type} [Field K] [CharZero K] (rule : List (K × K × K))
    (hex : ∀ a b, a + b ≤ 2 → ruleMoment rule a b = ((refMoment a b : Rat) : K)) (f g : K × K × K) (A : K) :
    (rule.map fun q => aff f (q.1, q.2.1) * aff g (q.1, q.2.1) * q.2.2 * A).sum
      = A * (f.1 * g.1 / 2 + (f.1 * g.2.1 + f.2.1 * g.1) / 6 + (f.1 * g.2.2 + f.2.2 * g.1) / 6
          + f.2.1 * g.2.1 / 12 + (f.2.1 * g.2.2 + f.2.2 * g.2.1) / 24 + f.2.2 * g.2.2 / 12) := by
  rw [quad_affine_product, hex 0 0 (by decide), hex 1 0 (by decide), hex 0 1 (by decide), hex 2 0 (by decide),
    hex 1 1 (by decide), hex 0 2 (by decide)]
  have m00 : ((refMoment 0 0 : Rat) : K) = 1 / 2 := by simp [refMoment]
  have m10 : ((refMoment 1 0 : Rat) : K) = 1 / 6 := by simp [refMoment]
  have m01 : ((refMoment 0 1 : Rat) : K) = 1 / 6 := by simp [refMoment]
  have m20 : ((refMoment 2 0 : Rat) : K) = 1 / 12 := by simp [refMoment]
  have m11 : ((refMoment 1 1 : Rat) : K) = 1 / 24 := by simp [refMoment]
  have m02 : ((refMoment 0 2 : Rat) : K) = 1 / 12 := by simp [refMoment]
  rw [m00, m10, m01, m20, m11, m02]
  ring

/-! ### non-vacuity -/

/-- the hypotheses of `rwg_bary_table_correct` are satisfiable and its statement is not `0 = 0`: a concrete
instance over `ℚ` with a non-degenerate Jacobian, all lengths 2, evaluates to a non-zero vector. -/
example : rwgEval ((1 : Rat), 0, 0) (0, 1, 0) 1 2 1 0 (triMap (subVertex 2 0) (subVertex 2 1) (subVertex 2 2) (1 / 4, 1 / 4))
    ≠ (0, 0, 0) := by decide +kernel

/-- a rule that satisfies the hypothesis of `mixed_mass_exact_partial`: the three edge midpoints with weights 1/6. -/
example : ∀ a b, a + b ≤ 2 →
    ruleMoment ([(1 / 2, 0, 1 / 6), (1 / 2, 1 / 2, 1 / 6), (0, 1 / 2, 1 / 6)] : List (ℚ × ℚ × ℚ)) a b
      = ((refMoment a b : Rat) : ℚ) := by
  intro a b h
  have ha : a ≤ 2 := by omega
  have hb : b ≤ 2 := by omega
  interval_cases a <;> interval_cases b <;> simp_all [ruleMoment, refMoment] <;> norm_num

/-- the P1 tables are not all equal: sub-triangle 0 and 3 carry different values of φ̂_0 (a shifted table is wrong). -/
example : tab p1Coeffs 0 0 0 = 1 ∧ tab p1Coeffs 0 3 0 = 0 := by decide +kernel

end BemppVerif.C10
