/-
C14 — Operator, grid-function and potential algebra is coherent.
Property theorems only; models in `Model/Alg.lean`, helper lemmas in `Lemmas/Alg*.lean`.

`eval` is the model of what the Python expression does (lazy sum / scaled / product operators, class dispatch of the
discrete operators, by-parts application of real operators to complex vectors, blocked slicing, primal/dual grid
functions, exceptions); `typecheck`/`check` are the compatibility rules without numbers; `denote` is the plain
matrix / vector expression.  All theorems are for expression trees of arbitrary depth and arbitrary pools.
-/
import BemppVerif.Lemmas.AlgSound6

namespace BemppVerif.C14
open BemppVerif.Model.Alg BemppVerif.Lemmas.AlgMat BemppVerif.Lemmas.AlgType BemppVerif.Lemmas.AlgSound

set_option linter.unusedSectionVars false

/-! ### accept / reject is decided by the types -/

section Typing
variable {R : Type} [Zero R] [One R] [Add R] [Mul R] [Neg R] [CParts R]

/-- The interpreter raises exactly when the type checker does, with the same exception class, and otherwise returns a
value of the computed type: which of domain / range / dual are compared, what is a TypeError, what an AttributeError,
never depends on the numbers. -/
theorem eval_type (p : Pool R) (e : Expr R) : (eval p e).map Obj.ty = typecheck p e :=
  BemppVerif.Lemmas.AlgType.eval_type p e

/-- A whole program (evaluate, force the weak form, read out) returns numbers exactly when it passes `check`. -/
theorem check_iff_run (p : Pool R) (probe : Nat → Vec R) (e : Expr R) :
    (run p probe e).map (fun _ => ()) = check p e :=
  run_check p probe e

/-- Every tree that violates a compatibility rule is rejected with that rule's exception — never numbers. -/
theorem illtyped_rejected (p : Pool R) (probe : Nat → Vec R) (e : Expr R) (err : Err) (h : check p e = .error err) :
    run p probe e = .error err := by
  have := check_iff_run p probe e
  rw [h] at this
  cases hr : run p probe e with
  | error e' => rw [hr] at this; cases this; rfl
  | ok o => rw [hr] at this; cases this

/-- Every tree that passes the check evaluates without error. -/
theorem welltyped_accepted (p : Pool R) (probe : Nat → Vec R) (e : Expr R) (h : check p e = .ok ()) :
    ∃ o, run p probe e = .ok o := by
  have := check_iff_run p probe e
  rw [h] at this
  cases hr : run p probe e with
  | error e' => rw [hr] at this; cases this
  | ok o => exact ⟨o, rfl⟩

end Typing

/-! ### values are the denotations -/

section Sound
variable {R : Type} [CommRing R] [CParts R]

/-- Soundness, by structural induction over the tree (unbounded depth): whatever the interpreter returns is related to
the plain matrix / vector expression — the weak form of an operator expression has the denoted dense matrix, a grid
function has the denoted coefficient vector (in whichever representation it is stored), a potential operator acts as
the denoted matrix, a blocked operator has the denoted block matrix. -/
theorem eval_sound (hp : LawfulParts R) (p : Pool R) (hwf : p.wfb = true) (e : Expr R) (v : Obj R)
    (h : eval p e = .ok v) : Rel p v (denote p e) :=
  eval_rel hp (poolOk_of_wfb hwf) e v h

/-- Top-level statement: every program that returns numbers returns the numbers of its denotation — `to_dense()` of
the forced weak form is the denoted matrix AND its `matvec` on the (complex) probe is that matrix times the probe,
`.coefficients` is the denoted coefficient vector, potential operators applied to the probe give the denoted values. -/
theorem run_sound (hp : LawfulParts R) (p : Pool R) (hwf : p.wfb = true) (probe : Nat → Vec R)
    (hprobe : ∀ n, (probe n).length = n) (e : Expr R) (o : Obs R) (h : run p probe e = .ok o) :
    ObsMatches p probe o (denote p e) := by
  unfold run at h
  obtain ⟨v, hv, h⟩ := bind_eq_ok h
  have hrel := eval_sound hp p hwf e v hv
  generalize denote p e = d at hrel
  cases v <;> cases d <;> simp only [Rel] at hrel <;> simp only [observe] at h
  case scalar.sc => cases h; exact hrel
  case bop.op =>
    obtain ⟨D, hD, rfl⟩ := map_eq_ok h
    obtain ⟨w1, _, _, w4⟩ := hrel.2.2.2 D hD
    exact ⟨w4, by rw [matvec_eq hp w1 _ _ (hprobe _), w4]⟩
  case blk.blk =>
    obtain ⟨D, hD, rfl⟩ := map_eq_ok h
    obtain ⟨w1, _, _, w4⟩ := hrel.2.2.2.2.1 D hD
    exact ⟨w4, by rw [matvec_eq hp w1 _ _ (hprobe _), w4]⟩
  case dop.dmat =>
    cases h
    exact ⟨hrel.2.2.2, by rw [matvec_eq hp hrel.1 _ _ (hprobe _), hrel.2.2.2]⟩
  case gf.fn =>
    obtain ⟨a, ha, rfl⟩ := map_eq_ok h
    simp only [obsGf] at ha
    obtain ⟨c, hc, ha⟩ := bind_eq_ok ha
    cases ha
    exact ⟨hrel.1, hrel.2.2 c hc⟩
  case gfl.fns =>
    obtain ⟨a, ha, rfl⟩ := map_eq_ok h
    exact obsGfs_matches hrel ha
  case pot.pot =>
    cases h
    simp only [ObsMatches]
    rw [hrel.2, hrel.1]
  case arr.arr => cases h; exact hrel

/-- `to_dense` agrees with `matvec`: for the forced weak form `D` of ANY operator expression (sum, scaled, product,
blocked, ...) and every vector of the right length, real or complex dtype. -/
theorem to_dense_matvec_agree (hp : LawfulParts R) (p : Pool R) (hwf : p.wfb = true) (e : Expr R) (D : DOp R)
    (h : (eval p e >>= weakV) = .ok (.dop D)) (xc : Bool) (x : Vec R) (hx : x.length = D.cols) :
    D.matvec xc x = mulVec D.toDense x := by
  obtain ⟨v, hv, hw⟩ := bind_eq_ok h
  have hrel := weakV_rel (eval_sound hp p hwf e v hv) hw
  generalize weakD p (denote p e) = d at hrel
  cases d <;> simp only [Rel] at hrel
  exact matvec_eq hp hrel.1 xc x hx

/-- The product of two operators is weak form × inverse mass × weak form: as a map on vectors,
`(A * B).weak_form() x = W_A (M⁻¹ (W_B x))` with `M⁻¹` the inverse mass matrix of (range, dual) of the RIGHT factor. -/
theorem product_is_weak_invmass_weak (hp : LawfulParts R) (p : Pool R) (hwf : p.wfb = true) (a b : Expr R)
    (c : BOpV R) (D : DOp R) (h : eval p (.mul a b) = .ok (.bop c)) (hD : c.wf = .ok D)
    (d1 r1 u1 d2 r2 u2 : Nat) (A B : Mat R) (ha : denote p a = .op d1 r1 u1 A) (hb : denote p b = .op d2 r2 u2 B)
    (x : Vec R) :
    mulVec D.toDense x = mulVec A (mulVec (minvD p r2 u2) (mulVec B x)) ∧
      c.dom = d2 ∧ c.ran = r1 ∧ c.dual = u1 := by
  have hrel := eval_sound hp p hwf _ _ h
  simp only [denote, ha, hb, mulD, Rel] at hrel
  obtain ⟨h1, h2, h3, h4⟩ := hrel
  obtain ⟨_, _, _, w4⟩ := h4 D hD
  exact ⟨by rw [w4, mulVec_mmul, mulVec_mmul], h1, h2, h3⟩

/-- Applying an operator to a grid function yields the projections of the image: the result lives in the range space,
is stored in dual representation w.r.t. the operator's dual space, its stored data is `W c`, and its coefficients are
`M⁻¹ (W c)`. -/
theorem apply_gives_projections (hp : LawfulParts R) (p : Pool R) (hwf : p.wfb = true) (a f : Expr R) (g : GfV R)
    (h : eval p (.mul a f) = .ok (.gf g)) (d r u s : Nat) (W : Mat R) (c : Vec R)
    (ha : denote p a = .op d r u W) (hf : denote p f = .fn s c) :
    g.space = r ∧ g.dual = some u ∧ g.data = mulVec W c ∧
      ∀ co, gfCoeffs p g = .ok co → co = mulVec (minvD p r u) (mulVec W c) := by
  have ok := poolOk_of_wfb hwf
  have hrel := eval_sound hp p hwf _ _ h
  simp only [denote, ha, hf, mulD, Rel] at hrel
  simp only [eval] at h
  obtain ⟨x, hx, h⟩ := bind_eq_ok h
  obtain ⟨y, hy, h⟩ := bind_eq_ok h
  have rx := eval_sound hp p hwf _ _ hx
  have ry := eval_sound hp p hwf _ _ hy
  rw [ha] at rx
  rw [hf] at ry
  cases x <;> simp only [Rel] at rx
  cases y <;> simp only [Rel] at ry
  rename_i bo gi
  simp only [mulV] at h
  split at h
  · rename_i hs
    obtain ⟨w, hw, h⟩ := bind_eq_ok h
    obtain ⟨xc, hxc, h⟩ := bind_eq_ok h
    cases h
    obtain ⟨a1, a2, a3, a4⟩ := rx
    obtain ⟨w1, _, w3, w4⟩ := a4 w hw
    have lx : xc.length = w.cols := by
      rw [gfCoeffs_length hp ok (by rw [ry.1]; exact ry.2.1) hxc, w3, ← a1, hs]
    refine ⟨a2, by rw [a3], ?_, hrel.2.2⟩
    simp only
    rw [matvec_eq hp w1 _ _ lx, w4, ry.2.2 xc hxc]
  · cases h

/-- Linearity at the level of denotations: `(α·A + B)·f = α·(A·f) + B·f` (coefficient vectors of the images). -/
theorem linearity (p : Pool R) (A B f : Expr R) (c np : Bool) (α : R) (d r u s : Nat) (WA WB : Mat R) (cf : Vec R)
    (hA : denote p A = .op d r u WA) (hB : denote p B = .op d r u WB) (hf : denote p f = .fn s cf) :
    denote p (.mul (.add (.mul (.sc c np α) A) B) f)
      = denote p (.add (.mul (.sc c np α) (.mul A f)) (.mul B f)) := by
  simp only [denote, hA, hB, hf, mulD, scaleD, addD]
  rw [mulVec_madd, mulVec_msmul, mulVec_vadd_right, mulVec_vsmul_right]

/-- A real operator applied to a complex vector acts on real and imaginary part separately, and that is the plain
matrix-vector product. -/
theorem real_on_complex_by_parts (hp : LawfulParts R) (k : Cls) (r n : Nat) (M : Mat R) (x : Vec R) :
    (DOp.leaf k false r n M).matvec true x
        = vadd (mulVec M (x.map CParts.re)) (vsmul CParts.I (mulVec M (x.map CParts.im))) ∧
      (DOp.leaf k false r n M).matvec true x = mulVec M x := by
  refine ⟨rfl, ?_⟩
  simp only [DOp.matvec]
  exact applyMat_eq hp _ _ _ _

/-- A blocked operator applied to a list of grid functions: the results are the slices (by the dof counts of the DUAL
spaces) of the block matrix times the concatenated coefficient vectors, each in its range space. -/
theorem blocked_apply_slices (hp : LawfulParts R) (p : Pool R) (hwf : p.wfb = true) (k l : Expr R) (out : List (GfV R))
    (h : eval p (.mul k l) = .ok (.gfl out)) (doms rans duals : List (Option Nat)) (bl : List (Nat × Nat × Mat R))
    (W : Mat R) (l' : List (Nat × Vec R)) (hk : denote p k = .blk doms rans duals bl W) (hl : denote p l = .fns l') :
    List.Forall₂ (fun g f => g.space = f.1 ∧ ∀ co, gfCoeffs p g = .ok co → co = f.2) out
      (splitD p rans duals (mulVec W (l'.flatMap (·.2)))) := by
  have hrel := eval_sound hp p hwf _ _ h
  simp only [denote, hk, hl, mulD, Rel] at hrel
  generalize splitD p rans duals (mulVec W (l'.flatMap (·.2))) = tgt at hrel
  clear h
  induction hrel with
  | nil => exact .nil
  | cons hg _ ih => exact .cons ⟨hg.1, hg.2.2⟩ ih

/-- A potential operator expression (sums, scalings) applied to a grid function gives the denoted matrix times the
coefficient vector. -/
theorem pot_apply_linear (hp : LawfulParts R) (p : Pool R) (hwf : p.wfb = true) (q f : Expr R) (c : Bool) (v : Vec R)
    (h : eval p (.mul q f) = .ok (.arr c v)) (s s' : Nat) (M : Mat R) (cf : Vec R)
    (hq : denote p q = .pot s M) (hf : denote p f = .fn s' cf) : v = mulVec M cf := by
  have hrel := eval_sound hp p hwf _ _ h
  simpa only [denote, hq, hf, mulD, Rel] using hrel

end Sound

/-! ### non-vacuity: the driver's scalar type, a concrete pool, concrete programs -/

section Examples

/-- the theorems apply to the scalar type of the native driver -/
example : LawfulParts CRat := lawfulParts_CRat

def exPool : Pool CRat where
  ndofs := [2, 2]
  npts := [1]
  ops := [⟨0, 0, 0, false, false, [[⟨2, 0⟩, ⟨1, 0⟩], [⟨1, 0⟩, ⟨2, 0⟩]]⟩,
          ⟨0, 1, 1, true, false, [[⟨1, 0⟩, ⟨0, 0⟩], [⟨3, 0⟩, ⟨1, 0⟩]]⟩]
  gfs := [⟨0, none, true, [⟨1, 1⟩, ⟨0, 2⟩]⟩, ⟨1, none, false, [⟨1, 0⟩, ⟨1, 0⟩]⟩]
  pots := [⟨0, 1, 0, false, [[⟨1, 0⟩, ⟨1, 0⟩]]⟩]
  minv := [(0, 0, [[⟨2/3, 0⟩, ⟨-1/3, 0⟩], [⟨-1/3, 0⟩, ⟨2/3, 0⟩]])]

example : exPool.wfb = true := by decide +kernel

/-- a well-typed tree of depth 3 with a product and a complex scalar: accepted, and evaluates -/
example : check exPool (.mul (.mul (.sc true false ⟨0, 1⟩) (.mul (.op 0) (.op 0))) (.gf 0)) = .ok () := by
  decide +kernel

example : (run exPool probeC (.mul (.mul (.sc true false ⟨0, 1⟩) (.mul (.op 0) (.op 0))) (.gf 0))).toBool = true := by
  decide +kernel

/-- ill-typed by exactly one rule each: sum of operators with different range/dual, operator applied to a function in the
wrong space, potential operator applied to a function in the wrong space, scalar + operator, operator + scalar -/
example : check exPool (.add (.op 0) (.op 1)) = .error .value := by decide +kernel
example : check exPool (.mul (.op 0) (.gf 1)) = .error .value := by decide +kernel
example : check exPool (.mul (.pot 0) (.gf 1)) = .error .value := by decide +kernel
example : check exPool (.add (.sc false false ⟨2, 0⟩) (.op 0)) = .error .type := by decide +kernel
example : check exPool (.add (.op 0) (.sc false false ⟨2, 0⟩)) = .error .attr := by decide +kernel
/-- a product whose right factor has no inverse mass matrix in the pool is rejected when it is forced -/
example : check exPool (.mul (.op 1) (.op 1)) = .error .value := by decide +kernel
example : check exPool (.mul (.op 0) (.op 1)) = .error .value := by decide +kernel
/-- blocked: an incomplete array is accepted as an object but rejected when forced; a complete one evaluates -/
example : check exPool (.blkSet (.blkEmpty 2 2) 0 0 (.op 0)) = .error .value := by decide +kernel
example : check exPool (.mul (.blkSet (.blkSet (.blkEmpty 2 2) 0 0 (.op 0)) 1 1 (.op 0))
    (.lcons (.gf 0) (.lcons (.gf 0) .lnil))) = .ok () := by decide +kernel
example : check exPool (.mul (.blkSet (.blkSet (.blkEmpty 2 2) 0 0 (.op 0)) 1 1 (.op 0))
    (.lcons (.gf 0) (.lcons (.gf 1) .lnil))) = .error .value := by decide +kernel

end Examples

end BemppVerif.C14
