/-
C11 (continued) — polynomial identities over an arbitrary field: child normals of `refine` / barycentric refinement,
nesting, union with swapped normals, Lagrange identity, `Jᵀ·jit = I`, unit right-handed normal, circumdiameter.
Property theorems only.
-/
import BemppVerif.Model.Geom
import BemppVerif.Lemmas.Vec3
import Mathlib.Tactic.Ring
import Mathlib.Tactic.FieldSimp
import Mathlib.Tactic.Linarith
import Mathlib.Tactic.Positivity
import Mathlib.Algebra.Order.Field.Basic

namespace BemppVerif.C11
open BemppVerif.Model.Topo BemppVerif.Model.Geom BemppVerif.Gen BemppVerif.Lemmas.Vec3

section RefinementIdentities
variable {K : Type} [Field K] [CharZero K]

/-- every one of the four children of `Grid.refine` (vertex codes regenerated from the source) has normal direction
`¼` of the parent's: same orientation, a quarter of the area; hence the four areas add up to the parent's. -/
theorem refine_child_normal (v0 v1 v2 : V3 K) :
    ∀ c ∈ GridConsts.refineChildren,
      normalDir (codePoint v0 v1 v2 c.1) (codePoint v0 v1 v2 c.2.1) (codePoint v0 v1 v2 c.2.2) =
        smul (1 / 4) (normalDir v0 v1 v2) := by
  intro c hc
  simp only [GridConsts.refineChildren, List.mem_cons, List.not_mem_nil, or_false] at hc
  rcases hc with rfl | rfl | rfl | rfl <;>
  · simp only [codePoint, pick, localEdge, GridConsts.edgeLocal, List.getD_cons_zero, List.getD_cons_succ,
      normalDir, jacA, jacB, cross, vsub, vadd, sdiv, smul, midpoint, Nat.cast_ofNat]
    ext <;> simp <;> ring

/-- every one of the six children of the barycentric refinement has normal direction `1/6` of the parent's. -/
theorem bary_child_normal (v0 v1 v2 : V3 K) :
    ∀ c ∈ GridConsts.baryChildren,
      normalDir (codePoint v0 v1 v2 c.1) (codePoint v0 v1 v2 c.2.1) (codePoint v0 v1 v2 c.2.2) =
        smul (1 / 6) (normalDir v0 v1 v2) := by
  intro c hc
  simp only [GridConsts.baryChildren, List.mem_cons, List.not_mem_nil, or_false] at hc
  rcases hc with rfl | rfl | rfl | rfl | rfl | rfl <;>
  · simp only [codePoint, pick, localEdge, GridConsts.edgeLocal, List.getD_cons_zero, List.getD_cons_succ,
      normalDir, jacA, jacB, cross, vsub, vadd, sdiv, smul, midpoint, centroid, Nat.cast_ofNat]
    ext <;> simp <;> ring

omit [CharZero K] in
/-- `union(..., swapped_normals)`: exchanging local vertices 1 and 2 flips the normal direction and keeps the area. -/
theorem union_swapped_flips_normal (v0 v1 v2 : V3 K) :
    normalDir v0 v2 v1 = smul (-1) (normalDir v0 v1 v2) := by
  simp only [normalDir, jacA, jacB, cross, vsub, smul]
  ext <;> simp <;> ring

end RefinementIdentities

section Nesting
variable {K : Type} [Field K] [LinearOrder K] [IsStrictOrderedRing K]

/-- nesting: every point named by a vertex code (corner, edge midpoint, barycentre) is a convex combination of the
parent's corners, so all children of `refine` and of the barycentric refinement lie inside their parent. -/
theorem refine_children_nested (v0 v1 v2 : V3 K) (c : GridConsts.Code) :
    ∃ l0 l1 l2 : K, 0 ≤ l0 ∧ 0 ≤ l1 ∧ 0 ≤ l2 ∧ l0 + l1 + l2 = 1 ∧
      codePoint v0 v1 v2 c = vadd (vadd (smul l0 v0) (smul l1 v1)) (smul l2 v2) := by
  have pk : ∀ j, ∃ l0 l1 l2 : K, 0 ≤ l0 ∧ 0 ≤ l1 ∧ 0 ≤ l2 ∧ l0 + l1 + l2 = 1 ∧
      pick v0 v1 v2 j = vadd (vadd (smul l0 v0) (smul l1 v1)) (smul l2 v2) := by
    intro j
    match j with
    | 0 => exact ⟨1, 0, 0, by norm_num, by norm_num, by norm_num, by norm_num, by simp [pick, vadd, smul]⟩
    | 1 => exact ⟨0, 1, 0, by norm_num, by norm_num, by norm_num, by norm_num, by simp [pick, vadd, smul]⟩
    | _ + 2 => exact ⟨0, 0, 1, by norm_num, by norm_num, by norm_num, by norm_num, by simp [pick, vadd, smul]⟩
  obtain ⟨kind, l⟩ := c
  match kind with
  | 0 => exact pk l
  | 1 =>
    obtain ⟨a0, a1, a2, ha0, ha1, ha2, hs, hp⟩ := pk (localEdge l).1
    obtain ⟨b0, b1, b2, hb0, hb1, hb2, hs', hq⟩ := pk (localEdge l).2
    refine ⟨(a0 + b0) / 2, (a1 + b1) / 2, (a2 + b2) / 2, by positivity, by positivity, by positivity, by linarith, ?_⟩
    simp only [codePoint, hp, hq, midpoint, vadd, smul, sdiv, Nat.cast_ofNat]
    ext <;> simp <;> ring
  | _ + 2 =>
    refine ⟨1 / 3, 1 / 3, 1 / 3, by norm_num, by norm_num, by norm_num, by norm_num, ?_⟩
    simp only [codePoint, centroid, vadd, smul, sdiv, Nat.cast_ofNat]
    ext <;> simp <;> ring

end Nesting

/-! ## (v) Geometry -/

section Geometry
variable {K : Type} [Field K]

/-- Lagrange identity: `det(JᵀJ) = |a|²|b|² − (a·b)² = |a × b|²`, i.e. `integration_elements = |normal direction|
= 2·volumes`. -/
theorem lagrange_identity (v0 v1 v2 : V3 K) :
    intElemSq v0 v1 v2 = dot (normalDir v0 v1 v2) (normalDir v0 v1 v2) := by
  simp only [intElemSq, normalDir, jacA, jacB, dot, cross, vsub]
  ring

/-- the normal direction is orthogonal to both Jacobian columns. -/
theorem normal_orthogonal (v0 v1 v2 : V3 K) :
    dot (normalDir v0 v1 v2) (jacA v0 v1 v2) = 0 ∧ dot (normalDir v0 v1 v2) (jacB v0 v1 v2) = 0 := by
  simp only [normalDir, jacA, jacB, dot, cross, vsub]
  constructor <;> ring

/-- `jacobian_inverse_transposed = J (JᵀJ)⁻¹` is a left inverse of `Jᵀ`: `Jᵀ · jit = I₂`. -/
theorem jac_inv_trans_left_inverse (v0 v1 v2 : V3 K) (h : intElemSq v0 v1 v2 ≠ 0) :
    dot (jacA v0 v1 v2) (jacInvTrans v0 v1 v2).1 = 1 ∧ dot (jacA v0 v1 v2) (jacInvTrans v0 v1 v2).2 = 0 ∧
    dot (jacB v0 v1 v2) (jacInvTrans v0 v1 v2).1 = 0 ∧ dot (jacB v0 v1 v2) (jacInvTrans v0 v1 v2).2 = 1 := by
  simp only [jacInvTrans]
  generalize hd : intElemSq v0 v1 v2 = d at h ⊢
  simp only [intElemSq] at hd
  generalize jacA v0 v1 v2 = a at hd ⊢
  generalize jacB v0 v1 v2 = b at hd ⊢
  simp only [dot, sdiv, vsub, smul] at hd ⊢
  refine ⟨?_, ?_, ?_, ?_⟩ <;> field_simp <;> rw [← hd] <;> ring

/-- the columns of `jacobian_inverse_transposed` lie in the tangent plane (orthogonal to the normal). -/
theorem jac_inv_trans_in_tangent_plane (v0 v1 v2 : V3 K) :
    dot (normalDir v0 v1 v2) (jacInvTrans v0 v1 v2).1 = 0 ∧ dot (normalDir v0 v1 v2) (jacInvTrans v0 v1 v2).2 = 0 := by
  simp only [jacInvTrans]
  generalize intElemSq v0 v1 v2 = d
  simp only [normalDir, jacA, jacB, dot, cross, vsub, sdiv, smul]
  constructor <;> ring

/-- `centroids` is the mean of the three vertices. -/
theorem centroid_def [CharZero K] (v0 v1 v2 : V3 K) :
    smul 3 (centroid v0 v1 v2) = vadd (vadd v0 v1) v2 := by
  simp only [centroid, smul, sdiv, vadd, Nat.cast_ofNat]
  ext <;> simp <;> field_simp

/-- geometric quantities depend only on the differences of the vertices (translation invariance of the normal
direction, hence of normals, volumes and integration elements). -/
theorem volume_translation_invariant (v0 v1 v2 w : V3 K) :
    normalDir (vadd v0 w) (vadd v1 w) (vadd v2 w) = normalDir v0 v1 v2 := by
  simp only [normalDir, jacA, jacB, cross, vsub, vadd]
  ext <;> simp

/-- offset of the circumcentre from `v0` in terms of `a = v1 − v0`, `b = v2 − v0`, `n = a × b` (specification) -/
def circumOffset (a b : V3 K) : V3 K :=
  let n := cross a b
  sdiv (vadd (smul (dot a a) (cross b n)) (smul (dot b b) (cross n a))) (2 * dot n n)

/-- `diameters = |a||b||a−b| / |a×b|` is the circumdiameter: the point `v0 + circumOffset a b` (which lies in the
plane of the triangle) has the same distance `r` from `v0`, `v1 = v0 + a`, `v2 = v0 + b`, and `(2r)² = diameter²`. -/
theorem diameter_is_circumdiameter [CharZero K] (v0 v1 v2 : V3 K)
    (h : dot (normalDir v0 v1 v2) (normalDir v0 v1 v2) ≠ 0) :
    let a := jacA v0 v1 v2
    let b := jacB v0 v1 v2
    let w := circumOffset a b
    4 * dot w w = diameterSq v0 v1 v2 ∧ dot (vsub w a) (vsub w a) = dot w w ∧ dot (vsub w b) (vsub w b) = dot w w ∧
      dot w (normalDir v0 v1 v2) = 0 := by
  simp only [diameterSq, normalDir] at h ⊢
  generalize jacA v0 v1 v2 = a at h ⊢
  generalize jacB v0 v1 v2 = b at h ⊢
  simp only [circumOffset]
  -- the scalar products of the building blocks, with n = a × b and N = n·n
  have hbn : dot b (cross a b) = 0 := dot_cross_right a b
  have han : dot a (cross a b) = 0 := dot_cross_left a b
  have e1 : dot (cross b (cross a b)) (cross b (cross a b)) = dot b b * dot (cross a b) (cross a b) := by
    rw [dot_cross_cross, hbn]; ring
  have e2 : dot (cross (cross a b) a) (cross (cross a b) a) = dot (cross a b) (cross a b) * dot a a := by
    rw [dot_cross_cross, dot_comm (cross a b) a, han]; ring
  have e3 : dot (cross b (cross a b)) (cross (cross a b) a) = -(dot a b * dot (cross a b) (cross a b)) := by
    rw [dot_cross_cross, hbn, dot_comm b a]; ring
  have t1 : dot (cross b (cross a b)) a = dot (cross a b) (cross a b) := by
    rw [triple_rot]
  have t2 : dot (cross (cross a b) a) a = 0 := by rw [dot_comm]; exact dot_cross_right _ _
  have t3 : dot (cross b (cross a b)) b = 0 := by rw [dot_comm]; exact dot_cross_left _ _
  have t4 : dot (cross (cross a b) a) b = dot (cross a b) (cross a b) := by rw [triple_cyclic]
  have t5 : dot (cross b (cross a b)) (cross a b) = 0 := by rw [dot_comm]; exact dot_cross_right _ _
  have t6 : dot (cross (cross a b) a) (cross a b) = 0 := by rw [dot_comm]; exact dot_cross_left _ _
  have lag : dot (cross a b) (cross a b) = dot a a * dot b b - dot a b * dot a b := by
    rw [dot_cross_cross, dot_comm b a]
  have hcc : dot (vsub a b) (vsub a b) = dot a a - 2 * dot a b + dot b b := dot_vsub_self a b
  have hwa : dot (sdiv (vadd (smul (dot a a) (cross b (cross a b))) (smul (dot b b) (cross (cross a b) a)))
      (2 * dot (cross a b) (cross a b))) a = dot a a / 2 := by
    rw [dot_comb, t1, t2]; field_simp; ring
  have hwb : dot (sdiv (vadd (smul (dot a a) (cross b (cross a b))) (smul (dot b b) (cross (cross a b) a)))
      (2 * dot (cross a b) (cross a b))) b = dot b b / 2 := by
    rw [dot_comb, t3, t4]; field_simp; ring
  refine ⟨?_, ?_, ?_, ?_⟩
  · rw [dot_comb_self, e1, e2, e3, hcc]
    generalize dot (cross a b) (cross a b) = N at h ⊢
    field_simp; ring
  · rw [dot_vsub_self, hwa]; ring
  · rw [dot_vsub_self, hwb]; ring
  · rw [dot_comb, t5, t6]; simp

end Geometry

section OrderedGeometry
variable {K : Type} [Field K] [LinearOrder K] [IsStrictOrderedRing K]

/-- `det(JᵀJ) ≥ 0`, so its square root (the integration element) exists. -/
theorem integration_element_sq_nonneg (v0 v1 v2 : V3 K) : 0 ≤ intElemSq v0 v1 v2 := by
  rw [lagrange_identity]
  simp only [dot]
  exact add_nonneg (add_nonneg (mul_self_nonneg _) (mul_self_nonneg _)) (mul_self_nonneg _)

/-- `normals = normal_direction / |normal_direction|`: for the positive root `s` of `|a×b|²` the vector `(a×b)/s` has
unit length and a positive component along `(v1−v0) × (v2−v0)` (right-handed with respect to the vertex order). -/
theorem normal_unit_right_handed (v0 v1 v2 : V3 K) (s : K) (hs : 0 < s)
    (hss : s * s = dot (normalDir v0 v1 v2) (normalDir v0 v1 v2)) :
    dot (sdiv (normalDir v0 v1 v2) s) (sdiv (normalDir v0 v1 v2) s) = 1 ∧
      dot (sdiv (normalDir v0 v1 v2) s) (cross (jacA v0 v1 v2) (jacB v0 v1 v2)) = s ∧
      0 < dot (sdiv (normalDir v0 v1 v2) s) (cross (jacA v0 v1 v2) (jacB v0 v1 v2)) := by
  have hs0 : s ≠ 0 := ne_of_gt hs
  have h1 : dot (sdiv (normalDir v0 v1 v2) s) (cross (jacA v0 v1 v2) (jacB v0 v1 v2)) = s := by
    change dot (sdiv (normalDir v0 v1 v2) s) (normalDir v0 v1 v2) = s
    generalize normalDir v0 v1 v2 = n at hss ⊢
    simp only [dot, sdiv] at hss ⊢
    field_simp
    linarith
  refine ⟨?_, h1, by rw [h1]; exact hs⟩
  generalize normalDir v0 v1 v2 = n at hss ⊢
  simp only [dot, sdiv] at hss ⊢
  field_simp
  linarith

end OrderedGeometry

/-- non-vacuity (v): the right triangle (0,0,0),(1,0,0),(0,1,0) over ℚ has `det(JᵀJ) = 1 ≠ 0`, normal direction
`(0,0,1)`, and `s = 1` is the positive root required by `normal_unit_right_handed`. -/
example : intElemSq ((0, 0, 0) : V3 ℚ) (1, 0, 0) (0, 1, 0) = 1 ∧
    normalDir ((0, 0, 0) : V3 ℚ) (1, 0, 0) (0, 1, 0) = (0, 0, 1) ∧
    (1 : ℚ) * 1 = dot (normalDir ((0, 0, 0) : V3 ℚ) (1, 0, 0) (0, 1, 0)) (normalDir ((0, 0, 0) : V3 ℚ) (1, 0, 0) (0, 1, 0)) ∧
    diameterSq ((0, 0, 0) : V3 ℚ) (1, 0, 0) (0, 1, 0) = 2 := by
  simp only [intElemSq, normalDir, diameterSq, jacA, jacB, dot, cross, vsub]
  norm_num

end BemppVerif.C11
