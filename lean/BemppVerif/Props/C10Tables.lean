/-
C10 — table theorems: everything that is a finite computation on the tables regenerated from /repo
(`Gen/BaryTables.lean`), checked by the kernel (`decide +kernel`, exact rational arithmetic, no axioms).
Mathlib-free.  The statements over arbitrary fields that follow from them are in `Props/C10.lean`.
-/
import BemppVerif.Model.Bary

namespace BemppVerif.C10
open BemppVerif.Model.Bary BemppVerif.Gen.BaryTables

/-- `_create_barycentric_connectivity_array`: each of the six sub-triangles has exactly one vertex of the
parent, one edge midpoint and the barycentre among its three vertices; in the parent's reference coordinates
it is positively oriented with a sixth of the area (`det M_s = 1/6`), so its normal is the parent's and its
integration element is a sixth of the parent's; every parent vertex and every edge midpoint lies on exactly
two sub-triangles, the barycentre on all six. -/
theorem bary_subtriangles :
    subTri.length = 6 ∧ (∀ s, s < 6 → subDet s = 1 / 6) ∧
    (∀ s, s < 6 → ((List.range 3).map fun k => (subCode s k).1).Perm [0, 1, 2]) ∧
    (∀ v, v < 3 → (subsAt (0, v)).length = 2 ∧ (subsAt (1, v)).length = 2) ∧ (subsAt (2, 0)).length = 6 ∧
    codePt (1, 0) = (1 / 2, 0) ∧ codePt (1, 1) = (0, 1 / 2) ∧ codePt (1, 2) = (1 / 2, 1 / 2) ∧
    codePt (2, 0) = (1 / 3, 1 / 3) := by
  decide +kernel

/-- the P1 reference shape functions are nodal: a coefficient of the barycentric P1 space is the value of
the function at the corresponding vertex of the sub-triangle. -/
theorem p1_nodal : ∀ k, k < 3 → ∀ j, j < 3 → p1G k (refVertex j) = if k = j then 1 else 0 := by
  decide +kernel

/-- the three 6x3 tables of `p1_barycentric_continuous_function_space` are the values of the coarse reference
shape function `i` at local vertex `k` of sub-triangle `s` (all 54 entries, exact rationals). -/
theorem p1_bary_table_correct :
    shapeOK p1Coeffs = true ∧
    ∀ i, i < 3 → ∀ s, s < 6 → ∀ k, k < 3 → tab p1Coeffs i s k = p1G i (subVertex s k) := by
  decide +kernel

/-- `generate_rwg0_map`: `outer_edges[i]` is the length of edge `i` of the coarse element in the convention
of `_numba_rwg0_evaluate`; `dof_mult[s][k]` is the length of a segment parallel to local edge `k` of
sub-triangle `s` (same convention), equal to it or twice as long (the halves of the outer edges). -/
theorem rwg_dof_mult_parallel :
    (∀ i, i < 3 → outerOK rwgLocalCoords rwgEvalEdges i = true) ∧
    (∀ s, s < 6 → ∀ k, k < 3 → parallelOK rwgLocalCoords rwgEvalEdges s k = true ∧
      (ratio rwgLocalCoords rwgEvalEdges s k = 1 ∨ ratio rwgLocalCoords rwgEvalEdges s k = 1 / 2)) := by
  decide +kernel

theorem snc_dof_mult_parallel :
    (∀ i, i < 3 → outerOK sncLocalCoords sncEvalEdges i = true) ∧
    (∀ s, s < 6 → ∀ k, k < 3 → parallelOK sncLocalCoords sncEvalEdges s k = true ∧
      (ratio sncLocalCoords sncEvalEdges s k = 1 ∨ ratio sncLocalCoords sncEvalEdges s k = 1 / 2)) := by
  decide +kernel

/-- the reference identity `φ̂_i(ξ_s(η)) = Σ_k coeffs[i][s][k] · ratio_{sk} / det M_s · M_s φ̂_k(η)` at the three
vertices of every sub-triangle (both sides are affine in `η`), for the RWG tables. -/
theorem rwg_bary_vertex_identity :
    shapeOK rwgCoeffs = true ∧
    ∀ i, i < 3 → ∀ s, s < 6 → ∀ j, j < 3 →
      piolaDefect (subVertex s 0) (subVertex s 1) (subVertex s 2)
        (subQ rwgCoeffs rwgLocalCoords rwgEvalEdges i s) i (refVertex j) = (0, 0) := by
  decide +kernel

theorem snc_bary_vertex_identity :
    shapeOK sncCoeffs = true ∧
    ∀ i, i < 3 → ∀ s, s < 6 → ∀ j, j < 3 →
      piolaDefect (subVertex s 0) (subVertex s 1) (subVertex s 2)
        (subQ sncCoeffs sncLocalCoords sncEvalEdges i s) i (refVertex j) = (0, 0) := by
  decide +kernel

/-- `dual0_function_space`: the two sub-triangles `(2v-1) % 6` and `2v` on which the basis function of a coarse
vertex is 1 are exactly the sub-triangles of the element that touch its local vertex `v`; the three pairs
partition the six sub-triangles (so the basis is the indicator of the dual cell and sums to one). -/
theorem dual0_nodal :
    dual0Subs.length = 3 ∧ (∀ v, v < 3 → sameSet (dual0Subs.getD v []) (subsAt (0, v)) = true) ∧
    (dual0Subs.flatten).Perm (List.range 6) := by
  decide +kernel

/-- `dual1_function_space`: the six dofs that get the value 1 are exactly the local dofs (sub-triangle, local
vertex) that sit on the barycentre of the element; the two dofs of row `i` of the midpoint table, value 1/2, are
exactly those on the midpoint of local edge `i`; the two dofs of row `v` of the vertex table (value
`1 / neighbour_count`) are exactly those on local vertex `v`; the 18 local dofs are all covered once.  With
`p1_nodal` these are the nodal values of the basis functions, single-valued on each element. -/
theorem dual1_nodal :
    dual1Stride = 18 ∧ dual1BaryValue = 1 ∧ dual1MidValue = 1 / 2 ∧
    sameSet dual1Bary (dofsAt (2, 0)) = true ∧ dual1Mid.length = 3 ∧ dual1Vert.length = 3 ∧
    (∀ i, i < 3 → sameSet (dual1Mid.getD i []) (dofsAt (1, i)) = true) ∧
    (∀ v, v < 3 → sameSet (dual1Vert.getD v []) (dofsAt (0, v)) = true) ∧
    (dual1Bary ++ dual1Mid.flatten ++ dual1Vert.flatten).Perm (List.range 18) := by
  decide +kernel

/-- non-vacuity: the statements above discriminate — a P1 table shifted by one sub-triangle (the defect repaired
in /repo commit e7d6418) fails `p1_bary_table_correct`, and the edge-midpoint dofs `[1,5,7,11,13,17]` (the defect
repaired in f57bb97) are not the barycentre dofs. -/
example : (¬ ∀ i, i < 3 → ∀ s, s < 6 → ∀ k, k < 3 → tab p1Coeffs i ((s + 1) % 6) k = p1G i (subVertex s k)) ∧
    sameSet [1, 5, 7, 11, 13, 17] (dofsAt (2, 0)) = false := by
  decide +kernel

end BemppVerif.C10
