/-
C08 — Potentials and far fields satisfy their PDEs, normalisation and asymptotics (partial).

Proved: every traced kernel equals its canonical closed form (`BemppVerif.Kernels.*`), the potential assembler computes
the closed-form kernel sum (`BemppVerif.C02.potential_refines_spec`, generated `potential_matches_trace_*`), the canonical
kernels satisfy the radial PDEs and are the normal derivatives of each other (`BemppVerif.KernelCalculus.*`), the
far-field limit `r e^{-ikr} G(r x̂, y) → c4pi e^{-ik x̂·y}` (complex k) and, here, the translation law of the far-field
kernels and the linear extension of real operators to complex densities.
NOT proved: the 3-D Laplacian of a radial function (the radial ODEs are), the Maxwell vector identities (oracle only).
Known finding: the far-field kernels of the code use only Re k (`ffSLre …` are the code's kernels; for Im k ≠ 0 they
differ from the limit, see known_findings.json key farfield-ignores-imag-k).
-/
import BemppVerif.Lemmas.KernelFacts
import BemppVerif.Lemmas.AsmSpec
import Mathlib.Analysis.SpecialFunctions.Trigonometric.Basic

namespace BemppVerif.C08
open BemppVerif.Kernels BemppVerif.Model.Asm BemppVerif.Lemmas

/-- **Translation law of the far field** (real k = p0): translating the source point by `t` multiplies the far-field
kernel in direction `x` by `e^{-i p0 x·t}` (real and imaginary part). -/
theorem farfield_translation (c4pi x0 x1 x2 y0 y1 y2 t0 t1 t2 nx0 nx1 nx2 ny0 ny1 ny2 p0 p1 : ℝ) :
    let ψ := -(p0 * (x0 * t0 + x1 * t1 + x2 * t2))
    ffSLre Real.sqrt Real.cos Real.sin Real.exp c4pi x0 x1 x2 (y0 + t0) (y1 + t1) (y2 + t2) nx0 nx1 nx2 ny0 ny1 ny2 p0 p1
      = ffSLre Real.sqrt Real.cos Real.sin Real.exp c4pi x0 x1 x2 y0 y1 y2 nx0 nx1 nx2 ny0 ny1 ny2 p0 p1 * Real.cos ψ
        - ffSLim Real.sqrt Real.cos Real.sin Real.exp c4pi x0 x1 x2 y0 y1 y2 nx0 nx1 nx2 ny0 ny1 ny2 p0 p1 * Real.sin ψ ∧
    ffSLim Real.sqrt Real.cos Real.sin Real.exp c4pi x0 x1 x2 (y0 + t0) (y1 + t1) (y2 + t2) nx0 nx1 nx2 ny0 ny1 ny2 p0 p1
      = ffSLre Real.sqrt Real.cos Real.sin Real.exp c4pi x0 x1 x2 y0 y1 y2 nx0 nx1 nx2 ny0 ny1 ny2 p0 p1 * Real.sin ψ
        + ffSLim Real.sqrt Real.cos Real.sin Real.exp c4pi x0 x1 x2 y0 y1 y2 nx0 nx1 nx2 ny0 ny1 ny2 p0 p1 * Real.cos ψ := by
  intro ψ
  have h : -(p0 * (x0 * (y0 + t0) + x1 * (y1 + t1) + x2 * (y2 + t2)))
      = -(p0 * (x0 * y0 + x1 * y1 + x2 * y2)) + ψ := by simp only [ψ]; ring
  simp only [ffSLre, ffSLim, xdoty, h, Real.cos_add, Real.sin_add]
  constructor <;> ring

/-- the double-layer far-field kernel obeys the same law (the prefactor `-i p0 (x·n_y)` does not depend on the position) -/
theorem farfield_dl_translation (c4pi x0 x1 x2 y0 y1 y2 t0 t1 t2 nx0 nx1 nx2 ny0 ny1 ny2 p0 p1 : ℝ) :
    let ψ := -(p0 * (x0 * t0 + x1 * t1 + x2 * t2))
    ffDLre Real.sqrt Real.cos Real.sin Real.exp c4pi x0 x1 x2 (y0 + t0) (y1 + t1) (y2 + t2) nx0 nx1 nx2 ny0 ny1 ny2 p0 p1
      = ffDLre Real.sqrt Real.cos Real.sin Real.exp c4pi x0 x1 x2 y0 y1 y2 nx0 nx1 nx2 ny0 ny1 ny2 p0 p1 * Real.cos ψ
        - ffDLim Real.sqrt Real.cos Real.sin Real.exp c4pi x0 x1 x2 y0 y1 y2 nx0 nx1 nx2 ny0 ny1 ny2 p0 p1 * Real.sin ψ ∧
    ffDLim Real.sqrt Real.cos Real.sin Real.exp c4pi x0 x1 x2 (y0 + t0) (y1 + t1) (y2 + t2) nx0 nx1 nx2 ny0 ny1 ny2 p0 p1
      = ffDLre Real.sqrt Real.cos Real.sin Real.exp c4pi x0 x1 x2 y0 y1 y2 nx0 nx1 nx2 ny0 ny1 ny2 p0 p1 * Real.sin ψ
        + ffDLim Real.sqrt Real.cos Real.sin Real.exp c4pi x0 x1 x2 y0 y1 y2 nx0 nx1 nx2 ny0 ny1 ny2 p0 p1 * Real.cos ψ := by
  intro ψ
  have h : -(p0 * (x0 * (y0 + t0) + x1 * (y1 + t1) + x2 * (y2 + t2)))
      = -(p0 * (x0 * y0 + x1 * y1 + x2 * y2)) + ψ := by simp only [ψ]; ring
  simp only [ffDLre, ffDLim, xdoty, xdotny, h, Real.cos_add, Real.sin_add]
  constructor <;> ring

/-- **Real operators applied to complex densities act on real and imaginary parts**: the potential of `c_re + i c_im`
computed part by part is the complex-linear extension (linearity of the assembler in the density). -/
theorem real_op_complex_density {R : Type} [CommRing R] (d : PotData R) (n : Nat) (supp : List Nat) (cre cim : Nat → R)
    (a b : R) (x : Nat) :
    potential d n supp (fun k => a * cre k + b * cim k) x
      = a * potential d n supp cre x + b * potential d n supp cim x := by
  rw [potential_add d n supp (fun k => a * cre k) (fun k => b * cim k), potential_smul, potential_smul]

end BemppVerif.C08
