/-
C01 — Calderón identities for the Laplace operators (partial).

What is proved (for ALL grids, spaces, sizes, orders, kernels): the assembled matrices are exactly the Galerkin sums of
the local quadrature formulas with the right kernels and the right bookkeeping.  The Calderón identities for the exact
integrals and the convergence of the quadrature to them are classical analysis and are NOT formalised (numerical oracle).

This file states the property-level theorems; the generated obligations (`BemppVerif.AsmMatch.*`: model = trace of the
real assembler; `BemppVerif.Kernels.*`: traced kernels = canonical kernels) are listed in props/c01.py.
-/
import BemppVerif.Lemmas.AsmSpec
import BemppVerif.Lemmas.SingLemmas
import BemppVerif.Lemmas.KernelFacts
import BemppVerif.Props.C12

namespace BemppVerif.C01
open BemppVerif.Model.Asm BemppVerif.Model.Sing BemppVerif.Model.Quad BemppVerif.Lemmas

/-- **The dense assembler computes the Galerkin matrix.**  For every grid and every pair of spaces (any sizes): if the
colour classes partition the test support, the trial list enumerates the trial support, and every singular pair lies in
`support × support`, then the assembled entry `(r, c)` — regular launches per colour plus the singular part scattered with
`np.add.at` — is `Σ_{τ,σ} Σ_{i,j} [l2g τ i = r][l2g σ j = c] · mult · mult · (localReg τ σ i j + singSum τ σ i j)`. -/
theorem dense_is_galerkin_sum {R : Type} [CommRing R] (dr : RegData R) (ds : SingData R) (T S : SpaceData R)
    (byColor : List (List Nat)) (tr suppT suppS : List Nat) (pairs : List SingPair)
    (hcol : byColor.flatten.Perm suppT) (htr : tr.Perm suppS) (hT : suppT.Nodup) (hS : suppS.Nodup)
    (hmemT : ∀ pr ∈ pairs, pr.testElem ∈ suppT) (hmemS : ∀ pr ∈ pairs, pr.trialElem ∈ suppS) (r c : Nat) :
    entry (denseRegular dr T S byColor tr ++ singularContribs ds T S pairs) r c
      = galerkin T S suppT suppS (fun τ σ i j => localReg dr τ σ i j + singSum ds pairs τ σ i j) r c :=
  dense_refines_spec dr ds T S byColor tr suppT suppS pairs hcol htr hT hS hmemT hmemS r c

/-- **Every element pair is integrated by exactly one rule** (regular iff not adjacent), given that the singular pair
list contains exactly one pair for each adjacent pair and none otherwise (what C11's adjacency theorems provide):
the local integral is the regular one on non-adjacent pairs and the singular one of that pair on adjacent pairs. -/
theorem one_rule_per_pair {R : Type} [CommRing R] (dr : RegData R) (ds : SingData R) (pairs : List SingPair)
    (τ σ i j : Nat) :
    (dr.adjacent τ σ = false → (pairs.filter fun pr => pr.testElem = τ ∧ pr.trialElem = σ) = [] →
        localReg dr τ σ i j + singSum ds pairs τ σ i j = localReg dr τ σ i j) ∧
    (∀ pr, dr.adjacent τ σ = true → (pairs.filter fun pr => pr.testElem = τ ∧ pr.trialElem = σ) = [pr] →
        localReg dr τ σ i j + singSum ds pairs τ σ i j = localSing ds pr i j) := by
  constructor
  · intro _ h
    unfold singSum
    rw [h]; simp
  · intro pr hadj h
    unfold singSum
    rw [h]; simp [localReg, hadj]

/-- the singular pair list only contains pairs of supported elements (hypotheses `hmemT`, `hmemS` of
`dense_is_galerkin_sum` hold for the model of `get_arrays`) whenever the adjacency columns mention grid elements -/
theorem sing_pairs_in_support (n nElem : Nat) (ts ss : Nat → Bool) (ea : List EdgeCol) (va : List VertCol) :
    ∀ pr ∈ singPairs n nElem ts ss ea va, ts pr.testElem = true ∧ ss pr.trialElem = true := by
  intro pr hpr
  simp only [singPairs, List.mem_append, List.mem_map, List.mem_filter, List.mem_range] at hpr
  rcases hpr with (⟨e, ⟨_, he⟩, rfl⟩ | ⟨c, ⟨_, hc⟩, rfl⟩) | ⟨c, ⟨_, hc⟩, rfl⟩ <;>
    simp_all

/-- **Offsets select the right remap** (all orders `n`, all 1-D rules): see `Lemmas/SingLemmas.lean`. -/
theorem offsets_select_remap {R : Type} [Add R] [Sub R] [Mul R] [One R] [Zero R]
    (sel : QP R → R × R) (xs ws : List R) (n : Nat) (hx : xs.length = n) (hw : ws.length = n) :
    (((vectorizePoints sel xs ws).drop 0).take (nCoinc n) = (duffy .coincident xs ws).map sel) ∧
    (∀ a b, a < 3 → b < 3 → a ≠ b → ∃ off, edgeOffset n a b = some off ∧
      ((vectorizePoints sel xs ws).drop off).take (nEdge n)
        = (duffy .edge xs ws).map fun q => (remapEdge (sel q) a b).getD (sel q)) ∧
    (∀ v, v < 3 → ((vectorizePoints sel xs ws).drop (vertexOffset n v)).take (nVert n)
        = (duffy .vertex xs ws).map fun q => (remapVertex (sel q) v).getD (sel q)) :=
  ⟨coincident_block sel xs ws n hx hw, fun a b ha hb hab => edge_block sel xs ws n a b hx hw ha hb hab,
   fun v hv => vertex_block sel xs ws n v hx hw hv⟩

/-- **Remap consistency (shared edge).**  For a triangle with (one component of) vertex coordinates `v 0, v 1, v 2`,
the physical image of `remap_points_shared_edge(p, a, b)` is `λ₀ v_a + λ₁ v_b + λ₂ v_c` with `λ` the barycentric
coordinates of the un-remapped point `p` and `c` the third vertex: local vertex `a` plays the role of reference
vertex 0 and `b` of reference vertex 1.  Hence for an adjacency column `(e0,e1,i0,i1,j0,j1)` with
`elems[i0,e0] = elems[j0,e1]`, `elems[i1,e0] = elems[j1,e1]` the test remap `(i0,i1)` and the trial remap `(j0,j1)`
put the shared edge of both elements onto the reference edge `0–1` of the edge-adjacent Duffy rule. -/
theorem remap_edge_physical {K : Type} [Field K] (v : Nat → K) (p : K × K) (a b : Nat) (ha : a < 3) (hb : b < 3)
    (hab : a ≠ b) :
    ∃ q, remapEdge p a b = some q ∧
      physical v q = (1 - p.1 - p.2) * v a + p.1 * v b + p.2 * v (3 - a - b) := by
  interval_cases a <;> interval_cases b <;> simp_all [remapEdge, refVertex, physical] <;> ring

/-- **Remap consistency (shared vertex)**: local vertex `w` plays the role of reference vertex 0 (the singular vertex
of the vertex-adjacent Duffy rule). -/
theorem remap_vertex_physical {K : Type} [Field K] (v : Nat → K) (p : K × K) :
    (∃ q, remapVertex p 0 = some q ∧ physical v q = (1 - p.1 - p.2) * v 0 + p.1 * v 1 + p.2 * v 2) ∧
    (∃ q, remapVertex p 1 = some q ∧ physical v q = (1 - p.1 - p.2) * v 1 + p.1 * v 0 + p.2 * v 2) ∧
    (∃ q, remapVertex p 2 = some q ∧ physical v q = (1 - p.1 - p.2) * v 2 + p.1 * v 1 + p.2 * v 0) := by
  refine ⟨⟨p, rfl, ?_⟩, ⟨_, rfl, ?_⟩, ⟨_, rfl, ?_⟩⟩ <;> simp [physical] <;> ring

/-- Non-vacuity: a concrete two-element space (elements 0,1; one colour class each; coincident pairs only) satisfies
all hypotheses of `dense_is_galerkin_sum`. -/
example : ([[0], [1]] : List (List Nat)).flatten.Perm [0, 1] ∧ ([1, 0] : List Nat).Perm [0, 1] ∧
    ([0, 1] : List Nat).Nodup ∧
    (∀ pr ∈ singPairs 2 2 (fun _ => true) (fun _ => true) [] [], pr.testElem ∈ [0, 1] ∧ pr.trialElem ∈ [0, 1]) := by
  refine ⟨by decide, by decide, by decide, ?_⟩
  decide

end BemppVerif.C01
