/-
C16 — Assembly results are independent of thread count and scheduling.
Property theorems only; helper lemmas live in BemppVerif/Lemmas/{ColorLemmas,SchedLemmas,SlotLemmas}.lean.

What is modelled (literal models in Model/Color.lean, Model/Sched.lean):
* `_compute_color_map` / `_sort_elements_by_color` of api/space/space.py and the launch loop of
  core/numba_assemblers.py (`greedy`, `launchLoop`),
* one kernel launch = the `prange` over the test elements of one colour; each iteration ends with the scatter
  `result[test_global_dofs[te,i], trial_global_dofs[tr,j]] += ...` over ALL local indices `i` (also those with a
  zero multiplier) — `denseTask`,
* a schedule = any interleaving of the atomic loads/stores of the iterations; values are of an arbitrary type with
  an arbitrary `add`.
-/
import BemppVerif.Model.Color
import BemppVerif.Model.Sched
import BemppVerif.Lemmas.ColorLemmas
import BemppVerif.Lemmas.SchedLemmas
import BemppVerif.Lemmas.SlotLemmas

namespace BemppVerif.C16
open BemppVerif.Model.Color BemppVerif.Model.Sched BemppVerif.Lemmas

/-! ### The colouring -/

/-- `artificial_dof_owned` (DESIGN C09): every entry of a support element's `local2global` row — in particular
every entry with a ZERO multiplier — equals an entry of the same row with a NON-ZERO multiplier.
(`_compute_p1_dof_map` maps unused local dofs to the row maximum, `_compute_rwg0_space_data` to the first entry
with a non-zero multiplier.)  The premise is checked on every generated space by the oracle of `props/c16.py`. -/
def OwnedArtificial (S : Space) : Prop :=
  ∀ e : Nat, e < S.nelems → S.sup e = true → ∀ i d : Nat, (S.row e)[i]? = some d →
    ∃ j : Nat, (S.row e)[j]? = some d ∧ S.nz e j = true

/-- The `next(color for color in range(number_of_support_elements) if ...)` of `_compute_color_map` never raises
`StopIteration`: the colouring is defined for every space, segment selection and mesh. -/
theorem greedy_never_raises (S : Space) : ∃ cm, greedy S = some cm :=
  Color.greedy_total S

/-- Exactly the support elements are coloured, with colours in `0 .. number_of_support_elements-1`;
all other entries of `color_map` stay `-1`. -/
theorem greedy_colors_support (S : Space) (cm : Array Int) (h : greedy S = some cm) :
    cm.size = S.nelems ∧
    (∀ e, e ∈ S.supportElements → 0 ≤ colorOf cm e ∧ colorOf cm e < S.nsupport) ∧
    (∀ e, e ∉ S.supportElements → colorOf cm e = -1) :=
  let inv := Color.greedy_inv S cm h
  ⟨inv.size, inv.col, inv.uncol⟩

/-- No hypothesis on the space: two distinct support elements that share a global dof through entries with
NON-ZERO multiplier (i.e. two elements listed in the same `global2local[d]`) get different colours. -/
theorem greedy_proper_nz (S : Space) (cm : Array Int) (h : greedy S = some cm)
    (e e' : Nat) (he : e ∈ S.supportElements) (he' : e' ∈ S.supportElements) (hne : e ≠ e')
    (d i j : Nat) (hi : (S.row e)[i]? = some d) (hzi : S.nz e i = true)
    (hj : (S.row e')[j]? = some d) (hzj : S.nz e' j = true) :
    colorOf cm e ≠ colorOf cm e' :=
  (Color.greedy_inv S cm h).proper e e' he he' hne
    ⟨d, List.mem_of_getElem? hi, j, hj, hzj⟩ ⟨d, List.mem_of_getElem? hj, i, hi, hzi⟩

/-- `greedy_proper`: under `OwnedArtificial`, two distinct support elements whose `local2global` rows intersect
AT ALL (any entries, zero multiplier or not — these are the rows of `result` the regular kernels write) get
different colours.  For every space, segment selection and mesh. -/
theorem greedy_proper (S : Space) (cm : Array Int) (h : greedy S = some cm) (hown : OwnedArtificial S)
    (e e' : Nat) (he : e ∈ S.supportElements) (he' : e' ∈ S.supportElements) (hne : e ≠ e')
    (d : Nat) (hd : d ∈ S.row e) (hd' : d ∈ S.row e') :
    colorOf cm e ≠ colorOf cm e' := by
  obtain ⟨he1, he2⟩ := (Color.mem_supportElements S e).1 he
  obtain ⟨he1', he2'⟩ := (Color.mem_supportElements S e').1 he'
  obtain ⟨i, hi⟩ := List.getElem?_of_mem hd
  obtain ⟨i', hi'⟩ := List.getElem?_of_mem hd'
  obtain ⟨j, hj, hzj⟩ := hown e he1 he2 i d hi
  obtain ⟨j', hj', hzj'⟩ := hown e' he1' he2' i' d hi'
  exact greedy_proper_nz S cm h e e' he he' hne d j j' hj hzj hj' hzj'

/-- `_sort_elements_by_color` + the launch loop of `dense_assembler`: the test-element lists handed to the
successive kernel calls are the colour classes (`launchLoop = launches`), every support element is in exactly one
launch and occurs there once, and no other element is ever launched. -/
theorem colors_partition_support (S : Space) (cm : Array Int) (h : greedy S = some cm) :
    launchLoop cm = launches cm ∧
    (∀ e, e ∈ S.supportElements ↔ ∃ L, L ∈ launchLoop cm ∧ e ∈ L) ∧
    (launchLoop cm).Pairwise (fun A B => ∀ x, x ∈ A → x ∉ B) ∧
    (∀ L, L ∈ launchLoop cm → L.Nodup) ∧
    (launchLoop cm).flatten.Perm S.supportElements ∧
    (sortedIndices cm).length = S.nsupport := by
  have inv := Color.greedy_inv S cm h
  have hmem : ∀ e, e ∈ sortedIndices cm ↔ e ∈ S.supportElements := by
    intro e
    rw [Color.mem_sortedIndices, Color.mem_supportElements]
    constructor
    · rintro ⟨h1, h2⟩
      rw [← Color.mem_supportElements]
      apply Classical.byContradiction
      intro hn
      have := inv.uncol e hn
      omega
    · intro hs
      have hs' := (Color.mem_supportElements S e).2 hs
      exact ⟨by rw [inv.size]; exact hs.1, (inv.col e hs').1⟩
  have hperm : (sortedIndices cm).Perm S.supportElements :=
    (List.perm_ext_iff_of_nodup (Color.sortedIndices_nodup cm) (Color.supportElements_nodup S)).2 hmem
  rw [Color.launchLoop_eq]
  refine ⟨rfl, ?_, ?_, ?_, hperm, hperm.length_eq⟩
  · intro e
    rw [← hmem e]
    unfold sortedIndices
    rw [List.mem_flatten]
  · unfold launches
    rw [List.pairwise_map]
    refine List.Pairwise.imp ?_ (List.pairwise_lt_range (n := ncolors cm))
    intro a b hab x hxa hxb
    have := Color.withColor_disjoint cm a b x hxa hxb
    omega
  · intro L hL
    unfold launches at hL
    rw [List.mem_map] at hL
    obtain ⟨c, _, rfl⟩ := hL
    exact Color.withColor_nodup cm c

/-- Test elements of one launch write disjoint sets of cells of `result`: the scatter loops
(`denseTask`, all local indices, any trial elements, any values) of two different elements of one launch have no
cell `(row, col)` in common. -/
theorem rows_disjoint_in_launch {V : Type} (S : Space) (cm : Array Int) (h : greedy S = some cm)
    (hown : OwnedArtificial S) (L : List Nat) (hL : L ∈ launchLoop cm) (te te' : Nat) (hte : te ∈ L)
    (hte' : te' ∈ L) (hne : te ≠ te') (add : V → V → V) (trialRows : List (List Nat))
    (val val' : Nat → Nat → Nat → V) (cell : Nat × Nat)
    (hc : cell ∈ writes (denseTask add (S.row te) trialRows val)) :
    cell ∉ writes (denseTask add (S.row te') trialRows val') := by
  intro hc'
  have hr := Sched.writes_denseTask_row add _ _ _ cell hc
  have hr' := Sched.writes_denseTask_row add _ _ _ cell hc'
  obtain ⟨_, hcov, _, _, _, _⟩ := colors_partition_support S cm h
  have hs := (hcov te).2 ⟨L, hL, hte⟩
  have hs' := (hcov te').2 ⟨L, hL, hte'⟩
  rw [Color.launchLoop_eq] at hL
  unfold launches at hL
  rw [List.mem_map] at hL
  obtain ⟨c, _, rfl⟩ := hL
  have h1 := ((Color.mem_withColor cm c te).1 hte).2
  have h2 := ((Color.mem_withColor cm c te').1 hte').2
  exact greedy_proper S cm h hown te te' hs hs' hne cell.1 hr hr' (h1.trans h2.symm)

/-! ### Interleavings -/

/-- `interleaving_independent`: if the write sets of the tasks of a launch are pairwise disjoint and every task
reads only cells it writes itself (read-modify-write `result[r,c] += v`), then after ANY complete interleaving of
the atomic loads and stores all tasks have finished and the memory equals — as a value of the abstract type, hence
bitwise for floats — the memory after the sequential execution (task 0, then task 1, ...).  No property of the
arithmetic (associativity, commutativity) is used. -/
theorem interleaving_independent {C V : Type} [DecidableEq C] (m0 : C → V) (tasks : List (Task C V))
    (hdisj : ∀ i j, i < tasks.length → j < tasks.length → i ≠ j →
      ∀ c, c ∈ writes (tasks.getD i []) → c ∉ writes (tasks.getD j []))
    (hown : ∀ i, i < tasks.length → ∀ c, c ∈ reads (tasks.getD i []) → c ∈ writes (tasks.getD i []))
    (sched : List Nat) (hc : Complete tasks sched) :
    (run (start m0 tasks) sched).mem = (run (start m0 tasks) (seqSchedule tasks)).mem ∧
    ∀ i, ((run (start m0 tasks) sched).th i).prog = [] := by
  obtain ⟨a1, a2, a3⟩ := Sched.complete_final m0 tasks hdisj hown sched hc
  obtain ⟨_, b2, b3⟩ := Sched.complete_final m0 tasks hdisj hown _ (Sched.seqSchedule_complete tasks)
  refine ⟨?_, a1⟩
  funext c
  by_cases hex : ∃ i, c ∈ writes (tasks.getD i [])
  · obtain ⟨i, hi⟩ := hex
    rw [a2 i c hi, b2 i c hi]
  · have hn : ∀ i, c ∉ writes (tasks.getD i []) := fun i hi => hex ⟨i, hi⟩
    rw [a3 c hn, b3 c hn]

/-- The two parts combined for one launch of a regular (dense) kernel: for a greedy colouring of a space with
`OwnedArtificial`, the tasks "scatter loop of test element `te`" of one launch (arbitrary values, arbitrary `add`,
arbitrary trial elements) leave the same `result` array after every complete interleaving as after the
sequential loop. -/
theorem launch_schedule_independent {V : Type} (S : Space) (cm : Array Int) (h : greedy S = some cm)
    (hown : OwnedArtificial S) (L : List Nat) (hL : L ∈ launchLoop cm) (add : V → V → V)
    (trialRows : List (List Nat)) (val : Nat → Nat → Nat → Nat → V) (m0 : Nat × Nat → V)
    (sched : List Nat)
    (hc : Complete (L.map fun te => denseTask add (S.row te) trialRows (val te)) sched) :
    (run (start m0 (L.map fun te => denseTask add (S.row te) trialRows (val te))) sched).mem
      = (run (start m0 (L.map fun te => denseTask add (S.row te) trialRows (val te)))
          (seqSchedule (L.map fun te => denseTask add (S.row te) trialRows (val te)))).mem := by
  obtain ⟨_, _, _, hnd, _, _⟩ := colors_partition_support S cm h
  have hLn := hnd L hL
  refine (interleaving_independent m0 _ ?_ ?_ sched hc).1
  · intro i j hi hj hij c hci
    simp only [List.length_map] at hi hj
    have e1 : (L.map fun te => denseTask add (S.row te) trialRows (val te)).getD i []
        = denseTask add (S.row L[i]) trialRows (val L[i]) := by
      simp [List.getD, hi]
    have e2 : (L.map fun te => denseTask add (S.row te) trialRows (val te)).getD j []
        = denseTask add (S.row L[j]) trialRows (val L[j]) := by
      simp [List.getD, hj]
    rw [e1] at hci
    rw [e2]
    have hne : L[i] ≠ L[j] := by
      intro heq
      exact hij ((List.getElem_inj hLn).mp heq)
    exact rows_disjoint_in_launch S cm h hown L hL L[i] L[j] (List.getElem_mem _) (List.getElem_mem _) hne add
      trialRows _ _ c hci
  · intro i hi c hci
    simp only [List.length_map] at hi
    have e1 : (L.map fun te => denseTask add (S.row te) trialRows (val te)).getD i []
        = denseTask add (S.row L[i]) trialRows (val L[i]) := by
      simp [List.getD, hi]
    rw [e1] at hci ⊢
    rw [← Sched.reads_denseTask]
    exact hci

/-! ### The other `prange` loops: per-index slots and per-point columns -/

/-- singular kernels (`prange` over `index`): the slot `singularSlot` =
`nshape_trial*nshape_test*index + test_fun_index*nshape_trial + trial_fun_index` determines
`(index, test_fun_index, trial_fun_index)`: different iterations write different slots. -/
theorem singular_slots_injective (nshape_test nshape_trial index i j index' i' j' : Nat)
    (hi : i < nshape_test) (hj : j < nshape_trial) (hi' : i' < nshape_test) (hj' : j' < nshape_trial)
    (h : singularSlot nshape_test nshape_trial index i j = singularSlot nshape_test nshape_trial index' i' j') :
    index = index' ∧ i = i' ∧ j = j' := by
  unfold singularSlot at h
  apply Slot.triple_inj nshape_trial nshape_test index i j index' i' j' hi hj hi' hj'
  have e : ∀ x y : Nat, (x * nshape_test + y) * nshape_trial = nshape_trial * nshape_test * x + y * nshape_trial := by
    intro x y
    rw [Nat.add_mul, Nat.mul_comm nshape_trial nshape_test, Nat.mul_comm (nshape_test * nshape_trial) x,
      Nat.mul_assoc]
  rw [e, e]
  exact h

/-- sparse kernels (`prange` over `element_index`): the slot `sparseSlot` =
`(nshape_test*nshape_trial)*element_index + test_index*nshape_trial + trial_index` determines the triple. -/
theorem sparse_slots_injective (nshape_test nshape_trial index i j index' i' j' : Nat)
    (hi : i < nshape_test) (hj : j < nshape_trial) (hi' : i' < nshape_test) (hj' : j' < nshape_trial)
    (h : sparseSlot nshape_test nshape_trial index i j = sparseSlot nshape_test nshape_trial index' i' j') :
    index = index' ∧ i = i' ∧ j = j' := by
  unfold sparseSlot at h
  apply Slot.triple_inj nshape_trial nshape_test index i j index' i' j' hi hj hi' hj'
  have e : ∀ x y : Nat, (x * nshape_test + y) * nshape_trial = nshape_test * nshape_trial * x + y * nshape_trial := by
    intro x y
    rw [Nat.add_mul, Nat.mul_comm (nshape_test * nshape_trial) x, Nat.mul_assoc]
  rw [e, e]
  exact h

/-- potential / far-field kernels (`prange` over `point_index`): iteration `p` touches only the cells
`result[dim, p]`; different iterations touch different cells. -/
theorem potential_columns_disjoint (dim dim' p p' : Nat) (h : p ≠ p') : (dim, p) ≠ (dim', p') := by
  intro heq
  exact h (Prod.mk.inj heq).2

/-- `trace` (the load/store sequence that the correspondence compares with the accesses to `result` recorded while
the undecorated source of the kernels runs) determines the `reads` and `writes` the theorems above speak about. -/
theorem trace_determines_reads_writes {C V : Type} (p : Task C V) :
    reads p = ((trace p).filter fun x => !x.1).map (·.2) ∧ writes p = ((trace p).filter fun x => x.1).map (·.2) :=
  Sched.trace_spec p

/-- consequently the singular / sparse / potential `prange` loops are schedule independent as well: tasks that
only touch cells tagged with their own iteration index satisfy the hypotheses of `interleaving_independent`. -/
theorem indexed_tasks_independent {C V : Type} [DecidableEq C] (m0 : C → V) (tasks : List (Task C V))
    (owner : C → Nat)
    (hw : ∀ i, i < tasks.length → ∀ c, c ∈ writes (tasks.getD i []) → owner c = i)
    (hr : ∀ i, i < tasks.length → ∀ c, c ∈ reads (tasks.getD i []) → c ∈ writes (tasks.getD i []))
    (sched : List Nat) (hc : Complete tasks sched) :
    (run (start m0 tasks) sched).mem = (run (start m0 tasks) (seqSchedule tasks)).mem :=
  (interleaving_independent m0 tasks
    (fun i j hi hj hij c hci hcj => hij ((hw i hi c hci).symm.trans (hw j hj c hcj))) hr sched hc).1

/-- the executable premise check used by the driver is sound -/
theorem ownedCheck_sound (S : Space) (h : ownedCheck S = true) : OwnedArtificial S :=
  fun e he hs _ d hi => Color.ownedCheck_sound S h e he hs d (List.mem_of_getElem? hi)

/-! ### Non-vacuity -/

/-- three elements, all multipliers 1: 0 and 1 share the dofs 1, 2; 1 and 2 share the dof 3 -/
def ex3 : Space := ⟨3, #[true, true, true], #[#[0, 1, 2], #[1, 2, 3], #[3, 4, 5]], #[#[1, 1, 1], #[1, 1, 1], #[1, 1, 1]]⟩

example : greedy ex3 = some #[0, 1, 0] := by decide
example : launchLoop #[0, 1, 0] = [[0, 2], [1]] := by decide
example : OwnedArtificial ex3 := ownedCheck_sound ex3 (by decide)
example : colorOf #[0, 1, 0] 0 ≠ colorOf #[0, 1, 0] 1 :=
  greedy_proper ex3 _ (by decide) (ownedCheck_sound ex3 (by decide)) 0 1 (by decide) (by decide) (by decide) 1
    (by decide) (by decide)

/-- a segment-like space: element 3 is outside the support, elements 0 and 2 have artificial zero-multiplier
entries that repeat a dof of the same row; every pair of support elements shares a dof -> three colours -/
def ex4 : Space :=
  ⟨4, #[true, true, true, false], #[#[0, 1, 1], #[1, 2, 0], #[2, 0, 2], #[0, 0, 0]],
    #[#[1, 1, 0], #[1, 1, 1], #[1, -1, 0], #[0, 0, 0]]⟩

example : greedy ex4 = some #[0, 1, 2, -1] := by decide
example : launchLoop #[0, 1, 2, -1] = [[0], [1], [2]] := by decide
example : OwnedArtificial ex4 := ownedCheck_sound ex4 (by decide)

/-- The premise `OwnedArtificial` cannot be dropped: element 0 carries dof 7 only with a ZERO multiplier, element 1
with a non-zero one.  Element 1 does not find element 0 in `global2local[7]`, both get colour 0 and one launch
would update row 7 of `result` from two threads. -/
def exBad : Space := ⟨2, #[true, true], #[#[5, 7], #[7, 8]], #[#[1, 0], #[1, 1]]⟩

example : greedy exBad = some #[0, 0] ∧ 7 ∈ exBad.row 0 ∧ 7 ∈ exBad.row 1 ∧ ownedCheck exBad = false := by decide

/-- a non-associative, non-commutative "addition" -/
def wadd (a b : Int) : Int := 2 * a - b

/-- two tasks with disjoint cells: `result[0] += 5; result[0] += 7` and `result[1] += 3` -/
def exTasks : List (Task Nat Int) := [rmw wadd 0 5 ++ rmw wadd 0 7, rmw wadd 1 3]

theorem exTasks_complete : Complete exTasks [0, 1, 0, 1, 0, 0] := by unfold Complete; decide
example : seqSchedule exTasks = [0, 0, 0, 0, 1, 1] := by decide
example : ((run (start (fun _ => 1) exTasks) [0, 1, 0, 1, 0, 0]).mem 0,
           (run (start (fun _ => 1) exTasks) [0, 1, 0, 1, 0, 0]).mem 1) = (-13, -1) := by decide
example : (run (start (fun _ => (1 : Int)) exTasks) [0, 1, 0, 1, 0, 0]).mem
        = (run (start (fun _ => (1 : Int)) exTasks) (seqSchedule exTasks)).mem :=
  (interleaving_independent _ exTasks
    (by
      intro i j hi hj
      have hi' : i = 0 ∨ i = 1 := by simp only [exTasks, List.length_cons, List.length_nil] at hi; omega
      have hj' : j = 0 ∨ j = 1 := by simp only [exTasks, List.length_cons, List.length_nil] at hj; omega
      rcases hi' with rfl | rfl <;> rcases hj' with rfl | rfl <;> decide)
    (by decide) _ exTasks_complete).1

/-- the model does exhibit lost updates when the hypothesis fails: two tasks `result[0] += 5`, `result[0] += 7`
give -13 sequentially and -5 when both load before either stores -/
def exRace : List (Task Nat Int) := [rmw wadd 0 5, rmw wadd 0 7]

example : (run (start (fun _ => (1 : Int)) exRace) (seqSchedule exRace)).mem 0 = -13 ∧
          (run (start (fun _ => (1 : Int)) exRace) [0, 1, 0, 1]).mem 0 = -5 := by decide

example : slotOrder (singularSlot 2 3) 2 2 3 = [0, 1, 2, 3, 4, 5, 6, 7, 8, 9, 10, 11] := by decide
example : trace (denseTask wadd [4, 7] [[1], [2]] fun _ _ _ => 0)
    = [(false, (4, 1)), (true, (4, 1)), (false, (7, 1)), (true, (7, 1)),
       (false, (4, 2)), (true, (4, 2)), (false, (7, 2)), (true, (7, 2))] := by decide

end BemppVerif.C16
