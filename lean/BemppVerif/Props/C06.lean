/-
C06 — Hypersingular and Maxwell operators equal their single-layer decompositions.

The decomposition identities are GENERATED theorems about the traces of the real assemblers
(`BemppVerif.AsmMatch.hyp_regular_is_curl_curl_sl_r_c`, `hyp_singular_is_curl_curl_sl_k_i_j`, and the Helmholtz / modified
Helmholtz variants): for the Laplace kernel every entry of the traced hypersingular regular assembler equals
`Σ (curl_i^τ · curl_j^σ) · mult · mult · V0[τ,σ]` with `V0` the trace of the single-layer assembler on the element-wise
constant space, and likewise for every singular local integral.  This file proves the facts about the surface curls
that turn these local identities into the statements of the property.
-/
import BemppVerif.Gen.AsmMatchDefs
import BemppVerif.Lemmas.Maxwell
import Mathlib.Data.Complex.Basic
import Mathlib.Tactic.Ring
import Mathlib.Tactic.LinearCombination
import Mathlib.Tactic.FieldSimp
import Mathlib.Tactic.NormNum

namespace BemppVerif.C06
open BemppVerif.AsmMatch

/-- the reference gradients of the three P1 shape functions sum to zero (partition of unity) -/
theorem refGrad_sum_zero {K : Type} [Field K] (a : Nat) (ha : a < 2) :
    refGrad (K := K) 0 a + refGrad 1 a + refGrad 2 a = 0 := by
  rcases a with _ | _ | a
  · simp [refGrad]
  · simp [refGrad]
  · omega

/-- **The surface curls of the three local P1 functions sum to zero on every element**, for every geometry: hence the
hypersingular local matrix `(curl_i · curl_j) V0` annihilates constants, and so does the assembled matrix whenever all
three local dofs of every element are active with multiplier 1 (closed surface, full P1 space). -/
theorem curl_sum_zero {K : Type} [Field K] (N : Nat → Nat → K) (JIT : Nat → Nat → Nat → K) (nm : Nat → K) (e c : Nat) :
    curlS N JIT nm e 0 c + curlS N JIT nm e 1 c + curlS N JIT nm e 2 c = 0 := by
  rcases c with _ | _ | c <;> simp [curlS, cross, surfGrad, refGrad] <;> ring

/-- rows of the local hypersingular matrix sum to zero -/
theorem hyp_local_annihilates_constants {K : Type} [Field K] (N : Nat → Nat → K) (JIT : Nat → Nat → Nat → K)
    (nmt nms : Nat → K) (τ σ i : Nat) (v0 : K) :
    (curlT N JIT nmt τ i 0 * curlS N JIT nms σ 0 0 + curlT N JIT nmt τ i 1 * curlS N JIT nms σ 0 1
        + curlT N JIT nmt τ i 2 * curlS N JIT nms σ 0 2) * v0
    + (curlT N JIT nmt τ i 0 * curlS N JIT nms σ 1 0 + curlT N JIT nmt τ i 1 * curlS N JIT nms σ 1 1
        + curlT N JIT nmt τ i 2 * curlS N JIT nms σ 1 2) * v0
    + (curlT N JIT nmt τ i 0 * curlS N JIT nms σ 2 0 + curlT N JIT nmt τ i 1 * curlS N JIT nms σ 2 1
        + curlT N JIT nmt τ i 2 * curlS N JIT nms σ 2 2) * v0 = 0 := by
  have h0 := curl_sum_zero N JIT nms σ 0
  have h1 := curl_sum_zero N JIT nms σ 1
  have h2 := curl_sum_zero N JIT nms σ 2
  linear_combination (curlT N JIT nmt τ i 0 * v0) * h0 + (curlT N JIT nmt τ i 1 * v0) * h1
    + (curlT N JIT nmt τ i 2 * v0) * h2

/-- the curl·curl coefficient matrix is symmetric under exchanging the roles of test and trial data: together with a
symmetric single-layer local integral this makes the regular part of the hypersingular matrix symmetric -/
theorem curl_product_symmetric {K : Type} [Field K] (N : Nat → Nat → K) (JIT : Nat → Nat → Nat → K) (nm : Nat → K)
    (τ σ i j : Nat) :
    (curlT N JIT nm τ i 0 * curlS N JIT nm σ j 0 + curlT N JIT nm τ i 1 * curlS N JIT nm σ j 1
        + curlT N JIT nm τ i 2 * curlS N JIT nm σ j 2)
    = (curlT N JIT nm σ j 0 * curlS N JIT nm τ i 0 + curlT N JIT nm σ j 1 * curlS N JIT nm τ i 1
        + curlT N JIT nm σ j 2 * curlS N JIT nm τ i 2) := by
  simp only [curlT, curlS]; ring

/-- `jac_inv_trans = J (JᵀJ)⁻¹` satisfies `Jᵀ · jac_inv_trans = I`: the vector `jac_inv_trans · ∇̂φ̂` is the surface
gradient (its components along the two Jacobian columns are the reference gradient).  Stated for the 2×2 Gram matrix
`g` with determinant `D ≠ 0`. -/
theorem jac_inv_trans_is_surface_gradient {K : Type} [Field K] (a b : Fin 3 → K) (D : K)
    (hD : D = (a 0 * a 0 + a 1 * a 1 + a 2 * a 2) * (b 0 * b 0 + b 1 * b 1 + b 2 * b 2)
          - (a 0 * b 0 + a 1 * b 1 + a 2 * b 2) ^ 2) (hD0 : D ≠ 0) (g0 g1 : K) :
    let gaa := a 0 * a 0 + a 1 * a 1 + a 2 * a 2
    let gbb := b 0 * b 0 + b 1 * b 1 + b 2 * b 2
    let gab := a 0 * b 0 + a 1 * b 1 + a 2 * b 2
    -- columns of J (JᵀJ)⁻¹ applied to the reference gradient (g0, g1)
    let s : Fin 3 → K := fun c => (a c * (gbb * g0 - gab * g1) + b c * (gaa * g1 - gab * g0)) / D
    (a 0 * s 0 + a 1 * s 1 + a 2 * s 2 = g0) ∧ (b 0 * s 0 + b 1 * s 1 + b 2 * s 2 = g1) := by
  intro gaa gbb gab s
  constructor <;> simp only [s, gaa, gbb, gab] <;> field_simp <;> rw [hD] <;> ring

/-- Non-vacuity: a concrete element over ℚ where the three surface curls are not all zero but sum to zero. -/
example : curlS (K := ℚ) (fun _ c => if c = 2 then 1 else 0) (fun _ c a => if c = a then 1 else 0) (fun _ => 1) 0 1 1 = 1 ∧
    curlS (K := ℚ) (fun _ c => if c = 2 then 1 else 0) (fun _ c a => if c = a then 1 else 0) (fun _ => 1) 0 0 1
    + curlS (K := ℚ) (fun _ c => if c = 2 then 1 else 0) (fun _ c a => if c = a then 1 else 0) (fun _ => 1) 0 1 1
    + curlS (K := ℚ) (fun _ c => if c = 2 then 1 else 0) (fun _ c a => if c = a then 1 else 0) (fun _ => 1) 0 2 1 = 0 := by
  constructor <;> norm_num [curlS, cross, surfGrad, refGrad]

/-! ### Maxwell: the pair arithmetic of the generated theorems is complex arithmetic

The generated Maxwell theorems (`BemppVerif.AsmMatch.mx_*`) are equations in `CP K` (pairs with the tracer's complex
arithmetic) over an arbitrary field.  For `K = ℝ` the map `(re, im) ↦ re + i·im` commutes with every operation that occurs
in them, so each such equation is an equation between complex numbers; `CP.ik kr ki` is `i·k` for `k = kr + i·ki`. -/

/-- `(re, im) ↦ re + i im` -/
def cpToComplex (z : CP ℝ) : ℂ := ⟨z.re, z.im⟩

theorem cpToComplex_injective : Function.Injective cpToComplex := by
  intro a b h
  cases a; cases b
  simp only [cpToComplex, Complex.mk.injEq] at h
  simp [h.1, h.2]

theorem cpToComplex_ofK (x : ℝ) : cpToComplex (CP.ofK x) = (x : ℂ) := by
  apply Complex.ext <;> simp [cpToComplex, CP.ofK]

theorem cpToComplex_add (a b : CP ℝ) : cpToComplex (a + b) = cpToComplex a + cpToComplex b := by
  apply Complex.ext <;> simp [cpToComplex, CP.add_re, CP.add_im]

theorem cpToComplex_sub (a b : CP ℝ) : cpToComplex (a - b) = cpToComplex a - cpToComplex b := by
  apply Complex.ext <;> simp [cpToComplex, CP.sub_re, CP.sub_im]

theorem cpToComplex_neg (a : CP ℝ) : cpToComplex (-a) = -cpToComplex a := by
  apply Complex.ext <;> simp [cpToComplex, CP.neg_re, CP.neg_im]

theorem cpToComplex_mul (a b : CP ℝ) : cpToComplex (a * b) = cpToComplex a * cpToComplex b := by
  apply Complex.ext <;> simp [cpToComplex, CP.mul_re, CP.mul_im]

theorem cpToComplex_div (a b : CP ℝ) : cpToComplex (a / b) = cpToComplex a / cpToComplex b := by
  apply Complex.ext <;>
    simp [cpToComplex, CP.div_re, CP.div_im, Complex.div_re, Complex.div_im, Complex.normSq_apply] <;> ring

theorem cpToComplex_divK (a : CP ℝ) (x : ℝ) : cpToComplex (CP.divK a x) = cpToComplex a / (x : ℂ) := by
  apply Complex.ext <;>
    simp [cpToComplex, CP.divK_re, CP.divK_im, Complex.div_ofReal_re, Complex.div_ofReal_im]

/-- `CP.ik kr ki` is `i k` with `k = kr + i ki` -/
theorem cpToComplex_ik (kr ki : ℝ) : cpToComplex (CP.ik kr ki) = Complex.I * (⟨kr, ki⟩ : ℂ) := by
  apply Complex.ext <;> simp [cpToComplex, CP.ik]

end BemppVerif.C06
