/-
C15 (and C14: application of blocked operators) — the products of the discrete blocked operators are products with
the matrix `to_dense()` builds, for EVERY block layout.

`Model/Blocked.lean` mirrors the offset loops of `BlockedDiscreteOperator._matvec`, `._matmat` and
`GeneralizedDiscreteBlockedOperator._matmat` (bempp_cl/api/assembly/blocked_operator.py); the correspondence
(props/c15_blocked.py) runs the real classes and the model on the same exactly representable data on every run.
`Model/Solve.lean` (the solver wrappers) represents the weak form of a blocked operator by `toDense blocks`: these
theorems justify that representation, which was only probed with unit vectors before.
-/
import BemppVerif.Model.Blocked
import BemppVerif.Lemmas.Blocked

namespace BemppVerif.C15
open BemppVerif.Model.Solve BemppVerif.Model.Blocked BemppVerif.Lemmas.Blocked

variable {K : Type} [Semiring K]

/-- **`BlockedDiscreteOperator._matvec(x)` = `to_dense() @ x`** for every number of block rows and columns, every
row / column dimension (zero included) and every vector, provided the blocks have the sizes the constructor
enforces (`WF`: block `(i, j)` has `rows[i]` rows of length `cols[j]`) and there is at least one block column.
A change of the running offsets (`col_dim += rows[j]`, a forgotten `row_dim` advance, a slice by the wrong
dimension) breaks either this proof's model or its correspondence with the code. -/
theorem blocked_matvec_eq_dense (blocks : List (List (Mat K))) (rows cols : List Nat)
    (h : WF blocks rows cols) (hc : cols ≠ []) (x : Vec K) :
    matvecBlocked blocks rows cols x = matvec (toDense blocks) x :=
  matvecBlocked_eq blocks rows cols h hc x

/-- **`BlockedDiscreteOperator._matmat(X)` = `to_dense() @ X`**, column by column, for every layout. -/
theorem blocked_matmat_eq_dense (blocks : List (List (Mat K))) (rows cols : List Nat)
    (h : WF blocks rows cols) (hc : cols ≠ []) (X : List (Vec K)) :
    matmatBlocked blocks rows cols X = X.map (matvec (toDense blocks)) := by
  rw [matmatBlocked_eq_map]
  apply List.map_congr_left
  intro x _
  exact matvecBlocked_eq blocks rows cols h hc x

/-- `_matmat` and `_matvec` run the same offsets: without any hypothesis on the blocks, the 2-D product is the 1-D
product of every column (so a defect in one of the two loops only is visible as a difference between them). -/
theorem blocked_matmat_is_columnwise_matvec (blocks : List (List (Mat K))) (rows cols : List Nat) (X : List (Vec K)) :
    matmatBlocked blocks rows cols X = X.map (matvecBlocked blocks rows cols) :=
  matmatBlocked_eq_map blocks rows cols X

/-- **`GeneralizedDiscreteBlockedOperator._matmat` = `numpy.block(...) @`**: block rows may partition the columns
differently; every block carries its `shape`, the loop advances by `elem.shape[1]` and starts every block row with
`row[0].shape[0]` zeros.  Hypothesis = the constructor's sanity check (`GRowWF`: within a row all blocks have the
same number of rows; the stored shape is the shape of the matrix; no empty row). -/
theorem generalized_matmat_eq_dense (blocks : List (List (GBlock K))) (h : ∀ row ∈ blocks, GRowWF row)
    (X : List (Vec K)) :
    X.map (genMatvec blocks) = X.map (matvec (genToDense blocks)) := by
  apply List.map_congr_left
  intro x _
  exact genMatvec_eq blocks h x

/-- **`BlockedDiscreteOperator.__init__` only accepts consistent block arrays**: when the dimension bookkeeping
returns `(rows, cols)` there is one entry per block row / column and every block that is not `None` has `rows[i]`
rows and `cols[j]` columns (so, with the `None` entries replaced by zero blocks of that size, the hypothesis `WF` of
`blocked_matvec_eq_dense` holds for everything the constructor lets through). -/
theorem blocked_ctor_dims_sound (ss : List (List Shape)) (ncols : Nat) (rows cols : List Nat)
    (h : ctorDims ss ncols = .ok (rows, cols)) :
    rows.length = ss.length ∧ cols.length = ncols ∧
    ∀ i j r c, (ss.getD i []).getD j none = some (r, c) → i < ss.length → j < ncols →
      rows.getD i 0 = r ∧ cols.getD j 0 = c :=
  ctorDims_sound ss ncols rows cols h

/-- **Index form ⇒ `WF`, hence the product theorem for whatever the constructor accepted**: if there are
`rows.length` block rows of `cols.length` blocks and block `(i, j)` has `rows[i]` rows of length `cols[j]` — which is
what `blocked_ctor_dims_sound` says about the shape table of an accepted array, with the `None` entries filled by
`ZeroDiscreteBoundaryOperator(rows[i], cols[j])` as `__init__` does — then `_matvec(x) = to_dense() @ x`. -/
theorem blocked_matvec_eq_dense_of_index (blocks : List (List (Mat K))) (rows cols : List Nat)
    (hlen : blocks.length = rows.length) (hc : cols ≠ [])
    (hrow : ∀ i (hi : i < blocks.length), (blocks[i]).length = cols.length)
    (hblk : ∀ i j (hi : i < blocks.length) (hj : j < (blocks[i]).length),
      ((blocks[i])[j]).length = rows.getD i 0 ∧ ∀ ρ ∈ (blocks[i])[j], ρ.length = cols.getD j 0)
    (x : Vec K) :
    matvecBlocked blocks rows cols x = matvec (toDense blocks) x :=
  matvecBlocked_eq blocks rows cols (WF_of_index blocks rows cols hlen hrow hblk) hc x

example : ctorDims [[some (1, 2), none], [some (3, 2), some (3, 4)]] 2 = .ok ([1, 3], [2, 4]) := by decide
/-- an inconsistent column and a column without operator are rejected -/
example : ctorDims [[some (1, 2), none], [some (3, 5), some (3, 4)]] 2 = .error () := by decide
example : ctorDims [[some (1, 2), none], [some (3, 2), none]] 2 = .error () := by decide

/-! ### Non-vacuity: concrete layouts with different block sizes meet the hypotheses, and the statement computes -/

/-- a 2×2 layout with rows (1, 2) and columns (2, 1) -/
def exBlocks : List (List (Mat Int)) := [[[[1, 2]], [[3]]], [[[4, 5], [6, 7]], [[8], [9]]]]

example : WF exBlocks [1, 2] [2, 1] := by
  unfold WF RowWF exBlocks
  refine .cons (.cons ⟨rfl, by simp⟩ (.cons ⟨rfl, by simp⟩ .nil)) (.cons (.cons ⟨rfl, by simp⟩ (.cons ⟨rfl, by simp⟩ .nil)) .nil)

example : matvecBlocked exBlocks [1, 2] [2, 1] [1, 10, 100] = [321, 854, 976] := by decide
example : matvec (toDense exBlocks) [1, 10, 100] = [321, 854, 976] := by decide

/-- the slip of seed C14-d (`col_dim += rows[j]`) changes the answer on this layout: the model is sensitive to it -/
example : rowLoop (exBlocks.getD 1 []) [1, 2] [1, 10, 100] 0 [0, 0] ≠ matvec (hstack (exBlocks.getD 1 [])) [1, 10, 100] := by
  decide

/-- a generalized layout whose two block rows split 3 columns as (2, 1) and (1, 2) -/
def exGen : List (List (GBlock Int)) :=
  [[⟨[[1, 2]], 1, 2⟩, ⟨[[3]], 1, 1⟩], [⟨[[4], [5]], 2, 1⟩, ⟨[[6, 7], [8, 9]], 2, 2⟩]]

example : ∀ row ∈ exGen, GRowWF row := by
  intro row hrow
  simp only [exGen, List.mem_cons, List.not_mem_nil, or_false] at hrow
  rcases hrow with rfl | rfl
  · exact ⟨1, by simp, by simp⟩
  · exact ⟨2, by simp, by simp⟩

example : genMatvec exGen [1, 10, 100] = matvec (genToDense exGen) [1, 10, 100] := by decide

end BemppVerif.C15
