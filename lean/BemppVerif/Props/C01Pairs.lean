/-
C01 (link to C11) — every ordered pair of supported elements is integrated by exactly one rule.

Combines the model of the singular bookkeeping (`Model/Sing.lean`, tied to `get_arrays()` by correspondence) with the
adjacency theorems of C11 (`edge/vertex_adjacency_sound`, `_complete`, `_no_duplicates`, proved for every triangle
soup): the list of singular pairs built from the grid's adjacency tables contains, for supported elements τ, σ,
  * exactly one pair (the coincident one) if τ = σ,
  * exactly one edge-adjacent pair if τ ≠ σ share exactly two vertices,
  * exactly one vertex-adjacent pair if they share exactly one vertex,
  * no pair if they share no vertex,
which are exactly the cases in which the regular kernel skips (`elements_adjacent`) resp. integrates the pair.
-/
import BemppVerif.Props.C11
import BemppVerif.Model.Sing

namespace BemppVerif.C01
open BemppVerif.Model.Topo BemppVerif.Model.Sing BemppVerif.Model.Asm BemppVerif.Lemmas.Topo BemppVerif.C11

def toEdgeCol (c : Nat × Nat × Nat × Nat × Nat × Nat) : EdgeCol := ⟨c.1, c.2.1, c.2.2.1, c.2.2.2.1, c.2.2.2.2.1, c.2.2.2.2.2⟩
def toVertCol (c : Nat × Nat × Nat × Nat) : VertCol := ⟨c.1, c.2.1, c.2.2.1, c.2.2.2⟩

/-- the singular pairs of a grid with element list `els` for the given supports and singular order `n` -/
def gridPairs (n : Nat) (els : List Tri) (ts ss : Nat → Bool) : List SingPair :=
  singPairs n els.length ts ss ((edgeAdjacency els).map toEdgeCol) ((vertexAdjacency els).map toVertCol)

theorem filter_singleton_of_nodup_keys {α β : Type} [DecidableEq β] (l : List α) (key : α → β)
    (h : (l.map key).Nodup) (a : α) (ha : a ∈ l) :
    l.filter (fun x => decide (key x = key a)) = [a] := by
  induction l with
  | nil => simp at ha
  | cons b l ih =>
    simp only [List.map_cons, List.nodup_cons] at h
    rcases List.mem_cons.mp ha with rfl | hal
    · have : l.filter (fun x => decide (key x = key a)) = [] := by
        rw [List.filter_eq_nil_iff]
        intro x hx hk
        simp only [decide_eq_true_eq] at hk
        exact h.1 (hk ▸ List.mem_map_of_mem hx)
      simp [List.filter_cons, this]
    · have hb : key b ≠ key a := by
        intro e
        exact h.1 (e ▸ List.mem_map_of_mem hal)
      simp [List.filter_cons, hb, ih h.2 hal]

/-- **Exactly one rule per pair of supported elements.** -/
theorem pairs_cover_adjacent_exactly_once (n : Nat) (els : List Tri) (hnd : NonDegenerate els) (ts ss : Nat → Bool)
    (τ σ : Nat) (t s : Tri) (hτ : els[τ]? = some t) (hσ : els[σ]? = some s) (hts : ts τ = true) (hss : ss σ = true) :
    let F := (gridPairs n els ts ss).filter (fun pr => decide (pr.testElem = τ ∧ pr.trialElem = σ))
    (τ = σ → F = [⟨τ, τ, 0, 0, 0, nCoinc n⟩]) ∧
    (τ ≠ σ → (commonVertices t s).length = 2 →
        ∃ pr, F = [pr] ∧ pr.npoints = nEdge n ∧ pr.weightsOffset = nCoinc n) ∧
    (τ ≠ σ → (commonVertices t s).length = 1 →
        ∃ pr, F = [pr] ∧ pr.npoints = nVert n ∧ pr.weightsOffset = nCoinc n + nEdge n) ∧
    (τ ≠ σ → (commonVertices t s).length = 0 → F = []) := by
  intro F
  have hτlt : τ < els.length := (List.getElem?_eq_some_iff.mp hτ).1
  -- the three blocks of the pair list
  let C := ((List.range els.length).filter fun e => ts e && ss e).map (fun e => (⟨e, e, 0, 0, 0, nCoinc n⟩ : SingPair))
  let E := (((edgeAdjacency els).map toEdgeCol).filter fun c => ts c.e0 && ss c.e1).map (fun c =>
      (⟨c.e0, c.e1, (edgeOffset n c.i0 c.i1).getD 0, (edgeOffset n c.j0 c.j1).getD 0, nCoinc n, nEdge n⟩ : SingPair))
  let V := (((vertexAdjacency els).map toVertCol).filter fun c => ts c.e0 && ss c.e1).map (fun c =>
      (⟨c.e0, c.e1, vertexOffset n c.i, vertexOffset n c.j, nCoinc n + nEdge n, nVert n⟩ : SingPair))
  have hF : F = C.filter (fun pr => decide (pr.testElem = τ ∧ pr.trialElem = σ))
      ++ E.filter (fun pr => decide (pr.testElem = τ ∧ pr.trialElem = σ))
      ++ V.filter (fun pr => decide (pr.testElem = τ ∧ pr.trialElem = σ)) := by
    simp only [F, gridPairs, singPairs, List.filter_append, C, E, V]
  -- membership facts from C11
  have hEsound := edge_adjacency_sound els hnd
  have hVsound := vertex_adjacency_sound els hnd
  -- coincident block
  have hC : C.filter (fun pr => decide (pr.testElem = τ ∧ pr.trialElem = σ))
      = if τ = σ then [⟨τ, τ, 0, 0, 0, nCoinc n⟩] else [] := by
    simp only [C, List.filter_map, Function.comp_def, List.filter_filter]
    by_cases h : τ = σ
    · subst h
      simp only [if_true]
      have : ((List.range els.length).filter fun e => (decide (e = τ ∧ e = τ) && (ts e && ss e))) = [τ] := by
        have h1 : ∀ e, (decide (e = τ ∧ e = τ) && (ts e && ss e)) = decide (e = τ) := by
          intro e
          by_cases he : e = τ
          · subst he; simp [hts, hss]
          · simp [he]
        simp only [h1]
        have := filter_singleton_of_nodup_keys (List.range els.length) id (by simpa using List.nodup_range) τ
          (List.mem_range.mpr hτlt)
        simpa using this
      rw [this]; rfl
    · simp only [h, if_false, List.map_eq_nil_iff, List.filter_eq_nil_iff]
      intro e _ he
      simp only [Bool.and_eq_true, decide_eq_true_eq] at he
      exact h (he.1.1.symm.trans he.1.2)
  -- a generic statement for the edge and vertex blocks: columns with e0 = τ, e1 = σ
  have hEkey : ∀ c ∈ edgeAdjacency els, ∃ t' s', els[c.1]? = some t' ∧ els[c.2.1]? = some s' ∧ c.1 ≠ c.2.1 ∧
      (commonVertices t' s').length = 2 := fun c hc => by
    obtain ⟨t', s', h1, h2, h3, h4, _⟩ := hEsound c hc
    exact ⟨t', s', h1, h2, h3, h4⟩
  have hVkey : ∀ c ∈ vertexAdjacency els, ∃ t' s', els[c.1]? = some t' ∧ els[c.2.1]? = some s' ∧ c.1 ≠ c.2.1 ∧
      (commonVertices t' s').length = 1 := fun c hc => by
    obtain ⟨t', s', h1, h2, h3, h4, _⟩ := hVsound c hc
    exact ⟨t', s', h1, h2, h3, h4⟩
  -- edge block is empty unless τ ≠ σ share two vertices
  have hE_nil : (τ = σ ∨ (commonVertices t s).length ≠ 2) →
      E.filter (fun pr => decide (pr.testElem = τ ∧ pr.trialElem = σ)) = [] := by
    intro hcase
    simp only [E, List.filter_map, Function.comp_def, List.map_eq_nil_iff, List.filter_filter, List.filter_eq_nil_iff]
    intro c hc hcond
    simp only [toEdgeCol, Bool.and_eq_true, decide_eq_true_eq] at hcond
    have hcond := of_decide_eq_true hcond.1
    obtain ⟨t', s', h1, h2, h3, h4⟩ := hEkey c hc
    rcases hcase with h | h
    · exact h3 (hcond.1.trans (h.trans hcond.2.symm))
    · rw [hcond.1, hτ] at h1; rw [hcond.2, hσ] at h2
      cases h1; cases h2; exact h h4
  have hV_nil : (τ = σ ∨ (commonVertices t s).length ≠ 1) →
      V.filter (fun pr => decide (pr.testElem = τ ∧ pr.trialElem = σ)) = [] := by
    intro hcase
    simp only [V, List.filter_map, Function.comp_def, List.map_eq_nil_iff, List.filter_filter, List.filter_eq_nil_iff]
    intro c hc hcond
    simp only [toVertCol, Bool.and_eq_true, decide_eq_true_eq] at hcond
    have hcond := of_decide_eq_true hcond.1
    obtain ⟨t', s', h1, h2, h3, h4⟩ := hVkey c hc
    rcases hcase with h | h
    · exact h3 (hcond.1.trans (h.trans hcond.2.symm))
    · rw [hcond.1, hτ] at h1; rw [hcond.2, hσ] at h2
      cases h1; cases h2; exact h h4
  refine ⟨?_, ?_, ?_, ?_⟩
  · intro h
    rw [hF, hC, hE_nil (Or.inl h), hV_nil (Or.inl h)]
    simp [h]
  · intro hne h2
    have hmem := edge_adjacency_complete els hnd τ σ t s hτ hσ h2
    have hnd' := edge_adjacency_no_duplicates els
    -- exactly one column with key (τ, σ)
    have huniq := filter_singleton_of_nodup_keys (edgeAdjacency els) (fun c => (c.1, c.2.1)) hnd' _ hmem
    simp only at huniq
    refine ⟨⟨τ, σ, (edgeOffset n (sharedEdgeInfo t s).1 (sharedEdgeInfo t s).2.1).getD 0,
      (edgeOffset n (sharedEdgeInfo t s).2.2.1 (sharedEdgeInfo t s).2.2.2).getD 0, nCoinc n, nEdge n⟩, ?_, rfl, rfl⟩
    rw [hF, hC, hV_nil (Or.inr (by omega))]
    simp only [hne, if_false, List.nil_append, List.append_nil]
    simp only [E, List.filter_map, Function.comp_def, List.filter_filter]
    have hfilt : ((edgeAdjacency els).filter fun c =>
        (decide ((toEdgeCol c).e0 = τ ∧ (toEdgeCol c).e1 = σ) && (ts (toEdgeCol c).e0 && ss (toEdgeCol c).e1)))
        = [(τ, σ, sharedEdgeInfo t s)] := by
      rw [← huniq]
      apply List.filter_congr
      intro c _
      by_cases hk : (c.1, c.2.1) = (τ, σ)
      · have h1 : c.1 = τ := (Prod.mk.inj hk).1
        have h2' : c.2.1 = σ := (Prod.mk.inj hk).2
        simp [toEdgeCol, h1, h2', hts, hss]
      · have : ¬ (c.1 = τ ∧ c.2.1 = σ) := fun h => hk (Prod.ext h.1 h.2)
        simp [toEdgeCol, this, hk]
    rw [hfilt]
    simp [toEdgeCol]
  · intro hne h1
    have hmem := vertex_adjacency_complete els hnd τ σ t s hτ hσ h1
    have hnd' := vertex_adjacency_no_duplicates els
    have huniq := filter_singleton_of_nodup_keys (vertexAdjacency els) (fun c => (c.1, c.2.1)) hnd' _ hmem
    simp only at huniq
    refine ⟨⟨τ, σ, vertexOffset n (sharedVertexInfo t s).1, vertexOffset n (sharedVertexInfo t s).2,
      nCoinc n + nEdge n, nVert n⟩, ?_, rfl, rfl⟩
    rw [hF, hC, hE_nil (Or.inr (by omega))]
    simp only [hne, if_false, List.nil_append]
    simp only [V, List.filter_map, Function.comp_def, List.filter_filter]
    have hfilt : ((vertexAdjacency els).filter fun c =>
        (decide ((toVertCol c).e0 = τ ∧ (toVertCol c).e1 = σ) && (ts (toVertCol c).e0 && ss (toVertCol c).e1)))
        = [(τ, σ, (sharedVertexInfo t s).1, (sharedVertexInfo t s).2)] := by
      rw [← huniq]
      apply List.filter_congr
      intro c _
      by_cases hk : (c.1, c.2.1) = (τ, σ)
      · have h1' : c.1 = τ := (Prod.mk.inj hk).1
        have h2' : c.2.1 = σ := (Prod.mk.inj hk).2
        simp [toVertCol, h1', h2', hts, hss]
      · have : ¬ (c.1 = τ ∧ c.2.1 = σ) := fun h => hk (Prod.ext h.1 h.2)
        simp [toVertCol, this, hk]
    rw [hfilt]
    simp [toVertCol]
  · intro hne h0
    rw [hF, hC, hE_nil (Or.inr (by omega)), hV_nil (Or.inr (by omega))]
    simp [hne]

end BemppVerif.C01
